// Package c15: runtime evidence for property C15 (rendering is deterministic, renders do not
// interfere).  There is no model to diff against: the judge is the property's own statement —
// two renders of the same document must hand the backend the same calls with the same arguments.
//
//	(a) repeat      same document rendered again in the same process (fresh and shared font configuration)
//	(b) fresh       same document in two fresh processes (re-exec of this binary as a worker)
//	(c) history     same document after different histories of OTHER renders (in process and in the workers,
//	                which render their chunk in different orders)
//	(d) concurrent  N in {2,4,8} documents rendered at the same time, each with its own font configuration,
//	                each trace compared with its sequential trace
//	(e) race        thorough tier: the concurrent scenario under the Go race detector
//
// A difference is a "judge" finding whose Key is "anchor-order" when the two traces differ only by
// the order of the anchors inside a page (F15-1, fixed in /repo by 37ac465: a regression if seen
// again), the name of a known order dependence (KF15-2..4) when an ablation attributes it, else
// the first differing call.
package c15

import (
	"crypto/sha256"
	"encoding/hex"
	"encoding/json"
	"fmt"
	"os"
	"os/exec"
	"path/filepath"
	"regexp"
	"sort"
	"strings"
	"sync"
	"time"

	wtext "github.com/benoitkugler/webrender/text"

	"wrverif/mp"
	"wrverif/render"
	"wrverif/res"
	"wrverif/rng"
)

var renderTimeout = 60 * time.Second

// Trace is the canonical text of all backend calls of one render.
type Trace struct {
	Raw               string // every call in order; Anchor lines carry their page index
	Canon             string // same, anchors of each CreateAnchors call sorted (insensitive to KF15-1)
	Crash             string // panic site / "timeout" / "error: ..." when the render did not complete
	Pages             int
	MaxAnchorsPerPage int
}

func hash(s string) string {
	h := sha256.Sum256([]byte(s))
	return hex.EncodeToString(h[:12])
}

// renderTrace runs the whole pipeline (parse, cascade, layout, draw) on the recording backend.
func renderTrace(html string, fonts wtext.FontConfiguration, repo string) Trace {
	t, _ := renderTraceDoc(html, fonts, repo)
	return t
}

func renderTraceDoc(html string, fonts wtext.FontConfiguration, repo string) (Trace, *render.Doc) {
	var t Trace
	var d *render.Doc
	var err error
	o := render.Guard(renderTimeout, func() {
		if fonts == nil {
			fonts, err = render.NewFonts(repo)
			if err != nil {
				return
			}
		}
		// layout with the shared helper, drawing onto the C15 recorder (rec.go): glyphs, image and
		// font bytes are part of the trace
		d, err = render.Full(html, fonts, render.Opts{BaseURL: "http://c15.invalid/", NoWrite: true})
		if err == nil {
			d.Rec = render.NewRec()
			d.Out.Write(wdoc{d.Rec}, 1, nil)
		}
	})
	switch {
	case o.Timeout:
		t.Crash = "timeout"
	case !o.OK():
		t.Crash = "panic:" + o.Site
	case err != nil:
		t.Crash = "error: " + err.Error()
	}
	if t.Crash != "" {
		return t, nil
	}
	t.Pages = len(d.Pages)
	t.Raw, t.Canon, t.MaxAnchorsPerPage = canonTrace(d.Rec)
	return t, d
}

// rewrite calls Document.Write once more on an already rendered (and written) document.
func rewrite(d *render.Doc) Trace {
	var t Trace
	rec := render.NewRec()
	o := render.Guard(renderTimeout, func() { d.Out.Write(wdoc{rec}, 1, nil) })
	switch {
	case o.Timeout:
		t.Crash = "timeout"
	case !o.OK():
		t.Crash = "panic:" + o.Site
	}
	if t.Crash != "" {
		return t
	}
	t.Pages = len(d.Pages)
	t.Raw, t.Canon, t.MaxAnchorsPerPage = canonTrace(rec)
	return t
}

func canonTrace(rec *render.Rec) (raw, canon string, maxPerPage int) {
	// page index of the k-th Anchor event
	var pageOf []int
	for p, as := range rec.Anchors {
		if len(as) > maxPerPage {
			maxPerPage = len(as)
		}
		for range as {
			pageOf = append(pageOf, p)
		}
	}
	lines := make([]string, 0, len(rec.Events)+len(rec.NonFinite))
	k := 0
	for _, e := range rec.Events {
		l := e.String()
		if e.Op == "Anchor" && e.Canvas == 0 {
			p := -1
			if k < len(pageOf) {
				p = pageOf[k]
			}
			k++
			l = fmt.Sprintf("0:Anchor p%03d%s", p, strings.TrimPrefix(l, "0:Anchor"))
		}
		lines = append(lines, l)
	}
	raw = strings.Join(lines, "\n")
	c := append([]string(nil), lines...)
	for i := 0; i < len(c); {
		if !strings.HasPrefix(c[i], "0:Anchor ") {
			i++
			continue
		}
		j := i
		for j < len(c) && strings.HasPrefix(c[j], "0:Anchor ") {
			j++
		}
		sort.Strings(c[i:j])
		i = j
	}
	canon = strings.Join(c, "\n")
	return
}

// firstDiff describes the first differing call of two traces.
func firstDiff(a, b string) (idx int, la, lb, op string) {
	as, bs := strings.Split(a, "\n"), strings.Split(b, "\n")
	n := len(as)
	if len(bs) < n {
		n = len(bs)
	}
	i := 0
	for i < n && as[i] == bs[i] {
		i++
	}
	get := func(xs []string) string {
		if i < len(xs) {
			return xs[i]
		}
		return "<end of trace>"
	}
	la, lb = get(as), get(bs)
	op = opOf(la)
	if op == "" {
		op = opOf(lb)
	}
	return i, la, lb, op
}

func opOf(line string) string {
	if i := strings.Index(line, ":"); i >= 0 {
		line = line[i+1:]
		if j := strings.IndexByte(line, ' '); j >= 0 {
			line = line[:j]
		}
		return line
	}
	return ""
}

type runner struct {
	out  *res.Result
	repo string
	mu   sync.Mutex

	pool []wtext.FontConfiguration

	attrCache map[string]string
}

// fonts returns the k-th font configuration of this process.  Font configurations are pooled
// because every NEW one is retained for the life of the process by a global cache of the text
// engine (textprocessing/pango.fontsetCaches, keyed by the fontset): ~2.5 MB per configuration,
// which made long runs hit the memory limit.  Callers never share one configuration between two
// renders running at the same time.
func (rn *runner) fonts(k int) wtext.FontConfiguration {
	rn.mu.Lock()
	defer rn.mu.Unlock()
	for len(rn.pool) <= k {
		f, err := render.NewFonts(rn.repo)
		if err != nil {
			return nil // renderTrace then creates one itself
		}
		rn.pool = append(rn.pool, f)
	}
	return rn.pool[k]
}

// poolLocked is fonts() for callers that already hold rn.mu.
func (rn *runner) poolLocked(k int) wtext.FontConfiguration {
	for len(rn.pool) <= k {
		f, err := render.NewFonts(rn.repo)
		if err != nil {
			return nil
		}
		rn.pool = append(rn.pool, f)
	}
	return rn.pool[k]
}

// compare judges one pair (reference render, other render) of the same document.
func (rn *runner) compare(scen string, d Doc, ref, got Trace, detail string) bool {
	rn.mu.Lock()
	defer rn.mu.Unlock()
	rn.out.Hit("compare:" + scen)
	if got.Crash == "timeout" || ref.Crash == "timeout" {
		// wall-clock timeouts depend on the load of the machine: not a statement about determinism
		// (hangs belong to C01)
		rn.out.Hit("timeout-skipped")
		return true
	}
	if got.Crash != "" || ref.Crash != "" {
		if got.Crash != ref.Crash {
			// a render that crashes only sometimes is a determinism failure as well
			key := "outcome"
			if k := rn.attribute(d); k != "" {
				key = k // a panic (C01's business) reached only under some iteration orders of a known site
			}
			rn.out.Add(res.Finding{Kind: "judge", Op: "judge:" + scen, Input: d.HTML, Impl: got.Crash, Model: ref.Crash,
				Reason: "the same document completed in one render and did not in the other (" + detail + ")", Key: key, Seed: d.Seed})
			return false
		}
		return true
	}
	if ref.Raw == got.Raw {
		return true
	}
	key := "anchor-order"
	a, b := ref.Raw, got.Raw
	if ref.Canon != got.Canon {
		a, b = ref.Canon, got.Canon
		key = ""
	}
	i, la, lb, op := firstDiff(a, b)
	if key == "" {
		key = "call:" + op
		// the known order dependences (KF15-2/3) act during layout: a second Write of the same
		// laid-out Document cannot be explained by them
		if scen != "write-twice" {
			if k := rn.attribute(d); k != "" {
				key = k
			}
		}
	}
	rn.out.Add(res.Finding{Kind: "judge", Op: "judge:" + scen, Input: d.HTML, Impl: lb, Model: la,
		Reason: fmt.Sprintf("backend call #%d differs between two renders of the same document (%s): reference %q, this render %q", i, detail, la, lb),
		Key:    key, Seed: d.Seed})
	return false
}

var oofRe = regexp.MustCompile(`float:\s*(left|right)|position:\s*absolute`)
var gridRe = regexp.MustCompile(`display:\s*grid`)

func ablateOOF(html string) string {
	return oofRe.ReplaceAllStringFunc(html, func(m string) string {
		if strings.HasPrefix(m, "float") {
			return "float:none"
		}
		return "position:static"
	})
}

func ablateGrid(html string) string { return gridRe.ReplaceAllString(html, "display:block") }

// stable: 6 renders of the document give the same trace (anchor order aside).
func (rn *runner) stable(html string) bool {
	f := rn.poolLocked(3)
	first := renderTrace(html, f, rn.repo)
	ok := first.Crash != "timeout"
	for i := 0; ok && i < 5; i++ {
		t := renderTrace(html, f, rn.repo)
		ok = t.Canon == first.Canon && t.Crash == first.Crash // the same trace, or the same panic, every time
	}
	return ok
}

var langRe = regexp.MustCompile(`lang="(bs_Cyrl|el_POLYTON|fr_CA|fr_CH|it_CH|kab|kkj|oc_ES|sr_Latn|ti_ER)[^"]+"`)

func ablateLang(html string) string { return langRe.ReplaceAllString(html, `lang="$1"`) }

// attribute names the known order-dependence an unstable document falls under, by ablation:
//
//	"out-of-flow-order"  (KF15-2) at least one float / absolutely positioned box, and the document with
//	                     all of them put back in flow renders identically 6 times;
//	"grid-item-order"    (KF15-3) a grid container, and the document with display:grid replaced by
//	                     display:block renders identically 6 times;
//	"lang-quotes-order"  (KF15-4) a lang attribute extending one of the language keys that have a
//	                     shorter key as prefix, and the document with the exact key renders identically 6 times;
//	several joined by "+" when only removing all of them makes the document stable; "" when nothing
//	does (the caller then keys the finding by the first differing call).  Callers hold rn.mu.
func (rn *runner) attribute(d Doc) string {
	if v, ok := rn.attrCache[d.HTML]; ok {
		return v
	}
	type abl struct {
		name string
		f    func(string) string
	}
	var app []abl
	if oofRe.MatchString(d.HTML) { // one float can be entered twice in brokenOutOfFlow (it is then drawn twice: C02)
		app = append(app, abl{"out-of-flow-order", ablateOOF})
	}
	if gridRe.MatchString(d.HTML) {
		app = append(app, abl{"grid-item-order", ablateGrid})
	}
	if langRe.MatchString(d.HTML) {
		app = append(app, abl{"lang-quotes-order", ablateLang})
	}
	v := ""
	for _, a := range app {
		if rn.stable(a.f(d.HTML)) {
			v = a.name
			break
		}
	}
	if v == "" && len(app) > 1 {
		h := d.HTML
		var names []string
		for _, a := range app {
			h = a.f(h)
			names = append(names, a.name)
		}
		if rn.stable(h) {
			v = strings.Join(names, "+")
		}
	}
	rn.out.Hit("ablation:" + v)
	if rn.attrCache == nil {
		rn.attrCache = map[string]string{}
	}
	rn.attrCache[d.HTML] = v
	return v
}

type hashes struct{ raw, canon, crash string }

func (t Trace) hashes() hashes { return hashes{hash(t.Raw), hash(t.Canon), t.Crash} }

// Run is the entry point registered for `wrh run C15`.
func Run(tier string, seed uint64, modelPath, repo string, out *res.Result) error {
	render.Quiet()
	out.Rule = "documents generated from one PRNG (blocks, inline content, ids+links+bookmarks, counters and target-counter(), " +
		"::before/::after/::first-letter, floats taller than the page, tables, grid/flex/columns, data: images, inline SVG with defs/use, " +
		"hyphens:auto, page margin boxes with page counters/string()/element(); 3 in 5 documents have no float/abspos/grid so that the known " +
		"defects cannot mask new ones). Every document is rendered: 1 reference + 2 repeats in process " +
		"(one after a history of other renders), 2 fresh worker processes (chunks rendered in different orders), 1 concurrent render " +
		"(N in {2,4,8} goroutines, own font configuration each). Traces (every backend call with arguments) must be identical. " +
		"non-trivial = the document did not crash and produced at least one page; distinct = distinct document text."
	docs := allDocs(tier, seed)
	if tier != "thorough" {
		// quick: a small pass under the race detector in parallel with everything else (the -race
		// objects are in the build cache after the first run): same-language hyphenation documents
		// first (they reach the process-wide dictionary cache at the same time), then generated ones
		raceOut := res.New(out.Property, tier, seed)
		raceDone := make(chan error, 1)
		go func() {
			r := rng.New(seed ^ 0x7ace)
			var rd []Doc
			for i := 0; i < 8; i++ {
				rd = append(rd, genHyphDoc(r.Sub(), i, "en"))
			}
			for i := 0; i < 12 && i < len(docs); i++ {
				rd = append(rd, docs[len(docs)-1-i])
			}
			for i := range rd {
				rd[i].ID = i
			}
			raceDone <- raceRun(&runner{out: raceOut, repo: repo}, rd, seed)
		}()
		err := runDocs(tier, seed, modelPath, repo, out, docs)
		if rerr := <-raceDone; rerr != nil {
			out.NotChecked = append(out.NotChecked, "race detector pass: "+rerr.Error())
		}
		for _, f := range raceOut.Findings {
			out.Add(f)
		}
		for k, v := range raceOut.Dist {
			if !strings.HasPrefix(k, "finding:") {
				out.Dist[k] += v
			}
		}
		out.Notes = append(out.Notes, raceOut.Notes...)
		return err
	}
	// thorough: the race-detector run (first documents) in parallel with `shards` child processes,
	// each running the complete scenario set on its share of the documents
	raceDone := make(chan error, 1)
	raceOut := res.New(out.Property, tier, seed)
	go func() {
		n := 1500
		if n > len(docs) {
			n = len(docs)
		}
		raceDone <- raceRun(&runner{out: raceOut, repo: repo}, docs[:n], seed)
	}()
	const shards = 6
	exe, err := os.Executable()
	if err != nil {
		return err
	}
	tmp, err := os.MkdirTemp("", "c15shards")
	if err != nil {
		return err
	}
	defer os.RemoveAll(tmp)
	var wg sync.WaitGroup
	errs := make([]error, shards)
	for k := 0; k < shards; k++ {
		wg.Add(1)
		go func(k int) {
			defer wg.Done()
			cmd := exec.Command(exe)
			cmd.Env = append(os.Environ(), "WRH_C15_WORKER=shard", "WRH_C15_REPO="+repo, fmt.Sprintf("WRH_C15_SHARD=%d/%d", k, shards),
				fmt.Sprintf("WRH_C15_SEED=%d", seed), "WRH_C15_MODEL="+modelPath, "WRH_C15_OUT="+filepath.Join(tmp, fmt.Sprintf("s%d.json", k)))
			cmd.Stderr = os.Stderr
			errs[k] = cmd.Run()
		}(k)
	}
	wg.Wait()
	for k := 0; k < shards; k++ {
		if errs[k] != nil {
			return fmt.Errorf("shard %d: %v", k, errs[k])
		}
		if err := mergeResult(out, filepath.Join(tmp, fmt.Sprintf("s%d.json", k))); err != nil {
			return fmt.Errorf("shard %d: %v", k, err)
		}
	}
	if err := <-raceDone; err != nil {
		out.NotChecked = append(out.NotChecked, "race detector run: "+err.Error())
		out.Notes = append(out.Notes, "race detector run failed: "+err.Error())
	}
	for _, f := range raceOut.Findings {
		out.Add(f)
	}
	for k, v := range raceOut.Dist {
		if !strings.HasPrefix(k, "finding:") {
			out.Dist[k] += v
		}
	}
	out.Notes = append(out.Notes, raceOut.Notes...)
	return nil
}

// mergeResult adds a shard's result file into out.
func mergeResult(out *res.Result, path string) error {
	b, err := os.ReadFile(path)
	if err != nil {
		return err
	}
	var r res.Result
	if err := json.Unmarshal(b, &r); err != nil {
		return err
	}
	out.Evaluations += r.Evaluations
	out.Nontrivial += r.Nontrivial
	out.ModelCalls += r.ModelCalls
	for k, v := range r.Dist {
		if !strings.HasPrefix(k, "finding:") {
			out.Dist[k] += v
		}
	}
	for _, f := range r.Findings {
		out.Add(f)
	}
	for _, s := range r.Samples {
		out.Sample(s)
	}
	out.Notes = append(out.Notes, r.Notes...)
	for _, n := range r.NotChecked {
		if !strings.Contains(n, "race detector") {
			out.NotChecked = append(out.NotChecked, n)
		}
	}
	return nil
}

// ShardMain: one shard of the thorough tier (child process).
func ShardMain(repo string) int {
	var k, n int
	var seed uint64
	fmt.Sscanf(os.Getenv("WRH_C15_SHARD"), "%d/%d", &k, &n)
	fmt.Sscan(os.Getenv("WRH_C15_SEED"), &seed)
	out := res.New("C15", "thorough", seed)
	all := allDocs("thorough", seed)
	var docs []Doc
	for i, d := range all {
		if n > 0 && i%n == k {
			docs = append(docs, d)
		}
	}
	if err := runDocs("thorough", seed+uint64(k)*7919, os.Getenv("WRH_C15_MODEL"), repo, out, docs); err != nil {
		fmt.Fprintln(os.Stderr, "c15 shard:", err)
		return 3
	}
	if err := out.Write(os.Getenv("WRH_C15_OUT")); err != nil {
		fmt.Fprintln(os.Stderr, "c15 shard:", err)
		return 3
	}
	return 0
}

func allDocs(tier string, seed uint64) []Doc {
	nDocs := 300
	if tier == "thorough" {
		nDocs = 10000
	}
	if v := os.Getenv("WRH_C15_NDOCS"); v != "" { // debugging aid: smaller runs
		fmt.Sscan(v, &nDocs)
	}
	r := rng.New(seed)
	docs := make([]Doc, nDocs)
	for i := range docs {
		switch {
		case i%8 == 3:
			docs[i] = genStringsDoc(r.Sub(), i) // named strings over several pages
		case i%20 == 7:
			docs[i] = genUnitsDoc(r.Sub(), i)
		case i%40 == 35 || i%40 == 15:
			docs[i] = genFormDoc(r.Sub(), i)
		case i%40 == 39 || i%40 == 23:
			docs[i] = genAttachDoc(r.Sub(), i)
		case i%40 == 19:
			docs[i] = genSvgChainDoc(r.Sub(), i)
		case i%40 == 27:
			docs[i] = genSvgTextDoc(r.Sub(), i)
		case i%40 == 31:
			docs[i] = genPlainDoc(r.Sub(), i)
		case i%40 == 11:
			docs[i] = genHyphDoc(r.Sub(), i, rng.Pick(r, "en", "fr", "de"))
		default:
			docs[i] = genDoc(r.Sub(), i)
		}
	}
	docs = append(corpusDocs(), docs...)
	for i := range docs {
		docs[i].ID = i
	}
	return docs
}

// runDocs runs scenarios (a)-(d) on docs.
func runDocs(tier string, seed uint64, modelPath, repo string, out *res.Result, docs []Doc) error {
	chunk, par := 10, 3
	if tier == "thorough" {
		chunk, par = 40, 2
	}
	rn := &runner{out: out, repo: repo}
	for i := range docs {
		docs[i].ID = i
	}

	var model *mp.Model
	if modelPath != "" {
		m, err := mp.Start(modelPath)
		if err != nil {
			return err
		}
		model = m
		defer m.Close()
		if err := witnessCorr(m, out); err != nil {
			return err
		}
		nq := 300
		if tier == "thorough" {
			nq = 1500
		}
		if err := quotesCorr(m, rng.New(seed^0x9007e5), nq, out); err != nil {
			return err
		}
	} else {
		out.NotChecked = append(out.NotChecked, "model correspondence (no -model given)")
	}

	// (b) + (c) fresh processes, in the background
	fresh := newFreshPool(rn, docs, chunk, par, seed)
	fresh.start()

	// (a) + (c) in process
	shared := rn.fonts(1)
	base := make([]hashes, len(docs))
	hr := rng.New(seed ^ 0xc15)
	snaps := newTableSnaps() // global judge: no render writes the package-level tables
	var ok []int             // documents that render
	for i, d := range docs {
		// reference: a brand-new font configuration for every 25th document (cold caches), else pooled
		reff := rn.fonts(0)
		if i%25 == 0 {
			reff = nil
			out.Hit("reference:new-font-configuration")
		}
		ref, rdoc := renderTraceDoc(d.HTML, reff, repo)
		base[i] = ref.hashes()
		out.Hit("global-tables-checked")
		for _, name := range changedTables(snaps) {
			out.Add(res.Finding{Kind: "judge", Op: "judge:global-write", Input: d.HTML,
				Reason: "rendering this document changed the package-level table " + name + " (shared by all later and concurrent renders of the process)", Key: "global:" + name, Seed: d.Seed})
		}
		if rdoc != nil && model != nil {
			linksCorr(model, d, rdoc, out)
		}
		// (i) write twice: the SAME Document object painted again onto fresh recording backends
		if rdoc != nil && ref.Crash == "" {
			for k := 2; k <= 3; k++ {
				again := rewrite(rdoc)
				if !rn.compare("write-twice", d, ref, again, fmt.Sprintf("Document.Write number %d of the same Document object (one document.Render)", k)) {
					break
				}
			}
		}
		if ref.Crash != "" {
			out.Hit("crash-skipped")
			out.Hit("crash-skipped:" + ref.Crash)
			out.Count(d.HTML, false)
			continue
		}
		out.Count(d.HTML, ref.Pages > 0)
		ok = append(ok, i)
		for _, f := range d.Feats {
			out.Hit("feat:" + f)
		}
		out.Hit(fmt.Sprintf("pages:%s", bucket(ref.Pages)))
		out.Hit(fmt.Sprintf("max-anchors-per-page:%s", bucket(ref.MaxAnchorsPerPage)))
		if i < 3 {
			out.Sample(map[string]interface{}{"html": d.HTML, "pages": ref.Pages, "calls": strings.Count(ref.Raw, "\n") + 1, "trace_hash": base[i].raw})
		}
		// repeat with the font configuration shared by all sequential repeats (warm caches)
		rn.compare("repeat", d, ref, renderTrace(d.HTML, shared, repo), "same process, another font configuration with warm caches")
		// history: a few OTHER documents in between, then again
		for k, n := 0, hr.Range(0, 1); k < n && len(ok) > 1; k++ {
			o := docs[ok[hr.Intn(len(ok))]]
			if o.ID != d.ID {
				renderTrace(o.HTML, shared, repo)
				out.Hit("history-render")
			}
		}
		rn.compare("history", d, ref, renderTrace(d.HTML, rn.fonts(2), repo), "same process after renders of other documents, another font configuration")
	}

	// (b) collect
	fresh.wait(base)

	// (d) concurrent, each with its own font configuration, in a child process
	concurrentScenario(rn, docs, ok, base, seed, tier)

	// (e) same-language hyphenation at the same time, in a child process (fatal errors observed)
	hyphScenario(rn, seed, tier)
	// (f) two different font configurations in this process vs one-configuration processes
	mixedFontsScenario(rn, seed, tier)
	// (g) plain documents after SVG <text> documents vs on their own, in fresh processes
	historyScenario(rn, seed, tier)
	// (h) SVG href chains, 20 renders in process + fresh processes
	chainScenario(rn, seed, tier)

	if model != nil {
		out.Dist["model-calls"] = model.N
	}
	out.ModelCalls = out.Dist["compare:repeat"] + out.Dist["compare:history"] + out.Dist["compare:concurrent"] + out.Dist["compare:fresh-process"]
	return nil
}

func bucket(n int) string {
	switch {
	case n <= 2:
		return fmt.Sprint(n)
	case n <= 5:
		return "3-5"
	case n <= 20:
		return "6-20"
	}
	return ">20"
}
