package c15

import (
	"bytes"
	"encoding/json"
	"fmt"
	"io"
	"os"
	"os/exec"
	"path/filepath"
	"regexp"
	"strings"
	"sync"
	"time"

	"github.com/benoitkugler/webrender/logger"

	"wrverif/res"
	"wrverif/rng"
)

func bytesReader(b []byte) io.Reader { return bytes.NewReader(b) }

// raceWorker (binary built with -race): reads a JSON array of documents, renders them in concurrent
// groups (own font configuration each), prints one line of hashes per document.  The loggers write
// into a real buffer here so that the non-discarding path of log.Logger is exercised as well.
func raceWorker(repo string) int {
	var docs []Doc
	if err := json.NewDecoder(os.Stdin).Decode(&docs); err != nil {
		fmt.Fprintln(os.Stderr, "race worker:", err)
		return 2
	}
	// a real (non-discarding) writer, safe for concurrent use like the default os.Stdout: any
	// report involving the loggers is then a race inside the renderer's use of them
	sink := &countSink{}
	logger.ProgressLogger.SetOutput(sink)
	logger.WarningLogger.SetOutput(sink)
	renderTimeout = 10 * time.Minute // the detector slows rendering 5-20x
	r := rng.New(uint64(len(docs)))
	enc := json.NewEncoder(os.Stdout)
	rn := &runner{repo: repo}
	for pos := 0; pos < len(docs); {
		n := []int{2, 8}[r.Intn(2)]
		if pos == 0 {
			n = 8 // the first documents (same-language hyphenation in the quick pass) all at once
		}
		if pos+n > len(docs) {
			n = len(docs) - pos
		}
		group := docs[pos : pos+n]
		pos += n
		got := make([]Trace, n)
		var wg sync.WaitGroup
		for k := range group {
			wg.Add(1)
			go func(k int) {
				defer wg.Done()
				got[k] = renderTrace(group[k].HTML, rn.fonts(k), repo)
			}(k)
		}
		wg.Wait()
		for k := range group {
			h := got[k].hashes()
			enc.Encode(wAns{ID: group[k].ID, Raw: h.raw, Canon: h.canon, Crash: h.crash})
		}
	}
	return 0
}

type countSink struct {
	mu sync.Mutex
	n  int
}

func (c *countSink) Write(p []byte) (int, error) {
	c.mu.Lock()
	c.n += len(p)
	c.mu.Unlock()
	return len(p), nil
}

var frameRe = regexp.MustCompile(`(?m)^\s+(/repo/\S+?):(\d+)`)
var funcRe = regexp.MustCompile(`(?m)^\s*(github\.com/benoitkugler/webrender/\S+?)\(`)

// raceKey: the first two webrender functions named in a race report (one per conflicting access if possible).
func raceKey(report string) string {
	var fs []string
	for _, m := range funcRe.FindAllStringSubmatch(report, -1) {
		f := strings.TrimPrefix(m[1], "github.com/benoitkugler/webrender/")
		if len(fs) == 0 || fs[len(fs)-1] != f {
			fs = append(fs, f)
		}
		if len(fs) == 2 {
			break
		}
	}
	if len(fs) == 0 {
		return "race:?"
	}
	return "race:" + strings.Join(fs, "|")
}

// raceRun builds the harness with the race detector and runs the concurrent scenario under it.
func raceRun(rn *runner, docs []Doc, seed uint64) error {
	out := rn.out
	exe := "/verif/.build/wrh_C15_race"
	args := []string{"build", "-race"}
	if rn.repo != "/repo" {
		// another checkout (VERIF_REPO): the orchestrator has written go.alt.mod replacing the module by it
		exe += "_alt"
		args = append(args, "-modfile=go.alt.mod")
	}
	if b := os.Getenv("WRH_C15_RACE_EXE"); b != "" {
		exe = b
	}
	wd, err := harnessDir()
	if err != nil {
		return err
	}
	t0 := time.Now()
	cmd := exec.Command("go", append(args, "-tags", "verif c15", "-o", exe, "./cmd/wrh")...)
	cmd.Dir = wd
	cmd.Env = append(os.Environ(), "GOFLAGS=-mod=mod", "GOPROXY=off", "GOSUMDB=off", "GOTOOLCHAIN=local", "CGO_ENABLED=1")
	if os.Getenv("GOCACHE") == "" {
		cmd.Env = append(cmd.Env, "GOCACHE=/verif/.build/gocache") // the build cache the orchestrator uses: the -race objects stay cached
	}
	if b, err := cmd.CombinedOutput(); err != nil {
		return fmt.Errorf("go build -race: %v: %s", err, tail(string(b), 400))
	}
	out.Notes = append(out.Notes, fmt.Sprintf("race build: %.0fs", time.Since(t0).Seconds()))
	t0 = time.Now()
	in, _ := json.Marshal(docs)
	run := exec.Command(exe)
	run.Env = append(os.Environ(), "WRH_C15_WORKER=race", "WRH_C15_REPO="+rn.repo, "GORACE=halt_on_error=0 history_size=3")
	run.Stdin = bytes.NewReader(in)
	var so, se bytes.Buffer
	run.Stdout, run.Stderr = &so, &se
	rerr := run.Run()
	out.Notes = append(out.Notes, fmt.Sprintf("race run: %d documents, %.0fs, exit: %v", len(docs), time.Since(t0).Seconds(), rerr))
	answered := strings.Count(so.String(), "\n")
	out.Dist["race:documents-rendered"] += answered
	reports := strings.Split(se.String(), "WARNING: DATA RACE")
	for _, rep := range reports[1:] {
		if i := strings.Index(rep, "=================="); i >= 0 {
			rep = rep[:i]
		}
		out.Add(res.Finding{Kind: "judge", Op: "judge:race", Input: fmt.Sprintf("concurrent renders of %d generated documents (seed %d) under -race", len(docs), seed),
			Impl: tail2(rep, 3000), Reason: "the Go race detector reported a data race between concurrent renders", Key: raceKey(rep), Seed: seed})
	}
	if m := fatalRe.FindStringSubmatch(se.String()); m != nil {
		out.Add(res.Finding{Kind: "judge", Op: "judge:concurrent-fatal", Input: fmt.Sprintf("concurrent renders of %d generated documents (seed %d) under -race", len(docs), seed),
			Impl: tail2(se.String(), 2500), Reason: "the process rendering documents concurrently died with a Go fatal error: " + m[1], Key: "fatal:" + m[1], Seed: seed})
	}
	out.Dist["race:reports"] += len(reports) - 1
	if answered < len(docs) && len(reports) == 1 && !fatalRe.MatchString(se.String()) {
		return fmt.Errorf("race worker answered %d of %d documents (exit %v): %s", answered, len(docs), rerr, tail(se.String(), 400))
	}
	return nil
}

func tail(s string, n int) string {
	if len(s) > n {
		return s[len(s)-n:]
	}
	return s
}

func tail2(s string, n int) string {
	if len(s) > n {
		return s[:n]
	}
	return s
}

// harnessDir locates /verif/harness (the module this binary was built from).
func harnessDir() (string, error) {
	for _, c := range []string{os.Getenv("WRH_HARNESS_DIR"), "/verif/harness"} {
		if c == "" {
			continue
		}
		if _, err := os.Stat(filepath.Join(c, "go.mod")); err == nil {
			return c, nil
		}
	}
	return "", fmt.Errorf("harness source directory not found")
}
