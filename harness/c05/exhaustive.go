package c05

import (
	"fmt"
	"strconv"

	"github.com/benoitkugler/webrender/css/selector"
	"golang.org/x/net/html"

	"wrverif/sx"
)

// simple selectors of the small alphabet
var exSimple = []string{
	"a", "b", "*", ".c", "#i", "[k]", `[k=x]`, `[k~=x]`, `[k|=x]`, `[k^=x]`, `[k$=x]`, `[k*=x]`, `[k="X" i]`,
	":first-child", ":last-child", ":only-child", ":first-of-type", ":last-of-type", ":only-of-type",
	":nth-child(2n+1)", ":nth-child(-n+2)", ":nth-last-child(2)", ":nth-of-type(2n)", ":nth-last-of-type(-2n+3)",
	":nth-child(-2n-1)", ":empty", ":root",
}

// labels of the enumerated trees: elements (may have children) and leaves
type exLabel struct {
	t     html.NodeType
	data  string
	attrs []html.Attribute
}

var exElems = []exLabel{
	{html.ElementNode, "a", nil},
	{html.ElementNode, "b", []html.Attribute{{Key: "class", Val: "c"}}},
	{html.ElementNode, "a", []html.Attribute{{Key: "k", Val: "x y"}, {Key: "id", Val: "i"}}},
}

var exLeaves = []exLabel{
	{html.TextNode, "t", nil},
	{html.TextNode, " ", nil},
	{html.CommentNode, "c", nil},
}

// forests(n): every sequence of trees with n nodes in total; each forest is a constructor
type forest func(parent *html.Node)

func exForests(n int, memo map[int][]forest) []forest {
	if f, ok := memo[n]; ok {
		return f
	}
	var out []forest
	if n == 0 {
		out = []forest{func(*html.Node) {}}
	}
	for k := 1; k <= n; k++ { // first tree has k nodes
		var firsts []forest
		if k == 1 {
			for _, l := range exLeaves {
				l := l
				firsts = append(firsts, func(p *html.Node) { p.AppendChild(mk(l.t, l.data)) })
			}
		}
		for _, l := range exElems {
			l := l
			for _, sub := range exForests(k-1, memo) {
				sub := sub
				firsts = append(firsts, func(p *html.Node) {
					e := mk(l.t, l.data, append([]html.Attribute(nil), l.attrs...)...)
					p.AppendChild(e)
					sub(e)
				})
			}
		}
		for _, f := range firsts {
			f := f
			for _, rest := range exForests(n-k, memo) {
				rest := rest
				out = append(out, func(p *html.Node) { f(p); rest(p) })
			}
		}
	}
	memo[n] = out
	return out
}

// exhaustive: all selectors of depth <= 2 over the small alphabet x all trees with <= 4 nodes under <body>.
func (c *runner) exhaustive() error {
	var sels []string
	for _, s := range exSimple {
		sels = append(sels, s)
		sels = append(sels, ":not("+s+")", ":is("+s+", b)", ":has("+s+")", ":haschild("+s+")")
		if s != "a" && s != "b" && s != "*" {
			sels = append(sels, "a"+s, "*"+s+":not(.c)")
		}
	}
	for _, s1 := range exSimple {
		for _, s2 := range exSimple {
			for _, cb := range []string{" ", " > ", " + ", " ~ "} {
				sels = append(sels, s1+cb+s2)
			}
		}
	}
	for _, s1 := range exSimple[:8] {
		for _, s2 := range exSimple[13:] {
			sels = append(sels, ":not("+s1+", "+s2+")", ":not("+s1+" > "+s2+")", ":has("+s1+" + "+s2+")", "a ~ "+s1+" > "+s2)
		}
	}
	type psel struct {
		text string
		s    selector.Sel
		x    sx.X
		ast  selector.VerifC05AST
	}
	var ps []psel
	for _, t := range sels {
		g, err := selector.ParseGroup(t)
		if err != nil || len(g) != 1 {
			return fmt.Errorf("exhaustive: selector %q: %v", t, err)
		}
		ast := selector.VerifC05Dump(g[0])
		x, ok := astX(ast)
		if !ok {
			return fmt.Errorf("exhaustive: selector %q unsupported", t)
		}
		ps = append(ps, psel{t, g[0], x, ast})
	}
	var trees []*html.Node
	memo := map[int][]forest{}
	for n := 0; n <= 4; n++ {
		for _, f := range exForests(n, memo) {
			doc := mk(html.DocumentNode, "")
			h := mk(html.ElementNode, "html")
			doc.AppendChild(h)
			body := mk(html.ElementNode, "body")
			h.AppendChild(body)
			f(body)
			trees = append(trees, doc)
		}
	}
	c.out.Notes = append(c.out.Notes, fmt.Sprintf("exhaustive: %d selectors (depth <= 2, alphabet of %d simple selectors) x %d trees (<= 4 nodes under body, %d element labels, %d leaf labels)",
		len(ps), len(exSimple), len(trees), len(exElems), len(exLeaves)))
	const selChunk, treeChunk = 250, 160
	pairs := 0
	for t0 := 0; t0 < len(trees); t0 += treeChunk {
		t1 := min(t0+treeChunk, len(trees))
		nodes := make([][]*html.Node, t1-t0)
		txs := make([]sx.X, t1-t0)
		for i := range nodes {
			nodes[i] = preorder(trees[t0+i], nil)
			txs[i] = nodeX(trees[t0+i])
		}
		for s0 := 0; s0 < len(ps); s0 += selChunk {
			s1 := min(s0+selChunk, len(ps))
			xs := []sx.X{sx.A("sels")}
			for _, p := range ps[s0:s1] {
				xs = append(xs, p.x)
			}
			req := append([]sx.X{sx.A("c05m"), sx.L(xs...)}, txs...)
			ans, err := c.m.Ask(sx.L(req...))
			if err != nil {
				return err
			}
			if ans.Head() != "ok" || len(ans.Xs) != len(txs)+1 {
				return fmt.Errorf("exhaustive: model answered %.200s", ans.String())
			}
			for ti := range txs {
				rs := ans.Xs[ti+1]
				if len(rs.Xs) != s1-s0+1 {
					return fmt.Errorf("exhaustive: model answered %.200s", rs.String())
				}
				for si, p := range ps[s0:s1] {
					impl := bitsOf(p.s, nodes[ti])
					model := rs.Xs[si+1].Xs[1].S
					pairs++
					if impl != model {
						c.add(matchDiffers(treeInDomain(trees[t0+ti]) && selInDomain(p.ast), fmt.Sprintf("sel=%s tree=%s", strconv.Quote(p.text), treeText(trees[t0+ti])),
							impl, model, "exhaustive enumeration: match bits per node differ", 0))
					}
				}
			}
		}
	}
	c.out.Evaluations += pairs
	c.out.Dist["exhaustive:pairs"] = pairs
	c.out.Exhaustive = true
	return nil
}
