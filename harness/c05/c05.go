// Package c05: correspondence and judge runs for property C05 (selector matching and specificity).
//
//	corr   real ParseGroup -> AST dump (hook VerifC05Dump) + tree -> Lean model: the match bit of
//	       EVERY node of the tree for every selector of the group, Specificity, PseudoElement
//	       are compared with Sel.Match / Sel.Specificity / Sel.PseudoElement of the real code
//	judge  (on the implementation alone)
//	       print-reparse: String() re-parsed gives the same bits on every node, same specificity/pseudo-element
//	       empty-value:   [k^=""] [k$=""] [k*=""] [k~=""] match no node
//	       specificity:   (ids, classes+attributes+pseudo-classes, types+pseudo-elements) recomputed from the AST
//	       corpus:        /verif/corpus/C05/*.json — (selector, document, expected elements) read off Selectors 3/4,
//	                      incl. the minimal inputs of the repaired defects KF05-1..7; run first
package c05

import (
	"encoding/json"
	"fmt"
	"os"
	"path/filepath"
	"strconv"
	"strings"
	"unicode/utf8"

	"github.com/benoitkugler/webrender/css/selector"
	"golang.org/x/net/html"
	"golang.org/x/net/html/atom"

	"wrverif/mp"
	"wrverif/res"
	"wrverif/rng"
	"wrverif/sx"
)

// ---------------------------------------------------------------------------------------------
// trees

func mk(t html.NodeType, data string, attrs ...html.Attribute) *html.Node {
	n := &html.Node{Type: t, Data: data, Attr: attrs}
	if t == html.ElementNode {
		n.DataAtom = atom.Lookup([]byte(data))
	}
	return n
}

func preorder(n *html.Node, out []*html.Node) []*html.Node {
	out = append(out, n)
	for c := n.FirstChild; c != nil; c = c.NextSibling {
		out = preorder(c, out)
	}
	return out
}

func nodeX(n *html.Node) sx.X {
	k := "o"
	switch n.Type {
	case html.ElementNode:
		k = "e"
	case html.TextNode:
		k = "t"
	case html.CommentNode:
		k = "c"
	case html.DocumentNode:
		k = "d"
	}
	attrs := make([]sx.X, len(n.Attr))
	for i, a := range n.Attr {
		attrs[i] = sx.L(sx.S(a.Key), sx.S(a.Val))
	}
	var cs []sx.X
	for c := n.FirstChild; c != nil; c = c.NextSibling {
		cs = append(cs, nodeX(c))
	}
	return sx.L(sx.A("n"), sx.A(k), sx.S(n.Data), sx.L(attrs...), sx.L(cs...))
}

// treeText is a compact rendering for findings / samples.
func treeText(n *html.Node) string {
	var b strings.Builder
	var rec func(n *html.Node)
	rec = func(n *html.Node) {
		switch n.Type {
		case html.TextNode:
			fmt.Fprintf(&b, "%q", n.Data)
			return
		case html.CommentNode:
			fmt.Fprintf(&b, "<!--%s-->", n.Data)
			return
		case html.ElementNode:
			b.WriteString("<" + n.Data)
		default:
			fmt.Fprintf(&b, "<#%d:%s", n.Type, n.Data)
		}
		for _, a := range n.Attr {
			fmt.Fprintf(&b, " %s=%q", a.Key, a.Val)
		}
		b.WriteString(">")
		for c := n.FirstChild; c != nil; c = c.NextSibling {
			rec(c)
		}
		b.WriteString("</>")
	}
	rec(n)
	return b.String()
}

var (
	tags     = []string{"a", "p", "div", "b", "x-y", "span", "x-foo", "x-bar", "my-el"} // incl. custom elements (DataAtom 0)
	classes  = []string{"c1", "c2", "k"}
	ids      = []string{"i1", "i2"}
	attrKeys = []string{"a", "b", "data-x"}
	// attribute values: blanks, doubled / leading / trailing spaces, dashes, case variants
	attrVals = []string{"", "x", "y", "x y", "x  y", " x", "x ", "  ", " ", "x-y", "x-", "-", "X", "xY", "xy", "yx", "x\ty", "c1", "c1 c2", "c2  c1", " k", "é", "x\"y", "x\\y", "\u212a", "K", "k", "\u017fx", "\u00a0",
		// near-white-space characters that are NOT white space in Selectors / HTML: they never separate words
		"x\vy", "c1\vc2", "\vx", "x\v", "\v", "x\u00a0y", "c1\u00a0c2", "x\u2003y", "\ufeffx", "x\ufeff", "x\x1cy", "x\x1dy", "x\x1ey", "x\x1fy", "x\u0085y", "c2\u0085c1", "x \vy", "x\v y"}
	texts    = []string{"", " ", "\n", " \t\n\f\r", "t", " t ", "x y"}
)

type treeOpts struct {
	odd  bool // the escapes stream: odd tag / class / id / attribute names and values
	wild bool // outside the hypotheses of the theorems: nested html, exotic spaces, attributes on non-elements, no document node
}

func genAttrs(r *rng.R, o treeOpts) []html.Attribute {
	var as []html.Attribute
	if r.P(1, 2) {
		n := r.Range(1, 2)
		var cs []string
		for i := 0; i < n; i++ {
			if o.odd && r.Bool() {
				cs = append(cs, rng.Pick(r, oddNames...))
			} else {
				cs = append(cs, rng.Pick(r, classes...))
			}
		}
		sep := rng.Pick(r, " ", " ", "  ", "\t", "\n", "\f", "\r", "\v", "\u00a0", "\u2003", "\ufeff", "\x1c", "\x1f", "\u0085", " \v", "\v ")
		v := strings.Join(cs, sep)
		if r.P(1, 8) {
			v = " " + v
		}
		if r.P(1, 8) {
			v += " "
		}
		if r.P(1, 12) {
			v = rng.Pick(r, attrVals...)
		}
		as = append(as, html.Attribute{Key: "class", Val: v})
	}
	if r.P(1, 3) {
		id := rng.Pick(r, ids...)
		if o.odd && r.Bool() {
			id = rng.Pick(r, oddNames...)
		}
		as = append(as, html.Attribute{Key: "id", Val: id})
	}
	for r.P(2, 5) && len(as) < 4 {
		k := rng.Pick(r, attrKeys...)
		if o.odd && r.Bool() {
			k = strings.ToLower(rng.Pick(r, oddNames...))
		}
		dup := false
		for _, a := range as {
			dup = dup || a.Key == k
		}
		if dup && !o.wild {
			break
		}
		v := rng.Pick(r, attrVals...)
		if o.odd && r.Bool() {
			v = rng.Pick(r, append(oddVals, oddNames...)...)
		}
		as = append(as, html.Attribute{Key: k, Val: v})
	}
	return as
}

func genChildren(r *rng.R, parent *html.Node, budget *int, depth int, o treeOpts) {
	n := r.Range(0, 4)
	if depth == 0 {
		n = r.Range(1, 5)
	}
	for i := 0; i < n && *budget > 0; i++ {
		*budget--
		switch k := r.Intn(10); {
		case k < 6:
			tag := rng.Pick(r, tags...)
			if o.wild && r.P(1, 10) {
				tag = "html"
			}
			if o.odd && r.P(1, 3) {
				tag = strings.ToLower(rng.Pick(r, oddNames...))
			}
			e := mk(html.ElementNode, tag, genAttrs(r, o)...)
			parent.AppendChild(e)
			if depth < 3 {
				genChildren(r, e, budget, depth+1, o)
			}
		case k < 8:
			t := rng.Pick(r, texts...)
			if o.wild && r.P(1, 4) {
				t = rng.Pick(r, "\u00a0", "\v", "\u2003 ", "\u3000", "\u0085")
			}
			parent.AppendChild(mk(html.TextNode, t))
		default:
			c := mk(html.CommentNode, rng.Pick(r, "", "c", " "))
			if o.wild && r.P(1, 6) {
				c.Attr = genAttrs(r, o)
			}
			parent.AppendChild(c)
		}
	}
}

// genTree builds a document-shaped tree: Document > [Doctype] html > [head] body > …
func genTree(r *rng.R, o treeOpts) *html.Node {
	budget := r.Range(1, 14)
	if o.wild && r.P(1, 5) { // a fragment: element without parent
		root := mk(html.ElementNode, rng.Pick(r, tags...), genAttrs(r, o)...)
		genChildren(r, root, &budget, 0, o)
		return root
	}
	doc := mk(html.DocumentNode, "")
	if r.P(1, 2) {
		dt := mk(html.DoctypeNode, "html")
		if o.wild && r.P(1, 2) {
			dt.Attr = []html.Attribute{{Key: "public", Val: "x"}, {Key: "system", Val: "y"}}
		}
		doc.AppendChild(dt)
	}
	if r.P(1, 6) {
		doc.AppendChild(mk(html.CommentNode, "c"))
	}
	h := mk(html.ElementNode, "html", genAttrs(r, o)...)
	doc.AppendChild(h)
	if r.P(1, 2) {
		h.AppendChild(mk(html.ElementNode, "head"))
	}
	if r.P(1, 6) {
		h.AppendChild(mk(html.TextNode, "\n"))
	}
	body := mk(html.ElementNode, "body", genAttrs(r, o)...)
	h.AppendChild(body)
	genChildren(r, body, &budget, 0, o)
	if r.P(1, 4) { // webrender's tree.NewHTML detaches the root element from its document
		doc.RemoveChild(h)
		return h
	}
	return doc
}

// viaParser renders the tree as HTML text and parses it back with html.Parse (document-shaped trees
// as the renderer sees them).
func viaParser(n *html.Node) *html.Node {
	var b strings.Builder
	if err := html.Render(&b, n); err != nil {
		return n
	}
	d, err := html.Parse(strings.NewReader(b.String()))
	if err != nil {
		return n
	}
	return d
}

// ---------------------------------------------------------------------------------------------
// selectors (text of the supported grammar)

type selGen struct {
	r *rng.R
	// features used, for the distribution and the non-triviality rule
	feat map[string]bool
	// escapes: allow identifier escapes / quoted values needing escapes (exercise the printer)
	escapes bool
}

func (g *selGen) f(s string) { g.feat[s] = true }

// names that need escaping when written as CSS identifiers (leading digits / hyphens, specials, control
// characters, non-ASCII); the escapes stream uses them in the trees too, so that the selectors match something
var oddNames = []string{"123", "1", "-1", "-1x", "--", "-", "-a", "_", "a.b", "#x", "c1 ", "a b", ":k", "a,b", "a>b", "a+b~c", "a[b]", "a(b)",
	"x\"y", "x'y", "x\\y", "a\x03b", "\x01", "\x7f", "a\tb", "ét", "\u6f22", "\U0001f600x", "Az", "a!b", "a=b", "a|b", "a*b", "a/b", "a@b", "9lives", "-9", "a\nb",
	"c1\vc2", "c2\vc1", "k\v", "\vk", "c1\u00a0c2", "c1\u2003c2", "\ufeffk", "c1\x1cc2", "c1\x1fc2", "c1\u0085c2"}

// odd attribute values: quotes, backslashes, newlines, control characters, non-ASCII
var oddVals = []string{"x\"y", "x'y", "x\\y", "\\", "\"", "a\nb", "a\rb", "a\fb", "a\tb", "\x01", "a\x7fb", "é\"", "\u6f22\\", "x\\\"y", "]", "[a=\"b\"]", "a\\\nb", "\\a", "\\31 "}

func isNameChar(c rune) bool {
	return 'a' <= c && c <= 'z' || 'A' <= c && c <= 'Z' || c == '_' || c > 127 || c == '-' || '0' <= c && c <= '9'
}

// cssIdent writes name as a CSS identifier, choosing randomly among the escape styles
func cssIdent(r *rng.R, name string) string {
	allDashes := strings.Trim(name, "-") == ""
	lead := len(name) - len(strings.TrimLeft(name, "-")) // index of the first rune after the leading hyphens
	var b strings.Builder
	hex := func(c rune) {
		switch r.Intn(3) {
		case 0:
			fmt.Fprintf(&b, "\\%x ", c)
		case 1:
			fmt.Fprintf(&b, "\\%06x", c)
		default:
			fmt.Fprintf(&b, "\\%X ", c)
		}
	}
	for i, c := range name {
		isHex := '0' <= c && c <= '9' || 'a' <= c && c <= 'f' || 'A' <= c && c <= 'F'
		switch {
		case '0' <= c && c <= '9' && i == lead:
			hex(c)
		case c == '-' && allDashes:
			b.WriteString("\\-")
		case isNameChar(c):
			if r.P(1, 8) {
				hex(c)
			} else {
				b.WriteRune(c)
			}
		case c < 0x20 || c == 0x7f:
			hex(c)
		default: // printable ASCII special
			if r.Bool() && !isHex {
				b.WriteByte('\\')
				b.WriteRune(c)
			} else {
				hex(c)
			}
		}
	}
	return b.String()
}

func (g *selGen) ident(pool []string) string {
	r := g.r
	if g.escapes && r.P(1, 3) {
		g.f("escape")
		return cssIdent(r, rng.Pick(r, oddNames...))
	}
	return rng.Pick(r, pool...)
}

func (g *selGen) nth() string {
	r := g.r
	switch r.Intn(12) {
	case 0:
		return "odd"
	case 1:
		return "even"
	case 2:
		return strconv.Itoa(r.Range(0, 5))
	case 3:
		return "n"
	case 4:
		return rng.Pick(r, "-n", "+n", "N")
	}
	a := r.Range(-4, 4)
	if r.P(1, 2) {
		a = -r.Range(1, 3) // bias to negative a
	}
	if r.P(1, 30) {
		a = r.Range(-100, 100)
	}
	b := r.Range(-5, 7)
	if r.P(1, 30) {
		b = r.Range(-100, 100)
	}
	g.f("an+b")
	if a < 0 {
		g.f("negative-a")
	}
	as := strconv.Itoa(a)
	if a == 1 && r.Bool() {
		as = ""
	} else if a == -1 && r.Bool() {
		as = "-"
	} else if a > 0 && r.P(1, 4) {
		as = "+" + as
	}
	sp := rng.Pick(r, "", "", " ")
	switch {
	case b == 0 && r.Bool():
		return as + "n"
	case b < 0:
		return as + "n" + sp + "-" + sp + strconv.Itoa(-b)
	default:
		return as + "n" + sp + "+" + sp + strconv.Itoa(b)
	}
}

func quoteCSS(v string, q byte) string {
	var b strings.Builder
	b.WriteByte(q)
	for i := 0; i < len(v); i++ {
		c := v[i]
		switch {
		case c == q || c == '\\':
			b.WriteByte('\\')
			b.WriteByte(c)
		case c == '\n' || c == '\r' || c == '\f' || (c < 0x20 && c%2 == 0):
			fmt.Fprintf(&b, "\\%x ", c)
		default:
			b.WriteByte(c)
		}
	}
	b.WriteByte(q)
	return b.String()
}

func isPlainIdent(v string) bool {
	if v == "" {
		return false
	}
	for i := 0; i < len(v); i++ {
		c := v[i]
		ok := 'a' <= c && c <= 'z' || 'A' <= c && c <= 'Z' || c == '_' || (i > 0 && (c == '-' || '0' <= c && c <= '9'))
		if !ok {
			return false
		}
	}
	return true
}

func (g *selGen) attr() string {
	r := g.r
	key := rng.Pick(r, "a", "b", "data-x", "class", "id", "A")
	if g.escapes && r.P(1, 4) {
		g.f("escape")
		key = cssIdent(r, rng.Pick(r, oddNames...))
	}
	if r.P(1, 6) {
		g.f("attr-has")
		return "[" + key + "]"
	}
	op := rng.Pick(r, "=", "~=", "|=", "^=", "$=", "*=", "!=", "=", "~=", "^=", "$=", "*=")
	g.f("attr" + op)
	val := rng.Pick(r, attrVals...)
	if !g.escapes && strings.ContainsAny(val, "\"\\") {
		val = "x"
	}
	if g.escapes && r.P(1, 2) {
		g.f("odd-value")
		val = rng.Pick(r, append(oddVals, oddNames...)...)
	}
	var vs string
	if isPlainIdent(val) && r.Bool() {
		vs = val
	} else {
		vs = quoteCSS(val, rng.Pick(r, byte('"'), byte('\'')))
	}
	flag := ""
	if r.P(1, 4) {
		g.f("attr-i")
		flag = rng.Pick(r, " i", " I", "i")
		if flag == "i" && vs == val { // `[a=xi]` would read xi
			flag = " i"
		}
	}
	sp := rng.Pick(r, "", "", " ")
	return "[" + sp + key + sp + op + sp + vs + flag + sp + "]"
}

func isASCII(s string) bool {
	for i := 0; i < len(s); i++ {
		if s[i] >= 0x80 {
			return false
		}
	}
	return true
}

func (g *selGen) pseudo(depth int) string {
	r := g.r
	k := r.Intn(20)
	switch {
	case k < 5:
		name := rng.Pick(r, "nth-child", "nth-last-child", "nth-of-type", "nth-last-of-type")
		g.f(name)
		return ":" + name + "(" + rng.Pick(r, "", "", " ") + g.nth() + rng.Pick(r, "", "", " ") + ")"
	case k < 8:
		name := rng.Pick(r, "first-child", "last-child", "first-of-type", "last-of-type", "only-child", "only-of-type")
		g.f(name)
		return ":" + name
	case k < 9:
		g.f("empty")
		return ":empty"
	case k < 10:
		g.f("root")
		return ":root"
	case k < 11:
		g.f("never")
		return ":" + rng.Pick(r, "hover", "visited", "active", "focus", "target")
	default:
		if depth <= 0 {
			g.f("first-child")
			return ":first-child"
		}
		name := rng.Pick(r, "not", "not", "not", "is", "is", "has", "has", "haschild")
		g.f(name)
		n := 1
		if r.P(1, 2) {
			n = r.Range(2, 3)
			g.f(name + "(list)")
		}
		var parts []string
		for i := 0; i < n; i++ {
			parts = append(parts, g.complex(depth-1, false))
		}
		return ":" + name + "(" + rng.Pick(r, "", " ") + strings.Join(parts, rng.Pick(r, ",", ", ", " , ")) + rng.Pick(r, "", " ") + ")"
	}
}

func (g *selGen) compound(depth int, pe bool) string {
	r := g.r
	var b strings.Builder
	switch k := r.Intn(10); {
	case k < 5:
		t := g.ident(append([]string{"html", "body", "DIV", "P"}, tags...))
		g.f("type")
		b.WriteString(t)
	case k < 7:
		g.f("universal")
		b.WriteString("*")
	}
	n := r.Range(0, 3)
	if b.Len() == 0 && n == 0 {
		n = 1
	}
	for i := 0; i < n; i++ {
		switch k := r.Intn(10); {
		case k < 2:
			g.f("class")
			b.WriteString("." + g.ident(classes))
		case k < 3:
			g.f("id")
			b.WriteString("#" + g.ident(ids))
		case k < 6:
			b.WriteString(g.attr())
		default:
			b.WriteString(g.pseudo(depth))
		}
	}
	if pe && r.P(1, 8) {
		g.f("pseudo-element")
		b.WriteString(rng.Pick(r, "::before", ":after", "::first-line", "::marker", ":first-letter"))
	}
	return b.String()
}

func (g *selGen) complex(depth int, pe bool) string {
	r := g.r
	n := 0
	switch k := r.Intn(10); {
	case k < 4:
		n = 0
	case k < 8:
		n = 1
	default:
		n = 2
	}
	s := g.compound(depth, pe && n == 0)
	for i := 0; i < n; i++ {
		c := rng.Pick(r, " ", " ", " > ", ">", " + ", "+", " ~ ", "~")
		g.f("comb" + strings.TrimSpace(c))
		s += c + g.compound(depth, pe && i == n-1)
	}
	return s
}

func (g *selGen) group() string {
	r := g.r
	n := 1
	if r.P(1, 4) {
		n = r.Range(2, 3)
		g.f("list")
	}
	var parts []string
	for i := 0; i < n; i++ {
		parts = append(parts, g.complex(2, true))
	}
	return strings.Join(parts, rng.Pick(r, ",", ", "))
}

// ---------------------------------------------------------------------------------------------
// AST -> wire, AST -> specificity by the definition

var opNames = map[string]string{"": "has", "=": "eq", "!=": "ne", "~=": "incl", "|=": "dash", "^=": "pre", "$=": "suf", "*=": "sub"}
var combNames = map[string]string{" ": "desc", ">": "child", "+": "adj", "~": "sib"}

func astX(a selector.VerifC05AST) (sx.X, bool) {
	switch a.Kind {
	case "tag":
		return sx.L(sx.A("tag"), sx.S(a.Name)), true
	case "class":
		return sx.L(sx.A("class"), sx.S(a.Name)), true
	case "id":
		return sx.L(sx.A("id"), sx.S(a.Name)), true
	case "attr":
		op, ok := opNames[a.Op]
		return sx.L(sx.A("attr"), sx.S(a.Key), sx.S(a.Val), sx.A(op), sx.B(a.IC)), ok
	case "nth":
		return sx.L(sx.A("nth"), sx.I(a.A), sx.I(a.B), sx.B(a.Last), sx.B(a.OfType)), true
	case "only":
		return sx.L(sx.A("only"), sx.B(a.OfType)), true
	case "empty":
		return sx.L(sx.A("empty")), true
	case "root":
		return sx.L(sx.A("root")), true
	case "never":
		return sx.L(sx.A("never"), sx.S(a.Name)), true
	case "rel", "compound":
		xs := []sx.X{sx.A(a.Kind)}
		if a.Kind == "rel" {
			xs = append(xs, sx.A(a.Name))
		} else {
			xs = append(xs, sx.S(a.PE))
		}
		for _, c := range a.Args {
			x, ok := astX(c)
			if !ok {
				return sx.X{}, false
			}
			xs = append(xs, x)
		}
		return sx.L(xs...), true
	case "combined":
		c, ok := combNames[a.Comb]
		if !ok || len(a.Args) != 2 {
			return sx.X{}, false
		}
		x, ok1 := astX(a.Args[0])
		y, ok2 := astX(a.Args[1])
		return sx.L(sx.A("combined"), sx.A(c), x, y), ok1 && ok2
	}
	return sx.X{}, false
}

type spec3 [3]int

func (s spec3) less(o spec3) bool {
	for i := range s {
		if s[i] != o[i] {
			return s[i] < o[i]
		}
	}
	return false
}

// specByDefinition: Selectors 4 §17 — ids; classes, attributes, pseudo-classes; types, pseudo-elements;
// :is/:not/:has weigh as their most specific argument; the universal selector weighs nothing.
func specByDefinition(a selector.VerifC05AST) spec3 {
	switch a.Kind {
	case "tag":
		return spec3{0, 0, 1}
	case "id":
		return spec3{1, 0, 0}
	case "class", "attr", "nth", "only", "empty", "root", "never":
		return spec3{0, 1, 0}
	case "rel":
		var m spec3
		for _, c := range a.Args {
			if s := specByDefinition(c); m.less(s) {
				m = s
			}
		}
		return m
	case "compound", "combined":
		var out spec3
		for _, c := range a.Args {
			s := specByDefinition(c)
			for i := range out {
				out[i] += s[i]
			}
		}
		if a.Kind == "compound" && a.PE != "" {
			out[2]++
		}
		return out
	}
	return spec3{}
}

func walkAST(a selector.VerifC05AST, f func(selector.VerifC05AST)) {
	f(a)
	for _, c := range a.Args {
		walkAST(c, f)
	}
}

// printerClass names why String() cannot round-trip this AST (the known printer gaps), or "".
func printerClass(as []selector.VerifC05AST) []string {
	nameChar := func(c byte) bool {
		return 'a' <= c && c <= 'z' || 'A' <= c && c <= 'Z' || c == '_' || c > 127 || c == '-' || '0' <= c && c <= '9'
	}
	cls := map[string]bool{}
	for _, a := range as {
		walkAST(a, func(n selector.VerifC05AST) {
			switch n.Kind {
			case "class", "id":
				s := strings.TrimLeft(n.Name, "-")
				if n.Kind == "id" {
					s = n.Name
				}
				if n.Kind == "class" && s != "" && '0' <= s[0] && s[0] <= '9' {
					cls["class-leading-digit"] = true
				}
				for i := 0; i < len(n.Name); i++ {
					if c := n.Name[i]; c < 0x20 || c == 0x7f { // neither a name character nor in escape()'s table
						cls["name-control-char-not-escaped"] = true
					}
				}
			case "tag":
				if t := strings.TrimLeft(n.Name, "-"); t == "" || '0' <= t[0] && t[0] <= '9' { // "-", "--", "-1x": not an identifier when printed raw
					cls["tag-not-escaped"] = true
				}
				for i := 0; i < len(n.Name); i++ {
					if !nameChar(n.Name[i]) {
						cls["tag-not-escaped"] = true
					}
				}
			case "attr":
				if strings.ContainsAny(n.Val, "\"\\\n\r\f") {
					cls["attr-value-not-escaped"] = true
				}
				if t := strings.TrimLeft(n.Key, "-"); t == "" || '0' <= t[0] && t[0] <= '9' {
					cls["attr-key-not-escaped"] = true
				}
				for i := 0; i < len(n.Key); i++ {
					if !nameChar(n.Key[i]) {
						cls["attr-key-not-escaped"] = true
					}
				}
			}
		})
	}
	// one key per finding: the first applicable class in a fixed priority order (all classes go to the reason)
	var ks []string
	for _, k := range []string{"attr-value-not-escaped", "class-leading-digit", "name-control-char-not-escaped", "tag-not-escaped", "attr-key-not-escaped"} {
		if cls[k] {
			ks = append(ks, k)
		}
	}
	return ks
}

func first(ks []string) string {
	if len(ks) == 0 {
		return ""
	}
	return ks[0]
}

// ---------------------------------------------------------------------------------------------
// the proved domain

// treeInDomain: every node satisfies LocalOk (lean/WR/C05/Domain.lean) and the modelling assumptions
// (DataAtom = atom.Lookup(Data), valid UTF-8).
func treeInDomain(root *html.Node) bool {
	ok := true
	for _, n := range preorder(root, nil) {
		if !utf8.ValidString(n.Data) {
			ok = false
		}
		for _, a := range n.Attr {
			if !utf8.ValidString(a.Key) || !utf8.ValidString(a.Val) {
				ok = false
			}
		}
		switch n.Type {
		case html.ElementNode:
			if n.DataAtom != atom.Lookup([]byte(n.Data)) {
				ok = false
			}
			switch {
			case n.Parent == nil, n.Parent.Type == html.DocumentNode:
				if n.Data != "html" {
					ok = false
				}
			case n.Parent.Type != html.ElementNode:
				ok = false
			}
		case html.TextNode, html.CommentNode:
		default: // Doctype, Document: no element among the previous siblings
			for p := n.PrevSibling; p != nil; p = p.PrevSibling {
				if p.Type == html.ElementNode {
					ok = false
				}
			}
		}
	}
	return ok
}

// selInDomain is selOk: no ^= $= *= with a non-empty blank value (the documented deviation).
func selInDomain(a selector.VerifC05AST) bool {
	ok := true
	walkAST(a, func(n selector.VerifC05AST) {
		if n.Kind == "attr" && (n.Op == "^=" || n.Op == "$=" || n.Op == "*=") && n.Val != "" && strings.TrimSpace(n.Val) == "" {
			ok = false
		}
		if !utf8.ValidString(n.Name) || !utf8.ValidString(n.Key) || !utf8.ValidString(n.Val) {
			ok = false
		}
	})
	return ok
}

// matchDiffers classifies a difference between Match and the model. Inside the proved domain the model IS
// the Selectors relation (matches_iff_spec_document_partial), so the implementation violates the property:
// a judge finding. Outside (wild trees, blank-value quirk) it only breaks the correspondence.
func matchDiffers(inDomain bool, input, impl, model, why string, seed uint64) res.Finding {
	if inDomain {
		return res.Finding{Kind: "judge", Op: "judge:match-differs-from-definition", Input: input, Impl: impl, Model: model, Seed: seed,
			Reason: why + "; selector in selOk and every node of the tree LocalOk: there the model is proved equal to the Selectors definition (theorem WR.Props.C05.matches_iff_spec_document_partial), so Match departs from the definition"}
	}
	return res.Finding{Kind: "corr", Op: "corr:match", Input: input, Impl: impl, Model: model, Seed: seed, Key: "outside-proved-domain",
		Reason: why + "; outside the proved domain (tree not LocalOk or selector not in selOk)"}
}

// ---------------------------------------------------------------------------------------------
// one case

type runner struct {
	m    *mp.Model
	out  *res.Result
	seen map[string]int
}

// add records a finding; classified judge findings (the known classes repeat thousands of times) are kept
// once per class so that the shared cap on findings can never hide a correspondence failure or a new class.
func (c *runner) add(f res.Finding) {
	if c.seen == nil {
		c.seen = map[string]int{}
	}
	k := f.Kind + "|" + f.Op + "|" + f.Key
	c.seen[k]++
	if f.Kind == "judge" && f.Key != "" && c.seen[k] > 1 {
		c.out.Hit("finding:" + f.Kind + ":" + f.Op)
		return
	}
	c.out.Add(f)
}

func bitsOf(s selector.Sel, nodes []*html.Node) string {
	b := make([]byte, len(nodes))
	for i, n := range nodes {
		if s.Match(n) {
			b[i] = '1'
		} else {
			b[i] = '0'
		}
	}
	return string(b)
}

func guard(f func()) (p string) {
	defer func() {
		if r := recover(); r != nil {
			p = fmt.Sprint(r)
		}
	}()
	f()
	return ""
}

// checkParse compares the real parser with the parser model on one text (valid or not): ok / error, the AST
// structurally, and String() of the parsed group with the printer model.
func (c *runner) checkParse(text string, group selector.SelectorGroup, perr error, seed uint64, stream string) error {
	if !utf8.ValidString(text) {
		c.out.Hit("parse:not-utf8")
		return nil
	}
	ans, err := c.m.Ask(sx.L(sx.A("c05parse"), sx.S(text)))
	if err != nil {
		return err
	}
	input := "sel=" + strconv.Quote(text)
	implX, supported := "", true
	if perr == nil {
		xs := []sx.X{sx.A("sels")}
		for _, a := range selector.VerifC05DumpGroup(group) {
			x, ok := astX(a)
			supported = supported && ok
			xs = append(xs, x)
		}
		implX = sx.L(xs...).String()
	}
	diff := func(impl, model, why string) {
		c.add(res.Finding{Kind: "corr", Op: "corr:parse", Input: input, Impl: impl, Model: model, Reason: why + " (" + stream + " stream)", Seed: seed})
	}
	switch ans.Head() {
	case "unsupported":
		c.out.Hit("parse:model-unsupported")
		if perr == nil && supported {
			diff(implX, "unsupported", "the parser model met a construct outside its grammar, the real parser produced a fully modelled AST")
		}
	case "err":
		c.out.Hit("parse:error")
		if perr == nil {
			diff(implX, "error", "the real parser accepts a text the parser model rejects")
		}
	case "fuel":
		diff(fmt.Sprint(perr), "fuel", "the parser model ran out of fuel (parse_total says it cannot)")
	case "ok":
		c.out.Hit("parse:ok")
		switch {
		case perr != nil:
			diff("error: "+perr.Error(), ans.Xs[1].String(), "the real parser rejects a text the parser model accepts")
		case !supported:
			diff(implX, ans.Xs[1].String(), "the real parser produced a node outside the modelled grammar, the parser model did not notice")
		case ans.Xs[1].String() != implX:
			diff(implX, ans.Xs[1].String(), "the parsed ASTs differ")
		default:
			// print_parse_roundtrip on this instance: the parsed AST is printable unless a name holds U+0000,
			// and a printable AST is read back by the model parser from the model printer's text
			hasNUL := strings.Contains(implX, "\\u{0}")
			printable, rt := len(ans.Xs) == 5 && ans.Xs[3].S == "1", len(ans.Xs) == 5 && ans.Xs[4].S == "1"
			c.out.Hit("parse:printable=" + ans.Xs[3].S)
			if printable == hasNUL {
				diff(implX, "printable="+ans.Xs[3].S, "groupPrintable of a parsed selector list must hold exactly when no name or value contains U+0000")
			}
			if printable && !rt {
				c.add(res.Finding{Kind: "judge", Op: "judge:model-roundtrip", Input: input, Model: ans.Xs[2].S,
					Reason: "the parser model does not read the printer model's text back to the same AST although groupPrintable holds (contradicts theorem WR.Props.C05.print_parse_roundtrip)", Seed: seed})
			}
			var printed string
			if p := guard(func() { printed = group.String() }); p != "" {
				c.add(res.Finding{Kind: "crash", Op: "crash:String", Input: input, Reason: p, Key: "String", Seed: seed})
			} else if printed != ans.Xs[2].S {
				c.add(res.Finding{Kind: "corr", Op: "corr:print", Input: input, Impl: strconv.Quote(printed), Model: strconv.Quote(ans.Xs[2].S),
					Reason: "String() differs from the printer model on the same AST (" + stream + " stream)", Seed: seed})
			}
		}
	default:
		return fmt.Errorf("model answered %.200s for c05parse %s", ans.String(), input)
	}
	return nil
}

// check runs one selector text on one tree. judgeOnly: the text is outside what the model is asked.
func (c *runner) check(selText string, root *html.Node, seed uint64, feat map[string]bool, stream string) error {
	out := c.out
	input := fmt.Sprintf("sel=%s tree=%s", strconv.Quote(selText), treeText(root))
	var group selector.SelectorGroup
	var perr error
	if p := guard(func() { group, perr = selector.ParseGroup(selText) }); p != "" {
		c.add(res.Finding{Kind: "crash", Op: "crash:ParseGroup", Input: input, Reason: p, Key: "ParseGroup", Seed: seed})
		return nil
	}
	if err := c.checkParse(selText, group, perr, seed, stream); err != nil {
		return err
	}
	if perr != nil {
		out.Hit("parse-error")
		out.Count(selText, false)
		return nil
	}
	asts := selector.VerifC05DumpGroup(group)
	nodes := preorder(root, nil)
	xs := []sx.X{sx.A("sels")}
	supported := true
	for _, a := range asts {
		x, ok := astX(a)
		supported = supported && ok
		xs = append(xs, x)
	}
	if !supported {
		out.Hit("unsupported-selector")
		out.Count(selText, false)
		return nil
	}
	// implementation
	implBits := make([]string, len(group))
	implSpec := make([]spec3, len(group))
	implPE := make([]string, len(group))
	if p := guard(func() {
		for i, s := range group {
			implBits[i] = bitsOf(s, nodes)
			implSpec[i] = spec3(s.Specificity())
			implPE[i] = s.PseudoElement()
		}
	}); p != "" {
		c.add(res.Finding{Kind: "crash", Op: "crash:Match", Input: input, Reason: p, Key: "Match", Seed: seed})
		return nil
	}
	// model
	ans, err := c.m.Ask(sx.L(sx.A("c05"), sx.L(xs...), nodeX(root)))
	if err != nil {
		return err
	}
	if ans.Head() != "ok" || len(ans.Xs) != len(group)+1 {
		return fmt.Errorf("model answered %s for %s", ans.String(), input)
	}
	nontrivial := false
	treeOK := treeInDomain(root)
	if treeOK {
		c.out.Hit("domain:tree-LocalOk")
	}
	for i := range group {
		r := ans.Xs[i+1]
		if len(r.Xs) != 4 || len(r.Xs[2].Xs) != 4 {
			return fmt.Errorf("model answered %s", ans.String())
		}
		mBits := r.Xs[1].S
		var mSpec spec3
		for j := 0; j < 3; j++ {
			mSpec[j], _ = strconv.Atoi(r.Xs[2].Xs[j+1].S)
		}
		mPE := r.Xs[3].S
		if mBits != implBits[i] {
			c.add(matchDiffers(treeOK && selInDomain(asts[i]), input, implBits[i], mBits,
				fmt.Sprintf("selector #%d of the group (%s stream): match bits per node (document order) differ", i, stream), seed))
		}
		if mSpec != implSpec[i] {
			// specificity_eq_spec is unconditional: the model's weight IS the definition's
			c.add(res.Finding{Kind: "judge", Op: "judge:specificity-differs-from-definition", Input: input, Impl: fmt.Sprint(implSpec[i]), Model: fmt.Sprint(mSpec),
				Reason: "Specificity() differs from the model, which is proved equal to the Selectors definition for every selector (theorem WR.Props.C05.specificity_eq_spec)", Seed: seed})
		}
		if mPE != implPE[i] {
			c.add(res.Finding{Kind: "corr", Op: "corr:pseudo-element", Input: input, Impl: implPE[i], Model: mPE,
				Reason: "PseudoElement() differs from the model", Key: stream, Seed: seed})
		}
		if strings.Contains(implBits[i], "1") && strings.Contains(implBits[i][1:], "0") {
			nontrivial = true
		}
		// judge: specificity by the definition
		if want := specByDefinition(asts[i]); want != implSpec[i] {
			key := ""
			walkAST(asts[i], func(n selector.VerifC05AST) {
				if n.Kind == "never" {
					key = "never-match-pseudo-class"
				}
			})
			c.add(res.Finding{Kind: "judge", Op: "judge:specificity", Input: "sel=" + strconv.Quote(group[i].String()),
				Impl: fmt.Sprint(implSpec[i]), Model: fmt.Sprint(want),
				Reason: "Specificity() is not (ids, classes+attributes+pseudo-classes, types+pseudo-elements)", Key: key, Seed: seed})
		}
	}
	// judge: printed selector parses to an equivalent selector
	var printed string
	if p := guard(func() { printed = group.String() }); p != "" {
		c.add(res.Finding{Kind: "crash", Op: "crash:String", Input: input, Reason: p, Key: "String", Seed: seed})
		return nil
	}
	pin := fmt.Sprintf("sel=%s printed=%s", strconv.Quote(selText), strconv.Quote(printed))
	g2, err2 := selector.ParseGroup(printed)
	switch {
	case err2 != nil:
		c.add(res.Finding{Kind: "judge", Op: "judge:print-reparse", Input: pin, Impl: "re-parse error: " + err2.Error(),
			Reason: fmt.Sprint("String() of a parsed selector does not parse; strings the printer does not escape: ", printerClass(asts)), Key: first(printerClass(asts)), Seed: seed})
	case len(g2) != len(group):
		c.add(res.Finding{Kind: "judge", Op: "judge:print-reparse", Input: pin, Impl: fmt.Sprintf("%d selectors", len(g2)),
			Reason: fmt.Sprint("String() re-parses to a group of another length; strings the printer does not escape: ", printerClass(asts)), Key: first(printerClass(asts)), Seed: seed})
	default:
		for i := range group {
			b2 := bitsOf(g2[i], nodes)
			if b2 != implBits[i] || spec3(g2[i].Specificity()) != implSpec[i] || g2[i].PseudoElement() != implPE[i] {
				c.add(res.Finding{Kind: "judge", Op: "judge:print-reparse", Input: pin + " tree=" + treeText(root),
					Impl:   fmt.Sprint(b2, g2[i].Specificity(), g2[i].PseudoElement()),
					Model:  fmt.Sprint(implBits[i], implSpec[i], implPE[i]),
					Reason: fmt.Sprint("String() re-parses to a selector that matches/weighs differently; strings the printer does not escape: ", printerClass(asts)), Key: first(printerClass(asts)), Seed: seed})
				break
			}
		}
	}
	keys := make([]string, 0, len(feat))
	for k := range feat {
		keys = append(keys, k)
		out.Hit("sel:" + k)
	}
	out.Hit(fmt.Sprintf("nodes:%02d", (len(nodes)/4)*4))
	out.Count(selText+"|"+treeText(root), nontrivial)
	out.Sample(map[string]string{"selector": selText, "tree": treeText(root), "bits": strings.Join(implBits, ",")})
	return nil
}

// ---------------------------------------------------------------------------------------------
// judge streams

// emptyValue: substring and word operators with an empty value match nothing.
func (c *runner) emptyValue(r *rng.R, n int) {
	for i := 0; i < n; i++ {
		cr := r.Sub()
		seed := cr.Seed()
		op := rng.Pick(cr, "^=", "$=", "*=", "~=")
		key := rng.Pick(cr, "a", "b", "class", "data-x")
		sel := "[" + key + op + `""` + rng.Pick(cr, "", "", " i") + "]"
		if cr.P(1, 3) {
			sel = rng.Pick(cr, "p", "div", "*") + sel
		}
		root := genTree(cr, treeOpts{})
		g, err := selector.ParseGroup(sel)
		if err != nil {
			continue
		}
		bits := bitsOf(g[0], preorder(root, nil))
		c.out.Count("empty:"+sel+"|"+treeText(root), strings.Contains(treeText(root), " "+key+"="))
		c.out.Hit("judge:empty-value")
		if strings.Contains(bits, "1") {
			c.add(res.Finding{Kind: "judge", Op: "judge:empty-value", Input: fmt.Sprintf("sel=%s tree=%s", strconv.Quote(sel), treeText(root)),
				Impl: bits, Model: strings.Repeat("0", len(bits)),
				Reason: "an attribute selector with operator " + op + " and an empty value must match nothing", Key: op, Seed: seed})
		}
	}
}

type corpusCase struct {
	Name   string   `json:"name"`
	What   string   `json:"what"`
	Sel    string   `json:"sel"`
	Doc    string   `json:"doc"`
	Want   []string `json:"want"`   // ids of the elements that must match, in document order
	Spec   []int    `json:"spec"`   // optional: Specificity() of the first selector
	Detach bool     `json:"detach"` // detach the root element from its document first (tree.NewHTML does)
}

// corpus runs /verif/corpus/C05/*.json first: expectations read off Selectors 3/4 (HTML: document white
// space = ASCII white space, the i flag = ASCII case-insensitive, attribute selectors and combinators see
// elements only), including the minimal inputs of the repaired defects; two files record a documented
// deviation (their `want` is the code's behaviour).
func (c *runner) corpus() error {
	exe, err := os.Executable()
	if err != nil {
		return err
	}
	files, _ := filepath.Glob(filepath.Join(filepath.Dir(filepath.Dir(exe)), "corpus", "C05", "*.json"))
	for _, f := range files {
		var p corpusCase
		b, err := os.ReadFile(f)
		if err == nil {
			err = json.Unmarshal(b, &p)
		}
		if err != nil || p.Sel == "" {
			return fmt.Errorf("corpus file %s: unreadable or empty (%v)", f, err)
		}
		g, err := selector.ParseGroup(p.Sel)
		if err != nil {
			c.add(res.Finding{Kind: "judge", Op: "judge:corpus", Input: p.Sel, Reason: "does not parse: " + err.Error(), Key: p.Name})
			continue
		}
		doc, _ := html.Parse(strings.NewReader(p.Doc))
		if p.Detach {
			for h := doc.FirstChild; h != nil; h = h.NextSibling {
				if h.Type == html.ElementNode {
					doc.RemoveChild(h)
					doc = h
					break
				}
			}
		}
		got := []string{}
		for _, n := range preorder(doc, nil) {
			if n.Type != html.ElementNode || !g.Match(n) {
				continue
			}
			id := "<" + n.Data + ">"
			for _, a := range n.Attr {
				if a.Key == "id" {
					id = a.Val
				}
			}
			got = append(got, id)
		}
		c.out.Count("corpus:"+p.Name, true)
		c.out.Hit("judge:corpus")
		if fmt.Sprint(got) != fmt.Sprint(p.Want) {
			c.add(res.Finding{Kind: "judge", Op: "judge:corpus", Input: fmt.Sprintf("sel=%s doc=%s", strconv.Quote(p.Sel), strconv.Quote(p.Doc)),
				Impl: fmt.Sprint(got), Model: fmt.Sprint(p.Want), Reason: "matched elements (by id) differ from the expectation: " + p.What, Key: p.Name})
		}
		if len(p.Spec) == 3 {
			if sp := g[0].Specificity(); sp != [3]int{p.Spec[0], p.Spec[1], p.Spec[2]} {
				c.add(res.Finding{Kind: "judge", Op: "judge:corpus", Input: "sel=" + strconv.Quote(p.Sel), Impl: fmt.Sprint(sp), Model: fmt.Sprint(p.Spec),
					Reason: "Specificity() differs from the expectation: " + p.What, Key: p.Name})
			}
		}
		// the same case goes through the model, the specificity judge and the print -> re-parse judge
		if err := c.check(p.Sel, doc, 0, map[string]bool{"corpus": true}, "corpus"); err != nil {
			return err
		}
	}
	c.out.Notes = append(c.out.Notes, fmt.Sprintf("corpus: %d cases (expectations from the standard, minimal inputs of repaired defects) run first", len(files)))
	if len(files) == 0 {
		return fmt.Errorf("corpus /verif/corpus/C05 not found")
	}
	return nil
}

// fragments spliced into selector texts by the parser stream: comments, namespace-like universals, constructs
// outside the grammar (the model must answer `unsupported` or agree on the error), near-misses of the syntax
var parseFragments = []string{"/* c */", "/**/", "/*", "*/", "/*/", "*|*", "*|*.a", "*|", "|", "::before", "::BEFORE", ":After", "::nope", ":where(.a)", ":is()", ":not( )",
	":lang(en)", ":lang( fr-be )", ":contains(\"x\")", ":containsOwn(x)", ":matches(^a)", ":matchesOwn([0-9]+)", "[a#=x]", "[a#=[0-9]+]", ":input", ":link", ":enabled", ":disabled", ":checked",
	":nth-child(2n of .a)", ":nth-child(n+)", ":nth-child(- n)", ":nth-child(+-n)", ":nth-child(n + -1)", ":nth-child(99999999999999999999)", ":nth-child(9223372036854775807n+1)", ":nth-child(9223372036854775808)",
	":nth-child(ODD)", ":nth-child(evenx)", ":NTH-child(  2N  -  1  )", ":nth-last-of-type(-N+ 3)", ":first-child(", ":root()", ":hover", ":HOVER", ":target::marker",
	"[a=b i]", "[a=bi]", "[a='b'I ]", "[a i]", "[a=]", "[a==b]", "[a~b]", "[a!=b]", "[a\u00e9=b]", "[\u00e9=b]", "[a=\u00e9]", "[a\u00e9]", "[a", "[a=", "[a=b", "[a='b", "[a='b\\", "[a='b\\\nc']", "[a=\"b\\\r\nc\"]",
	"\\", "\\\n", "\\41 ", "\\000041b", "\\41\r\nb", "\\110000 ", "\\d800 ", "\\0 ", "\\zz", "\\\u00e9", "-", "--", "-a", "--a", "-1", "a-", "_", "\u00e9\u6f22", "\U0001f600", "A", "DIV", ">", "+", "~", ",", ", ,", ")", "(", " ", "\t", "\n", "\f", "\r", "\v", "\u00a0", "#", "#1", "#-", ".", ".1", ".-", ".-a", ":", "::", ":::"}

// parseStream: texts only (no tree): grammar-generated selectors with spliced fragments and byte-level
// mutations, real ParseGroup vs the parser model (ok/error, AST, printed text).
func (c *runner) parseStream(r *rng.R, n int) error {
	for i := 0; i < n; i++ {
		cr := r.Sub()
		seed := cr.Seed()
		g := &selGen{r: cr, feat: map[string]bool{}, escapes: cr.Bool()}
		var text string
		switch cr.Intn(4) {
		case 0:
			text = g.group()
		case 1: // a few fragments only
			for k := cr.Range(1, 4); k > 0; k-- {
				text += rng.Pick(cr, parseFragments...)
			}
		default:
			text = g.group()
			for k := cr.Range(1, 3); k > 0; k-- {
				f := rng.Pick(cr, parseFragments...)
				p := cr.Intn(len(text) + 1)
				for p < len(text) && !utf8.RuneStart(text[p]) {
					p++
				}
				text = text[:p] + f + text[p:]
			}
		}
		if cr.P(1, 3) {
			b := []byte(text)
			for k := cr.Range(1, 2); k > 0 && len(b) > 0; k-- {
				p := cr.Intn(len(b))
				switch cr.Intn(3) {
				case 0:
					b = append(b[:p], b[p+1:]...)
				case 1:
					b[p] = rng.Pick(cr, byte('('), ')', '[', ']', ':', '.', '#', '"', '\'', '\\', ',', '>', '+', '~', ' ', '-', 'n', '0', '=', '*', '|', '/', 'i', '\n')
				default:
					b = b[:p]
				}
			}
			text = string(b)
		}
		var group selector.SelectorGroup
		var perr error
		if p := guard(func() { group, perr = selector.ParseGroup(text) }); p != "" {
			c.add(res.Finding{Kind: "crash", Op: "crash:ParseGroup", Input: "sel=" + strconv.Quote(text), Reason: p, Key: "ParseGroup", Seed: seed})
			continue
		}
		if err := c.checkParse(text, group, perr, seed, "parser"); err != nil {
			return err
		}
		c.out.Count("parse:"+text, perr == nil)
		c.out.Hit("stream:parser")
	}
	return nil
}

// ---------------------------------------------------------------------------------------------

// Run is the runner entry.
func Run(tier string, seed uint64, modelPath, repo string, out *res.Result) error {
	m, err := mp.Start(modelPath)
	if err != nil {
		return err
	}
	defer m.Close()
	c := &runner{m: m, out: out}
	r := rng.New(seed)
	nMain, nWild, nEsc, nEmpty, nMal, nParse := 4200, 800, 1500, 600, 1500, 25000
	if tier == "thorough" {
		nMain, nWild, nEsc, nEmpty, nMal, nParse = 120000, 30000, 60000, 20000, 60000, 1500000
	}
	out.Rule = "case = (selector group text generated from the supported grammar, tree); the real parser's AST (hook) and the tree go to the Lean model; " +
		"compared for EVERY node of the tree: match bit of every selector of the group, plus specificity and pseudo-element; a difference on a LocalOk tree and a selOk selector (resp. any specificity difference) is a judge finding by the theorems, otherwise a corr finding. " +
		"Trees: built directly as *html.Node (text/comment siblings, blank/doubled-space attribute values) and, one in three, re-read through html.Render+html.Parse. " +
		"Streams: main, wild (outside LocalOk: nested html, exotic spaces, attributes on comments/doctype, fragments), escapes (names with leading digits/hyphens, specials, control characters, non-ASCII written with random CSS escapes, values with quotes/backslashes/newlines, the same odd names in the trees: exercises String()), " +
		"malformed (mutated selector text: parse errors must not crash; accepted ones are compared), parser (texts only: generated selectors with spliced fragments — comments, escapes, constructs outside the grammar, near-misses — and byte mutations; real ParseGroup vs the parser model: ok/error, AST, String() vs the printer model), judges empty-value and corpus, thorough: exhaustive small bounds. " +
		"non-trivial = the selector matches at least one node and not all; distinct by selector text + tree"
	if err := c.corpus(); err != nil {
		return err
	}
	c.emptyValue(r.Sub(), nEmpty)
	run := func(n int, o treeOpts, esc bool, stream string) error {
		sr := r.Sub()
		for i := 0; i < n; i++ {
			cr := sr.Sub()
			seed := cr.Seed()
			root := genTree(cr, o)
			if cr.P(1, 3) && !o.wild && !o.odd {
				root = viaParser(root)
			}
			for k := 0; k < 5; k++ {
				g := &selGen{r: cr, feat: map[string]bool{}, escapes: esc}
				if err := c.check(g.group(), root, seed, g.feat, stream); err != nil {
					return err
				}
			}
			out.Hit("stream:" + stream)
		}
		return nil
	}
	if err := run(nMain, treeOpts{}, false, "main"); err != nil {
		return err
	}
	if err := run(nWild, treeOpts{wild: true}, false, "wild"); err != nil {
		return err
	}
	if err := run(nEsc, treeOpts{odd: true}, true, "escapes"); err != nil {
		return err
	}
	// malformed stream: byte-level mutations of valid selectors
	mr := r.Sub()
	for i := 0; i < nMal; i++ {
		cr := mr.Sub()
		seed := cr.Seed()
		g := &selGen{r: cr, feat: map[string]bool{"malformed": true}, escapes: true}
		s := []byte(g.group())
		for k := cr.Range(1, 3); k > 0 && len(s) > 0; k-- {
			p := cr.Intn(len(s))
			switch cr.Intn(3) {
			case 0:
				s = append(s[:p], s[p+1:]...)
			case 1:
				s[p] = rng.Pick(cr, byte('('), ')', '[', ']', ':', '.', '#', '"', '\'', '\\', ',', '>', '+', '~', ' ', '-', 'n', '0', '=', '*', '|', '/')
			default:
				s = s[:p]
			}
		}
		if !isASCII(string(s)) {
			continue
		}
		if err := c.check(string(s), genTree(cr, treeOpts{}), seed, g.feat, "malformed"); err != nil {
			return err
		}
		out.Hit("stream:malformed")
	}
	if err := c.parseStream(r.Sub(), nParse); err != nil {
		return err
	}
	if tier == "thorough" {
		if err := c.exhaustive(); err != nil {
			return err
		}
	}
	out.ModelCalls = m.N
	return nil
}
