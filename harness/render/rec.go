// Package render runs the real renderer in process on a recording backend.
package render

import (
	"fmt"
	"math"
	"strings"
	"time"

	"github.com/benoitkugler/webrender/backend"
	"github.com/benoitkugler/webrender/css/parser"
	"github.com/benoitkugler/webrender/matrix"
)

type fl = backend.Fl

// Ev is one backend call.
type Ev struct {
	Canvas int       // canvas id the call was made on (0 = document level)
	Op     string    // method name
	F      []float64 // numeric arguments
	S      string    // string argument(s)
	Ref    int       // referenced canvas (NewGroup result, DrawWithOpacity/SetAlphaMask/SetColorPattern group)
	Depth  int       // OnNewStack nesting depth of the canvas at the time of the call
}

func (e Ev) String() string {
	var b strings.Builder
	fmt.Fprintf(&b, "%d:%s", e.Canvas, e.Op)
	for _, f := range e.F {
		fmt.Fprintf(&b, " %v", float32(f))
	}
	if e.S != "" {
		fmt.Fprintf(&b, " %q", e.S)
	}
	if e.Ref != 0 {
		fmt.Fprintf(&b, " ->%d", e.Ref)
	}
	return b.String()
}

// Rec is a backend.Document that records every call.
type Rec struct {
	Events                      []Ev
	NonFinite                   []string // call sites that received a NaN/Inf
	nextID                      int
	Pages                       []int // canvas ids of pages in AddPage order
	Anchors                     [][]backend.Anchor
	Bookmarks                   []backend.BookmarkNode
	Meta                        map[string]string
	AnchorsCalls, BookmarkCalls int
	Fonts                       map[int]map[string]bool // canvas id -> registered font keys (by root page)
}

func NewRec() *Rec {
	return &Rec{Meta: map[string]string{}, Fonts: map[int]map[string]bool{}}
}

func (r *Rec) log(c *canvas, op string, s string, ref int, fs ...fl) {
	e := Ev{Op: op, S: s, Ref: ref}
	if c != nil {
		e.Canvas, e.Depth = c.id, c.depth
	}
	for _, f := range fs {
		v := float64(f)
		if math.IsNaN(v) || math.IsInf(v, 0) {
			r.NonFinite = append(r.NonFinite, fmt.Sprintf("%s(canvas %d)", op, e.Canvas))
		}
		e.F = append(e.F, v)
	}
	r.Events = append(r.Events, e)
}

type canvas struct {
	r     *Rec
	id    int
	root  int // id of the page canvas this group (transitively) belongs to
	depth int
	ctm   matrix.Transform
	stack []matrix.Transform
	bbox  [4]fl
}

func (r *Rec) newCanvas(root int) *canvas {
	r.nextID++
	c := &canvas{r: r, id: r.nextID, ctm: matrix.Identity()}
	if root == 0 {
		root = c.id
	}
	c.root = root
	return c
}

// ---- backend.Document

func (r *Rec) AddPage(left, top, right, bottom fl) backend.Page {
	c := r.newCanvas(0)
	r.Pages = append(r.Pages, c.id)
	c.bbox = [4]fl{left, top, right, bottom}
	r.log(nil, "AddPage", "", c.id, left, top, right, bottom)
	return c
}

func (r *Rec) CreateAnchors(anchors [][]backend.Anchor) {
	r.AnchorsCalls++
	r.Anchors = anchors
	for _, pa := range anchors {
		for _, a := range pa {
			r.log(nil, "Anchor", a.Name, 0, a.X, a.Y)
		}
	}
	r.log(nil, "CreateAnchors", "", 0, fl(len(anchors)))
}
func (r *Rec) SetAttachments(as []backend.Attachment) {
	r.log(nil, "SetAttachments", "", 0, fl(len(as)))
}
func (r *Rec) EmbedFile(id string, a backend.Attachment) { r.log(nil, "EmbedFile", id, 0) }
func (r *Rec) SetTitle(s string)                         { r.Meta["title"] = s; r.log(nil, "SetTitle", s, 0) }
func (r *Rec) SetDescription(s string)                   { r.Meta["description"] = s; r.log(nil, "SetDescription", s, 0) }
func (r *Rec) SetCreator(s string)                       { r.Meta["creator"] = s; r.log(nil, "SetCreator", s, 0) }
func (r *Rec) SetAuthors(s []string) {
	r.Meta["authors"] = strings.Join(s, "\x00")
	r.log(nil, "SetAuthors", strings.Join(s, "|"), 0)
}
func (r *Rec) SetKeywords(s []string) {
	r.Meta["keywords"] = strings.Join(s, "\x00")
	r.log(nil, "SetKeywords", strings.Join(s, "|"), 0)
}
func (r *Rec) SetProducer(s string) { r.Meta["producer"] = s; r.log(nil, "SetProducer", s, 0) }
func (r *Rec) SetDateCreation(d time.Time) {
	r.Meta["created"] = d.UTC().Format(time.RFC3339)
	r.log(nil, "SetDateCreation", r.Meta["created"], 0)
}
func (r *Rec) SetDateModification(d time.Time) {
	r.Meta["modified"] = d.UTC().Format(time.RFC3339)
	r.log(nil, "SetDateModification", r.Meta["modified"], 0)
}
func (r *Rec) SetBookmarks(root []backend.BookmarkNode) {
	r.BookmarkCalls++
	r.Bookmarks = root
	var walk func(ns []backend.BookmarkNode, d int)
	walk = func(ns []backend.BookmarkNode, d int) {
		for _, n := range ns {
			r.log(nil, "Bookmark", n.Label, 0, fl(d), fl(n.PageIndex), n.X, n.Y)
			walk(n.Children, d+1)
		}
	}
	walk(root, 0)
}

// ---- backend.Page

func (c *canvas) AddInternalLink(x0, y0, x1, y1 fl, name string) {
	c.r.log(c, "AddInternalLink", name, 0, x0, y0, x1, y1)
}
func (c *canvas) AddExternalLink(x0, y0, x1, y1 fl, url string) {
	c.r.log(c, "AddExternalLink", url, 0, x0, y0, x1, y1)
}
func (c *canvas) AddFileAnnotation(x0, y0, x1, y1 fl, id string) {
	c.r.log(c, "AddFileAnnotation", id, 0, x0, y0, x1, y1)
}
func (c *canvas) SetMediaBox(l, t, r, b fl) { c.r.log(c, "SetMediaBox", "", 0, l, t, r, b) }
func (c *canvas) SetTrimBox(l, t, r, b fl)  { c.r.log(c, "SetTrimBox", "", 0, l, t, r, b) }
func (c *canvas) SetBleedBox(l, t, r, b fl) { c.r.log(c, "SetBleedBox", "", 0, l, t, r, b) }

// ---- backend.Canvas

func (c *canvas) GetBoundingBox() (fl, fl, fl, fl) { return c.bbox[0], c.bbox[1], c.bbox[2], c.bbox[3] }
func (c *canvas) SetBoundingBox(l, t, r, b fl) {
	c.bbox = [4]fl{l, t, r, b}
	c.r.log(c, "SetBoundingBox", "", 0, l, t, r, b)
}

func (c *canvas) OnNewStack(f func()) {
	c.r.log(c, "Save", "", 0)
	c.stack = append(c.stack, c.ctm)
	c.depth++
	defer func() {
		// a panic inside f propagates; the recorder stays consistent for the crash report
		c.depth--
		c.ctm = c.stack[len(c.stack)-1]
		c.stack = c.stack[:len(c.stack)-1]
		c.r.log(c, "Restore", "", 0)
	}()
	f()
}

func (c *canvas) State() backend.GraphicState { return c }

func (c *canvas) NewGroup(x, y, w, h fl) backend.Canvas {
	g := c.r.newCanvas(c.root)
	g.bbox = [4]fl{x, y, x + w, y + h}
	c.r.log(c, "NewGroup", "", g.id, x, y, w, h)
	return g
}

func ref(g backend.Canvas) int {
	if cc, ok := g.(*canvas); ok && cc != nil {
		return cc.id
	}
	return -1
}

func (c *canvas) DrawWithOpacity(opacity fl, group backend.Canvas) {
	c.r.log(c, "DrawWithOpacity", "", ref(group), opacity)
}
func (c *canvas) Paint(op backend.PaintOp) { c.r.log(c, "Paint", op.String(), 0) }
func (c *canvas) Rectangle(x, y, w, h fl)  { c.r.log(c, "Rectangle", "", 0, x, y, w, h) }
func (c *canvas) MoveTo(x, y fl)           { c.r.log(c, "MoveTo", "", 0, x, y) }
func (c *canvas) LineTo(x, y fl)           { c.r.log(c, "LineTo", "", 0, x, y) }
func (c *canvas) CubicTo(x1, y1, x2, y2, x3, y3 fl) {
	c.r.log(c, "CubicTo", "", 0, x1, y1, x2, y2, x3, y3)
}
func (c *canvas) ClosePath() { c.r.log(c, "ClosePath", "", 0) }

func fontKey(f backend.Font) string {
	d := f.Description()
	o := f.Origin()
	return fmt.Sprintf("%s|%d|%d|%s|%d", o.File, o.Index, o.Instance, d.Family, d.Weight)
}

func (c *canvas) AddFont(font backend.Font, content []byte) *backend.FontChars {
	k := fontKey(font)
	m := c.r.Fonts[c.root]
	if m == nil {
		m = map[string]bool{}
		c.r.Fonts[c.root] = m
	}
	m[k] = true
	c.r.log(c, "AddFont", k, 0)
	return &backend.FontChars{Cmap: make(map[backend.GID][]rune), Extents: make(map[backend.GID]backend.GlyphExtents)}
}

func (c *canvas) DrawText(texts []backend.TextDrawing) {
	for _, t := range texts {
		unreg := ""
		for _, run := range t.Runs {
			if !c.r.Fonts[c.root][fontKey(run.Font)] {
				unreg = " UNREGISTERED-FONT"
			}
		}
		for _, run := range t.Runs {
			for _, g := range run.Glyphs {
				c.r.log(c, "glyph", "", 0, g.Offset, g.Rise, g.XAdvance)
				c.r.Events = c.r.Events[:len(c.r.Events)-1] // finiteness check only
			}
		}
		c.r.log(c, "DrawText", string(t.Text)+unreg, 0, t.X, t.Y, t.FontSize, t.ScaleX, t.Angle)
	}
}

func (c *canvas) DrawRasterImage(img backend.RasterImage, w, h fl) {
	c.r.log(c, "DrawRasterImage", img.MimeType, 0, w, h)
}
func (c *canvas) DrawGradient(g backend.GradientLayout, w, h fl) {
	fs := []fl{w, h, g.ScaleY}
	fs = append(fs, g.Coords[:]...)
	fs = append(fs, g.Positions...)
	for _, col := range g.Colors {
		fs = append(fs, col.R, col.G, col.B, col.A)
	}
	c.r.log(c, "DrawGradient", g.Kind, 0, fs...)
}

// ---- backend.GraphicState

func (c *canvas) SetAlphaMask(mask backend.Canvas) { c.r.log(c, "SetAlphaMask", "", ref(mask)) }
func (c *canvas) Clip(evenOdd bool) {
	s := "nonzero"
	if evenOdd {
		s = "evenodd"
	}
	c.r.log(c, "Clip", s, 0)
}
func strokeS(stroke bool) string {
	if stroke {
		return "stroke"
	}
	return "fill"
}
func (c *canvas) SetAlpha(a fl, stroke bool) { c.r.log(c, "SetAlpha", strokeS(stroke), 0, a) }
func (c *canvas) SetColorRgba(col parser.RGBA, stroke bool) {
	c.r.log(c, "SetColorRgba", strokeS(stroke), 0, col.R, col.G, col.B, col.A)
}
func (c *canvas) SetColorPattern(p backend.Canvas, w, h fl, m matrix.Transform, stroke bool) {
	c.r.log(c, "SetColorPattern", strokeS(stroke), ref(p), w, h, m.A, m.B, m.C, m.D, m.E, m.F)
}
func (c *canvas) SetBlendingMode(mode string) { c.r.log(c, "SetBlendingMode", mode, 0) }
func (c *canvas) SetLineWidth(w fl)           { c.r.log(c, "SetLineWidth", "", 0, w) }
func (c *canvas) SetDash(d []fl, off fl)      { c.r.log(c, "SetDash", "", 0, append([]fl{off}, d...)...) }
func (c *canvas) SetStrokeOptions(o backend.StrokeOptions) {
	c.r.log(c, "SetStrokeOptions", o.LineCap.String()+"/"+o.LineJoin.String(), 0, o.MiterLimit)
}
func (c *canvas) GetTransform() matrix.Transform { return c.ctm }
func (c *canvas) Transform(m matrix.Transform) {
	c.ctm = matrix.Mul(c.ctm, m)
	c.r.log(c, "Transform", "", 0, m.A, m.B, m.C, m.D, m.E, m.F)
}
func (c *canvas) SetTextPaint(op backend.PaintOp) { c.r.log(c, "SetTextPaint", op.String(), 0) }

var (
	_ backend.Document = (*Rec)(nil)
	_ backend.Page     = (*canvas)(nil)
)

// Trace renders the event list canonically (one line per call).
func (r *Rec) Trace() string {
	var b strings.Builder
	for _, e := range r.Events {
		b.WriteString(e.String())
		b.WriteByte('\n')
	}
	return b.String()
}
