package render

import (
	"fmt"
	"io"
	"runtime/debug"
	"strings"
	"sync"
	"time"

	fc "github.com/benoitkugler/textprocessing/fontconfig"
	"github.com/benoitkugler/textprocessing/pango/fcfonts"
	bo "github.com/benoitkugler/webrender/html/boxes"
	"github.com/benoitkugler/webrender/html/document"
	"github.com/benoitkugler/webrender/html/layout"
	"github.com/benoitkugler/webrender/html/tree"
	"github.com/benoitkugler/webrender/logger"
	"github.com/benoitkugler/webrender/text"
	"github.com/benoitkugler/webrender/utils"
)

var (
	fontOnce sync.Once
	fontSet  fc.Fontset
	fontErr  error
)

// Quiet silences the renderer's loggers (they are package-level; see C15).
func Quiet() {
	logger.ProgressLogger.SetOutput(io.Discard)
	logger.WarningLogger.SetOutput(io.Discard)
}

func scan(repo string) {
	fontOnce.Do(func() {
		fontSet, fontErr = fc.Standard.ScanFontDirectories(repo+"/resources_test", "/usr/share/fonts/truetype/dejavu")
	})
}

// NewFonts returns a fresh Pango font configuration (Ahem + weasyprint.otf + DejaVu).
func NewFonts(repo string) (text.FontConfiguration, error) {
	scan(repo)
	if fontErr != nil {
		return nil, fontErr
	}
	return text.NewFontConfigurationPango(fcfonts.NewFontMap(fc.Standard.Copy(), fontSet)), nil
}

// Outcome of one guarded call into the real code.
type Outcome struct {
	Panic   string // recovered panic value, "" if none
	Site    string // first /repo frame of the panic stack: "pkg.func"
	Stack   string
	Timeout bool
}

func (o Outcome) OK() bool { return o.Panic == "" && !o.Timeout }

// Guard runs f, converting a panic into an Outcome and giving up after d (the goroutine is
// leaked on timeout: the caller is expected to be a worker process that exits soon).
func Guard(d time.Duration, f func()) Outcome {
	done := make(chan Outcome, 1)
	go func() {
		defer func() {
			if r := recover(); r != nil {
				st := string(debug.Stack())
				done <- Outcome{Panic: fmt.Sprint(r), Site: panicSite(st), Stack: st}
			}
		}()
		f()
		done <- Outcome{}
	}()
	if d <= 0 {
		return <-done
	}
	select {
	case o := <-done:
		return o
	case <-time.After(d):
		return Outcome{Timeout: true}
	}
}

// panicSite extracts the innermost frame below the panic that belongs to webrender.
func panicSite(stack string) string {
	lines := strings.Split(stack, "\n")
	seenPanic := false
	for _, l := range lines {
		if strings.HasPrefix(l, "panic(") {
			seenPanic = true
			continue
		}
		if !seenPanic {
			continue
		}
		if strings.HasPrefix(l, "github.com/benoitkugler/webrender/") {
			s := strings.TrimPrefix(l, "github.com/benoitkugler/webrender/")
			if i := strings.LastIndex(s, "("); i > 0 {
				s = s[:i]
			}
			return s
		}
	}
	return "?"
}

// Doc is everything observed from one full render.
type Doc struct {
	HTML  *tree.HTML
	Pages []*bo.PageBox
	Out   *document.Document
	Rec   *Rec
}

// Opts configures a render.
type Opts struct {
	UserCSS   []string
	Hints     bool
	Zoom      float64
	BaseURL   string
	Fetcher   utils.UrlFetcher
	MediaType string
	NoWrite   bool
}

// Full parses, lays out and writes src onto a recording backend.
func Full(src string, fonts text.FontConfiguration, o Opts) (*Doc, error) {
	h, err := tree.NewHTML(utils.InputString(src), o.BaseURL, o.Fetcher, o.MediaType)
	if err != nil {
		return nil, err
	}
	var sheets []tree.CSS
	for _, u := range o.UserCSS {
		css, err := tree.NewCSSDefault(utils.InputString(u))
		if err != nil {
			return nil, err
		}
		sheets = append(sheets, css)
	}
	d := &Doc{HTML: h}
	out := document.Render(h, sheets, o.Hints, fonts)
	d.Out = &out
	for _, p := range out.Pages {
		d.Pages = append(d.Pages, p.VerifPageBox())
	}
	if !o.NoWrite {
		d.Rec = NewRec()
		z := o.Zoom
		if z == 0 {
			z = 1
		}
		out.Write(d.Rec, utils.Fl(z), nil)
	}
	return d, nil
}

// LayoutOnly parses and lays out (no drawing).
func LayoutOnly(src string, fonts text.FontConfiguration, o Opts) ([]*bo.PageBox, *tree.HTML, error) {
	h, err := tree.NewHTML(utils.InputString(src), o.BaseURL, o.Fetcher, o.MediaType)
	if err != nil {
		return nil, nil, err
	}
	var sheets []tree.CSS
	for _, u := range o.UserCSS {
		css, err := tree.NewCSSDefault(utils.InputString(u))
		if err != nil {
			return nil, nil, err
		}
		sheets = append(sheets, css)
	}
	return layout.Layout(h, sheets, o.Hints, fonts), h, nil
}
