package c01

import (
	"fmt"
	"strings"

	"wrverif/rng"
)

// invalid declarations: unknown property, invalid value for a known property, wrong arity, bad
// function, bad unit ... all with balanced brackets (an unbalanced one legitimately swallows
// what follows, per CSS Syntax).
var invalidDecls = []Decl{
	{Name: "colour", Value: "red"}, {Name: "width", Value: "12qq"}, {Name: "display", Value: "blok"},
	{Name: "margin", Value: "1px 2px 3px 4px 5px"}, {Name: "color", Value: "rgb(1,2)"}, {Name: "float", Value: "middle"},
	{Name: "position", Value: "absolute relative"}, {Name: "height", Value: "-10px"}, {Name: "font-size", Value: "-1px"},
	{Name: "-x-unknown", Value: "1"}, {Name: "width", Value: ""}, {Name: "width", Value: "10px 10px"}, {Name: "border", Value: "1px solid red blue"},
	{Name: "content", Value: "counter()"}, {Name: "transform", Value: "rotate(10px)"}, {Name: "columns", Value: "-2"},
	{Name: "grid-template-columns", Value: "repeat(1fr)"}, {Name: "flex", Value: "1 2 3 4"}, {Name: "page-break-before", Value: "sometimes"},
	{Name: "width", Value: "calc(1px +)"}, {Name: "background", Value: "url(a) url(b) red red"}, {Name: "z-index", Value: "1.5"},
	{Name: "line-height", Value: "-1"}, {Name: "padding", Value: "-1px"}, {Name: "width", Value: "[10px]"}, {Name: "color", Value: "{red}"},
	{Name: "counter-reset", Value: "1"}, {Name: "1width", Value: "10px"}, {Name: "width", Value: "10px !importan"},
	{Name: "orphans", Value: "0.5"}, {Name: "text-align", Value: "middle"}, {Name: "display", Value: "table table"}, {Name: "break-before", Value: "page page"},
}

var invalidRules = []string{
	"@foo bar;", "@foo { p { display: none } }", "@unknown x y z { a: b }", "div:::bad { display: none }", "p:nth-child(x) { display: none }",
	":foo(bar) { display: none }", "p..c1 { display: none }", "> p { display: none }", "p, { display: none }", "@page :nope { size: 10px }",
	"@media { }", "@counter-style { system: cyclic }", "@font-face { }", "@page { @top-nowhere { content: 'x' } }", "div[] { display: none }",
	"p:not() { display: none }", "@namespace ;", "@keyframes k { from { width: 0 } }", "#1a { display:none }", "@import;",
	"@counter-style decimal { system: cyclic; symbols: 'x' }", "@counter-style csbad { system: additive; symbols: 'x' }",
}

var invalidAttrs = []Attr{
	{K: "zzq", V: "1"}, {K: "data-x", V: "a b c"}, {K: "onclick", V: "x()"}, {K: "aria-hidden", V: "true"}, {K: "x:y", V: ""}, {K: "zzq-2", V: "<>&"},
}

// Inject adds exactly one invalid construct (marked Inj) at a random place; false if there is
// no place of the chosen kind.
func Inject(d *Doc, r *rng.R) bool {
	k := r.Intn(5)
	// an unclosed inline <svg> swallows the HTML elements that follow it: their attributes then are
	// SVG attributes, where an element in error is skipped as a whole (by design since 1ac0952), so
	// element-level injections are not "invalid constructs that are skipped alone" there
	for _, w := range walk(d.Body) {
		if w.n.Tag == "#raw" && !strings.HasSuffix(w.n.Text, "</svg>") && (k == 2 || k == 4) {
			k = 0
		}
	}
	switch k {
	case 0, 1: // invalid declaration in an existing author/user rule
		rs := allRules(d)
		var cand []*Rule
		for _, ru := range rs {
			// declaration blocks only: the body of @media is a rule list, where a stray declaration
			// legitimately merges with the following rule's prelude
			if ru.Raw == "" && !strings.HasPrefix(ru.Prelude, "@media") {
				cand = append(cand, ru)
			}
		}
		if len(cand) == 0 {
			return false
		}
		ru := cand[r.Intn(len(cand))]
		dd := invalidDecls[r.Intn(len(invalidDecls))]
		dd.Inj = true
		p := r.Intn(len(ru.Decls) + 1)
		ru.Decls = append(ru.Decls[:p:p], append([]Decl{dd}, ru.Decls[p:]...)...)
		d.InjWhat = fmt.Sprintf("declaration `%s` into rule `%s`", dd.String(), ru.Prelude)
		return true
	case 2: // invalid declaration in an existing style attribute
		var cand []*Node
		for _, w := range walk(d.Body) {
			if len(w.n.Style) > 0 {
				cand = append(cand, w.n)
			}
		}
		if len(cand) == 0 {
			return false
		}
		n := cand[r.Intn(len(cand))]
		dd := invalidDecls[r.Intn(len(invalidDecls))]
		dd.Inj = true
		p := r.Intn(len(n.Style) + 1)
		n.Style = append(n.Style[:p:p], append([]Decl{dd}, n.Style[p:]...)...)
		d.InjWhat = fmt.Sprintf("style-declaration `%s` into the style attribute of <%s>", dd.String(), n.Tag)
		return true
	case 3: // invalid / unknown rule between the author rules (or in the user sheet)
		ru := &Rule{Raw: invalidRules[r.Intn(len(invalidRules))], Inj: true}
		if r.P(1, 3) {
			p := r.Intn(len(d.User) + 1)
			d.User = append(d.User[:p:p], append([]*Rule{ru}, d.User[p:]...)...)
			d.InjWhat = fmt.Sprintf("rule `%s` at user-sheet position %d", ru.Raw, p)
			return true
		}
		// never in front of an @import / @namespace / @charset statement (they must come first)
		lo := 0
		for i, a := range d.Author {
			if a.Raw != "" {
				lo = i + 1
			}
		}
		p := lo + r.Intn(len(d.Author)-lo+1)
		d.Author = append(d.Author[:p:p], append([]*Rule{ru}, d.Author[p:]...)...)
		d.InjWhat = fmt.Sprintf("rule `%s` at author-sheet position %d", ru.Raw, p)
		return true
	default: // unknown attribute on an element
		var cand []*Node
		for _, w := range walk(d.Body) {
			if w.n.Tag != "" && w.n.Tag != "#raw" {
				cand = append(cand, w.n)
			}
		}
		if len(cand) == 0 {
			return false
		}
		n := cand[r.Intn(len(cand))]
		a := invalidAttrs[r.Intn(len(invalidAttrs))]
		a.Inj = true
		n.Attrs = append(n.Attrs, a)
		d.InjWhat = fmt.Sprintf("attribute `%s=\"%s\"` on <%s>", a.K, a.V, n.Tag)
		return true
	}
}
