package c01

import (
	"bufio"
	"crypto/sha1"
	"encoding/hex"
	"encoding/json"
	"fmt"
	"io"
	"os"
	"os/exec"
	"path/filepath"
	"runtime"
	"runtime/debug"
	"sort"
	"strings"
	"sync"
	"sync/atomic"
	"syscall"
	"time"

	bo "github.com/benoitkugler/webrender/html/boxes"
	"github.com/benoitkugler/webrender/logger"
	"github.com/benoitkugler/webrender/text"

	"golang.org/x/net/html"

	"wrverif/render"
)

// WorkerEnv turns the harness binary into a C01 worker (see reg_c01.go).
const WorkerEnv = "WRH_C01_WORKER"

// Case is one render request sent to a worker.
type Case struct {
	ID       int      `json:"id"`
	HTML     string   `json:"html"`
	User     []string `json:"user,omitempty"`
	Hints    bool     `json:"hints"`
	Engine   string   `json:"engine"`
	LimitMS  int      `json:"limit_ms"`
	MaxPages int      `json:"max_pages"` // > 0: stop as "page loop" when the progress log passes this page number
	NoTrace  bool     `json:"no_trace,omitempty"`
}

// Out is a worker's answer.
type Out struct {
	ID      int    `json:"id"`
	Status  string `json:"status"` // ok | error | panic | timeout | pageloop | memory | fatal
	Panic   string `json:"panic,omitempty"`
	Site    string `json:"site,omitempty"`
	Stack   string `json:"stack,omitempty"`
	Err     string `json:"err,omitempty"`
	Trace   string `json:"trace,omitempty"` // sha1 of the backend trace
	Events  int    `json:"events,omitempty"`
	Pages   int    `json:"pages,omitempty"`   // pages in the result
	Counted int64  `json:"counted,omitempty"` // highest page number announced by the progress logger
	HeadBox bool   `json:"head_box,omitempty"` // some box is generated for <head> or one of its descendants (<style>, <title> ...)
	MS      int64  `json:"ms"`
}

type pageCounter struct{ n atomic.Int64 }

func (p *pageCounter) Write(b []byte) (int, error) {
	if i := strings.Index(string(b), "Creating layout - Page "); i >= 0 {
		var k int64
		fmt.Sscanf(string(b[i+len("Creating layout - Page "):]), "%d", &k)
		if k > p.n.Load() {
			p.n.Store(k)
		}
	}
	return len(b), nil
}

func gotextFonts(repo string) (text.FontConfiguration, error) {
	files, _ := filepath.Glob(repo + "/resources_test/*.ttf")
	otf, _ := filepath.Glob(repo + "/resources_test/*.otf")
	files = append(files, otf...)
	files = append(files, "/usr/share/fonts/truetype/dejavu/DejaVuSans.ttf", "/usr/share/fonts/truetype/dejavu/DejaVuSans-Bold.ttf", "/usr/share/fonts/truetype/dejavu/DejaVuSerif.ttf", "/usr/share/fonts/truetype/dejavu/DejaVuSansMono.ttf")
	return text.VerifC01NewGotext(files)
}

// WorkerMain serves cases from stdin until EOF.  A timeout / page loop / memory blow-up is
// answered and then the process exits (the runaway goroutine cannot be stopped); a fatal error
// (stack exhaustion, out of memory) kills the process, which the master observes.
func WorkerMain() {
	repo := os.Getenv("WRH_C01_REPO")
	if repo == "" {
		repo = "/repo"
	}
	debug.SetMaxStack(64 << 20)
	pc := &pageCounter{}
	logger.WarningLogger.SetOutput(io.Discard)
	logger.ProgressLogger.SetOutput(pc)
	logger.ProgressLogger.SetFlags(0)
	in := bufio.NewReaderSize(os.Stdin, 1<<20)
	out := bufio.NewWriter(os.Stdout)
	answer := func(o Out) {
		b, _ := json.Marshal(o)
		out.Write(b)
		out.WriteByte('\n')
		out.Flush()
	}
	var pango, gotext text.FontConfiguration
	// memory watchdog
	var cur atomic.Int64
	cur.Store(-1)
	var mu sync.Mutex
	go func() {
		var ms runtime.MemStats
		for {
			time.Sleep(150 * time.Millisecond)
			runtime.ReadMemStats(&ms)
			if ms.HeapAlloc > 2<<30 {
				mu.Lock()
				answer(Out{ID: int(cur.Load()), Status: "memory", Counted: pc.n.Load()})
				os.Exit(0)
			}
		}
	}()
	for {
		line, err := in.ReadBytes('\n')
		if len(line) == 0 && err != nil {
			return
		}
		var c Case
		if e := json.Unmarshal(line, &c); e != nil {
			answer(Out{ID: -1, Status: "error", Err: "bad request: " + e.Error()})
			continue
		}
		var fonts text.FontConfiguration
		var ferr error
		if c.Engine == "gotext" {
			if gotext == nil {
				gotext, ferr = gotextFonts(repo)
			}
			fonts = gotext
		} else {
			if pango == nil {
				pango, ferr = render.NewFonts(repo)
			}
			fonts = pango
		}
		if ferr != nil {
			answer(Out{ID: c.ID, Status: "error", Err: "fonts: " + ferr.Error()})
			continue
		}
		cur.Store(int64(c.ID))
		pc.n.Store(0)
		t0 := time.Now()
		var d *render.Doc
		var rerr error
		done := make(chan render.Outcome, 1)
		go func() {
			done <- render.Guard(0, func() {
				d, rerr = render.Full(c.HTML, fonts, render.Opts{UserCSS: c.User, Hints: c.Hints, BaseURL: "file:///nonexistent-base/"})
			})
		}()
		// the limit is in CPU time of this process (robust against a loaded machine); a wall-clock cap
		// of 6x the limit (at least 60 s) catches a renderer that blocks without burning CPU
		wall := 6 * time.Duration(c.LimitMS) * time.Millisecond
		if wall < 60*time.Second {
			wall = 60 * time.Second
		}
		limit := time.After(wall)
		cpu0 := cpuTime()
		tick := time.NewTicker(20 * time.Millisecond)
		var o render.Outcome
		status := ""
	wait:
		for {
			select {
			case o = <-done:
				break wait
			case <-limit:
				status = "timeout"
				break wait
			case <-tick.C:
				if c.MaxPages > 0 && pc.n.Load() > int64(c.MaxPages) {
					status = "pageloop"
					break wait
				}
				if cpuTime()-cpu0 > time.Duration(c.LimitMS)*time.Millisecond {
					status = "timeout"
					break wait
				}
			}
		}
		tick.Stop()
		ms := time.Since(t0).Milliseconds()
		mu.Lock()
		if status != "" {
			answer(Out{ID: c.ID, Status: status, Counted: pc.n.Load(), MS: ms})
			os.Exit(0)
		}
		res := Out{ID: c.ID, MS: ms, Counted: pc.n.Load()}
		switch {
		case o.Panic != "":
			res.Status, res.Panic, res.Site = "panic", o.Panic, o.Site
			res.Stack = trimStack(o.Stack)
		case rerr != nil:
			res.Status, res.Err = "error", rerr.Error()
		default:
			res.Status = "ok"
			res.Pages = len(d.Pages)
			res.HeadBox = headDisplayed(d)
			if d.Rec != nil {
				res.Events = len(d.Rec.Events)
				if !c.NoTrace {
					tr := canonTrace(d.Rec.Trace())
					if tf := os.Getenv("WRH_C01_TRACEFILE"); tf != "" {
						os.WriteFile(tf, []byte(tr), 0o644)
					}
					h := sha1.Sum([]byte(tr))
					res.Trace = hex.EncodeToString(h[:])
				}
			}
		}
		answer(res)
		mu.Unlock()
		cur.Store(-1)
	}
}

// headDisplayed: is a box generated for <head> or an element inside it?  (Then the TEXT of the
// <style> element is drawn, and editing that text is not a metamorphic step.)
func headDisplayed(d *render.Doc) bool {
	for _, pg := range d.Pages {
		for _, b := range bo.DescendantsPlaceholders(pg, true) {
			for n := b.Box().Element; n != nil; n = n.Parent {
				if n.Type == html.ElementNode && n.Data == "head" {
					return true
				}
			}
		}
	}
	return false
}

// canonTrace sorts every run of consecutive anchor lines: their order within a page is the
// iteration order of a Go map (a determinism matter, property C15), irrelevant to C01's
// "same drawing with and without the invalid construct".
func canonTrace(t string) string {
	lines := strings.Split(t, "\n")
	i := 0
	for i < len(lines) {
		if !strings.HasPrefix(lines[i], "0:Anchor ") {
			i++
			continue
		}
		j := i
		for j < len(lines) && strings.HasPrefix(lines[j], "0:Anchor ") {
			j++
		}
		sort.Strings(lines[i:j])
		i = j
	}
	return strings.Join(lines, "\n")
}

// cpuTime is the user+system CPU time consumed by this process so far.
func cpuTime() time.Duration {
	var ru syscall.Rusage
	if syscall.Getrusage(syscall.RUSAGE_SELF, &ru) != nil {
		return 0
	}
	return time.Duration(ru.Utime.Nano() + ru.Stime.Nano())
}

func trimStack(s string) string {
	lines := strings.Split(s, "\n")
	var keep []string
	seen := false
	for _, l := range lines {
		if strings.HasPrefix(l, "panic(") {
			seen = true
		}
		if seen {
			keep = append(keep, l)
		}
		if len(keep) > 24 {
			break
		}
	}
	return strings.Join(keep, "\n")
}

// ---------------------------------------------------------------------------------------------
// master side

type worker struct {
	cmd    *exec.Cmd
	in     io.WriteCloser
	out    *bufio.Reader
	stderr *tailBuf
}

type tailBuf struct {
	mu sync.Mutex
	b  []byte
}

func (t *tailBuf) Write(p []byte) (int, error) {
	t.mu.Lock()
	defer t.mu.Unlock()
	t.b = append(t.b, p...)
	if len(t.b) > 1<<16 {
		// keep head (the fatal error message and the first goroutine frames are at the top)
		t.b = t.b[:1<<16]
	}
	return len(p), nil
}

func (t *tailBuf) String() string { t.mu.Lock(); defer t.mu.Unlock(); return string(t.b) }

func startWorker(repo string) (*worker, error) {
	exe, err := os.Executable()
	if err != nil {
		return nil, err
	}
	cmd := exec.Command(exe)
	cmd.Env = append(os.Environ(), WorkerEnv+"=1", "WRH_C01_REPO="+repo, "GOMEMLIMIT=off", "GOMAXPROCS=2", "GOTRACEBACK=single")
	w := &worker{cmd: cmd, stderr: &tailBuf{}}
	cmd.Stderr = w.stderr
	if w.in, err = cmd.StdinPipe(); err != nil {
		return nil, err
	}
	op, err := cmd.StdoutPipe()
	if err != nil {
		return nil, err
	}
	w.out = bufio.NewReaderSize(op, 1<<20)
	if err := cmd.Start(); err != nil {
		return nil, err
	}
	return w, nil
}

func (w *worker) kill() {
	if w == nil {
		return
	}
	w.in.Close()
	w.cmd.Process.Kill()
	w.cmd.Wait()
}

// fatalSite extracts "fatal error: ..." and the first webrender frame from a dead worker's stderr.
func fatalSite(stderr string) (msg, site string) {
	for _, l := range strings.Split(stderr, "\n") {
		if msg == "" && (strings.HasPrefix(l, "fatal error:") || strings.HasPrefix(l, "runtime: goroutine stack exceeds") || strings.HasPrefix(l, "panic:")) {
			msg = strings.TrimSpace(l)
			if strings.HasPrefix(l, "runtime: goroutine stack exceeds") {
				msg = "fatal error: stack overflow"
			}
		}
		if site == "" && strings.HasPrefix(l, "github.com/benoitkugler/webrender/") {
			s := strings.TrimPrefix(l, "github.com/benoitkugler/webrender/")
			if i := strings.LastIndex(s, "("); i > 0 {
				s = s[:i]
			}
			site = s
		}
	}
	if msg == "" {
		msg = "worker died"
	}
	if site == "" {
		site = "?"
	}
	return
}

// run1 sends one case and waits for the answer; a dead or silent worker yields Status "fatal".
// The bool result says whether the worker is still usable.
func (w *worker) run1(c Case) (Out, bool) {
	b, _ := json.Marshal(c)
	if _, err := w.in.Write(append(b, '\n')); err != nil {
		w.cmd.Wait()
		msg, site := fatalSite(w.stderr.String())
		return Out{ID: c.ID, Status: "fatal", Panic: msg, Site: site, Stack: head(w.stderr.String(), 3000)}, false
	}
	type ans struct {
		line []byte
		err  error
	}
	ch := make(chan ans, 1)
	go func() {
		l, err := w.out.ReadBytes('\n')
		ch <- ans{l, err}
	}()
	select {
	case a := <-ch:
		var o Out
		if a.err != nil || json.Unmarshal(a.line, &o) != nil {
			w.cmd.Wait()
			msg, site := fatalSite(w.stderr.String())
			return Out{ID: c.ID, Status: "fatal", Panic: msg, Site: site, Stack: head(w.stderr.String(), 3000)}, false
		}
		alive := o.Status != "timeout" && o.Status != "pageloop" && o.Status != "memory"
		if !alive {
			w.cmd.Wait()
		}
		return o, alive
	case <-time.After(7*time.Duration(c.LimitMS)*time.Millisecond + 90*time.Second):
		// the worker's own watchdog did not fire (all threads stuck): kill it
		w.cmd.Process.Kill()
		w.cmd.Wait()
		return Out{ID: c.ID, Status: "timeout", Err: "worker unresponsive"}, false
	}
}

func head(s string, n int) string {
	if len(s) > n {
		return s[:n]
	}
	return s
}

// Pool runs cases on n worker processes.
type Pool struct {
	repo string
	n    int
	mu   sync.Mutex
	idle []*worker
	Runs atomic.Int64
}

func NewPool(repo string, n int) *Pool { return &Pool{repo: repo, n: n} }

func (p *Pool) get() (*worker, error) {
	p.mu.Lock()
	if k := len(p.idle); k > 0 {
		w := p.idle[k-1]
		p.idle = p.idle[:k-1]
		p.mu.Unlock()
		return w, nil
	}
	p.mu.Unlock()
	return startWorker(p.repo)
}

func (p *Pool) put(w *worker) {
	p.mu.Lock()
	p.idle = append(p.idle, w)
	p.mu.Unlock()
}

// One runs a single case on a (possibly fresh) worker.
func (p *Pool) One(c Case) Out {
	p.Runs.Add(1)
	w, err := p.get()
	if err != nil {
		return Out{ID: c.ID, Status: "error", Err: "cannot start worker: " + err.Error()}
	}
	o, alive := w.run1(c)
	if alive {
		p.put(w)
	} else {
		w.kill()
	}
	return o
}

// All runs the cases with the pool's parallelism and returns the answers by index.
func (p *Pool) All(cs []Case, progress func(done int)) []Out {
	outs := make([]Out, len(cs))
	var next atomic.Int64
	var done atomic.Int64
	var wg sync.WaitGroup
	for i := 0; i < p.n; i++ {
		wg.Add(1)
		go func() {
			defer wg.Done()
			for {
				k := int(next.Add(1)) - 1
				if k >= len(cs) {
					return
				}
				outs[k] = p.One(cs[k])
				if d := done.Add(1); progress != nil {
					progress(int(d))
				}
			}
		}()
	}
	wg.Wait()
	return outs
}

func (p *Pool) Close() {
	p.mu.Lock()
	for _, w := range p.idle {
		w.kill()
	}
	p.idle = nil
	p.mu.Unlock()
}
