package c01

import "wrverif/res"

func runModel(modelPath string, seed uint64, tier, repo string, out *res.Result) error { return nil }
