package c01

import (
	"fmt"
	"strings"
	"time"

	pa "github.com/benoitkugler/webrender/css/parser"
	"github.com/benoitkugler/webrender/css/validation"
	"github.com/benoitkugler/webrender/html/tree"
	"github.com/benoitkugler/webrender/utils"
	"golang.org/x/net/html"

	"wrverif/mp"
	"wrverif/render"
	"wrverif/res"
	"wrverif/rng"
	"wrverif/sx"
)

// runModel: unit-level correspondences of the three Lean models (WR/C01/Model.lean) with the real code.
//
//	root  : tree.NewHTML's choice of root over child lists shaped like html.Parse output  vs pickRoot
//	keep  : validation.PreprocessDeclarations on a list  vs  keepValid over the per-declaration results
func runModel(modelPath string, seed uint64, tier, repo string, out *res.Result) error {
	if modelPath == "" {
		out.NotChecked = append(out.NotChecked, "L1 correspondences root / keep: no model driver given")
		return nil
	}
	m, err := mp.Start(modelPath)
	if err != nil {
		return err
	}
	defer m.Close()
	render.Quiet()
	r := rng.New(seed ^ 0xC01A)

	// ---- root discovery
	type shape struct {
		dt        bool
		pre, post int
	}
	var shapes []shape
	for _, dt := range []bool{false, true} {
		for pre := 0; pre <= 3; pre++ {
			for post := 0; post <= 2; post++ {
				shapes = append(shapes, shape{dt, pre, post})
			}
		}
	}
	for i := 0; i < 40; i++ {
		shapes = append(shapes, shape{r.Bool(), r.Intn(6), r.Intn(4)})
	}
	for _, s := range shapes {
		var b strings.Builder
		ks := []sx.X{}
		if s.dt {
			b.WriteString("<!DOCTYPE html>")
			ks = append(ks, sx.A("doctype"))
		}
		for i := 0; i < s.pre; i++ {
			fmt.Fprintf(&b, "<!-- pre %d -->", i)
			ks = append(ks, sx.A("comment"))
		}
		b.WriteString("<html><head></head><body><p>x</p></body></html>")
		ks = append(ks, sx.L(sx.A("element"), sx.S("html")))
		for i := 0; i < s.post; i++ {
			fmt.Fprintf(&b, "<!-- post %d -->", i)
			ks = append(ks, sx.A("comment"))
		}
		src := b.String()
		ans, err := m.Ask(sx.L(sx.A("root"), sx.L(ks...)))
		if err != nil {
			return err
		}
		out.ModelCalls++
		if len(ans.Xs) != 3 || ans.Xs[0].S != "ok" {
			return fmt.Errorf("model: unexpected answer %s", ans)
		}
		cur := ans.Xs[1].String()
		var impl string
		oc := render.Guard(10*time.Second, func() {
			h, err := tree.NewHTML(utils.InputString(src), "", nil, "")
			if err != nil {
				impl = "(error)"
				return
			}
			// index of the chosen node among the document's children
			idx := 0
			for n := (*html.Node)(h.Root).PrevSibling; n != nil; n = n.PrevSibling {
				idx++
			}
			switch h.Root.Type {
			case html.ElementNode:
				impl = fmt.Sprintf("(node %d (element \"%s\"))", idx, h.Root.Data)
			case html.CommentNode:
				impl = fmt.Sprintf("(node %d comment)", idx)
			case html.DoctypeNode:
				impl = fmt.Sprintf("(node %d doctype)", idx)
			default:
				impl = fmt.Sprintf("(node %d text)", idx)
			}
		})
		out.Count("root:"+src, s.pre > 0 || s.dt)
		out.Hit("L1:root")
		if !oc.OK() {
			out.Add(res.Finding{Kind: "crash", Op: "root", Input: src, Reason: oc.Panic, Key: oc.Site})
			continue
		}
		// judge: the property's own statement — the root is the element
		if !strings.Contains(impl, "(element \"html\")") {
			out.Add(res.Finding{Kind: "judge", Op: "root-found", Input: src, Impl: impl, Model: cur,
				Reason: "tree.NewHTML selected " + impl + " as the root instead of the <html> element", Key: "root-not-element"})
		}
		if impl != cur {
			out.Add(res.Finding{Kind: "corr", Op: "corr:root", Input: src, Impl: impl, Model: cur, Reason: "root discovery differs from the model pickRoot"})
		}
	}

	// ---- keepValid vs PreprocessDeclarations
	n := 1500
	if tier == "thorough" {
		n = 20000
	}
	g := &gen{r: r}
	show := func(ds []validation.Declaration) []string {
		var o []string
		for _, d := range ds {
			imp := ""
			if d.Important {
				imp = "!"
			}
			o = append(o, fmt.Sprintf("%s=%v%s", d.Name, d.Value, imp))
		}
		return o
	}
	for i := 0; i < n; i++ {
		k := r.Range(1, 7)
		var texts []string
		for j := 0; j < k; j++ {
			var d Decl
			if r.P(1, 3) {
				d = invalidDecls[r.Intn(len(invalidDecls))]
			} else {
				d = g.decl()
			}
			if strings.HasPrefix(d.Name, "--") || strings.Contains(d.Value, "var(") {
				d = Decl{Name: "width", Value: "10px"} // var() declarations are validated later, at cascade time
			}
			texts = append(texts, d.String())
		}
		var whole []string
		items := make([]sx.X, len(texts))
		anyInvalid := false
		oc := render.Guard(10*time.Second, func() {
			whole = show(validation.PreprocessDeclarations("", pa.ParseBlocksContentsString(strings.Join(texts, ";"))))
			for j, t := range texts {
				one := show(validation.PreprocessDeclarations("", pa.ParseBlocksContentsString(t)))
				if len(one) == 0 {
					items[j] = sx.L(sx.A("err"))
					anyInvalid = true
				} else {
					xs := []sx.X{sx.A("ok")}
					for _, s := range one {
						xs = append(xs, sx.S(s))
					}
					items[j] = sx.L(xs...)
				}
			}
		})
		src := strings.Join(texts, ";")
		out.Count("keep:"+src, anyInvalid && k > 1)
		out.Hit("L1:keep")
		if !oc.OK() {
			out.Add(res.Finding{Kind: "crash", Op: "preprocess-declarations", Input: src, Reason: oc.Panic, Key: oc.Site})
			continue
		}
		ans, err := m.Ask(sx.L(sx.A("keep"), sx.L(items...)))
		if err != nil {
			return err
		}
		out.ModelCalls++
		if len(ans.Xs) != 2 || ans.Xs[0].S != "ok" {
			return fmt.Errorf("model: unexpected answer %s", ans)
		}
		var model []string
		for _, x := range ans.Xs[1].Xs {
			model = append(model, x.S)
		}
		if strings.Join(model, "\x00") != strings.Join(whole, "\x00") {
			out.Add(res.Finding{Kind: "judge", Op: "invalid-skipped:declarations", Input: src, Impl: whole, Model: model,
				Reason: "PreprocessDeclarations on the list differs from the concatenation of its results on each declaration alone (an invalid declaration influenced the others)"})
		}
	}
	return nil
}
