package c01

import (
	"encoding/json"
	"fmt"
	"os"
	"path/filepath"
	"regexp"
	"runtime"
	"sort"
	"strconv"
	"strings"
	"sync"
	"time"

	"wrverif/res"
	"wrverif/rng"
)

// ---------------------------------------------------------------------------------------------
// known-findings awareness: only used to ORDER what is reported (res.Result keeps at most 3 findings per
// class): crashes that no recorded entry describes are reported first, so that they cannot be
// hidden behind re-observations of a recorded class.  Matching proper is done by ./check.

type kfEntry struct {
	Property   string  `json:"property"`
	Kind       string  `json:"kind"`
	Op         string  `json:"op"`
	Key        *string `json:"key"`
	InputRegex string  `json:"input_regex"`
	re         *regexp.Regexp
}

func loadKnown(prop string) []kfEntry {
	root := os.Getenv("VERIF_ROOT")
	if root == "" {
		root = "/verif"
	}
	var out []kfEntry
	files, _ := filepath.Glob(filepath.Join(root, "known_findings.d", "*.json"))
	files = append(files, filepath.Join(root, "known_findings.json"))
	for _, f := range files {
		b, err := os.ReadFile(f)
		if err != nil {
			continue
		}
		var j struct {
			Findings []kfEntry `json:"findings"`
		}
		if json.Unmarshal(b, &j) != nil {
			continue
		}
		for _, e := range j.Findings {
			if e.Property != prop {
				continue
			}
			if e.InputRegex != "" {
				// python's (?s) etc. are accepted by Go's RE2 except look-around: such entries are kept
				// with re == nil and count as "may match"
				e.re, _ = regexp.Compile("(?s)" + e.InputRegex)
			}
			out = append(out, e)
		}
	}
	return out
}

func knownMatch(kf []kfEntry, kind, op, key, input string) bool {
	for _, e := range kf {
		if e.Kind != "" && e.Kind != kind {
			continue
		}
		if e.Op != "" && e.Op != op {
			continue
		}
		if e.Key != nil && *e.Key != key {
			continue
		}
		if e.InputRegex != "" && e.re != nil && !e.re.MatchString(input) {
			continue
		}
		return true
	}
	return false
}

// ---------------------------------------------------------------------------------------------

func workers() int {
	if s := os.Getenv("WRH_C01_WORKERS"); s != "" {
		if n, err := strconv.Atoi(s); err == nil && n > 0 {
			return n
		}
	}
	n := runtime.NumCPU()
	if n > 16 {
		n = 16
	}
	if n < 2 {
		n = 2
	}
	return n
}

func maxPages(c Case) int {
	n := len(c.HTML)
	for _, u := range c.User {
		n += len(u)
	}
	return 4*n + 200
}

const (
	opRender = "render"
	opMeta   = "invalid-skipped"
)

type failure struct {
	doc    *Doc
	out    Out
	key    string
	kind   string
	reason string
}

func crashKey(o Out) string {
	switch o.Status {
	case "panic":
		return o.Site
	case "fatal":
		if strings.Contains(o.Panic, "stack overflow") {
			return "fatal:stack-overflow" // the frame on top when the stack ran out is arbitrary
		}
		return "fatal:" + o.Site
	}
	return ""
}

// hangClass is the coarse document class of a hang: the first layout feature, in this priority
// order, that is still present in the (shrunk) document.
func hangClass(d *Doc) string {
	has := map[string]bool{}
	for _, f := range Features(d.Text()) {
		has[f] = true
	}
	for _, f := range []string{"columns", "flex", "grid", "table", "float", "abspos", "fixed", "inline-block", "footnote", "running", "page-rule", "break"} {
		if has[f] {
			return f
		}
	}
	return "plain"
}

// Run is the C01 search run.
func Run(tier string, seed uint64, modelPath, repo string, out *res.Result) error {
	t0 := time.Now()
	nDocs, metaEvery, rerunBudget := 1500, 3, 80*time.Second
	rerunLimitMS := 40000
	if tier == "thorough" {
		nDocs, metaEvery, rerunBudget = 30000, 6, 600*time.Second
		rerunLimitMS = 120000
	}
	if os.Getenv("WRH_C01_NORERUN") != "" {
		rerunBudget = 0
	}
	if s := os.Getenv("WRH_C01_DOCS"); s != "" {
		if n, err := strconv.Atoi(s); err == nil {
			nDocs = n
		}
	}
	out.Rule = "documents = element soup (<=45 elements, depth<=6: blocks, inlines, tables, lists, forms, img/data: URIs valid+corrupt, inline SVG) x inline/author/user CSS (display/position/float/columns/flex/grid/table/break/counters/content/var()/@page degenerate sizes/margin boxes/@counter-style/@font-face/@media) x hints on/off x {pango, go-text}; every document rendered in a worker subprocess (watchdog: 10 s of CPU time, then a second run with 40 s (quick) / 120 s (thorough) of CPU time; page-loop detector; 2 GiB heap cap); non-trivial = rendered to >=1 page with >=5 nodes, distinct by document text; 1/" + strconv.Itoa(metaEvery) + " of the rendered documents re-rendered with one injected invalid construct and compared trace for trace"

	// Lean model correspondence (small models of the loop-carrying cores)
	if err := runModel(modelPath, seed, tier, repo, out); err != nil {
		return err
	}

	kf := loadKnown("C01")
	pool := NewPool(repo, workers())
	defer pool.Close()

	// go-text available?
	probe := pool.One(Case{ID: -2, HTML: "<p>probe</p>", Engine: "gotext", LimitMS: 60000})
	gotext := probe.Status == "ok"
	if !gotext {
		out.NotChecked = append(out.NotChecked, "go-text engine: configuration could not be built offline ("+probe.Status+" "+probe.Err+probe.Panic+")")
	}

	r := rng.New(seed ^ 0xC01)
	docs := corpusDocs()
	nCorpus := len(docs)
	for len(docs) < nDocs+nCorpus {
		docs = append(docs, GenDoc(r.Sub(), gotext))
	}
	cases := make([]Case, len(docs))
	for i, d := range docs {
		c := d.Case()
		c.ID, c.LimitMS = i, 10000
		c.MaxPages = maxPages(c)
		cases[i] = c
	}
	outs := pool.All(cases, nil)
	if dir := os.Getenv("WRH_C01_DUMP"); dir != "" {
		os.MkdirAll(dir, 0o755)
		for i, o := range outs {
			if (o.Status != "ok" && o.Status != "error") || os.Getenv("WRH_C01_DUMP_ALL") != "" {
				b, _ := json.Marshal(map[string]interface{}{"case": cases[i], "out": o})
				os.WriteFile(filepath.Join(dir, fmt.Sprintf("%s-%05d.json", o.Status, i)), b, 0o644)
			}
		}
	}

	var fails []failure
	var timeouts []int
	var okIdx []int
	maxRatio := 0.0
	for i, o := range outs {
		d := docs[i]
		txt := d.Text()
		nodes := d.CountNodes()
		out.Count(txt, o.Status == "ok" && o.Pages >= 1 && nodes >= 5)
		out.Hit("status:" + o.Status)
		out.Hit("engine:" + d.Engine)
		if i%50 == 0 {
			for _, f := range Features(txt) {
				out.Hit("feature(1/50 sampled):" + f)
			}
		}
		switch {
		case o.Pages <= 1:
			out.Hit("pages:<=1")
		case o.Pages <= 5:
			out.Hit("pages:2-5")
		case o.Pages <= 50:
			out.Hit("pages:6-50")
		default:
			out.Hit("pages:>50")
		}
		if o.Status == "ok" {
			if rt := float64(o.Counted) / float64(len(txt)); rt > maxRatio {
				maxRatio = rt
			}
		}
		if i < nCorpus+4 {
			out.Sample(map[string]interface{}{"document": head(txt, 600), "status": o.Status, "pages": o.Pages, "events": o.Events})
		}
		switch o.Status {
		case "ok":
			okIdx = append(okIdx, i)
		case "error":
			out.Hit("error:" + head(o.Err, 40))
		case "panic", "fatal":
			fails = append(fails, failure{doc: d, out: o, key: crashKey(o), kind: "crash", reason: o.Panic})
		case "pageloop":
			fails = append(fails, failure{doc: d, out: o, key: "hang", kind: "crash", reason: fmt.Sprintf("page loop: page %d announced for a document of %d bytes (limit 4*bytes+200)", o.Counted, len(txt))})
		case "memory":
			fails = append(fails, failure{doc: d, out: o, key: "memory", kind: "crash", reason: fmt.Sprintf("memory blow-up (>2 GiB heap) after %d pages", o.Counted)})
		case "timeout":
			timeouts = append(timeouts, i)
		}
	}
	out.Notes = append(out.Notes, fmt.Sprintf("phase 1: %d documents on %d workers in %.0fs; max announced-pages/bytes ratio among finished documents %.3f", len(docs), pool.n, time.Since(t0).Seconds(), maxRatio))

	// timeouts: second chance with a longer CPU-time limit (the limit is CPU time of the worker, so the
	// other re-runs going on at the same time cannot turn a slow document into a hang)
	maxRerun := 32
	if tier == "thorough" {
		maxRerun = 400
	}
	var rcases []Case
	var ridx []int
	for _, i := range timeouts {
		if len(rcases) >= maxRerun {
			out.Hit("timeout-not-rerun")
			continue
		}
		c := cases[i]
		c.LimitMS = rerunLimitMS
		rcases = append(rcases, c)
		ridx = append(ridx, i)
	}
	_ = rerunBudget
	routs := pool.All(rcases, nil)
	for k, o := range routs {
		i := ridx[k]
		out.Hit("rerun:" + o.Status)
		switch o.Status {
		case "timeout":
			fails = append(fails, failure{doc: docs[i], out: o, key: "hang", kind: "crash", reason: fmt.Sprintf("no result after %d s of CPU time (page %d announced)", rerunLimitMS/1000, o.Counted)})
		case "memory":
			fails = append(fails, failure{doc: docs[i], out: o, key: "memory", kind: "crash", reason: fmt.Sprintf("memory blow-up (>2 GiB heap) (page %d announced)", o.Counted)})
		case "pageloop":
			fails = append(fails, failure{doc: docs[i], out: o, key: "hang", kind: "crash", reason: fmt.Sprintf("page loop (page %d announced)", o.Counted)})
		case "panic", "fatal":
			fails = append(fails, failure{doc: docs[i], out: o, key: crashKey(o), kind: "crash", reason: o.Panic})
		case "ok":
			okIdx = append(okIdx, i)
			out.Hit("slow-but-finished")
		}
	}

	// metamorphic judge: invalid constructs are skipped
	mr := rng.New(seed ^ 0x3E7A)
	var mdocs []*Doc
	for k, i := range okIdx {
		sub := mr.Sub()
		if k%metaEvery != 0 || i < nCorpus {
			continue
		}
		v := docs[i].Clone()
		if !Inject(v, sub) {
			continue
		}
		v.Guard = true
		mdocs = append(mdocs, v)
	}
	mcases := make([]Case, 0, 2*len(mdocs))
	for k, v := range mdocs {
		for _, variant := range []bool{false, true} {
			v.Variant = variant
			c := v.Case()
			c.ID, c.LimitMS = 1000000+2*k, 20000
			if variant {
				c.ID++
			}
			c.MaxPages = maxPages(c)
			mcases = append(mcases, c)
		}
		v.Variant = true
	}
	mouts := pool.All(mcases, nil)
	for k, v := range mdocs {
		base, mo := mouts[2*k], mouts[2*k+1]
		out.Hit("inject:" + strings.SplitN(v.InjWhat, " ", 2)[0])
		if base.Status != "ok" {
			out.Hit("meta:base-" + base.Status)
			continue
		}
		if base.HeadBox || mo.HeadBox {
			// <head> / <style> generate boxes in this document (a generated rule out-ranks the guard
			// sheet): the text of the <style> element is drawn, so editing it legitimately changes the trace
			out.Hit("meta:skipped-head-displayed")
			continue
		}
		out.ModelCalls++ // here: traces compared between two runs of the implementation
		if mo.Status == "ok" && mo.Trace == base.Trace {
			out.Hit("meta:same")
			continue
		}
		if mo.Status == "timeout" {
			out.Hit("meta:variant-timeout-under-load")
			continue
		}
		// confirm: both renders repeated
		b2 := pool.One(mcases[2*k])
		m2 := pool.One(mcases[2*k+1])
		if b2.Status != "ok" || b2.Trace != base.Trace {
			out.Hit("meta:base-not-reproducible")
			continue
		}
		if m2.Status == "ok" && m2.Trace == base.Trace {
			out.Hit("meta:variant-not-reproducible")
			continue
		}
		if m2.Status == "panic" || m2.Status == "fatal" {
			fails = append(fails, failure{doc: v, out: m2, key: crashKey(m2), kind: "crash", reason: m2.Panic})
			continue
		}
		if m2.Status != "ok" {
			out.Hit("meta:variant-" + m2.Status)
			continue
		}
		fails = append(fails, failure{doc: v, out: m2, key: "meta:" + strings.SplitN(v.InjWhat, " ", 2)[0], kind: "judge",
			reason: fmt.Sprintf("injecting %s changed the backend trace (%d events / %d pages without, %d events / %d pages with)", v.InjWhat, base.Events, base.Pages, m2.Events, m2.Pages)})
	}

	// shrink + report, class by class; unexplained ones first
	report(pool, fails, kf, out, tier)
	out.Notes = append(out.Notes, fmt.Sprintf("worker runs: %d; total %.0fs", pool.Runs.Load(), time.Since(t0).Seconds()))
	return nil
}

// shrinkDeadline bounds the wall-clock time of the whole shrink phase (a loaded machine makes every
// render slow); past it the shrinkers stop reducing and report what they have.
var shrinkDeadline time.Time

func report(pool *Pool, fails []failure, kf []kfEntry, out *res.Result, tier string) {
	shrinkDeadline = time.Now().Add(50 * time.Second)
	if tier == "thorough" {
		shrinkDeadline = time.Now().Add(600 * time.Second)
	}
	byKey := map[string][]failure{}
	var keys []string
	for _, f := range fails {
		k := f.kind + "|" + f.key
		if _, ok := byKey[k]; !ok {
			keys = append(keys, k)
		}
		byKey[k] = append(byKey[k], f)
	}
	sort.Strings(keys)
	type job struct {
		f       failure
		explain bool
	}
	var jobs []job
	for _, k := range keys {
		fs := byKey[k]
		out.Dist["class:"+k] = len(fs)
		// smaller documents first
		sort.SliceStable(fs, func(i, j int) bool { return len(fs[i].doc.Text()) < len(fs[j].doc.Text()) })
		op := opRender
		if fs[0].kind == "judge" {
			op = opMeta
		}
		var unexplained, explained []failure
		for _, f := range fs {
			if f.key != "hang" && knownMatch(kf, f.kind, op, f.key, f.doc.Text()) {
				explained = append(explained, f)
			} else {
				unexplained = append(unexplained, f)
			}
		}
		// representatives: spread over the distinct panic messages seen at this site
		spread := func(fs []failure) []failure {
			seen := map[string]int{}
			var first, rest []failure
			for _, f := range fs {
				m := normMsg(f.reason)
				if seen[m] == 0 {
					first = append(first, f)
				} else {
					rest = append(rest, f)
				}
				seen[m]++
			}
			return append(first, rest...)
		}
		unexplained, explained = spread(unexplained), spread(explained)
		limU, limE := 3, 1
		if os.Getenv("WRH_C01_ALLFINDINGS") != "" {
			limU, limE = 6, 6
		}
		if f0 := fs[0]; f0.key == "hang" {
			limU = 4
			if tier == "thorough" {
				limU = 10
			}
		}
		for i, f := range unexplained {
			if i < limU {
				jobs = append(jobs, job{f, false})
			}
		}
		for i, f := range explained {
			if i < limE && (len(unexplained) < 3 || os.Getenv("WRH_C01_ALLFINDINGS") != "") {
				jobs = append(jobs, job{f, true})
			}
		}
	}
	results := make([]res.Finding, len(jobs))
	var wg sync.WaitGroup
	sem := make(chan bool, pool.n)
	for ji, j := range jobs {
		wg.Add(1)
		go func(ji int, j job) {
			defer wg.Done()
			sem <- true
			defer func() { <-sem }()
			results[ji] = shrinkOne(pool, j.f)
		}(ji, j)
	}
	wg.Wait()
	// unexplained first (res.Result caps the number of findings per class and overall)
	if p := os.Getenv("WRH_C01_ALLFINDINGS"); p != "" {
		b, _ := json.MarshalIndent(results, "", " ")
		os.WriteFile(p, b, 0o644)
	}
	// round-robin over the classes so that every class is represented before the overall cap is reached
	for pass := 0; pass < 2; pass++ {
		for round := 0; round < 12; round++ {
			seen := map[string]int{}
			for ji, j := range jobs {
				if (pass == 0) != !j.explain {
					continue
				}
				k := j.f.kind + "|" + j.f.key
				if seen[k] == round {
					out.Add(results[ji])
				}
				seen[k]++
			}
		}
	}
}

var digits = regexp.MustCompile(`[0-9]+`)

func normMsg(m string) string {
	m = digits.ReplaceAllString(m, "N")
	if strings.HasPrefix(m, "Got ") {
		m = "Got ... between two lines"
	}
	return head(m, 60)
}

func shrinkOne(pool *Pool, f failure) res.Finding {
	op := opRender
	var still func(d *Doc) bool
	budget := 150
	switch {
	case f.kind == "judge":
		op = opMeta
		budget = 80
		still = func(d *Doc) bool {
			b := d.Clone()
			b.Variant = false
			bc := b.Case()
			bc.LimitMS, bc.MaxPages = 20000, maxPages(bc)
			vc := d.Case()
			vc.LimitMS, vc.MaxPages = 20000, maxPages(vc)
			bo := pool.One(bc)
			if bo.Status != "ok" || bo.HeadBox {
				return false
			}
			vo := pool.One(vc)
			return vo.Status == "ok" && !vo.HeadBox && vo.Trace != bo.Trace
		}
	case f.key == "memory":
		budget = 8
		still = func(d *Doc) bool {
			c := d.Case()
			c.LimitMS, c.MaxPages, c.NoTrace = 20000, maxPages(c), true
			return pool.One(c).Status == "memory"
		}
	case f.key == "hang":
		budget = 16
		still = func(d *Doc) bool {
			c := d.Case()
			c.LimitMS, c.MaxPages, c.NoTrace = 4000, maxPages(c), true
			o := pool.One(c)
			return o.Status == "pageloop" || o.Status == "timeout" || o.Status == "memory"
		}
	default:
		still = func(d *Doc) bool {
			c := d.Case()
			c.LimitMS, c.MaxPages, c.NoTrace = 10000, maxPages(c), true
			o := pool.One(c)
			return crashKey(o) == f.key
		}
	}
	inner := still
	still = func(d *Doc) bool {
		if time.Now().After(shrinkDeadline) {
			return false
		}
		return inner(d)
	}
	small, used := Shrink(f.doc, still, budget)
	key := f.key
	if key == "hang" {
		// one key for all hangs (their documents shrink badly, a class derived from the remaining
		// features is not stable); the features present are given in the reason instead
		f.reason += " [layout features present: " + hangClass(small) + "]"
	}
	return res.Finding{Kind: f.kind, Op: op, Input: small.Text(), Impl: map[string]interface{}{"status": f.out.Status, "panic": f.out.Panic, "site": f.out.Site, "stack": f.out.Stack, "pages_announced": f.out.Counted},
		Reason: f.reason + fmt.Sprintf(" [shrunk from %d to %d bytes in %d renders]", len(f.doc.Text()), len(small.Text()), used), Key: key}
}
