package c01

// Structural delta debugging: the candidate reductions of a document, tried greedily until none
// keeps the failure (or the attempt budget is spent).  Injected constructs (Inj) are never removed.

func cloneRule(r *Rule) *Rule {
	c := *r
	c.Decls = append([]Decl(nil), r.Decls...)
	c.Kids = nil
	for _, k := range r.Kids {
		c.Kids = append(c.Kids, cloneRule(k))
	}
	return &c
}

func cloneNode(n *Node) *Node {
	c := *n
	c.Attrs = append([]Attr(nil), n.Attrs...)
	c.Style = append([]Decl(nil), n.Style...)
	c.Kids = nil
	for _, k := range n.Kids {
		c.Kids = append(c.Kids, cloneNode(k))
	}
	return &c
}

func (d *Doc) Clone() *Doc {
	c := *d
	c.Author, c.User = nil, nil
	for _, r := range d.Author {
		c.Author = append(c.Author, cloneRule(r))
	}
	for _, r := range d.User {
		c.User = append(c.User, cloneRule(r))
	}
	c.Body = cloneNode(d.Body)
	return &c
}

func ruleHasInj(r *Rule) bool {
	if r.Inj {
		return true
	}
	for _, d := range r.Decls {
		if d.Inj {
			return true
		}
	}
	for _, k := range r.Kids {
		if ruleHasInj(k) {
			return true
		}
	}
	return false
}

func nodeHasInj(n *Node) bool {
	for _, a := range n.Attrs {
		if a.Inj {
			return true
		}
	}
	for _, d := range n.Style {
		if d.Inj {
			return true
		}
	}
	for _, k := range n.Kids {
		if nodeHasInj(k) {
			return true
		}
	}
	return false
}

// a reduction edits a fresh clone in place and reports whether it changed anything
type reduction func(d *Doc) bool

// nodes in pre-order with parent pointers (index paths are recomputed on every clone)
type nref struct {
	parent *Node
	idx    int
	n      *Node
}

func walk(root *Node) []nref {
	var out []nref
	var f func(p *Node)
	f = func(p *Node) {
		for i, k := range p.Kids {
			out = append(out, nref{p, i, k})
			f(k)
		}
	}
	f(root)
	return out
}

func rulesOf(d *Doc) []*[]*Rule {
	out := []*[]*Rule{&d.Author, &d.User}
	var f func(rs []*Rule)
	f = func(rs []*Rule) {
		for _, r := range rs {
			if len(r.Kids) > 0 {
				out = append(out, &r.Kids)
				f(r.Kids)
			}
		}
	}
	f(d.Author)
	f(d.User)
	return out
}

func allRules(d *Doc) []*Rule {
	var out []*Rule
	var f func(rs []*Rule)
	f = func(rs []*Rule) {
		for _, r := range rs {
			out = append(out, r)
			f(r.Kids)
		}
	}
	f(d.Author)
	f(d.User)
	return out
}

// reductions enumerates candidate reductions for the current document, coarse ones first.
func reductions(d *Doc) []reduction {
	var out []reduction
	// whole sheets
	if len(d.User) > 0 {
		out = append(out, func(c *Doc) bool {
			keep := c.User[:0]
			for _, r := range c.User {
				if ruleHasInj(r) {
					keep = append(keep, r)
				}
			}
			ch := len(keep) != len(c.User)
			c.User = keep
			return ch
		})
	}
	// halves of rule lists, then single rules
	for li, l := range rulesOf(d) {
		n := len(*l)
		if n >= 4 {
			for _, half := range [][2]int{{0, n / 2}, {n / 2, n}} {
				li, half := li, half
				out = append(out, func(c *Doc) bool {
					l := rulesOf(c)[li]
					var keep []*Rule
					for i, r := range *l {
						if i >= half[0] && i < half[1] && !ruleHasInj(r) {
							continue
						}
						keep = append(keep, r)
					}
					ch := len(keep) != len(*l)
					*l = keep
					return ch
				})
			}
		}
	}
	// body: remove children of the body in halves
	if n := len(d.Body.Kids); n >= 4 {
		for _, half := range [][2]int{{0, n / 2}, {n / 2, n}} {
			half := half
			out = append(out, func(c *Doc) bool {
				var keep []*Node
				for i, k := range c.Body.Kids {
					if i >= half[0] && i < half[1] && !nodeHasInj(k) {
						continue
					}
					keep = append(keep, k)
				}
				ch := len(keep) != len(c.Body.Kids)
				c.Body.Kids = keep
				return ch
			})
		}
	}
	for li, l := range rulesOf(d) {
		for i := range *l {
			li, i := li, i
			out = append(out, func(c *Doc) bool {
				l := rulesOf(c)[li]
				if i >= len(*l) || ruleHasInj((*l)[i]) {
					return false
				}
				*l = append(append([]*Rule(nil), (*l)[:i]...), (*l)[i+1:]...)
				return true
			})
		}
	}
	// subtrees
	ws := walk(d.Body)
	for k := range ws {
		k := k
		out = append(out, func(c *Doc) bool {
			w := walk(c.Body)
			if k >= len(w) || nodeHasInj(w[k].n) {
				return false
			}
			p := w[k].parent
			p.Kids = append(append([]*Node(nil), p.Kids[:w[k].idx]...), p.Kids[w[k].idx+1:]...)
			return true
		})
	}
	// unwrap (replace a node by its children)
	for k := range ws {
		k := k
		if len(ws[k].n.Kids) == 0 || ws[k].n.Tag == "" {
			continue
		}
		out = append(out, func(c *Doc) bool {
			w := walk(c.Body)
			if k >= len(w) {
				return false
			}
			x := w[k]
			for _, a := range x.n.Attrs {
				if a.Inj {
					return false
				}
			}
			for _, dd := range x.n.Style {
				if dd.Inj {
					return false
				}
			}
			p := x.parent
			kids := append([]*Node(nil), p.Kids[:x.idx]...)
			kids = append(kids, x.n.Kids...)
			kids = append(kids, p.Kids[x.idx+1:]...)
			p.Kids = kids
			return true
		})
	}
	// declarations of rules
	for ri, r := range allRules(d) {
		if len(r.Decls) > 1 || (len(r.Decls) == 1 && len(r.Kids) > 0) {
			for i := range r.Decls {
				ri, i := ri, i
				out = append(out, func(c *Doc) bool {
					r := allRules(c)[ri]
					if i >= len(r.Decls) || r.Decls[i].Inj {
						return false
					}
					r.Decls = append(append([]Decl(nil), r.Decls[:i]...), r.Decls[i+1:]...)
					return true
				})
			}
		}
	}
	// inline styles and attributes
	for k := range ws {
		k := k
		if ws[k].n.Tag == "" || ws[k].n.Tag == "#raw" {
			continue
		}
		for i := range ws[k].n.Style {
			i := i
			out = append(out, func(c *Doc) bool {
				n := walk(c.Body)[k].n
				if i >= len(n.Style) || n.Style[i].Inj {
					return false
				}
				n.Style = append(append([]Decl(nil), n.Style[:i]...), n.Style[i+1:]...)
				return true
			})
		}
		for i := range ws[k].n.Attrs {
			i := i
			out = append(out, func(c *Doc) bool {
				n := walk(c.Body)[k].n
				if i >= len(n.Attrs) || n.Attrs[i].Inj {
					return false
				}
				n.Attrs = append(append([]Attr(nil), n.Attrs[:i]...), n.Attrs[i+1:]...)
				return true
			})
		}
	}
	for i := range d.Body.Style {
		i := i
		out = append(out, func(c *Doc) bool {
			if i >= len(c.Body.Style) || c.Body.Style[i].Inj {
				return false
			}
			c.Body.Style = append(append([]Decl(nil), c.Body.Style[:i]...), c.Body.Style[i+1:]...)
			return true
		})
	}
	// text
	for k := range ws {
		k := k
		if ws[k].n.Tag != "" || len(ws[k].n.Text) <= 1 {
			continue
		}
		out = append(out, func(c *Doc) bool {
			n := walk(c.Body)[k].n
			if n.Text == "a" {
				return false
			}
			n.Text = "a"
			return true
		})
		if len(ws[k].n.Text) > 8 {
			out = append(out, func(c *Doc) bool {
				n := walk(c.Body)[k].n
				rs := []rune(n.Text)
				n.Text = string(rs[:len(rs)/2])
				return true
			})
		}
	}
	// flags, !important
	out = append(out, func(c *Doc) bool { ch := c.Doctype; c.Doctype = false; return ch })
	out = append(out, func(c *Doc) bool { ch := c.Hints; c.Hints = false; return ch })
	out = append(out, func(c *Doc) bool { ch := c.Engine != "pango"; c.Engine = "pango"; return ch })
	out = append(out, func(c *Doc) bool {
		ch := false
		for _, r := range allRules(c) {
			for i := range r.Decls {
				if r.Decls[i].Important {
					r.Decls[i].Important = false
					ch = true
				}
			}
		}
		return ch
	})
	return out
}

// Shrink greedily applies reductions while still(doc) holds; at most budget predicate calls.
func Shrink(d *Doc, still func(*Doc) bool, budget int) (*Doc, int) {
	cur := d
	used := 0
	for pass := 0; pass < 8; pass++ {
		progress := false
		reds := reductions(cur)
		i := 0
		for i < len(reds) {
			if used >= budget {
				return cur, used
			}
			c := cur.Clone()
			if !reds[i](c) {
				i++
				continue
			}
			used++
			if still(c) {
				cur = c
				progress = true
				// indices shifted: recompute the candidate list but continue at the same rank
				reds = reductions(cur)
				continue
			}
			i++
		}
		if !progress {
			break
		}
	}
	return cur, used
}
