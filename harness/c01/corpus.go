package c01

// corpusDocs: minimal documents of past findings (recorded or repaired); they run first on every
// run so that a regression of a repaired defect is reported again.
func corpusDocs() []*Doc {
	mk := func(rules []*Rule, kids ...*Node) *Doc {
		return &Doc{Author: rules, Body: &Node{Tag: "body", Kids: kids}, Engine: "pango"}
	}
	p := func(style []Decl, text string) *Node {
		return &Node{Tag: "p", Style: style, Kids: []*Node{{Text: text}}}
	}
	var out []*Doc
	// fixed eef259b: cyclic custom properties, self reference, nested var()
	out = append(out, mk([]*Rule{{Prelude: "p", Decls: []Decl{{Name: "--a", Value: "var(--b)"}, {Name: "--b", Value: "var(--a)"}, {Name: "width", Value: "var(--a)"}}}}, p(nil, "")))
	out = append(out, mk([]*Rule{{Prelude: "p", Decls: []Decl{{Name: "--a", Value: "var(--a)"}, {Name: "width", Value: "var(--a)"}}}}, p(nil, "")))
	out = append(out, mk([]*Rule{{Prelude: "p", Decls: []Decl{{Name: "--a", Value: "10"}, {Name: "color", Value: "rgb(calc(var(--a)),0,0)"}}}}, p(nil, "")))
	// fixed 093f150: ex/ch units on font-size / tab-size / hyphenate-limit-zone
	out = append(out, mk(nil, p([]Decl{{Name: "font-size", Value: "2ex"}}, "a")))
	out = append(out, mk(nil, p([]Decl{{Name: "font-size", Value: "1ch"}}, "a")))
	out = append(out, mk(nil, p([]Decl{{Name: "tab-size", Value: "2ch"}}, "a")))
	out = append(out, mk(nil, p([]Decl{{Name: "hyphenate-limit-zone", Value: "2ex"}}, "a")))
	// fixed 44bec13: font-weight bolder on the root element
	out = append(out, mk([]*Rule{{Prelude: "html", Decls: []Decl{{Name: "font-weight", Value: "bolder"}}}}, p(nil, "a")))
	// F01-1: comment before <html>
	d := mk(nil, p(nil, "a"))
	d.PreComment = true
	out = append(out, d)
	d = mk(nil, p(nil, "a"))
	d.PreComment, d.Doctype = true, true
	out = append(out, d)
	return out
}
