package c01

// corpusDocs: minimal documents of past findings (recorded or repaired); they run first on every
// run so that a regression of a repaired defect is reported again.
func corpusDocs() []*Doc {
	mk := func(rules []*Rule, kids ...*Node) *Doc {
		return &Doc{Author: rules, Body: &Node{Tag: "body", Kids: kids}, Engine: "pango"}
	}
	p := func(style []Decl, text string) *Node {
		return &Node{Tag: "p", Style: style, Kids: []*Node{{Text: text}}}
	}
	var out []*Doc
	// fixed eef259b: cyclic custom properties, self reference, nested var()
	out = append(out, mk([]*Rule{{Prelude: "p", Decls: []Decl{{Name: "--a", Value: "var(--b)"}, {Name: "--b", Value: "var(--a)"}, {Name: "width", Value: "var(--a)"}}}}, p(nil, "")))
	out = append(out, mk([]*Rule{{Prelude: "p", Decls: []Decl{{Name: "--a", Value: "var(--a)"}, {Name: "width", Value: "var(--a)"}}}}, p(nil, "")))
	out = append(out, mk([]*Rule{{Prelude: "p", Decls: []Decl{{Name: "--a", Value: "10"}, {Name: "color", Value: "rgb(calc(var(--a)),0,0)"}}}}, p(nil, "")))
	// fixed 093f150: ex/ch units on font-size / tab-size / hyphenate-limit-zone
	out = append(out, mk(nil, p([]Decl{{Name: "font-size", Value: "2ex"}}, "a")))
	out = append(out, mk(nil, p([]Decl{{Name: "font-size", Value: "1ch"}}, "a")))
	out = append(out, mk(nil, p([]Decl{{Name: "tab-size", Value: "2ch"}}, "a")))
	out = append(out, mk(nil, p([]Decl{{Name: "hyphenate-limit-zone", Value: "2ex"}}, "a")))
	// fixed 44bec13: font-weight bolder on the root element
	out = append(out, mk([]*Rule{{Prelude: "html", Decls: []Decl{{Name: "font-weight", Value: "bolder"}}}}, p(nil, "a")))
	// F01-1: comment before <html>
	d := mk(nil, p(nil, "a"))
	d.PreComment = true
	out = append(out, d)
	d = mk(nil, p(nil, "a"))
	d.PreComment, d.Doctype = true, true
	out = append(out, d)
	// fixed 358a572: right-to-left text with the Pango engine
	out = append(out, mk(nil, p(nil, "مرحبا")), mk(nil, p(nil, "abc שלום עולם def")))
	// fixed 9bf9920: lang="x"
	out = append(out, mk(nil, &Node{Tag: "p", Attrs: []Attr{{K: "lang", V: "x"}}, Kids: []*Node{{Text: "a"}}}))
	// fixed 4f13a41: display:inline-grid
	out = append(out, mk(nil, &Node{Tag: "span", Style: []Decl{{Name: "display", Value: "inline-grid"}}}))
	// fixed 0871e31: preserveAspectRatio="x" / ""
	out = append(out, mk(nil, &Node{Tag: "#raw", Text: `<svg width="10" height="10" preserveAspectRatio="x"><rect width="3" height="3"/></svg>`}))
	out = append(out, mk(nil, &Node{Tag: "#raw", Text: `<svg width="10" height="10" preserveAspectRatio=""><rect width="3" height="3"/></svg>`}))
	// fixed c5a853c: counter value outside the int32 range
	out = append(out, mk(nil, &Node{Tag: "ol", Attrs: []Attr{{K: "start", V: "99999999999"}}, Kids: []*Node{{Tag: "li"}}}))
	out = append(out, mk([]*Rule{{Prelude: "p", Decls: []Decl{{Name: "counter-reset", Value: "c 99999999999"}}}, {Prelude: "p::before", Decls: []Decl{{Name: "content", Value: "counter(c)"}}}}, p(nil, "a")))
	// fixed eb3b74f / 6b5b831: go-text engine, underlined text and <br>
	for _, n := range []*Node{{Tag: "u", Kids: []*Node{{Text: "a"}}}, {Tag: "br"}, {Tag: "a", Attrs: []Attr{{K: "href", V: "#x"}}, Kids: []*Node{{Text: "a"}}}} {
		d := mk(nil, n)
		d.Engine = "gotext"
		out = append(out, d)
	}
	// fixed 5d2802b: running() inline with block children
	out = append(out, mk(nil, &Node{Tag: "span", Style: []Decl{{Name: "position", Value: "running(h)"}}, Kids: []*Node{{Tag: "div", Kids: []*Node{{Tag: "span"}}}}}))
	// fixed (series applied as 1f56c31 and parents): columns after a float, root var() invalid at computed-value
	// time, infinite widths in shortTextHint, @page :nth(of), @font-face src:format(, attr(x url),
	// counter at MaxInt64, <col span=4294967296> (fatal out of memory), cyclic counter at 0
	raw := func(hints bool, html string) *Doc {
		d := mk(nil, &Node{Tag: "#raw", Text: html})
		d.Hints = hints
		return d
	}
	out = append(out,
		raw(false, `<p style="float:left"></p><div style="column-count:3">a</div>`),
		mk([]*Rule{{Prelude: "html", Decls: []Decl{{Name: "color", Value: "translate(var(--v3))"}}}}, p(nil, "a")),
		mk([]*Rule{{Prelude: "html, body", Decls: []Decl{{Name: "line-height", Value: "var(--v3, block)"}}}}, p(nil, "a")),
		raw(false, `<table><td><br><svg height="3cm" viewBox="0 0 1e9 1e-9"></svg></td></table>`),
		raw(true, `<table cellspacing="-99999999999999999999"><td>x</td></table>`),
		raw(true, `<table width="99999999999999999999"><td>x y</td></table>`),
		mk([]*Rule{{Raw: "@page :nth(of){size:100px}"}}, p(nil, "a")),
		mk([]*Rule{{Raw: "@font-face{src:format(}"}}, p(nil, "a")),
		mk([]*Rule{{Prelude: "p::before", Decls: []Decl{{Name: "content", Value: "attr(v url)"}}}}, &Node{Tag: "p", Attrs: []Attr{{K: "v", V: "x"}}, Kids: []*Node{{Text: "a"}}}),
		raw(true, `<ol><li value="9223372036854775807">a<li>b</ol>`),
		raw(true, `<ol start="9223372036854775807"><li>a<li>b</ol>`),
		raw(false, `<table><col span="4294967296"><tr><td>a</td></tr></table>`),
		mk([]*Rule{{Prelude: "p::before", Decls: []Decl{{Name: "content", Value: "counter(d, symbols(cyclic 'a' 'b'))"}}}}, p(nil, "a")),
	)
	// fixed-29e1ac1: footnote-policy: block aborted up to the root box
	fnStyle := "<style>@page{size:200px 100px;margin:10px 0}body{font:20px/1 Ahem}.fn{float:footnote;footnote-policy:block}</style>"
	out = append(out,
		raw(false, fnStyle+`<p>abc</p><p>abc def ghi<span class="fn">note</span> jkl</p>`),
		raw(false, fnStyle+`abc def ghi<span class="fn"></span>`),
		raw(false, fnStyle+`<p>abc<span class="fn">f f f f f f f f f f f f f f f f f f f f f f f f f f f f</span> def</p>`),
	)
	// fixed-4f0d638: grid auto-placement put a spanning item where it overflows the columns
	out = append(out,
		raw(false, `<div style="display:grid;grid-template-columns:1fr 1fr"><p>a</p><p style="grid-column:span 2">b</p><p>c</p></div>`),
		raw(false, `<div style="display:grid">a<span style="grid-column:span 2"></span></div>`),
		raw(false, `<div style="display:grid;grid-auto-flow:dense"><p>a</p><p style="grid-column:span 3">b</p></div>`),
	)
	return out
}
