package c01

// corpusDocs: minimal documents of past findings (recorded or repaired); they run first on every
// run so that a regression of a repaired defect is reported again.
func corpusDocs() []*Doc {
	mk := func(rules []*Rule, kids ...*Node) *Doc {
		return &Doc{Author: rules, Body: &Node{Tag: "body", Kids: kids}, Engine: "pango"}
	}
	p := func(style []Decl, text string) *Node {
		return &Node{Tag: "p", Style: style, Kids: []*Node{{Text: text}}}
	}
	var out []*Doc
	// fixed eef259b: cyclic custom properties, self reference, nested var()
	out = append(out, mk([]*Rule{{Prelude: "p", Decls: []Decl{{Name: "--a", Value: "var(--b)"}, {Name: "--b", Value: "var(--a)"}, {Name: "width", Value: "var(--a)"}}}}, p(nil, "")))
	out = append(out, mk([]*Rule{{Prelude: "p", Decls: []Decl{{Name: "--a", Value: "var(--a)"}, {Name: "width", Value: "var(--a)"}}}}, p(nil, "")))
	out = append(out, mk([]*Rule{{Prelude: "p", Decls: []Decl{{Name: "--a", Value: "10"}, {Name: "color", Value: "rgb(calc(var(--a)),0,0)"}}}}, p(nil, "")))
	// fixed 093f150: ex/ch units on font-size / tab-size / hyphenate-limit-zone
	out = append(out, mk(nil, p([]Decl{{Name: "font-size", Value: "2ex"}}, "a")))
	out = append(out, mk(nil, p([]Decl{{Name: "font-size", Value: "1ch"}}, "a")))
	out = append(out, mk(nil, p([]Decl{{Name: "tab-size", Value: "2ch"}}, "a")))
	out = append(out, mk(nil, p([]Decl{{Name: "hyphenate-limit-zone", Value: "2ex"}}, "a")))
	// fixed 44bec13: font-weight bolder on the root element
	out = append(out, mk([]*Rule{{Prelude: "html", Decls: []Decl{{Name: "font-weight", Value: "bolder"}}}}, p(nil, "a")))
	// F01-1: comment before <html>
	d := mk(nil, p(nil, "a"))
	d.PreComment = true
	out = append(out, d)
	d = mk(nil, p(nil, "a"))
	d.PreComment, d.Doctype = true, true
	out = append(out, d)
	// fixed 358a572: right-to-left text with the Pango engine
	out = append(out, mk(nil, p(nil, "مرحبا")), mk(nil, p(nil, "abc שלום עולם def")))
	// fixed 9bf9920: lang="x"
	out = append(out, mk(nil, &Node{Tag: "p", Attrs: []Attr{{K: "lang", V: "x"}}, Kids: []*Node{{Text: "a"}}}))
	// fixed 4f13a41: display:inline-grid
	out = append(out, mk(nil, &Node{Tag: "span", Style: []Decl{{Name: "display", Value: "inline-grid"}}}))
	// fixed 0871e31: preserveAspectRatio="x" / ""
	out = append(out, mk(nil, &Node{Tag: "#raw", Text: `<svg width="10" height="10" preserveAspectRatio="x"><rect width="3" height="3"/></svg>`}))
	out = append(out, mk(nil, &Node{Tag: "#raw", Text: `<svg width="10" height="10" preserveAspectRatio=""><rect width="3" height="3"/></svg>`}))
	// fixed c5a853c: counter value outside the int32 range
	out = append(out, mk(nil, &Node{Tag: "ol", Attrs: []Attr{{K: "start", V: "99999999999"}}, Kids: []*Node{{Tag: "li"}}}))
	out = append(out, mk([]*Rule{{Prelude: "p", Decls: []Decl{{Name: "counter-reset", Value: "c 99999999999"}}}, {Prelude: "p::before", Decls: []Decl{{Name: "content", Value: "counter(c)"}}}}, p(nil, "a")))
	// fixed eb3b74f / 6b5b831: go-text engine, underlined text and <br>
	for _, n := range []*Node{{Tag: "u", Kids: []*Node{{Text: "a"}}}, {Tag: "br"}, {Tag: "a", Attrs: []Attr{{K: "href", V: "#x"}}, Kids: []*Node{{Text: "a"}}}} {
		d := mk(nil, n)
		d.Engine = "gotext"
		out = append(out, d)
	}
	// fixed 5d2802b: running() inline with block children
	out = append(out, mk(nil, &Node{Tag: "span", Style: []Decl{{Name: "position", Value: "running(h)"}}, Kids: []*Node{{Tag: "div", Kids: []*Node{{Tag: "span"}}}}}))
	return out
}
