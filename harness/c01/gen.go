// Package c01 is the search part of property C01 ("rendering any document terminates without
// crashing"): a structured document generator, worker sub-processes running the real renderer
// under a watchdog, a metamorphic judge ("invalid constructs are skipped") and a shrinker.
package c01

import (
	"bytes"
	"encoding/base64"
	"fmt"
	"image"
	"image/color"
	"image/png"
	"sort"
	"strings"

	"wrverif/rng"
)

// ---------------------------------------------------------------------------------------------
// document structure (kept structured so that the shrinker can delete parts)

type Decl struct {
	Name, Value string
	Important   bool
	Inj         bool // injected invalid declaration: written only in the variant document
}

// variant selects whether injected (invalid) constructs are written; it is only ever changed by
// (*Doc).render, which is not called concurrently.
type wopt struct{ variant bool }

func declList(ds []Decl, o wopt) string {
	var out []string
	for _, d := range ds {
		if d.Inj && !o.variant {
			continue
		}
		out = append(out, d.String())
	}
	return strings.Join(out, ";")
}

func (d Decl) String() string {
	s := d.Name + ":" + d.Value
	if d.Important {
		s += " !important"
	}
	return s
}

// Rule is either a qualified rule / at-rule with a declaration block (Prelude + Decls + nested
// Kids, e.g. margin boxes inside @page, rules inside @media) or a raw statement (Raw).
type Rule struct {
	Prelude string
	Decls   []Decl
	Kids    []*Rule
	Raw     string
	Inj     bool // injected invalid rule
}

func (r *Rule) write(b *strings.Builder, o wopt) {
	if r.Inj && !o.variant {
		return
	}
	if r.Raw != "" {
		b.WriteString(r.Raw)
		b.WriteByte('\n')
		return
	}
	b.WriteString(r.Prelude)
	b.WriteString("{")
	dl := declList(r.Decls, o)
	b.WriteString(dl)
	if len(r.Kids) > 0 && dl != "" {
		b.WriteString(";")
	}
	for _, k := range r.Kids {
		k.write(b, o)
	}
	b.WriteString("}\n")
}

func sheet(rs []*Rule, o wopt) string {
	var b strings.Builder
	for _, r := range rs {
		r.write(&b, o)
	}
	return b.String()
}

type Attr struct {
	K, V string
	Inj  bool
}

type Node struct {
	Tag   string // "" = text node, "#raw" = raw markup (inline SVG)
	Text  string
	Attrs []Attr
	Style []Decl
	Kids  []*Node
}

var voidTags = map[string]bool{"br": true, "img": true, "input": true, "hr": true, "col": true, "embed": true, "wbr": true, "meta": true, "link": true}

func escText(s string) string {
	s = strings.ReplaceAll(s, "&", "&amp;")
	s = strings.ReplaceAll(s, "<", "&lt;")
	return s
}

func escAttr(s string) string {
	s = strings.ReplaceAll(s, "&", "&amp;")
	s = strings.ReplaceAll(s, "\"", "&quot;")
	return s
}

func (n *Node) write(b *strings.Builder, o wopt) {
	switch n.Tag {
	case "":
		b.WriteString(escText(n.Text))
		return
	case "#raw":
		b.WriteString(n.Text)
		return
	}
	b.WriteString("<" + n.Tag)
	for _, a := range n.Attrs {
		if a.Inj && !o.variant {
			continue
		}
		b.WriteString(" " + a.K + "=\"" + escAttr(a.V) + "\"")
	}
	if len(n.Style) > 0 {
		b.WriteString(" style=\"" + escAttr(declList(n.Style, o)) + "\"")
	}
	b.WriteString(">")
	if voidTags[n.Tag] {
		return
	}
	for _, k := range n.Kids {
		k.write(b, o)
	}
	b.WriteString("</" + n.Tag + ">")
}

// Doc is one generated case.
type Doc struct {
	Doctype    bool
	PreComment bool // <!-- c --> before <html> (root discovery)
	Author     []*Rule
	User       []*Rule
	Body       *Node
	Hints      bool
	Engine     string // "pango" | "gotext"
	Guard      bool   // add GuardSheet
	Variant    bool   // write the injected invalid constructs
	InjWhat    string // description of the injection
}

func (d *Doc) HTML() string {
	var b strings.Builder
	o := wopt{d.Variant}
	if d.Doctype {
		b.WriteString("<!DOCTYPE html>")
	}
	if d.PreComment {
		b.WriteString("<!-- c -->")
	}
	b.WriteString("<html><head>")
	if len(d.Author) > 0 {
		b.WriteString("<style>\n" + sheet(d.Author, o) + "</style>")
	}
	b.WriteString("</head>")
	d.Body.write(&b, o)
	b.WriteString("</html>")
	return b.String()
}

func (d *Doc) UserCSS() string { return sheet(d.User, wopt{d.Variant}) }

// Text is the single-string form used as Finding.Input (what known-finding regexes match).
func (d *Doc) Text() string {
	s := d.HTML()
	if len(d.User) > 0 {
		s += "\n/*user-stylesheet*/\n" + d.UserCSS()
	}
	if d.Guard {
		s += "\n/*user-stylesheet-2*/\n" + GuardSheet
	}
	s += fmt.Sprintf("\n/*config hints=%v engine=%s*/", d.Hints, d.Engine)
	return s
}

func (d *Doc) Case() Case {
	c := Case{HTML: d.HTML(), Hints: d.Hints, Engine: d.Engine}
	if len(d.User) > 0 {
		c.User = []string{d.UserCSS()}
	}
	if d.Guard {
		c.User = append(c.User, GuardSheet)
	}
	return c
}

// GuardSheet is added (as a second user style sheet) to both documents of a metamorphic pair: it
// keeps <head> and its <style> element undisplayed whatever the generated rules say (`*`,
// `:first-child`, `:not(.c1)` ... match them), because the TEXT of the <style> element differs
// between the two documents by construction and would otherwise be drawn.
const GuardSheet = "head:not(#x#x#x#x#x#x#x#x), head *:not(#x#x#x#x#x#x#x#x) { display: none !important }\n"

func (d *Doc) CountNodes() int {
	var f func(n *Node) int
	f = func(n *Node) int {
		c := 1
		for _, k := range n.Kids {
			c += f(k)
		}
		return c
	}
	return f(d.Body)
}

// ---------------------------------------------------------------------------------------------
// feature classification (coarse document class: keys of hang findings, distribution histogram)

var featureRe = []struct{ name, sub string }{
	{"float", "float:"}, {"abspos", "position:absolute"}, {"fixed", "position:fixed"}, {"relpos", "position:relative"},
	{"sticky", "position:sticky"}, {"running", "running("}, {"footnote", "footnote"},
	{"table", "table"}, {"flex", "flex"}, {"grid", "grid"}, {"columns", "column"}, {"break", "break-"},
	{"page-rule", "@page"}, {"margin-box", "@top-"}, {"margin-box", "@bottom-"}, {"margin-box", "@left-"}, {"margin-box", "@right-"},
	{"var", "var("}, {"counter", "counter"}, {"content", "content:"}, {"svg", "<svg"}, {"img", "<img"}, {"data-uri", "data:"},
	{"inline-block", "inline-block"}, {"list", "<li"}, {"rtl", "rtl"}, {"transform", "transform:"}, {"overflow", "overflow:"},
	{"named-page", "page:"}, {"pre", "white-space:"}, {"first-letter", "::first-letter"}, {"first-line", "::first-line"},
	{"marker", "::marker"}, {"form", "<input"}, {"form", "<select"}, {"form", "<textarea"}, {"form", "<button"},
	{"box-decoration-break", "box-decoration-break"}, {"leader", "leader("}, {"target", "target-"}, {"string-set", "string-set"},
	{"bookmark", "bookmark-"}, {"font-face", "@font-face"}, {"counter-style", "@counter-style"}, {"media", "@media"},
}

func Features(text string) []string {
	seen := map[string]bool{}
	for _, f := range featureRe {
		if !seen[f.name] && strings.Contains(text, f.sub) {
			seen[f.name] = true
		}
	}
	var out []string
	for k := range seen {
		out = append(out, k)
	}
	sort.Strings(out)
	return out
}

// ---------------------------------------------------------------------------------------------
// generator

type gen struct {
	r       *rng.R
	rtl     bool // right-to-left words allowed in this document
	ids     int
	classes int
	names   []string // custom property names
}

func pick(r *rng.R, xs []string) string { return xs[r.Intn(len(xs))] }

var (
	blockTags  = []string{"div", "div", "div", "p", "p", "section", "article", "h1", "h2", "h3", "h4", "h5", "h6", "ul", "ol", "table", "blockquote", "pre", "dl", "fieldset", "details", "header", "footer", "aside", "nav", "main", "figure", "address", "center"}
	inlineTags = []string{"span", "span", "span", "a", "b", "i", "em", "strong", "sub", "sup", "q", "code", "small", "u", "label", "abbr", "cite", "br", "img", "input", "button", "select", "textarea", "svg", "wbr", "bdo", "font", "big", "mark", "time", "kbd"}
	displays   = []string{"block", "inline", "inline-block", "list-item", "table", "inline-table", "table-row-group", "table-header-group", "table-footer-group", "table-row", "table-cell", "table-column", "table-column-group", "table-caption", "flex", "inline-flex", "grid", "inline-grid", "none", "contents", "flow-root", "block flow", "inline flow-root", "inline list-item", "block flow list-item", "run-in"}
	lengths    = []string{"0", "1px", "3px", "10px", "25px", "50px", "100px", "150px", "300px", "700px", "1500px", "-5px", "-40px", "1em", "2.5em", "0.3em", "1rem", "10%", "50%", "100%", "130%", "-20%", "1in", "2cm", "5mm", "12pt", "1ex", "2ch", "5vw", "10vh", "1e3px", "0.0001px", "calc(10px + 5%)", "calc(100% - 20px)", "calc(1em * 3)", "calc(-10px)", "calc(100px / 3)", "min(10px, 5%)", "max(1em, 20px)"}
	lengthsPos = []string{"0", "1px", "3px", "10px", "25px", "50px", "100px", "150px", "300px", "700px", "1em", "2.5em", "10%", "50%", "100%", "1in", "12pt", "calc(10px + 5%)"}
	autoLen    = []string{"auto", "auto", "min-content", "max-content", "fit-content"}
	colors     = []string{"red", "#0f0", "#12345678", "rgb(1,2,3)", "rgba(10,20,30,.5)", "hsl(120,50%,50%)", "transparent", "currentColor", "rgb(100% 0% 0% / 50%)", "blue", "inherit", "black"}
	fonts      = []string{"Ahem", "weasyprint", "DejaVu Sans", "serif", "monospace", "Ahem, serif", "nonexistent-font", "\"DejaVu Sans\", Ahem"}
	fontSizes  = []string{"0", "1px", "6px", "10px", "16px", "20px", "40px", "120px", "500px", "small", "x-large", "larger", "smaller", "200%", "0.5em", "1e-3px", "3000px", "2ex", "1ch"}
	lineHs     = []string{"normal", "0", "1", "1.5", "3", "10px", "40px", "200%", "0.1", "100"}
	counterSt  = []string{"decimal", "disc", "circle", "square", "lower-roman", "upper-alpha", "lower-greek", "decimal-leading-zero", "none", "cjk-decimal", "hebrew", "georgian", "armenian", "symbols(cyclic 'a' 'b')", "symbols(numeric '0' '1')", "symbols(fixed 'x')", "symbols(alphabetic 'a')", "symbols(symbolic)", "cs1", "cs2", "'-'", "disclosure-open", "ethiopic-numeric", "japanese-formal", "trad-chinese-informal"}
	breaks     = []string{"auto", "avoid", "page", "left", "right", "recto", "verso", "always", "column", "avoid-page", "avoid-column", "all"}
	pageNames  = []string{"pa", "pb", "auto"}
)

func (g *gen) length() string {
	if g.r.P(1, 12) && len(g.names) > 0 {
		return g.varRef("10px")
	}
	return pick(g.r, lengths)
}

func (g *gen) lengthOrAuto() string {
	if g.r.P(1, 4) {
		return pick(g.r, autoLen)
	}
	return g.length()
}

func (g *gen) varRef(fallback string) string {
	n := pick(g.r, g.names)
	switch g.r.Intn(4) {
	case 0:
		return "var(" + n + ", " + fallback + ")"
	case 1:
		return "var(" + n + ",)"
	default:
		return "var(" + n + ")"
	}
}

func words(r *rng.R, n int, rtl bool) string {
	var b strings.Builder
	for i := 0; i < n; i++ {
		if i > 0 {
			switch r.Intn(14) {
			case 0:
				b.WriteString("\n")
			case 1:
				b.WriteString("  ")
			case 2:
				b.WriteString("\t")
			case 3:
				b.WriteString(" ")
			default:
				b.WriteString(" ")
			}
		}
		k := r.Intn(24)
		if (k == 1 || k == 2) && !rtl {
			k = 10
		}
		if k == 0 && !r.P(1, 3) {
			k = 11
		}
		switch k {
		case 0: // long word
			b.WriteString(strings.Repeat(pick(r, []string{"a", "X", "ab", "é", "m­"}), r.Range(20, 70)))
		case 1:
			b.WriteString("שלום עולם")
		case 2:
			b.WriteString("مرحبا")
		case 3:
			b.WriteString("日本語のテキスト")
		case 4:
			b.WriteString("éä​zero‍width")
		case 5:
			b.WriteString("hy­phen­ation")
		case 6:
			b.WriteString("😀x")
		case 7:
			b.WriteString("a-b-c/d.e,f")
		case 8:
			b.WriteString(" ")
		case 9:
			b.WriteString("extraordinarily")
		default:
			l := r.Range(1, 9)
			for j := 0; j < l; j++ {
				b.WriteByte(byte('a' + r.Intn(26)))
			}
		}
	}
	return b.String()
}

var pngCache = map[string][]byte{}

func pngBytes(w, h int) []byte {
	k := fmt.Sprint(w, "x", h)
	if b, ok := pngCache[k]; ok {
		return b
	}
	img := image.NewRGBA(image.Rect(0, 0, w, h))
	for y := 0; y < h; y++ {
		for x := 0; x < w; x++ {
			img.Set(x, y, color.RGBA{uint8(40 * x), uint8(60 * y), 200, 255})
		}
	}
	var buf bytes.Buffer
	png.Encode(&buf, img)
	pngCache[k] = buf.Bytes()
	return buf.Bytes()
}

const gif1x1 = "R0lGODlhAQABAIAAAAAAAP///yH5BAEAAAAALAAAAAABAAEAAAIBRAA7"

func (g *gen) svgMarkup(inline bool) string {
	r := g.r
	var b strings.Builder
	b.WriteString("<svg")
	if !inline || r.P(1, 2) {
		b.WriteString(" xmlns=\"http://www.w3.org/2000/svg\"")
	}
	if r.P(2, 3) {
		b.WriteString(" width=\"" + pick(r, []string{"10", "50", "100px", "0", "-5", "50%", "1e9", "abc", "2em", ""}) + "\"")
	}
	if r.P(2, 3) {
		b.WriteString(" height=\"" + pick(r, []string{"10", "50", "100px", "0", "-5", "50%", "auto", "3cm"}) + "\"")
	}
	if r.P(1, 2) {
		b.WriteString(" viewBox=\"" + pick(r, []string{"0 0 10 10", "0 0 100 50", "0,0,10,10", "-5 -5 10 10", "0 0 0 0", "0 0 -1 10", "0 0 10", "a b c d", "", "0 0 1e9 1e-9", " 0  0 10 10 "}) + "\"")
	}
	if r.P(1, 3) {
		b.WriteString(" preserveAspectRatio=\"" + pick(r, []string{"none", "xMidYMid", "xMinYMax slice", "xMaxYMin meet", "x", "", "slice", "xMidYMid foo", "defer xMidYMid"}) + "\"")
	}
	b.WriteString(">")
	n := r.Range(0, 5)
	for i := 0; i < n; i++ {
		switch r.Intn(16) {
		case 0:
			fmt.Fprintf(&b, "<rect x=\"%d\" y=\"%d\" width=\"%s\" height=\"%s\" fill=\"%s\" rx=\"%s\"/>", r.Range(-5, 20), r.Range(-5, 20), pick(r, []string{"5", "0", "-3", "50%", "x"}), pick(r, []string{"5", "0", "10", "1e3"}), pick(r, []string{"red", "none", "url(#g)", "url(#nope)", "currentColor", "#abc"}), pick(r, []string{"0", "2", "-1", "100"}))
		case 1:
			fmt.Fprintf(&b, "<circle cx=\"5\" cy=\"5\" r=\"%s\" stroke=\"blue\" stroke-width=\"%s\" stroke-dasharray=\"%s\"/>", pick(r, []string{"3", "0", "-1", "50%"}), pick(r, []string{"1", "0", "-2", "1e3"}), pick(r, []string{"1 2", "0", "none", "1,-1", "0 0", "a"}))
		case 2:
			fmt.Fprintf(&b, "<path d=\"%s\" fill=\"none\" stroke=\"black\" marker-end=\"url(#m)\"/>", pick(r, []string{"M0 0L10 10", "M0 0 L 5 5 Z", "M0,0 C1,1 2,2 3,3 S 4 4 5 5", "M 0 0 A 5 5 0 1 1 10 10", "M0 0 A 0 0 0 0 0 1 1", "M", "L 5 5", "M0 0 Q", "M0 0h5v5H0z m1 1 l1e3 1e+5", "M 1 2 3", "M0 0 T 5 5 t 1 1", "z", "M.5.5.5.5", "M0 0 L 1,", "M0 0 a1 1 0 01 1 1"}))
		case 3:
			fmt.Fprintf(&b, "<polygon points=\"%s\"/>", pick(r, []string{"0,0 10,0 5,10", "0 0 1", "", "a", "1,2,3,4,5,6", "0,0"}))
		case 4:
			fmt.Fprintf(&b, "<text x=\"%s\" y=\"5\" font-size=\"%s\" text-anchor=\"%s\">%s<tspan dx=\"%s\">t</tspan></text>", pick(r, []string{"0", "1 2 3", "", "a"}), pick(r, []string{"5", "0", "-1", "1e3"}), pick(r, []string{"start", "middle", "end", "x"}), escText(words(r, r.Range(0, 3), false)), pick(r, []string{"1", "1 2", ""}))
		case 5:
			fmt.Fprintf(&b, "<g transform=\"%s\" opacity=\"%s\"><rect width=\"3\" height=\"3\"/></g>", pick(r, []string{"translate(1,2)", "scale(0)", "rotate(45 1 1)", "matrix(1 0 0 1 0 0)", "matrix(0 0 0 0 0 0)", "skewX(90)", "foo(1)", "translate(", "scale(1e30)", "rotate(1,2)", ""}), pick(r, []string{"1", "0", "0.5", "-1", "x"}))
		case 6:
			fmt.Fprintf(&b, "<defs><linearGradient id=\"g\" x1=\"%s\" gradientUnits=\"%s\" spreadMethod=\"%s\"><stop offset=\"%s\" stop-color=\"red\"/><stop offset=\"1\" stop-color=\"blue\"/></linearGradient></defs>", pick(r, []string{"0", "50%", "x"}), pick(r, []string{"userSpaceOnUse", "objectBoundingBox", "x"}), pick(r, []string{"pad", "reflect", "repeat"}), pick(r, []string{"0", "0.5", "2", "-1", "50%", "x"}))
		case 7:
			fmt.Fprintf(&b, "<use href=\"%s\" x=\"1\"/>", pick(r, []string{"#a", "#g", "#nope", "#u", "", "#m", "data:image/svg+xml,<svg xmlns='http://www.w3.org/2000/svg'/>"}))
		case 8:
			fmt.Fprintf(&b, "<g id=\"%s\"><use href=\"%s\"/></g>", pick(r, []string{"a", "u"}), pick(r, []string{"#a", "#u"}))
		case 9:
			fmt.Fprintf(&b, "<marker id=\"m\" markerWidth=\"%s\" markerHeight=\"3\" orient=\"%s\" viewBox=\"%s\"><circle r=\"1\"/></marker>", pick(r, []string{"3", "0", "-1"}), pick(r, []string{"auto", "45", "auto-start-reverse", "x"}), pick(r, []string{"0 0 2 2", "0 0 0 0", "x"}))
		case 10:
			fmt.Fprintf(&b, "<clipPath id=\"c\"><rect width=\"5\" height=\"5\"/></clipPath><rect width=\"9\" height=\"9\" clip-path=\"url(#c)\" mask=\"url(#k)\" filter=\"url(#f)\"/><mask id=\"k\"><rect width=\"2\" height=\"2\" fill=\"white\"/></mask><filter id=\"f\"><feOffset dx=\"1\"/><feBlend mode=\"multiply\"/></filter>")
		case 11:
			fmt.Fprintf(&b, "<pattern id=\"p\" width=\"%s\" height=\"2\" patternUnits=\"userSpaceOnUse\"><rect width=\"1\" height=\"1\"/></pattern><rect width=\"8\" height=\"8\" fill=\"url(#p)\"/>", pick(r, []string{"2", "0", "-1", "50%"}))
		case 14:
			b.WriteString(hrefGraph(r))
		case 12:
			fmt.Fprintf(&b, "<image href=\"data:image/png;base64,%s\" width=\"5\" height=\"5\"/><svg viewBox=\"0 0 2 2\" width=\"4\"><line x2=\"2\" y2=\"2\" stroke=\"red\"/></svg>", base64.StdEncoding.EncodeToString(pngBytes(2, 2)))
		default:
			fmt.Fprintf(&b, "<style>rect{fill:%s;stroke:%s}</style><ellipse rx=\"3\" ry=\"%s\"/><polyline points=\"0,0 5,5 %s\" stroke-linejoin=\"%s\"/>", pick(r, colors), pick(r, []string{"red", "none", "url(#g) blue"}), pick(r, []string{"2", "0", "auto"}), pick(r, []string{"9,0", "9", ""}), pick(r, []string{"miter", "round", "bevel", "x"}))
		}
	}
	if r.P(1, 12) {
		b.WriteString("<unclosed>")
	} else if r.P(1, 15) {
		return b.String() // truncated
	}
	b.WriteString("</svg>")
	return b.String()
}

// hrefGraph: gradients / patterns inheriting from one another through href or xlink:href: chains,
// chains to a missing id, self references, 2- and 3-cycles; used or not by a shape.
func hrefGraph(r *rng.R) string {
	kinds := []string{"linearGradient", "radialGradient", "pattern"}
	ids := []string{"ga", "gb", "gc", "gd"}
	n := r.Range(1, 4)
	var b strings.Builder
	for i := 0; i < n; i++ {
		var target string
		switch r.Intn(6) {
		case 0:
			target = ids[i] // self reference
		case 1:
			target = "missing"
		case 2:
			target = ids[(i+n-1)%n] // back edge
		default:
			target = ids[(i+1)%n] // next (closes a cycle on the last one)
		}
		if i == n-1 && r.P(1, 2) {
			target = "" // open chain
		}
		k := pick(r, kinds)
		fmt.Fprintf(&b, "<%s id=\"%s\"", k, ids[i])
		if target != "" {
			fmt.Fprintf(&b, " %s=\"#%s\"", pick(r, []string{"href", "xlink:href", "href"}), target)
		}
		if k == "pattern" {
			b.WriteString(" width=\"4\" height=\"4\"")
		}
		if r.P(1, 2) {
			fmt.Fprintf(&b, "><stop offset=\"0\" stop-color=\"red\"/><rect width=\"2\" height=\"2\"/></%s>", k)
		} else {
			b.WriteString("/>")
		}
	}
	if r.P(2, 3) {
		fmt.Fprintf(&b, "<rect width=\"8\" height=\"8\" fill=\"url(#%s)\" stroke=\"url(#%s)\"/>", pick(r, ids[:n]), pick(r, ids))
	}
	return b.String()
}

func corrupt(r *rng.R, b []byte) []byte {
	c := append([]byte(nil), b...)
	if len(c) == 0 {
		return c
	}
	switch r.Intn(4) {
	case 0:
		return c[:r.Intn(len(c))]
	case 1:
		for i := 0; i < 1+r.Intn(4); i++ {
			c[r.Intn(len(c))] ^= byte(1 << r.Intn(8))
		}
	case 2: // damage the header area
		if len(c) > 30 {
			c[16+r.Intn(12)] = byte(r.Intn(256))
		}
	default:
		p := r.Intn(len(c))
		c = append(c[:p], append([]byte{0xff, 0x00, 0xff}, c[p:]...)...)
	}
	return c
}

func (g *gen) imageURL() string {
	// no newline (CSS strings), no backslash, and no "</style>" (it would end the HTML <style> element
	// the URL may be written in)
	return strings.NewReplacer("\n", " ", "\t", " ", "\\", "/", "</style>", "%3C/style>").Replace(g.imageURL0())
}

func (g *gen) imageURL0() string {
	r := g.r
	switch r.Intn(12) {
	case 0, 1, 2:
		return "data:image/png;base64," + base64.StdEncoding.EncodeToString(pngBytes(r.Range(1, 6), r.Range(1, 6)))
	case 3:
		return "data:image/png;base64," + base64.StdEncoding.EncodeToString(corrupt(r, pngBytes(4, 3)))
	case 4:
		return "data:image/gif;base64," + gif1x1
	case 5:
		s := base64.StdEncoding.EncodeToString(pngBytes(3, 3))
		return "data:image/png;base64," + s[:r.Intn(len(s))]
	case 6, 7:
		return "data:image/svg+xml," + strings.ReplaceAll(strings.ReplaceAll(g.svgMarkup(false), "#", "%23"), "\"", "'")
	case 8:
		return "data:image/svg+xml;base64," + base64.StdEncoding.EncodeToString([]byte(g.svgMarkup(false)))
	case 9:
		return pick(r, []string{"data:,", "data:", "data:image/png", "data:;base64,====", "data:text/plain,hello", "data:image/svg+xml,%zz", "data:image/svg+xml,<svg", "data:image/png;base64,%%%"})
	case 10:
		return pick(r, []string{"nonexistent.png", "file:///nonexistent/x.png", "http://[::1", "#frag", "", "about:blank", "x:y"})
	default:
		return "data:image/svg+xml," + strings.ReplaceAll("<svg xmlns='http://www.w3.org/2000/svg' width='"+pick(r, []string{"10", "0", "50%", ""})+"' height='10'><rect width='5' height='5'/></svg>", "#", "%23")
	}
}

func (g *gen) contentValue() string {
	r := g.r
	n := r.Range(1, 3)
	var parts []string
	for i := 0; i < n; i++ {
		switch r.Intn(16) {
		case 0, 1:
			parts = append(parts, "\""+pick(r, []string{"x", "»", "long text here", "", "\\a", "a b"})+"\"")
		case 2:
			parts = append(parts, "counter("+pick(r, []string{"c", "d", "page", "pages", "list-item", "footnote"})+pick(r, []string{"", ", " + pick(r, counterSt)})+")")
		case 3:
			parts = append(parts, "counters(c, \".\""+pick(r, []string{"", ", " + pick(r, counterSt)})+")")
		case 4:
			parts = append(parts, "attr("+pick(r, []string{"id", "class", "title", "href", "nope"})+")")
		case 5:
			parts = append(parts, pick(r, []string{"open-quote", "close-quote", "no-open-quote", "no-close-quote"}))
		case 6:
			parts = append(parts, "url(\""+g.imageURL()+"\")")
		case 7:
			parts = append(parts, "string("+pick(r, []string{"s", "t"})+pick(r, []string{"", ", first", ", last", ", start", ", first-except"})+")")
		case 8:
			parts = append(parts, "target-counter(attr(href), "+pick(r, []string{"page", "c"})+")")
		case 9:
			parts = append(parts, "target-text(attr(href)"+pick(r, []string{"", ", before", ", content", ", first-letter"})+")")
		case 10:
			parts = append(parts, "leader("+pick(r, []string{"dotted", "solid", "space", "'.'", "'ab'"})+")")
		case 11:
			parts = append(parts, "element("+pick(r, []string{"h", "f"})+")")
		case 12:
			if len(g.names) > 0 {
				parts = append(parts, g.varRef("\"v\""))
			} else {
				parts = append(parts, "\"v\"")
			}
		case 13:
			parts = append(parts, pick(r, []string{"none", "normal", "contents"}))
		case 14:
			parts = append(parts, "linear-gradient(red, blue)")
		default:
			parts = append(parts, "target-counters(attr(href), c, '.')")
		}
	}
	return strings.Join(parts, " ")
}

// decl produces one random (mostly valid) declaration.
func (g *gen) decl() Decl {
	r := g.r
	d := g.decl0()
	if r.P(1, 25) {
		d.Important = true
	}
	return d
}

func (g *gen) decl0() Decl {
	r := g.r
	switch r.Intn(64) {
	case 0, 1, 2, 3:
		return Decl{Name: "display", Value: pick(r, displays)}
	case 4, 5:
		return Decl{Name: "position", Value: pick(r, []string{"static", "relative", "absolute", "absolute", "fixed", "sticky", "running(h)", "running(f)"})}
	case 6, 7, 8:
		return Decl{Name: "float", Value: pick(r, []string{"left", "right", "none", "left", "right", "footnote", "inline-start", "inline-end"})}
	case 9:
		return Decl{Name: "clear", Value: pick(r, []string{"left", "right", "both", "none"})}
	case 10:
		return Decl{Name: pick(r, []string{"top", "left", "right", "bottom"}), Value: g.lengthOrAuto()}
	case 11, 12:
		return Decl{Name: pick(r, []string{"width", "height", "width", "height", "min-width", "min-height", "max-width", "max-height"}), Value: g.lengthOrAuto()}
	case 13:
		return Decl{Name: pick(r, []string{"margin", "margin-top", "margin-left", "margin-bottom", "margin-right"}), Value: g.lengthOrAuto()}
	case 14:
		return Decl{Name: "margin", Value: g.length() + " " + g.lengthOrAuto()}
	case 15:
		return Decl{Name: pick(r, []string{"padding", "padding-top", "padding-left", "padding-bottom"}), Value: pick(r, lengthsPos)}
	case 16:
		return Decl{Name: pick(r, []string{"border", "border-top", "border-left", "border-bottom", "outline"}), Value: pick(r, []string{"1px solid", "10px dashed red", "thick double", "0 none", "medium dotted blue", "50px groove", "1px inset", "3px ridge #00f", "hidden"})}
	case 17:
		return Decl{Name: "box-sizing", Value: pick(r, []string{"border-box", "content-box", "padding-box"})}
	case 18:
		return Decl{Name: "overflow", Value: pick(r, []string{"hidden", "visible", "auto", "scroll", "clip"})}
	case 19:
		switch r.Intn(5) {
		case 0:
			return Decl{Name: "columns", Value: pick(r, []string{"2", "3 100px", "50px", "auto", "1", "100"})}
		case 1:
			return Decl{Name: "column-count", Value: pick(r, []string{"2", "3", "1", "10", "auto"})}
		case 2:
			return Decl{Name: "column-width", Value: pick(r, lengthsPos)}
		case 3:
			return Decl{Name: "column-span", Value: pick(r, []string{"all", "none"})}
		default:
			return Decl{Name: pick(r, []string{"column-gap", "column-fill", "column-rule"}), Value: pick(r, []string{"10px", "0", "balance", "auto", "1px solid", "normal", "50%"})}
		}
	case 20:
		switch r.Intn(8) {
		case 0:
			return Decl{Name: "flex-direction", Value: pick(r, []string{"row", "column", "row-reverse", "column-reverse"})}
		case 1:
			return Decl{Name: "flex-wrap", Value: pick(r, []string{"wrap", "nowrap", "wrap-reverse"})}
		case 2:
			return Decl{Name: "flex", Value: pick(r, []string{"1", "none", "auto", "0 0 auto", "1 1 0", "2 0 50px", "1 1 0%", "0 1 100%", "initial"})}
		case 3:
			return Decl{Name: pick(r, []string{"flex-grow", "flex-shrink"}), Value: pick(r, []string{"0", "1", "2.5", "100", "0.001"})}
		case 4:
			return Decl{Name: "flex-basis", Value: pick(r, []string{"auto", "0", "content", "50%", "100px", "min-content"})}
		case 5:
			return Decl{Name: pick(r, []string{"justify-content", "align-content"}), Value: pick(r, []string{"center", "flex-start", "flex-end", "space-between", "space-around", "space-evenly", "stretch", "start", "end", "normal", "baseline"})}
		case 6:
			return Decl{Name: pick(r, []string{"align-items", "align-self", "justify-self", "justify-items"}), Value: pick(r, []string{"center", "flex-start", "flex-end", "baseline", "stretch", "auto", "start", "end", "normal", "first baseline", "last baseline"})}
		default:
			return Decl{Name: "order", Value: pick(r, []string{"0", "1", "-1", "5"})}
		}
	case 21:
		switch r.Intn(8) {
		case 0, 1:
			return Decl{Name: pick(r, []string{"grid-template-columns", "grid-template-rows"}), Value: pick(r, []string{"1fr 2fr", "repeat(3, 1fr)", "100px auto", "repeat(auto-fill, 50px)", "repeat(auto-fit, minmax(30px, 1fr))", "[a] 1fr [b] 50px [c]", "none", "min-content max-content", "fit-content(50px) 1fr", "minmax(10px, auto)", "0fr", "repeat(2, [x] 10px [y])", "subgrid", "10% 200%", "repeat(0, 1fr)", "1fr", "repeat(auto-fill, 0)"})}
		case 2:
			return Decl{Name: "grid-template-areas", Value: pick(r, []string{"\"a b\" \"c d\"", "\"a a\" \"b .\"", "none", "\"a\"", "\"a b\" \"a\"", "\"a b a\"", "\"\"", "\". .\""})}
		case 3:
			return Decl{Name: "grid-auto-flow", Value: pick(r, []string{"row", "column", "dense", "row dense", "column dense"})}
		case 4:
			return Decl{Name: pick(r, []string{"grid-column", "grid-row"}), Value: pick(r, []string{"1", "2 / 4", "span 2", "1 / -1", "a", "auto", "-1", "span 100", "3 / 1", "0", "1 / span 0", "a / b", "span a"})}
		case 5:
			return Decl{Name: "grid-area", Value: pick(r, []string{"a", "b", "1 / 1 / 3 / 3", "auto", "2 / 1", "span 2 / span 3", "zz"})}
		case 6:
			return Decl{Name: pick(r, []string{"gap", "row-gap", "grid-gap"}), Value: pick(r, []string{"0", "10px", "5px 20px", "10%", "normal"})}
		default:
			return Decl{Name: pick(r, []string{"grid-auto-columns", "grid-auto-rows"}), Value: pick(r, []string{"auto", "1fr", "50px", "min-content", "minmax(10px, 1fr)", "10px 20px"})}
		}
	case 22:
		switch r.Intn(6) {
		case 0:
			return Decl{Name: "border-collapse", Value: pick(r, []string{"collapse", "separate"})}
		case 1:
			return Decl{Name: "border-spacing", Value: pick(r, []string{"0", "5px", "5px 10px", "100px"})}
		case 2:
			return Decl{Name: "table-layout", Value: pick(r, []string{"fixed", "auto"})}
		case 3:
			return Decl{Name: "caption-side", Value: pick(r, []string{"top", "bottom"})}
		case 4:
			return Decl{Name: "empty-cells", Value: pick(r, []string{"show", "hide"})}
		default:
			return Decl{Name: "vertical-align", Value: pick(r, []string{"top", "middle", "bottom", "baseline", "sub", "super", "text-top", "text-bottom", "10px", "-50%", "1e3px"})}
		}
	case 23, 24:
		return Decl{Name: "font-size", Value: pick(r, fontSizes)}
	case 25:
		return Decl{Name: "line-height", Value: pick(r, lineHs)}
	case 26:
		return Decl{Name: "font-family", Value: pick(r, fonts)}
	case 27:
		return Decl{Name: "white-space", Value: pick(r, []string{"normal", "pre", "nowrap", "pre-wrap", "pre-line", "break-spaces"})}
	case 28:
		return Decl{Name: pick(r, []string{"word-break", "overflow-wrap", "hyphens", "text-align", "text-align-last", "text-transform"}), Value: pick(r, []string{"break-all", "anywhere", "break-word", "auto", "manual", "none", "justify", "center", "right", "left", "start", "end", "uppercase", "capitalize", "full-width", "normal", "keep-all", "justify-all", "match-parent"})}
	case 29:
		return Decl{Name: pick(r, []string{"text-indent", "letter-spacing", "word-spacing", "tab-size"}), Value: pick(r, []string{"0", "10px", "-30px", "50%", "1em", "normal", "500px", "-1000px", "4", "0.5em", "2ch"})}
	case 30:
		return Decl{Name: "direction", Value: pick(r, []string{"rtl", "ltr"})}
	case 31:
		return Decl{Name: "unicode-bidi", Value: pick(r, []string{"embed", "bidi-override", "isolate", "plaintext", "isolate-override", "normal"})}
	case 32:
		return Decl{Name: pick(r, []string{"font-weight", "font-style", "font-variant", "font-stretch", "text-decoration", "font-kerning", "font-variant-caps", "font-feature-settings", "font-variant-ligatures", "font-variant-numeric", "font-language-override", "font-variation-settings"}), Value: pick(r, []string{"bold", "italic", "small-caps", "condensed", "underline", "normal", "900", "1", "oblique", "lighter", "bolder", "line-through overline", "none", "\"liga\" 0", "\"smcp\"", "all-small-caps", "underline dotted red", "no-common-ligatures", "tabular-nums", "\"wght\" 600", "\"TRK\""})}
	case 33, 34:
		return Decl{Name: pick(r, []string{"break-before", "break-after", "break-inside", "page-break-before", "page-break-after", "page-break-inside"}), Value: pick(r, breaks)}
	case 35:
		return Decl{Name: pick(r, []string{"orphans", "widows"}), Value: pick(r, []string{"1", "2", "5", "100", "0"})}
	case 36:
		return Decl{Name: "page", Value: pick(r, pageNames)}
	case 37:
		return Decl{Name: "box-decoration-break", Value: pick(r, []string{"clone", "slice"})}
	case 38, 39:
		return Decl{Name: "content", Value: g.contentValue()}
	case 40:
		return Decl{Name: pick(r, []string{"counter-reset", "counter-increment", "counter-set"}), Value: pick(r, []string{"c", "c 5", "c d", "c -1 d 2", "none", "page 3", "pages", "list-item", "list-item 10", "footnote", "c 99999999999", "reversed(c)", "c 1e3"})}
	case 41:
		return Decl{Name: "list-style-type", Value: pick(r, counterSt)}
	case 42:
		return Decl{Name: pick(r, []string{"list-style-position", "list-style-image", "list-style"}), Value: pick(r, []string{"inside", "outside", "none", "url(\"" + g.imageURL() + "\")", "square inside", "linear-gradient(red,blue)"})}
	case 43:
		return Decl{Name: "transform", Value: pick(r, []string{"rotate(30deg)", "scale(0)", "translate(10px, 50%)", "matrix(1,0,0,1,0,0)", "skew(10deg)", "scale(2) rotate(1turn)", "none", "translateX(-1000px)", "scale(1e10)", "rotate(0)"})}
	case 44:
		return Decl{Name: pick(r, []string{"opacity", "z-index", "visibility", "transform-origin", "image-rendering", "image-resolution", "object-fit", "object-position", "image-orientation"}), Value: pick(r, []string{"0", "0.5", "1", "-1", "10", "hidden", "collapse", "visible", "auto", "50% 50%", "left top", "pixelated", "2dppx", "contain", "cover", "fill", "none", "scale-down", "from-image", "90deg", "10px 20px", "0.001dppx", "300dpi"})}
	case 45:
		return Decl{Name: pick(r, []string{"background", "background-color", "background-image"}), Value: pick(r, []string{pick(r, colors), "url(\"" + g.imageURL() + "\")", "linear-gradient(to right, red, blue)", "radial-gradient(circle, red 0%, blue 100%)", "linear-gradient(red 0 0)", "repeating-linear-gradient(red, blue 0)", "radial-gradient(0px, red, blue)", "linear-gradient(45deg, red -50%, blue 200%)", "repeating-radial-gradient(ellipse farthest-corner at 10% 10%, red, blue 1px)", "radial-gradient(closest-side at 0 0, red, blue)", "none"})}
	case 46:
		return Decl{Name: pick(r, []string{"background-size", "background-position", "background-repeat", "background-clip", "background-origin", "background-attachment"}), Value: pick(r, []string{"cover", "contain", "0 0", "10px auto", "100% 100%", "left top", "center", "right 10px bottom 5%", "repeat-x", "space", "round", "no-repeat", "border-box", "content-box", "padding-box", "fixed", "0", "auto 0"})}
	case 47:
		return Decl{Name: pick(r, []string{"border-radius", "border-top-left-radius"}), Value: pick(r, []string{"5px", "50%", "10px / 20px", "1000px", "0", "10px 20px"})}
	case 48:
		return Decl{Name: pick(r, []string{"border-width", "border-style", "border-color"}), Value: pick(r, []string{"0", "thin", "30px", "solid", "double", "none", "dotted dashed", "red", "transparent", "1px 2px 3px 4px", "hidden"})}
	case 49:
		return Decl{Name: "color", Value: pick(r, colors)}
	case 50:
		n := fmt.Sprintf("--v%d", r.Intn(4))
		g.names = append(g.names, n)
		return Decl{Name: n, Value: pick(r, []string{"10px", "red", "block", " ", "", "left", "1", "auto", "calc(1px + 2px)", "{a:b}", "[x]", "var(--v0)", "var(--v1, 5px)", "var(--v2)", "var(--v3)", "10px 20px", "\"s\"", "initial", "inherit", "var(--undefined)", "var(--undefined, var(--v1))", "2", "50%"})}
	case 51:
		if len(g.names) > 0 {
			return Decl{Name: pick(r, []string{"width", "color", "display", "margin", "float", "font-size", "height", "content", "padding-left", "columns", "line-height", "border", "background", "position", "z-index"}), Value: g.varRef(pick(r, []string{"10px", "red", "block"}))}
		}
		return Decl{Name: "width", Value: "var(--nope, 20px)"}
	case 52:
		if len(g.names) > 0 {
			return Decl{Name: pick(r, []string{"width", "margin", "border", "background", "transform", "color"}), Value: pick(r, []string{"calc(" + g.varRef("1px") + " * 2)", "1px solid " + g.varRef("red"), g.varRef("1px") + " " + g.varRef("2px"), "translate(" + g.varRef("1px") + ")", "rgb(" + g.varRef("1") + ", 0, 0)"})}
		}
		return Decl{Name: "color", Value: "rgb(1, 2, 3)"}
	case 53:
		return Decl{Name: pick(r, []string{"string-set", "bookmark-level", "bookmark-label", "bookmark-state", "anchor", "link", "lang"}), Value: pick(r, []string{"s content()", "t \"x\" counter(c)", "s content(before) attr(id)", "1", "3", "none", "content(text)", "open", "closed", "attr(id)", "attr(href)", "\"fr\"", "s content(first-letter)", "t content(after)"})}
	case 54:
		return Decl{Name: pick(r, []string{"footnote-display", "footnote-policy", "max-lines", "continue", "block-ellipsis", "text-overflow", "appearance"}), Value: pick(r, []string{"block", "inline", "compact", "auto", "line", "2", "1", "none", "discard", "ellipsis", "\"...\"", "clip"})}
	case 55:
		return Decl{Name: pick(r, []string{"quotes", "hyphenate-character", "hyphenate-limit-chars", "hyphenate-limit-zone"}), Value: pick(r, []string{"\"<\" \">\"", "none", "auto", "\"-\"", "3 1 1", "5", "10%", "\"a\" \"b\" \"c\" \"d\"", "auto 3"})}
	case 56:
		return Decl{Name: pick(r, []string{"all", "display", "width", "float", "position", "font-size"}), Value: pick(r, []string{"initial", "inherit", "unset", "revert"})}
	case 57:
		return Decl{Name: pick(r, []string{"inline-size", "block-size", "margin-inline", "margin-block-start", "padding-inline-end", "inset", "inset-inline-start", "border-inline", "min-inline-size", "max-block-size"}), Value: pick(r, []string{"10px", "auto", "50%", "0", "1px solid"})}
	case 58:
		return Decl{Name: pick(r, []string{"marks", "bleed", "size"}), Value: pick(r, []string{"crop", "cross", "crop cross", "none", "10px", "auto", "A5", "100px 100px"})}
	default:
		return Decl{Name: pick(r, []string{"width", "height"}), Value: pick(r, []string{"10px", "50px", "100px", "200px", "400px", "900px", "2000px"})}
	}
}

func (g *gen) text(max int) *Node { return &Node{Text: words(g.r, g.r.Range(1, max), g.rtl)} }

func (g *gen) attrs(n *Node) {
	r := g.r
	if r.P(1, 3) {
		g.ids++
		n.Attrs = append(n.Attrs, Attr{K: "id", V: fmt.Sprintf("i%d", r.Intn(6))})
	}
	if r.P(1, 2) {
		n.Attrs = append(n.Attrs, Attr{K: "class", V: fmt.Sprintf("c%d", r.Intn(5))})
	}
	if r.P(1, 20) {
		n.Attrs = append(n.Attrs, Attr{K: "dir", V: pick(r, []string{"rtl", "ltr", "auto"})})
	}
	if r.P(1, 20) {
		n.Attrs = append(n.Attrs, Attr{K: "lang", V: pick(r, []string{"en", "fr", "de", "ar", "en-US", "fr", "en", "zh-Hans", "", "el", "en", "fr", pick(r, []string{"x", "X", "en", "q", "123"})})})
	}
	if r.P(1, 30) {
		n.Attrs = append(n.Attrs, Attr{K: "hidden", V: ""})
	}
	if r.P(1, 12) {
		n.Attrs = append(n.Attrs, Attr{K: pick(r, []string{"align", "width", "height", "bgcolor", "border", "cellpadding", "cellspacing", "valign", "hspace", "vspace", "nowrap", "color", "size", "face", "background", "bordercolor", "marginwidth", "topmargin", "text"}), V: pick(r, []string{"center", "right", "justify", "10", "50%", "0", "-3", "red", "#0f0", "abc", "", "3", "+2", "-1", "top", "middle", "1e9", "7", "Ahem"})})
	}
	switch n.Tag {
	case "td", "th":
		if r.P(1, 3) {
			n.Attrs = append(n.Attrs, Attr{K: "colspan", V: pick(r, []string{"2", "3", "0", "1", "-1", "2", "abc", "", "2.5", " 2 ", "3", "2", "4", "7", pick(r, []string{"1000", "99999999999999999999", "40", "2"})})})
		}
		if r.P(1, 4) {
			n.Attrs = append(n.Attrs, Attr{K: "rowspan", V: pick(r, []string{"2", "3", "0", "1", "-1", "2", "abc", "4", "3", "2", pick(r, []string{"65534", "70000", "30", "2"})})})
		}
	case "col", "colgroup":
		if r.P(1, 2) {
			n.Attrs = append(n.Attrs, Attr{K: "span", V: pick(r, []string{"2", "3", "0", "-1", "2", "x", "4", pick(r, []string{"1000", "2", "50"})})})
		}
	case "ol":
		if r.P(1, 3) {
			n.Attrs = append(n.Attrs, Attr{K: "start", V: pick(r, []string{"5", "0", "-3", "x", "99999999999", ""})})
		}
		if r.P(1, 5) {
			n.Attrs = append(n.Attrs, Attr{K: "reversed", V: ""})
		}
		if r.P(1, 5) {
			n.Attrs = append(n.Attrs, Attr{K: "type", V: pick(r, []string{"a", "A", "i", "I", "1", "x"})})
		}
	case "li":
		if r.P(1, 5) {
			n.Attrs = append(n.Attrs, Attr{K: "value", V: pick(r, []string{"3", "-1", "x", ""})})
		}
	case "a":
		n.Attrs = append(n.Attrs, Attr{K: "href", V: pick(r, []string{"#i0", "#i1", "#i2", "#nope", "#", "http://example.com/", "", "mailto:x", "#i3", "http://[bad", "%zz"})})
		if r.P(1, 6) {
			n.Attrs = append(n.Attrs, Attr{K: "rel", V: "attachment"})
		}
	case "img", "embed":
		n.Attrs = append(n.Attrs, Attr{K: "src", V: g.imageURL()})
		if r.P(1, 2) {
			n.Attrs = append(n.Attrs, Attr{K: "alt", V: pick(r, []string{"alt text", "", "a"})})
		}
	case "object":
		n.Attrs = append(n.Attrs, Attr{K: "data", V: g.imageURL()})
	case "input":
		n.Attrs = append(n.Attrs, Attr{K: "type", V: pick(r, []string{"text", "checkbox", "radio", "submit", "hidden", "password", "number", "x", "range", "file", "image", "button"})})
		if r.P(1, 2) {
			n.Attrs = append(n.Attrs, Attr{K: "value", V: pick(r, []string{"val", "", "a long value of an input field"})})
		}
		if r.P(1, 3) {
			n.Attrs = append(n.Attrs, Attr{K: "size", V: pick(r, []string{"3", "0", "-1", "x", "100"})})
		}
		if r.P(1, 4) {
			n.Attrs = append(n.Attrs, Attr{K: "checked", V: ""})
		}
		if r.P(1, 4) {
			n.Attrs = append(n.Attrs, Attr{K: "placeholder", V: "ph"})
		}
	case "textarea":
		if r.P(1, 2) {
			n.Attrs = append(n.Attrs, Attr{K: "rows", V: pick(r, []string{"2", "0", "x"})}, Attr{K: "cols", V: pick(r, []string{"10", "0", "x"})})
		}
	case "font":
		n.Attrs = append(n.Attrs, Attr{K: "size", V: pick(r, []string{"1", "7", "+3", "-2", "0", "x", "+", "100"})})
	case "hr":
		n.Attrs = append(n.Attrs, Attr{K: "size", V: pick(r, []string{"1", "5", "0", "x"})})
	}
}

func (g *gen) style(n *Node, density int) {
	k := 0
	for g.r.P(density, 10) && k < 6 {
		n.Style = append(n.Style, g.decl())
		k++
	}
}

func (g *gen) node(depth, budget int) (*Node, int) {
	r := g.r
	if budget <= 0 || depth > 6 || r.P(1, 4) {
		return g.text(8), budget
	}
	var tag string
	if r.P(3, 5) && depth < 5 {
		tag = pick(r, blockTags)
	} else {
		tag = pick(r, inlineTags)
	}
	if tag == "svg" {
		return &Node{Tag: "#raw", Text: g.svgMarkup(true)}, budget - 1
	}
	if r.P(1, 30) {
		return g.floatTrap(), budget - 3
	}
	n := &Node{Tag: tag}
	g.attrs(n)
	g.style(n, 4)
	budget--
	switch tag {
	case "table":
		budget = g.table(n, depth, budget)
		return n, budget
	case "ul", "ol":
		k := r.Range(0, 4)
		for i := 0; i < k; i++ {
			li := &Node{Tag: "li"}
			g.attrs(li)
			g.style(li, 2)
			budget--
			c := r.Range(0, 2)
			for j := 0; j < c; j++ {
				var kid *Node
				kid, budget = g.node(depth+2, budget)
				li.Kids = append(li.Kids, kid)
			}
			n.Kids = append(n.Kids, li)
		}
		return n, budget
	case "select":
		for i := 0; i < r.Range(0, 3); i++ {
			n.Kids = append(n.Kids, &Node{Tag: "option", Kids: []*Node{g.text(2)}})
		}
		return n, budget
	case "dl":
		for i := 0; i < r.Range(0, 3); i++ {
			n.Kids = append(n.Kids, &Node{Tag: pick(r, []string{"dt", "dd"}), Kids: []*Node{g.text(4)}})
		}
		return n, budget
	case "textarea": // RCDATA: markup inside is text
		if r.P(1, 2) {
			n.Kids = append(n.Kids, g.text(4))
		}
		return n, budget
	case "details":
		n.Kids = append(n.Kids, &Node{Tag: "summary", Kids: []*Node{g.text(3)}})
	case "fieldset":
		n.Kids = append(n.Kids, &Node{Tag: "legend", Kids: []*Node{g.text(3)}})
	}
	if voidTags[tag] {
		return n, budget
	}
	k := r.Range(0, 4)
	if depth == 0 {
		k = r.Range(1, 7)
	}
	for i := 0; i < k; i++ {
		var kid *Node
		kid, budget = g.node(depth+1, budget)
		n.Kids = append(n.Kids, kid)
	}
	return n, budget
}

// floatTrap: a narrow container holding an empty float that has a width but no height (a spacer),
// followed at the same vertical position by something too wide for the room left beside it: a
// wide float, a long word, a table or an image.
func (g *gen) floatTrap() *Node {
	r := g.r
	w := pick(r, []string{"60px", "100px", "150px", "40px", "10em"})
	side := pick(r, []string{"left", "right"})
	box := &Node{Tag: "div", Style: []Decl{{Name: "width", Value: w}}}
	if r.P(1, 3) {
		box.Style = append(box.Style, Decl{Name: "position", Value: "relative"})
	}
	spacer := &Node{Tag: "div", Style: []Decl{{Name: "float", Value: side}, {Name: "width", Value: pick(r, []string{"60px", "30px", "100%", "50%", "1px", "0"})}}}
	if r.P(1, 5) {
		spacer.Style = append(spacer.Style, Decl{Name: "height", Value: pick(r, []string{"0", "-5px", "1px"})})
	}
	if r.P(1, 6) {
		spacer.Style = append(spacer.Style, Decl{Name: "margin", Value: pick(r, []string{"0", "-5px", "0 0 -10px"})})
	}
	box.Kids = append(box.Kids, spacer)
	if r.P(1, 4) {
		box.Kids = append(box.Kids, cloneNode(spacer))
	}
	switch r.Intn(5) {
	case 0, 1:
		box.Kids = append(box.Kids, &Node{Tag: "div", Style: []Decl{{Name: "float", Value: pick(r, []string{"left", "right", side})}, {Name: "height", Value: "10px"}, {Name: "width", Value: pick(r, []string{"auto", "100%", "200px", "90%"})}}, Kids: []*Node{{Text: "wide float content here"}}})
	case 2:
		box.Kids = append(box.Kids, &Node{Tag: "span", Kids: []*Node{{Text: strings.Repeat("abcdefgh", r.Range(1, 6))}}})
	case 3:
		box.Kids = append(box.Kids, &Node{Tag: "table", Kids: []*Node{{Tag: "tr", Kids: []*Node{{Tag: "td", Style: []Decl{{Name: "width", Value: "300px"}}, Kids: []*Node{{Text: "cell"}}}}}}})
	default:
		box.Kids = append(box.Kids, &Node{Tag: "img", Attrs: []Attr{{K: "src", V: g.imageURL()}, {K: "width", V: "300"}, {K: "height", V: "10"}}})
	}
	box.Kids = append(box.Kids, &Node{Tag: "p", Kids: []*Node{{Text: "ab"}}})
	return box
}

func (g *gen) table(t *Node, depth, budget int) int {
	r := g.r
	if r.P(1, 4) {
		t.Kids = append(t.Kids, &Node{Tag: "caption", Kids: []*Node{g.text(4)}})
	}
	if r.P(1, 4) {
		cg := &Node{Tag: "colgroup"}
		g.attrs(cg)
		for i := 0; i < r.Range(0, 3); i++ {
			c := &Node{Tag: "col"}
			g.attrs(c)
			g.style(c, 2)
			cg.Kids = append(cg.Kids, c)
		}
		t.Kids = append(t.Kids, cg)
	}
	groups := r.Range(1, 3)
	for gi := 0; gi < groups; gi++ {
		parent := t
		if r.P(1, 2) {
			grp := &Node{Tag: pick(r, []string{"tbody", "thead", "tfoot"})}
			g.style(grp, 1)
			t.Kids = append(t.Kids, grp)
			parent = grp
		}
		rows := r.Range(0, 4)
		for i := 0; i < rows; i++ {
			tr := &Node{Tag: "tr"}
			g.style(tr, 1)
			budget--
			cells := r.Range(0, 4)
			for j := 0; j < cells; j++ {
				td := &Node{Tag: pick(r, []string{"td", "td", "th"})}
				g.attrs(td)
				g.style(td, 2)
				budget--
				if r.P(3, 4) {
					var kid *Node
					kid, budget = g.node(depth+3, budget)
					td.Kids = append(td.Kids, kid)
				}
				tr.Kids = append(tr.Kids, td)
			}
			parent.Kids = append(parent.Kids, tr)
		}
	}
	if r.P(1, 10) { // stray content inside the table
		var kid *Node
		kid, budget = g.node(depth+1, budget)
		t.Kids = append(t.Kids, kid)
	}
	return budget
}

func (g *gen) selector() string {
	r := g.r
	simple := func() string {
		switch r.Intn(12) {
		case 0, 1, 2:
			return pick(r, append(append([]string{}, blockTags...), "span", "a", "td", "tr", "li", "img", "body", "html", "*", "table", "th", "b", "i"))
		case 3, 4, 5:
			return fmt.Sprintf(".c%d", r.Intn(5))
		case 6:
			return fmt.Sprintf("#i%d", r.Intn(6))
		case 7:
			return pick(r, []string{"div", "p", "span", "*", "li", "td"}) + ":nth-child(" + pick(r, []string{"2n+1", "odd", "even", "3", "-n+2", "n", "2n", "0n+0", "-1"}) + ")"
		case 8:
			return pick(r, []string{":first-child", ":last-child", ":only-child", ":empty", ":root", ":link", ":not(.c1)", ":is(div, p)", ":where(.c2)", ":lang(fr)", ":first-of-type", ":nth-last-child(2)", ":has(span)", ":checked", ":target"})
		case 9:
			return "[" + pick(r, []string{"id", "class", "href", "class~=c1", "id^=i", "href$='/'", "class*=c", "lang|=en", "title"}) + "]"
		default:
			return pick(r, []string{"div", "p", "span", "td", "li", "h1"}) + fmt.Sprintf(".c%d", r.Intn(5))
		}
	}
	s := simple()
	for r.P(1, 3) {
		s += pick(r, []string{" ", " > ", " + ", " ~ ", ""}) + simple()
	}
	if r.P(1, 4) {
		s += pick(r, []string{"::before", "::after", "::marker", "::first-line", "::first-letter", "::before", "::after", "::footnote-call", "::footnote-marker"})
	}
	if r.P(1, 8) {
		s += ", " + simple()
	}
	return s
}

func (g *gen) pageRule() *Rule {
	r := g.r
	ru := &Rule{Prelude: "@page" + pick(r, []string{"", "", "", " :first", " :left", " :right", " :blank", " pa", " pb", " pa:first", " :nth(2)", " :nth(2n+1 of pa)", " :left:first"})}
	if r.P(3, 4) {
		ru.Decls = append(ru.Decls, Decl{Name: "size", Value: pick(r, []string{"A4", "A5 landscape", "200px 300px", "100px", "50px 50px", "10px 10px", "0 0", "0", "1px 1px", "300px 20px", "20px 300px", "letter", "auto", "portrait", "1000000px", "5cm 5cm", "400px 100px", "B5", "0 100px", "100px 0", "0.5px 0.5px", "1e5px 10px"})})
	}
	if r.P(2, 3) {
		ru.Decls = append(ru.Decls, Decl{Name: "margin", Value: pick(r, []string{"0", "10px", "1cm", "-10px", "-500px", "50%", "100px", "1000px", "auto", "10px 20px 30px 40px", "49.9%", "0 -1px", "200px 0"})})
	}
	if r.P(1, 4) {
		ru.Decls = append(ru.Decls, Decl{Name: pick(r, []string{"margin-top", "margin-left", "padding", "border", "width", "height", "min-height", "max-width", "padding-top"}), Value: pick(r, []string{"0", "10px", "-20px", "auto", "50%", "5px solid", "1000px", "100%"})})
	}
	if r.P(1, 5) {
		ru.Decls = append(ru.Decls, g.decl())
	}
	if r.P(1, 6) {
		ru.Decls = append(ru.Decls, Decl{Name: pick(r, []string{"marks", "bleed", "counter-increment", "counter-reset", "background", "footnote-display"}), Value: pick(r, []string{"crop cross", "10px", "page 2", "c", "red", "auto", "-5px", "block"})})
	}
	for r.P(2, 5) && len(ru.Kids) < 4 {
		mb := &Rule{Prelude: pick(r, []string{"@top-left", "@top-center", "@top-right", "@bottom-left", "@bottom-center", "@bottom-right", "@left-top", "@left-middle", "@left-bottom", "@right-top", "@right-middle", "@right-bottom", "@top-left-corner", "@top-right-corner", "@bottom-left-corner", "@bottom-right-corner", "@footnote"})}
		mb.Decls = append(mb.Decls, Decl{Name: "content", Value: g.contentValue()})
		for r.P(1, 2) && len(mb.Decls) < 5 {
			mb.Decls = append(mb.Decls, g.decl())
		}
		ru.Kids = append(ru.Kids, mb)
	}
	return ru
}

func (g *gen) rule() *Rule {
	r := g.r
	switch r.Intn(30) {
	case 0, 1:
		return g.pageRule()
	case 2:
		inner := &Rule{Prelude: g.selector()}
		inner.Decls = append(inner.Decls, g.decl(), g.decl())
		return &Rule{Prelude: "@media " + pick(r, []string{"print", "screen", "all", "not print", "print and (min-width: 100px)", "(orientation: landscape)", "foo", "print, screen", ""}), Kids: []*Rule{inner}}
	case 3:
		return &Rule{Prelude: "@counter-style " + pick(r, []string{"cs1", "cs2"}), Decls: []Decl{
			{Name: "system", Value: pick(r, []string{"cyclic", "numeric", "alphabetic", "symbolic", "additive", "fixed", "fixed 3", "extends decimal", "extends cs1", "extends cs2", "extends nope"})},
			{Name: pick(r, []string{"symbols", "additive-symbols"}), Value: pick(r, []string{"a b c", "'x'", "'0' '1'", "10 'X', 5 'V', 1 'I'", "1 'a', 0 'z'", "", "url(x.png)", "5 'V', 10 'X'"})},
			{Name: pick(r, []string{"suffix", "prefix", "range", "pad", "fallback", "negative", "speak-as"}), Value: pick(r, []string{"') '", "'('", "1 3", "infinite 5", "auto", "3 '0'", "cs1", "cs2", "decimal", "'-'", "'(' ')'", "0 ''"})},
		}}
	case 4:
		return &Rule{Prelude: "@font-face", Decls: []Decl{
			{Name: "font-family", Value: pick(r, []string{"ff1", "\"my font\"", "Ahem"})},
			{Name: "src", Value: pick(r, []string{"url(data:font/ttf;base64,AAEAAAAK)", "local(Ahem)", "local(\"DejaVu Sans\")", "url(nonexistent.ttf) format(\"truetype\")", "url(data:,)", "local(nope), url(x.woff)"})},
			{Name: pick(r, []string{"font-weight", "font-style", "unicode-range", "font-stretch", "font-feature-settings", "font-variant"}), Value: pick(r, []string{"bold", "italic", "U+0-7F", "U+26", "condensed", "\"liga\"", "normal", "100 900", "U+0025-00FF, u+4??"})},
		}}
	case 5:
		inner := &Rule{Prelude: "& " + g.selector()}
		inner.Decls = append(inner.Decls, g.decl())
		ru := &Rule{Prelude: g.selector(), Decls: []Decl{g.decl()}, Kids: []*Rule{inner}}
		return ru
	case 6:
		return &Rule{Raw: pick(r, []string{"@namespace svg url(http://www.w3.org/2000/svg);", "@charset \"utf-8\";", "@import url(nonexistent.css);", "@import \"data:text/css,p{color:red}\";", "@supports (display:grid) { p { color: red } }", "@layer a;", "@media print { @page { size: 100px } }", "@import url(data:text/css,@import%20url(x.css)) print;"})}
	case 7:
		ru := &Rule{Prelude: pick(r, []string{"body", "html", ":root", "html, body"})}
		for i := 0; i < r.Range(1, 4); i++ {
			ru.Decls = append(ru.Decls, g.decl())
		}
		return ru
	case 8:
		ru := &Rule{Prelude: pick(r, []string{":root", "html", "body", "*"})}
		for i := 0; i < r.Range(1, 3); i++ {
			n := fmt.Sprintf("--v%d", r.Intn(4))
			g.names = append(g.names, n)
			ru.Decls = append(ru.Decls, Decl{Name: n, Value: pick(r, []string{"10px", "red", "block", "left", "1", "auto", "var(--v0)", "var(--v1, 5px)", "var(--v2)", "50%", "2"})})
		}
		return ru
	default:
		ru := &Rule{Prelude: g.selector()}
		for i := 0; i < r.Range(1, 5); i++ {
			ru.Decls = append(ru.Decls, g.decl())
		}
		return ru
	}
}

// GenDoc builds one document from its own sub-generator.
func GenDoc(r *rng.R, gotext bool) *Doc {
	g := &gen{r: r}
	g.rtl = r.P(1, 14)
	d := &Doc{Doctype: r.P(1, 2), Hints: r.P(1, 2), Engine: "pango"}
	if gotext && r.P(1, 10) {
		d.Engine = "gotext"
	}
	d.PreComment = r.P(1, 300)
	nr := r.Range(0, 10)
	for i := 0; i < nr; i++ {
		d.Author = append(d.Author, g.rule())
	}
	if r.P(1, 3) {
		d.Author = append(d.Author, g.pageRule())
	}
	if r.P(1, 4) {
		for i := 0; i < r.Range(1, 3); i++ {
			d.User = append(d.User, g.rule())
		}
	}
	body := &Node{Tag: "body"}
	if r.P(1, 6) {
		g.style(body, 5)
	}
	budget := r.Range(3, 45)
	k := r.Range(1, 7)
	for i := 0; i < k; i++ {
		var kid *Node
		kid, budget = g.node(1, budget)
		body.Kids = append(body.Kids, kid)
	}
	d.Body = body
	// structured scenarios (each needs several cooperating constructs that the soup rarely assembles)
	if r.P(1, 10) {
		g.footnoteScenario(d)
	}
	if r.P(1, 10) {
		g.varCycleScenario(d)
	}
	if r.P(1, 10) {
		g.splitTableScenario(d)
	}
	if r.P(1, 12) {
		g.raggedTableScenario(d)
	}
	if r.P(1, 12) {
		g.counterGraphScenario(d)
	}
	return d
}

// raggedTableScenario: table-layout:fixed with a definite width, whose grid width comes from the
// first row or from <col> elements, and LATER rows that are wider: more cells, colspans crossing
// the edge of the grid followed by further cells, cells entirely beyond the grid.
func (g *gen) raggedTableScenario(d *Doc) {
	r := g.r
	t := &Node{Tag: "table", Style: []Decl{{Name: "table-layout", Value: pick(r, []string{"fixed", "fixed", "fixed", "auto"})}, {Name: "width", Value: pick(r, []string{"200px", "100%", "300px", "50px", "auto"})}}}
	if r.P(1, 3) {
		t.Style = append(t.Style, Decl{Name: "border-collapse", Value: "collapse"})
	}
	if r.P(1, 3) {
		cg := &Node{Tag: "colgroup"}
		for i := 0; i < r.Range(1, 2); i++ {
			cg.Kids = append(cg.Kids, &Node{Tag: "col", Style: []Decl{{Name: "width", Value: pick(r, []string{"50px", "30%", "auto"})}}})
		}
		t.Kids = append(t.Kids, cg)
	}
	cell := func(span string) *Node {
		c := &Node{Tag: pick(r, []string{"td", "td", "th"}), Kids: []*Node{{Text: pick(r, []string{"a", "b", "c", "ab cd"})}}}
		if span != "" {
			c.Attrs = append(c.Attrs, Attr{K: "colspan", V: span})
		}
		if r.P(1, 8) {
			c.Attrs = append(c.Attrs, Attr{K: "rowspan", V: pick(r, []string{"2", "3"})})
		}
		return c
	}
	first := &Node{Tag: "tr"}
	for i := 0; i < r.Range(1, 2); i++ {
		first.Kids = append(first.Kids, cell(""))
	}
	t.Kids = append(t.Kids, first)
	for k := 0; k < r.Range(1, 3); k++ {
		tr := &Node{Tag: "tr"}
		switch r.Intn(4) {
		case 0: // a colspan crossing the edge, then another cell
			tr.Kids = append(tr.Kids, cell(pick(r, []string{"3", "2", "5"})), cell(""))
		case 1: // more cells than the first row
			for i := 0; i < r.Range(3, 5); i++ {
				tr.Kids = append(tr.Kids, cell(""))
			}
		case 2:
			tr.Kids = append(tr.Kids, cell(""), cell(pick(r, []string{"2", "4"})), cell(""), cell(pick(r, []string{"", "2"})))
		default:
			tr.Kids = append(tr.Kids, cell(""))
		}
		t.Kids = append(t.Kids, tr)
	}
	d.Body.Kids = append(d.Body.Kids, t)
}

// counterGraphScenario: @counter-style rules whose `system: extends` references form chains that
// end in a self-loop or a 2-/3-cycle (the used style itself need not be on the cycle), a missing
// style or a real style; used through list-style-type and counter() / counters().
func (g *gen) counterGraphScenario(d *Doc) {
	r := g.r
	names := []string{"ka", "kb", "kc"}
	n := r.Range(1, 3)
	for i := 0; i < n; i++ {
		var target string
		switch r.Intn(5) {
		case 0:
			target = names[i] // self loop
		case 1:
			target = pick(r, []string{"decimal", "missing", "lower-roman"})
		default:
			target = names[(i+1)%n] // closes a cycle on the last one
		}
		ru := &Rule{Prelude: "@counter-style " + names[i], Decls: []Decl{{Name: "system", Value: "extends " + target}}}
		if r.P(1, 3) {
			ru.Decls = append(ru.Decls, Decl{Name: pick(r, []string{"suffix", "prefix", "fallback", "range", "pad"}), Value: pick(r, []string{"') '", "'('", pick(r, names), "1 3", "2 '0'"})})
		}
		d.Author = append(d.Author, ru)
	}
	entry := "kx"
	d.Author = append(d.Author, &Rule{Prelude: "@counter-style kx", Decls: []Decl{{Name: "system", Value: "extends " + names[r.Intn(n)]}}})
	if r.P(1, 3) {
		entry = names[r.Intn(n)]
	}
	switch r.Intn(3) {
	case 0:
		d.Author = append(d.Author, &Rule{Prelude: "li", Decls: []Decl{{Name: "list-style-type", Value: entry}}})
	case 1:
		d.Author = append(d.Author, &Rule{Prelude: "li::before", Decls: []Decl{{Name: "counter-increment", Value: "c"}, {Name: "content", Value: "counter(c, " + entry + ") ' '"}}})
	default:
		d.Author = append(d.Author, &Rule{Prelude: "li::after", Decls: []Decl{{Name: "content", Value: "counters(list-item, '.', " + entry + ")"}}})
	}
	d.Body.Kids = append(d.Body.Kids, &Node{Tag: "ol", Kids: []*Node{{Tag: "li", Kids: []*Node{{Text: "a"}}}, {Tag: "li", Kids: []*Node{{Text: "b"}}}}})
}

func (g *gen) smallPage() *Rule {
	r := g.r
	ru := &Rule{Prelude: "@page", Decls: []Decl{{Name: "size", Value: pick(r, []string{"200px 100px", "200px 100px", "150px 80px", "300px 120px", "100px 100px", "200px 60px"})}, {Name: "margin", Value: pick(r, []string{"0", "0", "5px", "10px 0"})}}}
	return ru
}

// footnoteScenario: float:footnote elements with every footnote-policy / footnote-display, footnote
// bodies from tiny to taller than the page, called from the first line of the document or later,
// on a small page, with or without an @footnote area limited by max-height.
func (g *gen) footnoteScenario(d *Doc) {
	r := g.r
	page := g.smallPage()
	if r.P(1, 2) {
		page.Kids = append(page.Kids, &Rule{Prelude: "@footnote", Decls: []Decl{{Name: pick(r, []string{"max-height", "max-height", "height", "margin-top", "border-top", "padding"}), Value: pick(r, []string{"20px", "40px", "0", "50%", "1px solid", "200px"})}}})
	}
	d.Author = append(d.Author, page,
		&Rule{Prelude: "body", Decls: []Decl{{Name: "margin", Value: "0"}, {Name: "font", Value: pick(r, []string{"20px/1 Ahem", "10px/1 Ahem", "20px/1.5 serif", "40px/1 Ahem"})}}},
		&Rule{Prelude: ".fn", Decls: []Decl{{Name: "float", Value: "footnote"}, {Name: "footnote-policy", Value: pick(r, []string{"auto", "line", "block", "block", "line"})}}})
	if r.P(1, 3) {
		d.Author = append(d.Author, &Rule{Prelude: ".fn", Decls: []Decl{{Name: "footnote-display", Value: pick(r, []string{"block", "inline", "compact"})}}})
	}
	if r.P(1, 4) {
		d.Author = append(d.Author, &Rule{Prelude: pick(r, []string{".fn::footnote-call", ".fn::footnote-marker"}), Decls: []Decl{{Name: "content", Value: pick(r, []string{"counter(footnote)", "'*'", "counter(footnote, lower-roman) '. '", "none"})}}})
	}
	note := func() *Node {
		return &Node{Tag: pick(r, []string{"span", "span", "div", "p"}), Attrs: []Attr{{K: "class", V: "fn"}}, Kids: []*Node{{Text: strings.TrimSpace(strings.Repeat(pick(r, []string{"f ", "note ", "ff ff "}), rng.Pick(r, 1, 3, 28, 60, 12, 28)))}}}
	}
	para := &Node{Tag: "p", Kids: []*Node{{Text: pick(r, []string{"abc", "abc def ghi", ""})}, note(), {Text: " def"}}}
	if r.P(1, 3) {
		para.Kids = append(para.Kids, note(), &Node{Text: " ghi jkl mno"})
	}
	if r.P(2, 3) {
		d.Body.Kids = append([]*Node{para}, d.Body.Kids...) // called from the first line of an empty page
	} else {
		d.Body.Kids = append(d.Body.Kids, para)
	}
}

// varCycleScenario: custom properties referring to one another in cycles of length 1-3 that pass
// through functions (calc, rgb, translate, min, max, counter-less ones) or through var() fallbacks,
// and regular properties that use them (so that the values are resolved).
func (g *gen) varCycleScenario(d *Doc) {
	r := g.r
	names := []string{"--ca", "--cb", "--cc"}
	n := r.Range(1, 3)
	wrap := func(ref string) string {
		switch r.Intn(9) {
		case 0:
			return ref // plain (direct cycles are handled; mixed ones must be too)
		case 1:
			return "calc(" + ref + " + 1px)"
		case 2:
			return "rgb(" + ref + ", 0, 0)"
		case 3:
			return "translate(" + ref + ")"
		case 4:
			return "min(" + ref + ", 10px)"
		case 5:
			return "calc(2 * " + ref + ")"
		case 6:
			return "max(1px, calc(" + ref + " / 2))"
		case 7:
			return "1px " + ref + " solid"
		default:
			return "linear-gradient(" + ref + ", blue)"
		}
	}
	ru := &Rule{Prelude: pick(r, []string{"p", "body", ":root", "*", "div, p, span"})}
	for i := 0; i < n; i++ {
		target := names[(i+1)%n]
		ref := "var(" + target + ")"
		switch r.Intn(4) {
		case 0:
			ref = "var(" + target + ", 2px)"
		case 1:
			ref = "var(--undefined, " + wrap("var("+target+")") + ")" // the cycle passes through a fallback
		}
		ru.Decls = append(ru.Decls, Decl{Name: names[i], Value: wrap(ref)})
	}
	for k := 0; k < r.Range(1, 3); k++ {
		use := "var(" + names[r.Intn(n)] + pick(r, []string{"", ", 3px"}) + ")"
		if r.P(1, 3) {
			use = wrap(use)
		}
		ru.Decls = append(ru.Decls, Decl{Name: pick(r, []string{"width", "margin-left", "color", "transform", "border", "background", "height", "padding-top"}), Value: use})
	}
	if r.P(1, 2) {
		d.Author = append(d.Author, ru)
		d.Body.Kids = append(d.Body.Kids, &Node{Tag: "p", Kids: []*Node{{Text: "x"}}})
	} else { // in a style attribute
		d.Body.Kids = append(d.Body.Kids, &Node{Tag: "p", Style: ru.Decls, Kids: []*Node{{Text: "x"}}})
	}
}

// splitTableScenario: a table long enough to be split over 2-4 small pages, border-collapse
// collapse or separate, with a (repeated) thead and / or tfoot, drawn through render.Full.
func (g *gen) splitTableScenario(d *Doc) {
	r := g.r
	d.Author = append(d.Author, g.smallPage(),
		&Rule{Prelude: "body", Decls: []Decl{{Name: "margin", Value: "0"}, {Name: "font", Value: pick(r, []string{"20px/1 Ahem", "10px/1 Ahem", "16px/1 serif"})}}},
		&Rule{Prelude: "table.st", Decls: []Decl{{Name: "border-collapse", Value: pick(r, []string{"collapse", "collapse", "collapse", "separate"})}}},
		&Rule{Prelude: ".st td, .st th", Decls: []Decl{{Name: "border", Value: pick(r, []string{"2px solid red", "1px solid", "4px double blue", "2px dashed", "0"})}}})
	if r.P(1, 4) {
		d.Author = append(d.Author, &Rule{Prelude: pick(r, []string{".st thead", ".st tr", ".st tbody", ".st"}), Decls: []Decl{{Name: pick(r, []string{"border", "border-bottom", "break-inside", "break-after"}), Value: pick(r, []string{"3px solid green", "hidden", "avoid", "page", "auto"})}}})
	}
	row := func(tag string, cells int) *Node {
		tr := &Node{Tag: "tr"}
		for i := 0; i < cells; i++ {
			tr.Kids = append(tr.Kids, &Node{Tag: tag, Kids: []*Node{{Text: pick(r, []string{"a", "b", "ab", "x y"})}}})
		}
		return tr
	}
	cols := r.Range(1, 3)
	t := &Node{Tag: "table", Attrs: []Attr{{K: "class", V: "st"}}}
	if r.P(3, 4) {
		h := &Node{Tag: "thead"}
		for i := 0; i < r.Range(1, 2); i++ {
			h.Kids = append(h.Kids, row("th", cols))
		}
		t.Kids = append(t.Kids, h)
	}
	if r.P(1, 3) {
		t.Kids = append(t.Kids, &Node{Tag: "tfoot", Kids: []*Node{row("th", cols)}})
	}
	groups := r.Range(1, 2)
	for gi := 0; gi < groups; gi++ {
		b := &Node{Tag: "tbody"}
		for i := 0; i < r.Range(3, 14); i++ {
			b.Kids = append(b.Kids, row("td", cols))
		}
		t.Kids = append(t.Kids, b)
	}
	if r.P(1, 2) {
		d.Body.Kids = append([]*Node{t}, d.Body.Kids...)
	} else {
		d.Body.Kids = append(d.Body.Kids, t)
	}
}
