// Package c16: correspondence and judge runs for property C16 (boxes are painted in CSS stacking order).
//
// Documents of <= 9 nested/sibling block boxes with unique background colours, unique border colours and
// unique texts, with position / float / z-index / opacity / transform / overflow assignments, are rendered by
// the real pipeline; the sequence of fills (background, border) and DrawText calls reaching the backend is
// mapped back to (box, layer) events and compared with
//   - the Lean model of stacking.go + drawStackingContext run on the IMPLEMENTATION's laid-out tree   [corr]
//   - the Lean spec of CSS 2.1 Appendix E run on the same tree                                        [judge]
package c16

import (
	"encoding/json"
	"fmt"
	"math"
	"os"
	"path/filepath"
	"sort"
	"strings"
	"time"

	bo "github.com/benoitkugler/webrender/html/boxes"
	"github.com/benoitkugler/webrender/html/layout"
	"github.com/benoitkugler/webrender/text"

	"wrverif/mp"
	"wrverif/render"
	"wrverif/res"
	"wrverif/rng"
	"wrverif/sx"
)

type node struct {
	id       int
	pos      string // static relative absolute
	z        string // auto or integer
	float    bool
	ctx      string // "", opacity, transform, overflow
	children []*node
}

func genTree(r *rng.R, budget *int, depth int) *node {
	*budget--
	n := &node{id: 0}
	n.pos = rng.Pick(r, "static", "static", "static", "relative", "relative", "absolute")
	n.z = rng.Pick(r, "auto", "auto", "auto", "-2", "-1", "0", "1", "1", "2")
	n.float = r.P(1, 6)
	n.ctx = rng.Pick(r, "", "", "", "", "", "opacity", "transform", "overflow")
	if depth < 3 {
		for k := r.Range(0, 3); k > 0 && *budget > 0; k-- {
			n.children = append(n.children, genTree(r, budget, depth+1))
		}
	}
	return n
}

func number(n *node, next *int) {
	*next++
	n.id = *next
	for _, c := range n.children {
		number(c, next)
	}
}

func bgCol(id int) string { return fmt.Sprintf("#%02x64c8", id) }
func bdCol(id int) string { return fmt.Sprintf("#%02xc864", id) }

func (n *node) html(b *strings.Builder) {
	fmt.Fprintf(b, `<div id="b%d" style="background:%s;border:2px solid %s;margin:2px;min-height:6px;`, n.id, bgCol(n.id), bdCol(n.id))
	if n.pos != "static" {
		fmt.Fprintf(b, "position:%s;left:%dpx;top:%dpx;", n.pos, 3+n.id, 2+n.id)
		if n.pos == "absolute" {
			b.WriteString("width:60px;")
		}
	}
	if n.z != "auto" {
		fmt.Fprintf(b, "z-index:%s;", n.z)
	}
	if n.float {
		b.WriteString("float:left;width:50px;")
	}
	switch n.ctx {
	case "opacity":
		b.WriteString("opacity:0.5;")
	case "transform":
		b.WriteString("transform:translate(1px,2px);")
	case "overflow":
		b.WriteString("overflow:hidden;")
	}
	b.WriteString(`">`)
	if len(n.children) == 0 {
		fmt.Fprintf(b, "t%d", n.id)
	}
	for _, c := range n.children {
		c.html(b)
	}
	b.WriteString("</div>")
}

func count(n *node) int {
	k := 1
	for _, c := range n.children {
		k += count(c)
	}
	return k
}

func features(n *node, f map[string]bool) {
	if n.pos != "static" && n.z != "auto" {
		f["z-context"] = true
		if strings.HasPrefix(n.z, "-") {
			f["negative-z"] = true
		}
	}
	if n.pos != "static" && n.z == "auto" {
		f["positioned-auto"] = true
	}
	if n.pos == "static" && n.z != "auto" {
		f["z-on-static"] = true
	}
	if n.float {
		f["float"] = true
	}
	if n.ctx != "" {
		f["ctx:"+n.ctx] = true
		if n.z != "auto" && n.pos == "static" {
			f["z-on-static-context"] = true
		}
	}
	for _, c := range n.children {
		features(c, f)
	}
}

// abstract builds the model's input from the IMPLEMENTATION's laid-out box.
func abstract(b bo.Box) sx.X {
	if ap, ok := b.(*layout.AbsolutePlaceholder); ok {
		b = ap.AliasBox
	}
	f := b.Box()
	id := 0
	if f.Element != nil && f.PseudoType == "" {
		for _, a := range f.Element.Attr {
			if a.Key == "id" && strings.HasPrefix(a.Val, "b") {
				fmt.Sscan(a.Val[1:], &id)
			}
		}
	}
	st := f.Style
	z := sx.A("auto")
	if zi := st.GetZIndex(); zi.String != "auto" {
		z = sx.I(zi.Int)
	}
	ctx := st.GetOpacity() < 1 || len(st.GetTransform()) != 0 || st.GetOverflow() != "visible"
	hasLines := false
	if n := len(f.Children); n > 0 {
		hasLines = bo.LineT.IsInstance(f.Children[n-1])
	}
	var ch []sx.X
	if bo.ParentT.IsInstance(b) && !hasLines {
		for _, c := range f.Children {
			ch = append(ch, abstract(c))
		}
	}
	return sx.L(sx.A("b"), sx.I(id), sx.B(st.GetPosition().String != "static"), z, sx.B(f.IsFloated()), sx.B(ctx),
		sx.B(bo.BlockLevelT.IsInstance(b)), sx.B(bo.InlineBlockT.IsInstance(b) || bo.InlineFlexT.IsInstance(b)), sx.B(hasLines), sx.L(ch...))
}

// implOrder maps the fills and texts reaching the backend back to (box, layer) events.
func implOrder(rec *render.Rec) []string {
	var out []string
	last := [3]int{-1, -1, -1}
	for _, e := range rec.Events {
		switch e.Op {
		case "SetColorRgba":
			if e.S == "fill" && len(e.F) == 4 {
				last = [3]int{int(math.Round(e.F[0] * 255)), int(math.Round(e.F[1] * 255)), int(math.Round(e.F[2] * 255))}
			}
		case "Paint":
			if strings.Contains(e.S, "fill") {
				if last[1] == 0x64 && last[2] == 0xc8 {
					out = append(out, fmt.Sprintf("(%d bg)", last[0]))
				} else if last[1] == 0xc8 && last[2] == 0x64 {
					out = append(out, fmt.Sprintf("(%d bd)", last[0]))
				}
			}
		case "DrawText":
			s := strings.TrimSpace(e.S)
			var id int
			if _, err := fmt.Sscanf(s, "t%d", &id); err == nil {
				out = append(out, fmt.Sprintf("(%d tx)", id))
			}
		}
	}
	return out
}

// keep only the events the implementation can show for generated boxes (no outline, no anonymous box)
func filterEvs(x sx.X) []string {
	var out []string
	for _, e := range x.Xs {
		if e.Xs[0].S == "0" || e.Xs[1].S == "ol" {
			continue
		}
		out = append(out, e.String())
	}
	return out
}

// Run is the runner entry.
func Run(tier string, seed uint64, modelPath, repo string, out *res.Result) error {
	m, err := mp.Start(modelPath)
	if err != nil {
		return err
	}
	defer m.Close()
	r := rng.New(seed)
	n := 10000
	if tier == "thorough" {
		n = 150000
	}
	if tier == "smoke" {
		n = 300
	}
	out.Rule = "random trees of <=9 block boxes (depth<=4) x position{static,relative,absolute} x z-index{auto,-2,-1,0,1,1,2} x float x {opacity,transform,overflow}, unique background/border colours and texts; " +
		"the order of fills and DrawText calls is compared with the Lean model of stacking.go run on the implementation's laid-out tree (corr) and with the Lean Appendix E spec (judge); corpus cases first; " +
		"non-trivial = at least one box makes a stacking context, is positioned or floats; distinct by document text"
	render.Quiet()
	fonts, err := render.NewFonts(repo)
	if err != nil {
		return err
	}
	crashes := map[string]int{}
	// corpus: minimised past failures, replayed first
	if exe, err := os.Executable(); err == nil {
		files, _ := filepath.Glob(filepath.Join(filepath.Dir(filepath.Dir(exe)), "corpus", "C16", "*.json"))
		sort.Strings(files)
		for _, fn := range files {
			var c struct{ Name, What, HTML string }
			data, err := os.ReadFile(fn)
			if err != nil || json.Unmarshal(data, &c) != nil || c.HTML == "" {
				return fmt.Errorf("corpus file %s: unreadable or empty", fn)
			}
			if err := one(m, c.HTML, 0, fonts, out, crashes, &node{}); err != nil {
				return err
			}
			out.Hit("corpus")
		}
		out.Notes = append(out.Notes, fmt.Sprintf("corpus: %d minimised past failures replayed first", len(files)))
	}
	for i := 0; i < n; i++ {
		cr := r.Sub()
		caseSeed := cr.Seed()
		budget := cr.Range(1, 8)
		root := &node{pos: "static", z: "auto"}
		for k := cr.Range(1, 3); k > 0 && budget > 0; k-- {
			root.children = append(root.children, genTree(cr, &budget, 1))
		}
		next := 0
		for _, c := range root.children {
			number(c, &next)
		}
		var b strings.Builder
		b.WriteString(`<style>@page{size:400px 600px;margin:10px}html,body{margin:0;font-size:8px}</style><body>`)
		for _, c := range root.children {
			c.html(&b)
		}
		src := b.String()
		if err := one(m, src, caseSeed, fonts, out, crashes, root); err != nil {
			return err
		}
		if i < 2 {
			out.Sample(map[string]interface{}{"html": src, "seed": caseSeed})
		}
	}
	for s, k := range crashes {
		out.Notes = append(out.Notes, fmt.Sprintf("crash-skipped (belongs to C01): %dx at %s", k, s))
	}
	out.ModelCalls = m.N
	return nil
}

func one(m *mp.Model, src string, caseSeed uint64, fonts text.FontConfiguration, out *res.Result, crashes map[string]int, root *node) error {
	var doc *render.Doc
	var rerr error
	oc := render.Guard(10*time.Second, func() { doc, rerr = render.Full(src, fonts, render.Opts{}) })
	if oc.Timeout {
		oc = render.Guard(45*time.Second, func() { doc, rerr = render.Full(src, fonts, render.Opts{}) })
	}
	if !oc.OK() || rerr != nil {
		out.Hit("crash-skipped")
		site := oc.Site
		if oc.Timeout {
			site = "timeout"
		}
		if crashes[site] == 0 {
			out.Notes = append(out.Notes, fmt.Sprintf("crash example at %s: %s %s", site, oc.Panic, src))
		}
		crashes[site]++
		return nil
	}
	f := map[string]bool{}
	nb := 0
	for _, c := range root.children {
		features(c, f)
		nb += count(c)
	}
	out.Count(src, len(f) > 0)
	out.Hit(fmt.Sprintf("boxes=%d", nb))
	for k := range f {
		out.Hit(k)
	}
	if len(doc.Pages) != 1 || len(doc.Pages[0].Children) == 0 {
		out.Hit("skipped:pages")
		return nil
	}
	// the root element's box
	tree := abstract(doc.Pages[0].Children[0])
	ans, err := m.Ask(sx.L(sx.A("order"), tree))
	if err != nil {
		return err
	}
	if ans.Head() != "ok" {
		return fmt.Errorf("model: %s on %s", ans, tree)
	}
	impl := strings.Join(implOrder(doc.Rec), " ")
	model := strings.Join(filterEvs(ans.Xs[1]), " ")
	spec := strings.Join(filterEvs(ans.Xs[2]), " ")
	key := ""
	if model != spec {
		// cannot happen if the driver runs the proved definitions (WR.Props.C16.paint_order_respects_E)
		out.Add(res.Finding{Kind: "corr", Op: "corr:model-vs-spec", Input: src, Impl: model, Model: spec, Reason: "the model of stacking.go and the Appendix E spec differ on the tree " + tree.String(), Seed: caseSeed})
	}
	if impl != spec {
		out.Add(res.Finding{Kind: "judge", Op: "judge:paint-order", Input: src, Impl: impl, Model: spec, Reason: "the order of paints differs from CSS 2.1 Appendix E; laid-out tree: " + tree.String(), Key: key, Seed: caseSeed})
	}
	if impl != model {
		out.Add(res.Finding{Kind: "corr", Op: "corr:paint-order", Input: src, Impl: impl, Model: model, Reason: "differs from the model of stacking.go; laid-out tree: " + tree.String(), Key: key, Seed: caseSeed})
	}
	return nil
}

