// Package c16: correspondence and judge runs for property C16 (boxes are painted in CSS stacking order).
//
// Documents of <= 9 nested/sibling block boxes with unique background colours, unique border colours and
// unique texts, with position / float / z-index / opacity / transform / overflow assignments, are rendered by
// the real pipeline; the sequence of fills (background, border) and DrawText calls reaching the backend is
// mapped back to (box, layer) events and compared with
//   - the Lean model of stacking.go + drawStackingContext run on the IMPLEMENTATION's laid-out tree   [corr]
//   - the Lean spec of CSS 2.1 Appendix E run on the same tree                                        [judge]
package c16

import (
	"encoding/json"
	"fmt"
	"math"
	"os"
	"path/filepath"
	"sort"
	"strings"
	"time"

	bo "github.com/benoitkugler/webrender/html/boxes"
	"github.com/benoitkugler/webrender/html/layout"
	"github.com/benoitkugler/webrender/text"

	"wrverif/mp"
	"wrverif/render"
	"wrverif/res"
	"wrverif/rng"
	"wrverif/sx"
)

type node struct {
	id         int
	pos        string // static relative absolute
	z          string // auto or integer
	float      bool
	op, tr, ov bool // opacity, transform, overflow hidden
	outline    bool
	children   []*node
	// inline content of a box without block children: text runs, inline-blocks, floats inside the line, spans
	kind  string // "" (block) | "text" | "iblock" | "ifloat" | "span"
	items []*node
}

// genItems: the inline content of a leaf box
func genItems(r *rng.R, budget *int, depth int) []*node {
	var out []*node
	n := 1
	if r.P(1, 3) {
		n = r.Range(2, 4)
	}
	for i := 0; i < n; i++ {
		k := "text"
		if i > 0 || r.P(1, 4) {
			k = rng.Pick(r, "text", "text", "iblock", "iblock", "ifloat", "span")
		}
		if k != "text" && (*budget <= 0 || depth >= 4) {
			k = "text"
		}
		if k == "text" && len(out) > 0 && out[len(out)-1].kind == "text" {
			continue // adjacent text runs would merge into one text box
		}
		it := &node{kind: k, pos: "static", z: "auto"}
		if k != "text" {
			*budget--
			it.outline = r.P(1, 3)
			if r.P(1, 4) {
				it.pos = "relative"
				it.z = rng.Pick(r, "auto", "auto", "-1", "0", "1")
			}
			if k == "iblock" && r.P(1, 5) {
				switch r.Intn(3) {
				case 0:
					it.op = true
				case 1:
					it.tr = true
				default:
					it.ov = true
				}
			}
			it.items = genItems(r, budget, depth+1)
		}
		out = append(out, it)
	}
	return out
}

func genTree(r *rng.R, budget *int, depth int) *node {
	*budget--
	n := &node{id: 0}
	n.pos = rng.Pick(r, "static", "static", "static", "relative", "relative", "absolute")
	n.z = rng.Pick(r, "auto", "auto", "auto", "-2", "-1", "0", "1", "1", "2")
	n.float = r.P(1, 6)
	switch r.Intn(10) {
	case 0:
		n.op = true
	case 1:
		n.tr = true
	case 2:
		n.ov = true
	case 3:
		n.op, n.tr, n.ov = r.Bool(), r.Bool(), r.Bool()
	}
	n.outline = r.P(1, 2)
	if depth < 3 {
		for k := r.Range(0, 3); k > 0 && *budget > 0; k-- {
			if r.P(1, 6) {
				n.children = append(n.children, genTable(r, budget, depth+1))
			} else {
				n.children = append(n.children, genTree(r, budget, depth+1))
			}
		}
	}
	if len(n.children) == 0 {
		n.items = genItems(r, budget, depth+1)
	}
	return n
}

// genTable: a table (rows of cells with unique background / border colours); a cell holds inline content or
// blocks.  The boxes that follow the table in the same context have their text painted after the cells' text.
func genTable(r *rng.R, budget *int, depth int) *node {
	*budget--
	t := &node{kind: "table", pos: "static", z: "auto"}
	for i, rows := 0, r.Range(1, 2); i < rows; i++ {
		row := &node{kind: "row", pos: "static", z: "auto"}
		for j, cells := 0, r.Range(1, 3); j < cells; j++ {
			*budget--
			c := &node{kind: "cell", pos: "static", z: "auto", outline: r.P(1, 4)}
			if depth < 3 && *budget > 0 && r.P(1, 4) {
				c.children = append(c.children, genTree(r, budget, depth+1))
			} else {
				c.items = genItems(r, budget, depth+1)
			}
			row.children = append(row.children, c)
		}
		t.children = append(t.children, row)
	}
	return t
}

// genWide: 13-40 sibling stacking contexts with tied, unsorted z-index values (sort stability), some with a
// child, under an optional common parent that is itself a context.
func genWide(r *rng.R) []*node {
	n := r.Range(13, 40)
	zs := rng.Pick(r, []string{"1", "2"}, []string{"-1", "-2", "1", "2"}, []string{"-1", "-2"}, []string{"1", "2", "3", "0", "auto"}, []string{"-3", "-1", "2", "2", "5"})
	var sibs []*node
	for i := 0; i < n; i++ {
		c := &node{pos: rng.Pick(r, "absolute", "relative"), z: zs[r.Intn(len(zs))], outline: r.P(1, 4)}
		if r.P(1, 10) {
			c.children = []*node{{pos: "static", z: "auto"}}
		}
		sibs = append(sibs, c)
	}
	if r.P(1, 3) {
		return []*node{{pos: "relative", z: "0", op: r.P(1, 3), children: sibs}}
	}
	return sibs
}

func number(n *node, next *int) {
	*next++
	n.id = *next
	for _, c := range n.children {
		number(c, next)
	}
	for _, c := range n.items {
		number(c, next)
	}
}

// itemHTML: one inline-level item
func (n *node) itemHTML(b *strings.Builder) {
	if n.kind == "text" {
		fmt.Fprintf(b, "t%d ", n.id)
		return
	}
	fmt.Fprintf(b, `<span id="b%d" style="`, n.id)
	switch n.kind {
	case "iblock":
		fmt.Fprintf(b, "display:inline-block;background:%s;border:2px solid %s;", bgCol(n.id), bdCol(n.id))
	case "ifloat":
		fmt.Fprintf(b, "float:left;width:40px;background:%s;border:2px solid %s;", bgCol(n.id), bdCol(n.id))
	}
	if n.pos != "static" {
		fmt.Fprintf(b, "position:%s;left:%dpx;top:%dpx;", n.pos, 1+n.id%5, 1+n.id%3)
	}
	if n.z != "auto" {
		fmt.Fprintf(b, "z-index:%s;", n.z)
	}
	if n.op {
		fmt.Fprintf(b, "opacity:%s;", n.opacity())
	}
	if n.tr {
		fmt.Fprintf(b, "transform:translate(%dpx,0);", 100+n.id)
	}
	if n.ov {
		b.WriteString("overflow:hidden;")
	}
	if n.outline {
		fmt.Fprintf(b, "outline:1px solid %s;", olCol(n.id))
	}
	b.WriteString(`">`)
	for _, c := range n.items {
		c.itemHTML(b)
	}
	b.WriteString("</span> ")
}

// opacity: the generated value, chosen from the box id (0, a tiny value, 0.5, 0.999 make a group; 1 makes none)
func (n *node) opacity() string {
	return []string{"0.5", "0", "0.999", "0.001", "0.5", "1", "0", "0.25"}[n.id%8]
}

func bgCol(id int) string { return fmt.Sprintf("#%02x64c8", id) }
func bdCol(id int) string { return fmt.Sprintf("#%02xc864", id) }
func olCol(id int) string { return fmt.Sprintf("#%02x32fa", id) }

func (n *node) html(b *strings.Builder) {
	switch n.kind {
	case "table":
		// a negative top margin makes the table overlap what precedes it (irrelevant for the order of the calls)
		fmt.Fprintf(b, `<table id="b%d" style="border-collapse:separate;border-spacing:1px;margin-top:-%dpx">`, n.id, n.id%4)
		for _, c := range n.children {
			c.html(b)
		}
		b.WriteString("</table>")
		return
	case "row":
		fmt.Fprintf(b, `<tr id="b%d">`, n.id)
		for _, c := range n.children {
			c.html(b)
		}
		b.WriteString("</tr>")
		return
	case "cell":
		fmt.Fprintf(b, `<td id="b%d" style="background:%s;border:2px solid %s;`, n.id, bgCol(n.id), bdCol(n.id))
		if n.outline {
			fmt.Fprintf(b, "outline:1px solid %s;", olCol(n.id))
		}
		b.WriteString(`">`)
		for _, c := range n.items {
			c.itemHTML(b)
		}
		for _, c := range n.children {
			c.html(b)
		}
		b.WriteString("</td>")
		return
	}
	fmt.Fprintf(b, `<div id="b%d" style="background:%s;border:2px solid %s;margin:2px;min-height:6px;`, n.id, bgCol(n.id), bdCol(n.id))
	if n.pos != "static" {
		fmt.Fprintf(b, "position:%s;left:%dpx;top:%dpx;", n.pos, 3+n.id, 2+n.id)
		if n.pos == "absolute" {
			b.WriteString("width:60px;")
		}
	}
	if n.z != "auto" {
		fmt.Fprintf(b, "z-index:%s;", n.z)
	}
	if n.float {
		b.WriteString("float:left;width:50px;")
	}
	if n.op {
		fmt.Fprintf(b, "opacity:%s;", n.opacity())
	}
	if n.tr {
		// a translation that identifies the box in the trace
		fmt.Fprintf(b, "transform:translate(%dpx,0);", 100+n.id)
	}
	if n.ov {
		b.WriteString("overflow:hidden;")
	}
	if n.outline {
		fmt.Fprintf(b, "outline:1px solid %s;", olCol(n.id))
	}
	b.WriteString(`">`)
	if len(n.children) == 0 {
		if len(n.items) == 0 {
			fmt.Fprintf(b, "t%d", 1000+n.id) // the text run is a box of its own
		}
		for _, c := range n.items {
			c.itemHTML(b)
		}
	}
	for _, c := range n.children {
		c.html(b)
	}
	b.WriteString("</div>")
}

func count(n *node) int {
	k := 1
	for _, c := range n.children {
		k += count(c)
	}
	for _, c := range n.items {
		if c.kind != "text" {
			k += count(c)
		}
	}
	return k
}

func features(n *node, f map[string]bool) {
	switch n.kind {
	case "table":
		f["table"] = true
	case "cell":
		if len(n.children) > 0 {
			f["cell-with-blocks"] = true
		}
	case "iblock":
		f["inline-block"] = true
	case "ifloat":
		f["float-in-inline"] = true
	case "span":
		f["span"] = true
		if n.pos != "static" {
			f["positioned-span"] = true
		}
	}
	if len(n.items) > 1 {
		f["mixed-inline-content"] = true
	}
	for _, c := range n.items {
		features(c, f)
	}
	if n.pos != "static" && n.z != "auto" {
		f["z-context"] = true
		if strings.HasPrefix(n.z, "-") {
			f["negative-z"] = true
		}
	}
	if n.pos != "static" && n.z == "auto" {
		f["positioned-auto"] = true
	}
	if n.pos == "static" && n.z != "auto" {
		f["z-on-static"] = true
	}
	if n.float {
		f["float"] = true
	}
	if n.op {
		f["opacity"] = true
		f["opacity="+n.opacity()] = true
	}
	if n.tr {
		f["transform"] = true
	}
	if n.ov {
		f["overflow"] = true
	}
	if n.outline {
		f["outline"] = true
		if n.op || n.tr || n.ov {
			f["outline-on-group-box"] = true
		}
	}
	if (n.op || n.tr || n.ov) && n.z != "auto" && n.pos == "static" {
		f["z-on-static-context"] = true
	}
	for _, c := range n.children {
		features(c, f)
	}
}

// abstract builds the model's input from the IMPLEMENTATION's laid-out box.
func abstract(b bo.Box, parentEl interface{}) sx.X {
	if ap, ok := b.(*layout.AbsolutePlaceholder); ok {
		b = ap.AliasBox
	}
	f := b.Box()
	id := 0
	tb, isText := b.(*bo.TextBox)
	switch {
	case isText:
		// a text run is identified by its token
		fmt.Sscanf(strings.TrimSpace(tb.TextS()), "t%d", &id)
	case bo.LineT.IsInstance(b) || (f.Element != nil && interface{}(f.Element) == parentEl):
		// anonymous: line boxes, anonymous block / inline boxes carry their parent's element
	case f.Element != nil && f.PseudoType == "":
		for _, a := range f.Element.Attr {
			if a.Key == "id" && strings.HasPrefix(a.Val, "b") {
				fmt.Sscan(a.Val[1:], &id)
			}
		}
	}
	st := f.Style
	z := sx.A("auto")
	if zi := st.GetZIndex(); zi.String != "auto" {
		z = sx.I(zi.Int)
	}
	// the box paints the inline drawing of its children as its own content: block container of line boxes
	// (drawStackingContext step 7) or inline box (step 6)
	hasLines := bo.InlineT.IsInstance(b)
	if n := len(f.Children); n > 0 && bo.LineT.IsInstance(f.Children[n-1]) {
		hasLines = true
	}
	_, isTable := b.(bo.TableBoxITF)
	var ch []sx.X
	if bo.ParentT.IsInstance(b) {
		for _, c := range f.Children {
			ch = append(ch, abstract(c, interface{}(f.Element)))
		}
	}
	return sx.L(sx.A("b"), sx.I(id), sx.B(st.GetPosition().String != "static"), z, sx.B(f.IsFloated()),
		sx.B(st.GetOpacity() < 1), sx.B(len(st.GetTransform()) != 0), sx.B(st.GetOverflow() != "visible"),
		sx.B(bo.BlockLevelT.IsInstance(b)), sx.B(bo.InlineBlockT.IsInstance(b) || bo.InlineFlexT.IsInstance(b) || bo.InlineGridT.IsInstance(b)),
		sx.B(hasLines), sx.B(isText), sx.B(bo.TableCellT.IsInstance(b)), sx.B(isTable), sx.L(ch...))
}

// implOrder maps what reaches the backend back to (box, layer) events:
//   fills with a box's background / border / outline colour (the four sides of an outline count once), DrawText;
//   NewGroup … DrawWithOpacity = group open / close of the box whose background is the first paint on the group;
//   a Transform translate(100+id, 0) = transform open, closed by the Restore of its OnNewStack (or, on a group
//   canvas, when the group is composited);
//   a non-zero Clip that is the first call after its path in an OnNewStack and does not introduce a background
//   colour (Save, SetColorRgba) = overflow clip of the box whose border was just painted, closed by the Restore.
func implOrder(rec *render.Rec) []string {
	var out []string
	type frame struct {
		closes     []string
		sawNonPath bool
	}
	stacks := map[int][]*frame{}
	groupIdx := map[int]int{}        // group canvas -> index in out of its "go" placeholder
	groupID := map[int]int{}         // group canvas -> box id
	groupCloses := map[int][]string{} // closes pending at depth 0 of a group canvas
	lastFill := map[int][3]int{}
	olFills := map[int]int{}
	lastID := 0
	top := func(c int) *frame {
		if st := stacks[c]; len(st) > 0 {
			return st[len(st)-1]
		}
		return nil
	}
	nextOn := func(i, c int) (int, *render.Ev) {
		for j := i + 1; j < len(rec.Events); j++ {
			if rec.Events[j].Canvas == c {
				return j, &rec.Events[j]
			}
		}
		return -1, nil
	}
	paint := func(c, id int, layer string) {
		if layer == "bg" {
			if _, isGroup := groupIdx[c]; isGroup {
				if _, known := groupID[c]; !known {
					groupID[c] = id
					out[groupIdx[c]] = fmt.Sprintf("(%d go)", id)
				}
			}
		}
		ev := fmt.Sprintf("(%d %s)", id, layer)
		if layer == "ol" {
			// an outline is four fills (one per side): the first of each four counts (a span split over two
			// lines is two boxes, hence two outlines)
			olFills[id]++
			if olFills[id]%4 != 1 {
				return
			}
		}
		out = append(out, ev)
		lastID = id
	}
	for i, e := range rec.Events {
		c := e.Canvas
		isPath := e.Op == "Rectangle" || e.Op == "MoveTo" || e.Op == "LineTo" || e.Op == "CubicTo" || e.Op == "ClosePath"
		switch e.Op {
		case "Save":
			if f := top(c); f != nil {
				f.sawNonPath = true
			}
			stacks[c] = append(stacks[c], &frame{})
			continue
		case "Restore":
			if st := stacks[c]; len(st) > 0 {
				f := st[len(st)-1]
				stacks[c] = st[:len(st)-1]
				for k := len(f.closes) - 1; k >= 0; k-- {
					out = append(out, f.closes[k])
				}
			}
			continue
		case "NewGroup":
			groupIdx[e.Ref] = len(out)
			out = append(out, "(? go)")
		case "DrawWithOpacity":
			cl := groupCloses[e.Ref]
			for k := len(cl) - 1; k >= 0; k-- {
				out = append(out, cl[k])
			}
			out = append(out, fmt.Sprintf("(%d gc)", groupID[e.Ref]))
		case "Transform":
			if len(e.F) == 6 && e.F[0] == 1 && e.F[1] == 0 && e.F[2] == 0 && e.F[3] == 1 && math.Abs(e.F[5]) < 0.01 &&
				e.F[4] > 100.5 && math.Abs(e.F[4]-math.Round(e.F[4])) < 0.01 {
				id := int(math.Round(e.F[4])) - 100
				out = append(out, fmt.Sprintf("(%d to)", id))
				if f := top(c); f != nil {
					f.closes = append(f.closes, fmt.Sprintf("(%d tc)", id))
				} else {
					groupCloses[c] = append(groupCloses[c], fmt.Sprintf("(%d tc)", id))
				}
			}
		case "Clip":
			if f := top(c); e.S == "nonzero" && f != nil && !f.sawNonPath {
				j, n1 := nextOn(i, c)
				bgClip := false
				if n1 != nil && n1.Op == "Save" {
					if _, n2 := nextOn(j, c); n2 != nil && n2.Op == "SetColorRgba" {
						bgClip = true
					}
				}
				if !bgClip {
					out = append(out, fmt.Sprintf("(%d co)", lastID))
					f.closes = append(f.closes, fmt.Sprintf("(%d cc)", lastID))
				}
			}
		case "SetColorRgba":
			if e.S == "fill" && len(e.F) == 4 {
				lastFill[c] = [3]int{int(math.Round(e.F[0] * 255)), int(math.Round(e.F[1] * 255)), int(math.Round(e.F[2] * 255))}
			}
		case "Paint":
			if strings.Contains(e.S, "fill") {
				l := lastFill[c]
				switch {
				case l[1] == 0x64 && l[2] == 0xc8:
					paint(c, l[0], "bg")
				case l[1] == 0xc8 && l[2] == 0x64:
					paint(c, l[0], "bd")
				case l[1] == 0x32 && l[2] == 0xfa:
					paint(c, l[0], "ol")
				}
			}
		case "DrawText":
			var id int
			if _, err := fmt.Sscanf(strings.TrimSpace(e.S), "t%d", &id); err == nil {
				paint(c, id, "tx")
			}
		}
		if !isPath {
			if f := top(c); f != nil {
				f.sawNonPath = true
			}
		}
	}
	return out
}

// keep only the events the implementation can show for generated boxes (no outline, no anonymous box)
func filterEvs(x sx.X, outlined map[string]bool) []string {
	var out []string
	for _, e := range x.Xs {
		if e.Xs[0].S == "0" || (e.Xs[1].S == "ol" && !outlined[e.Xs[0].S]) ||
			((e.Xs[1].S == "bg" || e.Xs[1].S == "bd") && !outlined["bg"+e.Xs[0].S] && e.Xs[0].S != "253" && e.Xs[0].S != "254") {
			continue // nothing visible to compare: no outline / no background and border (table wrapper, rows)
		}
		out = append(out, e.String())
	}
	return out
}

// ids (as text) of the laid-out boxes that have an outline
func outlinedBoxes(b bo.Box, acc map[string]bool) {
	if ap, ok := b.(*layout.AbsolutePlaceholder); ok {
		b = ap.AliasBox
	}
	f := b.Box()
	if f.Element != nil && f.PseudoType == "" {
		for _, a := range f.Element.Attr {
			if a.Key == "id" && strings.HasPrefix(a.Val, "b") {
				if f.Style.GetOutlineWidth().Value != 0 && f.Style.GetOutlineStyle() != "none" {
					acc[a.Val[1:]] = true
				}
				if f.Background != nil && f.BorderTopWidth.V() != 0 {
					acc["bg"+a.Val[1:]] = true // the box has the generated background and border
				}
			}
		}
	}
	if bo.ParentT.IsInstance(b) {
		for _, c := range f.Children {
			outlinedBoxes(c, acc)
		}
	}
}

// Run is the runner entry.
func Run(tier string, seed uint64, modelPath, repo string, out *res.Result) error {
	m, err := mp.Start(modelPath)
	if err != nil {
		return err
	}
	defer m.Close()
	r := rng.New(seed)
	n := 10000
	if tier == "thorough" {
		n = 150000
	}
	if tier == "smoke" {
		n = 300
	}
	out.Rule = "5/6 random trees of <=9 block boxes (depth<=4) x position{static,relative,absolute} x z-index{auto,-2,-1,0,1,1,2} x float x subsets of {opacity,transform,overflow} x outline, tables (rows of coloured cells holding inline content or blocks) among the blocks, opacity in {0, 0.001, 0.25, 0.5, 0.999, 1}, leaf boxes with inline content (text runs, inline-blocks, floats inside the line, plain and positioned spans, nested), 1/6 wide documents of 13-40 sibling positioned contexts with tied unsorted z-index values (optionally under a common context); @page background and root/body (canvas) background on half of the documents; unique background/border/outline colours, texts and translations; " +
		"the sequence of fills, DrawText calls and group brackets (opacity group, transform scope, overflow clip) is compared with the Lean model of stacking.go run on the implementation's laid-out tree (corr) and with the Lean Appendix E spec (judge); corpus cases first; " +
		"non-trivial = at least one box makes a stacking context, is positioned or floats; distinct by document text"
	render.Quiet()
	fonts, err := render.NewFonts(repo)
	if err != nil {
		return err
	}
	crashes := map[string]int{}
	// corpus: minimised past failures, replayed first
	if exe, err := os.Executable(); err == nil {
		files, _ := filepath.Glob(filepath.Join(filepath.Dir(filepath.Dir(exe)), "corpus", "C16", "*.json"))
		sort.Strings(files)
		for _, fn := range files {
			var c struct{ Name, What, HTML string }
			data, err := os.ReadFile(fn)
			if err != nil || json.Unmarshal(data, &c) != nil || c.HTML == "" {
				return fmt.Errorf("corpus file %s: unreadable or empty", fn)
			}
			if err := one(m, c.HTML, 0, fonts, out, crashes, &node{}); err != nil {
				return err
			}
			out.Hit("corpus")
		}
		out.Notes = append(out.Notes, fmt.Sprintf("corpus: %d minimised past failures replayed first", len(files)))
	}
	for i := 0; i < n; i++ {
		cr := r.Sub()
		caseSeed := cr.Seed()
		budget := cr.Range(1, 8)
		root := &node{pos: "static", z: "auto"}
		if cr.P(1, 6) {
			root.children = genWide(cr)
		} else {
			for k := cr.Range(1, 3); k > 0 && budget > 0; k-- {
				root.children = append(root.children, genTree(cr, &budget, 1))
			}
		}
		next := 0
		for _, c := range root.children {
			number(c, &next)
		}
		var b strings.Builder
		// page-level layers: @page background (page box incl. margins), canvas background from the root element or,
		// when the root has none, propagated from <body>
		pageBg, rootBg := "", ""
		if cr.P(1, 2) {
			pageBg = ";background:" + bgCol(254)
		}
		switch cr.Intn(4) {
		case 0:
			rootBg = "html{background:" + bgCol(253) + "}"
		case 1:
			rootBg = "body{background:" + bgCol(253) + "}"
		}
		fmt.Fprintf(&b, `<style>@page{size:400px 600px;margin:10px%s}html,body{margin:0;font-size:8px}%s</style><body>`, pageBg, rootBg)
		for _, c := range root.children {
			c.html(&b)
		}
		src := b.String()
		if err := one(m, src, caseSeed, fonts, out, crashes, root); err != nil {
			return err
		}
		if i < 2 {
			out.Sample(map[string]interface{}{"html": src, "seed": caseSeed})
		}
	}
	for s, k := range crashes {
		out.Notes = append(out.Notes, fmt.Sprintf("crash-skipped (belongs to C01): %dx at %s", k, s))
	}
	out.ModelCalls = m.N
	return nil
}

func one(m *mp.Model, src string, caseSeed uint64, fonts text.FontConfiguration, out *res.Result, crashes map[string]int, root *node) error {
	var doc *render.Doc
	var rerr error
	oc := render.Guard(10*time.Second, func() { doc, rerr = render.Full(src, fonts, render.Opts{}) })
	if oc.Timeout {
		oc = render.Guard(45*time.Second, func() { doc, rerr = render.Full(src, fonts, render.Opts{}) })
	}
	if !oc.OK() || rerr != nil {
		out.Hit("crash-skipped")
		site := oc.Site
		if oc.Timeout {
			site = "timeout"
		}
		if crashes[site] == 0 {
			out.Notes = append(out.Notes, fmt.Sprintf("crash example at %s: %s %s", site, oc.Panic, src))
		}
		crashes[site]++
		return nil
	}
	f := map[string]bool{}
	nb := 0
	for _, c := range root.children {
		features(c, f)
		nb += count(c)
	}
	out.Count(src, len(f) > 0)
	out.Hit(fmt.Sprintf("boxes=%d", nb))
	for k := range f {
		out.Hit(k)
	}
	if len(doc.Pages) != 1 || len(doc.Pages[0].Children) == 0 {
		out.Hit("skipped:pages")
		return nil
	}
	// the root element's box
	tree := abstract(doc.Pages[0].Children[0], nil)
	// the page box's own background and the canvas background, as the implementation laid them out
	pb, cb := sx.A("none"), sx.A("none")
	if bg := doc.Pages[0].Background; bg != nil && bg.Color.A > 0 {
		pb = sx.I(254)
		f["page-background"] = true
	}
	if bg := doc.Pages[0].CanvasBackground; bg != nil && bg.Color.A > 0 {
		cb = sx.I(253)
		f["canvas-background"] = true
	}
	if pb.S != "none" && cb.S != "none" {
		out.Hit("page+canvas-background")
	}
	ans, err := m.Ask(sx.L(sx.A("page"), pb, cb, tree))
	if err != nil {
		return err
	}
	if ans.Head() != "ok" {
		return fmt.Errorf("model: %s on %s", ans, tree)
	}
	outlined := map[string]bool{}
	outlinedBoxes(doc.Pages[0].Children[0], outlined)
	implEvs := implOrder(doc.Rec)
	impl := strings.Join(implEvs, " ")
	model := strings.Join(filterEvs(ans.Xs[1], outlined), " ")
	spec := strings.Join(filterEvs(ans.Xs[2], outlined), " ")
	if model != spec {
		// cannot happen if the driver runs the proved definitions (WR.Props.C16.paint_order_respects_E)
		out.Add(res.Finding{Kind: "corr", Op: "corr:model-vs-spec", Input: src, Impl: model, Model: spec, Reason: "the model of stacking.go and the Appendix E spec differ on the tree " + tree.String(), Seed: caseSeed})
	}
	// model = spec is a theorem, so inside the modelled fragment any difference between the implementation
	// and the model IS a violation of the property's statement
	if impl != spec {
		out.Add(res.Finding{Kind: "judge", Op: "judge:paint-order", Input: src, Impl: impl, Model: spec, Reason: "the sequence of paints and groups differs from CSS 2.1 Appendix E (= the model of stacking.go); " + firstDiff(implEvs, filterEvs(ans.Xs[2], outlined)) + "; laid-out tree: " + tree.String(), Seed: caseSeed})
	}
	// group_encloses_subtree and background < border < content < outline, evaluated on the implementation's events
	if !strings.Contains(impl, "?") {
		j, err := m.Ask(sx.L(sx.A("enclosure"), tree, sx.A("("+impl+")")))
		if err != nil {
			return err
		}
		if j.Head() != "ok" {
			return fmt.Errorf("enclosure judge: %s", j)
		}
		if j.Xs[1].S != "1" {
			key := ""
			if j.Xs[2].S == "1" {
				// the only thing outside its group is the outline of a descendant of an overflow box, painted after the clip is closed
				key = "descendant-outline-outside-overflow-clip"
			}
			out.Add(res.Finding{Kind: "judge", Op: "judge:group-enclosure", Key: key, Input: src, Impl: impl, Reason: "a paint of a box's sub-tree lies outside the box's opacity group / transform scope / overflow clip, or a box's layers are out of order; laid-out tree: " + tree.String(), Seed: caseSeed})
		}
	} else {
		out.Add(res.Finding{Kind: "judge", Op: "judge:group-enclosure", Input: src, Impl: impl, Reason: "an opacity group whose first paint is not the background of a box", Seed: caseSeed})
	}
	return nil
}


func firstDiff(a, b []string) string {
	for i := 0; i < len(a) || i < len(b); i++ {
		x, y := "<end>", "<end>"
		if i < len(a) {
			x = a[i]
		}
		if i < len(b) {
			y = b[i]
		}
		if x != y {
			return fmt.Sprintf("first difference at event %d: implementation %s, expected %s", i, x, y)
		}
	}
	return "no difference"
}
