// Package c13: correspondence and judge runs for property C13 (table cells form a consistent grid).
//
//	L2  generated tables laid out by the real pipeline (render.LayoutOnly, one tall page):
//	      judge:  the spec GridConsistent (lean/WR/C13/Spec.lean) evaluated by the Lean driver on the
//	              implementation's numbers (exact rationals of the float32 values)          [judge]
//	      corr:   fixedTableLayout vs model fixedLayout (table-layout:fixed, width not auto)  [corr]
//	              column positions / cell x / cell width vs model columnPositions+placeRow   [corr]
//	              row y / height / rowspan resolution vs model rowPass                       [corr]
package c13

import (
	"encoding/json"
	"fmt"
	"math/big"
	"os"
	"path/filepath"
	"sort"
	"strconv"
	"strings"
	"time"

	pr "github.com/benoitkugler/webrender/css/properties"
	bo "github.com/benoitkugler/webrender/html/boxes"
	"github.com/benoitkugler/webrender/html/layout"
	"github.com/benoitkugler/webrender/html/tree"
	"github.com/benoitkugler/webrender/text"
	"github.com/benoitkugler/webrender/utils"

	"wrverif/mp"
	"wrverif/render"
	"wrverif/res"
	"wrverif/rng"
	"wrverif/sx"
)

// ---------------------------------------------------------------------------------------------
// generator

type cellSpec struct {
	id       string
	tag      string // td | th | div
	colspan  string // attribute text, "" = absent
	rowspan  string
	words    []int // word lengths (Ahem 'x')
	fontSize int   // 20 or 10
	blockW   int   // fixed-size block (0 = none)
	blockH   int
	style    []string
	minw     float64 // minimum content width (px)
}

type rowSpec struct {
	style []string
	cells []*cellSpec
}

type groupSpec struct {
	kind string // thead | tbody | tfoot | "" (rows directly in the table; css tables only)
	rows []*rowSpec
}

type colSpec struct {
	group    bool // colgroup
	span     string
	style    []string
	children []*colSpec
}

type tableSpec struct {
	css         bool // div + display:table-* instead of table markup
	style       []string
	cellStyle   []string
	groups      []*groupSpec
	cols        []*colSpec
	captionTop  bool
	captionBot  bool
	bodyWidth   int
	fixed       bool
	collapse    bool
	rtl         bool
	sx, sy      float64
	widthKind   string // auto | px | pct
	widthVal    float64
	specW       *float64 // resolved specified `width` (as declared; observe() applies box-sizing), nil = auto
	borderBox   bool     // box-sizing: border-box (the UA sheet's default for <table>)
	malformed   bool
	cells       map[string]*cellSpec
	baselineAny bool
	raw         string // corpus case: the document itself
}

func q(r *rng.R, lo, hi int) float64 { return float64(r.Range(lo*4, hi*4)) / 4 } // dyadic k/4

func fmtF(f float64) string { return strconv.FormatFloat(f, 'f', -1, 64) }

func spanAttr(r *rng.R, max int, malformed bool) string {
	switch {
	case r.P(11, 20):
		return ""
	case r.P(1, 12):
		return "0"
	case r.P(1, 14):
		return strconv.Itoa(max + r.Range(1, 4)) // overflowing
	case malformed && r.P(1, 5):
		return rng.Pick(r, "-2", "abc", " 2 ", "2.5", "40", "+2", "")
	}
	return strconv.Itoa(r.Range(1, max))
}

// minWidth: min-content width of the cell's content (longest unbreakable Ahem word, fixed block)
func (c *cellSpec) minWidth() float64 {
	m := float64(c.blockW)
	for _, w := range c.words {
		if v := float64(w * c.fontSize); v > m {
			m = v
		}
	}
	return m
}

func genCell(r *rng.R, t *tableSpec, id string, ncols, nrows int) *cellSpec {
	c := &cellSpec{id: id, fontSize: 20}
	c.tag = "td"
	if r.P(1, 6) {
		c.tag = "th"
	}
	if t.css {
		c.tag = "div"
		c.style = append(c.style, "display:table-cell")
	}
	c.colspan = spanAttr(r, ncols, t.malformed)
	c.rowspan = spanAttr(r, nrows, t.malformed)
	switch r.Intn(6) {
	case 0: // empty
	case 1, 2:
		n := r.Range(1, 3)
		for i := 0; i < n; i++ {
			c.words = append(c.words, r.Range(1, 6))
		}
	case 3:
		c.blockW, c.blockH = r.Range(1, 12)*5, r.Range(1, 8)*5
	case 4:
		c.words = []int{r.Range(1, 5)}
		c.blockW, c.blockH = r.Range(1, 12)*5, r.Range(1, 8)*5
	case 5:
		c.words = []int{r.Range(1, 8), r.Range(1, 3)}
		c.fontSize = 10
	}
	for _, w := range c.words {
		if m := float64(w * c.fontSize); m > c.minw {
			c.minw = m
		}
	}
	if float64(c.blockW) > c.minw {
		c.minw = float64(c.blockW)
	}
	if r.P(1, 4) {
		switch r.Intn(3) {
		case 0:
			c.style = append(c.style, fmt.Sprintf("width:%spx", fmtF(q(r, 0, 120))))
		case 1:
			c.style = append(c.style, fmt.Sprintf("width:%d%%", r.Range(0, 8)*10))
		case 2:
			c.style = append(c.style, fmt.Sprintf("width:%dpx", r.Range(1, 30)*10))
		}
	}
	if r.P(1, 6) {
		c.style = append(c.style, fmt.Sprintf("height:%dpx", r.Range(0, 12)*5))
	}
	if r.P(1, 6) {
		c.style = append(c.style, fmt.Sprintf("padding:%spx %spx", fmtF(q(r, 0, 6)), fmtF(q(r, 0, 12))))
	}
	if r.P(1, 8) {
		c.style = append(c.style, fmt.Sprintf("border:%dpx solid", r.Range(0, 6)))
	}
	va := "top"
	switch r.Intn(8) {
	case 0:
		va = "middle"
	case 1:
		va = "bottom"
	case 2:
		va = "baseline"
		t.baselineAny = true
	}
	c.style = append(c.style, "vertical-align:"+va)
	t.cells[id] = c
	return c
}

func genTable(r *rng.R) *tableSpec {
	t := &tableSpec{cells: map[string]*cellSpec{}}
	t.css = r.P(1, 6)
	t.malformed = r.P(1, 10)
	t.bodyWidth = rng.Pick(r, 600, 600, 400, 240, 100, 800)
	t.fixed = r.P(1, 2)
	t.collapse = r.P(1, 4)
	t.rtl = r.P(1, 3)
	ncols, nrows := r.Range(1, 6), r.Range(1, 6)
	if r.P(1, 30) {
		nrows = 0
	}
	// table style
	if t.css {
		t.style = append(t.style, "display:table")
	}
	switch r.Intn(4) {
	case 0:
		t.widthKind = "auto"
	case 1, 2:
		t.widthKind = "px"
		t.widthVal = float64(r.Range(0, 70) * 10)
		if r.P(1, 4) {
			t.widthVal = q(r, 1, 500)
		}
		t.style = append(t.style, "width:"+fmtF(t.widthVal)+"px")
		v := t.widthVal
		t.specW = &v
	case 3:
		t.widthKind = "pct"
		t.widthVal = float64(r.Range(1, 12) * 10)
		t.style = append(t.style, "width:"+fmtF(t.widthVal)+"%")
		v := t.widthVal * float64(t.bodyWidth) / 100
		t.specW = &v
	}
	t.borderBox = !t.css
	if r.P(1, 4) {
		t.borderBox = r.Bool()
		t.style = append(t.style, "box-sizing:"+map[bool]string{true: "border-box", false: "content-box"}[t.borderBox])
	}
	if t.fixed {
		t.style = append(t.style, "table-layout:fixed")
	} else if r.P(1, 3) {
		t.style = append(t.style, "table-layout:auto")
	}
	if t.collapse {
		t.style = append(t.style, "border-collapse:collapse")
	} else if r.P(1, 3) {
		t.style = append(t.style, "border-collapse:separate")
	}
	switch r.Intn(4) {
	case 0: // default: 2px in the UA sheet for <table>, the initial value 0 otherwise
		t.sx, t.sy = 2, 2
		if t.css {
			t.sx, t.sy = 0, 0
		}
	case 1:
		t.sx = q(r, 0, 10)
		t.sy = t.sx
		t.style = append(t.style, "border-spacing:"+fmtF(t.sx)+"px")
	default:
		t.sx, t.sy = q(r, 0, 12), q(r, 0, 12)
		t.style = append(t.style, "border-spacing:"+fmtF(t.sx)+"px "+fmtF(t.sy)+"px")
	}
	if t.rtl {
		t.style = append(t.style, "direction:rtl")
	}
	if r.P(1, 3) {
		t.style = append(t.style, fmt.Sprintf("border:%dpx solid", r.Range(0, 5)))
	}
	if r.P(1, 5) {
		t.style = append(t.style, fmt.Sprintf("padding:%dpx", r.Range(0, 7)))
	}
	if r.P(1, 8) {
		t.style = append(t.style, fmt.Sprintf("height:%dpx", r.Range(0, 40)*10))
	}
	if r.P(1, 8) {
		t.style = append(t.style, rng.Pick(r, "margin:0 auto", "margin-left:auto", "margin:5px 10px", "margin-left:-20px"))
	}
	t.cellStyle = []string{fmt.Sprintf("padding:%spx", fmtF(q(r, 0, 4))), fmt.Sprintf("border:%dpx solid", r.Range(0, 3))}
	t.captionTop = r.P(1, 8)
	t.captionBot = r.P(1, 12)
	// columns
	if r.P(1, 3) {
		n := r.Range(1, 3)
		colStyle := func() []string {
			var st []string
			switch r.Intn(4) {
			case 0:
				st = append(st, fmt.Sprintf("width:%dpx", r.Range(0, 20)*10))
			case 1:
				st = append(st, fmt.Sprintf("width:%d%%", r.Range(0, 6)*10))
			case 2:
				st = append(st, fmt.Sprintf("width:%spx", fmtF(q(r, 0, 90))))
			}
			if t.css {
				st = append(st, "display:table-column")
			}
			return st
		}
		sp := func() string {
			if r.P(1, 3) {
				return strconv.Itoa(r.Range(1, 3))
			}
			if t.malformed && r.P(1, 4) {
				return rng.Pick(r, "0", "-1", "x")
			}
			return ""
		}
		for i := 0; i < n; i++ {
			if r.P(1, 2) {
				t.cols = append(t.cols, &colSpec{span: sp(), style: colStyle()})
			} else {
				g := &colSpec{group: true, span: sp(), style: colStyle()}
				if t.css {
					g.style[len(g.style)-1] = "display:table-column-group"
				}
				k := r.Range(0, 2)
				for j := 0; j < k; j++ {
					g.children = append(g.children, &colSpec{span: sp(), style: colStyle()})
				}
				t.cols = append(t.cols, g)
			}
		}
	}
	// row groups
	var kinds []string
	switch r.Intn(6) {
	case 0:
		kinds = []string{"thead", "tbody"}
	case 1:
		kinds = []string{"tbody", "tfoot"}
	case 2:
		kinds = []string{"tfoot", "thead", "tbody"} // footer first in the source
	case 3:
		kinds = []string{"tbody", "tbody"}
	default:
		kinds = []string{"tbody"}
	}
	if t.css && r.P(1, 2) {
		kinds = []string{""}
	}
	if r.P(1, 25) {
		kinds = append(kinds, "tbody") // possibly left empty below
	}
	// split rows among groups
	counts := make([]int, len(kinds))
	for i := 0; i < nrows; i++ {
		counts[r.Intn(len(kinds))]++
	}
	rowNo := 0
	for gi, k := range kinds {
		g := &groupSpec{kind: k}
		for i := 0; i < counts[gi]; i++ {
			row := &rowSpec{}
			if t.css {
				row.style = append(row.style, "display:table-row")
			}
			if r.P(1, 6) {
				row.style = append(row.style, fmt.Sprintf("height:%dpx", r.Range(0, 16)*5))
			}
			nc := ncols
			if r.P(1, 4) {
				nc = r.Range(0, ncols+1)
			}
			for j := 0; j < nc; j++ {
				row.cells = append(row.cells, genCell(r, t, fmt.Sprintf("c%d_%d", rowNo, j), ncols, counts[gi]))
			}
			g.rows = append(g.rows, row)
			rowNo++
		}
		t.groups = append(t.groups, g)
	}
	// adjacent multi-rowspan runs: 2-4 adjacent cells with rowspan >= 2 (after 0-1 plain cells), followed by
	// shorter rows whose cells must skip ALL the slots still held by the run
	if r.P(1, 3) {
		for _, g := range t.groups {
			if len(g.rows) < 2 || !r.P(2, 3) {
				continue
			}
			off, run := r.Intn(2), r.Range(2, 4)
			first := g.rows[r.Intn(len(g.rows)-1)]
			for len(first.cells) < off+run+r.Intn(2) {
				first.cells = append(first.cells, genCell(r, t, fmt.Sprintf("x%d_%d", rowNo, len(first.cells)), ncols, len(g.rows)))
			}
			rowNo++
			for i, c := range first.cells {
				c.colspan = ""
				if i >= off && i < off+run {
					c.rowspan = strconv.Itoa(r.Range(2, 4))
				} else if r.P(1, 2) {
					c.rowspan = ""
				}
			}
			seen := false
			for _, row := range g.rows {
				if row == first {
					seen = true
					continue
				}
				if seen && len(row.cells) > 2 && r.P(2, 3) {
					row.cells = row.cells[:r.Range(1, 2)]
				}
			}
		}
	}
	return t
}

func styleAttr(st []string) string {
	if len(st) == 0 {
		return ""
	}
	return ` style="` + strings.Join(st, ";") + `"`
}

func attr(name, v string, present bool) string {
	if !present {
		return ""
	}
	return fmt.Sprintf(` %s="%s"`, name, v)
}

func (t *tableSpec) html() string {
	if t.raw != "" {
		return t.raw
	}
	var b strings.Builder
	fmt.Fprintf(&b, `<style>@page{size:1000px 20000px;margin:0} html,body{margin:0;padding:0} body{width:%dpx;font:20px/20px Ahem} .c{%s}</style><body>`,
		t.bodyWidth, strings.Join(t.cellStyle, ";"))
	tt, tr, col, colgroup, caption := "table", "tr", "col", "colgroup", "caption"
	if t.css {
		tt, tr, col, colgroup, caption = "div", "div", "div", "div", "div"
	}
	fmt.Fprintf(&b, `<%s id=t%s>`, tt, styleAttr(t.style))
	capStyle := func(side string) string {
		st := []string{"caption-side:" + side}
		if t.css {
			st = append(st, "display:table-caption")
		}
		return styleAttr(st)
	}
	if t.captionTop {
		fmt.Fprintf(&b, `<%s%s>xx xxx</%s>`, caption, capStyle("top"), caption)
	}
	for _, c := range t.cols {
		if c.group {
			fmt.Fprintf(&b, `<%s%s%s>`, colgroup, attr("span", c.span, c.span != ""), styleAttr(c.style))
			for _, d := range c.children {
				fmt.Fprintf(&b, `<%s%s%s></%s>`, col, attr("span", d.span, d.span != ""), styleAttr(d.style), col)
			}
			fmt.Fprintf(&b, `</%s>`, colgroup)
		} else {
			fmt.Fprintf(&b, `<%s%s%s></%s>`, col, attr("span", c.span, c.span != ""), styleAttr(c.style), col)
		}
	}
	for _, g := range t.groups {
		gtag := g.kind
		if t.css && g.kind != "" {
			disp := map[string]string{"thead": "table-header-group", "tbody": "table-row-group", "tfoot": "table-footer-group"}[g.kind]
			fmt.Fprintf(&b, `<div style="display:%s">`, disp)
			gtag = "div"
		} else if g.kind != "" {
			fmt.Fprintf(&b, `<%s>`, g.kind)
		}
		for _, row := range g.rows {
			fmt.Fprintf(&b, `<%s%s>`, tr, styleAttr(row.style))
			for _, c := range row.cells {
				fmt.Fprintf(&b, `<%s id=%s class=c%s%s%s>`, c.tag, c.id, attr("colspan", c.colspan, c.colspan != ""), attr("rowspan", c.rowspan, c.rowspan != ""), styleAttr(c.style))
				if len(c.words) != 0 {
					var ws []string
					for _, w := range c.words {
						ws = append(ws, strings.Repeat("x", w))
					}
					if c.fontSize != 20 {
						fmt.Fprintf(&b, `<span style="font-size:%dpx">%s</span>`, c.fontSize, strings.Join(ws, " "))
					} else {
						b.WriteString(strings.Join(ws, " "))
					}
				}
				if c.blockW != 0 {
					fmt.Fprintf(&b, `<div style="width:%dpx;height:%dpx"></div>`, c.blockW, c.blockH)
				}
				fmt.Fprintf(&b, `</%s>`, c.tag)
			}
			fmt.Fprintf(&b, `</%s>`, tr)
		}
		if g.kind != "" {
			fmt.Fprintf(&b, `</%s>`, gtag)
		}
	}
	if t.captionBot {
		fmt.Fprintf(&b, `<%s%s>x</%s>`, caption, capStyle("bottom"), caption)
	}
	fmt.Fprintf(&b, `</%s>`, tt)
	return b.String()
}

// ---------------------------------------------------------------------------------------------
// observation

func findTable(b bo.Box) *bo.TableBox {
	if tb, ok := b.(bo.TableBoxITF); ok {
		return tb.Table()
	}
	for _, c := range b.Box().Children {
		if t := findTable(c); t != nil {
			return t
		}
	}
	return nil
}

func elemID(b *bo.BoxFields) string {
	if b.Element == nil {
		return ""
	}
	for _, a := range b.Element.Attr {
		if a.Key == "id" {
			return a.Val
		}
	}
	return ""
}

func fR(f pr.Float) sx.X { return sx.R(float64(f)) }

func mf(m pr.MaybeFloat) pr.Float {
	if m == nil || m == pr.AutoF {
		return 0
	}
	return m.V()
}

// intAttr mirrors what HTML says for colspan/rowspan as far as the renderer documents it
// (boxes.integerAttribute): invalid -> 1, below the minimum -> the minimum.
func intAttr(s string, min int) int {
	v, err := strconv.Atoi(strings.TrimSpace(s))
	if err != nil {
		return 1
	}
	if v < min {
		v = min
	}
	return v
}

type obsCell struct {
	box            *bo.BoxFields
	id             string
	gx, cs, gy, rs int
	group, row     int
}

type obs struct {
	table  *bo.TableBox
	cells  []obsCell
	nrows  int
	sx, sy float64
	specW  *float64 // specified content-box width (box-sizing applied), nil = auto
}

func observe(t *tableSpec, tb *bo.TableBox) *obs {
	o := &obs{table: tb}
	gy := 0
	for gi, g := range tb.Children {
		for ri, row := range g.Box().Children {
			for _, c := range row.Box().Children {
				cb := c.Box()
				o.cells = append(o.cells, obsCell{box: cb, id: elemID(cb), gx: cb.GridX, cs: cb.Colspan, gy: gy, rs: cb.Rowspan, group: gi, row: ri})
			}
			gy++
		}
	}
	o.nrows = gy
	if t.specW != nil {
		v := *t.specW
		if t.borderBox {
			// CSS box-sizing: the content width is the specified width minus padding and borders, floored at 0
			v -= float64(mf(tb.PaddingLeft) + mf(tb.PaddingRight) + tb.BorderLeftWidth + tb.BorderRightWidth)
			if v < 0 {
				v = 0
			}
		}
		o.specW = &v
	}
	// border-spacing as CSS defines it: the declared value in the separated model (UA sheet: 2px), 0 when collapsing
	o.sx, o.sy = t.sx, t.sy
	if t.collapse {
		o.sx, o.sy = 0, 0
	}
	return o
}

func (o *obs) gridX(t *tableSpec) sx.X {
	tb := o.table
	spec := sx.A("none")
	if o.specW != nil {
		spec = sx.R(*o.specW)
	}
	cols := []sx.X{sx.A("cols")}
	for i, w := range tb.ColumnWidths {
		var p pr.Float
		if i < len(tb.ColumnPositions) {
			p = tb.ColumnPositions[i]
		}
		cols = append(cols, sx.L(fR(p), fR(w)))
	}
	groups := []sx.X{sx.A("groups")}
	for _, g := range tb.Children {
		gb := g.Box()
		xs := []sx.X{fR(gb.PositionY), fR(mf(gb.Height))}
		for _, row := range gb.Children {
			xs = append(xs, sx.L(fR(row.Box().PositionY), fR(mf(row.Box().Height))))
		}
		groups = append(groups, sx.L(xs...))
	}
	cells := []sx.X{sx.A("cells")}
	for _, c := range o.cells {
		b := c.box
		minw := 0.0
		if !t.fixed || t.specW == nil {
			if cs := t.cells[c.id]; cs != nil {
				minw = cs.minWidth()
			}
		}
		cells = append(cells, sx.L(sx.I(c.gx), sx.I(c.cs), sx.I(c.gy), sx.I(c.rs),
			fR(b.BorderBoxX()), fR(b.BorderBoxY()), fR(b.BorderWidth()), fR(b.BorderHeight()),
			fR(mf(b.Width)), fR(mf(b.Height)), sx.R(minw)))
	}
	return sx.L(sx.A("grid"), sx.B(t.rtl), fR(tb.ContentBoxX()), fR(tb.ContentBoxY()), fR(mf(tb.Width)), fR(mf(tb.Height)),
		sx.R(o.sx), sx.R(o.sy), spec, sx.L(cols...), sx.L(groups...), sx.L(cells...))
}

func (o *obs) dump() map[string]interface{} {
	tb := o.table
	var cells []string
	for _, c := range o.cells {
		b := c.box
		cells = append(cells, fmt.Sprintf("%s gx=%d cs=%d gy=%d rs=%d box=(%g,%g %gx%g) content=%gx%g", c.id, c.gx, c.cs, c.gy, c.rs,
			b.BorderBoxX(), b.BorderBoxY(), b.BorderWidth(), b.BorderHeight(), mf(b.Width), mf(b.Height)))
	}
	var rows []string
	for _, g := range tb.Children {
		s := fmt.Sprintf("group y=%g h=%g:", g.Box().PositionY, mf(g.Box().Height))
		for _, row := range g.Box().Children {
			s += fmt.Sprintf(" (y=%g h=%g)", row.Box().PositionY, mf(row.Box().Height))
		}
		rows = append(rows, s)
	}
	return map[string]interface{}{
		"table":   fmt.Sprintf("content x=%g y=%g w=%g h=%g spacing=%g,%g", tb.ContentBoxX(), tb.ContentBoxY(), mf(tb.Width), mf(tb.Height), o.sx, o.sy),
		"columns": fmt.Sprintf("widths=%v positions=%v", tb.ColumnWidths, tb.ColumnPositions),
		"rows":    rows, "cells": cells,
	}
}

// ---------------------------------------------------------------------------------------------
// comparisons

func ratOf(x sx.X) (*big.Rat, bool) {
	if x.K != sx.Atom {
		return nil, false
	}
	return new(big.Rat).SetString(x.S)
}

// closeTo: |impl - exact| <= 2^-16 * max(1, |exact|)
func closeTo(impl pr.Float, exact *big.Rat) bool { return closeScale(impl, exact, 1) }

// closeScale: |impl - exact| <= 2^-16 * max(1, |exact|, scale); scale = magnitude of the operands
// (positions are differences/sums of coordinates as large as the table's far edge)
func closeScale(impl pr.Float, exact *big.Rat, scale float64) bool {
	i := new(big.Rat)
	if i.SetFloat64(float64(impl)) == nil {
		return false
	}
	d := new(big.Rat).Sub(i, exact)
	d.Abs(d)
	m := new(big.Rat).Abs(exact)
	if m.Cmp(big.NewRat(1, 1)) < 0 {
		m = big.NewRat(1, 1)
	}
	if sc := new(big.Rat).SetFloat64(scale); sc != nil && m.Cmp(sc) < 0 {
		m = sc
	}
	m.Mul(m, big.NewRat(1, 1<<16))
	return d.Cmp(m) <= 0
}

func isOK(x sx.X) bool {
	return x.K == sx.List && len(x.Xs) >= 1 && x.Xs[0].K == sx.Atom && x.Xs[0].S == "ok"
}

type runner struct {
	m     *mp.Model
	out   *res.Result
	fonts text.FontConfiguration
	crash map[string]string
	kept  map[string][]res.Finding // per key: the smallest failing inputs seen
	specs map[string]*tableSpec    // per "unexplained" key: the smallest failing table, to be shrunk at the end
}

// keep remembers the 3 smallest inputs per finding key; they are added to the result at the end of the run.
func (rn *runner) keep(f res.Finding) {
	l := append(rn.kept[f.Key], f)
	sort.SliceStable(l, func(i, j int) bool { return len(l[i].Input.(string)) < len(l[j].Input.(string)) })
	if len(l) > 3 {
		l = l[:3]
	}
	rn.kept[f.Key] = l
}

const judgeEps = "1/64"

func optX(m pr.MaybeFloat) sx.X {
	if m == nil || m == pr.AutoF {
		return sx.A("none")
	}
	return fR(m.V())
}

// fixedCorr compares fixedTableLayout with the model; returns the model's column widths (exact).
func (rn *runner) fixedCorr(t *tableSpec, o *obs, src string, seed uint64) ([]*big.Rat, error) {
	tb := o.table
	W := pr.Float(*o.specW) // table.Width as resolved from the specified value
	cols := []sx.X{sx.A("cols")}
	for _, g := range tb.ColumnGroups {
		for _, c := range g.Children {
			cols = append(cols, optX(pr.ResolvePercentage(c.Box().Style.GetWidth(), W)))
		}
	}
	first := []sx.X{sx.A("first")}
	if len(tb.Children) != 0 && len(tb.Children[0].Box().Children) != 0 {
		for _, c := range tb.Children[0].Box().Children[0].Box().Children {
			b := c.Box()
			w := pr.ResolvePercentage(b.Style.GetWidth(), W)
			if w == nil || w == pr.AutoF {
				first = append(first, sx.L(sx.I(b.Colspan), sx.A("none")))
			} else {
				bw := w.V() + mf(b.PaddingLeft) + mf(b.PaddingRight) + b.BorderLeftWidth + b.BorderRightWidth
				first = append(first, sx.L(sx.I(b.Colspan), fR(bw)))
			}
		}
	}
	req := sx.L(sx.A("fixed"), fR(W), sx.R(o.sx), sx.L(cols...), sx.L(first...))
	ans, err := rn.m.Ask(req)
	if err != nil {
		return nil, err
	}
	if !isOK(ans) || len(ans.Xs) != 4 {
		return nil, fmt.Errorf("model: %s -> %s", req, ans)
	}
	mw, _ := ratOf(ans.Xs[1])
	var mcw []*big.Rat
	// float32 cancellation in `table.Width - minTableWidth` / `- sumColumnWidths`: the error is relative to the table width
	scale := float64(mf(tb.Width))
	same := len(ans.Xs[2].Xs) == len(tb.ColumnWidths) && closeScale(mf(tb.Width), mw, scale)
	for i, x := range ans.Xs[2].Xs {
		q, _ := ratOf(x)
		mcw = append(mcw, q)
		if same && !closeScale(tb.ColumnWidths[i], q, scale) {
			same = false
		}
	}
	rn.out.Hit("corr:fixed")
	if !same {
		rn.out.Add(res.Finding{Kind: "corr", Op: "corr:fixed", Input: src, Impl: fmt.Sprintf("width=%g columns=%v", mf(tb.Width), tb.ColumnWidths),
			Model: ans.String(), Reason: "fixedTableLayout differs from model fixedLayout on " + req.String(), Seed: seed})
	}
	return mcw, nil
}

// autoCorr: the column-width part of the auto algorithm. The hook re-runs tableWrapperWidth on the table
// wrapper of a freshly built formatting structure and reports what tableAndColumnsPreferredWidths returned
// (the content widths are inputs of the model) and what autoTableLayout made of it; that result must be the
// one the pipeline produced, and the model must reproduce it.
func (rn *runner) autoCorr(t *tableSpec, o *obs, src string, seed uint64) error {
	tb := o.table
	h, err := tree.NewHTML(utils.InputString(src), "", nil, "")
	if err != nil {
		return nil
	}
	var a *layout.VerifC13AutoTable
	oc := render.Guard(60*time.Second, func() { a = layout.VerifC13Auto(h, rn.fonts, pr.Float(t.bodyWidth), pr.AutoF) })
	if !oc.OK() || a == nil || a.Fixed {
		rn.out.Hit("corr:auto:hook-unavailable")
		return nil
	}
	same := a.Width == mf(tb.Width) && len(a.ColumnWidths) == len(tb.ColumnWidths)
	for i := range a.ColumnWidths {
		if same && a.ColumnWidths[i] != tb.ColumnWidths[i] {
			same = false
		}
	}
	if !same {
		// e.g. the pipeline laid the table out against another containing block: not comparable
		rn.out.Hit("corr:auto:hook-differs-from-pipeline")
		return nil
	}
	cols := []sx.X{sx.A("cols")}
	for i := range a.ColMin {
		cols = append(cols, sx.L(fR(a.ColMin[i]), fR(a.ColMax[i]), fR(a.ColPct[i]), sx.B(a.Constrained[i]), sx.B(a.HasCell[i]), sx.B(a.HasMaxContent[i])))
	}
	w := sx.A("none")
	if !a.WidthAuto {
		w = fR(a.WidthIn)
	}
	req := sx.L(sx.A("auto"), w, fR(a.Available), fR(a.TableMin), fR(a.TableMax), fR(a.Spacing), sx.L(cols...))
	ans, err := rn.m.Ask(req)
	if err != nil {
		return err
	}
	if !isOK(ans) || len(ans.Xs) != 5 {
		return fmt.Errorf("model: %s -> %s", req, ans)
	}
	mw, _ := ratOf(ans.Xs[1])
	scale := float64(a.Width)
	if v := float64(a.Available); v > scale {
		scale = v
	}
	if v := float64(a.TableMax); v > scale && v < 1e6 {
		scale = v
	}
	ok := len(ans.Xs[2].Xs) == len(a.ColumnWidths) && closeScale(a.Width, mw, scale)
	for i, x := range ans.Xs[2].Xs {
		q, _ := ratOf(x)
		if ok && !closeScale(a.ColumnWidths[i], q, scale) {
			ok = false
		}
	}
	if !ok {
		// knife edge: the assignable width equals a guess sum up to float32 rounding, so the implementation
		// legitimately takes the other branch of `assignable <= sum(guess)`: not comparable
		if margin, _ := ratOf(ans.Xs[4]); len(a.ColMin) != 0 && closeScale(0, margin, scale) {
			rn.out.Hit("corr:auto:knife-edge-skipped")
			return nil
		}
	}
	rn.out.Hit("corr:auto:" + ans.Xs[3].S)
	if !ok {
		rn.out.Add(res.Finding{Kind: "corr", Op: "corr:auto", Input: src, Impl: fmt.Sprintf("width=%g columns=%v", a.Width, a.ColumnWidths),
			Model: ans.String(), Reason: "autoTableLayout differs from model autoLayout on " + req.String(), Seed: seed})
	}
	return nil
}

// groupsCorr: the table level of the vertical pass: group positions from the observed group heights, and
// the table's used height from its specified height (model stackGroups / tableHeight).
func (rn *runner) groupsCorr(t *tableSpec, o *obs, src string, seed uint64) error {
	tb := o.table
	spec := sx.A("none")
	if h := tb.Style.GetHeight(); h.S != "auto" && h.Unit == pr.Px {
		v := h.Value
		if tb.Style.GetBoxSizing() == "border-box" {
			v -= mf(tb.PaddingTop) + mf(tb.PaddingBottom) + tb.BorderTopWidth + tb.BorderBottomWidth
			if v < 0 {
				v = 0
			}
		}
		spec = fR(v)
	} else if h.S != "auto" {
		rn.out.Hit("corr:groups:skipped-percent-height")
		return nil
	}
	hs := []sx.X{sx.A("hs")}
	for _, g := range tb.Children {
		hs = append(hs, fR(mf(g.Box().Height)))
	}
	req := sx.L(sx.A("stack"), sx.R(o.sy), fR(tb.ContentBoxY()), spec, sx.L(hs...))
	ans, err := rn.m.Ask(req)
	if err != nil {
		return err
	}
	if !isOK(ans) || len(ans.Xs) != 4 {
		return fmt.Errorf("model: %s -> %s", req, ans)
	}
	th, _ := ratOf(ans.Xs[3])
	scale := float64(tb.ContentBoxY() + mf(tb.Height))
	same := len(ans.Xs[1].Xs) == len(tb.Children) && closeScale(mf(tb.Height), th, scale)
	for i, x := range ans.Xs[1].Xs {
		y, _ := ratOf(x)
		if same && !closeScale(tb.Children[i].Box().PositionY, y, scale) {
			same = false
		}
	}
	rn.out.Hit("corr:groups")
	if !same {
		rn.out.Add(res.Finding{Kind: "corr", Op: "corr:groups", Input: src, Impl: o.dump(), Model: ans.String(),
			Reason: "row group positions / table height differ from model on " + req.String(), Seed: seed})
	}
	return nil
}

func (rn *runner) placeCorr(t *tableSpec, o *obs, src string, seed uint64) error {
	tb := o.table
	ws := []sx.X{sx.A("ws")}
	for _, w := range tb.ColumnWidths {
		ws = append(ws, fR(w))
	}
	type key struct{ g, r int }
	byRow := map[key][]obsCell{}
	var keys []key
	for _, c := range o.cells {
		k := key{c.group, c.row}
		if _, ok := byRow[k]; !ok {
			keys = append(keys, k)
		}
		byRow[k] = append(byRow[k], c)
	}
	rows := []sx.X{sx.A("rows")}
	for _, k := range keys {
		var xs []sx.X
		for _, c := range byRow[k] {
			b := c.box
			cs := c.cs
			if spec := t.cells[c.id]; spec != nil {
				cs = intAttr(spec.colspan, 1) // the colspan before tableLayout clipped it
				if spec.colspan == "" {
					cs = 1
				}
			}
			bpp := mf(b.PaddingLeft) + mf(b.PaddingRight) + b.BorderLeftWidth + b.BorderRightWidth
			xs = append(xs, sx.L(sx.I(c.gx), sx.I(cs), fR(bpp)))
		}
		rows = append(rows, sx.L(xs...))
	}
	req := sx.L(sx.A("place"), sx.B(t.rtl), fR(tb.ContentBoxX()), fR(mf(tb.Width)), sx.R(o.sx), sx.L(ws...), sx.L(rows...))
	ans, err := rn.m.Ask(req)
	if err != nil {
		return err
	}
	if !isOK(ans) || len(ans.Xs) != 3 {
		return fmt.Errorf("model: %s -> %s", req, ans)
	}
	same := len(ans.Xs[1].Xs) == len(tb.ColumnPositions)
	scale := float64(tb.ContentBoxX() + mf(tb.Width))
	if scale < 0 {
		scale = -scale
	}
	if same {
		for i, x := range ans.Xs[1].Xs {
			q, _ := ratOf(x)
			if !closeScale(tb.ColumnPositions[i], q, scale) {
				same = false
			}
		}
	}
	if same && len(ans.Xs[2].Xs) == len(keys) {
		for i, k := range keys {
			mrow := ans.Xs[2].Xs[i].Xs
			if len(mrow) != len(byRow[k]) {
				same = false
				break
			}
			for j, c := range byRow[k] {
				mc := mrow[j].Xs
				x, _ := ratOf(mc[2])
				w, _ := ratOf(mc[3])
				if mc[1].S != strconv.Itoa(c.cs) || !closeScale(c.box.PositionX, x, scale) || !closeScale(mf(c.box.Width), w, scale) {
					same = false
				}
			}
		}
	} else {
		same = false
	}
	rn.out.Hit("corr:place")
	if !same {
		rn.out.Add(res.Finding{Kind: "corr", Op: "corr:place", Input: src, Impl: o.dump(), Model: ans.String(),
			Reason: "column positions / cell placement differ from model on " + req.String(), Seed: seed})
	}
	return nil
}

// rowsCorr compares the row pass group by group (groups whose cells all have a non-baseline vertical-align).
func (rn *runner) rowsCorr(t *tableSpec, o *obs, src string, seed uint64) error {
	tb := o.table
	for gi, g := range tb.Children {
		gb := g.Box()
		skip := false
		rows := []sx.X{sx.A("rows")}
		idOf := map[int]obsCell{}
		n := 0
		for ri, row := range gb.Children {
			rb := row.Box()
			xs := []sx.X{optX(pr.ResolvePercentage(rb.Style.GetHeight(), 0))}
			if rb.Style.GetHeight().Unit == pr.Perc {
				skip = true
			}
			for _, c := range o.cells {
				if c.group != gi || c.row != ri {
					continue
				}
				if c.box.VerticalAlign == "baseline" {
					skip = true
					break
				}
				b := c.box
				// border height after the content was laid out = used height + the *declared* paddings + borders
				pt := pr.ResolvePercentage(b.Style.GetPaddingTop().ToValue(), 0)
				pb := pr.ResolvePercentage(b.Style.GetPaddingBottom().ToValue(), 0)
				bh := mf(b.Height) + mf(pt) + mf(pb) + b.BorderTopWidth + b.BorderBottomWidth
				n++
				idOf[n] = c
				xs = append(xs, sx.L(sx.I(n), sx.I(c.rs), fR(bh)))
			}
			rows = append(rows, sx.L(xs...))
		}
		if skip {
			rn.out.Hit("corr:rows:skipped-baseline")
			continue
		}
		req := sx.L(sx.A("rows"), sx.R(o.sy), fR(gb.PositionY), sx.L(rows...))
		ans, err := rn.m.Ask(req)
		if err != nil {
			return err
		}
		if !isOK(ans) || len(ans.Xs) != 4 {
			return fmt.Errorf("model: %s -> %s", req, ans)
		}
		same := len(ans.Xs[1].Xs) == len(gb.Children)
		if same {
			for i, x := range ans.Xs[1].Xs {
				y, _ := ratOf(x.Xs[0])
				h, _ := ratOf(x.Xs[1])
				rb := gb.Children[i].Box()
				if !closeTo(rb.PositionY, y) || !closeTo(mf(rb.Height), h) {
					same = false
				}
			}
			seen := 0
			for _, x := range ans.Xs[2].Xs {
				id, _ := strconv.Atoi(x.Xs[0].S)
				y, _ := ratOf(x.Xs[1])
				bh, _ := ratOf(x.Xs[2])
				c := idOf[id]
				seen++
				if !closeTo(c.box.PositionY, y) || !closeTo(c.box.BorderHeight(), bh) {
					same = false
				}
			}
			if seen != n {
				same = false
			}
			endY, _ := ratOf(ans.Xs[3])
			if len(gb.Children) != 0 {
				gh := new(big.Rat).Sub(endY, new(big.Rat).SetFloat64(float64(gb.PositionY)))
				sy := new(big.Rat).SetFloat64(o.sy)
				gh.Sub(gh, sy)
				if !closeTo(mf(gb.Height), gh) {
					same = false
				}
			}
		}
		rn.out.Hit("corr:rows")
		if !same {
			rn.out.Add(res.Finding{Kind: "corr", Op: "corr:rows", Input: src, Impl: o.dump(), Model: ans.String(),
				Reason: fmt.Sprintf("row pass of group %d differs from model on %s", gi, req.String()), Seed: seed})
		}
	}
	return nil
}

func (rn *runner) one(t *tableSpec, seed uint64) error {
	out := rn.out
	src := t.html()
	var tb *bo.TableBox
	var lerr error
	oc := render.Guard(60*time.Second, func() {
		pages, _, err := render.LayoutOnly(src, rn.fonts, render.Opts{})
		if err != nil {
			lerr = err
			return
		}
		if len(pages) > 0 {
			tb = findTable(pages[0])
		}
	})
	mode := "auto"
	if t.fixed && t.specW != nil {
		mode = "fixed"
	}
	out.Hit("layout:" + mode)
	if !oc.OK() {
		out.Hit("crash-skipped")
		site := oc.Site
		if oc.Timeout {
			site = "timeout"
		}
		if _, ok := rn.crash[site]; !ok || len(src) < len(rn.crash[site]) {
			rn.crash[site] = fmt.Sprintf("%s :: %s", oc.Panic, src)
		}
		out.Count(src, false)
		return nil
	}
	if lerr != nil || tb == nil {
		out.Hit("no-table")
		out.Count(src, false)
		return nil
	}
	o := observe(t, tb)
	spans := 0
	for _, c := range o.cells {
		if c.cs > 1 || c.rs > 1 {
			spans++
		}
	}
	out.Count(src, len(o.cells) >= 2)
	out.Hit(fmt.Sprintf("cols=%d", len(tb.ColumnWidths)))
	out.Hit(fmt.Sprintf("rows=%d", o.nrows))
	if spans > 0 {
		out.Hit("has-spanning-cell")
	}
	if t.rtl {
		out.Hit("rtl")
	}
	if t.collapse {
		out.Hit("collapse")
	}
	if t.css {
		out.Hit("css-table")
	}
	if t.malformed {
		out.Hit("malformed-attrs")
	}
	if len(out.Samples) < 3 {
		out.Sample(map[string]interface{}{"html": src, "seed": seed})
	}

	// correspondence
	var modelCW []*big.Rat
	if mode == "fixed" {
		var err error
		if modelCW, err = rn.fixedCorr(t, o, src, seed); err != nil {
			return err
		}
	}
	if mode == "auto" {
		if err := rn.autoCorr(t, o, src, seed); err != nil {
			return err
		}
	}
	if err := rn.placeCorr(t, o, src, seed); err != nil {
		return err
	}
	if err := rn.rowsCorr(t, o, src, seed); err != nil {
		return err
	}
	if err := rn.groupsCorr(t, o, src, seed); err != nil {
		return err
	}

	// judge
	req := sx.L(sx.A("judge"), sx.A(judgeEps), o.gridX(t))
	ans, err := rn.m.Ask(req)
	if err != nil {
		return err
	}
	if isOK(ans) {
		out.Hit("judge:ok")
		return nil
	}
	if ans.K != sx.List || len(ans.Xs) != 3 || ans.Xs[0].S != "fail" {
		return fmt.Errorf("model: %s -> %s", req, ans)
	}
	var clauses []string
	for _, x := range ans.Xs[1].Xs {
		clauses = append(clauses, x.S)
	}
	sort.Strings(clauses)
	off := map[string][]int{}
	for _, x := range ans.Xs[2].Xs {
		for _, i := range x.Xs[1:] {
			k, _ := strconv.Atoi(i.S)
			off[x.Xs[0].S] = append(off[x.Xs[0].S], k)
		}
	}
	negModel := false
	for _, q := range modelCW {
		if q.Sign() < 0 {
			negModel = true
		}
	}
	// classification of each failing clause by a recognised mechanism (for known-findings matching);
	// anything not recognised stays "unexplained" and is reported
	var parts []string
	for _, cl := range clauses {
		parts = append(parts, cl+"="+rn.explain(t, o, mode, cl, off, negModel))
	}
	for i, pt := range parts {
		key := mode + ":" + pt
		out.Hit("judge-fail:" + key)
		if rn.specs != nil && strings.Contains(key, "unexplained") && t.raw == "" {
			if old := rn.specs[key]; old == nil || len(src) < len(old.html()) {
				rn.specs[key] = t
			}
		}
		rn.keep(res.Finding{Kind: "judge", Op: "judge:grid:" + clauses[i], Input: src, Impl: o.dump(),
			Reason: "GridConsistent fails: " + strings.Join(clauses, ", ") + " [" + strings.Join(parts, ", ") + "]", Key: key, Seed: seed})
	}
	return nil
}

const eps = 1.0 / 64

func inList(xs []int, i int) bool {
	for _, x := range xs {
		if x == i {
			return true
		}
	}
	return false
}

// explain names the mechanism behind a failing clause, or "unexplained".
func (rn *runner) explain(t *tableSpec, o *obs, mode, clause string, off map[string][]int, negModel bool) string {
	tb := o.table
	rowTracks := [][2]float64{}
	for _, g := range tb.Children {
		for _, row := range g.Box().Children {
			rowTracks = append(rowTracks, [2]float64{float64(row.Box().PositionY), float64(mf(row.Box().Height))})
		}
	}
	// a cell spanning several rows whose own bottom lies above the top of its last row, that row being empty (height 0)
	shortRowspan := func(i int) bool {
		c := o.cells[i]
		last := c.gy + c.rs - 1
		if c.rs < 2 || last >= len(rowTracks) {
			return false
		}
		bottom := float64(c.box.BorderBoxY() + c.box.BorderHeight())
		return rowTracks[last][1] == 0 && bottom <= rowTracks[last][0]+eps
	}
	allShort := len(off["cell-on-rows"]) > 0
	for _, i := range off["cell-on-rows"] {
		if !shortRowspan(i) {
			allShort = false
		}
	}
	switch clause {
	case "columns-fill":
		if mode == "auto" && o.sx > 0 {
			orig := map[int]bool{}
			for _, c := range o.cells {
				orig[c.gx] = true
			}
			empty := 0
			var sum float64
			for i, w := range tb.ColumnWidths {
				sum += float64(w)
				if !orig[i] {
					empty++
				}
			}
			n := len(tb.ColumnWidths)
			d := sum + o.sx*float64(n+1) - float64(mf(tb.Width)) - o.sx*float64(empty)
			if empty > 0 && d <= eps*float64(n+1) && d >= -eps*float64(n+1) {
				return "empty-column-spacing"
			}
		}
	case "specified-width":
		// autoTableLayout: "Reduce the width of the size from the excess width that has not been distributed":
		// the table is exactly as wide as its columns (+ the spacing it counts) and narrower than specified
		if mode == "auto" {
			orig := map[int]bool{}
			for _, c := range o.cells {
				orig[c.gx] = true
			}
			sum := o.sx
			for i, w := range tb.ColumnWidths {
				sum += float64(w)
				if orig[i] {
					sum += o.sx
				}
			}
			if d := sum - float64(mf(tb.Width)); len(tb.ColumnWidths) > 0 && d <= eps*8 && d >= -eps*8 {
				return "undistributed-excess-removed"
			}
		}
	case "cell-on-rows", "row-edges":
		if allShort {
			return "short-rowspan-cell"
		}
	case "overlap":
		if negModel {
			return "fixed-negative-column"
		}
	case "negative-size", "content-minimum":
		if negModel {
			return "fixed-negative-column"
		}
		idx := off[clause]
		ok := len(idx) > 0
		for _, i := range idx {
			b := o.cells[i].box
			if !(mf(b.Width) < 0 && b.BorderWidth() >= 0 && !inList(off["cell-on-columns"], i)) {
				ok = false
			}
			if clause == "content-minimum" {
				if cs := t.cells[o.cells[i].id]; cs != nil && cs.minWidth() > 0 && mode == "auto" {
					ok = false
				}
			}
		}
		if ok {
			return "padding-exceeds-column"
		}
	}
	if mode == "auto" && (clause == "content-minimum" || clause == "columns-fill") {
		// not explained by a mechanism: key the failure by the structural features of the table the
		// auto algorithm is known to mishandle, so that a failure on a table without any of them is
		// still reported as plain "unexplained"
		if sig := rn.signature(t, o, off[clause]); sig != "" {
			return "unexplained[" + sig + "]"
		}
	}
	return "unexplained"
}

// signature lists structural features of an auto-layout table (sorted, '+'-joined).
func (rn *runner) signature(t *tableSpec, o *obs, offenders []int) string {
	tb := o.table
	var fs []string
	pctCol, pxCol := false, false
	for _, g := range tb.ColumnGroups {
		boxes := []*bo.BoxFields{&g.BoxFields}
		for _, c := range g.Children {
			boxes = append(boxes, c.Box())
		}
		for _, b := range boxes {
			w := b.Style.GetWidth()
			if w.S == "auto" {
				continue
			}
			if w.Unit == pr.Perc {
				pctCol = true
			} else {
				pxCol = true
			}
		}
	}
	pctCell := false
	orig := map[int]bool{}
	slots := map[[2]int]int{}
	overlap := false
	for _, c := range o.cells {
		orig[c.gx] = true
		if w := c.box.Style.GetWidth(); w.S != "auto" && w.Unit == pr.Perc {
			pctCell = true
		}
		for x := c.gx; x < c.gx+c.cs; x++ {
			for y := c.gy; y < c.gy+c.rs; y++ {
				slots[[2]int{x, y}]++
				if slots[[2]int{x, y}] > 1 {
					overlap = true
				}
			}
		}
	}
	emptyCol := false
	for i := range tb.ColumnWidths {
		if !orig[i] {
			emptyCol = true
		}
	}
	_ = overlap
	_ = pxCol
	// one class per failure: percentage widths dominate, then columns without originating cell
	allSpanning := len(offenders) > 0
	for _, i := range offenders {
		if o.cells[i].cs < 2 {
			allSpanning = false
		}
	}
	switch {
	case allSpanning:
		// only cells with colspan > 1 are too narrow: their min-content was not (fully) distributed to the columns
		fs = append(fs, "spanning-cell")
	case pctCell || pctCol:
		fs = append(fs, "pct-width")
	case emptyCol:
		fs = append(fs, "column-without-originating-cell")
	}
	return strings.Join(fs, "+")
}

func (t *tableSpec) clone() *tableSpec {
	c := *t
	c.style = append([]string{}, t.style...)
	c.cells = map[string]*cellSpec{}
	c.groups = nil
	for _, g := range t.groups {
		ng := &groupSpec{kind: g.kind}
		for _, row := range g.rows {
			nr := &rowSpec{style: append([]string{}, row.style...)}
			for _, cell := range row.cells {
				nc := *cell
				nc.style = append([]string{}, cell.style...)
				nc.words = append([]int{}, cell.words...)
				nr.cells = append(nr.cells, &nc)
				c.cells[nc.id] = &nc
			}
			ng.rows = append(ng.rows, nr)
		}
		c.groups = append(c.groups, ng)
	}
	c.cols = nil
	for _, col := range t.cols {
		nc := *col
		nc.children = append([]*colSpec{}, col.children...)
		c.cols = append(c.cols, &nc)
	}
	return &c
}

// fails reports whether the judge still fails on t with the given finding key.
func (rn *runner) fails(t *tableSpec, key string) bool {
	scratch := &runner{m: rn.m, out: res.New("C13", "shrink", 0), fonts: rn.fonts, crash: map[string]string{}, kept: map[string][]res.Finding{}}
	if err := scratch.one(t, 0); err != nil {
		return false
	}
	return len(scratch.kept[key]) > 0
}

func dropStr(xs []string, i int) []string {
	return append(append([]string{}, xs[:i]...), xs[i+1:]...)
}

// semantic table-level declarations mirrored in tableSpec fields: the shrinker leaves them alone
func semantic(decl string) bool {
	for _, p := range []string{"width:", "table-layout:", "border-collapse:", "border-spacing:", "direction:", "box-sizing:", "display:"} {
		if strings.HasPrefix(decl, p) {
			return true
		}
	}
	return false
}

// shrink greedily removes groups, rows, cells, columns, attributes, contents and declarations while the
// judge keeps failing with the same key (delta debugging over the generator's own structure).
func (rn *runner) shrink(t *tableSpec, key string) *tableSpec {
	cur := t.clone()
	try := func(mut func(c *tableSpec) bool) bool {
		c := cur.clone()
		if !mut(c) {
			return false
		}
		if rn.fails(c, key) {
			cur = c
			return true
		}
		return false
	}
	for pass := 0; pass < 6; pass++ {
		changed := false
		for gi := len(cur.groups) - 1; gi >= 0; gi-- {
			gi := gi
			if try(func(c *tableSpec) bool { c.groups = append(c.groups[:gi:gi], c.groups[gi+1:]...); return true }) {
				changed = true
				continue
			}
			for ri := len(cur.groups[gi].rows) - 1; ri >= 0; ri-- {
				ri := ri
				if try(func(c *tableSpec) bool {
					g := c.groups[gi]
					g.rows = append(g.rows[:ri:ri], g.rows[ri+1:]...)
					return true
				}) {
					changed = true
					continue
				}
				if try(func(c *tableSpec) bool {
					r := c.groups[gi].rows[ri]
					if len(r.style) == 0 || (c.css && len(r.style) == 1) {
						return false
					}
					r.style = r.style[:len(r.style)-1]
					return true
				}) {
					changed = true
				}
				for ci := len(cur.groups[gi].rows[ri].cells) - 1; ci >= 0; ci-- {
					ci := ci
					cell := func(c *tableSpec) *cellSpec { return c.groups[gi].rows[ri].cells[ci] }
					if try(func(c *tableSpec) bool {
						r := c.groups[gi].rows[ri]
						r.cells = append(r.cells[:ci:ci], r.cells[ci+1:]...)
						return true
					}) {
						changed = true
						continue
					}
					ops := []func(c *tableSpec) bool{
						func(c *tableSpec) bool {
							x := cell(c)
							if x.colspan == "" {
								return false
							}
							x.colspan = ""
							return true
						},
						func(c *tableSpec) bool {
							x := cell(c)
							if x.rowspan == "" {
								return false
							}
							x.rowspan = ""
							return true
						},
						func(c *tableSpec) bool {
							x := cell(c)
							if x.blockW == 0 {
								return false
							}
							x.blockW, x.blockH = 0, 0
							return true
						},
						func(c *tableSpec) bool {
							x := cell(c)
							if len(x.words) < 2 {
								return false
							}
							x.words = x.words[:1]
							return true
						},
						func(c *tableSpec) bool {
							x := cell(c)
							if x.tag != "th" {
								return false
							}
							x.tag = "td"
							return true
						},
					}
					for _, op := range ops {
						if try(op) {
							changed = true
						}
					}
					for si := len(cur.groups[gi].rows[ri].cells[ci].style) - 1; si >= 0; si-- {
						si := si
						if try(func(c *tableSpec) bool {
							x := cell(c)
							if strings.HasPrefix(x.style[si], "display:") {
								return false
							}
							x.style = dropStr(x.style, si)
							return true
						}) {
							changed = true
						}
					}
				}
			}
		}
		for i := len(cur.cols) - 1; i >= 0; i-- {
			i := i
			if try(func(c *tableSpec) bool { c.cols = append(c.cols[:i:i], c.cols[i+1:]...); return true }) {
				changed = true
			}
		}
		for si := len(cur.style) - 1; si >= 0; si-- {
			si := si
			if try(func(c *tableSpec) bool {
				if semantic(c.style[si]) {
					return false
				}
				c.style = dropStr(c.style, si)
				return true
			}) {
				changed = true
			}
		}
		for _, op := range []func(c *tableSpec) bool{
			func(c *tableSpec) bool {
				if !c.captionTop {
					return false
				}
				c.captionTop = false
				return true
			},
			func(c *tableSpec) bool {
				if !c.captionBot {
					return false
				}
				c.captionBot = false
				return true
			},
			func(c *tableSpec) bool {
				if !c.rtl {
					return false
				}
				c.rtl = false
				for i, d := range c.style {
					if d == "direction:rtl" {
						c.style = dropStr(c.style, i)
						break
					}
				}
				return true
			},
			func(c *tableSpec) bool {
				if !c.collapse {
					return false
				}
				c.collapse = false
				for i, d := range c.style {
					if d == "border-collapse:collapse" {
						c.style = dropStr(c.style, i)
						break
					}
				}
				return true
			},
			func(c *tableSpec) bool {
				if c.bodyWidth == 600 {
					return false
				}
				c.bodyWidth = 600
				if c.widthKind == "pct" {
					return false
				}
				return true
			},
			func(c *tableSpec) bool {
				if len(c.cellStyle) == 0 {
					return false
				}
				c.cellStyle = c.cellStyle[:len(c.cellStyle)-1]
				return true
			},
		} {
			if try(op) {
				changed = true
			}
		}
		if !changed {
			break
		}
	}
	return cur
}

// corpusCase is one minimised past failure (corpus/C13/*.json), replayed before the generated cases.
type corpusCase struct {
	HTML      string   `json:"html"`
	Fixed     bool     `json:"fixed"`
	RTL       bool     `json:"rtl"`
	Collapse  bool     `json:"collapse"`
	SX        float64  `json:"sx"`
	SY        float64  `json:"sy"`
	SpecW     *float64 `json:"specW"`
	BorderBox bool     `json:"borderBox"`
	Note      string   `json:"note"`
}

func (rn *runner) corpus(dir string) error {
	files, _ := filepath.Glob(filepath.Join(dir, "*.json"))
	sort.Strings(files)
	for _, f := range files {
		b, err := os.ReadFile(f)
		if err != nil {
			return err
		}
		var c corpusCase
		if err := json.Unmarshal(b, &c); err != nil {
			return fmt.Errorf("%s: %w", f, err)
		}
		t := &tableSpec{raw: c.HTML, fixed: c.Fixed, rtl: c.RTL, collapse: c.Collapse, sx: c.SX, sy: c.SY, specW: c.SpecW,
			borderBox: c.BorderBox, cells: map[string]*cellSpec{}}
		rn.out.Hit("corpus")
		if err := rn.one(t, 0); err != nil {
			return err
		}
	}
	return nil
}

// Run is the runner entry.
func Run(tier string, seed uint64, modelPath, repo string, out *res.Result) error {
	m, err := mp.Start(modelPath)
	if err != nil {
		return err
	}
	defer m.Close()
	render.Quiet()
	fonts, err := render.NewFonts(repo)
	if err != nil {
		return err
	}
	n := 5000
	if tier == "thorough" {
		n = 200000
	}
	out.Rule = "generated tables (<=6x6 cells; colspan/rowspan absent, 0, in range, overflowing, malformed; col/colgroup with span and px/% widths; " +
		"captions; thead/tbody/tfoot incl. footer-first and empty groups; table or div+display markup) x cell contents (Ahem words 20px/10px, " +
		"fixed-size blocks, empty; width/height/padding/border/vertical-align) x table width auto/px/% x table-layout x border-spacing x " +
		"border-collapse x direction x container width; each laid out by the real pipeline on one tall page; judged by GridConsistent (eps 1/64 px) " +
		"and compared with the model (fixed layout, column/cell placement, row pass; tolerance 2^-16 relative); " +
		"non-trivial = at least two cells were laid out; distinct by document text"
	rn := &runner{m: m, out: out, fonts: fonts, crash: map[string]string{}, kept: map[string][]res.Finding{}, specs: map[string]*tableSpec{}}
	if doc := os.Getenv("VERIF_C13_HTML"); doc != "" {
		// debugging aid: lay out one given document and print the observed geometry
		pages, _, err := render.LayoutOnly(doc, fonts, render.Opts{})
		if err != nil {
			return err
		}
		tb := findTable(pages[0])
		o := observe(&tableSpec{cells: map[string]*cellSpec{}}, tb)
		b, _ := json.MarshalIndent(o.dump(), "", " ")
		fmt.Fprintln(os.Stderr, string(b))
		return nil
	}
	dir := os.Getenv("VERIF_C13_CORPUS")
	if dir == "" {
		dir = "/verif/corpus/C13"
	}
	if err := rn.corpus(dir); err != nil {
		return err
	}
	r := rng.New(seed)
	for i := 0; i < n; i++ {
		cr := r.Sub()
		caseSeed := cr.Seed()
		t := genTable(cr)
		if err := rn.one(t, caseSeed); err != nil {
			return err
		}
	}
	// shrink one failing table per unexplained class and put it first
	for key, spec := range rn.specs {
		small := rn.shrink(spec, key)
		scratch := &runner{m: rn.m, out: res.New("C13", "shrink", 0), fonts: rn.fonts, crash: map[string]string{}, kept: map[string][]res.Finding{}}
		if err := scratch.one(small, 0); err == nil && len(scratch.kept[key]) > 0 {
			f := scratch.kept[key][0]
			f.Reason += " (input shrunk by the harness)"
			rn.kept[key] = append([]res.Finding{f}, rn.kept[key]...)
			if len(rn.kept[key]) > 3 {
				rn.kept[key] = rn.kept[key][:3]
			}
		}
	}
	var ks []string
	for k := range rn.kept {
		ks = append(ks, k)
	}
	sort.Strings(ks)
	for _, k := range ks {
		for _, f := range rn.kept[k] {
			out.Add(f)
		}
	}
	var sites []string
	for s := range rn.crash {
		sites = append(sites, s)
	}
	sort.Strings(sites)
	for _, s := range sites {
		out.Notes = append(out.Notes, "crash-skipped (belongs to C01) at "+s+": "+rn.crash[s])
	}
	out.ModelCalls = m.N
	return nil
}
