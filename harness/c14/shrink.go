package c14

import (
	"regexp"
	"strings"
)

var chunkRe = regexp.MustCompile(`<[^<>]*>|[^<>;]+;?|;`)

// tokens splits an HTML text into tags (further split at ';' so that single declarations of a
// style attribute can go) and text runs.
func tokens(s string) []string {
	var out []string
	for _, t := range chunkRe.FindAllString(s, -1) {
		if strings.HasPrefix(t, "<") && strings.Contains(t, ";") {
			parts := strings.SplitAfter(t, ";")
			out = append(out, parts...)
		} else {
			out = append(out, t)
		}
	}
	return out
}

// shrink is a plain ddmin over the chunks of the document text: keep is true when the reduced text
// still shows the same failure.  At most budget evaluations.
func shrink(html string, budget int, keep func(string) bool) string {
	toks := tokens(html)
	n := 2
	for len(toks) >= 2 && budget > 0 {
		size := (len(toks) + n - 1) / n
		reduced := false
		for i := 0; i < len(toks) && budget > 0; i += size {
			end := i + size
			if end > len(toks) {
				end = len(toks)
			}
			cand := append(append([]string{}, toks[:i]...), toks[end:]...)
			budget--
			if keep(strings.Join(cand, "")) {
				toks = cand
				if n > 2 {
					n--
				}
				reduced = true
				break
			}
		}
		if !reduced {
			if size == 1 {
				break
			}
			n *= 2
			if n > len(toks) {
				n = len(toks)
			}
		}
	}
	return strings.Join(toks, "")
}
