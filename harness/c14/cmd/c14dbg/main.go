// Command c14dbg: debugging aid of the C14 builder — renders stdin (zoom = argv[1], default 1) on the
// C14 recording backend and prints the indented trace and the non-finite call sites.
package main

import (
	"fmt"
	"io"
	"os"
	"strconv"

	"wrverif/c14"
)

func main() {
	src, _ := io.ReadAll(os.Stdin)
	z := 1.0
	if len(os.Args) > 1 {
		z, _ = strconv.ParseFloat(os.Args[1], 64)
	}
	fmt.Print(c14.Debug(string(src), z, "/repo"))
}
