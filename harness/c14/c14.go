// Package c14: correspondence and judge runs for property C14 (the backend receives a well-formed,
// self-consistent drawing).
//
//	L1  resolveLinks / makeBookmarkTree through hooks on synthetic pages   vs  WR.C14 models [corr]
//	    and vs the property's statement (links-judge, bookmarks-judge)                      [judge]
//	L2  generated documents rendered and written onto a recording backend:
//	    the call sequence is JUDGED by the Lean monitor WR.C14.accepts (the proved automaton),
//	    every number must be finite, one AddPage per laid-out page in order,
//	    anchors / links / bookmarks / metadata vs the models computed from the laid-out pages [corr]
//	    and vs the property's statement                                                      [judge]
package c14

import (
	"encoding/json"
	"fmt"
	"math"
	"os"
	"path/filepath"
	"sort"
	"strings"
	"time"

	"github.com/benoitkugler/webrender/backend"
	bo "github.com/benoitkugler/webrender/html/boxes"
	"github.com/benoitkugler/webrender/html/document"
	mt "github.com/benoitkugler/webrender/matrix"
	"github.com/benoitkugler/webrender/text"
	"github.com/benoitkugler/webrender/utils"

	pr "github.com/benoitkugler/webrender/css/properties"

	"wrverif/mp"
	"wrverif/render"
	"wrverif/res"
	"wrverif/rng"
	"wrverif/sx"
)

// Run is the runner entry.
func Run(tier string, seed uint64, modelPath, repo string, out *res.Result) error {
	m, err := mp.Start(modelPath)
	if err != nil {
		return err
	}
	defer m.Close()
	r := rng.New(seed)
	nLinks, nBk, nDocs := 4000, 6000, 1600
	if tier == "thorough" {
		nLinks, nBk, nDocs = 150000, 250000, 20000
	}
	if tier == "smoke" { // builder's iteration aid
		nLinks, nBk, nDocs = 200, 200, 500
	}
	out.Rule = "L1: random page lists (<=5 pages, anchor names from a pool of 5 incl. the empty name, internal/external/attachment links incl. dangling) through resolveLinks, " +
		"random bookmark-level lists (length<=12, levels 1..9 jumping both ways, 3% with levels<=0) through makeBookmarkTree, compared with the Lean models (exact per-page anchor sequence) and judged; corpus documents first; " +
		"L2: generated HTML documents (headings/ids incl. duplicates, internal/dangling/external links, bookmark CSS, metadata with leading/trailing/inner whitespace of every kind and whitespace-only or empty first titles, SVG clip paths and masks whose children draw nothing, dash arrays summing to zero with negative/huge offsets, transforms, backgrounds/gradients/images, all border styles, " +
		"radii, outlines, text decorations, tables, lists, columns, inline SVG with unique fill colours, font-family lists mixing Ahem/weasyprint with DejaVu Sans/Serif/Mono and texts mixing ASCII with Greek/Cyrillic/arrows/box drawing (several fonts per DrawText) in paragraphs, bold/italic spans, SVG <text> and margin boxes, page breaks, bleed/marks, zoom 0.5/1/2) written onto a recording backend; " +
		"the call sequence is judged by the Lean monitor; non-trivial = L1 case with >=2 entries / document with >=40 backend calls; distinct by input text"
	render.Quiet()
	t0 := time.Now()
	if err := runLinksL1(m, r.Sub(), nLinks, out); err != nil {
		return err
	}
	t1 := time.Now()
	if err := runBookmarksL1(m, r.Sub(), nBk, out); err != nil {
		return err
	}
	t2 := time.Now()
	fonts, err := render.NewFonts(repo)
	if err != nil {
		return err
	}
	if err := runDocs(m, r.Sub(), nDocs, fonts, out); err != nil {
		return err
	}
	out.ModelCalls = m.N
	out.Notes = append(out.Notes, fmt.Sprintf("timing: L1 resolveLinks %d cases %.1fs, L1 makeBookmarkTree %d cases %.1fs, L2 %d documents %.1fs (render+write %.1fs incl. shrinking, monitor %.1fs, shrinking %.1fs)",
		nLinks, t1.Sub(t0).Seconds(), nBk, t2.Sub(t1).Seconds(), nDocs, time.Since(t2).Seconds(), tRender.Seconds(), tMonitor.Seconds(), tShrink.Seconds()))
	return nil
}

// ---------------------------------------------------------------------------------------------
// L1 links

type nameWho struct {
	name string
	who  int
}

func pairsX(ps []nameWho) sx.X {
	xs := make([]sx.X, len(ps))
	for i, p := range ps {
		xs[i] = sx.L(sx.S(p.name), sx.I(p.who))
	}
	return sx.L(xs...)
}

func linkX(l document.Link) sx.X {
	t := "e"
	switch l.Type {
	case "internal":
		t = "i"
	case "attachment":
		t = "a"
	}
	return sx.L(sx.A(t), sx.S(l.Target))
}

func linksX(ls []document.Link) sx.X {
	xs := make([]sx.X, len(ls))
	for i, l := range ls {
		xs[i] = linkX(l)
	}
	return sx.L(xs...)
}

func listX(xs []sx.X) sx.X { return sx.L(xs...) }

func sortPairs(ps []nameWho) {
	sort.Slice(ps, func(i, j int) bool {
		if ps[i].name != ps[j].name {
			return ps[i].name < ps[j].name
		}
		return ps[i].who < ps[j].who
	})
}

// text of per-page anchors, in the exact per-page order (deterministic since resolveLinks sorts the names)
func canonAnchors(pages [][]nameWho) string {
	var b strings.Builder
	for _, p := range pages {
		fmt.Fprintf(&b, "%v|", p)
	}
	return b.String()
}

func parsePairsPages(x sx.X) [][]nameWho {
	var out [][]nameWho
	for _, p := range x.Xs {
		var ps []nameWho
		for _, e := range p.Xs {
			var w int
			fmt.Sscan(e.Xs[1].S, &w)
			ps = append(ps, nameWho{e.Xs[0].S, w})
		}
		out = append(out, ps)
	}
	return out
}

func runLinksL1(m *mp.Model, r *rng.R, n int, out *res.Result) error {
	names := []string{"a", "b", "c", "", "dd"}
	for i := 0; i < n; i++ {
		cr := r.Sub()
		np := cr.Range(0, 5)
		var pages []document.Page
		var maps, linkReq []sx.X
		var candPages [][]nameWho
		var inLinks [][]document.Link
		for p := 0; p < np; p++ {
			var an []string
			var ap [][2]fl
			var ps []nameWho
			used := map[string]bool{}
			for j, k := 0, cr.Range(0, 4); j < k; j++ {
				nm := rng.Pick(cr, names...)
				if used[nm] {
					continue
				}
				used[nm] = true
				who := p*100 + j
				an, ap = append(an, nm), append(ap, [2]fl{fl(who), 1})
				ps = append(ps, nameWho{nm, who})
			}
			sortPairs(ps)
			var ls []document.Link
			for j, k := 0, cr.Range(0, 4); j < k; j++ {
				ls = append(ls, document.Link{Type: rng.Pick(cr, "internal", "internal", "external", "attachment"), Target: rng.Pick(cr, "a", "b", "c", "", "dd", "zz")})
			}
			pages = append(pages, document.VerifC14NewPage(an, ap, ls, nil))
			maps, linkReq = append(maps, pairsX(ps)), append(linkReq, linksX(ls))
			candPages, inLinks = append(candPages, ps), append(inLinks, ls)
		}
		doc := document.Document{Pages: pages}
		var gotL [][]document.Link
		var gotA [][]backend.Anchor
		oc := render.Guard(0, func() { gotL, gotA = doc.VerifResolveLinks() }) // pure, bounded loops: no wall-clock limit (machine load)
		req := sx.L(sx.A("resolve"), listX(maps), listX(linkReq))
		key := req.String()
		out.Count(key, np >= 2)
		out.Hit("L1:resolveLinks")
		if !oc.OK() {
			out.Add(res.Finding{Kind: "judge", Op: "judge:resolveLinks-crash", Input: key, Reason: oc.Panic, Key: oc.Site})
			continue
		}
		ans, err := m.Ask(req)
		if err != nil {
			return err
		}
		if ans.Head() != "ok" {
			return fmt.Errorf("model rejected %s: %s", key, ans)
		}
		var implA [][]nameWho
		var outA, outL []sx.X
		for _, pa := range gotA {
			var ps []nameWho
			for _, a := range pa {
				ps = append(ps, nameWho{a.Name, int(a.X)})
			}
			implA = append(implA, ps)
			outA = append(outA, pairsX(ps))
		}
		for _, pl := range gotL {
			outL = append(outL, linksX(pl))
		}
		modelA := parsePairsPages(ans.Xs[1])
		if canonAnchors(implA) != canonAnchors(modelA) || listX(outL).String() != ans.Xs[2].String() {
			out.Add(res.Finding{Kind: "corr", Op: "corr:resolveLinks", Input: key, Impl: canonAnchors(implA) + " " + listX(outL).String(), Model: ans.String()})
		}
		// judge: the page maps are the candidates (names are unique per page)
		j, err := m.Ask(sx.L(sx.A("links-judge"), listX(maps), listX(linkReq), listX(outA), listX(outL)))
		if err != nil {
			return err
		}
		if j.Head() != "ok" || j.Xs[1].S != "1" || j.Xs[2].S != "1" {
			// the empty name in a page map is an input gatherLinksAndBookmarks never produces
			hasEmpty := false
			for _, p := range candPages {
				for _, c := range p {
					hasEmpty = hasEmpty || c.name == ""
				}
			}
			if !hasEmpty {
				out.Add(res.Finding{Kind: "judge", Op: "judge:links", Input: key, Impl: listX(outA).String() + " " + listX(outL).String(), Reason: "anchors-ok,links-ok = " + j.String()})
			}
		}
		if i < 1 {
			out.Sample(map[string]string{"request": key, "model": ans.String()})
		}
	}
	return nil
}

// ---------------------------------------------------------------------------------------------
// L1 bookmarks

type flatBk struct {
	depth int
	label string
	page  int
}

func flatten(ns []backend.BookmarkNode, d int, acc *[]flatBk) {
	for _, n := range ns {
		*acc = append(*acc, flatBk{d, n.Label, n.PageIndex})
		flatten(n.Children, d+1, acc)
	}
}

func intsX(xs []int) []sx.X {
	out := make([]sx.X, len(xs))
	for i, v := range xs {
		out[i] = sx.I(v)
	}
	return out
}

func runBookmarksL1(m *mp.Model, r *rng.R, n int, out *res.Result) error {
	for i := 0; i < n; i++ {
		cr := r.Sub()
		k := cr.Range(0, 12)
		bad := cr.P(3, 100)
		var levels []int
		maxL := rng.Pick(cr, 3, 6, 9)
		for j := 0; j < k; j++ {
			l := cr.Range(1, maxL)
			if bad && cr.P(1, 3) {
				l = cr.Range(-2, 0)
			}
			levels = append(levels, l)
		}
		// spread over pages
		np := cr.Range(1, 3)
		pages := make([][]document.VerifC14Bookmark, np)
		wantPage := make([]int, k)
		p := 0
		for j, l := range levels {
			if p < np-1 && cr.P(1, 3) {
				p++
			}
			wantPage[j] = p
			pages[p] = append(pages[p], document.VerifC14Bookmark{Label: fmt.Sprint("b", j), Level: l, X: fl(j), Y: 2})
		}
		var ps []document.Page
		for _, bs := range pages {
			ps = append(ps, document.VerifC14NewPage(nil, nil, nil, bs))
		}
		doc := document.Document{Pages: ps}
		var tree []backend.BookmarkNode
		oc := render.Guard(0, func() { tree = doc.VerifMakeBookmarkTree() }) // pure, bounded loops: no wall-clock limit (machine load)
		req := sx.L(append([]sx.X{sx.A("bookmarks")}, intsX(levels)...)...)
		key := req.String()
		out.Count(key, k >= 2)
		out.Hit("L1:makeBookmarkTree")
		ans, err := m.Ask(req)
		if err != nil {
			return err
		}
		if !oc.OK() {
			out.Hit("L1:makeBookmarkTree:panic")
			if !bad {
				out.Add(res.Finding{Kind: "judge", Op: "judge:bookmarks-panic", Input: key, Reason: oc.Panic, Key: oc.Site})
			} else if ans.Head() != "panic" {
				out.Add(res.Finding{Kind: "corr", Op: "corr:makeBookmarkTree", Input: key, Impl: "panic: " + oc.Panic, Model: ans.String()})
			}
			continue
		}
		var fb []flatBk
		flatten(tree, 1, &fb)
		var depths []int
		okOrder := len(fb) == k
		for j, b := range fb {
			depths = append(depths, b.depth)
			if okOrder && (b.label != fmt.Sprint("b", j) || b.page != wantPage[j]) {
				okOrder = false
			}
		}
		impl := sx.L(append([]sx.X{sx.A("ok")}, intsX(depths)...)...).String()
		if ans.String() != impl {
			out.Add(res.Finding{Kind: "corr", Op: "corr:makeBookmarkTree", Input: key, Impl: impl, Model: ans.String()})
		}
		if !bad {
			j, err := m.Ask(sx.L(sx.A("bookmarks-judge"), sx.L(intsX(levels)...), sx.L(intsX(depths)...)))
			if err != nil {
				return err
			}
			if !okOrder || j.Head() != "ok" || j.Xs[1].S != "1" {
				out.Add(res.Finding{Kind: "judge", Op: "judge:bookmarks", Input: key, Impl: impl, Reason: fmt.Sprintf("preorder/labels/pages ok=%v, outline judge=%s", okOrder, j)})
			}
		}
		if i < 1 {
			out.Sample(map[string]string{"request": key, "model": ans.String()})
		}
	}
	return nil
}

// ---------------------------------------------------------------------------------------------
// L2 documents

type cand struct {
	name string
	x, y float64 // expected position handed to CreateAnchors (after Write's scaling)
}

type pageFacts struct {
	cands []cand          // boxes with an id, tree order
	links []document.Link // links gathered, tree order
	bks   []bkFact
	texts map[string]bool
}

type bkFact struct {
	level int
	label string
}

func hasIDAttr(b *bo.BoxFields) bool {
	if b.Element == nil {
		return false
	}
	for _, a := range b.Element.Attr {
		if a.Key == "id" {
			return true
		}
	}
	return false
}

// gather mirrors the *selection* rules of gatherLinksAndBookmarks on the laid-out tree (which boxes
// are candidates, in which order); what is then done with the candidates is the Lean model's job.
func gather(box bo.Box, matrix *mt.Transform, pf *pageFacts) {
	if t, ok := document.VerifGetMatrix(box); ok {
		if matrix != nil {
			m := mt.Mul(*matrix, t)
			matrix = &m
		} else {
			matrix = &t
		}
	}
	b := box.Box()
	if tb, ok := box.(*bo.TextBox); ok {
		pf.texts[strings.TrimSpace(tb.TextS())] = true
	}
	name := string(b.Style.GetAnchor())
	if name != "" || hasIDAttr(b) {
		x, y, _, _ := bo.HitArea(box).Unpack()
		if matrix != nil {
			x, y = matrix.Apply(x, y)
		}
		pf.cands = append(pf.cands, cand{name, float64(x), float64(y)})
	}
	link := b.Style.GetLink()
	if !link.IsNone() && !(bo.TextT.IsInstance(box) || bo.LineT.IsInstance(box)) {
		t := link.Name
		if t == "external" && b.IsAttachment() {
			t = "attachment"
		}
		pf.links = append(pf.links, document.Link{Type: t, Target: link.String})
	}
	lvl := 0
	if l := b.Style.GetBookmarkLevel(); l.Tag != pr.None {
		lvl = l.I
	}
	if b.BookmarkLabel != "" && lvl != 0 {
		pf.bks = append(pf.bks, bkFact{lvl, b.BookmarkLabel})
	}
	for _, c := range box.AllChildren() {
		gather(c, matrix, pf)
	}
}

func near(a, b float64) bool { return math.Abs(a-b) <= 1e-3*math.Max(1, math.Abs(b)) }

type crashNote struct {
	site string
	n    int
	ex   string
}

func runDocs(m *mp.Model, r *rng.R, n int, fonts text.FontConfiguration, out *res.Result) error {
	crashes := map[string]*crashNote{}
	shrunk := map[string]int{}
	printed := map[string]bool{}
	// corpus: minimised past failures, replayed first (a regression is reported like any other finding)
	if exe, err := os.Executable(); err == nil {
		files, _ := filepath.Glob(filepath.Join(filepath.Dir(filepath.Dir(exe)), "corpus", "C14", "*.json"))
		sort.Strings(files)
		for _, fn := range files {
			var c struct {
				Name, What, HTML string
				Zoom             float64
				SvgKinds         map[string]string `json:"svg_kinds"` // "rrggbb" fill colour -> svg element kind
			}
			data, err := os.ReadFile(fn)
			if err != nil || json.Unmarshal(data, &c) != nil || c.HTML == "" {
				return fmt.Errorf("corpus file %s: unreadable or empty", fn)
			}
			if c.Zoom == 0 {
				c.Zoom = 1
			}
			kinds := map[[3]uint8]string{}
			for hex, k := range c.SvgKinds {
				var r, g, b uint8
				fmt.Sscanf(hex, "%02x%02x%02x", &r, &g, &b)
				kinds[[3]uint8{r, g, b}] = k
			}
			fs, err := check(m, &docSpec{HTML: c.HTML, Zoom: c.Zoom, SvgKinds: kinds}, 0, fonts, nil, nil)
			if err != nil {
				return err
			}
			out.Hit("corpus")
			for _, f := range fs {
				if f.Op == "judge:metadata" {
					continue // corpus documents carry no expected metadata
				}
				f.Reason = "corpus case " + c.Name + ": " + f.Reason
				out.Add(f)
			}
		}
		out.Notes = append(out.Notes, fmt.Sprintf("corpus: %d minimised past failures replayed first", len(files)))
	}
	for i := 0; i < n; i++ {
		cr := r.Sub()
		caseSeed := cr.Seed()
		spec := genDoc(cr)
		fs, err := check(m, spec, caseSeed, fonts, out, crashes)
		if err != nil {
			return err
		}
		for _, f := range fs {
			cls := f.Kind + "|" + f.Op + "|" + f.Key
			// classes attributed to one SVG node by its colour are specific as they are: minimise the first two;
			// the others are minimised (up to 25 per class) so that known-finding patterns see the culprit alone
			lim := 6
			if strings.Contains(f.Key, ":svg:") {
				lim = 2
			}
			if f.Op == "judge:metadata" {
				lim = 0 // the expected metadata belong to the generated document: a reduced text has other metadata
			}
			if shrunk[cls] < lim {
				// minimise the first documents of every class (ddmin over the document text, same class must persist)
				shrunk[cls]++
				ts := time.Now()
				small := shrink(spec.HTML, 150, func(h string) bool {
					s2 := *spec
					s2.HTML = h
					gs, err := check(m, &s2, caseSeed, fonts, nil, nil)
					if err != nil {
						return false
					}
					for _, g := range gs {
						if g.Kind == f.Kind && g.Op == f.Op && g.Key == f.Key {
							return true
						}
					}
					return false
				})
				tShrink += time.Since(ts)
				s2 := *spec
				s2.HTML = small
				if gs, err := check(m, &s2, caseSeed, fonts, nil, nil); err == nil {
					for _, g := range gs {
						if g.Kind == f.Kind && g.Op == f.Op && g.Key == f.Key {
							g.Reason += fmt.Sprintf(" [minimised from a %d-byte document]", len(spec.HTML))
							f = g
							break
						}
					}
				}
			}
			if os.Getenv("VERIF_C14_DEBUG") != "" && shrunk[cls] <= 2 && !printed[cls+fmt.Sprint(shrunk[cls])] {
				printed[cls+fmt.Sprint(shrunk[cls])] = true
				fmt.Fprintf(os.Stderr, "FINDING %s | %s | %s\n  %s\n  %v\n", f.Kind, f.Op, f.Key, f.Reason, f.Input)
			}
			out.Add(f)
		}
		if i < 2 {
			out.Sample(map[string]interface{}{"html": spec.HTML, "zoom": spec.Zoom, "seed": caseSeed})
		}
	}
	var sites []string
	for s := range crashes {
		sites = append(sites, s)
	}
	sort.Strings(sites)
	for _, s := range sites {
		c := crashes[s]
		out.Notes = append(out.Notes, fmt.Sprintf("crash-skipped (belongs to C01): %dx at %s, e.g. %s", c.n, c.site, c.ex))
	}
	return nil
}

var tRender, tMonitor, tShrink time.Duration

func renderDoc(spec *docSpec, fonts text.FontConfiguration, d time.Duration) (*render.Doc, *Rec, render.Outcome, error) {
	t0 := time.Now()
	defer func() { tRender += time.Since(t0) }()
	var doc *render.Doc
	var rerr error
	var rec *Rec
	oc := render.Guard(d, func() {
		doc, rerr = render.Full(spec.HTML, fonts, render.Opts{NoWrite: true, Fetcher: utils.DefaultUrlFetcher})
		if rerr == nil {
			rec = NewRec()
			doc.Out.Write(rec, utils.Fl(spec.Zoom), nil)
		}
	})
	return doc, rec, oc, rerr
}

// check renders one document and evaluates every judge and correspondence on it.  out == nil: no
// statistics are recorded (used while shrinking).
func check(m *mp.Model, spec *docSpec, caseSeed uint64, fonts text.FontConfiguration, out *res.Result, crashes map[string]*crashNote) ([]res.Finding, error) {
	var fs []res.Finding
	hit := func(b string) {
		if out != nil {
			out.Hit(b)
		}
	}
	doc, rec, oc, rerr := renderDoc(spec, fonts, 10*time.Second)
	if oc.Timeout {
		// other builders load the machine: confirm alone with a longer budget
		doc, rec, oc, rerr = renderDoc(spec, fonts, 45*time.Second)
	}
	if !oc.OK() || rerr != nil {
		site := oc.Site
		if oc.Timeout {
			site = "timeout"
		} else if rerr != nil {
			site = "error:" + rerr.Error()
		}
		hit("crash-skipped")
		if crashes == nil {
			return nil, nil
		}
		c := crashes[site]
		if c == nil {
			ex := spec.HTML
			if len(ex) > 700 {
				ex = ex[:700] + "…"
			}
			c = &crashNote{site: site, ex: fmt.Sprintf("seed=%d panic=%q html=%s", caseSeed, oc.Panic, ex)}
			crashes[site] = c
		}
		c.n++
		return nil, nil
	}
	if out != nil {
		out.Count(spec.HTML, len(rec.Events) >= 40)
		for _, f := range uniq(spec.Features) {
			out.Hit("doc:" + f)
		}
		out.Hit(fmt.Sprintf("doc:pages=%d", minInt(len(doc.Pages), 6)))
		out.Hit(fmt.Sprintf("doc:zoom=%v", spec.Zoom))
		out.Hit(fmt.Sprintf("doc:calls<=%d", bucket(len(rec.Events))))
	}
	add := func(kind, op, key, reason string, impl, model interface{}) {
		fs = append(fs, res.Finding{Kind: kind, Op: op, Input: fmt.Sprintf("zoom=%v %s", spec.Zoom, spec.HTML), Impl: impl, Model: model, Reason: reason, Key: key, Seed: caseSeed})
	}

	// ---- the call sequence, judged by the Lean monitor
	tm := time.Now()
	ans, err := m.Ask(sx.L(sx.A("proto"), sx.I(len(doc.Pages)), rec.Encode(), rec.EncodeDoc()))
	tMonitor += time.Since(tm)
	if err != nil {
		return nil, err
	}
	switch ans.Head() {
	case "accept":
		hit("proto:accept")
	case "reject":
		hit("proto:reject")
		seen := map[string]bool{}
		for _, v := range ans.Xs[1].Xs {
			cls, key, why := classify(v, rec, spec)
			if seen[cls+key] {
				continue
			}
			seen[cls+key] = true
			add("judge", "judge:proto:"+cls, key, why, nil, nil)
		}
		if len(ans.Xs[1].Xs) == 0 {
			add("judge", "judge:proto:unexplained", "", "monitor rejects without a diagnosis", nil, nil)
		}
	default:
		return nil, fmt.Errorf("monitor: %s", ans)
	}

	for _, e := range rec.Events {
		if e.Op == "DrawText" && len(uniqInts(e.Fonts)) >= 2 {
			hit("doc:drawtext-with-several-fonts")
			break
		}
	}

	// ---- every number finite
	if len(rec.NonFinite) != 0 {
		u := uniq(rec.NonFinite)
		add("judge", "judge:non-finite", u[0], "NaN/Inf passed to the backend at "+strings.Join(u, ", "), nil, nil)
	}

	// ---- one AddPage per laid-out page, in order
	scale := spec.Zoom * 0.75
	_ = scale
	if len(rec.Pages) == len(doc.Pages) {
		for k, p := range doc.Out.Pages {
			want := [4]float64{-float64(p.Bleed.Left), -float64(p.Bleed.Top), float64(p.Width) + float64(p.Bleed.Left) + float64(p.Bleed.Right), float64(p.Height) + float64(p.Bleed.Top) + float64(p.Bleed.Bottom)}
			got := rec.PageDims[k]
			for j := range want {
				if !near(got[j], want[j]) {
					add("judge", "judge:page-geometry", "", fmt.Sprintf("AddPage #%d got %v, laid-out page has %v", k, got, want), nil, nil)
					break
				}
			}
		}
	}

	// ---- facts of the laid-out pages
	facts := make([]*pageFacts, len(doc.Pages))
	for k, p := range doc.Pages {
		facts[k] = &pageFacts{texts: map[string]bool{}}
		gather(p, nil, facts[k])
	}
	// texts drawn on page k belong to laid-out page k
	pageIdx := map[int]int{}
	for k, c := range rec.Pages {
		pageIdx[c] = k
	}
	for _, e := range rec.Events {
		if e.Op == "DrawText" && strings.HasPrefix(e.S, "w") {
			k, ok := pageIdx[rec.Root[e.Canvas]]
			if !ok || k >= len(facts) {
				continue
			}
			if !facts[k].texts[strings.TrimSpace(e.S)] {
				add("judge", "judge:page-order", "", fmt.Sprintf("text %q drawn on output page %d is not on laid-out page %d", e.S, k, k), nil, nil)
				break
			}
		}
	}

	// ---- anchors and links
	if rec.AnchorsCalls != 1 || rec.BookmarkCalls != 1 {
		add("judge", "judge:doc-calls", "", fmt.Sprintf("CreateAnchors called %d times, SetBookmarks %d times", rec.AnchorsCalls, rec.BookmarkCalls), nil, nil)
	}
	var candX, linkX_, outAX, outLX []sx.X
	nInternal, nDangling := 0, 0
	for k, pf := range facts {
		var ps []nameWho
		for j, c := range pf.cands {
			ps = append(ps, nameWho{c.name, j})
		}
		candX = append(candX, pairsX(ps))
		linkX_ = append(linkX_, linksX(pf.links))
		// implementation: anchors of page k, identified by position
		var ia []nameWho
		if k < len(rec.Anchors) {
			ph := float64(doc.Out.Pages[k].Height)
			for _, a := range rec.Anchors[k] {
				who := 900000
				for j, c := range pf.cands {
					if c.name == a.Name && near(float64(a.X), c.x*scale) && near(float64(a.Y), (ph-c.y)*scale) {
						who = j
						break
					}
				}
				ia = append(ia, nameWho{a.Name, who})
			}
		}
		outAX = append(outAX, pairsX(ia))
		// implementation: links of page k in call order
		var il []document.Link
		if k < len(rec.Pages) {
			for _, e := range rec.Events {
				if e.Canvas != rec.Pages[k] {
					continue
				}
				switch e.Op {
				case "AddInternalLink":
					il = append(il, document.Link{Type: "internal", Target: e.S})
					nInternal++
				case "AddExternalLink":
					il = append(il, document.Link{Type: "external", Target: e.S})
				case "AddFileAnnotation":
					il = append(il, document.Link{Type: "attachment", Target: e.S})
				}
			}
		}
		outLX = append(outLX, linksX(il))
		for _, l := range pf.links {
			if l.Type == "internal" {
				nDangling++
			}
		}
	}
	nDangling -= nInternal
	if len(rec.Anchors) != len(doc.Pages) {
		add("judge", "judge:anchors", "", fmt.Sprintf("CreateAnchors received %d page lists for %d pages", len(rec.Anchors), len(doc.Pages)), nil, nil)
	}
	mans, err := m.Ask(sx.L(sx.A("links"), listX(candX), listX(linkX_)))
	if err != nil {
		return nil, err
	}
	if mans.Head() != "ok" {
		return nil, fmt.Errorf("links model: %s", mans)
	}
	implA, modelA := parsePairsPages(listX(outAX)), parsePairsPages(mans.Xs[1])
	if canonAnchors(implA) != canonAnchors(modelA) {
		add("corr", "corr:anchors", "", "anchors handed to CreateAnchors differ from the model over the laid-out pages", canonAnchors(implA), canonAnchors(modelA))
	}
	if listX(outLX).String() != mans.Xs[2].String() {
		add("corr", "corr:links", "", "links added to the pages differ from the model over the laid-out pages", listX(outLX).String(), mans.Xs[2].String())
	}
	jans, err := m.Ask(sx.L(sx.A("links-judge"), listX(candX), listX(linkX_), listX(outAX), listX(outLX)))
	if err != nil {
		return nil, err
	}
	if jans.Head() != "ok" {
		return nil, fmt.Errorf("links judge: %s", jans)
	}
	if jans.Xs[1].S != "1" {
		add("judge", "judge:anchors", "", "an anchor is not defined exactly once by the first element with that id", listX(outAX).String(), listX(candX).String())
	}
	if jans.Xs[2].S != "1" {
		add("judge", "judge:links", "", "emitted internal links / dropped links inconsistent with the defined anchors", listX(outLX).String(), listX(linkX_).String())
	}
	if nInternal > 0 {
		hit("doc:has-internal-link")
	}
	if nDangling > 0 {
		hit("doc:has-dropped-link")
	}

	// ---- bookmarks
	var levels []int
	var labels []string
	var bpages []int
	for k, pf := range facts {
		for _, b := range pf.bks {
			levels, labels, bpages = append(levels, b.level), append(labels, b.label), append(bpages, k)
		}
	}
	var fb []flatBk
	flatten(rec.Bookmarks, 1, &fb)
	var depths []int
	same := len(fb) == len(levels)
	for j, b := range fb {
		depths = append(depths, b.depth)
		if same && (b.label != labels[j] || b.page != bpages[j]) {
			same = false
		}
		if b.page < 0 || b.page >= len(doc.Pages) {
			add("judge", "judge:bookmarks", "", fmt.Sprintf("bookmark %q points to page %d of %d", b.label, b.page, len(doc.Pages)), nil, nil)
		}
	}
	if len(levels) > 0 {
		hit("doc:has-bookmarks")
		bans, err := m.Ask(sx.L(append([]sx.X{sx.A("bookmarks")}, intsX(levels)...)...))
		if err != nil {
			return nil, err
		}
		impl := sx.L(append([]sx.X{sx.A("ok")}, intsX(depths)...)...).String()
		if bans.String() != impl || !same {
			add("corr", "corr:bookmarks", "", fmt.Sprintf("outline differs from the model (labels/pages in order: %v)", same), impl+fmt.Sprint(fb), bans.String()+fmt.Sprint(levels, labels, bpages))
		}
		bj, err := m.Ask(sx.L(sx.A("bookmarks-judge"), sx.L(intsX(levels)...), sx.L(intsX(depths)...)))
		if err != nil {
			return nil, err
		}
		if bj.Head() != "ok" || bj.Xs[1].S != "1" || !same {
			add("judge", "judge:bookmarks", "", "outline inconsistent with the bookmark levels", impl, fmt.Sprint(levels))
		}
	} else if len(fb) != 0 {
		add("judge", "judge:bookmarks", "", "outline entries without bookmarks in the laid-out pages", fmt.Sprint(fb), nil)
	}

	// ---- metadata
	want := map[string]string{"title": spec.Title, "description": spec.Desc, "creator": spec.Gen, "authors": strings.Join(spec.Authors, "\x00"),
		"keywords": strings.Join(spec.Keywords, "\x00"), "created": spec.Created, "modified": spec.Modified}
	for _, k := range []string{"title", "description", "creator", "authors", "keywords", "created", "modified"} {
		if rec.MetaCalls[k] != 1 || rec.Meta[k] != want[k] {
			head := spec.HTML
			if i := strings.Index(head, "<style>"); i > 0 {
				head = head[:i]
			}
			add("judge", "judge:metadata", k, fmt.Sprintf("%s: backend received %q (%d calls), the document's metadata, forwarded unchanged, are %q; head of the document: %q", k, rec.Meta[k], rec.MetaCalls[k], want[k], head), nil, nil)
		}
	}
	return fs, nil
}

// classify explains one monitor diagnosis: (class, key, reason).  For an empty-path Paint/Clip the
// key names what issued it: the SVG element kind when the fill colour set at the same stack level
// identifies a generated SVG node, otherwise the calls around it.
func classify(v sx.X, rec *Rec, spec *docSpec) (string, string, string) {
	cls := v.Head()
	idx := -1
	if len(v.Xs) > 1 {
		fmt.Sscan(v.Xs[1].S, &idx)
	}
	if idx < 0 || idx >= len(rec.Events) {
		return cls, "", v.String()
	}
	e := rec.Events[idx]
	ctx := contextOf(rec, idx)
	why := fmt.Sprintf("%s: call #%d %s; preceding calls on the canvas: %s", cls, idx, e.String(), ctx)
	if cls == "global" && e.Op == "DrawText" {
		return cls, "DrawText:unregistered-font", fmt.Sprintf("call #%d %s uses a font that no AddFont registered on a canvas of its page before; preceding calls on the canvas: %s", idx, e.String(), ctx)
	}
	switch cls {
	case "empty-path", "no-current-point":
		// the last fill colour set at this stack level of this canvas before the call
		// (calls of nested OnNewStack closures are skipped; the search stops at the enclosing Save)
		depth := e.Depth
		skipping := false
		for i := idx - 1; i >= 0; i-- {
			p := rec.Events[i]
			if p.Canvas != e.Canvas {
				continue
			}
			if p.Depth < depth {
				break
			}
			if p.Depth == depth && p.Op == "Restore" {
				skipping = true
				continue
			}
			if p.Depth == depth && p.Op == "Save" {
				skipping = false
				continue
			}
			if skipping || p.Depth != depth {
				continue
			}
			if p.Op == "SetColorRgba" && p.S == "fill" && len(p.F) == 4 {
				col := [3]uint8{uint8(math.Round(p.F[0] * 255)), uint8(math.Round(p.F[1] * 255)), uint8(math.Round(p.F[2] * 255))}
				if k, ok := spec.SvgKinds[col]; ok && p.F[3] == 1 {
					return cls, e.Op + ":svg:" + k, why
				}
				if spec.Marks && p.F[0] == 0 && p.F[1] == 0 && p.F[2] == 0 && p.F[3] == 0 {
					// the crop/cross marks template of drawBackground: <svg fill="transparent" stroke="black">
					return cls, e.Op + ":svg:svg", why
				}
				break
			}
		}
		return cls, e.Op + ":" + levelCtx(rec, idx), why
	}
	return cls, e.Op + ":" + levelCtx(rec, idx), why
}

// levelCtx: the previous call on the canvas at the same OnNewStack level (nested closures skipped),
// or "stack-start" when the call is the first of its closure.
func levelCtx(rec *Rec, idx int) string {
	e := rec.Events[idx]
	skipping := false
	for i := idx - 1; i >= 0; i-- {
		p := rec.Events[i]
		if p.Canvas != e.Canvas {
			continue
		}
		if p.Depth < e.Depth {
			break
		}
		if p.Depth == e.Depth && p.Op == "Restore" {
			skipping = true
			continue
		}
		if p.Depth == e.Depth && p.Op == "Save" {
			if skipping {
				skipping = false
				return "after:closure"
			}
			continue
		}
		if skipping || p.Depth != e.Depth {
			continue
		}
		return "after:" + p.Op
	}
	return "stack-start"
}

func contextOf(rec *Rec, idx int) string {
	var parts []string
	c := rec.Events[idx].Canvas
	for i := idx - 1; i >= 0 && len(parts) < 8; i-- {
		if rec.Events[i].Canvas == c {
			parts = append([]string{rec.Events[i].String()}, parts...)
		}
	}
	return strings.Join(parts, " ; ")
}

// the two previous call names on the canvas
func shortCtx(rec *Rec, idx int) string {
	var parts []string
	c := rec.Events[idx].Canvas
	for i := idx - 1; i >= 0 && len(parts) < 2; i-- {
		if rec.Events[i].Canvas == c {
			parts = append([]string{rec.Events[i].Op}, parts...)
		}
	}
	return strings.Join(parts, ",")
}

func uniqInts(xs []int) []int {
	seen := map[int]bool{}
	var out []int
	for _, x := range xs {
		if !seen[x] {
			seen[x] = true
			out = append(out, x)
		}
	}
	return out
}

func uniq(xs []string) []string {
	seen := map[string]bool{}
	var out []string
	for _, x := range xs {
		if !seen[x] {
			seen[x] = true
			out = append(out, x)
		}
	}
	sort.Strings(out)
	return out
}

func bucket(n int) int {
	for _, b := range []int{50, 100, 200, 400, 800, 1600, 3200} {
		if n <= b {
			return b
		}
	}
	return 1000000
}

func minInt(a, b int) int {
	if a < b {
		return a
	}
	return b
}

// Debug renders one document and returns its trace (used by cmd/c14dbg).
func Debug(html string, zoom float64, repo string) string {
	render.Quiet()
	fonts, err := render.NewFonts(repo)
	if err != nil {
		return err.Error()
	}
	_, rec, oc, rerr := renderDoc(&docSpec{HTML: html, Zoom: zoom}, fonts, 60*time.Second)
	if !oc.OK() || rerr != nil {
		return fmt.Sprint("CRASH ", oc.Panic, " ", oc.Site, " ", oc.Timeout, " ", rerr, "\n", oc.Stack)
	}
	var names []string
	for _, pa := range rec.Anchors {
		for _, a := range pa {
			names = append(names, a.Name)
		}
		names = append(names, "|")
	}
	return rec.Trace() + fmt.Sprintln("non-finite:", rec.NonFinite) + fmt.Sprintln("anchor order:", names) + fmt.Sprintln("monitor input:", rec.Encode().String())
}
