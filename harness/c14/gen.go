package c14

import (
	"bytes"
	"encoding/base64"
	"fmt"
	"image"
	"image/color"
	"image/png"
	"strings"

	"wrverif/rng"
)

// docSpec is what the generator knows about the document it wrote (expected metadata, SVG node kinds).
type docSpec struct {
	HTML     string
	Zoom     float64
	Title    string
	Desc     string
	Gen      string
	Authors  []string
	Keywords []string
	Created  string // RFC3339 UTC or ""
	Modified string
	SvgKinds map[[3]uint8]string // fill colour -> svg element kind (unique per node)
	Marks    bool                // the page has bleed + marks (drawn through an internal SVG template)
	Features []string
}

var pngURI string

func init() {
	im := image.NewRGBA(image.Rect(0, 0, 4, 4))
	for x := 0; x < 4; x++ {
		for y := 0; y < 4; y++ {
			im.Set(x, y, color.RGBA{uint8(60 * x), uint8(60 * y), 200, 255})
		}
	}
	var b bytes.Buffer
	png.Encode(&b, im)
	pngURI = "data:image/png;base64," + base64.StdEncoding.EncodeToString(b.Bytes())
}

type gen struct {
	r      *rng.R
	spec   *docSpec
	nText  int
	nSvg   int
	idPool []string
}

func (g *gen) feat(f string) { g.spec.Features = append(g.spec.Features, f) }

// words no single generated font covers together with ASCII: Greek, Cyrillic, arrows, box drawing, math,
// dingbats (DejaVu has them, Ahem and weasyprint.otf do not) — font fallback splits the line into several runs
var foreignWords = []string{"αβγ", "жзи", "→⇒↔", "┌─┐", "∑∞≠", "✓✗", "Ωмега", "x→y", "א"}

var fontLists = []string{`Ahem, "DejaVu Sans"`, `weasyprint, "DejaVu Serif"`, `Ahem, "DejaVu Sans Mono"`, `"DejaVu Sans"`,
	`"DejaVu Serif", Ahem`, `Ahem, weasyprint, "DejaVu Sans"`, `monospace`, `"DejaVu Sans Mono", "DejaVu Serif"`, `Ahem`}

func (g *gen) mixedWord() string { return foreignWords[g.r.Intn(len(foreignWords))] }

func (g *gen) fontFamily() string {
	g.feat("font-family")
	return "font-family:" + fontLists[g.r.Intn(len(fontLists))] + ";"
}

func (g *gen) text() string {
	g.nText++
	n := g.r.Range(1, 3)
	var ws []string
	for i := 0; i < n; i++ {
		ws = append(ws, fmt.Sprintf("w%d%c", g.nText, 'a'+i))
		if g.r.P(1, 4) {
			// several scripts in one word / one line: more than one font per DrawText
			g.feat("mixed-script-text")
			if g.r.Bool() {
				ws[len(ws)-1] += g.mixedWord()
			} else {
				ws = append(ws, g.mixedWord())
			}
		}
	}
	return strings.Join(ws, " ")
}

func (g *gen) id() string { return g.idPool[g.r.Intn(len(g.idPool))] }

func (g *gen) maybeID() string {
	switch {
	case g.r.P(1, 2):
		return fmt.Sprintf(` id="%s"`, g.id())
	case g.r.P(1, 12):
		return ` id=""`
	}
	return ""
}

func (g *gen) length(max int) string {
	if g.r.P(1, 8) {
		return "0"
	}
	return fmt.Sprintf("%vpx", float64(g.r.Range(1, max*4))/4)
}

func (g *gen) colour() string {
	switch g.r.Intn(6) {
	case 0:
		return "transparent"
	case 1:
		return fmt.Sprintf("rgba(%d,%d,%d,0.5)", g.r.Intn(256), g.r.Intn(256), g.r.Intn(256))
	}
	return fmt.Sprintf("#%02x%02x%02x", g.r.Intn(256), g.r.Intn(256), g.r.Intn(256))
}

var borderStyles = []string{"solid", "dashed", "dotted", "double", "groove", "ridge", "inset", "outset", "none", "hidden"}

func (g *gen) border() string {
	var b strings.Builder
	if g.r.P(1, 2) {
		fmt.Fprintf(&b, "border:%s %s %s;", g.length(8), rng.Pick(g.r, borderStyles...), g.colour())
	} else {
		for _, s := range []string{"top", "right", "bottom", "left"} {
			if g.r.P(3, 4) {
				fmt.Fprintf(&b, "border-%s:%s %s %s;", s, g.length(8), rng.Pick(g.r, borderStyles...), g.colour())
			}
		}
	}
	if g.r.P(1, 3) {
		if g.r.P(1, 2) {
			fmt.Fprintf(&b, "border-radius:%s;", g.length(12))
		} else {
			fmt.Fprintf(&b, "border-radius:%s %s %s %s / %s %s;", g.length(12), g.length(12), g.length(12), g.length(12), g.length(12), g.length(12))
		}
		g.feat("radius")
	}
	g.feat("border")
	return b.String()
}

func (g *gen) background() string {
	g.feat("background")
	switch g.r.Intn(9) {
	case 0, 1:
		return "background:" + g.colour() + ";"
	case 2:
		g.feat("gradient")
		return fmt.Sprintf("background:linear-gradient(%ddeg, %s, %s %d%%, %s);", g.r.Range(0, 360), g.colour(), g.colour(), g.r.Range(0, 100), g.colour())
	case 3:
		g.feat("gradient")
		return fmt.Sprintf("background:radial-gradient(%s at %d%% %d%%, %s, %s);", rng.Pick(g.r, "circle", "ellipse", "closest-side", "farthest-corner", "circle 0px", "10px 0px"), g.r.Range(-20, 120), g.r.Range(-20, 120), g.colour(), g.colour())
	case 4:
		g.feat("gradient")
		return fmt.Sprintf("background:repeating-linear-gradient(to %s, %s 0, %s %s);", rng.Pick(g.r, "right", "bottom", "top left"), g.colour(), g.colour(), g.length(10))
	case 5:
		g.feat("bg-image")
		return fmt.Sprintf("background:url(%s) %s %s / %s;", pngURI, rng.Pick(g.r, "repeat", "no-repeat", "space", "round", "repeat-x", "space round"), rng.Pick(g.r, "0 0", "center", "10px 5px", "100% 100%"), rng.Pick(g.r, "auto", "8px 8px", "cover", "contain", "0 0", "50% auto"))
	case 6:
		g.feat("bg-svg")
		return fmt.Sprintf("background:url('%s') %s;", g.svgURI(), rng.Pick(g.r, "repeat", "no-repeat", "space"))
	case 7:
		g.feat("bg-multi")
		return fmt.Sprintf("background:linear-gradient(%s, %s), url(%s), %s;background-clip:%s;background-origin:%s;", g.colour(), g.colour(), pngURI, g.colour(), rng.Pick(g.r, "border-box", "padding-box", "content-box"), rng.Pick(g.r, "border-box", "padding-box", "content-box"))
	}
	g.feat("border-image")
	return fmt.Sprintf("border:%s solid red;border-image:url(%s) %d %s;", g.length(8), pngURI, g.r.Range(0, 3), rng.Pick(g.r, "stretch", "repeat", "round", "space", "fill repeat"))
}

func (g *gen) transform() string {
	g.feat("transform")
	fn := func() string {
		switch g.r.Intn(7) {
		case 0:
			return fmt.Sprintf("rotate(%ddeg)", g.r.Range(-180, 180))
		case 1:
			return fmt.Sprintf("scale(%v)", float64(g.r.Range(-8, 8))/4)
		case 2:
			return fmt.Sprintf("translate(%dpx, %d%%)", g.r.Range(-30, 30), g.r.Range(-50, 50))
		case 3:
			return fmt.Sprintf("skewX(%ddeg)", g.r.Range(-80, 80))
		case 4:
			return fmt.Sprintf("scale(%v, %v)", float64(g.r.Range(0, 8))/4, float64(g.r.Range(0, 8))/4)
		case 5:
			return fmt.Sprintf("matrix(%d,%d,%d,%d,%d,%d)", g.r.Range(-2, 2), g.r.Range(-2, 2), g.r.Range(-2, 2), g.r.Range(-2, 2), g.r.Range(-20, 20), g.r.Range(-20, 20))
		}
		return fmt.Sprintf("skewY(%ddeg)", g.r.Range(-80, 80))
	}
	s := fn()
	if g.r.P(1, 3) {
		s += " " + fn()
	}
	out := "transform:" + s + ";"
	if g.r.P(1, 3) {
		out += fmt.Sprintf("transform-origin:%s %s;", rng.Pick(g.r, "left", "center", "right", "10px", "25%"), rng.Pick(g.r, "top", "center", "bottom", "5px", "75%"))
	}
	return out
}

func (g *gen) boxStyle() string {
	var b strings.Builder
	if g.r.P(2, 3) {
		fmt.Fprintf(&b, "width:%s;", g.length(120))
	}
	if g.r.P(1, 2) {
		fmt.Fprintf(&b, "height:%s;", g.length(60))
	}
	if g.r.P(1, 2) {
		b.WriteString(g.background())
	}
	if g.r.P(1, 2) {
		b.WriteString(g.border())
	}
	if g.r.P(1, 4) {
		b.WriteString(g.transform())
	}
	if g.r.P(1, 6) {
		fmt.Fprintf(&b, "opacity:%v;", float64(g.r.Range(0, 4))/4)
		g.feat("opacity")
	}
	if g.r.P(1, 6) {
		fmt.Fprintf(&b, "overflow:%s;", rng.Pick(g.r, "hidden", "auto", "scroll"))
		g.feat("overflow")
	}
	if g.r.P(1, 6) {
		fmt.Fprintf(&b, "outline:%s %s %s;", g.length(5), rng.Pick(g.r, borderStyles[:8]...), g.colour())
		g.feat("outline")
	}
	if g.r.P(1, 8) {
		fmt.Fprintf(&b, "padding:%s;margin:%s;", g.length(10), g.length(10))
	}
	if g.r.P(1, 8) {
		switch g.r.Intn(3) {
		case 0:
			fmt.Fprintf(&b, "position:relative;left:%dpx;top:%dpx;", g.r.Range(-10, 10), g.r.Range(-10, 10))
		case 1:
			fmt.Fprintf(&b, "position:absolute;left:%dpx;top:%dpx;clip:rect(%s, %s, %s, %s);", g.r.Range(0, 100), g.r.Range(0, 100),
				rng.Pick(g.r, "auto", "0px", "5px"), rng.Pick(g.r, "auto", "20px", "5px"), rng.Pick(g.r, "auto", "20px", "0px"), rng.Pick(g.r, "auto", "0px", "30px"))
			g.feat("clip")
		case 2:
			fmt.Fprintf(&b, "float:%s;", rng.Pick(g.r, "left", "right"))
		}
		g.feat("positioned")
	}
	if g.r.P(1, 10) {
		fmt.Fprintf(&b, "visibility:%s;", rng.Pick(g.r, "hidden", "visible"))
	}
	if g.r.P(1, 10) {
		fmt.Fprintf(&b, "bookmark-level:%s;bookmark-label:%s;", rng.Pick(g.r, "1", "2", "3", "5", "9", "none"), rng.Pick(g.r, `"bk" content()`, `content()`, `"fixed label"`, `content(before) "x"`))
		g.feat("bookmark-css")
	}
	return b.String()
}

func (g *gen) textDeco() string {
	g.feat("text-decoration")
	return fmt.Sprintf("text-decoration:%s %s %s;", rng.Pick(g.r, "underline", "overline", "line-through", "underline overline line-through"), rng.Pick(g.r, "solid", "double", "dotted", "dashed", "wavy"), g.colour())
}

func (g *gen) link() string {
	var href string
	switch g.r.Intn(8) {
	case 0, 1, 2, 3:
		href = "#" + g.id()
	case 4:
		href = "#nowhere" + fmt.Sprint(g.r.Intn(3))
		g.feat("dangling-link")
	case 5:
		href = "http://example.org/" + g.id()
		g.feat("external-link")
	case 6:
		href = "#"
	default:
		href = "#" + strings.ToUpper(g.id())
		g.feat("dangling-link")
	}
	style := ""
	if g.r.P(1, 4) {
		style = fmt.Sprintf(` style="%s"`, rng.Pick(g.r, "display:block", "display:inline-block;"+g.transform(), g.textDeco(), "display:block;"+g.transform()))
	}
	g.feat("link")
	return fmt.Sprintf(`<a href="%s"%s%s>%s</a>`, href, g.maybeID(), style, g.text())
}

func (g *gen) svgFill() (string, [3]uint8) {
	g.nSvg++
	c := [3]uint8{uint8(1 + g.nSvg), uint8(255 - g.nSvg), uint8(17 * (g.nSvg % 13))}
	return fmt.Sprintf("#%02x%02x%02x", c[0], c[1], c[2]), c
}

func (g *gen) svgElem(depth int, hidden bool) string {
	fill, col := g.svgFill()
	attrs := fmt.Sprintf(` fill="%s"`, fill)
	if g.r.P(1, 3) {
		attrs += fmt.Sprintf(` stroke="%s" stroke-width="%v"`, rng.Pick(g.r, "black", "none", "#00f", "url(#gr)"), float64(g.r.Range(0, 8))/2)
	}
	if g.r.P(1, 6) {
		attrs += fmt.Sprintf(` transform="%s"`, rng.Pick(g.r, "rotate(20)", "scale(0)", "translate(5,5) scale(2)", "skewX(30)", "matrix(1 0 0 1 3 3)"))
	}
	if g.r.P(1, 8) {
		attrs += fmt.Sprintf(` opacity="%v"`, float64(g.r.Range(0, 4))/4)
	}
	if g.r.P(1, 10) {
		attrs += fmt.Sprintf(` clip-path="url(#%s)"`, rng.Pick(g.r, "cp", "cp", "cp0", "cp1", "cp2", "cp3", "cp4", "cp5", "cp6", "cp7"))
		g.feat("svg-clip-path")
	}
	if g.r.P(1, 12) {
		attrs += fmt.Sprintf(` mask="url(#%s)"`, rng.Pick(g.r, "mk", "mk", "mk0", "mk1", "mk2"))
	}
	if g.r.P(1, 12) {
		attrs += rng.Pick(g.r, ` display="none"`, ` visibility="hidden"`)
		hidden = true
	}
	if g.r.P(1, 4) {
		attrs += g.dashAttrs()
		g.feat("svg-dash")
	}
	n := func(max int) int { return g.r.Range(0, max) }
	kind := ""
	var s string
	k := g.r.Intn(13)
	if depth >= 2 && (k == 7 || k == 8) {
		k = 0
	}
	switch k {
	case 0:
		w, h := n(30), n(20)
		kind = "rect"
		if w == 0 || h == 0 {
			kind = "rect-empty"
		}
		rx := ""
		if g.r.P(1, 3) {
			rx = fmt.Sprintf(` rx="%d" ry="%d"`, n(20), n(20))
		}
		s = fmt.Sprintf(`<rect x="%d" y="%d" width="%d" height="%d"%s%s/>`, n(40), n(30), w, h, rx, attrs)
	case 1:
		kind = "circle"
		rr := n(15)
		if rr == 0 {
			kind = "circle-empty"
		}
		s = fmt.Sprintf(`<circle cx="%d" cy="%d" r="%d"%s/>`, n(40), n(30), rr, attrs)
	case 2:
		kind = "ellipse"
		rx, ry := n(15), n(10)
		if rx == 0 || ry == 0 {
			kind = "ellipse-empty"
		}
		s = fmt.Sprintf(`<ellipse cx="%d" cy="%d" rx="%d" ry="%d"%s/>`, n(40), n(30), rx, ry, attrs)
	case 3:
		kind = "line"
		mk := ""
		if g.r.P(1, 3) {
			mk = ` marker-start="url(#mr)" marker-end="url(#mr)"`
		}
		s = fmt.Sprintf(`<line x1="%d" y1="%d" x2="%d" y2="%d"%s%s/>`, n(40), n(30), n(40), n(30), mk, attrs)
	case 4:
		kind = rng.Pick(g.r, "polyline", "polygon")
		var pts []string
		for i, m := 0, n(4); i < m; i++ {
			pts = append(pts, fmt.Sprintf("%d,%d", n(40), n(30)))
		}
		if len(pts) == 0 {
			kind += "-empty"
		}
		mk := ""
		if g.r.P(1, 3) {
			mk = ` marker-mid="url(#mr)"`
		}
		s = fmt.Sprintf(`<%s points="%s"%s%s/>`, strings.TrimSuffix(kind, "-empty"), strings.Join(pts, " "), mk, attrs)
	case 5, 6:
		kind = "path"
		d := rng.Pick(g.r, "M5 5 L20 5 L20 20 Z", "M0 0 h10 v10 h-10 z M3 3 h4 v4 h-4 z", "M5 5 C 10 0, 20 0, 25 5 S 40 10 45 5", "M5 5 Q 10 15 20 5 T 40 5",
			"M10 10 A 5 5 0 0 1 20 20", "M10 10 A 0 0 0 0 1 20 20", "", "L5 5", "M5 5", "M1 1 Z", "Z", "M5 5 L", "M 1e40 0 L 0 0", "m5 5 l10 0 0 10")
		if d == "" || d == "Z" {
			kind = "path-empty"
		}
		if d == "L5 5" {
			kind = "path-no-moveto"
		}
		s = fmt.Sprintf(`<path d="%s"%s/>`, d, attrs)
	case 7:
		kind = "g"
		var b strings.Builder
		for i, m := 0, n(3); i < m; i++ {
			b.WriteString(g.svgElem(depth+1, hidden))
		}
		s = fmt.Sprintf(`<g%s>%s</g>`, attrs, b.String())
	case 8:
		kind = "svg-nested"
		s = fmt.Sprintf(`<svg x="%d" y="%d" width="%d" height="%d"%s>%s</svg>`, n(20), n(20), n(30), n(30), attrs, g.svgElem(depth+1, hidden))
	case 9:
		kind = "text"
		ff := ""
		if g.r.P(1, 2) {
			ff = fmt.Sprintf(` font-family='%s'`, strings.ReplaceAll(fontLists[g.r.Intn(len(fontLists))], `"`, ""))
		}
		s = fmt.Sprintf(`<text x="%d" y="%d" font-size="%d"%s%s%s>s%d%s<tspan dx="2">s%db %s</tspan></text>`, n(30), 10+n(20), n(14), rng.Pick(g.r, "", ` text-anchor="middle"`, ` text-anchor="end"`), ff, attrs, g.nSvg,
			rng.Pick(g.r, "", g.mixedWord()), g.nSvg, rng.Pick(g.r, "", g.mixedWord()))
	case 10:
		kind = "use"
		s = fmt.Sprintf(`<use href="#%s" x="%d" y="%d"%s/>`, rng.Pick(g.r, "sym", "nothere", "cp"), n(10), n(10), attrs)
	case 11:
		kind = "image"
		s = fmt.Sprintf(`<image href="%s" x="%d" y="%d" width="%d" height="%d"%s/>`, pngURI, n(20), n(20), n(20), n(20), attrs)
	default:
		kind = "unknown-element"
		s = fmt.Sprintf(`<%s%s/>`, rng.Pick(g.r, "foo", "defs", "title", "a", "switch"), attrs)
	}
	// what the node is for the purpose of explaining a Paint with an empty path:
	// containers and <image> never build a path; a shape builds none when it is degenerate or hidden
	switch kind {
	case "g", "svg-nested", "use", "image", "unknown-element", "text":
	case "path-no-moveto":
		if hidden {
			kind = "shape-hidden"
		}
	default:
		if strings.HasSuffix(kind, "-empty") {
			kind = "shape-empty"
		} else if hidden {
			kind = "shape-hidden"
		}
	}
	g.spec.SvgKinds[col] = kind
	return s
}

// svgURI is a small SVG image as a data: URI (for <img> and backgrounds), nodes uniquely coloured
// clip paths and masks whose children draw nothing (zero-size, hidden, empty): the clip must still be preceded by a path
const emptyClipDefs = `<clipPath id="cp0"><rect x="0" y="0" width="0" height="20"/></clipPath>` +
	`<clipPath id="cp1"><circle cx="5" cy="5" r="0"/></clipPath>` +
	`<clipPath id="cp2"><rect width="10" height="10" visibility="hidden"/></clipPath>` +
	`<clipPath id="cp3"><g></g></clipPath>` +
	`<clipPath id="cp4"><path d=""/></clipPath>` +
	`<clipPath id="cp5"></clipPath>` +
	`<clipPath id="cp6"><rect width="0%" height="50%"/><ellipse rx="0" ry="3"/></clipPath>` +
	`<clipPath id="cp7" clipPathUnits="objectBoundingBox"><polygon points=""/></clipPath>` +
	`<mask id="mk0"><rect x="0" y="0" width="0" height="30" fill="#fefe01"/></mask>` +
	`<mask id="mk1"></mask>` +
	`<mask id="mk2"><circle r="0" fill="#fefe02"/><g fill="#fefe03"/></mask>`

// the mask children above are painted: their (reserved) colours attribute a Paint on an empty path to them (KF14-1)
func (g *gen) registerEmptyDefs() {
	g.spec.SvgKinds[[3]uint8{0xfe, 0xfe, 0x01}] = "shape-empty"
	g.spec.SvgKinds[[3]uint8{0xfe, 0xfe, 0x02}] = "shape-empty"
	g.spec.SvgKinds[[3]uint8{0xfe, 0xfe, 0x03}] = "g"
}

// dashAttrs: a stroked shape with a dash array (incl. arrays that sum to zero, in mixed units) and a dash offset
// (negative, zero, huge): SetDash must receive finite numbers
func (g *gen) dashAttrs() string {
	arr := rng.Pick(g.r, "4 2", "0", "0 0", "0em, 0%", "0 0 0", "1 0 3", "none", "5", "0.5em 10%", "0,0,0,0", "3,-1", "1e9 1")
	off := rng.Pick(g.r, "", "", "-3", "0", "-0.5", "1e9", "-1e9", "7", "-2em", "-50%", "2.5")
	s := fmt.Sprintf(` stroke="%s" stroke-width="%v" stroke-dasharray="%s"`, rng.Pick(g.r, "black", "#00f", "black", "none"), float64(g.r.Range(0, 8))/2, arr)
	if off != "" {
		s += fmt.Sprintf(` stroke-dashoffset="%s"`, off)
	}
	return s
}

func (g *gen) svgURI() string {
	f1, c1 := g.svgFill()
	f2, c2 := g.svgFill()
	g.spec.SvgKinds[c1] = "svg"
	g.spec.SvgKinds[c2] = "circle"
	dash := ""
	if g.r.P(1, 3) {
		dash = strings.NewReplacer(`"`, "%22", "#", "%23", "%", "%25").Replace(g.dashAttrs())
		g.feat("svg-dash")
	}
	defs := ""
	if g.r.P(1, 3) {
		enc := strings.NewReplacer(`"`, "%22", "#", "%23", "%", "%25")
		defs = enc.Replace("<defs>" + emptyClipDefs + "</defs>")
		g.registerEmptyDefs()
		dash += enc.Replace(fmt.Sprintf(` clip-path="url(#%s)"`, rng.Pick(g.r, "cp0", "cp1", "cp2", "cp3", "cp4", "cp5", "cp6", "cp7")))
		if g.r.P(1, 3) {
			dash += enc.Replace(fmt.Sprintf(` mask="url(#%s)"`, rng.Pick(g.r, "mk0", "mk1", "mk2")))
		}
		g.feat("svg-clip-path")
	}
	return fmt.Sprintf("data:image/svg+xml,<svg xmlns=%%22http://www.w3.org/2000/svg%%22 width=%%2210%%22 height=%%2210%%22 fill=%%22%%23%s%%22>%s<circle cx=%%225%%22 cy=%%225%%22 r=%%224%%22 fill=%%22%%23%s%%22%s/></svg>", f1[1:], defs, f2[1:], dash)
}

func (g *gen) svg() string {
	g.feat("svg")
	fill, col := g.svgFill()
	g.spec.SvgKinds[col] = "svg"
	var b strings.Builder
	vb := ""
	if g.r.P(1, 3) {
		vb = fmt.Sprintf(` viewBox="%s"`, rng.Pick(g.r, "0 0 50 40", "0 0 0 0", "10 10 20 20", "0 0 100 10"))
	}
	par := ""
	if g.r.P(1, 5) {
		par = fmt.Sprintf(` preserveAspectRatio="%s"`, rng.Pick(g.r, "none", "xMinYMin slice", "xMaxYMax meet"))
	}
	w, h := g.r.Range(0, 80), g.r.Range(0, 60)
	if g.r.P(3, 4) {
		w, h = g.r.Range(10, 80), g.r.Range(10, 60)
	}
	fmt.Fprintf(&b, `<svg width="%d" height="%d"%s%s fill="%s"%s>`, w, h, vb, par, fill, g.maybeID())
	if g.r.P(2, 3) {
		b.WriteString(`<defs><linearGradient id="gr"><stop offset="0" stop-color="red"/><stop offset="1" stop-color="blue"/></linearGradient>` +
			`<clipPath id="cp"><rect x="0" y="0" width="20" height="20"/></clipPath>` + emptyClipDefs +
			`<mask id="mk"><rect x="0" y="0" width="30" height="30" fill="white"/></mask>` +
			`<marker id="mr" markerWidth="4" markerHeight="4" refX="2" refY="2" overflow="hidden"><circle cx="2" cy="2" r="2"/></marker>` +
			`<symbol id="sym"><rect width="5" height="5"/></symbol></defs>`)
		g.registerEmptyDefs()
	}
	for i, m := 0, g.r.Range(0, 4); i < m; i++ {
		b.WriteString(g.svgElem(0, false))
	}
	b.WriteString(`</svg>`)
	return b.String()
}

func (g *gen) inlineContent() string {
	var parts []string
	for i, n := 0, g.r.Range(1, 4); i < n; i++ {
		switch g.r.Intn(10) {
		case 0, 1, 2:
			parts = append(parts, g.text())
		case 3, 4, 5:
			parts = append(parts, g.link())
		case 6:
			if g.r.Bool() {
				// faces switching inside a line
				g.feat("face-switch")
				tag := rng.Pick(g.r, "b", "i", "em", "strong", "code")
				parts = append(parts, fmt.Sprintf(`<%s>%s</%s> <span style="%s%s">%s</span>`, tag, g.text(), tag,
					g.fontFamily(), rng.Pick(g.r, "", "font-weight:bold;", "font-style:italic;", "font-weight:bold;font-style:oblique;", "font-variant:small-caps;"), g.text()))
				break
			}
			parts = append(parts, fmt.Sprintf(`<span%s style="%s%s">%s</span>`, g.maybeID(), g.textDeco(), rng.Pick(g.r, "", g.background(), g.border(), "display:inline-block;"+g.boxStyle()), g.text()))
		case 7:
			g.feat("img")
			parts = append(parts, fmt.Sprintf(`<img%s src="%s" style="width:%s;height:%s;%s">`, g.maybeID(), rng.Pick(g.r, pngURI, g.svgURI(), "data:image/png;base64,AAAA", "nothing.png"),
				g.length(30), g.length(30), rng.Pick(g.r, "", g.border(), g.transform(), "object-fit:cover;", "image-rendering:pixelated;")))
		case 8:
			parts = append(parts, g.svg())
		case 9:
			parts = append(parts, "<br>")
		}
	}
	return strings.Join(parts, " ")
}

func (g *gen) block(depth int) string {
	k := g.r.Intn(14)
	if k == 11 && depth > 0 {
		k = 4 // nested multi-column boxes hang the layout (reported under C01)
	}
	switch {
	case k <= 2:
		lvl := g.r.Range(1, 6)
		g.feat("heading")
		st := ""
		if g.r.P(1, 5) {
			st = fmt.Sprintf(` style="%s"`, rng.Pick(g.r, g.transform(), "bookmark-level:none", "bookmark-level:"+fmt.Sprint(g.r.Range(1, 12)), "bookmark-state:closed", "page-break-before:always", "bookmark-label:''"))
		}
		return fmt.Sprintf(`<h%d%s%s>%s</h%d>`, lvl, g.maybeID(), st, g.inlineContent(), lvl)
	case k <= 5:
		return fmt.Sprintf(`<p%s>%s</p>`, g.maybeID(), g.inlineContent())
	case k <= 8:
		inner := ""
		if depth < 2 && g.r.P(1, 2) {
			for i, n := 0, g.r.Range(1, 3); i < n; i++ {
				inner += g.block(depth + 1)
			}
		} else if g.r.P(2, 3) {
			inner = g.inlineContent()
		}
		return fmt.Sprintf(`<div%s style="%s">%s</div>`, g.maybeID(), g.boxStyle(), inner)
	case k == 9:
		g.feat("table")
		var b strings.Builder
		fmt.Fprintf(&b, `<table%s style="border-collapse:%s;%s">`, g.maybeID(), rng.Pick(g.r, "collapse", "separate"), rng.Pick(g.r, "", g.border(), g.background()))
		if g.r.P(1, 4) {
			fmt.Fprintf(&b, `<colgroup style="%s"><col style="%s"><col></colgroup>`, g.background(), g.background())
		}
		for i, n := 0, g.r.Range(0, 3); i < n; i++ {
			fmt.Fprintf(&b, `<tr%s style="%s">`, g.maybeID(), rng.Pick(g.r, "", g.background()))
			for j, m := 0, g.r.Range(0, 3); j < m; j++ {
				fmt.Fprintf(&b, `<td%s style="%s%s%s">%s</td>`, g.maybeID(), rng.Pick(g.r, "", g.border()), rng.Pick(g.r, "", g.background()), rng.Pick(g.r, "", "empty-cells:hide;"), rng.Pick(g.r, "", g.inlineContent()))
			}
			b.WriteString(`</tr>`)
		}
		b.WriteString(`</table>`)
		return b.String()
	case k == 10:
		g.feat("list")
		var b strings.Builder
		tag := rng.Pick(g.r, "ul", "ol")
		fmt.Fprintf(&b, `<%s style="list-style:%s %s">`, tag, rng.Pick(g.r, "disc", "decimal", "square", "none", "url("+pngURI+")", "'>'"), rng.Pick(g.r, "inside", "outside"))
		for i, n := 0, g.r.Range(1, 3); i < n; i++ {
			fmt.Fprintf(&b, `<li%s>%s</li>`, g.maybeID(), g.inlineContent())
		}
		fmt.Fprintf(&b, `</%s>`, tag)
		return b.String()
	case k == 11:
		g.feat("columns")
		return fmt.Sprintf(`<div style="column-count:%d;column-rule:%s %s %s;column-gap:%s">%s%s</div>`, g.r.Range(1, 3), g.length(5), rng.Pick(g.r, borderStyles...), g.colour(), g.length(10), g.block(depth+2), g.block(depth+2))
	case k == 12:
		g.feat("page-break")
		return fmt.Sprintf(`<div%s style="page-break-before:always;height:%s;%s">%s</div>`, g.maybeID(), g.length(300), g.boxStyle(), g.inlineContent())
	default:
		return g.svg()
	}
}

var metaTitles = []string{"A title", "Café &amp; bar", "x", "Tïtre 中文", "a  b", " lead", "trail ", "\ttab\t", "\nline\n", "a\r\nb", "\fff\f", "\u00a0nb\u00a0", " ", "\t\n", "", "  two  words  "}

func unent(s string) string { return strings.ReplaceAll(s, "&amp;", "&") }

func genDoc(r *rng.R) *docSpec {
	spec := &docSpec{SvgKinds: map[[3]uint8]string{}, Zoom: rng.Pick(r, 0.5, 1.0, 1.0, 2.0)}
	g := &gen{r: r, spec: spec}
	np := r.Range(2, 5)
	for i := 0; i < np; i++ {
		g.idPool = append(g.idPool, fmt.Sprintf("id%c", 'a'+i))
	}
	var head strings.Builder
	// metadata.  The expected values pin what the code does today with the HTML text (the property: "forwarded
	// unchanged"): <title> = the raw text of the first <title> whose text is not the empty string (no stripping,
	// no collapsing; a whitespace-only first title IS the title); description / generator = the raw content of the
	// first such <meta> with a non-empty content; authors = every content, raw; keywords = split at commas, HTML
	// whitespace (space, tab, LF, FF, CR) stripped, first occurrence kept.  The HTML tokenizer turns CRLF and CR into LF.
	norm := func(t string) string { return strings.ReplaceAll(strings.ReplaceAll(unent(t), "\r\n", "\n"), "\r", "\n") }
	for i, n := 0, r.Range(0, 3); i < n; i++ {
		t := rng.Pick(r, metaTitles...)
		fmt.Fprintf(&head, "<title>%s</title>", t)
		if spec.Title == "" {
			spec.Title = norm(t)
		}
		g.feat("title")
		if t != strings.TrimSpace(t) || strings.ContainsAny(t, "\t\n\r\f\u00a0") {
			g.feat("title-whitespace")
		}
	}
	ws := func(v string) string { // the value with some whitespace around / inside
		return rng.Pick(r, "", "", "", " ", "\t", "\n", "\r\n", "\f", "\u00a0") + v + rng.Pick(r, "", "", "", " ", "\t ", "\n", "\r\n", "\f", "\u00a0")
	}
	for i, n := 0, r.Range(0, 4); i < n; i++ {
		name := rng.Pick(r, "author", "Author", "description", "generator", "keywords", "KEYWORDS", "dcterms.created", "dcterms.modified", "viewport", "")
		var content string
		switch strings.ToLower(name) {
		case "author":
			content = ws(rng.Pick(r, "Ann", "Bob &amp; Co", "", "A  B"))
			spec.Authors = append(spec.Authors, norm(content))
		case "description":
			content = ws(rng.Pick(r, "A description", "d2", "", "two\nlines"))
			if spec.Desc == "" {
				spec.Desc = norm(content)
			}
		case "generator":
			content = ws(rng.Pick(r, "gen 1.0", "g2", ""))
			if spec.Gen == "" {
				spec.Gen = norm(content)
			}
		case "keywords":
			content = rng.Pick(r, "a, b ,c", "b,d", "x", " , y", "\ta\t,\nb\r\n,\fc\f", "\u00a0n\u00a0, a", "k  k,k")
			for _, k := range strings.Split(norm(content), ",") {
				k = strings.Trim(k, " \t\n\f\r")
				dup := false
				for _, o := range spec.Keywords {
					dup = dup || o == k
				}
				if !dup {
					spec.Keywords = append(spec.Keywords, k)
				}
			}
		case "dcterms.created", "dcterms.modified":
			type dt struct{ s, want string }
			d := rng.Pick(r, dt{"2011", "2011-01-01T00:00:00Z"}, dt{"2011-04", "2011-04-01T00:00:00Z"}, dt{"2011-04-21", "2011-04-21T00:00:00Z"},
				dt{"2011-04-21T23:00Z", "2011-04-21T23:00:00Z"}, dt{"2011-04-21T23:00:10+02:00", "2011-04-21T21:00:10Z"}, dt{"not a date", ""},
				dt{" \t2011-04-21", "2011-04-21T00:00:00Z"}, dt{"\n2011", "2011-01-01T00:00:00Z"})
			content = d.s
			if name == "dcterms.created" && spec.Created == "" {
				spec.Created = d.want
			}
			if name == "dcterms.modified" && spec.Modified == "" {
				spec.Modified = d.want
			}
		default:
			content = "zz"
		}
		fmt.Fprintf(&head, `<meta name="%s" content="%s">`, name, content)
		g.feat("meta")
	}
	// page geometry
	pw, ph := r.Range(120, 400), r.Range(100, 300)
	var css strings.Builder
	fmt.Fprintf(&css, "@page{size:%dpx %dpx;margin:%dpx", pw, ph, r.Range(0, 20))
	if r.P(1, 6) {
		fmt.Fprintf(&css, ";bleed:%dpx;marks:%s", r.Range(0, 12), rng.Pick(r, "crop", "cross", "crop cross", "none"))
		g.feat("bleed-marks")
		spec.Marks = true
	}
	if r.P(1, 6) {
		fmt.Fprintf(&css, ";%s", strings.TrimSuffix(g.background(), ";"))
	}
	if r.P(1, 8) {
		fmt.Fprintf(&css, ";@top-center{content:'hdr%s ' counter(page);%s%s}", rng.Pick(r, "", " "+g.mixedWord()), rng.Pick(r, "", g.fontFamily()), g.border())
		g.feat("margin-box")
	}
	css.WriteString("}")
	if r.P(1, 5) {
		fmt.Fprintf(&css, "@page :first{size:%dpx %dpx}", r.Range(120, 400), r.Range(100, 300))
		g.feat("page-first")
	}
	css.WriteString("body{margin:0;font-size:10px}")
	if r.P(1, 2) {
		fmt.Fprintf(&css, "body{%s}", g.fontFamily())
	}
	if r.P(1, 4) {
		fmt.Fprintf(&css, "h1,h2,h3,a{%s}", g.fontFamily())
	}
	if r.P(1, 8) {
		fmt.Fprintf(&css, "html{%s}", g.background())
	}
	if r.P(1, 10) {
		fmt.Fprintf(&css, "html{overflow:hidden}")
	}
	var body strings.Builder
	for i, n := 0, r.Range(1, 7); i < n; i++ {
		body.WriteString(g.block(0))
		body.WriteString("\n")
	}
	spec.HTML = fmt.Sprintf("<html><head>%s<style>%s</style></head><body>%s</body></html>", head.String(), css.String(), body.String())
	return spec
}
