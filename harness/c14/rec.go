package c14

import (
	"fmt"
	"math"
	"strconv"
	"strings"
	"time"

	"github.com/benoitkugler/webrender/backend"
	"github.com/benoitkugler/webrender/css/parser"
	"github.com/benoitkugler/webrender/matrix"

	"wrverif/sx"
)

type fl = backend.Fl

// Ev is one backend call as the C14 monitor sees it (plus what is needed to explain a rejection).
type Ev struct {
	Canvas int       // canvas the call is made on (0 = document level)
	Op     string    // method name
	F      []float64 // numeric arguments
	S      string    // string argument
	Ref    int       // canvas created / referenced
	Depth  int       // OnNewStack depth of the canvas at the time of the call
	Fonts  []int     // AddFont: [key]; DrawText: keys of the fonts of its runs
}

func (e Ev) String() string {
	var b strings.Builder
	fmt.Fprintf(&b, "%d:%s", e.Canvas, e.Op)
	for _, f := range e.F {
		fmt.Fprintf(&b, " %v", float32(f))
	}
	if e.S != "" {
		fmt.Fprintf(&b, " %q", e.S)
	}
	if e.Ref != 0 {
		fmt.Fprintf(&b, " ->%d", e.Ref)
	}
	if len(e.Fonts) != 0 {
		fmt.Fprintf(&b, " fonts=%v", e.Fonts)
	}
	return b.String()
}

// Rec is a backend.Document recording every call.
type Rec struct {
	Events    []Ev
	NonFinite []string // "Op#argIndex" of every NaN/Inf argument
	nextID    int
	Pages     []int       // canvas ids, AddPage order
	PageDims  [][4]float64 // AddPage arguments
	Root      map[int]int // canvas -> page canvas
	fontKeys  map[string]int

	Anchors       [][]backend.Anchor
	AnchorsCalls  int
	Bookmarks     []backend.BookmarkNode
	BookmarkCalls int
	Meta          map[string]string
	MetaCalls     map[string]int
}

func NewRec() *Rec {
	return &Rec{Root: map[int]int{}, fontKeys: map[string]int{}, Meta: map[string]string{}, MetaCalls: map[string]int{}}
}

func (r *Rec) log(c *canvas, op, s string, ref int, fs ...fl) *Ev {
	e := Ev{Op: op, S: s, Ref: ref}
	if c != nil {
		e.Canvas, e.Depth = c.id, c.depth
	}
	for i, f := range fs {
		v := float64(f)
		if math.IsNaN(v) || math.IsInf(v, 0) {
			r.NonFinite = append(r.NonFinite, op+"#"+strconv.Itoa(i))
		}
		e.F = append(e.F, v)
	}
	r.Events = append(r.Events, e)
	return &r.Events[len(r.Events)-1]
}

// finite checks numbers that are not kept in the event
func (r *Rec) finite(op string, fs ...fl) {
	for i, f := range fs {
		v := float64(f)
		if math.IsNaN(v) || math.IsInf(v, 0) {
			r.NonFinite = append(r.NonFinite, op+"#"+strconv.Itoa(i))
		}
	}
}

type canvas struct {
	r     *Rec
	id    int
	depth int
	ctm   matrix.Transform
	stack []matrix.Transform
	bbox  [4]fl
}

func (r *Rec) newCanvas(root int) *canvas {
	r.nextID++
	c := &canvas{r: r, id: r.nextID, ctm: matrix.Identity()}
	if root == 0 {
		root = c.id
	}
	r.Root[c.id] = root
	return c
}

// ---- backend.Document

func (r *Rec) AddPage(left, top, right, bottom fl) backend.Page {
	c := r.newCanvas(0)
	r.Pages = append(r.Pages, c.id)
	r.PageDims = append(r.PageDims, [4]float64{float64(left), float64(top), float64(right), float64(bottom)})
	c.bbox = [4]fl{left, top, right, bottom}
	r.log(nil, "AddPage", "", c.id, left, top, right, bottom)
	return c
}

func (r *Rec) CreateAnchors(anchors [][]backend.Anchor) {
	r.AnchorsCalls++
	r.Anchors = anchors
	for _, pa := range anchors {
		for _, a := range pa {
			r.finite("CreateAnchors", a.X, a.Y)
		}
	}
	r.log(nil, "CreateAnchors", "", 0, fl(len(anchors)))
}
func (r *Rec) SetAttachments(as []backend.Attachment) {
	r.log(nil, "SetAttachments", "", 0, fl(len(as)))
}
func (r *Rec) EmbedFile(id string, a backend.Attachment) { r.log(nil, "EmbedFile", id, 0) }
func (r *Rec) meta(k, v string) {
	r.Meta[k] = v
	r.MetaCalls[k]++
	r.log(nil, "Set:"+k, v, 0)
}
func (r *Rec) SetTitle(s string)         { r.meta("title", s) }
func (r *Rec) SetDescription(s string)   { r.meta("description", s) }
func (r *Rec) SetCreator(s string)       { r.meta("creator", s) }
func (r *Rec) SetAuthors(s []string)     { r.meta("authors", strings.Join(s, "\x00")) }
func (r *Rec) SetKeywords(s []string)    { r.meta("keywords", strings.Join(s, "\x00")) }
func (r *Rec) SetProducer(s string)      { r.meta("producer", s) }
func (r *Rec) SetDateCreation(d time.Time) { r.meta("created", fmtDate(d)) }
func (r *Rec) SetDateModification(d time.Time) {
	r.meta("modified", fmtDate(d))
}
func fmtDate(d time.Time) string {
	if d.IsZero() {
		return ""
	}
	return d.UTC().Format(time.RFC3339)
}
func (r *Rec) SetBookmarks(root []backend.BookmarkNode) {
	r.BookmarkCalls++
	r.Bookmarks = root
	var walk func(ns []backend.BookmarkNode)
	walk = func(ns []backend.BookmarkNode) {
		for _, n := range ns {
			r.finite("SetBookmarks", n.X, n.Y)
			walk(n.Children)
		}
	}
	walk(root)
	r.log(nil, "SetBookmarks", "", 0)
}

// ---- backend.Page

func (c *canvas) AddInternalLink(x0, y0, x1, y1 fl, name string) {
	c.r.log(c, "AddInternalLink", name, 0, x0, y0, x1, y1)
}
func (c *canvas) AddExternalLink(x0, y0, x1, y1 fl, url string) {
	c.r.log(c, "AddExternalLink", url, 0, x0, y0, x1, y1)
}
func (c *canvas) AddFileAnnotation(x0, y0, x1, y1 fl, id string) {
	c.r.log(c, "AddFileAnnotation", id, 0, x0, y0, x1, y1)
}
func (c *canvas) SetMediaBox(l, t, r, b fl) { c.r.log(c, "SetMediaBox", "", 0, l, t, r, b) }
func (c *canvas) SetTrimBox(l, t, r, b fl)  { c.r.log(c, "SetTrimBox", "", 0, l, t, r, b) }
func (c *canvas) SetBleedBox(l, t, r, b fl) { c.r.log(c, "SetBleedBox", "", 0, l, t, r, b) }

// ---- backend.Canvas

func (c *canvas) GetBoundingBox() (fl, fl, fl, fl) { return c.bbox[0], c.bbox[1], c.bbox[2], c.bbox[3] }
func (c *canvas) SetBoundingBox(l, t, r, b fl) {
	c.bbox = [4]fl{l, t, r, b}
	c.r.log(c, "SetBoundingBox", "", 0, l, t, r, b)
}

func (c *canvas) OnNewStack(f func()) {
	c.r.log(c, "Save", "", 0)
	c.stack = append(c.stack, c.ctm)
	c.depth++
	defer func() {
		c.depth--
		c.ctm = c.stack[len(c.stack)-1]
		c.stack = c.stack[:len(c.stack)-1]
		c.r.log(c, "Restore", "", 0)
	}()
	f()
}

func (c *canvas) State() backend.GraphicState { return c }

func (c *canvas) NewGroup(x, y, w, h fl) backend.Canvas {
	g := c.r.newCanvas(c.r.Root[c.id])
	g.bbox = [4]fl{x, y, x + w, y + h}
	c.r.log(c, "NewGroup", "", g.id, x, y, w, h)
	return g
}

func ref(g backend.Canvas) int {
	if cc, ok := g.(*canvas); ok && cc != nil {
		return cc.id
	}
	return -1
}

func (c *canvas) DrawWithOpacity(opacity fl, group backend.Canvas) {
	c.r.log(c, "DrawWithOpacity", "", ref(group), opacity)
}
func (c *canvas) Paint(op backend.PaintOp) { c.r.log(c, "Paint", op.String(), 0) }
func (c *canvas) Rectangle(x, y, w, h fl)  { c.r.log(c, "Rectangle", "", 0, x, y, w, h) }
func (c *canvas) MoveTo(x, y fl)           { c.r.log(c, "MoveTo", "", 0, x, y) }
func (c *canvas) LineTo(x, y fl)           { c.r.log(c, "LineTo", "", 0, x, y) }
func (c *canvas) CubicTo(x1, y1, x2, y2, x3, y3 fl) {
	c.r.log(c, "CubicTo", "", 0, x1, y1, x2, y2, x3, y3)
}
func (c *canvas) ClosePath() { c.r.log(c, "ClosePath", "", 0) }

func (r *Rec) fontKey(f backend.Font) int {
	d := f.Description()
	o := f.Origin()
	k := fmt.Sprintf("%s|%d|%d|%s|%d|%d", o.File, o.Index, o.Instance, d.Family, d.Weight, d.Style)
	if id, ok := r.fontKeys[k]; ok {
		return id
	}
	id := len(r.fontKeys) + 1
	r.fontKeys[k] = id
	return id
}

func (c *canvas) AddFont(font backend.Font, content []byte) *backend.FontChars {
	e := c.r.log(c, "AddFont", "", 0)
	e.Fonts = []int{c.r.fontKey(font)}
	return &backend.FontChars{Cmap: make(map[backend.GID][]rune), Extents: make(map[backend.GID]backend.GlyphExtents)}
}

func (c *canvas) DrawText(texts []backend.TextDrawing) {
	for _, t := range texts {
		var keys []int
		for _, run := range t.Runs {
			keys = append(keys, c.r.fontKey(run.Font))
			for _, g := range run.Glyphs {
				c.r.finite("DrawText.glyph", g.Offset, g.Rise, g.XAdvance)
			}
		}
		e := c.r.log(c, "DrawText", string(t.Text), 0, t.X, t.Y, t.FontSize, t.ScaleX, t.Angle)
		e.Fonts = keys
	}
	if len(texts) == 0 {
		c.r.log(c, "DrawText", "", 0)
	}
}

func (c *canvas) DrawRasterImage(img backend.RasterImage, w, h fl) {
	c.r.log(c, "DrawRasterImage", img.MimeType, 0, w, h)
}
func (c *canvas) DrawGradient(g backend.GradientLayout, w, h fl) {
	fs := []fl{w, h, g.ScaleY}
	fs = append(fs, g.Coords[:]...)
	fs = append(fs, g.Positions...)
	for _, col := range g.Colors {
		fs = append(fs, col.R, col.G, col.B, col.A)
	}
	c.r.log(c, "DrawGradient", g.Kind, 0, fs...)
}

// ---- backend.GraphicState

func (c *canvas) SetAlphaMask(mask backend.Canvas) { c.r.log(c, "SetAlphaMask", "", ref(mask)) }
func (c *canvas) Clip(evenOdd bool) {
	s := "nonzero"
	if evenOdd {
		s = "evenodd"
	}
	c.r.log(c, "Clip", s, 0)
}
func strokeS(stroke bool) string {
	if stroke {
		return "stroke"
	}
	return "fill"
}
func (c *canvas) SetAlpha(a fl, stroke bool) { c.r.log(c, "SetAlpha", strokeS(stroke), 0, a) }
func (c *canvas) SetColorRgba(col parser.RGBA, stroke bool) {
	c.r.log(c, "SetColorRgba", strokeS(stroke), 0, col.R, col.G, col.B, col.A)
}
func (c *canvas) SetColorPattern(p backend.Canvas, w, h fl, m matrix.Transform, stroke bool) {
	c.r.log(c, "SetColorPattern", strokeS(stroke), ref(p), w, h, m.A, m.B, m.C, m.D, m.E, m.F)
}
func (c *canvas) SetBlendingMode(mode string) { c.r.log(c, "SetBlendingMode", mode, 0) }
func (c *canvas) SetLineWidth(w fl)           { c.r.log(c, "SetLineWidth", "", 0, w) }
func (c *canvas) SetDash(d []fl, off fl)      { c.r.log(c, "SetDash", "", 0, append([]fl{off}, d...)...) }
func (c *canvas) SetStrokeOptions(o backend.StrokeOptions) {
	c.r.log(c, "SetStrokeOptions", o.LineCap.String()+"/"+o.LineJoin.String(), 0, o.MiterLimit)
}
func (c *canvas) GetTransform() matrix.Transform { return c.ctm }
func (c *canvas) Transform(m matrix.Transform) {
	c.ctm = matrix.Mul(c.ctm, m)
	c.r.log(c, "Transform", "", 0, m.A, m.B, m.C, m.D, m.E, m.F)
}
func (c *canvas) SetTextPaint(op backend.PaintOp) { c.r.log(c, "SetTextPaint", op.String(), 0) }

var (
	_ backend.Document = (*Rec)(nil)
	_ backend.Page     = (*canvas)(nil)
)

// Trace renders the event list (one line per call).
func (r *Rec) Trace() string {
	var b strings.Builder
	for i, e := range r.Events {
		fmt.Fprintf(&b, "%4d %s%s\n", i, strings.Repeat(" ", e.Depth), e.String())
	}
	return b.String()
}

// Encode is the compact form the Lean monitor reads (Driver/C14.lean getEv).
func (r *Rec) Encode() sx.X {
	xs := make([]sx.X, 0, len(r.Events))
	one := func(tag string, c int) sx.X { return sx.L(sx.A(tag), sx.I(c)) }
	for _, e := range r.Events {
		switch e.Op {
		case "AddPage":
			xs = append(xs, one("p", e.Ref))
		case "NewGroup":
			xs = append(xs, sx.L(sx.A("g"), sx.I(e.Canvas), sx.I(e.Ref)))
		case "MoveTo":
			xs = append(xs, one("m", e.Canvas))
		case "Rectangle":
			xs = append(xs, one("r", e.Canvas))
		case "LineTo":
			xs = append(xs, one("l", e.Canvas))
		case "CubicTo":
			xs = append(xs, one("b", e.Canvas))
		case "ClosePath":
			xs = append(xs, one("h", e.Canvas))
		case "Paint":
			xs = append(xs, one("P", e.Canvas))
		case "Clip":
			xs = append(xs, one("C", e.Canvas))
		case "Save":
			xs = append(xs, one("s", e.Canvas))
		case "Restore":
			xs = append(xs, one("R", e.Canvas))
		case "AddFont":
			xs = append(xs, sx.L(sx.A("f"), sx.I(e.Canvas), sx.I(e.Fonts[0])))
		case "DrawText":
			t := []sx.X{sx.A("t"), sx.I(e.Canvas)}
			for _, k := range e.Fonts {
				t = append(t, sx.I(k))
			}
			xs = append(xs, sx.L(t...))
		case "DrawWithOpacity", "SetAlphaMask", "SetColorPattern":
			g := e.Ref
			if g < 0 {
				g = 0 // a canvas that does not come from this backend: never created, the monitor rejects
			}
			xs = append(xs, sx.L(sx.A("u"), sx.I(e.Canvas), sx.I(g)))
		default:
			if e.Canvas == 0 {
				xs = append(xs, sx.L(sx.A("d")))
			} else {
				xs = append(xs, one("o", e.Canvas))
			}
		}
	}
	return sx.L(xs...)
}

// EncodeDoc is the document-level call sequence for the docOk automaton (Driver/C14.lean getDocEv).
func (r *Rec) EncodeDoc() sx.X {
	metaIdx := map[string]int{"title": 0, "description": 1, "creator": 2, "authors": 3, "keywords": 4, "producer": 5, "created": 6, "modified": 7}
	var xs []sx.X
	for _, e := range r.Events {
		switch {
		case e.Op == "AddPage":
			xs = append(xs, sx.A("p"))
		case e.Op == "AddInternalLink", e.Op == "AddExternalLink", e.Op == "AddFileAnnotation", e.Op == "SetMediaBox", e.Op == "SetTrimBox", e.Op == "SetBleedBox":
			xs = append(xs, sx.A("c"))
		case e.Op == "CreateAnchors":
			xs = append(xs, sx.A("a"))
		case e.Op == "SetAttachments":
			xs = append(xs, sx.A("t"))
		case e.Op == "EmbedFile":
			xs = append(xs, sx.A("e"))
		case e.Op == "SetBookmarks":
			xs = append(xs, sx.A("b"))
		case strings.HasPrefix(e.Op, "Set:"):
			xs = append(xs, sx.L(sx.A("m"), sx.I(metaIdx[strings.TrimPrefix(e.Op, "Set:")])))
		}
	}
	return sx.L(xs...)
}
