package main

import (
	"flag"
	"fmt"
	"os"
	"strconv"

	"wrverif/res"
)

// Runner is one property's correspondence/judge run.
type Runner func(c *Ctx) error

type Ctx struct {
	Tier      string
	Seed      uint64
	ModelPath string // compiled Lean driver for this property
	Repo      string
	Replay    string // path of a replay file, or ""
	R         *res.Result
}

var runners = map[string]Runner{}

func runMain(args []string) int {
	fs := flag.NewFlagSet("run", flag.ExitOnError)
	tier := fs.String("tier", "quick", "quick|thorough")
	seed := fs.String("seed", "1", "seed")
	model := fs.String("model", "", "model driver executable")
	out := fs.String("out", "", "result file")
	repo := fs.String("repo", "/repo", "repository root")
	replay := fs.String("replay", "", "replay file")
	if len(args) < 1 {
		fmt.Fprintln(os.Stderr, "usage: wrh run Cxx [flags]")
		return 2
	}
	prop := args[0]
	fs.Parse(args[1:])
	run, ok := runners[prop]
	if !ok {
		fmt.Fprintln(os.Stderr, "no runner for", prop)
		return 2
	}
	sd, _ := strconv.ParseUint(*seed, 10, 64)
	c := &Ctx{Tier: *tier, Seed: sd, ModelPath: *model, Repo: *repo, Replay: *replay, R: res.New(prop, *tier, sd)}
	if err := run(c); err != nil {
		fmt.Fprintln(os.Stderr, "wrh run:", err)
		c.R.Notes = append(c.R.Notes, "runner error: "+err.Error())
		if *out != "" {
			c.R.Write(*out)
		}
		return 3
	}
	if *out != "" {
		if err := c.R.Write(*out); err != nil {
			fmt.Fprintln(os.Stderr, err)
			return 3
		}
	}
	return 0
}
