//go:build c06

package main

import "wrverif/c06"

func init() {
	runners["C06"] = func(c *Ctx) error { return c06.Run(c.Tier, c.Seed, c.ModelPath, c.Repo, c.R) }
}
