package main

import (
	"fmt"
	"io"
	"os"
	"time"

	"wrverif/render"
)

// traceMain: debugging aid — render stdin, print the backend trace.
func traceMain(repo string) int {
	render.Quiet()
	src, _ := io.ReadAll(os.Stdin)
	fonts, err := render.NewFonts(repo)
	if err != nil {
		fmt.Println("fonts:", err)
		return 1
	}
	var d *render.Doc
	o := render.Guard(20*time.Second, func() {
		d, err = render.Full(string(src), fonts, render.Opts{})
	})
	if !o.OK() {
		fmt.Println("CRASH", o.Panic, o.Site, o.Timeout)
		fmt.Println(o.Stack)
		return 1
	}
	if err != nil {
		fmt.Println("error:", err)
		return 1
	}
	fmt.Print(d.Rec.Trace())
	return 0
}
