//go:build c19

package main

import (
	"wrverif/c19"
	"wrverif/facts"
)

func init() {
	facts.Tables = append(facts.Tables, facts.Table{File: "C19Styles.lean", Gen: c19.StylesLean})
	runners["C19"] = func(c *Ctx) error { return c19.Run(c.Tier, c.Seed, c.ModelPath, c.Repo, c.R) }
}
