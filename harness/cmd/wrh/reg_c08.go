//go:build c08

package main

import "wrverif/c08"

func init() {
	runners["C08"] = func(c *Ctx) error { return c08.Run(c.Tier, c.Seed, c.ModelPath, c.Repo, c.R) }
}
