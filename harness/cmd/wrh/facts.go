package main

import (
	"encoding/json"
	"fmt"
	"os"
	"path/filepath"

	"wrverif/facts"
)

// runFacts rewrites every generated Lean file; a translator that cannot cope writes a stub that
// does not define what the theorems need (so the obligation visibly breaks) and records why.
func runFacts(repo, out string) int {
	os.MkdirAll(out, 0o755)
	status := map[string]string{}
	write := func(name, content string, err error) {
		p := filepath.Join(out, name)
		if err != nil {
			status[name] = "FAILED: " + err.Error()
			content = "/- GENERATED: translator failed: " + err.Error() + " -/\n"
		} else {
			status[name] = "ok"
		}
		if werr := os.WriteFile(p, []byte(content), 0o644); werr != nil {
			status[name] = "FAILED: " + werr.Error()
		}
	}
	for _, g := range facts.Tables {
		s, err := g.Gen(repo)
		write(g.File, s, err)
	}
	b, _ := json.MarshalIndent(status, "", " ")
	os.WriteFile(filepath.Join(out, "status.json"), b, 0o644)
	fmt.Println(string(b))
	return 0
}
