//go:build c05

package main

import "wrverif/c05"

func init() {
	runners["C05"] = func(c *Ctx) error { return c05.Run(c.Tier, c.Seed, c.ModelPath, c.Repo, c.R) }
}
