// Command wrh is the Go harness of the verification machinery: it regenerates Lean facts from
// /repo's source (`wrh facts`) and runs the correspondence / judge / search runs (`wrh run`).
package main

import (
	"flag"
	"fmt"
	"os"
)

func main() {
	if len(os.Args) < 2 {
		fmt.Fprintln(os.Stderr, "usage: wrh facts|run ...")
		os.Exit(2)
	}
	switch os.Args[1] {
	case "facts":
		fs := flag.NewFlagSet("facts", flag.ExitOnError)
		repo := fs.String("repo", "/repo", "repository root")
		out := fs.String("out", "/verif/lean/WR/Gen", "output directory")
		fs.Parse(os.Args[2:])
		os.Exit(runFacts(*repo, *out))
	case "trace":
		os.Exit(traceMain("/repo"))
	case "run":
		os.Exit(runMain(os.Args[2:]))
	default:
		fmt.Fprintln(os.Stderr, "unknown subcommand", os.Args[1])
		os.Exit(2)
	}
}
