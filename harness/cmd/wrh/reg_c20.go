//go:build c20

package main

import (
	"wrverif/c20"
	"wrverif/facts"
)

func init() {
	facts.Tables = append(facts.Tables, facts.Table{File: "C20Pairs.lean", Gen: func(repo string) (string, error) {
		return c20.PairsLean(), nil
	}})
	runners["C20"] = func(c *Ctx) error { return c20.Run(c.Tier, c.Seed, c.ModelPath, c.Repo, c.R) }
}
