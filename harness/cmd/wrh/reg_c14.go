//go:build c14

package main

import (
	"wrverif/c14"
)

func init() {
	runners["C14"] = func(c *Ctx) error { return c14.Run(c.Tier, c.Seed, c.ModelPath, c.Repo, c.R) }
}
