//go:build c10

package main

import "wrverif/c10"

func init() {
	runners["C10"] = func(c *Ctx) error { return c10.Run(c.Tier, c.Seed, c.ModelPath, c.Repo, c.R) }
}
