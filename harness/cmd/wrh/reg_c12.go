//go:build c12

package main

import "wrverif/c12"

func init() {
	runners["C12"] = func(c *Ctx) error { return c12.Run(c.Tier, c.Seed, c.ModelPath, c.Repo, c.R) }
}
