//go:build c16

package main

import (
	"wrverif/c16"
)

func init() {
	runners["C16"] = func(c *Ctx) error { return c16.Run(c.Tier, c.Seed, c.ModelPath, c.Repo, c.R) }
}
