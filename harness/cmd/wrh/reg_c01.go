//go:build c01

package main

import (
	"os"

	"wrverif/c01"
)

func init() {
	// the same binary re-executed with this variable set is a render worker (process isolation:
	// stack exhaustion / fatal runtime errors / memory blow-ups are observed as a dead child)
	if os.Getenv(c01.WorkerEnv) != "" {
		c01.WorkerMain()
		os.Exit(0)
	}
	runners["C01"] = func(c *Ctx) error { return c01.Run(c.Tier, c.Seed, c.ModelPath, c.Repo, c.R) }
}
