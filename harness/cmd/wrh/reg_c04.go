//go:build c04

package main

import (
	"wrverif/c04"
	"wrverif/facts"
)

func init() {
	facts.Tables = append(facts.Tables, facts.Table{File: "C04Tables.lean", Gen: c04.TablesLean})
	runners["C04"] = func(c *Ctx) error {
		if c.Replay != "" {
			return c04.Replay(c.Replay, c.ModelPath, c.Repo, c.R)
		}
		return c04.Run(c.Tier, c.Seed, c.ModelPath, c.Repo, c.R)
	}
}
