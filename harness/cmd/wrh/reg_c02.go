//go:build c02

package main

import "wrverif/c02"

func init() {
	runners["C02"] = func(c *Ctx) error { return c02.Run(c.Tier, c.Seed, c.ModelPath, c.Repo, c.R) }
}
