//go:build c03

package main

import (
	"wrverif/c03"
	"wrverif/facts"
)

func init() {
	facts.Tables = append(facts.Tables, facts.Table{File: "C03Precedence.lean", Gen: c03.PrecedenceLean})
	runners["C03"] = func(c *Ctx) error { return c03.Run(c.Tier, c.Seed, c.ModelPath, c.Repo, c.Replay, c.R) }
}
