//go:build c07

package main

import "wrverif/c07"

func init() {
	runners["C07"] = func(c *Ctx) error { return c07.Run(c.Tier, c.Seed, c.ModelPath, c.Repo, c.R) }
}
