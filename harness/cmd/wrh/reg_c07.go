//go:build c07

package main

import (
	"os"

	"wrverif/c07"
)

func init() {
	// the same binary re-executed with this variable set is the search child process (a fatal error
	// in a parser - stack exhaustion, out of memory - then kills the child, not the run)
	if os.Getenv(c07.ChildEnv) != "" {
		c07.ChildMain()
		os.Exit(0)
	}
	runners["C07"] = func(c *Ctx) error { return c07.Run(c.Tier, c.Seed, c.ModelPath, c.Repo, c.R) }
}
