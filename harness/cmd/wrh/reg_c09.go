//go:build c09

package main

import "wrverif/c09"

func init() {
	runners["C09"] = func(c *Ctx) error { return c09.Run(c.Tier, c.Seed, c.ModelPath, c.Repo, c.R) }
}
