//go:build c11

package main

import "wrverif/c11"

func init() {
	runners["C11"] = func(c *Ctx) error { return c11.Run(c.Tier, c.Seed, c.ModelPath, c.Repo, c.R) }
}
