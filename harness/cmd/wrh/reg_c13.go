//go:build c13

package main

import "wrverif/c13"

func init() {
	runners["C13"] = func(c *Ctx) error { return c13.Run(c.Tier, c.Seed, c.ModelPath, c.Repo, c.R) }
}
