//go:build c15

package main

import (
	"os"

	"wrverif/c15"
	"wrverif/facts"
)

func init() {
	// the C15 run re-executes this binary as a worker (fresh processes, race-detector variant)
	if mode := os.Getenv("WRH_C15_WORKER"); mode != "" {
		os.Exit(c15.WorkerMain(mode))
	}
	facts.Tables = append(facts.Tables, facts.Table{File: "C15Globals.lean", Gen: c15.GlobalsLean})
	runners["C15"] = func(c *Ctx) error { return c15.Run(c.Tier, c.Seed, c.ModelPath, c.Repo, c.R) }
}
