package main

import "wrverif/c17"

func init() {
	runners["C17"] = func(c *Ctx) error { return c17.Run(c.Tier, c.Seed, c.ModelPath, c.Repo, c.R) }
}
