//go:build c17

package main

import (
	"path/filepath"

	"wrverif/c17"
	"wrverif/facts"
)

func init() {
	facts.Tables = append(facts.Tables, facts.Table{File: "Matrix.lean", Gen: func(repo string) (string, error) {
		return facts.MatrixLean(filepath.Join(repo, "matrix", "matrix.go"))
	}})
	facts.Tables = append(facts.Tables, facts.Table{File: "C17Angles.lean", Gen: c17.AnglesLean})
	runners["C17"] = func(c *Ctx) error { return c17.Run(c.Tier, c.Seed, c.ModelPath, c.Repo, c.R) }
}
