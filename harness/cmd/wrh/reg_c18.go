//go:build c18

package main

import (
	"os"

	"wrverif/c18"
)

func init() {
	// `wrh c18child`: worker for inputs that can kill the process (Go stack overflows are fatal)
	if len(os.Args) > 1 && os.Args[1] == "c18child" {
		c18.ChildMain()
		os.Exit(0)
	}
	runners["C18"] = func(c *Ctx) error { return c18.Run(c.Tier, c.Seed, c.ModelPath, c.Repo, c.R) }
}
