// Package res is the result record every `wrh run` writes for the orchestrator.
package res

import (
	"encoding/json"
	"os"
	"sort"
)

// Finding is one observation that breaks an obligation.
//
//	Kind "judge": the property's own statement fails on implementation output (a failing input).
//	Kind "crash": the implementation panicked / timed out on the input.
//	Kind "corr":  implementation and model differ (the correspondence is broken).
type Finding struct {
	Kind   string      `json:"kind"`
	Op     string      `json:"op"` // correspondence / judge name, e.g. "corr:matrix:mul"
	Input  interface{} `json:"input"`
	Impl   interface{} `json:"impl,omitempty"`
	Model  interface{} `json:"model,omitempty"`
	Reason string      `json:"reason,omitempty"`
	Key    string      `json:"key,omitempty"` // stable identification for known-findings matching
	Seed   uint64      `json:"seed,omitempty"`
}

type Result struct {
	Property    string         `json:"property"`
	Tier        string         `json:"tier"`
	Seed        uint64         `json:"seed"`
	Evaluations int            `json:"evaluations"`
	Nontrivial  int            `json:"distinct_nontrivial"`
	Rule        string         `json:"rule"`
	Samples     []interface{}  `json:"samples"`
	Dist        map[string]int `json:"distribution"`
	ModelCalls  int            `json:"traces_validated_against_impl"`
	Exhaustive  bool           `json:"exhaustive,omitempty"`
	NotChecked  []string       `json:"not_checked,omitempty"`
	Findings    []Finding      `json:"findings"`
	Notes       []string       `json:"notes,omitempty"`

	distinct map[string]bool
}

func New(prop, tier string, seed uint64) *Result {
	return &Result{Property: prop, Tier: tier, Seed: seed, Dist: map[string]int{}, distinct: map[string]bool{}, Findings: []Finding{}}
}

// Count records one evaluated case; key identifies it for distinctness, nontrivial per the property's rule.
func (r *Result) Count(key string, nontrivial bool) {
	r.Evaluations++
	if nontrivial && !r.distinct[key] {
		r.distinct[key] = true
		r.Nontrivial++
	}
}

func (r *Result) Hit(bucket string) { r.Dist[bucket]++ }

func (r *Result) Sample(x interface{}) {
	if len(r.Samples) < 6 {
		r.Samples = append(r.Samples, x)
	}
}

// every class (kind, op, key) keeps its first two findings; the total is bounded only to keep
// the result file readable (a new class is never crowded out by frequent known ones)
const maxPerClass, maxFindings = 2, 600

func (r *Result) Add(f Finding) {
	r.Dist["finding:"+f.Kind+":"+f.Op]++
	n := 0
	for _, g := range r.Findings {
		if g.Kind == f.Kind && g.Op == f.Op && g.Key == f.Key {
			n++
		}
	}
	if n >= maxPerClass || len(r.Findings) >= maxFindings {
		return
	}
	r.Findings = append(r.Findings, f)
}

func (r *Result) Write(path string) error {
	sort.SliceStable(r.Findings, func(i, j int) bool { return r.Findings[i].Kind > r.Findings[j].Kind }) // judge, crash, corr
	b, err := json.MarshalIndent(r, "", " ")
	if err != nil {
		return err
	}
	return os.WriteFile(path, b, 0o644)
}
