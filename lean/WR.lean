-- This module serves as the root of the `WR` library.
-- Import modules here that should be built as part of the library.
import WR.Basic
