import WR.Base.Sexp
import WR.C01.Model
open WR WR.Sexp WR.C01

namespace Driver.C01

def ok (xs : List Sexp) : Sexp := .list (.atom "ok" :: xs)

def getKind : Sexp → Option Kind
  | .atom "doctype" => some .doctype
  | .atom "comment" => some .comment
  | .atom "text" => some .text
  | .list [.atom "element", .str t] => some (.element t)
  | _ => none

def putKind : Kind → Sexp
  | .doctype => .atom "doctype"
  | .comment => .atom "comment"
  | .text => .atom "text"
  | .element t => .list [.atom "element", .str t]

def putRoot : Root → Sexp
  | .error => .list [.atom "error"]
  | .nilDeref => .list [.atom "nil-deref"]
  | .node i k => .list [.atom "node", ofNat i, putKind k]

def getSide : Sexp → Option (Option Bool)
  | .atom "any" => some none
  | .atom "right" => some (some true)
  | .atom "left" => some (some false)
  | _ => none

def getBlock : Sexp → Option Block
  | .list [f, s, h] => do some { forced := ← f.asBool?, side := ← getSide s, height := ← h.asNat? }
  | _ => none

/-- the page loop instrumented to return the page kinds (`b` blank / `c` content) -/
def pageKinds (layoutPage : LayoutPage (List Block)) : Nat → PageState (List Block) → List Sexp → Option (List Sexp)
  | 0, _, _ => none
  | fuel + 1, s, acc =>
    if isBlank s then pageKinds layoutPage fuel { s with right := !s.right } (.atom "b" :: acc)
    else match layoutPage s.resume s.right with
      | (none, _) => some (.atom "c" :: acc).reverse
      | (some p, w) => pageKinds layoutPage fuel { resume := p, right := !s.right, want := w } (.atom "c" :: acc)

def handle (req : Sexp) : Sexp :=
  let r : Option Sexp := match req with
    | .list [.atom "root", .list ks] => do
      let ks ← ks.mapM getKind
      some (ok [putRoot (pickRoot ks), putRoot (pickRootBefore ks)])
    | .list [.atom "pages", h, right, .list bs] => do
      let bs ← bs.mapM getBlock
      let h ← h.asNat?
      let right ← right.asBool?
      let s : PageState (List Block) := { resume := bs, right := right, want := none }
      let fuel := 2 * bs.length + 2
      match pageLoop (blockLayout h) fuel s 0, pageKinds (blockLayout h) fuel s [] with
      | some n, some ks => some (ok [ofNat n, .list ks])
      | _, _ => some (.list [.atom "fuel-exhausted"])
    | .list [.atom "keep", .list items] => do
      -- each item: (ok "a" "b" ...) or (err)
      let f : Sexp → Except Unit (List Sexp) := fun
        | .list (.atom "ok" :: rs) => .ok rs
        | _ => .error ()
      some (ok [.list (keepValid f items)])
    | _ => none
  r.getD (Sexp.err "c01: unknown or malformed request")

end Driver.C01

def main : IO Unit := WR.serve Driver.C01.handle
