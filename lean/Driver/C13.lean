import WR.Base.Sexp
import WR.C13.Model
import WR.C13.Spec
import WR.C13.Auto
open WR WR.Sexp WR.C13

namespace Driver.C13

def ok (xs : List Sexp) : Sexp := .list (.atom "ok" :: xs)

def optRat : Sexp → Option (Option Rat)
  | .atom "none" => some none
  | x => do some (some (← x.asRat?))

def putOptRat : Option Rat → Sexp
  | none => .atom "none"
  | some q => ofRat q

def getTrack : Sexp → Option Track
  | .list [p, s] => do some { pos := ← p.asRat?, size := ← s.asRat? }
  | _ => none

def getGroup : Sexp → Option Group
  | .list (p :: s :: rows) => do
    some { pos := ← p.asRat?, size := ← s.asRat?, rows := ← rows.mapM getTrack }
  | _ => none

def getCell : Sexp → Option Cell
  | .list [gx, cs, gy, rs, x, y, w, h, cw, ch, minw] => do
    some { gx := ← gx.asNat?, cs := ← cs.asNat?, gy := ← gy.asNat?, rs := ← rs.asNat?,
           x := ← x.asRat?, y := ← y.asRat?, w := ← w.asRat?, h := ← h.asRat?,
           cw := ← cw.asRat?, ch := ← ch.asRat?, minw := ← minw.asRat? }
  | _ => none

def getGrid : Sexp → Option Grid
  | .list [.atom "grid", rtl, tx, ty, tw, th, sx, sy, spec,
           .list (.atom "cols" :: cols), .list (.atom "groups" :: groups), .list (.atom "cells" :: cells)] => do
    some { rtl := ← rtl.asBool?, tx := ← tx.asRat?, ty := ← ty.asRat?, tw := ← tw.asRat?, th := ← th.asRat?,
           sx := ← sx.asRat?, sy := ← sy.asRat?, specW := ← optRat spec,
           cols := ← cols.mapM getTrack, groups := ← groups.mapM getGroup, cells := ← cells.mapM getCell }
  | _ => none

def getFirst : Sexp → Option (Nat × Option Rat)
  | .list [cs, w] => do some ((← cs.asNat?), (← optRat w))
  | _ => none

def getCellIn : Sexp → Option CellIn
  | .list [gx, cs, bpp] => do some { gx := ← gx.asNat?, cs := ← cs.asNat?, bpp := ← bpp.asRat? }
  | _ => none

def putCellOut (o : CellOut) : Sexp := .list [ofNat o.gx, ofNat o.cs, ofRat o.x, ofRat o.width]

def getRCell : Sexp → Option RCell
  | .list [id, rs, bh] => do some { id := ← id.asNat?, rs := ← rs.asNat?, bh := ← bh.asRat? }
  | _ => none

def getRRow : Sexp → Option RRow
  | .list (h :: cells) => do some { height := ← optRat h, cells := ← cells.mapM getRCell }
  | _ => none

def getColIn : Sexp → Option ColIn
  | .list [mn, mx, pct, c, hc, hm] => do
    some { min := ← mn.asRat?, max := ← mx.asRat?,
           attr := { constrained := ← c.asBool?, pct := ← pct.asRat?, hasCell := ← hc.asBool?, hasMax := ← hm.asBool? } }
  | _ => none

def handle (req : Sexp) : Sexp :=
  let r : Option Sexp := match req with
    | .list [.atom "judge", eps, g] => do
      let eps ← eps.asRat?
      let g ← getGrid g
      match judge eps g with
      | [] => some (ok [])
      | fs => some (.list [.atom "fail", .list (fs.map .str),
          .list ((judgeCells eps g).map fun (n, is) => .list (.str n :: is.map ofNat))])
    | .list [.atom "fixed", width, sx, .list (.atom "cols" :: cols), .list (.atom "first" :: first)] => do
      let i : FixedIn := { width := ← width.asRat?, sx := ← sx.asRat?, cols := ← cols.mapM optRat, first := ← first.mapM getFirst }
      let (w, cw) := fixedLayout i
      some (ok [ofRat w, .list (cw.map ofRat), .list ((fixedKnown i).map putOptRat)])
    | .list [.atom "auto", width, available, tmin, tmax, spacing, .list (.atom "cols" :: cols)] => do
      let i : AutoIn := { width := ← optRat width, available := ← available.asRat?, tableMin := ← tmin.asRat?,
                          tableMax := ← tmax.asRat?, spacing := ← spacing.asRat?, cols := ← cols.mapM getColIn }
      let (w, cw) := autoLayout i
      let a := autoWidth i - i.spacing
      let branch := if i.cols.isEmpty then "empty"
        else if a ≤ sumR (guess a i.cols 3) then
          (if upperIdx a i.cols = lowerIdx a i.cols then "guess" else "interpolate")
        else "distribute"
      -- distance of the assignable width to the nearest guess sum: the branch conditions compare them, so
      -- a float32 run may take another branch than the exact model when this is below the rounding error
      let absR (q : Rat) : Rat := if q < 0 then -q else q
      let margins := (List.range 4).map fun k => absR (sumR (guess a i.cols k) - a)
      let margin := margins.foldl (fun m q => if q < m then q else m) (absR a + 1)
      some (ok [ofRat w, .list (cw.map ofRat), .atom branch, ofRat margin])
    | .list [.atom "stack", sy, ty, spec, .list (.atom "hs" :: hs)] => do
      let sy ← sy.asRat?
      let ty ← ty.asRat?
      let o := stackGroups sy (ty + sy) (← hs.mapM Sexp.asRat?)
      some (ok [.list (o.1.map ofRat), ofRat o.2, ofRat (tableHeight (← optRat spec) ty o.2)])
    | .list [.atom "place", rtl, tx, tw, sx, .list (.atom "ws" :: ws), .list (.atom "rows" :: rows)] => do
      let rtl ← rtl.asBool?
      let tx ← tx.asRat?
      let tw ← tw.asRat?
      let sx ← sx.asRat?
      let ws ← ws.mapM Sexp.asRat?
      let rows ← rows.mapM fun
        | .list cs => cs.mapM getCellIn
        | _ => none
      let pos := columnPositions rtl tx tw sx ws
      some (ok [.list (pos.map ofRat), .list (rows.map fun r => .list ((placeRow rtl sx ws pos r).map putCellOut))])
    | .list [.atom "rows", sy, y, .list (.atom "rows" :: rows)] => do
      let o := rowPass (← sy.asRat?) (← y.asRat?) (← rows.mapM getRRow)
      some (ok [.list (o.rows.map fun (y, h) => .list [ofRat y, ofRat h]),
                .list (o.cells.map fun d => .list [ofNat d.id, ofRat d.y, ofRat d.bh]),
                ofRat o.endY])
    | _ => none
  r.getD (Sexp.err "c13: unknown or malformed request")

end Driver.C13

def main : IO Unit := WR.serve Driver.C13.handle
