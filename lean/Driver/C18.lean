import WR.Base.Sexp
import WR.C18.Spec
open WR WR.Sexp WR.C18

namespace Driver.C18

def ok (xs : List Sexp) : Sexp := .list (.atom "ok" :: xs)
def tag (t : String) (xs : List Sexp) : Sexp := .list (.atom t :: xs)

def putOp : Op → Sexp
  | .moveTo p => tag "M" [ofRat p.1, ofRat p.2]
  | .lineTo p => tag "L" [ofRat p.1, ofRat p.2]
  | .cubicTo a b p => tag "C" [ofRat a.1, ofRat a.2, ofRat b.1, ofRat b.2, ofRat p.1, ofRat p.2]
  | .close => tag "Z" []
  | .arc rx ry rot l s p => tag "A" [ofRat rx, ofRat ry, ofRat rot, ofBool l, ofBool s, ofRat p.1, ofRat p.2]
  | .rect x y w h => tag "R" [ofRat x, ofRat y, ofRat w, ofRat h]

def putOps (os : List Op) : Sexp := .list (os.map putOp)

def putErr : Err → Sexp
  | .float => tag "err" [.atom "float"]
  | .mismatch => tag "err" [.atom "mismatch"]

def optRat : Sexp → Option (Option Rat)
  | .atom "none" => some none
  | x => x.asRat?.map some

def getAlign : Sexp → Option Align
  | .atom "min" => some .min
  | .atom "mid" => some .mid
  | .atom "max" => some .max
  | _ => none

/-- generator's command: (cmd "<letter>" n1 n2 …) -/
def getCmd : Sexp → Option Spec.Cmd
  | .list (.atom "cmd" :: .str l :: args) => do
    let c ← l.toList.head?
    let vs ← args.mapM Sexp.asRat?
    let sig ← Spec.sigOf c
    if sig.isEmpty then (if vs.isEmpty then some .close else none) else
    let rec chunk (fuel : Nat) (xs : List Rat) : List (List Rat) :=
      match fuel with
      | 0 => []
      | f + 1 => if xs.isEmpty then [] else xs.take sig.length :: chunk f (xs.drop sig.length)
    Spec.mkCmd c (chunk (vs.length + 1) vs)
  | _ => none

def getNode : Nat → Sexp → Option Node
  | 0, _ => none
  | f + 1, x =>
    match x with
    | .list [.atom "shape", n] => do some (.shape (← n.asNat?))
    | .list (.atom "group" :: .atom "none" :: kids) => do some (.group none (← kids.mapM (getNode f)))
    | .list (.atom "group" :: id :: kids) => do some (.group (some (← id.asNat?)) (← kids.mapM (getNode f)))
    | .list [.atom "use", .atom "none"] => some (.use none)
    | .list [.atom "use", id] => do some (.use (some (← id.asNat?)))
    | .list (.atom "defs" :: kids) => do some (.defs (← kids.mapM (getNode f)))
    | _ => none

def pathAnswer (d : String) (gen : Option (List Spec.Cmd)) : Sexp :=
  let model := match parsePath d.toList with
    | .ok (st, ops) => ok [putOps ops, tag "cur" [ofRat st.cur.1, ofRat st.cur.2]]
    | .error e => putErr e
  let parsed := Spec.parse d.toList
  let spec := match parsed with
    | some cmds =>
      let r := Spec.run cmds
      ok [putOps r.2, tag "cur" [ofRat r.1.cur.1, ofRat r.1.cur.2], tag "cmds" [ofNat cmds.length]]
    | none => tag "err" []
  let agree := match gen with
    | none => .atom "na"
    | some g => ofBool (parsed == some g)
  ok [model, spec, agree]

def handle (req : Sexp) : Sexp :=
  let r : Option Sexp := match req with
    | .list [.atom "path", .str d] => some (pathAnswer d none)
    | .list [.atom "path", .str d, .list (.atom "cmds" :: cs)] => do
      let g ← cs.mapM getCmd
      some (pathAnswer d (some g))
    | .list [.atom "points", .str s] =>
      let m := match parsePoints false s.toList with
        | .ok vs => ok (vs.map ofRat)
        | .error e => putErr e
      let sp := match Spec.parseNumberList (s.length + 1) s.toList with
        | some vs => ok (vs.map ofRat)
        | none => tag "err" []
      some (ok [m, sp])
    | .list [.atom "rect", x, y, w, h, rx, ry] => do
      let x ← x.asRat?
      let y ← y.asRat?
      let w ← w.asRat?
      let h ← h.asRat?
      let rx ← optRat rx
      let ry ← optRat ry
      some (ok [putOps (rectOps x y w h rx ry), putOps (Spec.rectPath x y w h rx ry)])
    | .list [.atom "ellipse", cx, cy, rx, ry] => do
      let cx ← cx.asRat?
      let cy ← cy.asRat?
      let rx ← rx.asRat?
      let ry ← ry.asRat?
      some (ok [putOps (ellipseOps cx cy rx ry), putOps (Spec.ellipsePath cx cy rx ry)])
    | .list [.atom "line", a, b, c, d] => do
      let a ← a.asRat?
      let b ← b.asRat?
      let c ← c.asRat?
      let d ← d.asRat?
      some (ok [putOps (lineOps a b c d), putOps (Spec.linePath a b c d)])
    | .list [.atom "poly", cl, .str s] => do
      let cl ← cl.asBool?
      let m := match parsePoints false s.toList with
        | .ok vs => ok [putOps (polyOps cl vs)]
        | .error e => putErr e
      let sp := match Spec.parseNumberList (s.length + 1) s.toList with
        | some vs => ok [putOps (Spec.polyPath cl vs)]
        | none => tag "err" []
      some (ok [m, sp])
    | .list [.atom "viewbox", w, h, vb, ax, ay, no, sl] => do
      let w ← w.asRat?
      let h ← h.asRat?
      let pr : PAR := { x := ← getAlign ax, y := ← getAlign ay, none := ← no.asBool?, slice := ← sl.asBool? }
      let put (t : XF) := Sexp.list [ofRat t.sx, ofRat t.sy, ofRat t.tx, ofRat t.ty]
      match vb with
      | .atom "none" => some (ok [put (resolveTransforms pr w h none), .atom "na"])
      | .list [a, b, c, d] =>
        let v : VB := { x := ← a.asRat?, y := ← b.asRat?, w := ← c.asRat?, h := ← d.asRat? }
        let sp := if v.w > 0 && v.h > 0 then put (Spec.equivalentTransform pr w h v) else .atom "na"
        some (ok [put (resolveTransforms pr w h (some v)), sp])
      | _ => none
    | .list [.atom "viewboxs", w, h, .list [a, b, c, d], .str par, intended] => do
      -- model: the attribute text through parsePAR; spec: the alignment the generator intended (valid texts only)
      let w ← w.asRat?
      let h ← h.asRat?
      let v : VB := { x := ← a.asRat?, y := ← b.asRat?, w := ← c.asRat?, h := ← d.asRat? }
      let put (t : XF) := Sexp.list [ofRat t.sx, ofRat t.sy, ofRat t.tx, ofRat t.ty]
      let sp ← match intended with
        | .list [ax, ay, no, sl] => do
          let pr : PAR := { x := ← getAlign ax, y := ← getAlign ay, none := ← no.asBool?, slice := ← sl.asBool? }
          some (if v.w > 0 && v.h > 0 then put (Spec.equivalentTransform pr w h v) else .atom "na")
        | _ => some (.atom "na")
      some (ok [put (resolveTransforms (parsePAR par.toList) w h (some v)), sp])
    | .list [.atom "root", w, h, dw, dh, .str par] => do
      -- root <svg> without viewBox: viewport W×H, declared absolute width/height (or none)
      let t := rootTransform (parsePAR par.toList) (← w.asRat?) (← h.asRat?) none (← optRat dw) (← optRat dh)
      some (ok [Sexp.list [ofRat t.sx, ofRat t.sy, ofRat t.tx, ofRat t.ty]])
    | .list [.atom "radii", ra, rb, x, y, sq] => do
      let r := scaleRadii (← ra.asRat?) (← rb.asRat?) (← x.asRat?) (← y.asRat?) (← sq.asRat?)
      some (ok [ofRat r.1, ofRat r.2])
    | .list [.atom "guard", .list (.atom "defs" :: ds), root] => do
      let defs ← ds.mapM fun
        | .list [id, n] => do some ((← id.asNat?), (← getNode 64 n))
        | _ => none
      let root ← getNode 64 root
      match drawGuarded defs root with
      | .ok d => some (ok (d.map ofNat))
      | .error .recursive => some (tag "err" [.atom "recursive"])
      | .error .fuel => some (tag "err" [.atom "fuel"])
    | .list [.atom "use", .list (.atom "defs" :: ds), root] => do
      let defs ← ds.mapM fun
        | .list [id, n] => do some ((← id.asNat?), (← getNode 64 n))
        | _ => none
      let root ← getNode 64 root
      match process defs root with
      | .ok d => some (ok (d.map ofNat))
      | .error .recursive => some (tag "err" [.atom "recursive"])
      | .error .fuel => some (tag "err" [.atom "fuel"])
    | _ => none
  r.getD (Sexp.err "c18: unknown or malformed request")

end Driver.C18

def main : IO Unit := WR.serve Driver.C18.handle
