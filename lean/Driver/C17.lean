import WR.Base.Sexp
import WR.C17.Spec
open WR WR.Sexp WR.Gen.Matrix WR.C17

namespace Driver.C17

def getT : Sexp → Option (T Rat)
  | .list [.atom "t", a, b, c, d, e, f] => do
    some { a := ← a.asRat?, b := ← b.asRat?, c := ← c.asRat?, d := ← d.asRat?, e := ← e.asRat?, f := ← f.asRat? }
  | _ => none

def putT (tag : String) (t : T Rat) : Sexp :=
  .list [.atom tag, ofRat t.a, ofRat t.b, ofRat t.c, ofRat t.d, ofRat t.e, ofRat t.f]

def lookup (tbl : List (Rat × Rat × Rat × Rat)) (sel : Rat × Rat × Rat → Rat) (k : Rat) : Rat :=
  match tbl.find? (fun e => e.1 == k) with
  | some e => sel e.2
  | none => 0

def getTrig : Sexp → Option (Trig Rat)
  | .list (.atom "trig" :: es) => do
    let tbl ← es.mapM fun
      | .list [k, c, s, t] => do some ((← k.asRat?), (← c.asRat?), (← s.asRat?), (← t.asRat?))
      | _ => none
    some { cos := lookup tbl (·.1), sin := lookup tbl (·.2.1), tan := lookup tbl (·.2.2) }
  | _ => none

def getFn : Sexp → Option (Fn Rat)
  | .list [.atom "scale", x, y] => do some (.scale (← x.asRat?) (← y.asRat?))
  | .list [.atom "rotate", a] => do some (.rotate (← a.asRat?))
  | .list [.atom "translate", x, y] => do some (.translate (← x.asRat?) (← y.asRat?))
  | .list [.atom "skew", x, y] => do some (.skew (← x.asRat?) (← y.asRat?))
  | .list [.atom "matrix", a, b, c, d, e, f] => do
    some (.matrix (← a.asRat?) (← b.asRat?) (← c.asRat?) (← d.asRat?) (← e.asRat?) (← f.asRat?))
  | _ => none

def getSvgFn : Sexp → Option (SvgFn Rat)
  | .list [.atom "scale", x, y] => do some (.scale (← x.asRat?) (← y.asRat?))
  | .list [.atom "rotate", a] => do some (.rotate (← a.asRat?))
  | .list [.atom "rotateO", a, x, y] => do some (.rotateO (← a.asRat?) (← x.asRat?) (← y.asRat?))
  | .list [.atom "translate", x, y] => do some (.translate (← x.asRat?) (← y.asRat?))
  | .list [.atom "skew", x, y] => do some (.skew (← x.asRat?) (← y.asRat?))
  | .list [.atom "matrix", a, b, c, d, e, f] => do
    some (.matrix (← a.asRat?) (← b.asRat?) (← c.asRat?) (← d.asRat?) (← e.asRat?) (← f.asRat?))
  | _ => none

def putSvgFn : SvgFn Rat → Sexp
  | .scale x y => .list [.atom "scale", ofRat x, ofRat y]
  | .rotate a => .list [.atom "rotate", ofRat a]
  | .rotateO a x y => .list [.atom "rotateO", ofRat a, ofRat x, ofRat y]
  | .translate x y => .list [.atom "translate", ofRat x, ofRat y]
  | .skew x y => .list [.atom "skew", ofRat x, ofRat y]
  | .matrix a b c d e f => .list [.atom "matrix", ofRat a, ofRat b, ofRat c, ofRat d, ofRat e, ofRat f]

def ok (xs : List Sexp) : Sexp := .list (.atom "ok" :: xs)

def noTrig : Trig Rat := { cos := fun _ => 0, sin := fun _ => 0, tan := fun _ => 0 }

def matOp (op : String) (args : List Sexp) : Option Sexp := do
  match op, args with
  | "identity", [] => some (ok [putT "t" f_identity])
  | "new", [a, b, c, d, e, f] =>
    some (ok [putT "t" (f_new (← a.asRat?) (← b.asRat?) (← c.asRat?) (← d.asRat?) (← e.asRat?) (← f.asRat?))])
  | "translation", [x, y] => some (ok [putT "t" (f_translation (← x.asRat?) (← y.asRat?))])
  | "scaling", [x, y] => some (ok [putT "t" (f_scaling (← x.asRat?) (← y.asRat?))])
  | "rotation", [a, tr] => some (ok [putT "t" (f_rotation (← getTrig tr) (← a.asRat?))])
  | "skewc", [a, b, tr] => some (ok [putT "t" (f_skew (← getTrig tr) (← a.asRat?) (← b.asRat?))])
  | "det", [t] => some (ok [ofRat (m_determinant (← getT t))])
  | "mul", [t, u] => some (ok [putT "t" (f_mul (← getT t) (← getT u))])
  | "mul3", [r, s, t] => some (ok [putT "t" (f_mul3 (← getT r) (← getT s) (← getT t))])
  | "leftmul", [t, u] => some (ok [putT "t" (m_leftMultBy (← getT t) (← getT u))])
  | "rightmul", [t, u] => some (ok [putT "t" (m_rightMultBy (← getT t) (← getT u))])
  | "invert", [t] =>
    match m_invert (← getT t) with
    | some i => some (ok [putT "t" i])
    | none => some (.list [.atom "err"])
  | "apply", [t, x, y] =>
    let p := m_apply (← getT t) (← x.asRat?) (← y.asRat?)
    some (ok [ofRat p.1, ofRat p.2])
  | "translate", [t, x, y] => some (ok [putT "t" (m_translate (← getT t) (← x.asRat?) (← y.asRat?))])
  | "scale", [t, x, y] => some (ok [putT "t" (m_scale (← getT t) (← x.asRat?) (← y.asRat?))])
  | "rotate", [t, a, tr] => some (ok [putT "t" (m_rotate (← getTrig tr) (← getT t) (← a.asRat?))])
  | "skew", [t, a, b, tr] => some (ok [putT "t" (m_skew (← getTrig tr) (← getT t) (← a.asRat?) (← b.asRat?))])
  | _, _ => none

def handle (req : Sexp) : Sexp :=
  let r : Option Sexp := match req with
    | .list (.atom "mat" :: .atom op :: args) => matOp op args
    | .list [.atom "css", .list [.atom "origin", ox, oy], .list (.atom "fns" :: fs), tr] => do
      let tr ← getTrig tr
      let fs ← fs.mapM getFn
      let ox ← ox.asRat?
      let oy ← oy.asRat?
      some (ok [putT "model" (cssMatrix tr ox oy fs), putT "spec" (matrixOf (specCss tr ox oy fs))])
    | .list [.atom "svg", .list (.atom "fns" :: fs), tr] => do
      let tr ← getTrig tr
      let fs ← fs.mapM getSvgFn
      some (ok [putT "model" (svgMatrix tr id fs), putT "spec" (matrixOf (specSvgList tr id fs))])
    | .list [.atom "svgargs", .str name, .list args] => do
      let args ← args.mapM Sexp.asRat?
      match svgOfArgs name args with
      | some f => some (ok [putSvgFn f])
      | none => some (.list [.atom "err"])
    | _ => none
  r.getD (Sexp.err "c17: unknown or malformed request")

end Driver.C17

def main : IO Unit := WR.serve Driver.C17.handle
