import WR.C02.Wire
open WR WR.Sexp WR.C02 WR.C02.Wire

namespace Driver.C02

def handle (req : Sexp) : Sexp :=
  let r : Option Sexp := match req with
    -- (paginate lineH ltr top height fuel tree): class-F pagination with one page geometry
    | .list [.atom "paginate", lineH, ltr, top, height, fuel, tree] => do
      let root ← getBox 64 tree
      let top ← top.asInt?
      let height ← height.asInt?
      let res := paginate (geoPages (← lineH.asInt?) (fun _ => (top, height))) (← ltr.asBool?) root (← fuel.asNat?)
      some (ok [ofBool res.done, .list (res.pages.map putPage)])
    -- (judge (doc tok…) (pages (tok…) …)): the conservation statement on observed token sequences
    | .list [.atom "judge", .list (.atom "doc" :: doc), .list (.atom "pages" :: pages)] => do
      some (putVerdict (judgeFlow (← doc.mapM Sexp.asNat?) (← pages.mapM getToks)))
    -- (leaves tree): the document's token sequence according to the model's box tree
    | .list [.atom "leaves", tree] => do
      some (ok ((← getBox 64 tree).leaves.map ofNat))
    | _ => none
  r.getD (Sexp.err "c02: unknown or malformed request")

end Driver.C02

def main : IO Unit := WR.serve Driver.C02.handle
