import WR.Base.Sexp
import WR.C10.Spec
open WR WR.Sexp WR.C10

namespace Driver.C10

def getDim : Sexp → Option Dim
  | .atom "auto" => some .auto
  | .list [.atom "px", v] => do some (.px (← v.asRat?))
  | .list [.atom "pct", v] => do some (.pct (← v.asRat?))
  | _ => none

def getSizing : Sexp → Option Sizing
  | .atom "content" => some .content
  | .atom "padding" => some .padding
  | .atom "border" => some .border
  | _ => none

def getMaxH : Sexp → Option (Option Rat)
  | .atom "none" => some none
  | x => do some (some (← x.asRat?))

/-- fuel = maximal nesting depth accepted on the wire -/
def getBox : Nat → Sexp → Option Box
  | 0, _ => none
  | fuel + 1, .list [.atom "b", .list [ml, mr, mt, mb, pl, pr, pt, pb], .list [bl, br, bt, bb],
           .list [w, minW, maxW, h], minH, maxH, sz, lines, lineH, .list cs] => do
    let s : Style := {
      ml := ← getDim ml, mr := ← getDim mr, mt := ← getDim mt, mb := ← getDim mb,
      pl := ← getDim pl, pr := ← getDim pr, pt := ← getDim pt, pb := ← getDim pb,
      bl := ← bl.asRat?, br := ← br.asRat?, bt := ← bt.asRat?, bb := ← bb.asRat?,
      width := ← getDim w, minW := ← getDim minW, maxW := ← getDim maxW, height := ← getDim h,
      minH := ← getDim minH, maxH := ← getDim maxH, sizing := ← getSizing sz, lines := ← lines.asNat?, lineH := ← lineH.asRat? }
    -- text directly beside block children would create anonymous block boxes: outside the model
    if s.lines != 0 && !cs.isEmpty then none
    else some (.mk s (← cs.mapM (getBox fuel)))
  | _, _ => none

def putLBox (b : LBox) : Sexp :=
  .list ([b.x, b.y, b.w, b.h, b.mt, b.mr, b.mb, b.ml, b.pt, b.pr, b.pb, b.pl, b.bt, b.br, b.bb, b.bl].map ofRat)

def getLBox : Sexp → Option LBox
  | .list [x, y, w, h, mt, mr, mb, ml, pt, pr, pb, pl, bt, br, bb, bl] => do
    some { x := ← x.asRat?, y := ← y.asRat?, w := ← w.asRat?, h := ← h.asRat?,
           mt := ← mt.asRat?, mr := ← mr.asRat?, mb := ← mb.asRat?, ml := ← ml.asRat?,
           pt := ← pt.asRat?, pr := ← pr.asRat?, pb := ← pb.asRat?, pl := ← pl.asRat?,
           bt := ← bt.asRat?, br := ← br.asRat?, bb := ← bb.asRat?, bl := ← bl.asRat? }
  | _ => none

def ok (xs : List Sexp) : Sexp := .list (.atom "ok" :: xs)

def putViol (v : Viol) : Sexp := .list [.atom v.rule, ofNat v.index, .str v.detail]

def handle (req : Sexp) : Sexp :=
  let r : Option Sexp := match req with
    | .list [.atom "layout", w, h, b] => do
      let t := layoutDoc (← w.asRat?) (← h.asRat?) (← getBox 64 b)
      some (ok [.list (t.flatten.map putLBox)])
    -- judge the specification on the implementation's numbers (preorder list of boxes)
    | .list [.atom "judge", w, h, b, .list impl] => do
      let bs ← impl.mapM getLBox
      let box ← getBox 64 b
      match judgeDoc (← w.asRat?) (← h.asRat?) box bs with
      | none => some (.list [.atom "shape-mismatch"])
      | some vs => some (ok (vs.map putViol))
    | .list [.atom "collapse", .list ms] => do
      let ms ← ms.mapM Sexp.asRat?
      some (ok [ofRat (collapseMargin ms), ofRat (collapseSpec ms)])
    | .list [.atom "width", cb, pb, minW, maxW, ml, mr, w] => do
      let g : Sexp → Option MF := fun
        | .atom "auto" => some .auto
        | x => do some (.val (← x.asRat?))
      let r := blockLevelWidth (← cb.asRat?) (← pb.asRat?) (← minW.asRat?) (← getMaxH maxW)
                 { ml := ← g ml, mr := ← g mr, width := ← g w }
      some (ok [ofRat r.ml.V, ofRat r.mr.V, ofRat r.width.V])
    | _ => none
  r.getD (Sexp.err "c10: unknown or malformed request")

end Driver.C10

def main : IO Unit := WR.serve Driver.C10.handle
