import WR.Base.Sexp
import WR.C08.Spec
open WR WR.Sexp WR.C08

namespace Driver.C08

/-! wire format of tokens:  ws | (c "text") | (i "s") | (l "s") | (n "repr") | (d "repr" "unit") | (o "kind" "text") | (f "name" tok…) -/

mutual
  def getTok : Sexp → Option Tok
    | .atom "ws" => some .ws
    | .list [.atom "c", .str s] => some (.comment s)
    | .list [.atom "i", .str s] => some (.ident s)
    | .list [.atom "l", .str s] => some (.lit s)
    | .list [.atom "n", .str s] => some (.num s)
    | .list [.atom "d", .str r, .str u] => some (.dim r u)
    | .list [.atom "o", .str k, .str t] => some (.other k t)
    | .list (.atom "f" :: .str name :: args) =>
      match getTokL args with
      | some as => some (.fn name as)
      | none => none
    | _ => none
  def getTokL : List Sexp → Option (List Tok)
    | [] => some []
    | x :: xs =>
      match getTok x, getTokL xs with
      | some t, some ts => some (t :: ts)
      | _, _ => none
end

mutual
  def putTok : Tok → Sexp
    | .ws => .atom "ws"
    | .comment s => .list [.atom "c", .str s]
    | .ident s => .list [.atom "i", .str s]
    | .lit s => .list [.atom "l", .str s]
    | .num s => .list [.atom "n", .str s]
    | .dim r u => .list [.atom "d", .str r, .str u]
    | .other k t => .list [.atom "o", .str k, .str t]
    | .fn name args => .list (.atom "f" :: .str name :: putTokL args)
  def putTokL : List Tok → List Sexp
    | [] => []
    | t :: ts => putTok t :: putTokL ts
end

def getToks : Sexp → Option (List Tok)
  | .list xs => getTokL xs
  | _ => none

def putToks (ts : List Tok) : Sexp := .list (putTokL ts)

def getVal : Sexp → Option Val
  | .atom "inherit" => some .inherit
  | .atom "initial" => some .initial
  | .list (.atom "raw" :: ts) => do some (.raw (← getTokL ts))
  | .list [.atom "ok", .str v] => some (.ok v)
  | _ => none

def putVal : Val → Sexp
  | .inherit => .atom "inherit"
  | .initial => .atom "initial"
  | .raw ts => .list (.atom "raw" :: putTokL ts)
  | .ok v => .list [.atom "ok", .str v]

def getOut : Sexp → Option Out
  | .list [.str name, v, .str sh, imp] => do
    some { name := name, value := ← getVal v, shorthand := sh, important := ← imp.asBool? }
  | _ => none

def putOut (o : Out) : Sexp := .list [.str o.name, putVal o.value, .str o.shorthand, ofBool o.important]

def getSh : Sexp → Option (Option Sh)
  | .atom "-" => some none
  | .atom "radius" => some (some .borderRadius)
  | .atom "flex" => some (some .flex)
  | .atom "opaque" => some (some .opaque)
  | .list (.atom "four" :: ns) => do some (some (.fourSides (← ns.mapM Sexp.asStr?)))
  | .list (.atom "generic" :: ns) => do some (some (.generic (← ns.mapM Sexp.asStr?)))
  | _ => none

structure NameInfo where
  name : String
  notPrint : Bool
  proprietary : Bool
  unstable : Bool
  known : Bool
  supported : Bool
  sh : Option Sh

/-- the finite tables sent by the harness (answers of the real code) -/
structure Tables where
  names : List NameInfo := []
  v : List (String × List Tok × Option String) := []
  x : List (String × List Tok × Option (List (String × List Tok))) := []
  xo : List (String × List Tok × Option (List Out)) := []
  gs : List (Tok × Option String) := []
  basis : List (Tok × Bool) := []
  zero : List (Tok × Bool) := []

def getPair : Sexp → Option (String × List Tok)
  | .list [.str n, ts] => do some (n, ← getToks ts)
  | _ => none

def addEntry (t : Tables) : Sexp → Option Tables
  | .list [.atom "nm", .str n, a, b, c, d, e, sh] => do
    let i : NameInfo := { name := n, notPrint := ← a.asBool?, proprietary := ← b.asBool?, unstable := ← c.asBool?,
                          known := ← d.asBool?, supported := ← e.asBool?, sh := ← getSh sh }
    some { t with names := i :: t.names }
  | .list [.atom "v", .str n, ts, r] => do
    let ts ← getToks ts
    match r with
    | .str v => some { t with v := (n, ts, some v) :: t.v }
    | .atom "err" => some { t with v := (n, ts, none) :: t.v }
    | _ => none
  | .list [.atom "x", .str n, ts, r] => do
    let ts ← getToks ts
    match r with
    | .atom "err" => some { t with x := (n, ts, none) :: t.x }
    | .list ps => do some { t with x := (n, ts, some (← ps.mapM getPair)) :: t.x }
    | _ => none
  | .list [.atom "xo", .str n, ts, r] => do
    let ts ← getToks ts
    match r with
    | .atom "err" => some { t with xo := (n, ts, none) :: t.xo }
    | .list os => do some { t with xo := (n, ts, some (← os.mapM getOut)) :: t.xo }
    | _ => none
  | .list [.atom "gs", tok, r] => do
    let tok ← getTok tok
    match r with
    | .str v => some { t with gs := (tok, some v) :: t.gs }
    | .atom "err" => some { t with gs := (tok, none) :: t.gs }
    | _ => none
  | .list [.atom "basis", tok, b] => do
    some { t with basis := (← getTok tok, ← b.asBool?) :: t.basis }
  | .list [.atom "zero", tok, b] => do
    some { t with zero := (← getTok tok, ← b.asBool?) :: t.zero }
  | _ => none

def getTables : Sexp → Option Tables
  | .list (.atom "params" :: es) => es.foldlM addEntry {}
  | _ => none

def find2 {β : Type} (tbl : List (String × List Tok × β)) (n : String) (ts : List Tok) : Option β :=
  (tbl.find? fun e => e.1 == n && e.2.1 == ts).map (·.2.2)

def missing : String := "?missing-oracle-entry"

def Tables.params (t : Tables) : Params :=
  let info (n : String) : Option NameInfo := t.names.find? (·.name == n)
  { notPrint := fun n => (info n).any (·.notPrint)
    proprietary := fun n => (info n).any (·.proprietary)
    unstable := fun n => (info n).any (·.unstable)
    shorthand := fun n => (info n).bind (·.sh)
    known := fun n => (info n).any (·.known)
    supported := fun n => (info n).any (·.supported)
    V := fun n ts => match find2 t.v n ts with
      | some r => r
      | none => some missing
    X := fun n ts => (find2 t.x n ts).join
    XO := fun n ts => (find2 t.xo n ts).join
    growShrink := fun tok => ((t.gs.find? (·.1 == tok)).map (·.2)).join
    isBasis := fun tok => ((t.basis.find? (·.1 == tok)).map (·.2)).getD false
    intZero := fun tok => ((t.zero.find? (·.1 == tok)).map (·.2)).getD false }

def getCompound : Sexp → Option Compound
  | .atom "skip" => some .skip
  | .list (.atom "decl" :: .str name :: imp :: ts) => do
    some (.decl { name := name, value := ← ts.mapM getTok, important := ← imp.asBool? })
  | _ => none

def getBinding : Sexp → Option (String × List Tok)
  | .list (.str n :: ts) => do some (n, ← ts.mapM getTok)
  | _ => none

def getEnv : Sexp → Option Bindings
  | .list (.atom "env" :: bs) => bs.mapM getBinding
  | _ => none

def ok (xs : List Sexp) : Sexp := .list (.atom "ok" :: xs)

def handle (req : Sexp) : Sexp :=
  let r : Option Sexp := match req with
    | .list [.atom "preprocess", tbl, .list (.atom "block" :: cs)] => do
      let t ← getTables tbl
      let cs ← cs.mapM getCompound
      some (ok ((preprocess t.params cs).map putOut))
    | .list [.atom "sides", n] => do
      match specSides (← n.asNat?) with
      | some (a, b, c, d) => some (ok [ofNat a, ofNat b, ofNat c, ofNat d])
      | none => some (.list [.atom "err"])
    | .list [.atom "spec-four", ts] => do
      match specFourSides (← getToks ts) with
      | some l => some (ok (l.map putToks))
      | none => some (.list [.atom "err"])
    | .list [.atom "spec-radius", ts] => do
      match specBorderRadius (← getToks ts) with
      | some l => some (ok (l.map putToks))
      | none => some (.list [.atom "err"])
    | .list [.atom "hasvar", t] => do some (ok [ofBool (hasVar (← getTok t))])
    | .list [.atom "resolve", env, ts] => do
      let b ← getEnv env
      some (ok (putTokL (solveTokens b (← getToks ts))))
    | .list [.atom "spec-resolve", env, fuel, ts] => do
      let b ← getEnv env
      match specResolve b (← fuel.asNat?) (← getToks ts) with
      | .toks r => some (ok (putTokL r))
      | .invalid => some (.list [.atom "invalid"])
      | .outOfFuel => some (.list [.atom "outoffuel"])
    | .list [.atom "cascade", tbl, env, .str prop, .str sh, ts] => do
      let t ← getTables tbl
      let b ← getEnv env
      match cascadePending t.params b prop sh (← getToks ts) with
      | .invalid s => some (.list (.atom "invalid" :: putTokL s))
      | .valid v => some (.list [.atom "valid", putVal v])
    | _ => none
  r.getD (Sexp.err "c08: unknown or malformed request")

end Driver.C08

def main : IO Unit := WR.serve Driver.C08.handle
