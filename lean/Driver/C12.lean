import WR.C02.Wire
import WR.C12.Model
open WR WR.Sexp WR.C02 WR.C02.Wire WR.C12

namespace Driver.C12

def getSide : Sexp → Option (Option Bool)
  | .atom "none" => some none
  | .atom "left" => some (some false)
  | .atom "right" => some (some true)
  | _ => none

def getNth : Sexp → Option (Option (Int × Int))
  | .atom "none" => some none
  | .list [a, b] => do some (some ((← a.asInt?), (← b.asInt?)))
  | _ => none

/-- `(sel side blank first name nth)` -/
def getSel : Sexp → Option PageSel
  | .list [.atom "sel", side, blank, first, name, nth] => do
    some { side := ← getSide side, blank := ← blank.asBool?, first := ← first.asBool?, name := ← name.asNat?,
           nth := ← getNth nth }
  | _ => none

def getLen : Sexp → Option Len
  | .atom "auto" => some .auto
  | .list [.atom "px", v] => do some (.px (← v.asRat?))
  | .list [.atom "pct", v] => do some (.pct (← v.asRat?))
  | _ => none

def getProp : Sexp → Option PProp
  | .atom "size-w" => some .sizeW
  | .atom "size-h" => some .sizeH
  | .atom "margin-top" => some .mTop
  | .atom "margin-right" => some .mRight
  | .atom "margin-bottom" => some .mBottom
  | .atom "margin-left" => some .mLeft
  | .atom "width" => some .width
  | .atom "height" => some .height
  | .atom "counter-increment" => some .ctrIncr
  | .atom "counter-reset" => some .ctrReset
  | .atom "counter-set" => some .ctrSet
  | .atom "padding-top" => some .pTop
  | .atom "padding-right" => some .pRight
  | .atom "padding-bottom" => some .pBottom
  | .atom "padding-left" => some .pLeft
  | .atom "border-top-width" => some .bTop
  | .atom "border-right-width" => some .bRight
  | .atom "border-bottom-width" => some .bBottom
  | .atom "border-left-width" => some .bLeft
  | _ => none

def getDecl : Sexp → Option Decl
  | .list [.atom "decl", p, v, imp] => do
    some { prop := ← getProp p, val := ← getLen v, important := ← imp.asBool? }
  | _ => none

def getRule : Sexp → Option Rule
  | .list [.atom "rule", .list (.atom "sels" :: ss), .list (.atom "decls" :: ds)] => do
    some { sels := ← ss.mapM getSel, decls := ← ds.mapM getDecl }
  | _ => none

/-- `nil` | `(i sub)` -/
def getRS : Nat → Sexp → Option RS
  | 0, _ => none
  | _+1, .atom "nil" => some .start
  | fuel+1, .list [i, sub] => do some (.at (← i.asNat?) (← getRS fuel sub))
  | _, _ => none

/-- margin-box extents, margins and content size, then border / padding: left right top bottom -/
def putGeom (g : PageGeom) : Sexp :=
  .list [.atom "geom", ofRat (g.h.mA + g.dh.sum + g.h.inner + g.h.mB), ofRat (g.v.mA + g.dv.sum + g.v.inner + g.v.mB),
         ofRat g.h.mA, ofRat g.h.inner, ofRat g.h.mB, ofRat g.v.mA, ofRat g.v.inner, ofRat g.v.mB,
         ofRat g.dh.bA, ofRat g.dh.bB, ofRat g.dv.bA, ofRat g.dv.bB, ofRat g.dh.pA, ofRat g.dh.pB, ofRat g.dv.pA, ofRat g.dv.pB]

def putPages (rules : List Rule) : List Page → List Int → List Sexp
  | p :: ps, c :: cs =>
    .list [putPage p, putGeom (pageGeom rules p.info), ofInt c] :: putPages rules ps cs
  | _, _ => []

def handle (req : Sexp) : Sexp :=
  let r : Option Sexp := match req with
    -- (c12 lineH ltr fuel (rules rule…) tree)
    | .list [.atom "c12", lineH, ltr, fuel, .list (.atom "rules" :: rs), tree] => do
      let rules ← rs.mapM getRule
      let root ← getBox 64 tree
      let res := paginateWith rules (← lineH.asInt?) (← ltr.asBool?) root (← fuel.asNat?)
      let ctrs := runCounters (res.pages.map (fun p => counterOps rules p.info)) 0
      some (ok [ofBool res.done, .list (putPages rules res.pages ctrs)])
    -- (match sel index right blank name): pageTypeMatch + specificity
    | .list [.atom "match", sel, index, right, blank, name] => do
      let s ← getSel sel
      let p : PageInfo := { index := ← index.asNat?, right := ← right.asBool?, blank := ← blank.asBool?,
                            name := ← name.asNat?, forced := false }
      some (ok [ofBool (s.matches p), ofNat s.spec.1, ofNat s.spec.2.1, ofNat s.spec.2.2])
    -- (page lineH pageNo top height forced tree resume): one page of class-F layout (the "does it fit"
    -- oracle of the early_end_justified judge): the lines placed and whether the box tree was finished
    | .list [.atom "page", lineH, pageNo, top, height, forced, tree, resume] => do
      let root ← getBox 64 tree
      let rs ← getRS 64 resume
      let top ← top.asInt?
      let c : PageCtx := { pageNo := ← pageNo.asNat?, top, bottom := top + (← height.asInt?), forced := ← forced.asBool?,
                           lineH := ← lineH.asInt? }
      match layBox (geo c) root rs (geoInit c) true with
      | .abort _ => some (.list [.atom "abort"])
      | .ok br =>
        some (ok [ofBool br.resume.isNone,
                  .list (br.frag.placed.map (fun (t : Nat × Int) => Sexp.list [ofNat t.1, ofInt t.2]))])
    | _ => none
  r.getD (Sexp.err "c12: unknown or malformed request")

end Driver.C12

def main : IO Unit := WR.serve Driver.C12.handle
