import WR.Base.Sexp
import WR.C14.Proto
import WR.C14.Spec
import WR.C14.ProtoDoc
open WR WR.Sexp WR.C14

namespace Driver.C14

def ok (xs : List Sexp) : Sexp := .list (.atom "ok" :: xs)

/-- compact event encoding: (p c) (g c n) (m c) (r c) (l c) (b c) (h c) (P c) (C c) (s c) (R c)
    (f c k) (t c k…) (u c g) (o c) (d) -/
def getEv : Sexp → Option Ev
  | .list [.atom "p", c] => do some (.addPage (← c.asNat?))
  | .list [.atom "g", c, g] => do some (.newGroup (← c.asNat?) (← g.asNat?))
  | .list [.atom "m", c] => do some (.path (← c.asNat?) .moveTo)
  | .list [.atom "r", c] => do some (.path (← c.asNat?) .rect)
  | .list [.atom "l", c] => do some (.path (← c.asNat?) .lineTo)
  | .list [.atom "b", c] => do some (.path (← c.asNat?) .cubicTo)
  | .list [.atom "h", c] => do some (.path (← c.asNat?) .close)
  | .list [.atom "P", c] => do some (.paint (← c.asNat?))
  | .list [.atom "C", c] => do some (.clip (← c.asNat?))
  | .list [.atom "s", c] => do some (.save (← c.asNat?))
  | .list [.atom "R", c] => do some (.restore (← c.asNat?))
  | .list [.atom "f", c, k] => do some (.addFont (← c.asNat?) (← k.asNat?))
  | .list (.atom "t" :: c :: ks) => do some (.drawText (← c.asNat?) (← ks.mapM Sexp.asNat?))
  | .list [.atom "u", c, g] => do some (.useGroup (← c.asNat?) (← g.asNat?))
  | .list [.atom "o", c] => do some (.other (← c.asNat?))
  | .list [.atom "d"] => some .doc
  | _ => none

/-- global indices of the calls made on canvas c -/
def indicesOn (c : Nat) (evs : List Ev) : List Nat :=
  ((List.zip evs (List.range evs.length)).filter (fun p => p.1.canvas == some c)).map (·.2)

def mapIdx (ixs : List Nat) (n : Nat) (i : Nat) : Nat := (ixs[i]?).getD n

def canvasReport (evs : List Ev) (c : Nat) : List Sexp :=
  let sub := onCanvas c evs
  let ixs := indicesOn c evs
  let n := evs.length
  let pv := (pathViol false 0 sub).map (fun i => .list [.atom "empty-path", ofNat (mapIdx ixs n i)])
  let cv := (curViol false 0 sub).map (fun i => .list [.atom "no-current-point", ofNat (mapIdx ixs n i)])
  let sv := match stackViol 0 0 sub with
    | none => []
    | some i => [.list [.atom "unbalanced-stack", ofNat (mapIdx ixs n i), ofNat c]]
  pv ++ cv ++ sv

def getDocEv : Sexp → Option DocEv
  | .atom "p" => some .addPage
  | .atom "c" => some .pageCall
  | .atom "a" => some .createAnchors
  | .atom "t" => some .setAttachments
  | .atom "e" => some .embedFile
  | .atom "b" => some .setBookmarks
  | .list [.atom "m", k] => do some (.metadata (← k.asNat?))
  | _ => none

def sealReport (evs : List Ev) (g : Nat) : List Sexp :=
  match sealViol g 0 0 false 0 evs with
  | none => []
  | some i => [.list [.atom "group-not-sealed", ofNat i, ofNat g]]

def protoAnswer (n : Nat) (evs : List Ev) (doc : List DocEv) : Sexp :=
  let acc := accepts n evs && sealedOk evs && docOk doc
  let pg : List Sexp := if pagesOk n evs then [] else
    [.list [.atom "page-count", ofNat (evs.filter Ev.isAddPage).length, ofNat n]]
  let gl : List Sexp := match globalViol [] [] 0 evs with
    | none => []
    | some i => [.list [.atom "global", ofNat i]]
  let cs := (created evs).flatMap (canvasReport evs)
  let sl := if sealedOk evs then [] else (groups evs).flatMap (sealReport evs)
  let dc : List Sexp := if docOk doc then [] else [.list [.atom "document-protocol", ofNat evs.length]]
  .list [.atom (if acc then "accept" else "reject"), .list (pg ++ gl ++ cs ++ sl ++ dc)]

def getPairs : Sexp → Option (List (String × Nat))
  | .list xs => xs.mapM fun
    | .list [.str n, i] => do some (n, ← i.asNat?)
    | _ => none
  | _ => none

def putPairs (xs : List (String × Nat)) : Sexp :=
  .list (xs.map fun (n, i) => .list [.str n, ofNat i])

def getLink : Sexp → Option Link
  | .list [.atom "i", .str t] => some ⟨.internal, t⟩
  | .list [.atom "e", .str t] => some ⟨.external, t⟩
  | .list [.atom "a", .str t] => some ⟨.attachment, t⟩
  | _ => none

def putLink (l : Link) : Sexp :=
  .list [.atom (match l.type with | .internal => "i" | .external => "e" | .attachment => "a"), .str l.target]

def getLinks : Sexp → Option (List Link)
  | .list xs => xs.mapM getLink
  | _ => none

def errName : BkErr → String
  | .popEmpty => "popEmpty" | .badDepth => "badDepth" | .noParent => "noParent"

def handle (req : Sexp) : Sexp :=
  let r : Option Sexp := match req with
    | .list [.atom "proto", n, .list evs, .list doc] => do
      let n ← n.asNat?
      let evs ← evs.mapM getEv
      let doc ← doc.mapM getDocEv
      some (protoAnswer n evs doc)
    -- model of gatherLinksAndBookmarks' anchor rule + resolveLinks from per-page candidates
    | .list [.atom "links", .list cands, .list links] => do
      let cands ← cands.mapM getPairs
      let links ← links.mapM getLinks
      let (pl, pa) := resolveLinks cands links
      some (ok [.list (pa.map putPairs), .list (pl.map fun l => .list (l.map putLink))])
    -- resolveLinks alone, from the page maps (unit level, through the hook)
    | .list [.atom "resolve", .list maps, .list links] => do
      let maps ← maps.mapM getPairs
      let links ← links.mapM getLinks
      let pa := pagedAnchors [] maps
      let defined := pa.flatten.map (·.1)
      some (ok [.list (pa.map putPairs), .list (links.map fun l => .list ((resolvePageLinks defined l).map putLink))])
    -- the property's statement on implementation output
    | .list [.atom "links-judge", .list cands, .list links, .list outA, .list outL] => do
      let cands ← cands.mapM getPairs
      let links ← links.mapM getLinks
      let outA ← outA.mapM getPairs
      let outL ← outL.mapM getLinks
      let defined := outA.flatten.map (·.1)
      some (ok [ofBool (anchorsJudge cands outA), ofBool (linksJudge defined links outL)])
    | .list (.atom "bookmarks" :: ls) => do
      let ls ← ls.mapM Sexp.asInt?
      match bookmarkDepths ls with
      | .ok ds => some (ok (ds.map ofNat))
      | .error e => some (.list [.atom "panic", .atom (errName e)])
    | .list [.atom "bookmarks-judge", .list ls, .list ds] => do
      let ls ← ls.mapM Sexp.asInt?
      let ds ← ds.mapM Sexp.asNat?
      some (ok [ofBool (bookmarksJudge ls ds)])
    | _ => none
  r.getD (Sexp.err "c14: unknown or malformed request")

end Driver.C14

def main : IO Unit := WR.serve Driver.C14.handle
