import WR.Base.Sexp
import WR.C05.Printable
open WR WR.Sexp WR.C05

/-
  Driver of the C05 model.  Request
    (c05 (sels <sel> …) <node>)
  answer
    (ok (r <bits> (spec a b c) "pseudo-element") …)      one `r` per selector
  (c05parse "text") → (ok (sels <sel> …) "printed" printable rt) | (err) | (unsupported) | (fuel)   the parser model
  (c05print (sels <sel> …)) → (ok "printed")                                          the printer model
  and the batched form (c05m (sels <sel> …) <node> …) → (ok (t (r …) …) …), one `t` per tree,
  where <bits> is one 0/1 character per node of the tree in document order: `selMatch sel loc`.
-/
namespace Driver.C05

def getOp : Sexp → Option AttrOp
  | .atom "has" => some .has | .atom "eq" => some .eq | .atom "ne" => some .ne
  | .atom "incl" => some .incl | .atom "dash" => some .dash | .atom "pre" => some .pre
  | .atom "suf" => some .suf | .atom "sub" => some .sub | _ => none

def getRel : Sexp → Option RelKind
  | .atom "is" => some .is | .atom "not" => some .not | .atom "has" => some .has
  | .atom "haschild" => some .haschild | _ => none

def getComb : Sexp → Option Comb
  | .atom "desc" => some .desc | .atom "child" => some .child | .atom "adj" => some .adj
  | .atom "sib" => some .sib | _ => none

mutual
  def getSel : Sexp → Option Sel
    | .list [.atom "tag", .str n] => some (.tag n.toList)
    | .list [.atom "class", .str n] => some (.cls n.toList)
    | .list [.atom "id", .str n] => some (.id n.toList)
    | .list [.atom "attr", .str k, .str v, op, ic] => do
      some (.attr k.toList v.toList (← getOp op) (← ic.asBool?))
    | .list [.atom "nth", a, b, last, ofType] => do
      some (.nth (← a.asInt?) (← b.asInt?) (← last.asBool?) (← ofType.asBool?))
    | .list [.atom "only", ofType] => do some (.only (← ofType.asBool?))
    | .list [.atom "empty"] => some .empty
    | .list [.atom "root"] => some .root
    | .list [.atom "never", .str v] => some (.never v.toList)
    | .list (.atom "rel" :: k :: args) => do some (.rel (← getRel k) (← getSels args))
    | .list (.atom "compound" :: .str pe :: args) => do some (.compound pe.toList (← getSels args))
    | .list [.atom "combined", c, a, d] => do some (.combined (← getSel a) (← getComb c) (← getSel d))
    | _ => none
  def getSels : List Sexp → Option (List Sel)
    | [] => some []
    | x :: xs => do some ((← getSel x) :: (← getSels xs))
end

def getKind : Sexp → Option Kind
  | .atom "e" => some .elem | .atom "t" => some .text | .atom "c" => some .comment
  | .atom "d" => some .doc | .atom "o" => some .other | _ => none

def getAttr : Sexp → Option Attr
  | .list [.str k, .str v] => some (k.toList, v.toList)
  | _ => none

mutual
  def getNode : Sexp → Option Node
    | .list [.atom "n", k, .str d, .list attrs, .list cs] => do
      some (.mk (← getKind k) d.toList (← attrs.mapM getAttr) (← getNodes cs))
    | _ => none
  def getNodes : List Sexp → Option (List Node)
    | [] => some []
    | x :: xs => do some ((← getNode x) :: (← getNodes xs))
end

def putOp : AttrOp → Sexp
  | .has => .atom "has" | .eq => .atom "eq" | .ne => .atom "ne" | .incl => .atom "incl"
  | .dash => .atom "dash" | .pre => .atom "pre" | .suf => .atom "suf" | .sub => .atom "sub"

def putRel : RelKind → Sexp
  | .is => .atom "is" | .not => .atom "not" | .has => .atom "has" | .haschild => .atom "haschild"

def putComb : Comb → Sexp
  | .desc => .atom "desc" | .child => .atom "child" | .adj => .atom "adj" | .sib => .atom "sib"

def putStr (s : Str) : Sexp := .str (String.ofList s)

mutual
  def putSel : Sel → Sexp
    | .tag n => .list [.atom "tag", putStr n]
    | .cls n => .list [.atom "class", putStr n]
    | .id n => .list [.atom "id", putStr n]
    | .attr k v op ic => .list [.atom "attr", putStr k, putStr v, putOp op, ofBool ic]
    | .nth a b last ofType => .list [.atom "nth", ofInt a, ofInt b, ofBool last, ofBool ofType]
    | .only ofType => .list [.atom "only", ofBool ofType]
    | .empty => .list [.atom "empty"]
    | .root => .list [.atom "root"]
    | .never v => .list [.atom "never", putStr v]
    | .rel k args => .list (.atom "rel" :: putRel k :: putSels args)
    | .compound pe sels => .list (.atom "compound" :: putStr pe :: putSels sels)
    | .combined a c d => .list [.atom "combined", putComb c, putSel a, putSel d]
  def putSels : List Sel → List Sexp
    | [] => []
    | s :: ss => putSel s :: putSels ss
end

def answer (locs : List Loc) (s : Sel) : Sexp :=
  let bits := locs.map (fun l => if selMatch s l then '1' else '0')
  let sp := specificity s
  .list [.atom "r", .atom (String.ofList bits),
         .list [.atom "spec", ofNat sp.a, ofNat sp.b, ofNat sp.c],
         .str (String.ofList (pseudoElement s))]

def handle (req : Sexp) : Sexp :=
  let r : Option Sexp := match req with
    | .list [.atom "c05", .list (.atom "sels" :: ss), tree] => do
      let sels ← getSels ss
      let root ← getNode tree
      let locs := allLocs root
      some (.list (.atom "ok" :: sels.map (answer locs)))
    | .list (.atom "c05m" :: .list (.atom "sels" :: ss) :: trees) => do
      let sels ← getSels ss
      let roots ← getNodes trees
      some (.list (.atom "ok" :: roots.map (fun root =>
        let locs := allLocs root
        Sexp.list (.atom "t" :: sels.map (answer locs)))))
    | .list [.atom "c05parse", .str text] =>
      match Parse.parseGroupText text.toList with
      | .ok g =>
        -- `printable`: groupPrintable g; `rt`: the model parser reads the model printer's text back to g
        let printed := Print.printGroup g
        let rt := match Parse.parseGroupText printed with
          | .ok g' => Sexp.render (.list (putSels g')) == Sexp.render (.list (putSels g))
          | .error _ => false
        some (.list [.atom "ok", .list (.atom "sels" :: putSels g), putStr printed,
          ofBool (groupPrintable g), ofBool rt])
      | .error .malformed => some (.list [.atom "err"])
      | .error .unsupported => some (.list [.atom "unsupported"])
      | .error .fuel => some (.list [.atom "fuel"])
    | .list [.atom "c05print", .list (.atom "sels" :: ss)] => do
      let sels ← getSels ss
      some (.list [.atom "ok", putStr (Print.printGroup sels)])
    | _ => none
  r.getD (Sexp.err "c05: unknown or malformed request")

end Driver.C05

def main : IO Unit := WR.serve Driver.C05.handle
