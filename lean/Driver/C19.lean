import WR.Base.Sexp
import WR.C19.Model
import WR.C19.Scope
import WR.C19.Spec
import WR.Gen.C19Styles
open WR WR.Sexp WR.C19

namespace Driver.C19

def getNS : Sexp → Option NS
  | .list [.str n, .str s] => some ⟨n, s⟩
  | _ => none

def getIntNS : Sexp → Option (Int × NS)
  | .list [n, ns] => do some ((← n.asInt?), (← getNS ns))
  | _ => none

def getRange : Sexp → Option (Int × Int)
  | .list [a, b] => do some ((← a.asInt?), (← b.asInt?))
  | _ => none

/-- (d (neg1 neg2) pre suf "fallback" ("ext" "system" n) (padlen padsym) (sym…) ((w sym)…) auto ((lo hi)…)) -/
def getDesc : Sexp → Option Desc
  | .list [.atom "d", .list [n1, n2], pre, suf, .str fb, .list [.str ext, .str system, num],
           .list [pl, ps], .list syms, .list adds, auto, .list rngs] => do
    some { neg1 := ← getNS n1, neg2 := ← getNS n2, pre := ← getNS pre, suf := ← getNS suf, fallback := fb,
           sys := ⟨ext, system, ← num.asInt?⟩, padLen := ← pl.asInt?, padSym := ← getNS ps,
           symbols := ← syms.mapM getNS, additive := ← adds.mapM getIntNS,
           rangeAuto := ← auto.asBool?, ranges := ← rngs.mapM getRange }
  | _ => none

def getEntry : Sexp → Option (String × Desc)
  | .list [.str name, d] => do some (name, ← getDesc d)
  | _ => none

def getCSID : Sexp → Option CSID
  | .list [.atom "id", .str t, .str n, .list syms] => do some ⟨t, n, ← syms.mapM Sexp.asStr?⟩
  | _ => none

def putOut : Out → Sexp
  | .ok s => .list [.atom "ok", .str s]
  | .panic w => .list [.atom "panic", .str w]
  | .diverge => .list [.atom "diverge"]

def putSpec : SpecOut → Sexp
  | .text s => .list [.atom "ok", .str s]
  | .undefined => .list [.atom "undef"]

/-- one query: model answer and spec answer -/
def query (c : Table) : Sexp → Option Sexp
  | .list [.atom "v", v, .str name] => do
    let v ← v.asInt?
    some (.list [putOut (RenderValue c v name), putSpec (specValue c v name)])
  | .list [.atom "s", v, id] => do
    let v ← v.asInt?
    let id ← getCSID id
    some (.list [putOut (RenderValueStyle c v id), putSpec (specValueStyle c v id)])
  | .list [.atom "m", v, id] => do
    let v ← v.asInt?
    let id ← getCSID id
    some (.list [putOut (RenderMarker c id v), putSpec (specMarker c id v)])
  | _ => none

def devs : List Dev := [{ extUnknownPlain := true }]

/-- the specification with each known deviation switched on (to name an observed deviation) -/
def variants (c : Table) : Sexp → Option Sexp
  | .list [.atom "v", v, .str name] => do
    let v ← v.asInt?
    some (.list (devs.map fun d => putSpec (specValueD d c v name)))
  | .list [.atom "s", v, id] => do
    let v ← v.asInt?
    let id ← getCSID id
    some (.list (devs.map fun d => putSpec (specValueStyleD d c v id)))
  | .list [.atom "m", v, id] => do
    let v ← v.asInt?
    let id ← getCSID id
    some (.list (devs.map fun d => putSpec (specMarkerD d c id v)))
  | _ => none

def getPairs (xs : List Sexp) : Option (List (String × Int)) :=
  xs.mapM fun
    | .list [.str n, v] => do some (n, ← v.asInt?)
    | _ => none

/-- (ops li (reset…) (set…) auto|(incr…)) -/
def getOps : Sexp → Option Ops
  | .list [.atom "ops", li, .list rs, .list ss, .atom "auto"] => do
    some { listItem := ← li.asBool?, reset := ← getPairs rs, set := ← getPairs ss, incr := none }
  | .list [.atom "ops", li, .list rs, .list ss, .list is] => do
    some { listItem := ← li.asBool?, reset := ← getPairs rs, set := ← getPairs ss, incr := some (← getPairs is) }
  | _ => none

def getPseudo : Sexp → Option (Option Ops)
  | .list [] => some none
  | x => do some (some (← getOps x))

/-- (e none? ops before after (children…)) -/
def getElem : Nat → Sexp → Option Elem
  | fuel + 1, .list [.atom "e", dn, ops, b, a, .list ch] => do
    some (.node (← dn.asBool?) (← getOps ops) (← getPseudo b) (← getPseudo a) (← ch.mapM (getElem fuel)))
  | _, _ => none

def putKind : ObsKind → Sexp
  | .marker => .atom "marker"
  | .before => .atom "before"
  | .after => .atom "after"

def putObs (names : List String) (o : Obs) : Sexp :=
  .list (putKind o.kind :: names.map fun n => .list ((o.counters n).map ofInt))

def putObsList (names : List String) : Option (List Obs) → Sexp
  | some os => .list (.atom "ok" :: os.map (putObs names))
  | none => .list [.atom "panic"]

def handle (req : Sexp) : Sexp :=
  let r : Option Sexp := match req with
    | .list [.atom "render", .list [.atom "ua", ua], .list (.atom "styles" :: es), .list (.atom "qs" :: qs)] => do
      let author ← es.mapM getEntry
      let c : Table := if (← ua.asBool?) then author ++ WR.Gen.C19Styles.table else author
      let outs ← qs.mapM (query c)
      some (.list (.atom "ok" :: outs))
    | .list [.atom "variants", .list [.atom "ua", ua], .list (.atom "styles" :: es), .list (.atom "qs" :: qs)] => do
      let author ← es.mapM getEntry
      let c : Table := if (← ua.asBool?) then author ++ WR.Gen.C19Styles.table else author
      let outs ← qs.mapM (variants c)
      some (.list (.atom "ok" :: outs))
    | .list [.atom "uacheck", .list (.atom "styles" :: es)] => do
      let sent ← es.mapM getEntry
      let gen := WR.Gen.C19Styles.table
      if sent.length ≠ gen.length then some (.list [.atom "ok", .atom "0", .str "length"])
      else match (sent.zip gen).find? (fun p => decide (p.1 ≠ p.2)) with
        | some p => some (.list [.atom "ok", .atom "0", .str p.1.1])
        | none => some (.list [.atom "ok", .atom "1"])
    | .list [.atom "scope", .list (.atom "names" :: ns), e] => do
      let names ← ns.mapM Sexp.asStr?
      let e ← getElem 4096 e
      some (.list [.atom "ok", putObsList names (observe e), putObsList names (specObserve e), putObsList names (some (specObserveOrd true e))])
    | _ => none
  r.getD (Sexp.err "c19: unknown or malformed request")

end Driver.C19

def main : IO Unit := WR.serve Driver.C19.handle
