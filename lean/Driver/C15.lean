import WR.Base.Sexp
import WR.C15.Model
open WR WR.Sexp WR.C15

/-! Line-protocol driver for C15.

  (resolve-links (pages ((name payload) ...) ...) (links ((typ target rect) ...) ...))
      → (ok (links ((typ target rect) ...) ...) (anchors ((name payload) ...) ...) (names name ...))
      resolveLinks (current code: names sorted) under the iteration orders given in the request
  (resolve-links-before-fix …)   the function before fix 37ac465 (anchors of a page in map order)
  (oof-stack w ...)          → placed boxes (x w) of oofPass stackLeft 0 in the given order
  (grid-span (fr 1 0 ...) span ((child coord size) ...)) → tracksChildren or (panic)
  (lang-quotes lang ((key value) ...)) → GetLangQuotes (current code: exact key, else longest prefix, else the "" entry)
  (lang-quotes-before-fix lang ((key value) ...)) → first prefix in the given order (no exact lookup; default "")
-/
namespace Driver.C15

def ok (xs : List Sexp) : Sexp := .list (.atom "ok" :: xs)

def getEntry : Sexp → Option (String × String)
  | .list [.str n, .str p] => some (n, p)
  | _ => none

def getLink : Sexp → Option (Link String)
  | .list [.str t, .str g, .str r] => some { typ := t, target := g, rect := r }
  | _ => none

def putEntry (e : String × String) : Sexp := .list [.str e.1, .str e.2]
def putLink (l : Link String) : Sexp := .list [.str l.typ, .str l.target, .str l.rect]

def getPages (x : Sexp) : Option (List (List (String × String))) := do
  match x with
  | .list (.atom "pages" :: ps) => ps.mapM fun p => do (← p.asList?).mapM getEntry
  | _ => none

def getLinks (x : Sexp) : Option (List (List (Link String))) := do
  match x with
  | .list (.atom "links" :: ps) => ps.mapM fun p => do (← p.asList?).mapM getLink
  | _ => none

def resolve (sorted : Bool) (pages links : Sexp) : Option Sexp := do
  let ps ← getPages pages
  let ls ← getLinks links
  let r := if sorted then resolveLinks ps ls else resolveLinksBeforeFix ps ls
  let names := if sorted then (resolveAnchorsSorted [] ps).2 else (resolveAnchors [] ps).2
  some (ok [.list (.atom "links" :: r.1.map fun l => .list (l.map putLink)),
            .list (.atom "anchors" :: r.2.map fun l => .list (l.map putEntry)),
            .list (.atom "names" :: names.reverse.map .str)])

def getItem : Sexp → Option GridItem
  | .list [c, k, s] => do some { child := ← c.asNat?, coord := ← k.asNat?, size := ← s.asNat? }
  | _ => none

def handle (req : Sexp) : Sexp :=
  match req with
  | .list [.atom "resolve-links", pages, links] => (resolve true pages links).getD (Sexp.err "resolve-links: malformed")
  | .list [.atom "resolve-links-before-fix", pages, links] => (resolve false pages links).getD (Sexp.err "resolve-links-before-fix: malformed")
  | .list (.atom "oof-stack" :: ws) =>
    match ws.mapM Sexp.asNat? with
    | some ws => ok ((oofPass stackLeft 0 ws).2.1.map fun b => .list [ofNat b.1, ofNat b.2])
    | none => Sexp.err "oof-stack: malformed"
  | .list [.atom "grid-span", .list (.atom "fr" :: fr), span, .list items] =>
    match fr.mapM Sexp.asBool?, span.asNat?, items.mapM getItem with
    | some fr, some span, some items =>
      match gridSpanPass fr span items with
      | some tc => ok (tc.map fun t => .list (t.map ofNat))
      | none => .list [.atom "panic"]
    | _, _, _ => Sexp.err "grid-span: malformed"
  | .list [.atom "lang-quotes", .str lang, .list entries] =>
    match entries.mapM getEntry with
    | some es => ok [.str (langQuotes (List.lookup lang es) ((List.lookup "" es).getD "") lang es)]
    | none => Sexp.err "lang-quotes: malformed"
  | .list [.atom "lang-quotes-before-fix", .str lang, .list entries] =>
    match entries.mapM getEntry with
    | some es => ok [.str (langQuotesBeforeFix none "" lang es)]
    | none => Sexp.err "lang-quotes-before-fix: malformed"
  | _ => Sexp.err "unknown request"

end Driver.C15

def main : IO Unit := WR.serve Driver.C15.handle
