import WR.Base.Sexp
import WR.C16.Spec
open WR WR.Sexp WR.C16

namespace Driver.C16

/-- (b id positioned z floated ctx blockLevel inlineBlock hasLines (children…)), z = auto | integer.
    The tree arrives as an s-expression of bounded depth; `fuel` bounds the recursion of the decoder only. -/
def getBox : Nat → Sexp → Option Box
  | 0, _ => none
  | fuel + 1, .list [.atom "b", id, p, z, f, c, bl, ib, hl, .list ch] => do
    let z' ← match z with
      | .atom "auto" => some none
      | z => (z.asInt?).map some
    let ch' ← ch.mapM (getBox fuel)
    some (.mk (← id.asNat?) (← p.asBool?) z' (← f.asBool?) (← c.asBool?) (← bl.asBool?) (← ib.asBool?) (← hl.asBool?) ch')
  | _, _ => none

def layerName : Layer → String
  | .background => "bg" | .border => "bd" | .content => "tx" | .outline => "ol"

def putEvs (es : List PEv) : Sexp :=
  .list (es.map fun (i, l) => .list [ofNat i, .atom (layerName l)])

def handle (req : Sexp) : Sexp :=
  let r : Option Sexp := match req with
    | .list [.atom "order", t] => do
      let b ← getBox 64 t
      some (.list [.atom "ok", putEvs (paintOrder b), putEvs (specOrder b)])
    | .list (.atom "sortz" :: xs) => do
      let xs ← xs.mapM fun
        | .list [z, i] => do some ((← z.asInt?), [((← i.asNat?), Layer.background)])
        | _ => none
      some (.list (.atom "ok" :: (sortZ xs).map fun (z, es) => .list [ofInt z, ofNat ((es.head?.map (·.1)).getD 0)]))
    | _ => none
  r.getD (Sexp.err "c16: unknown or malformed request")

end Driver.C16

def main : IO Unit := WR.serve Driver.C16.handle
