import WR.Base.Sexp
import WR.C16.Spec
import WR.C16.Enclosure
open WR WR.Sexp WR.C16

namespace Driver.C16

/-- (b id positioned z floated opacity transform overflow blockLevel inlineBlock hasLines text tableCell table (children…)),
    z = auto | integer.  The tree arrives as an s-expression of bounded depth; `fuel` bounds the recursion
    of the decoder only. -/
def getBox : Nat → Sexp → Option Box
  | 0, _ => none
  | fuel + 1, .list [.atom "b", id, p, z, f, op, tr, ov, bl, ib, hl, tx, tc, tb, .list ch] => do
    let z' ← match z with
      | .atom "auto" => some none
      | z => (z.asInt?).map some
    let ch' ← ch.mapM (getBox fuel)
    let p' ← p.asBool?
    let f' ← f.asBool?
    let op' ← op.asBool?
    let tr' ← tr.asBool?
    let ov' ← ov.asBool?
    let bl' ← bl.asBool?
    let ib' ← ib.asBool?
    let hl' ← hl.asBool?
    let tx' ← tx.asBool?
    let tc' ← tc.asBool?
    let tb' ← tb.asBool?
    some (.mk (← id.asNat?) ⟨p', z', f', op', tr', ov', bl', ib', hl', tx', tc', tb'⟩ ch')
  | _, _ => none

def layerName : Layer → String
  | .background => "bg" | .border => "bd" | .content => "tx" | .outline => "ol"
  | .groupOpen => "go" | .groupClose => "gc" | .xformOpen => "to" | .xformClose => "tc"
  | .clipOpen => "co" | .clipClose => "cc"

def layerOf : String → Option Layer
  | "bg" => some .background | "bd" => some .border | "tx" => some .content | "ol" => some .outline
  | "go" => some .groupOpen | "gc" => some .groupClose | "to" => some .xformOpen | "tc" => some .xformClose
  | "co" => some .clipOpen | "cc" => some .clipClose
  | _ => none

def getEvs : Sexp → Option (List PEv)
  | .list es => es.mapM fun
    | .list [i, .atom l] => do some ((← i.asNat?), (← layerOf l))
    | _ => none
  | _ => none

def putEvs (es : List PEv) : Sexp :=
  .list (es.map fun (i, l) => .list [ofNat i, .atom (layerName l)])

def handle (req : Sexp) : Sexp :=
  let r : Option Sexp := match req with
    | .list [.atom "order", t] => do
      let b ← getBox 64 t
      some (.list [.atom "ok", putEvs (paintOrder b), putEvs (specOrder b)])
    -- a whole page: ids of the @page background and of the canvas background (none = absent), root element
    | .list [.atom "page", pb, cb, t] => do
      let b ← getBox 64 t
      let pb' ← match pb with | .atom "none" => some none | x => x.asNat?.map some
      let cb' ← match cb with | .atom "none" => some none | x => x.asNat?.map some
      some (.list [.atom "ok", putEvs (pagePaint pb' cb' b), putEvs (specPage pb' cb' b)])
    -- the enclosure / per-box layer judge on an event list (the implementation's)
    | .list [.atom "enclosure", t, evs] => do
      let b ← getBox 64 t
      let evs ← getEvs evs
      some (.list [.atom "ok", ofBool (enclosureJudge b evs), ofBool (enclosureJudgeLenient b evs)])
    | .list (.atom "sortz" :: xs) => do
      let xs ← xs.mapM fun
        | .list [z, i] => do some ((← z.asInt?), [((← i.asNat?), Layer.background)])
        | _ => none
      some (.list (.atom "ok" :: (sortZ xs).map fun (z, es) => .list [ofInt z, ofNat ((es.head?.map (·.1)).getD 0)]))
    | _ => none
  r.getD (Sexp.err "c16: unknown or malformed request")

end Driver.C16

def main : IO Unit := WR.serve Driver.C16.handle
