import WR.Base.Sexp
import WR.C20.Serialize
import WR.C20.Rules
import WR.Gen.C20Pairs
open WR WR.Sexp WR.C06 WR.C20

namespace Driver.C20

def ok (xs : List Sexp) : Sexp := .list (.atom "ok" :: xs)

/-- (ser SKIP "css"): tokenize with the C06 model, then serialize with the model of serialize.go -/
def handle (req : Sexp) : Sexp :=
  let r : Option Sexp := match req with
    | .list [.atom "ser", skip, .str css] => do
      let skip ← skip.asBool?
      let ts := tokenize Quirks.spec css.toList
      let ts := if skip then dropComments ts else ts
      match serialize WR.Gen.C20Pairs.badPairs ts with
      | some s => some (ok [.str (String.ofList s)])
      | none => some (.list [.atom "panic"])
    | .list [.atom "serc", .atom mode, skip, .str css] => do
      let skip ← skip.asBool?
      let ts := tokenize Quirks.spec css.toList
      let ts := if skip then dropComments ts else ts
      let m ← match mode with
        | "stylesheet" => some Mode.stylesheet
        | "rules" => some Mode.rules
        | "decls" => some Mode.decls
        | "blocks" => some Mode.blocks
        | _ => none
      let cs := (parseList m (if m == .blocks then false else skip) true ts).filter isRuleLike
      some (ok (cs.map fun c => match serCompound WR.Gen.C20Pairs.badPairs c with
        | some s => .str (String.ofList s)
        | none => .atom "panic"))
    | _ => none
  r.getD (Sexp.err "c20: unknown or malformed request")

end Driver.C20

def main : IO Unit := WR.serve Driver.C20.handle
