import WR.Base.Sexp
import WR.C06.Parser
import WR.C06.Nth
open WR WR.Sexp WR.C06

namespace Driver.C06

def S (s : Str) : Sexp := .str (String.ofList s)
def A (s : String) : Sexp := .atom s

/-- positions travel as `line col` (byte based, 1-based) -/
def P (pre : Str) (off : Nat) : List Sexp :=
  let lc := lineCol pre off
  [ofNat lc.1, ofNat lc.2]

mutual
def putTok (pre : Str) : Tok → Sexp
  | .ws p v => .list ([A "ws"] ++ P pre p ++ [S v])
  | .comment p v => .list ([A "comment"] ++ P pre p ++ [S v])
  | .ident p v => .list ([A "ident"] ++ P pre p ++ [S v])
  | .atkw p v => .list ([A "at"] ++ P pre p ++ [S v])
  | .hash p v i => .list ([A "hash"] ++ P pre p ++ [S v, ofBool i])
  | .str p v e => .list ([A "str"] ++ P pre p ++ [S v, ofBool e])
  | .url p v e => .list ([A "url"] ++ P pre p ++ [S v, ofBool e])
  | .lit p v => .list ([A "lit"] ++ P pre p ++ [S v])
  | .urange p s e => .list ([A "ur"] ++ P pre p ++ [ofNat s, ofNat e])
  | .num p r i => .list ([A "num"] ++ P pre p ++ [S r, ofBool i])
  | .pct p r i => .list ([A "pct"] ++ P pre p ++ [S r, ofBool i])
  | .dim p r i u => .list ([A "dim"] ++ P pre p ++ [S r, ofBool i, S u])
  | .block p k a =>
    .list ([A (match k with | .paren => "paren" | .square => "square" | .curly => "curly")] ++ P pre p
      ++ [.list (putToks pre a)])
  | .func p n a => .list ([A "fn"] ++ P pre p ++ [S n, .list (putToks pre a)])
  | .error p k => .list ([A "err"] ++ P pre p ++ [S [k]])
def putToks (pre : Str) : List Tok → List Sexp
  | [] => []
  | t :: ts => putTok pre t :: putToks pre ts
end

def putCompound (pre : Str) : Compound → Sexp
  | .qrule p pr c => .list ([A "qrule"] ++ P pre p ++ [.list (putToks pre pr), .list (putToks pre c)])
  | .atrule p kw pr c =>
    .list ([A "atrule"] ++ P pre p ++ [S kw, .list (putToks pre pr),
      match c with | some c => .list (putToks pre c) | none => A "nil"])
  | .decl p n v i => .list ([A "decl"] ++ P pre p ++ [S n, .list (putToks pre v), ofBool i])
  | .error p k => .list ([A "err"] ++ P pre p ++ [S [k]])
  | .ws p v => .list ([A "ws"] ++ P pre p ++ [S v])
  | .comment p v => .list ([A "comment"] ++ P pre p ++ [S v])
  | .tok t => putTok pre t

def quirks (n : Nat) : Quirks :=
  { commentEof := n % 2 = 1, badUrlPair := (n / 2) % 2 = 1, urlBackslashNl := (n / 4) % 2 = 1 }

def ok (xs : List Sexp) : Sexp := .list (A "ok" :: xs)

def toks (q : Nat) (skip : Bool) (css : String) : Str × List Tok :=
  let pre := preprocess css.toList
  let ts := tokenizePre (quirks q) pre
  (pre, if skip then dropComments ts else ts)

def handle (req : Sexp) : Sexp :=
  let r : Option Sexp := match req with
    | .list [.atom "tok", q, skip, .str css] => do
      let (pre, ts) := toks (← q.asNat?) (← skip.asBool?) css
      some (ok (putToks pre ts))
    | .list [.atom "parse", .atom mode, q, skipC, skipW, .str css] => do
      let skipC ← skipC.asBool?
      let skipW ← skipW.asBool?
      let (pre, ts) := toks (← q.asNat?) skipC css
      match mode with
      | "stylesheet" => some (ok ((parseList .stylesheet skipC skipW ts).map (putCompound pre)))
      | "rules" => some (ok ((parseList .rules skipC skipW ts).map (putCompound pre)))
      | "decls" => some (ok ((parseList .decls skipC skipW ts).map (putCompound pre)))
      | "blocks" => some (ok ((parseList .blocks false skipW ts).map (putCompound pre)))
      | "onedecl" => some (ok [putCompound pre (parseOneDeclaration ts)])
      | "onevalue" => some (ok [putCompound pre (parseOneComponentValue ts)])
      | _ => none
    | .list [.atom "nth", .str css] =>
      let (_, ts) := toks 0 true css
      match parseNth ts with
      | some (a, b) => some (ok [ofInt a, ofInt b])
      | none => some (ok [A "nil"])
    | .list [.atom "preprocess", .str css] => some (ok [S (preprocess css.toList)])
    | _ => none
  r.getD (Sexp.err "c06: unknown or malformed request")

end Driver.C06

def main : IO Unit := WR.serve Driver.C06.handle
