import WR.Base.Sexp
import WR.C07.Model
open WR WR.Sexp WR.C07

namespace Driver.C07

def ok (xs : List Sexp) : Sexp := .list (.atom "ok" :: xs)
def err (tag : String) : Sexp := .list [.atom "err", .atom tag]

def getBytes : Sexp → Option (List Nat)
  | .list xs => xs.mapM Sexp.asNat?
  | _ => none

def putBytes (bs : List Nat) : Sexp := .list (bs.map ofNat)

def getTok : Sexp → Option Tok
  | .atom "ws" => some .ws
  | .atom "plus" => some .plus
  | .atom "minus" => some .minus
  | .atom "other" => some .other
  | .list [.atom "num", i, v, s] => do some (.number (← i.asBool?) (← v.asInt?) (← s.asBool?))
  | .list [.atom "dim", i, v, .str u] => do some (.dimension (← i.asBool?) (← v.asInt?) u)
  | .list [.atom "ident", .str s] => some (.ident s)
  | _ => none

def handle (req : Sexp) : Sexp :=
  let r : Option Sexp := match req with
    | .list [.atom "intattr", bs, m] => do
      let bs ← getBytes bs
      let m ← m.asInt?
      match readIntAttr bs m with
      | .invalid => some (.list [.atom "invalid", ofInt (integerAttribute bs m)])
      | .value v => some (ok [ofInt v, ofInt (integerAttribute bs m)])
    | .list [.atom "unescape", bs] => do
      match unescape (← getBytes bs) with
      | .ok out => some (ok [putBytes out])
      | .error .nonAscii => some (err "non-ascii")
      | .error .truncated => some (err "truncated")
      | .error .badHex => some (err "bad-hex")
    | .list [.atom "dataurl", bs] => do
      match parseDataURL (← getBytes bs) with
      | none => some (err "no-data")
      | some d => some (ok [putBytes d.mime, ofBool d.base64,
          (match d.charset with | some c => putBytes c | none => .atom "none"), putBytes d.payload])
    | .list [.atom "nth", .list ts] => do
      match parseNth (← ts.mapM getTok) with
      | some (a, b) => some (ok [ofInt a, ofInt b])
      | none => some (err "nil")
    | .list [.atom "par", .str s] =>
      let put : Outcome PAR → Sexp
        | .panic => .list [.atom "panic"]
        | .ok r => ok [.str r.x, .str r.y, ofBool r.none_, ofBool r.slice]
      some (.list [put (parsePAR s.toList), put (parsePARBefore s.toList)])
    | _ => none
  r.getD (Sexp.err "c07: unknown or malformed request")

end Driver.C07

def main : IO Unit := WR.serve Driver.C07.handle
