import WR.Base.Sexp
import WR.C04.Model
import WR.Gen.C04Tables
import WR.C04.RefTable
import WR.C04.Lengths
import WR.C04.Spec
open WR WR.Sexp WR.C04

namespace Driver.C04

def T : Table := WR.C04.refTable

/-- values nest only through `comp` / `union`; fuel bounds the nesting depth accepted on the wire -/
def getValF : Nat → Sexp → Option Val
  | 0, _ => none
  | f + 1, x =>
    match x with
    | .list [.atom "init", p] => do some (.init (← p.asNat?))
    | .list [.atom "opq", t] => do some (.opq (← t.asNat?))
    | .list [.atom "comp", p, n, v] => do some (.comp (← p.asNat?) (← n.asNat?) (← getValF f v))
    | .list [.atom "dim", x, u] => do some (.dim (← x.asRat?) (← u.asNat?))
    | .list [.atom "kw", .str s] => some (.kw s)
    | .list [.atom "int", n] => do some (.int (← n.asInt?))
    | .list [.atom "union", a, b] => do some (.union (← getValF f a) (← getValF f b))
    | _ => none

def getVal (x : Sexp) : Option Val := getValF 32 x

def putVal : Val → Sexp
  | .init p => .list [.atom "init", ofNat p]
  | .opq t => .list [.atom "opq", ofNat t]
  | .comp p n v => .list [.atom "comp", ofNat p, ofNat n, putVal v]
  | .dim x u => .list [.atom "dim", ofRat x, ofNat u]
  | .kw s => .list [.atom "kw", .str s]
  | .int n => .list [.atom "int", ofInt n]
  | .union a b => .list [.atom "union", putVal a, putVal b]

/-- generic value AST: (l x u) | (k "s") | (n "tag" child …); fuel bounds the nesting depth -/
def getLVF : Nat → Sexp → Option LV
  | 0, _ => none
  | f + 1, x =>
    match x with
    | .list [.atom "l", x, u] => do some (.len (← x.asRat?) (← u.asNat?))
    | .list [.atom "k", .str s] => some (.kw s)
    | .list (.atom "n" :: .str t :: cs) => do
      let cs ← cs.mapM (getLVF f)
      some (.node t (cs.foldr LVs.cons LVs.nil))
    | _ => none

def putLVF : Nat → LV → Sexp
  | 0, _ => .atom "deep"
  | f + 1, v =>
    match v with
    | .len x u => .list [.atom "l", ofRat x, ofNat u]
    | .kw s => .list [.atom "k", .str s]
    | .node t cs => .list (.atom "n" :: .str t :: go f cs)
where go (f : Nat) : LVs → List Sexp
  | .nil => []
  | .cons h t => putLVF f h :: go f t

def getDecl : Sexp → Option (Nat × Decl)
  | .list [p, .atom "inh"] => do some ((← p.asNat?), .inherit)
  | .list [p, .atom "ini"] => do some ((← p.asNat?), .initial)
  | .list [p, .atom "val", v] => do some ((← p.asNat?), .value (← getVal v))
  | _ => none

/-- (n id parent anon exR chR (decl ...)) ; parent = -1 for the root -/
def getNode : Sexp → Option (Node × Int)
  | .list [.atom "n", id, par, anon, ex, ch, .list ds] => do
    let ds ← ds.mapM getDecl
    some ({ id := ← id.asNat?, anon := ← anon.asBool?, casc := ds, exR := ← ex.asRat?, chR := ← ch.asRat? },
          ← par.asInt?)
  | _ => none

/-- chains of all nodes (parents come first in the list) -/
def buildChains (ns : List (Node × Int)) : Option (Array (Nat × List Node)) :=
  ns.foldlM (init := #[]) fun acc (n, par) =>
    if par < 0 then some (acc.push (n.id, [n]))
    else match acc.find? (fun e => e.1 == par.toNat) with
      | some e => some (acc.push (n.id, n :: e.2))
      | none => none

def chainOf (cs : Array (Nat × List Node)) (id : Nat) : Option (List Node) :=
  (cs.find? (fun e => e.1 == id)).map (·.2)

def ok (xs : List Sexp) : Sexp := .list (.atom "ok" :: xs)

def handle (req : Sexp) : Sexp :=
  let r : Option Sexp := match req with
    -- all computed values of all nodes, properties 1 .. nb-1, node by node
    | .list [.atom "all", .list ns] => do
      let ns ← ns.mapM getNode
      let cs ← buildChains ns
      let nb := WR.Gen.C04Tables.nbProperties
      some (ok (cs.toList.map fun (id, c) =>
        .list (ofNat id :: (List.range (nb - 1)).map fun i => putVal (computed T c (i + 1)))))
    -- a sequence of Get calls on fresh styles: the values returned by the cached `get` and by `computed`
    | .list [.atom "run", .list ns, .list reqs] => do
      let ns ← ns.mapM getNode
      let cs ← buildChains ns
      let reqs ← reqs.mapM fun
        | .list [id, p] => do some ((← chainOf cs (← id.asNat?)), (← p.asNat?))
        | _ => none
      let out := run T (State.fresh T) reqs
      some (ok [.list (out.2.map putVal), .list (reqs.map fun (c, p) => putVal (computed T c p))])
    -- the generic length traversal: ((fs rootFS exR chR value) …) ↦ computed values
    | .list [.atom "lens", .list items] => do
      let outs ← items.mapM fun
        | .list [fs, rfs, ex, ch, v] => do
          let c : FontCtx := { fs := ← fs.asRat?, rootFS := ← rfs.asRat?, exR := ← ex.asRat?, chR := ← ch.asRat? }
          some (putLVF 64 (computeLengths c (← getLVF 64 v)))
        | _ => none
      some (ok outs)
    -- §9.7: (display blockify outer inner listitem)
    | .list [.atom "display", b, .str o, .str i, .str l] => do
      let d := specDisplay (← b.asBool?) (o, i, l)
      some (ok [.str d.1, .str d.2.1, .str d.2.2])
    | .list [.atom "nb"] => some (ok [ofNat WR.Gen.C04Tables.nbProperties])
    | _ => none
  r.getD (Sexp.err "c04: unknown or malformed request")

end Driver.C04

def main : IO Unit := WR.serve Driver.C04.handle
