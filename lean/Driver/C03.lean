import WR.Base.Sexp
import WR.C03.Model
import WR.C03.Spec
open WR WR.Sexp WR.C03

/-! Line-protocol driver of property C03: an abstract document goes in, the model's winner
    (`Model.winner`), the spec's winner (`Spec.docWinner`) and the spec's occurrence list come out. -/
namespace Driver.C03

def getSel : Sexp → Option Sel
  | .list [.atom "s", a, b, c, ok, amp] => do
    some { spec := ((← a.asNat?), (← b.asNat?), (← c.asNat?)), ok := (← ok.asBool?), amp := (← amp.asBool?) }
  | _ => none

def getSels : Sexp → Option (List Sel)
  | .list (.atom "sels" :: ss) => ss.mapM getSel
  | _ => none

def getDecl : Sexp → Option Decl
  | .list [.atom "d", i, v] => do some { imp := (← i.asBool?), val := (← v.asNat?) }
  | _ => none

def getMedium : Sexp → Option Medium
  | .atom "all" => some .all
  | .atom "print" => some .print
  | .atom "screen" => some .screen
  | .atom "other" => some .other
  | _ => none

def getMedia : Sexp → Option (List Medium)
  | .list (.atom "m" :: ms) => ms.mapM getMedium
  | _ => none

/- parsing only (wire format → Doc); the recursion follows the s-expression, `fuel` bounds the
   nesting depth (a request nested deeper than `maxDepth` is answered `bad-op`, never mis-read) -/
def getBody : Nat → Sexp → Option Body
  | 0, _ => none
  | fuel + 1, .list (.atom "nested" :: sels :: body) => do
    some (.nested (← getSels sels) (← body.mapM (getBody fuel)))
  | _ + 1, x => do some (.decl (← getDecl x))

def getItem : Nat → Sexp → Option Item
  | 0, _ => none
  | fuel + 1, .list (.atom "rule" :: sels :: body) => do
    some (.rule (← getSels sels) (← body.mapM (getBody fuel)))
  | fuel + 1, .list (.atom "media" :: m :: items) => do some (.media (← getMedia m) (← items.mapM (getItem fuel)))
  | fuel + 1, .list (.atom "import" :: m :: items) => do some (.imp (← getMedia m) (← items.mapM (getItem fuel)))
  | _ + 1, .list [.atom "page"] => some .page
  | _ + 1, .list [.atom "junk"] => some .junk
  | _ + 1, _ => none

def maxDepth : Nat := 64

def getAuthor : Sexp → Option AuthorSheet
  | .list (.atom "sheet" :: m :: items) => do some { media := (← getMedia m), items := (← items.mapM (getItem maxDepth)) }
  | _ => none

def getUser : Sexp → Option (List Item)
  | .list (.atom "sheet" :: items) => items.mapM (getItem maxDepth)
  | _ => none

def getDoc : Sexp → Option Doc
  | .list [.atom "c03", .list [.atom "dev", dev], .list [.atom "hints", h],
      .list (.atom "style" :: sa), .list (.atom "hint" :: ha), .list (.atom "ua" :: ua),
      .list (.atom "ph" :: ph), .list (.atom "author" :: au), .list (.atom "user" :: us)] => do
    some { dev := (← getMedium dev), hints := (← h.asBool?), styleAttr := (← sa.mapM getDecl),
           hintAttr := (← ha.mapM getDecl), ua := (← ua.mapM (getItem maxDepth)), ph := (← ph.mapM (getItem maxDepth)),
           author := (← au.mapM getAuthor), user := (← us.mapM getUser) }
  | _ => none

def putOpt : Option Nat → Sexp
  | some v => ofNat v
  | none => .atom "none"

def putOrigin : Origin → Sexp
  | .ua => .atom "ua" | .user => .atom "user" | .author => .atom "author"

def putKind : Spec.Kind → Sexp
  | .rule => .atom "rule" | .styleAttr => .atom "style" | .hint => .atom "hint"

def putOcc (o : Spec.Occ) : Sexp :=
  .list [putOrigin o.origin, ofBool o.imp, putKind o.kind, ofNat o.spec.1, ofNat o.spec.2.1, ofNat o.spec.2.2, ofNat o.val]

def putIns (w : Model.WValue) : Sexp :=
  .list [ofNat w.weight.precedence, ofBool w.weight.styleAttr, ofNat w.weight.specificity.1, ofNat w.weight.specificity.2.1,
    ofNat w.weight.specificity.2.2, ofNat w.val]

def handle (req : Sexp) : Sexp :=
  match getDoc req with
  | some doc =>
    .list [.atom "ok",
      .list [.atom "model", putOpt (Model.winner doc)],
      .list [.atom "spec", putOpt (Spec.docWinner doc)],
      .list (.atom "occs" :: (Spec.occs doc).map putOcc),
      .list (.atom "ins" :: (Model.insertions doc).map putIns)]
  | none => Sexp.err "c03: unknown or malformed request"

end Driver.C03

def main : IO Unit := WR.serve Driver.C03.handle
