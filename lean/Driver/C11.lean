import WR.Base.Sexp
import WR.C11.Spec
open WR WR.Sexp WR.C11

namespace Driver.C11

def getTok : Sexp → Option Tok
  | .list [.atom "w", n] => do some (.word (← n.asNat?))
  | .atom "sp" => some .space
  | .atom "br" => some .br
  | .list [.atom "a", w, h] => do some (.atom (← w.asNat?) (← h.asNat?))
  | .list [.atom "o", e] => do some (.opn (← e.asNat?))
  | .list [.atom "c", e] => do some (.cls (← e.asNat?))
  | _ => none

def getAlign : Sexp → Option Align
  | .atom "left" => some .left
  | .atom "right" => some .right
  | .atom "center" => some .center
  | .atom "justify" => some .justify
  | _ => none

/-- (geo g s wrap avail indent align lh asc desc x0 y0) -/
def getGeo : Sexp → Option Geo
  | .list [.atom "geo", g, s, wrap, avail, indent, align, lh, asc, desc, x0, y0] => do
    some { f := { g := ← g.asNat?, s := ← s.asNat? }, wrap := ← wrap.asBool?, avail := ← avail.asInt?,
           indent := ← indent.asInt?, align := ← getAlign align, lh := ← lh.asRat?, asc := ← asc.asRat?,
           desc := ← desc.asRat?, x0 := ← x0.asRat?, y0 := ← y0.asRat? }
  | _ => none

def getToks : Sexp → Option (List Tok)
  | .list (.atom "toks" :: ts) => ts.mapM getTok
  | _ => none

def putLeaf (p : PLeaf) : Sexp :=
  .list [.atom (match p.kind with | .text => "t" | .atom => "a"), ofRat p.x, ofRat p.y, ofRat p.w, ofNat p.cnt]

def putLine (p : PLine) : Sexp :=
  .list [.atom "line", ofRat p.x, ofRat p.y, ofRat p.w, ofRat p.h, ofNat p.cnt, .list (p.leaves.map putLeaf)]

def ok (xs : List Sexp) : Sexp := .list (.atom "ok" :: xs)
def fail (s : String) : Sexp := .list [.atom "fail", .str s]

def handle (req : Sexp) : Sexp :=
  let r : Option Sexp := match req with
    | .list [.atom "layout", geo, toks] => do
      let G ← getGeo geo
      let ts ← getToks toks
      some (ok ((G.layout ts).map putLine))
    | .list [.atom "judge", geo, toks, .list (.atom "cnts" :: cs)] => do
      let G ← getGeo geo
      let ts ← getToks toks
      let cs ← cs.mapM Sexp.asNat?
      let items := chunk G.f ts
      match regroup cs items with
      | none => some (fail "the lines are not a partition of the paragraph into whole units (break inside a unit, spurious empty line, or content lost/duplicated)")
      | some ls =>
        -- by `greedy_unique`/`greedy_ok`:  GreedyOK ls  ↔  ls = greedy;  `violation` names the clause
        match violation G.f G.wrap G.availOf ls with
        | some why => some (fail why)
        | none => if ls == greedy G.f G.wrap G.availOf items then some (ok []) else some (fail "differs from greedy (checker/uniqueness mismatch)")
    | .list [.atom "items", geo, toks] => do
      let G ← getGeo geo
      let ts ← getToks toks
      some (ok ((chunk G.f ts).map fun a => .list [ofNat a.gap, ofBool a.forced, ofNat (a.w G.f), ofNat a.cnt]))
    | _ => none
  r.getD (Sexp.err "c11: unknown or malformed request")

end Driver.C11

def main : IO Unit := WR.serve Driver.C11.handle
