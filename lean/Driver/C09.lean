import WR.Base.Sexp
import WR.C09.Spec
import WR.C09.Shape2
open WR WR.Sexp WR.C09

namespace Driver.C09

def tyNames : List (Ty × String) := [
  (.block, "BlockBox"), (.blockReplaced, "BlockReplacedBox"), (.flex, "FlexBox"), (.footnoteArea, "FootnoteAreaBox"),
  (.grid, "GridBox"), (.inlineBlock, "InlineBlockBox"), (.inline, "InlineBox"), (.inlineFlex, "InlineFlexBox"),
  (.inlineGrid, "InlineGridBox"), (.inlineReplaced, "InlineReplacedBox"), (.inlineTable, "InlineTableBox"),
  (.line, "LineBox"), (.margin, "MarginBox"), (.page, "PageBox"), (.replaced, "ReplacedBox"), (.table, "TableBox"),
  (.tableCaption, "TableCaptionBox"), (.tableCell, "TableCellBox"), (.tableColumn, "TableColumnBox"),
  (.tableColumnGroup, "TableColumnGroupBox"), (.tableRow, "TableRowBox"), (.tableRowGroup, "TableRowGroupBox"),
  (.text, "TextBox")]

def tyName (t : Ty) : String :=
  match tyNames.find? (fun p => p.1 == t) with
  | some p => p.2
  | none => "?"

def tyOf (s : String) : Option Ty := (tyNames.find? (fun p => p.2 == s)).map (·.1)

def clsNames : List (Cls × String) := [
  (.atomicInlineLevel, "AtomicInlineLevelBox"), (.blockContainer, "BlockContainerBox"), (.blockLevel, "BlockLevelBox"),
  (.box, "Box"), (.flexContainer, "FlexContainerBox"), (.gridContainer, "GridContainerBox"), (.inlineLevel, "InlineLevelBox"),
  (.parent, "ParentBox"), (.replacedC, "ReplacedBox"), (.tableC, "TableBox"), (.blockC, "BlockBox")]

def optInt : Sexp → Option (Option Int)
  | .atom "n" => some none
  | x => x.asInt?.map some

def putOptInt : Option Int → Sexp
  | none => .atom "n"
  | some i => ofInt i

def bitsOf (s : String) : Option (List Bool) :=
  s.toList.mapM fun c => if c == '1' then some true else if c == '0' then some false else none

/-- decode a box; `fuel` bounds the nesting depth (the harness never sends trees deeper than a few dozen) -/
def getBox : Nat → Sexp → Option Box
  | 0, _ => none
  | fuel + 1, .list [.atom "b", .atom ty, .str text, el, ec, er, es, .atom bits, cap, disp, cs, rs, gx, .list kids, .list cols] => do
    let ty ← tyOf ty
    let bs ← bitsOf bits
    match bs with
    | [fl, ab, ru, wsc, tw, hd, ft, fi, gi] =>
      let a : Attrs := { text := text, el := ← el.asInt?, ec := ← optInt ec, er := ← optInt er, es := ← optInt es,
                         floated := fl, absPos := ab, running := ru, wsc := wsc, cap := ← cap.asNat?, disp := ← disp.asNat?,
                         tw := tw, hd := hd, ft := ft, fi := fi, gi := gi,
                         colspan := ← cs.asNat?, rowspan := ← rs.asNat?, gridX := ← gx.asNat? }
      some (.mk ty a (← kids.mapM (getBox fuel)) (← cols.mapM (getBox fuel)))
    | _ => none
  | _, _ => none

def depthFuel : Nat := 100000

def bit (b : Bool) : String := if b then "1" else "0"

mutual
  def putBox : Box → Sexp
    | .mk ty a kids cols =>
      .list [.atom "b", .atom (tyName ty), .str a.text, ofInt a.el, putOptInt a.ec, putOptInt a.er, putOptInt a.es,
             .atom (bit a.floated ++ bit a.absPos ++ bit a.running ++ bit a.wsc ++ bit a.tw ++ bit a.hd ++ bit a.ft ++ bit a.fi ++ bit a.gi),
             ofNat a.cap, ofNat a.disp, ofNat a.colspan, ofNat a.rowspan, ofNat a.gridX,
             .list (putBoxes kids), .list (putBoxes cols)]
  def putBoxes : List Box → List Sexp
    | [] => []
    | b :: bs => putBox b :: putBoxes bs
end

def ok (xs : List Sexp) : Sexp := .list (.atom "ok" :: xs)

def allTys : List Ty := tyNames.map (·.1)

/-- the lattice and the flags as the model has them, for comparison with reflection over the real types -/
def lattice : Sexp :=
  ok (allTys.map fun t =>
    .list [.atom (tyName t),
           .list (clsNames.filterMap fun (c, n) => if isCls c t then some (.atom n) else none),
           .atom (bit (properTableChild t) ++ bit (internalTableOrCaption t) ++ bit (tabularContainer t)),
           .list (allTys.filterMap fun p => if isInProperParents p t then some (.atom (tyName p)) else none)])

def handle (req : Sexp) : Sexp :=
  let r : Option Sexp := match req with
    | .list [.atom "lattice"] => some lattice
    | .list [.atom "passes", b] => do
      let b ← getBox depthFuel b
      match createAnonymousStages b with
      | .ok s => some (ok [putBox s.table, putBox s.flex, putBox s.grid, putBox s.iib, putBox s.bii])
      | .error e => some (.list [.atom "err", .str e])
    | .list [.atom "pass", .atom name, b] => do
      let b ← getBox depthFuel b
      let r : Option (Except String Box) := match name with
        | "table" => some (anonTable b)
        | "flex" => some (.ok (flexBoxes b))
        | "grid" => some (.ok (gridBoxes b))
        | "iib" => some (inlineInBlock b)
        | "bii" => some (blockInInline b)
        | _ => none
      match ← r with
      | .ok o => some (ok [putBox o])
      | .error e => some (.list [.atom "err", .str e])
    | .list [.atom "wf", b] => do
      let b ← getBox depthFuel b
      some (ok (ofBool (wfRoot b) :: (rootReasons b).eraseDups.map fun (e, r) => .list [ofInt e, .str r]))
    | .list [.atom "rawok", b] => do
      let b ← getBox depthFuel b
      -- hypothesis of the composition theorem, and the same without the "no running inline box" conjunct
      let noRun : Ty → Attrs → List Box → List Box → Bool := fun ty a kids cols =>
        pt_rawOK ty a (kids.map fun c => c.setA { c.a with running := false }) cols
      some (ok [ofBool (allW pt_rawOK b), ofBool (allW noRun b), ofBool (isBlockLevel b.ty && !b.a.running)])
    | .list [.atom "intattr", p, m] => do
      some (ok [ofNat (intAttr (← optInt p) (← m.asNat?))])
    | _ => none
  r.getD (Sexp.err "c09: unknown or malformed request")

end Driver.C09

def main : IO Unit := WR.serve Driver.C09.handle
