/-
  C10 — helper lemmas (collapse, horizontal algorithm).  Core Lean only.
-/
import WR.C10.Spec
namespace WR.C10

/-! ### collapseMargin -/

theorem foldl_collapseStep (ms : List Rat) : ∀ (a b : Rat), 0 ≤ a → b ≤ 0 →
    ms.foldl collapseStep (a, b) =
      (ms.foldl (fun acc m => if acc < m then m else acc) a, ms.foldl (fun acc m => if m < acc then m else acc) b) := by
  induction ms with
  | nil => intros; rfl
  | cons m ms ih =>
    intro a b ha hb
    simp only [List.foldl_cons, collapseStep]
    by_cases h1 : a < m
    · have h2 : ¬ m < b := by grind
      simp only [h1, h2, if_true, if_false]
      exact ih m b (by grind) hb
    · simp only [h1, if_false]
      by_cases h2 : m < b
      · simp only [h2, if_true]; exact ih a m ha (by grind)
      · simp only [h2, if_false]; exact ih a b ha hb

theorem collapseMargin_eq_spec (ms : List Rat) : collapseMargin ms = collapseSpec ms := by
  unfold collapseMargin collapseSpec maxPos minNeg
  rw [foldl_collapseStep ms 0 0 (by decide) (by decide)]

theorem foldl_max_ge (ms : List Rat) : ∀ a : Rat,
    a ≤ ms.foldl (fun acc m => if acc < m then m else acc) a ∧
    (∀ m ∈ ms, m ≤ ms.foldl (fun acc m => if acc < m then m else acc) a) ∧
    (ms.foldl (fun acc m => if acc < m then m else acc) a = a ∨ ms.foldl (fun acc m => if acc < m then m else acc) a ∈ ms) := by
  induction ms with
  | nil => intro a; simp
  | cons x xs ih =>
    intro a
    simp only [List.foldl_cons]
    obtain ⟨h1, h2, h3⟩ := ih (if a < x then x else a)
    refine ⟨by grind, ?_, ?_⟩
    · intro m hm
      rcases List.mem_cons.mp hm with rfl | hm
      · grind
      · exact h2 m hm
    · rcases h3 with h3 | h3
      · by_cases hax : a < x
        · right; rw [h3]; simp [hax]
        · left; rw [h3]; simp [hax]
      · right; exact List.mem_cons_of_mem _ h3

theorem foldl_min_le (ms : List Rat) : ∀ a : Rat,
    ms.foldl (fun acc m => if m < acc then m else acc) a ≤ a ∧
    (∀ m ∈ ms, ms.foldl (fun acc m => if m < acc then m else acc) a ≤ m) ∧
    (ms.foldl (fun acc m => if m < acc then m else acc) a = a ∨ ms.foldl (fun acc m => if m < acc then m else acc) a ∈ ms) := by
  induction ms with
  | nil => intro a; simp
  | cons x xs ih =>
    intro a
    simp only [List.foldl_cons]
    obtain ⟨h1, h2, h3⟩ := ih (if x < a then x else a)
    refine ⟨by grind, ?_, ?_⟩
    · intro m hm
      rcases List.mem_cons.mp hm with rfl | hm
      · grind
      · exact h2 m hm
    · rcases h3 with h3 | h3
      · by_cases hax : x < a
        · right; rw [h3]; simp [hax]
        · left; rw [h3]; simp [hax]
      · right; exact List.mem_cons_of_mem _ h3

theorem maxPos_perm {l₁ l₂ : List Rat} (h : l₁.Perm l₂) : maxPos l₁ = maxPos l₂ := by
  unfold maxPos
  apply List.Perm.foldl_eq' h
  intro x _ y _ z
  grind

theorem minNeg_perm {l₁ l₂ : List Rat} (h : l₁.Perm l₂) : minNeg l₁ = minNeg l₂ := by
  unfold minNeg
  apply List.Perm.foldl_eq' h
  intro x _ y _ z
  grind

/-! ### §10.3.3 / §10.4 -/

theorem css1033_equation (cb pb : Rat) (ml mr w : MF) :
    (css1033 cb pb ml mr w).ml + pb + (css1033 cb pb ml mr w).w + (css1033 cb pb ml mr w).mr = cb := by
  cases w <;> cases ml <;> cases mr <;> simp only [css1033, MF.V] <;> (try split) <;>
    (try split at *) <;> (try simp_all) <;> (try grind)

theorem blockLevelWidth__spec (cb pb : Rat) (h : HState) :
    (blockLevelWidth_ cb pb h).width = .val (css1033 cb pb h.ml h.mr h.width).w ∧
    (blockLevelWidth_ cb pb h).ml = .val (css1033 cb pb h.ml h.mr h.width).ml ∧
      (if overConstrained cb pb h.ml h.mr h.width then (blockLevelWidth_ cb pb h).mr = .val h.mr.V
       else (blockLevelWidth_ cb pb h).mr = .val (css1033 cb pb h.ml h.mr h.width).mr) := by
  obtain ⟨ml, mr, w⟩ := h
  cases w <;> cases ml <;> cases mr <;>
    simp only [blockLevelWidth_, css1033, overConstrained, MF.V, MF.isAuto] <;> (try split) <;>
    (try split at *) <;> (try simp_all) <;> (try grind)

theorem width_V (cb pb : Rat) (h : HState) :
    (blockLevelWidth_ cb pb h).width.V = (css1033 cb pb h.ml h.mr h.width).w := by
  rw [(blockLevelWidth__spec cb pb h).1]; rfl

theorem css1033_w_val (cb pb v : Rat) (ml mr : MF) : (css1033 cb pb ml mr (.val v)).w = v := by
  cases ml <;> cases mr <;> simp only [css1033, MF.V] <;> (try split) <;>
    (try split at *) <;> (try simp_all)

/-- handleMinMaxWidth = one application of blockLevelWidth_ with the width §10.4 selects -/
theorem blockLevelWidth_eq (cb pb minW : Rat) (maxW : Option Rat) (h : HState) :
    blockLevelWidth cb pb minW maxW h =
      blockLevelWidth_ cb pb { ml := h.ml, mr := h.mr, width := cssWidthArg cb pb minW maxW h.ml h.mr h.width } := by
  obtain ⟨ml, mr, w⟩ := h
  unfold blockLevelWidth cssWidthArg
  cases maxW with
  | none =>
    simp only [width_V]
    split <;> rfl
  | some m =>
    simp only [width_V]
    by_cases h1 : m < (css1033 cb pb ml mr w).w
    · simp only [h1, if_true, width_V, css1033_w_val]
      split <;> rfl
    · simp only [h1, if_false, width_V]
      split <;> rfl

/-- the used width after §10.4 = clamp of the tentative width, min-width winning -/
theorem cssWidth_w (cb pb minW : Rat) (maxW : Option Rat) (ml mr w : MF) :
    (cssWidth cb pb minW maxW ml mr w).w =
      ratMax (match maxW with
              | some m => ratMin (css1033 cb pb ml mr w).w m
              | none => (css1033 cb pb ml mr w).w) minW := by
  unfold cssWidth cssWidthArg ratMax ratMin
  cases maxW with
  | none =>
    simp only
    split
    · rw [css1033_w_val]
    · grind
  | some m =>
    simp only
    by_cases h1 : m < (css1033 cb pb ml mr w).w
    · simp only [h1, if_true, css1033_w_val]
      split
      · rw [css1033_w_val]
      · rw [css1033_w_val]
    · simp only [h1, if_false]
      split
      · rw [css1033_w_val]
      · grind

/-! ### percentages and box-sizing -/

def Dim.nonneg : Dim → Prop
  | .auto => True
  | .px v => 0 ≤ v
  | .pct v => 0 ≤ v

theorem pct_nonneg {a p : Rat} (ha : 0 ≤ a) (hp : 0 ≤ p) : 0 ≤ a * p / 100 := by
  have h := Rat.mul_nonneg ha hp
  grind

theorem resolveOne_V (d : Dim) (ref : Rat) : (resolveOne d ref).V = specLen d ref := by
  cases d <;> rfl

theorem specLen_nonneg {d : Dim} {ref : Rat} (hd : d.nonneg) (hr : 0 ≤ ref) : 0 ≤ specLen d ref := by
  cases d <;> simp only [specLen, Dim.nonneg] at * 
  · exact Rat.le_refl
  · exact hd
  · exact pct_nonneg hr hd

theorem shrink_scalar (v d : Rat) (hv : 0 ≤ v) (hd : 0 ≤ d) :
    (if 0 < d then MF.val (ratMax 0 (v - d)) else MF.val v) = MF.val (if v - d < 0 then 0 else v - d) := by
  unfold ratMax
  by_cases h1 : 0 < d
  · simp only [h1, if_true]
    by_cases h2 : 0 < v - d
    · have h3 : ¬ v - d < 0 := by grind
      simp only [h2, h3, if_true, if_false]
    · by_cases h3 : v - d < 0
      · simp only [h2, h3, if_true, if_false]
      · have : v - d = 0 := by grind
        simp [this]
  · have hd0 : d = 0 := by grind
    subst hd0
    have h3 : ¬ v - 0 < 0 := by grind
    simp only [h1, h3, if_false]
    congr 1; grind

theorem shrink_size (sz : Sizing) (pad bor ref : Rat) (d : Dim) (hp : 0 ≤ pad) (hb : 0 ≤ bor) (hd : d.nonneg) (hr : 0 ≤ ref) :
    (if 0 < boxDelta sz pad bor then shrinkMF (boxDelta sz pad bor) (resolveOne d ref) else resolveOne d ref)
      = specSize sz pad bor d ref := by
  have hdel : 0 ≤ boxDelta sz pad bor := by cases sz <;> simp only [boxDelta] <;> grind
  cases d with
  | auto => simp [shrinkMF, resolveOne, specSize]
  | px v =>
    have h := shrink_scalar v (boxDelta sz pad bor) hd hdel
    cases sz <;> simp only [boxDelta, shrinkMF, resolveOne, specSize, specContent] at * <;> first | exact h | skip
    · have : ¬ (0:Rat) < 0 := by decide
      simp [this]
  | pct p =>
    have h := shrink_scalar (ref * p / 100) (boxDelta sz pad bor) (pct_nonneg hr hd) hdel
    cases sz <;> simp only [boxDelta, shrinkMF, resolveOne, specSize, specContent] at * <;> first | exact h | skip
    · have : ¬ (0:Rat) < 0 := by decide
      simp [this]


theorem shrink_content (sz : Sizing) (pad bor v : Rat) (hp : 0 ≤ pad) (hb : 0 ≤ bor) (hv : 0 ≤ v) :
    (if 0 < boxDelta sz pad bor then ratMax 0 (v - boxDelta sz pad bor) else v) = specContent sz pad bor v := by
  have hdel : 0 ≤ boxDelta sz pad bor := by cases sz <;> simp only [boxDelta] <;> grind
  have h := shrink_scalar v (boxDelta sz pad bor) hv hdel
  have h' : MF.val (if 0 < boxDelta sz pad bor then ratMax 0 (v - boxDelta sz pad bor) else v) = MF.val (specContent sz pad bor v) := by
    rw [← show (if 0 < boxDelta sz pad bor then MF.val (ratMax 0 (v - boxDelta sz pad bor)) else MF.val v) =
          MF.val (if 0 < boxDelta sz pad bor then ratMax 0 (v - boxDelta sz pad bor) else v) by split <;> rfl, h]
    cases sz <;> simp only [boxDelta, specContent]
    · have : ¬ v - 0 < 0 := by grind
      simp only [this, if_false]; congr 1; grind
    · rfl
    · rfl
  exact MF.val.inj h'

theorem shrink_min (sz : Sizing) (pad bor ref : Rat) (d : Dim) (hp : 0 ≤ pad) (hb : 0 ≤ bor) (hd : d.nonneg) (hr : 0 ≤ ref) :
    (if 0 < boxDelta sz pad bor then ratMax 0 (resolveMin d ref - boxDelta sz pad bor) else resolveMin d ref)
      = (specSize sz pad bor d ref).V := by
  have hdel : 0 ≤ boxDelta sz pad bor := by cases sz <;> simp only [boxDelta] <;> grind
  cases d with
  | auto =>
    simp only [resolveMin, resolveOne, specSize, MF.V, ratMax]
    split <;> (try split) <;> grind
  | px v => exact shrink_content sz pad bor v hp hb hd
  | pct p => exact shrink_content sz pad bor _ hp hb (pct_nonneg hr hd)

theorem shrink_max (sz : Sizing) (pad bor ref : Rat) (d : Dim) (hp : 0 ≤ pad) (hb : 0 ≤ bor) (hd : d.nonneg) (hr : 0 ≤ ref) :
    (if 0 < boxDelta sz pad bor then shrinkMax (boxDelta sz pad bor) (resolveMax d ref) else resolveMax d ref)
      = (specSize sz pad bor d ref).toOpt := by
  cases d with
  | auto => simp [resolveMax, shrinkMax, specSize, MF.toOpt]
  | px v =>
    have h := shrink_content sz pad bor v hp hb hd
    simp only [resolveMax, shrinkMax, specSize, MF.toOpt]
    rw [← h]; split <;> rfl
  | pct p =>
    have h := shrink_content sz pad bor _ hp hb (pct_nonneg hr hd)
    simp only [resolveMax, shrinkMax, specSize, MF.toOpt]
    rw [← h]; split <;> rfl

/-- what the validator guarantees: no negative padding, border, width, height, min/max -/
structure Style.Valid (s : Style) : Prop where
  pl : s.pl.nonneg
  pr : s.pr.nonneg
  pt : s.pt.nonneg
  pb : s.pb.nonneg
  bl : 0 ≤ s.bl
  br : 0 ≤ s.br
  bt : 0 ≤ s.bt
  bb : 0 ≤ s.bb
  width : s.width.nonneg
  minW : s.minW.nonneg
  maxW : s.maxW.nonneg
  height : s.height.nonneg
  minH : s.minH.nonneg
  maxH : s.maxH.nonneg

theorem resolvePercentages_eq_spec (cbW : Rat) (cbH : MF) (s : Style) (hw : 0 ≤ cbW)
    (hh : ∀ h, cbH = .val h → 0 ≤ h) (v : s.Valid) :
    resolvePercentages cbW cbH s = specResolve cbW cbH s := by
  have hpl := specLen_nonneg v.pl hw
  have hpr := specLen_nonneg v.pr hw
  have hpt := specLen_nonneg v.pt hw
  have hpb := specLen_nonneg v.pb hw
  have hpad : 0 ≤ specLen s.pl cbW + specLen s.pr cbW := by grind
  have hbor : 0 ≤ s.bl + s.br := by have := v.bl; have := v.br; grind
  have vpad : 0 ≤ specLen s.pt cbW + specLen s.pb cbW := by grind
  have vbor : 0 ≤ s.bt + s.bb := by have := v.bt; have := v.bb; grind
  unfold resolvePercentages specResolve
  simp only [resolveOne_V]
  congr 1
  · cases s.ml <;> rfl
  · cases s.mr <;> rfl
  · cases s.mt <;> rfl
  · cases s.mb <;> rfl
  · exact shrink_size _ _ _ _ _ hpad hbor v.width hw
  · exact shrink_min _ _ _ _ _ hpad hbor v.minW hw
  · exact shrink_max _ _ _ _ _ hpad hbor v.maxW hw
  · cases cbH with
    | auto =>
      cases hs : s.height with
      | auto => simp [shrinkMF, specSize]
      | pct p => simp [shrinkMF]
      | px x =>
        have hx : (Dim.px x).nonneg := hs ▸ v.height
        have := shrink_size s.sizing _ _ 0 (.px x) vpad vbor hx (Rat.le_refl)
        simpa [resolveOne] using this
    | val h =>
      have := shrink_size s.sizing _ _ h s.height vpad vbor v.height (hh h rfl)
      cases hs : s.height <;> simpa [hs] using this
  · cases cbH with
    | auto =>
      cases hs : s.minH with
      | auto =>
        have := shrink_min s.sizing _ _ 0 .auto vpad vbor (by simp [Dim.nonneg]) (Rat.le_refl)
        simpa using this
      | px x =>
        have hx : (Dim.px x).nonneg := hs ▸ v.minH
        have := shrink_min s.sizing _ _ 0 (.px x) vpad vbor hx (Rat.le_refl)
        simpa using this
      | pct p =>
        have hx : (Dim.pct p).nonneg := hs ▸ v.minH
        have h0 := shrink_min s.sizing _ _ 0 (.pct p) vpad vbor hx (Rat.le_refl)
        have hz : (0 : Rat) * p / 100 = 0 := by grind
        have hdel : 0 ≤ boxDelta s.sizing (specLen s.pt cbW + specLen s.pb cbW) (s.bt + s.bb) := by
          cases s.sizing <;> simp only [boxDelta] <;> grind
        simp only [resolveMin, resolveOne, hz, ratMax]
        split <;> (try split) <;> grind
    | val h =>
      have := shrink_min s.sizing _ _ h s.minH vpad vbor v.minH (hh h rfl)
      cases hs : s.minH <;> simpa [hs] using this
  · cases cbH with
    | auto =>
      cases hs : s.maxH with
      | auto => simp [shrinkMax, specSize, MF.toOpt]
      | px x =>
        have hx : (Dim.px x).nonneg := hs ▸ v.maxH
        have := shrink_max s.sizing _ _ 0 (.px x) vpad vbor hx (Rat.le_refl)
        simpa [resolveMax] using this
      | pct p => simp [shrinkMax]
    | val h =>
      have := shrink_max s.sizing _ _ h s.maxH vpad vbor v.maxH (hh h rfl)
      cases hs : s.maxH <;> simpa [hs] using this

/-! ### the two passes commute with the per-box interleaving of the code -/

theorem resolveList_isEmpty (cbW : Rat) (cbH : MF) (x : Rat) (cs : List Box) :
    (resolveList cbW cbH x cs).isEmpty = cs.isEmpty := by
  cases cs <;> simp [resolveList]

mutual
  theorem ibox_eq (cbW : Rat) (cbH : MF) (x : Rat) (isRoot : Bool) (y0 : Rat) (adjIn : List Rat) :
      (b : Box) → ibox cbW cbH x isRoot y0 adjIn b = vbox y0 adjIn (resolveBox cbW cbH x isRoot b)
    | .mk s cs => by
      rw [ibox, resolveBox, vbox]
      simp only [resolveList_isEmpty]
      rw [ilist_eq]
  theorem ilist_eq (cbW : Rat) (cbH : MF) (x : Rat) (st : VLoop) :
      (cs : List Box) → ilist cbW cbH x st cs = vlist st (resolveList cbW cbH x cs)
    | [] => by rw [ilist, resolveList, vlist]
    | c :: cs => by
      rw [ilist, resolveList, vlist]
      simp only [ibox_eq cbW cbH x false st.y st.adj c]
      rw [ilist_eq]
end

end WR.C10
