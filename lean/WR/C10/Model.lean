/-
  C10 — hand-written model of block-level sizing and stacking in html/layout:

    percentages.go  resolveOnePercentage, resolvePercentages          (`resolveOne`, `resolvePercentages`)
    blocks.go       blockLevelWidth_                                   (`blockLevelWidth_`)
    min_max.go      handleMinMaxWidth                                  (`blockLevelWidth`)
    blocks.go       collapseMargin                                     (`collapseMargin`)
    blocks.go       blockLevelLayout / blockBoxLayout / blockContainerLayout / inFlowLayout,
                    restricted to ONE unbounded page, ltr, in-flow block boxes only (no floats, no
                    clearance, no line boxes, no fragmentation)      (`resolveBox`, `vbox`, `vlist`)

  Numbers are exact rationals (`pr.Float` is float32; the correspondence stays inside an exactness
  domain).  The model mirrors what the code DOES, including
    * over-constrained widths keep the specified margin-right (and auto margins forced to 0 stay 0),
    * the slice-pointer aliasing of `adjoiningMargins`: `thisBoxAdjoiningMargins` is the same pointer
      as the caller's list and sees what the FIRST child chain appends, but not what later happens
      through the fresh `&adjoiningMarginsV` pointers (field `pOut` below),
    * a box whose children all collapse through is not itself flagged `collapsingThrough`.
  The horizontal pass (top-down, independent of the vertical one: percentages of heights refer to the
  parent's *resolved* `Height`, never to the laid-out one) is separated from the vertical pass; the
  code interleaves them per box, the values computed are the same.
-/
namespace WR.C10

/-- a computed length value: `auto` (also stands for `none` of max-width/max-height), px, percentage -/
inductive Dim where
  | auto
  | px (v : Rat)
  | pct (v : Rat)
  deriving Repr, DecidableEq, Inhabited

/-- `pr.MaybeFloat`: `AutoF` or a number -/
inductive MF where
  | auto
  | val (v : Rat)
  deriving Repr, DecidableEq, Inhabited

/-- `MaybeFloat.V()`: `AutoF.V() = 0` -/
def MF.V : MF → Rat
  | .auto => 0
  | .val v => v

def MF.isAuto : MF → Bool
  | .auto => true
  | .val _ => false

inductive Sizing where
  | content | padding | border
  deriving Repr, DecidableEq, Inhabited

/-- computed style of one block box (what the validator hands to layout) -/
structure Style where
  ml : Dim
  mr : Dim
  mt : Dim
  mb : Dim
  pl : Dim
  pr : Dim
  pt : Dim
  pb : Dim
  bl : Rat
  br : Rat
  bt : Rat
  bb : Rat
  width : Dim
  minW : Dim          -- auto = initial value
  maxW : Dim          -- auto = none (the code stores +Inf px)
  height : Dim
  minH : Dim          -- auto = initial value (↦ 0)
  maxH : Dim          -- auto = none (the code stores +Inf px)
  sizing : Sizing
  lines : Nat         -- number of line boxes of text the box contains (only for boxes without block children)
  lineH : Rat         -- height of each of them (line-height; Ahem text, one strut per line)
  deriving Repr, Inhabited

inductive Box where
  | mk (s : Style) (children : List Box)
  deriving Repr, Inhabited

/-- `pr.ResolvePercentage` -/
def resolveOne (d : Dim) (referTo : Rat) : MF :=
  match d with
  | .auto => .auto
  | .px v => .val v
  | .pct v => .val (referTo * v / 100)

/-- `resolveOnePercentage` for min-width / min-height outside flex: auto ↦ 0 -/
def resolveMin (d : Dim) (referTo : Rat) : Rat :=
  match resolveOne d referTo with
  | .auto => 0
  | .val v => v

/-- max-width: `none` is +Inf px, modelled by `none` -/
def resolveMax (d : Dim) (referTo : Rat) : Option Rat :=
  match d with
  | .auto => none
  | .px v => some v
  | .pct v => some (referTo * v / 100)

/-- box attributes after `resolvePercentages` -/
structure Used where
  ml : MF
  mr : MF
  mt : MF
  mb : MF
  pl : Rat
  pr : Rat
  pt : Rat
  pb : Rat
  bl : Rat
  br : Rat
  bt : Rat
  bb : Rat
  width : MF
  minW : Rat
  maxW : Option Rat
  height : MF
  minH : Rat
  maxH : Option Rat
  deriving Repr, Inhabited

def ratMax (a b : Rat) : Rat := if a < b then b else a   -- pr.Max
def ratMin (a b : Rat) : Rat := if b < a then b else a   -- pr.Min

/-- `max(0, x - delta)` on a MaybeFloat that is not auto -/
def shrinkMF (delta : Rat) : MF → MF
  | .auto => .auto
  | .val v => .val (ratMax 0 (v - delta))

def shrinkMax (delta : Rat) : Option Rat → Option Rat
  | none => none                      -- Inf - delta = Inf
  | some v => some (ratMax 0 (v - delta))

/-- horizontalDelta / verticalDelta of `resolvePercentages` (`pad`, `bor`: sums of the two paddings / borders) -/
def boxDelta (sz : Sizing) (pad bor : Rat) : Rat :=
  match sz with
  | .border => pad + bor
  | .padding => pad
  | .content => 0

/-- percentages.go `resolvePercentages` for a non-page box; `cbH = auto` is the branch
    "height of the containing block depends on its content". -/
def resolvePercentages (cbW : Rat) (cbH : MF) (s : Style) : Used :=
  let pl := (resolveOne s.pl cbW).V
  let pr := (resolveOne s.pr cbW).V
  let pt := (resolveOne s.pt cbW).V
  let pb := (resolveOne s.pb cbW).V
  let height : MF := match cbH with
    | .auto => (match s.height with
        | .auto => .auto
        | .pct _ => .auto
        | .px v => .val v)
    | .val h => resolveOne s.height h
  let hd : Rat := boxDelta s.sizing (pl + pr) (s.bl + s.br)
  let vd : Rat := boxDelta s.sizing (pt + pb) (s.bt + s.bb)
  -- min-height / max-height: against 0 / +Inf when the containing block's height is auto
  -- (a percentage of +Inf is +Inf for a positive percentage; 0% would be NaN and is outside the model)
  let minH : Rat := match cbH with
    | .auto => resolveMin s.minH 0
    | .val h => resolveMin s.minH h
  let maxH : Option Rat := match cbH with
    | .auto => (match s.maxH with
        | .auto => none
        | .px v => some v
        | .pct _ => none)
    | .val h => resolveMax s.maxH h
  let width := resolveOne s.width cbW
  let minW := resolveMin s.minW cbW
  let maxW := resolveMax s.maxW cbW
  { ml := resolveOne s.ml cbW, mr := resolveOne s.mr cbW,
    mt := resolveOne s.mt cbW, mb := resolveOne s.mb cbW,
    pl := pl, pr := pr, pt := pt, pb := pb,
    bl := s.bl, br := s.br, bt := s.bt, bb := s.bb,
    width := if 0 < hd then shrinkMF hd width else width,
    minW := if 0 < hd then ratMax 0 (minW - hd) else minW,
    maxW := if 0 < hd then shrinkMax hd maxW else maxW,
    height := if 0 < vd then shrinkMF vd height else height,
    minH := if 0 < vd then ratMax 0 (minH - vd) else minH,
    maxH := if 0 < vd then shrinkMax vd maxH else maxH }

/-- the three attributes `blockLevelWidth_` reads and writes -/
structure HState where
  ml : MF
  mr : MF
  width : MF
  deriving Repr, DecidableEq, Inhabited

/-- blocks.go `blockLevelWidth_`, containing block ltr; `pb` = paddingsPlusBorders.
    The local variables marginL/marginR/width and the box fields are always written together. -/
def blockLevelWidth_ (cbW pb : Rat) (h : HState) : HState :=
  -- if width != auto { total := …; if total > cbWidth { auto margins := 0 } }
  let h1 : HState :=
    match h.width with
    | .auto => h
    | .val w =>
      let total := pb + w + h.ml.V + h.mr.V        -- auto margins contribute 0 (`V()`), as the guarded += do
      if cbW < total then
        { h with ml := if h.ml.isAuto then .val 0 else h.ml,
                 mr := if h.mr.isAuto then .val 0 else h.mr }
      else h
  -- over-constrained, ltr: "Do nothing in ltr."
  -- if width == auto { auto margins := 0; width := cb - (pb + ml + mr) }
  let h2 : HState :=
    match h1.width with
    | .auto =>
      let ml := if h1.ml.isAuto then MF.val 0 else h1.ml
      let mr := if h1.mr.isAuto then MF.val 0 else h1.mr
      { ml := ml, mr := mr, width := .val (cbW - (pb + ml.V + mr.V)) }
    | .val _ => h1
  let marginSum := cbW - pb - h2.width.V
  match h2.ml, h2.mr with
  | .auto, .auto => { h2 with ml := .val (marginSum / 2), mr := .val (marginSum / 2) }
  | .auto, .val r => { h2 with ml := .val (marginSum - r) }
  | .val l, .auto => { h2 with mr := .val (marginSum - l) }
  | .val _, .val _ => h2

def gtMax (w : Rat) : Option Rat → Bool
  | none => false
  | some m => m < w

/-- min_max.go `handleMinMaxWidth(blockLevelWidth_)` -/
def blockLevelWidth (cbW pb minW : Rat) (maxW : Option Rat) (h : HState) : HState :=
  let r1 := blockLevelWidth_ cbW pb h
  let r2 :=
    match maxW with
    | some m => if m < r1.width.V then blockLevelWidth_ cbW pb { ml := h.ml, mr := h.mr, width := .val m } else r1
    | none => r1
  if r2.width.V < minW then blockLevelWidth_ cbW pb { ml := h.ml, mr := h.mr, width := .val minW } else r2

/-- blocks.go `collapseMargin` -/
def collapseStep (p : Rat × Rat) (m : Rat) : Rat × Rat :=
  if p.1 < m then (m, p.2) else if m < p.2 then (p.1, m) else p

def collapseMargin (ms : List Rat) : Rat :=
  let p := ms.foldl collapseStep (0, 0)
  p.1 + p.2

/-! ### horizontal pass: used values of every box, top-down -/

/-- used values the vertical pass needs (after `resolvePercentages`, auto vertical margins := 0,
    `blockLevelWidth`) and the box's `PositionX` -/
structure RStyle where
  x : Rat
  ml : Rat
  mr : Rat
  mt : Rat
  mb : Rat
  pl : Rat
  pr : Rat
  pt : Rat
  pb : Rat
  bl : Rat
  br : Rat
  bt : Rat
  bb : Rat
  width : Rat
  height : MF
  minH : Rat
  maxH : Option Rat
  isRoot : Bool
  lines : Nat
  lineH : Rat
  deriving Repr, Inhabited

inductive RBox where
  | mk (s : RStyle) (children : List RBox)
  deriving Repr, Inhabited

/-- blockLevelLayout (resolvePercentages, auto margin-top/bottom := 0) + blockBoxLayout
    (blockLevelWidth) for one box at `PositionX = x` in a containing block `cbW × cbH`. -/
def resolveStyle (cbW : Rat) (cbH : MF) (x : Rat) (isRoot : Bool) (s : Style) : RStyle :=
  let u := resolvePercentages cbW cbH s
  let h := blockLevelWidth cbW (u.pl + u.pr + u.bl + u.br) u.minW u.maxW
            { ml := u.ml, mr := u.mr, width := u.width }
  { x := x, ml := h.ml.V, mr := h.mr.V, mt := u.mt.V, mb := u.mb.V,
    pl := u.pl, pr := u.pr, pt := u.pt, pb := u.pb, bl := u.bl, br := u.br, bt := u.bt, bb := u.bb,
    width := h.width.V, height := u.height, minH := u.minH, maxH := u.maxH, isRoot := isRoot,
    lines := s.lines, lineH := s.lineH }

/-- `box.ContentBoxX()` -/
def RStyle.contentX (r : RStyle) : Rat := r.x + r.ml + r.pl + r.bl

mutual
  def resolveBox (cbW : Rat) (cbH : MF) (x : Rat) (isRoot : Bool) : Box → RBox
    | .mk s cs =>
      let r := resolveStyle cbW cbH x isRoot s
      .mk r (resolveList r.width r.height r.contentX cs)
  def resolveList (cbW : Rat) (cbH : MF) (x : Rat) : List Box → List RBox
    | [] => []
    | c :: cs => resolveBox cbW cbH x false c :: resolveList cbW cbH x cs
end

/-! ### vertical pass -/

/-- one laid-out box (the attributes the correspondence compares) -/
structure LBox where
  x : Rat
  y : Rat        -- PositionY (top of the margin box)
  w : Rat
  h : Rat
  mt : Rat
  mr : Rat
  mb : Rat
  ml : Rat
  pt : Rat
  pr : Rat
  pb : Rat
  pl : Rat
  bt : Rat
  br : Rat
  bb : Rat
  bl : Rat
  deriving Repr, DecidableEq, Inhabited

inductive LTree where
  | mk (b : LBox) (children : List LTree)
  deriving Repr, Inhabited

def LBox.borderTop (b : LBox) : Rat := b.y + b.mt                       -- BorderBoxY
def LBox.contentTop (b : LBox) : Rat := b.y + b.mt + b.pt + b.bt        -- ContentBoxY
def LBox.borderBottom (b : LBox) : Rat :=                               -- BorderBoxY + BorderHeight
  b.y + b.mt + (b.h + b.pt + b.pb + b.bt + b.bb)

def LTree.box : LTree → LBox
  | .mk b _ => b

/-- `collapsingWithChildren` for a plain block box (not flex/grid item, overflow visible) -/
def RStyle.cwc (r : RStyle) : Bool := !(r.bt != 0 || r.pt != 0 || r.isRoot)

/-- the test that sets `collapsingThrough` when a box has no in-flow child (no clearance here) -/
def RStyle.emptyThrough (r : RStyle) : Bool :=
  (r.height == .auto || r.height == .val 0) && r.minH == 0 && r.bt == 0 && r.pt == 0 && r.bb == 0 && r.pb == 0

def clampH (h : Rat) (minH : Rat) (maxH : Option Rat) : Rat :=
  let h1 := match maxH with
    | none => h
    | some m => ratMin h m
  ratMax h1 minH

/-- result of blockLevelLayout for one box -/
structure VRes where
  tree : LTree
  adj : List Rat        -- blockLayout.adjoiningMargins
  through : Bool        -- blockLayout.collapsingThrough
  pOut : List Rat       -- the caller's `*adjoiningMargins` after the call (it is appended to in place)

/-- state of the children loop of blockContainerLayout (`newChildren` is returned separately) -/
structure VLoop where
  y : Rat                 -- positionY
  adj : List Rat          -- *adjoiningMargins
  aliased : Bool          -- adjoiningMargins is still the pointer `thisBoxAdjoiningMargins`
  p : List Rat            -- *thisBoxAdjoiningMargins

/-- blockContainerLayout before the children loop: `*adjoiningMargins = append(*adjoiningMargins, MarginTop)`,
    `collapsingWithChildren`, the starting `positionY` -/
def vStart (r : RStyle) (y0 : Rat) (adjIn : List Rat) : VLoop :=
  let p0 := adjIn ++ [r.mt]
  if r.cwc then { y := y0, adj := p0, aliased := true, p := p0 }
  else { y := (y0 + collapseMargin p0 - r.mt) + r.mt + r.pt + r.bt, adj := [], aliased := false, p := p0 }

/-- the loop when the only child is the LineBox holding the text: lineBoxLayout adds the collapsed
    adjoining margins to positionY, stacks the lines, and the caller resets `adjoiningMargins` to a
    fresh empty list (`*thisBoxAdjoiningMargins` is not touched) -/
def vText (r : RStyle) (st : VLoop) : VLoop :=
  { y := st.y + collapseMargin st.adj + (r.lines : Rat) * r.lineH, adj := [], aliased := false, p := st.p }

/-- blockContainerLayout after the children loop (`leaf`: no in-flow child was laid out) -/
def vFinish (r : RStyle) (y0 : Rat) (adjIn : List Rat) (leaf : Bool) (l : VLoop) (kids : List LTree) : VRes :=
  -- if collapsingWithChildren { box.PositionY += collapseMargin(*thisBoxAdjoiningMargins) - MarginTop }
  let posY := if r.cwc then y0 + collapseMargin l.p - r.mt else y0 + collapseMargin (adjIn ++ [r.mt]) - r.mt
  -- lastInFlowChild == nil ?
  let yat : Rat × List Rat × Bool :=
    if leaf then
      if r.emptyThrough then (l.y, l.adj, true)
      else (l.y + collapseMargin l.adj, [], false)
    else
      if r.height.isAuto then (l.y, l.adj, false) else (l.y, [], false)
  let ya : Rat × List Rat :=
    if r.bb != 0 || r.pb != 0 || r.isRoot then (yat.1 + collapseMargin yat.2.1, ([] : List Rat)) else (yat.1, yat.2.1)
  let h0 := match r.height with
    | .auto => ya.1 - (posY + r.mt + r.pt + r.bt)
    | .val v => v
  let h := clampH h0 r.minH r.maxH
  { tree := .mk { x := r.x, y := posY, w := r.width, h := h, mt := r.mt, mr := r.mr, mb := r.mb, ml := r.ml,
                  pt := r.pt, pr := r.pr, pb := r.pb, pl := r.pl, bt := r.bt, br := r.br, bb := r.bb, bl := r.bl }
                kids,
    adj := ya.2, through := yat.2.2, pOut := l.p }

mutual
  /-- blockLevelLayout → blockContainerLayout for one in-flow block box whose `PositionY` was set
      to `y0` by the parent, with `*adjoiningMargins = adjIn` -/
  def vbox (y0 : Rat) (adjIn : List Rat) : RBox → VRes
    | .mk r cs =>
      -- text is only modelled in boxes without block children (no anonymous block boxes)
      let lk := if r.lines = 0 then vlist (vStart r y0 adjIn) cs else (vText r (vStart r y0 adjIn), [])
      vFinish r y0 adjIn (cs.isEmpty && r.lines == 0) lk.1 lk.2
  /-- the children loop: inFlowLayout for each child; returns the final state and `newChildren` -/
  def vlist (st : VLoop) : List RBox → VLoop × List LTree
    | [] => (st, [])
    | c :: cs =>
      let r := vbox st.y st.adj c
      let y := if r.through then st.y else r.tree.box.borderBottom
      let rest := vlist { y := y, adj := r.adj ++ [r.tree.box.mb], aliased := false,
                          p := if st.aliased then r.pOut else st.p } cs
      (rest.1, r.tree :: rest.2)
end

/-! ### the same computation in the order the code runs it

  blockLevelLayout resolves the percentages and the width of a box when the PARENT's loop reaches it
  (containing block = the parent's box: its used `Width`, its resolved — not laid-out — `Height`, its
  `ContentBoxX()`), then lays it out vertically.  `ibox`/`ilist` interleave the two passes per box
  exactly like that; `passes_commute` (WR/Props/C10.lean) proves they equal `vbox ∘ resolveBox`. -/

mutual
  def ibox (cbW : Rat) (cbH : MF) (x : Rat) (isRoot : Bool) (y0 : Rat) (adjIn : List Rat) : Box → VRes
    | .mk s cs =>
      let r := resolveStyle cbW cbH x isRoot s
      let lk := if r.lines = 0 then ilist r.width r.height r.contentX (vStart r y0 adjIn) cs
                else (vText r (vStart r y0 adjIn), [])
      vFinish r y0 adjIn (cs.isEmpty && r.lines == 0) lk.1 lk.2
  def ilist (cbW : Rat) (cbH : MF) (x : Rat) (st : VLoop) : List Box → VLoop × List LTree
    | [] => (st, [])
    | c :: cs =>
      let r := ibox cbW cbH x false st.y st.adj c
      let y := if r.through then st.y else r.tree.box.borderBottom
      let rest := ilist cbW cbH x { y := y, adj := r.adj ++ [r.tree.box.mb], aliased := false,
                                    p := if st.aliased then r.pOut else st.p } cs
      (rest.1, r.tree :: rest.2)
end

/-- whole document: root element box in the page's content area (`pageW × pageH` at 0,0) -/
def layoutDoc (pageW pageH : Rat) (root : Box) : LTree :=
  (vbox 0 [] (resolveBox pageW (.val pageH) 0 true root)).tree

mutual
  def LTree.flatten : LTree → List LBox
    | .mk b cs => b :: LTree.flattenList cs
  def LTree.flattenList : List LTree → List LBox
    | [] => []
    | c :: cs => c.flatten ++ LTree.flattenList cs
end

end WR.C10
