/-
  C10 — small concrete documents used as non-vacuity examples and as negation witnesses in
  WR/Props/C10.lean (each witness is also replayed against the real layout by the harness: see
  known_findings.d/C10.json).
-/
import WR.C10.Spec
namespace WR.C10

/-- a block box with every property at its initial value -/
def plain : Style :=
  { ml := .px 0, mr := .px 0, mt := .px 0, mb := .px 0, pl := .px 0, pr := .px 0, pt := .px 0, pb := .px 0,
    bl := 0, br := 0, bt := 0, bb := 0, width := .auto, minW := .auto, maxW := .auto, height := .auto,
    minH := .auto, maxH := .auto, sizing := .content, lines := 0, lineH := 0 }

def doc (bodyKids : List Box) : Box := .mk plain [.mk plain bodyKids]

/-- html > body > two leaves of 10px with margins 5/7 and -3/4, inside a padded box -/
def docSolid : Box :=
  doc [.mk { plain with pt := .px 2, mb := .px 6 }
        [.mk { plain with height := .px 10, mt := .px 5, mb := .px 7 } [],
         .mk { plain with height := .px 10, mt := .px (-3), mb := .px 4 } []],
       .mk { plain with lines := 3, lineH := 12, mt := .px 30, mb := .px 10, bb := 2 } [],
       .mk { plain with height := .px 1, mt := .px 9 } []]

/-- KF10-2: `<div style=margin-top:10px><div style="margin:5px 0 7px"></div><div style="margin-top:30px;height:10px"></div></div>` -/
def docLeadingThrough : Box :=
  doc [.mk { plain with mt := .px 10 }
        [.mk { plain with mt := .px 5, mb := .px 7 } [],
         .mk { plain with mt := .px 30, height := .px 10 } []]]

/-- KF10-3: `<div style=padding-top:1px><div style=margin-top:10px><div></div></div><div style=height:10px></div></div>` -/
def docNestedThrough : Box :=
  doc [.mk { plain with pt := .px 1 }
        [.mk { plain with mt := .px 10 } [.mk plain []],
         .mk { plain with height := .px 10 } []]]

/-- KF10-4: `<div style=margin-bottom:-10px;height:5px></div><div></div>` -/
def docNegativeThrough : Box :=
  doc [.mk { plain with mb := .px (-10), height := .px 5 } [], .mk plain []]

/-- the judged tree of the model's layout of a document on a 400 × 100000 page -/
def judged (d : Box) : VTree :=
  vtree (resolveBox 400 (.val 100000) 0 true d) (layoutDoc 400 100000 d)

end WR.C10
