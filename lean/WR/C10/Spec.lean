/-
  C10 — specification, written from CSS 2.1 (§8.3.1 collapsing margins, §10.3.3 block-level
  non-replaced elements in normal flow, §10.4 min/max-width, §10.6.3 auto heights, §10.7), CSS3-UI
  box-sizing and from the property text, NOT from the code.  Everything here is decidable and is
  evaluated by the driver on the IMPLEMENTATION's numbers (`judgeDoc`).
-/
import WR.C10.Model
namespace WR.C10

/-! ### §8.3.1: the collapsed margin = largest positive + most negative -/

def maxPos (ms : List Rat) : Rat := ms.foldl (fun acc m => if acc < m then m else acc) 0
def minNeg (ms : List Rat) : Rat := ms.foldl (fun acc m => if m < acc then m else acc) 0
def collapseSpec (ms : List Rat) : Rat := maxPos ms + minNeg ms

/-! ### percentages and box-sizing -/

/-- a length or percentage against `ref`; `auto` counts 0 -/
def specLen (d : Dim) (ref : Rat) : Rat :=
  match d with
  | .auto => 0
  | .px v => v
  | .pct p => ref * p / 100

/-- content-box size for a specified size `v` under `box-sizing`, `pad`/`bor` being the sums of the
    two paddings / borders of that axis; floored at 0 -/
def specContent (sz : Sizing) (pad bor v : Rat) : Rat :=
  match sz with
  | .content => v
  | .padding => if v - pad < 0 then 0 else v - pad
  | .border => if v - (pad + bor) < 0 then 0 else v - (pad + bor)

def specSize (sz : Sizing) (pad bor : Rat) (d : Dim) (ref : Rat) : MF :=
  match d with
  | .auto => .auto
  | .px v => .val (specContent sz pad bor v)
  | .pct p => .val (specContent sz pad bor (ref * p / 100))

/-- `auto` of a max-* property is `none` -/
def MF.toOpt : MF → Option Rat
  | .auto => none
  | .val v => some v

/-- used values before the width/height algorithms: margins, paddings (percentages against the
    WIDTH of the containing block, also for top/bottom), content-box width/height and min/max.
    A percentage height / min-height / max-height against an auto-height containing block
    computes to auto / 0 / none. -/
def specResolve (cbW : Rat) (cbH : MF) (s : Style) : Used :=
  let pl := specLen s.pl cbW
  let pr := specLen s.pr cbW
  let pt := specLen s.pt cbW
  let pb := specLen s.pb cbW
  let m (d : Dim) : MF := match d with
    | .auto => .auto
    | _ => .val (specLen d cbW)
  { ml := m s.ml, mr := m s.mr, mt := m s.mt, mb := m s.mb,
    pl := pl, pr := pr, pt := pt, pb := pb, bl := s.bl, br := s.br, bt := s.bt, bb := s.bb,
    width := specSize s.sizing (pl + pr) (s.bl + s.br) s.width cbW,
    minW := (specSize s.sizing (pl + pr) (s.bl + s.br) s.minW cbW).V,
    maxW := (specSize s.sizing (pl + pr) (s.bl + s.br) s.maxW cbW).toOpt,
    height := (match cbH, s.height with
      | .auto, .pct _ => .auto
      | .auto, d => specSize s.sizing (pt + pb) (s.bt + s.bb) d 0
      | .val h, d => specSize s.sizing (pt + pb) (s.bt + s.bb) d h),
    -- CSS 2.1 §10.7: a percentage min-height / max-height against a containing block whose height
    -- is not specified explicitly is treated as 0 / none
    minH := (match cbH, s.minH with
      | .auto, .pct _ => 0
      | .auto, d => (specSize s.sizing (pt + pb) (s.bt + s.bb) d 0).V
      | .val h, d => (specSize s.sizing (pt + pb) (s.bt + s.bb) d h).V),
    maxH := (match cbH, s.maxH with
      | .auto, .pct _ => none
      | .auto, d => (specSize s.sizing (pt + pb) (s.bt + s.bb) d 0).toOpt
      | .val h, d => (specSize s.sizing (pt + pb) (s.bt + s.bb) d h).toOpt) }

/-! ### §10.3.3 / §10.4: horizontal used values (ltr) -/

structure HUsed where
  ml : Rat
  mr : Rat
  w : Rat
  deriving Repr, DecidableEq

/-- is the equation over-constrained for this width (all three values end up non-auto, after the
    "auto margins are treated as zero when the sum is too large" rule)? -/
def overConstrained (cb pb : Rat) (ml mr w : MF) : Bool :=
  match w with
  | .auto => false
  | .val wv => (cb < pb + wv + ml.V + mr.V) || (!ml.isAuto && !mr.isAuto)

/-- CSS 2.1 §10.3.3 for a given (possibly tentative) `width`, direction ltr.
    `pb` = border-left + padding-left + padding-right + border-right. -/
def css1033 (cb pb : Rat) (ml mr w : MF) : HUsed :=
  match w with
  | .auto =>
    -- "If 'width' is set to 'auto', any other 'auto' values become '0' and 'width' follows from the equality."
    { ml := ml.V, mr := mr.V, w := cb - pb - ml.V - mr.V }
  | .val wv =>
    -- "If 'width' is not 'auto' and [the sum, with non-auto margins] is larger than the width of the
    --  containing block, then any 'auto' values for margins are treated as zero."
    let over : Bool := cb < pb + wv + ml.V + mr.V
    let ml' : MF := if over then .val ml.V else ml
    let mr' : MF := if over then .val mr.V else mr
    match ml', mr' with
    -- over-constrained: ltr ⇒ the specified margin-right is ignored and computed from the equality
    | .val l, .val _ => { ml := l, mr := cb - pb - wv - l, w := wv }
    -- exactly one auto value: it follows from the equality
    | .auto, .val r => { ml := cb - pb - wv - r, mr := r, w := wv }
    | .val l, .auto => { ml := l, mr := cb - pb - wv - l, w := wv }
    -- both margins auto: equal (centring)
    | .auto, .auto => { ml := (cb - pb - wv) / 2, mr := (cb - pb - wv) / 2, w := wv }

/-- CSS 2.1 §10.4: the computed width the §10.3.3 rules are finally applied with: the specified one;
    max-width if the tentative used width exceeds it; min-width if the result is below it. -/
def cssWidthArg (cb pb minW : Rat) (maxW : Option Rat) (ml mr w : MF) : MF :=
  let t := css1033 cb pb ml mr w
  let a2 : MF := match maxW with
    | some m => if m < t.w then .val m else w
    | none => w
  if (css1033 cb pb ml mr a2).w < minW then .val minW else a2

def cssWidth (cb pb minW : Rat) (maxW : Option Rat) (ml mr w : MF) : HUsed :=
  css1033 cb pb ml mr (cssWidthArg cb pb minW maxW ml mr w)

/-! ### the judge: one violation = (rule, preorder index of the box, detail) -/

structure Viol where
  rule : String
  index : Nat
  detail : String
  deriving Repr, DecidableEq

/-- vertical facts of one laid-out box -/
structure VBox where
  idx : Nat
  top : Rat            -- top border edge
  mt : Rat
  mb : Rat
  bt : Rat
  pt : Rat
  pb : Rat
  bb : Rat
  h : Rat              -- used content height
  height : MF          -- computed height (auto, or the resolved content-box length)
  minH : Rat
  maxH : Option Rat
  isRoot : Bool
  lines : Nat          -- line boxes of text directly in the box (0 = none)
  lineH : Rat
  deriving Repr, Inhabited

inductive VTree where
  | mk (v : VBox) (children : List VTree)
  deriving Repr, Inhabited

def VBox.contentTop (v : VBox) : Rat := v.top + v.bt + v.pt
def VBox.bottom (v : VBox) : Rat := v.top + v.bt + v.pt + v.h + v.pb + v.bb   -- bottom border edge
/-- border/padding (or being the root, whose margins never collapse) separates the box's top
    margin from its content -/
def VBox.topBarrier (v : VBox) : Bool := v.bt != 0 || v.pt != 0 || v.isRoot
def VBox.botBarrier (v : VBox) : Bool := v.bb != 0 || v.pb != 0 || v.isRoot

def VTree.v : VTree → VBox
  | .mk v _ => v

def VTree.kids : VTree → List VTree
  | .mk _ cs => cs

mutual
  /-- `some ms`: the box's own top and bottom margins are adjoining (directly — no in-flow children,
      zero/auto height, zero min-height — or through children that are all of this kind) and `ms`
      are all the margins of the subtree, which then form ONE collapsed margin.  `none` otherwise. -/
  def thru : VTree → Option (List Rat)
    | .mk v cs =>
      if v.topBarrier || v.botBarrier || v.minH != 0 || v.lines != 0 then none
      else match cs with
        | [] => if v.height == .auto || v.height == .val 0 then some [v.mt, v.mb] else none
        | _ :: _ =>
          if v.height == .auto then
            match thruList cs with
            | some ms => some (v.mt :: ms ++ [v.mb])
            | none => none
          else none
  def thruList : List VTree → Option (List Rat)
    | [] => some []
    | c :: cs =>
      match thru c, thruList cs with
      | some a, some b => some (a ++ b)
      | _, _ => none
end

mutual
  /-- margins adjoining the top margin of the box, looking into the box (CSS 2.1 §8.3.1: top margin
      of a box and top margin of its first in-flow child, through boxes whose margins collapse
      through), up to the first border/padding/content -/
  def topGroup : VTree → List Rat
    | .mk v cs => v.mt :: (if v.topBarrier || v.lines != 0 then [] else topList cs)   -- line boxes separate the margins
  def topList : List VTree → List Rat
    | [] => []
    | c :: cs =>
      match thru c with
      | some ms => ms ++ topList cs
      | none => topGroup c
end

mutual
  /-- margins adjoining the bottom margin of the box, looking into the box: bottom margin of the last
      in-flow child when the box has 'auto' computed height and no bottom border/padding -/
  def botGroup : VTree → List Rat
    | .mk v cs => (if v.botBarrier || v.height != .auto || v.lines != 0 then [] else botList cs) ++ [v.mb]
  /-- the last in-flow child that does not collapse through contributes its bottom group, the
      collapsing-through children after it contribute all their margins -/
  def botList : List VTree → List Rat
    | [] => []
    | c :: cs =>
      match thruList cs with
      | none => botList cs
      | some ms =>
        (match thru c with
          | some m => m
          | none => botGroup c) ++ ms
end

/-- the configuration CSS 2.1 leaves contradictory: all children collapse through, the box has no
    border/padding and auto height, but a non-zero min-height gives it a real height -/
def ambiguousHere : VTree → Bool
  | .mk v cs =>
    !v.topBarrier && !v.botBarrier && v.minH != 0 && v.height == .auto && !cs.isEmpty && (thruList cs).isSome

mutual
  /-- does the chain "box → first in-flow child → …" that `topGroup` follows meet a box that
      collapses through?  (classification of violations only) -/
  def topThru : VTree → Bool
    | .mk v cs => if v.topBarrier || v.lines != 0 then false else topThruList cs
  def topThruList : List VTree → Bool
    | [] => false
    | c :: _ =>
      match thru c with
      | some _ => true
      | none => topThru c
end

/-- state of the walk over the children of one box -/
structure Walk where
  prev : Option VTree       -- last child that does not collapse through
  pending : List Rat        -- margins of the collapsing-through children seen since
  nested : Bool             -- one of those has children of its own (classification only)
  viols : List Viol

def ratStr (q : Rat) : String :=
  if q.den = 1 then toString q.num else toString q.num ++ "/" ++ toString q.den

def expectEq (rule : String) (idx : Nat) (got want : Rat) (what : String) : List Viol :=
  if got = want then [] else [{ rule := rule, index := idx, detail := what ++ ": got " ++ ratStr got ++ ", CSS 2.1 gives " ++ ratStr want }]

def flags (a b : Bool) : String :=
  (if a then ":leading-through" else "") ++ (if b then ":nested-through" else "")

/-- sibling / parent–first-child rules for one child `c` of `parent` -/
def stepChild (parent : VBox) (w : Walk) (c : VTree) : Walk :=
  match thru c with
  | some ms => { w with pending := w.pending ++ ms, nested := w.nested || !c.kids.isEmpty }
  | none =>
    let v :=
      match w.prev with
      | none =>
        if parent.topBarrier then
          -- first in-flow content below the parent's padding/border: separated from the content edge
          -- by the collapse of everything adjoining the child's top margin
          expectEq ("first-child-top" ++ flags (topThru c) w.nested) c.v.idx c.v.top
            (parent.contentTop + collapseSpec (w.pending ++ topGroup c))
            "top border edge of the first in-flow child below its parent's top padding/border"
        else
          -- parent/first-child margins are adjoining: the two top border edges coincide
          expectEq ("parent-first-child" ++ flags (!w.pending.isEmpty || topThru c) w.nested) c.v.idx c.v.top parent.top
            "top border edge of a box whose top margin collapses with its parent's (must coincide with the parent's top border edge)"
      | some p =>
        expectEq ("sibling-gap" ++ flags (topThru c) w.nested) c.v.idx c.v.top
          (p.v.bottom + collapseSpec (botGroup p ++ w.pending ++ topGroup c))
          "top border edge of a box after its previous in-flow sibling (bottom border edge + collapsed adjoining margins)"
    { prev := some c, pending := [], nested := false, viols := w.viols ++ v }

/-- the auto-height rule of §10.6.3 (+ §10.7 min/max) for one box, after the walk over its children -/
def heightCheck (v : VBox) (selfThru : Bool) (w : Walk) : List Viol :=
  match v.height with
  | .val hv => expectEq "fixed-height" v.idx v.h (clampH hv v.minH v.maxH) "used height of a box with a computed height"
  | .auto =>
    let contentBottom : Rat :=
      match w.prev with
      | some p =>
        -- bottom border edge of the last in-flow child; its bottom margin is added only when it
        -- does not collapse with the box's own bottom margin
        p.v.bottom + (if v.botBarrier then collapseSpec (botGroup p ++ w.pending) else 0)
      | none =>
        -- text: the content is the stack of its line boxes
        if v.lines != 0 then v.contentTop + (v.lines : Rat) * v.lineH
        -- no in-flow child with a height: margins that collapse through only count between two barriers
        else if v.topBarrier && v.botBarrier then v.contentTop + collapseSpec w.pending else v.contentTop
    expectEq ("auto-height" ++ flags (w.prev.isNone && !w.pending.isEmpty && !v.topBarrier) w.nested ++ (if selfThru then ":collapsed-through-box" else "")) v.idx v.h (clampH (contentBottom - v.contentTop) v.minH v.maxH)
      "used height of an auto-height box (must end at the bottom border edge of its last in-flow child)"

def walkChildren (parent : VBox) (w : Walk) : List VTree → Walk
  | [] => w
  | c :: cs => walkChildren parent (stepChild parent w c) cs

def Walk.start : Walk := { prev := none, pending := [], nested := false, viols := [] }

mutual
  /-- all stacking rules in the subtree -/
  def stackViols : VTree → List Viol
    | .mk v cs =>
      (let w := walkChildren v Walk.start cs
       w.viols ++ heightCheck v (thru (.mk v cs)).isSome w) ++ stackViolsList cs
  def stackViolsList : List VTree → List Viol
    | [] => []
    | c :: cs => stackViols c ++ stackViolsList cs
end

mutual
  /-- some box of the tree is in the contradictory configuration -/
  def ambiguous : VTree → Bool
    | .mk v cs => ambiguousHere (.mk v cs) || ambiguousList cs
  def ambiguousList : List VTree → Bool
    | [] => false
    | c :: cs => ambiguous c || ambiguousList cs
end

/-- `StackOK`: the decidable statement "this laid-out tree (root element at the top of the page
    content area, y = 0) is stacked as CSS 2.1 prescribes" -/
def StackOK (t : VTree) : Prop := stackViols t = [] ∧ t.v.top = t.v.mt

instance (t : VTree) : Decidable (StackOK t) := by unfold StackOK; infer_instance

/-! ### the judged tree of a MODEL layout (what the theorems are stated on) -/

mutual
  /-- vertical facts of the model's layout `t` of the resolved box `R` -/
  def vtree : RBox → LTree → VTree
    | .mk r cs, .mk b ks =>
      .mk { idx := 0, top := b.y + b.mt, mt := b.mt, mb := b.mb, bt := b.bt, pt := b.pt, pb := b.pb, bb := b.bb,
            h := b.h, height := r.height, minH := r.minH, maxH := r.maxH, isRoot := r.isRoot,
            lines := r.lines, lineH := r.lineH } (vtreeList cs ks)
  def vtreeList : List RBox → List LTree → List VTree
    | c :: cs, k :: ks => vtree c k :: vtreeList cs ks
    | _, _ => []
end

mutual
  /-- no box of the tree collapses through: every box without children fails the code's own
      `collapsingThrough` test (it has a height, a min-height, a border or a padding) or contains
      text; text only in boxes without block children -/
  def solid : RBox → Bool
    | .mk r cs => (!cs.isEmpty || r.lines != 0 || !r.emptyThrough) && (cs.isEmpty || r.lines == 0) && solidList cs
  def solidList : List RBox → Bool
    | [] => true
    | c :: cs => solid c && solidList cs
end

/-! ### horizontal judge and assembly of the judged tree from the implementation's numbers -/

/-- the horizontal statement for one box in a containing block of width `cbW`:
    percentages resolve against the containing block, the seven used values add up to its width and
    are the ones §10.3.3/§10.4 give. -/
def hViols (idx : Nat) (cbW : Rat) (cbH : MF) (s : Style) (b : LBox) : List Viol :=
  let u := specResolve cbW cbH s
  let pbs := u.pl + u.pr + u.bl + u.br
  let arg := cssWidthArg cbW pbs u.minW u.maxW u.ml u.mr u.width
  let want := css1033 cbW pbs u.ml u.mr arg
  let oc := if overConstrained cbW pbs u.ml u.mr arg then ":overconstrained" else ""
  expectEq "padding-left" idx b.pl u.pl "padding-left" ++
  expectEq "padding-right" idx b.pr u.pr "padding-right" ++
  expectEq "padding-top" idx b.pt u.pt "padding-top" ++
  expectEq "padding-bottom" idx b.pb u.pb "padding-bottom" ++
  expectEq "border" idx b.bl u.bl "border-left" ++ expectEq "border" idx b.br u.br "border-right" ++
  expectEq "border" idx b.bt u.bt "border-top" ++ expectEq "border" idx b.bb u.bb "border-bottom" ++
  expectEq "margin-top" idx b.mt u.mt.V "margin-top" ++
  expectEq "margin-bottom" idx b.mb u.mb.V "margin-bottom" ++
  expectEq ("width-equation" ++ oc) idx (b.ml + b.bl + b.pl + b.w + b.pr + b.br + b.mr) cbW
    "margin-left + border-left + padding-left + width + padding-right + border-right + margin-right vs containing-block width" ++
  expectEq "width" idx b.w want.w "used width (10.3.3 + 10.4)" ++
  expectEq "margin-left" idx b.ml want.ml "used margin-left (10.3.3)" ++
  expectEq ("margin-right" ++ oc) idx b.mr want.mr "used margin-right (10.3.3)"

/-- x position: a block box's margin box starts at its containing block's content edge (ltr) -/
def xViol (idx : Nat) (parentContentX : Rat) (b : LBox) : List Viol :=
  expectEq "position-x" idx b.x parentContentX "PositionX (left margin edge = content edge of the containing block)"

structure JOut where
  tree : VTree
  viols : List Viol
  rest : List LBox
  next : Nat

mutual
  /-- zips the style tree with the preorder list of implementation boxes; `none` = shape mismatch -/
  def judgeBox (cbW : Rat) (cbH : MF) (px : Rat) (isRoot : Bool) (idx : Nat) : Box → List LBox → Option JOut
    | .mk _ _, [] => none
    | .mk s cs, b :: rest =>
      let u := specResolve cbW cbH s
      let hv := hViols idx cbW cbH s b ++ xViol idx px b
      match judgeList b.w u.height (b.x + b.ml + b.bl + b.pl) (idx + 1) cs rest with
      | none => none
      | some (kids, kv, rest', next) =>
        let v : VBox := { idx := idx, top := b.y + b.mt, mt := b.mt, mb := b.mb, bt := b.bt, pt := b.pt, pb := b.pb, bb := b.bb,
                          h := b.h, height := u.height, minH := u.minH, maxH := u.maxH, isRoot := isRoot,
                          lines := s.lines, lineH := s.lineH }
        some { tree := .mk v kids, viols := hv ++ kv, rest := rest', next := next }
  def judgeList (cbW : Rat) (cbH : MF) (px : Rat) (idx : Nat) : List Box → List LBox → Option (List VTree × List Viol × List LBox × Nat)
    | [], rest => some ([], [], rest, idx)
    | c :: cs, rest =>
      match judgeBox cbW cbH px false idx c rest with
      | none => none
      | some o =>
        match judgeList cbW cbH px o.next cs o.rest with
        | none => none
        | some (ks, kv, r, n) => some (o.tree :: ks, o.viols ++ kv, r, n)
end

/-- judge of a whole document on implementation numbers; `none` = the list does not have the tree's shape -/
def judgeDoc (pageW pageH : Rat) (root : Box) (impl : List LBox) : Option (List Viol) :=
  match judgeBox pageW (.val pageH) 0 true 0 root impl with
  | some o =>
    if o.rest.isEmpty then
      some (o.viols ++
        (if ambiguous o.tree then [{ rule := "skipped-ambiguous", index := 0, detail := "" }]
         else stackViols o.tree ++
          expectEq "root-top" 0 o.tree.v.top o.tree.v.mt "top border edge of the root element (page content top + margin-top)"))
    else none
  | none => none

end WR.C10
