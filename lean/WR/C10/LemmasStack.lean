/-
  C10 — the stacking theorem for trees without collapsing-through boxes: the model's vertical pass
  satisfies every statement of `stackViols` (CSS 2.1 §8.3.1, §10.6.3).
-/
import WR.C10.Lemmas
namespace WR.C10

theorem collapseSpec_nil : collapseSpec [] = 0 := by
  simp only [collapseSpec, maxPos, minNeg, List.foldl_nil]; grind

theorem collapseMargin_nil : collapseMargin [] = 0 := by
  rw [collapseMargin_eq_spec, collapseSpec_nil]

theorem collapseMargin_single (m : Rat) : collapseMargin [m] = m := by
  simp only [collapseMargin, List.foldl_cons, List.foldl_nil, collapseStep]
  split
  · grind
  · split <;> grind

theorem expectEq_refl (rule : String) (idx : Nat) (a : Rat) (what : String) : expectEq rule idx a a what = [] := by
  simp [expectEq]

theorem expectEq_of_eq {rule : String} {idx : Nat} {a b : Rat} {what : String} (h : a = b) :
    expectEq rule idx a b what = [] := by
  subst h; exact expectEq_refl _ _ _ _

theorem vtree_v_mb (R : RBox) (t : LTree) : (vtree R t).v.mb = t.box.mb := by
  cases R; cases t; simp [vtree, VTree.v, LTree.box]

theorem vtree_v_bottom (R : RBox) (t : LTree) : (vtree R t).v.bottom = t.box.borderBottom := by
  cases R; cases t
  simp only [vtree, VTree.v, LTree.box, VBox.bottom, LBox.borderBottom]
  grind


/-- what the induction carries for one box -/
def Inv (y0 : Rat) (adjIn : List Rat) (R : RBox) : Prop :=
  (vbox y0 adjIn R).through = false ∧
  thru (vtree R (vbox y0 adjIn R).tree) = none ∧
  (vbox y0 adjIn R).pOut = adjIn ++ topGroup (vtree R (vbox y0 adjIn R).tree) ∧
  (vtree R (vbox y0 adjIn R).tree).v.top = y0 + collapseMargin (adjIn ++ topGroup (vtree R (vbox y0 adjIn R).tree)) ∧
  (vbox y0 adjIn R).adj ++ [(vtree R (vbox y0 adjIn R).tree).v.mb] = botGroup (vtree R (vbox y0 adjIn R).tree) ∧
  stackViols (vtree R (vbox y0 adjIn R).tree) = []

/-- … and for the children after the first one -/
def InvList (cs : List RBox) : Prop :=
  ∀ (parent : VBox) (st : VLoop) (prevT : VTree),
    st.aliased = false → st.y = prevT.v.bottom → st.adj = botGroup prevT → thru prevT = none →
    (walkChildren parent { prev := some prevT, pending := [], nested := false, viols := [] }
        (vtreeList cs (vlist st cs).2)).viols = [] ∧
    (walkChildren parent { prev := some prevT, pending := [], nested := false, viols := [] }
        (vtreeList cs (vlist st cs).2)).pending = [] ∧
    (vlist st cs).1.p = st.p ∧
    stackViolsList (vtreeList cs (vlist st cs).2) = [] ∧
    ∃ lastT, (walkChildren parent { prev := some prevT, pending := [], nested := false, viols := [] }
        (vtreeList cs (vlist st cs).2)).prev = some lastT ∧
      (vlist st cs).1.y = lastT.v.bottom ∧ (vlist st cs).1.adj = botGroup lastT ∧
      botList (prevT :: vtreeList cs (vlist st cs).2) = botGroup lastT ∧
      thruList (prevT :: vtreeList cs (vlist st cs).2) = none

theorem invList_nil : InvList [] := by
  intro parent st prevT _ hy hadj hthru
  simp only [vlist, vtreeList, walkChildren, stackViolsList, true_and]
  refine ⟨prevT, rfl, hy, hadj, ?_, ?_⟩
  · simp [botList, thruList, hthru]
  · simp [thruList, hthru]

theorem invList_cons (c : RBox) (cs : List RBox) (hc : ∀ y0 adjIn, Inv y0 adjIn c) (hcs : InvList cs) :
    InvList (c :: cs) := by
  intro parent st prevT hal hy hadj hthru
  obtain ⟨h1, h2, _, h4, h5, h6⟩ := hc st.y st.adj
  -- name the pieces
  generalize hr : vbox st.y st.adj c = r at *
  have hT : vtree c r.tree = vtree c r.tree := rfl
  generalize hTc : vtree c r.tree = Tc at *
  have hst1 := hcs parent
    { y := r.tree.box.borderBottom, adj := r.adj ++ [r.tree.box.mb], aliased := false, p := st.p } Tc rfl
    (by rw [← hTc, vtree_v_bottom]) (by rw [← h5, ← hTc, vtree_v_mb]) h2
  have hstep : stepChild parent { prev := some prevT, pending := [], nested := false, viols := [] } Tc =
      { prev := some Tc, pending := [], nested := false, viols := [] } := by
    simp only [stepChild, h2]
    have : Tc.v.top = prevT.v.bottom + collapseSpec (botGroup prevT ++ [] ++ topGroup Tc) := by
      rw [h4, hy, hadj, collapseMargin_eq_spec, List.append_nil]
    rw [expectEq_of_eq this]
    rfl
  have hvl : vlist st (c :: cs) =
      ((vlist { y := r.tree.box.borderBottom, adj := r.adj ++ [r.tree.box.mb], aliased := false, p := st.p } cs).1,
       r.tree :: (vlist { y := r.tree.box.borderBottom, adj := r.adj ++ [r.tree.box.mb], aliased := false, p := st.p } cs).2) := by
    rw [vlist]
    simp only [hr, h1, hal]
    rfl
  rw [hvl]
  simp only [vtreeList, hTc, walkChildren, hstep, stackViolsList, h6, List.nil_append]
  obtain ⟨a1, a2, a3, a4, lastT, b1, b2, b3, b4, b5⟩ := hst1
  refine ⟨a1, a2, a3, a4, lastT, b1, b2, b3, ?_, ?_⟩
  · simp only [botList, b5]; exact b4
  · simp only [thruList, hthru]

theorem cwc_true {r : RStyle} (h : r.cwc = true) : r.bt = 0 ∧ r.pt = 0 ∧ r.isRoot = false := by
  simp [RStyle.cwc] at h
  exact ⟨h.1.1, h.1.2, h.2⟩

/-- the VBox `vtree` builds for a finished box -/
def finV (r : RStyle) (F : VRes) : VBox :=
  { idx := 0, top := F.tree.box.y + F.tree.box.mt, mt := F.tree.box.mt, mb := F.tree.box.mb, bt := F.tree.box.bt,
    pt := F.tree.box.pt, pb := F.tree.box.pb, bb := F.tree.box.bb, h := F.tree.box.h, height := r.height,
    minH := r.minH, maxH := r.maxH, isRoot := r.isRoot, lines := r.lines, lineH := r.lineH }

theorem vtree_finish (r : RStyle) (cs : List RBox) (y0 : Rat) (adjIn : List Rat) (leaf : Bool) (l : VLoop) (kids : List LTree) :
    vtree (.mk r cs) (vFinish r y0 adjIn leaf l kids).tree =
      .mk (finV r (vFinish r y0 adjIn leaf l kids)) (vtreeList cs kids) := by
  simp [vFinish, vtree, finV, LTree.box]

theorem finV_topBarrier (r : RStyle) (y0 : Rat) (adjIn : List Rat) (leaf : Bool) (l : VLoop) (kids : List LTree) :
    (finV r (vFinish r y0 adjIn leaf l kids)).topBarrier = !r.cwc := by
  simp [finV, vFinish, VBox.topBarrier, RStyle.cwc, LTree.box]

theorem finV_top (r : RStyle) (y0 : Rat) (adjIn : List Rat) (leaf : Bool) (l : VLoop) (kids : List LTree) :
    (finV r (vFinish r y0 adjIn leaf l kids)).top =
      if r.cwc then y0 + collapseMargin l.p else y0 + collapseMargin (adjIn ++ [r.mt]) := by
  simp only [finV, vFinish, LTree.box]
  split <;> grind


theorem ne_auto_eq (h : MF) : (h != MF.auto) = !h.isAuto := by cases h <;> rfl
theorem beq_auto_eq (h : MF) : (h == MF.auto) = h.isAuto := by cases h <;> rfl

theorem finV_botBarrier (r : RStyle) (y0 : Rat) (adjIn : List Rat) (leaf : Bool) (l : VLoop) (kids : List LTree) :
    (finV r (vFinish r y0 adjIn leaf l kids)).botBarrier = (r.bb != 0 || r.pb != 0 || r.isRoot) := by
  simp [finV, vFinish, VBox.botBarrier, LTree.box]

/-- loop state after a child that did not collapse through -/
def nextSt (st : VLoop) (rc : VRes) : VLoop :=
  { y := rc.tree.box.borderBottom, adj := rc.adj ++ [rc.tree.box.mb], aliased := false,
    p := if st.aliased then rc.pOut else st.p }

theorem inv_node (r : RStyle) (c : RBox) (cs : List RBox) (hl0 : r.lines = 0) (hc : ∀ y0 adjIn, Inv y0 adjIn c) (hcs : InvList cs) :
    ∀ y0 adjIn, Inv y0 adjIn (.mk r (c :: cs)) := by
  intro y0 adjIn
  unfold Inv
  have hv : vbox y0 adjIn (.mk r (c :: cs)) =
      vFinish r y0 adjIn false (vlist (vStart r y0 adjIn) (c :: cs)).1 (vlist (vStart r y0 adjIn) (c :: cs)).2 := by
    rw [vbox]; simp [hl0]
  rw [hv, vtree_finish]
  obtain ⟨h1, h2, h3, h4, h5, h6⟩ := hc (vStart r y0 adjIn).y (vStart r y0 adjIn).adj
  generalize hr : vbox (vStart r y0 adjIn).y (vStart r y0 adjIn).adj c = rc at *
  generalize hTc : vtree c rc.tree = Tc at *
  have hvl : vlist (vStart r y0 adjIn) (c :: cs) =
      ((vlist (nextSt (vStart r y0 adjIn) rc) cs).1,
       rc.tree :: (vlist (nextSt (vStart r y0 adjIn) rc) cs).2) := by
    rw [vlist]
    simp only [hr, h1]
    rfl
  rw [hvl]
  generalize hst1 : nextSt (vStart r y0 adjIn) rc = st1 at *
  have hst1y : st1.y = Tc.v.bottom := by rw [← hst1, ← hTc, vtree_v_bottom]; rfl
  have hst1a : st1.adj = botGroup Tc := by rw [← hst1, ← h5, ← hTc, vtree_v_mb]; rfl
  have hst1al : st1.aliased = false := by rw [← hst1]; rfl
  have hst1p : st1.p = if (vStart r y0 adjIn).aliased then rc.pOut else (vStart r y0 adjIn).p := by rw [← hst1]; rfl
  generalize hl : vlist st1 cs = lk at *
  simp only [vtreeList, hTc]
  generalize hV : finV r (vFinish r y0 adjIn false lk.1 (rc.tree :: lk.2)) = V at *
  obtain ⟨a1, a2, a3, a4, lastT, b1, b2, b3, b4, b5⟩ := hcs V st1 Tc hst1al hst1y hst1a h2
  rw [hl] at a1 a2 a3 a4 b1 b2 b3 b4 b5
  generalize hTs : vtreeList cs lk.2 = Ts at *
  -- p of the finished loop
  have hp : lk.1.p = adjIn ++ (r.mt :: if r.cwc then topGroup Tc else []) := by
    rw [a3, hst1p]
    by_cases hcwc : r.cwc = true
    · simp only [vStart, hcwc, if_true] at h3 ⊢
      rw [h3]; simp
    · have hcwc' : r.cwc = false := by simpa using hcwc
      simp [vStart, hcwc']
  have hVtb : V.topBarrier = !r.cwc := by rw [← hV]; exact finV_topBarrier _ _ _ _ _ _
  have hVbb : V.botBarrier = (r.bb != 0 || r.pb != 0 || r.isRoot) := by rw [← hV]; exact finV_botBarrier _ _ _ _ _ _
  have hVmt : V.mt = r.mt := by rw [← hV]; simp [finV, vFinish, LTree.box]
  have hVmb : V.mb = r.mb := by rw [← hV]; simp [finV, vFinish, LTree.box]
  have hVh : V.height = r.height := by rw [← hV]; rfl
  have hVl : V.lines = 0 := by rw [← hV]; exact hl0
  have hVtop : V.top = if r.cwc then y0 + collapseMargin lk.1.p else y0 + collapseMargin (adjIn ++ [r.mt]) := by
    rw [← hV]; exact finV_top _ _ _ _ _ _
  have htg : topGroup (.mk V (Tc :: Ts)) = r.mt :: if r.cwc then topGroup Tc else [] := by
    simp only [topGroup, topList, h2, hVtb, hVmt, hVl]
    cases r.cwc <;> simp
  refine ⟨?_, ?_, ?_, ?_, ?_, ?_⟩
  · simp only [vFinish, Bool.false_eq_true, if_false]; split <;> rfl
  · simp only [thru, b5]
    split
    · rfl
    · split <;> rfl
  · show lk.1.p = _
    rw [hp, htg]
  · show V.top = _
    rw [htg, hVtop]
    by_cases hcwc : r.cwc = true
    · simp only [hcwc, if_true, hp]
    · have hcwc' : r.cwc = false := by simpa using hcwc
      simp only [hcwc', if_false]
      simp
  · simp only [botGroup, b4, hVbb, hVh, ne_auto_eq, hVmb, VTree.v, hVl]
    simp only [vFinish, b3]
    cases (r.bb != 0 || r.pb != 0 || r.isRoot) <;> cases r.height.isAuto <;> simp
  · have hVbt : V.bt = r.bt := by rw [← hV]; simp [finV, vFinish, LTree.box]
    have hVpt : V.pt = r.pt := by rw [← hV]; simp [finV, vFinish, LTree.box]
    have hVminH : V.minH = r.minH := by rw [← hV]; rfl
    have hVmaxH : V.maxH = r.maxH := by rw [← hV]; rfl
    have hstep : stepChild V Walk.start Tc = { prev := some Tc, pending := [], nested := false, viols := [] } := by
      simp only [stepChild, h2, Walk.start, hVtb]
      by_cases hcwc : r.cwc = true
      · have e : Tc.v.top = V.top := by
          rw [h4, hVtop, hp]
          simp [vStart, hcwc]
        simp only [hcwc, Bool.not_true, Bool.false_eq_true, if_false]
        rw [expectEq_of_eq e]; rfl
      · have hcwc' : r.cwc = false := by simpa using hcwc
        have e : Tc.v.top = V.contentTop + collapseSpec ([] ++ topGroup Tc) := by
          rw [h4, VBox.contentTop, hVtop, hVbt, hVpt, ← collapseMargin_eq_spec]
          simp only [vStart, hcwc', Bool.false_eq_true, if_false, List.nil_append]
          grind
        simp only [hcwc', Bool.not_false, if_true]
        rw [expectEq_of_eq e]; rfl
    have hVhh : V.h = clampH (match r.height with
        | .auto => (if (r.bb != 0 || r.pb != 0 || r.isRoot) = true then lk.1.y + collapseMargin lk.1.adj else lk.1.y)
                    - (V.top + r.pt + r.bt)
        | .val v => v) r.minH r.maxH := by
      rw [← hV]
      simp only [finV, vFinish, LTree.box, Bool.false_eq_true, if_false]
      cases hh : r.height with
      | val v => simp
      | auto =>
        simp only [MF.isAuto, if_true]
        congr 1
        split <;> grind
    simp only [stackViols, stackViolsList, h6, a4, walkChildren, hstep, a1, List.append_nil, List.nil_append]
    simp only [heightCheck, hVh, b1, a2, hVbb, hVminH, hVmaxH]
    cases hh : r.height with
    | val v =>
      simp only [hh] at hVhh
      exact expectEq_of_eq hVhh
    | auto =>
      simp only [hh] at hVhh
      apply expectEq_of_eq
      rw [hVhh, ← b2, ← b3, VBox.contentTop, hVbt, hVpt, ← collapseMargin_eq_spec, List.append_nil]
      congr 1
      split <;> grind


theorem inv_leaf (r : RStyle) (hl0 : r.lines = 0) (hs : r.emptyThrough = false) : ∀ y0 adjIn, Inv y0 adjIn (.mk r []) := by
  intro y0 adjIn
  unfold Inv
  have hv : vbox y0 adjIn (.mk r []) = vFinish r y0 adjIn true (vStart r y0 adjIn) [] := by
    rw [vbox]; simp [hl0, vlist]
  rw [hv, vtree_finish]
  simp only [vtreeList]
  generalize hV : finV r (vFinish r y0 adjIn true (vStart r y0 adjIn) []) = V
  have hVtb : V.topBarrier = !r.cwc := by rw [← hV]; exact finV_topBarrier _ _ _ _ _ _
  have hVbb : V.botBarrier = (r.bb != 0 || r.pb != 0 || r.isRoot) := by rw [← hV]; exact finV_botBarrier _ _ _ _ _ _
  have hVmt : V.mt = r.mt := by rw [← hV]; simp [finV, vFinish, LTree.box]
  have hVmb : V.mb = r.mb := by rw [← hV]; simp [finV, vFinish, LTree.box]
  have hVh : V.height = r.height := by rw [← hV]; rfl
  have hVbt : V.bt = r.bt := by rw [← hV]; simp [finV, vFinish, LTree.box]
  have hVpt : V.pt = r.pt := by rw [← hV]; simp [finV, vFinish, LTree.box]
  have hVminH : V.minH = r.minH := by rw [← hV]; rfl
  have hVmaxH : V.maxH = r.maxH := by rw [← hV]; rfl
  have hVl : V.lines = 0 := by rw [← hV]; exact hl0
  have hVtop : V.top = y0 + collapseMargin (adjIn ++ [r.mt]) := by
    rw [← hV, finV_top]
    by_cases hcwc : r.cwc = true <;> simp [vStart, hcwc]
  have hp : (vStart r y0 adjIn).p = adjIn ++ [r.mt] := by simp only [vStart]; split <;> rfl
  have hthru : thru (.mk V []) = none := by
    simp only [thru, hVtb, hVbb, hVminH, hVh, hVl]
    simp only [RStyle.emptyThrough, RStyle.cwc] at hs ⊢
    by_cases h1 : r.bt = 0 <;> by_cases h2 : r.pt = 0 <;> by_cases h4 : r.bb = 0 <;> by_cases h5 : r.pb = 0 <;>
      by_cases h6 : r.minH = 0 <;> simp_all
  have htg : topGroup (.mk V []) = [r.mt] := by
    simp only [topGroup, topList, hVmt, hVl]; split <;> rfl
  refine ⟨?_, hthru, ?_, ?_, ?_, ?_⟩
  · simp [vFinish, hs]
  · show (vStart r y0 adjIn).p = _
    rw [hp, htg]
  · show V.top = _
    rw [htg, hVtop]
  · simp only [botGroup, botList, VTree.v, hVmb, hVl]
    simp only [vFinish, hs]
    simp
    split <;> rfl
  · have hVhh : V.h = clampH (match r.height with
        | .auto => 0
        | .val v => v) r.minH r.maxH := by
      rw [← hV]
      simp only [finV, vFinish, LTree.box, hs, Bool.false_eq_true, if_false, if_true]
      cases hh : r.height with
      | val v => simp
      | auto =>
        simp only
        congr 1
        by_cases hcwc : r.cwc = true
        · obtain ⟨hbt, hpt, _⟩ := cwc_true hcwc
          simp only [vStart, hcwc, if_true, collapseMargin_nil, hbt, hpt]
          split <;> grind
        · have hcwc' : r.cwc = false := by simpa using hcwc
          simp only [vStart, hcwc', Bool.false_eq_true, if_false, collapseMargin_nil]
          split <;> grind
    simp only [stackViols, stackViolsList, walkChildren, Walk.start, List.append_nil, List.nil_append]
    simp only [heightCheck, hVh, hVminH, hVmaxH, hVl]
    cases hh : r.height with
    | val v =>
      simp only [hh] at hVhh
      exact expectEq_of_eq hVhh
    | auto =>
      simp only [hh] at hVhh
      apply expectEq_of_eq
      rw [hVhh]
      congr 1
      simp only [collapseSpec_nil, bne_self_eq_false, Bool.false_eq_true, if_false]
      split <;> grind


theorem inv_text (r : RStyle) (hl : ¬ r.lines = 0) : ∀ y0 adjIn, Inv y0 adjIn (.mk r []) := by
  intro y0 adjIn
  unfold Inv
  have hv : vbox y0 adjIn (.mk r []) = vFinish r y0 adjIn false (vText r (vStart r y0 adjIn)) [] := by
    have hb : (r.lines == 0) = false := by simpa using hl
    rw [vbox]; simp [hl, hb]
  rw [hv, vtree_finish]
  simp only [vtreeList]
  generalize hV : finV r (vFinish r y0 adjIn false (vText r (vStart r y0 adjIn)) []) = V
  have hVmt : V.mt = r.mt := by rw [← hV]; simp [finV, vFinish, LTree.box]
  have hVmb : V.mb = r.mb := by rw [← hV]; simp [finV, vFinish, LTree.box]
  have hVh : V.height = r.height := by rw [← hV]; rfl
  have hVbt : V.bt = r.bt := by rw [← hV]; simp [finV, vFinish, LTree.box]
  have hVpt : V.pt = r.pt := by rw [← hV]; simp [finV, vFinish, LTree.box]
  have hVminH : V.minH = r.minH := by rw [← hV]; rfl
  have hVmaxH : V.maxH = r.maxH := by rw [← hV]; rfl
  have hVl : V.lines = r.lines := by rw [← hV]; rfl
  have hVlh : V.lineH = r.lineH := by rw [← hV]; rfl
  have hVl' : (V.lines != 0) = true := by rw [hVl]; simpa using hl
  have hp : (vStart r y0 adjIn).p = adjIn ++ [r.mt] := by simp only [vStart]; split <;> rfl
  have hVtop : V.top = y0 + collapseMargin (adjIn ++ [r.mt]) := by
    rw [← hV, finV_top]
    by_cases hcwc : r.cwc = true <;> simp [vStart, vText, hcwc]
  have hthru : thru (.mk V []) = none := by
    simp only [thru, hVl', Bool.or_true, if_true]
  have htg : topGroup (.mk V []) = [r.mt] := by
    simp only [topGroup, hVmt, hVl', Bool.or_true, if_true]
  refine ⟨?_, hthru, ?_, ?_, ?_, ?_⟩
  · simp only [vFinish, Bool.false_eq_true, if_false]; split <;> rfl
  · show (vText r (vStart r y0 adjIn)).p = _
    rw [htg]; exact hp
  · show V.top = _
    rw [htg, hVtop]
  · simp only [botGroup, VTree.v, hVmb, hVl', Bool.or_true, if_true, List.nil_append]
    simp only [vFinish, vText, Bool.false_eq_true, if_false]
    cases r.height.isAuto <;> cases (r.bb != 0 || r.pb != 0 || r.isRoot) <;> simp
  · have hVhh : V.h = clampH (match r.height with
        | .auto => (r.lines : Rat) * r.lineH
        | .val v => v) r.minH r.maxH := by
      rw [← hV]
      simp only [finV, vFinish, LTree.box, Bool.false_eq_true, if_false]
      cases hh : r.height with
      | val v => simp
      | auto =>
        simp only [MF.isAuto, if_true, vText]
        congr 1
        by_cases hcwc : r.cwc = true
        · obtain ⟨hbt, hpt, _⟩ := cwc_true hcwc
          simp only [vStart, hcwc, if_true, collapseMargin_nil, hbt, hpt]
          split <;> grind
        · have hcwc' : r.cwc = false := by simpa using hcwc
          simp only [vStart, hcwc', Bool.false_eq_true, if_false, collapseMargin_nil]
          split <;> grind
    simp only [stackViols, stackViolsList, walkChildren, Walk.start, List.append_nil, List.nil_append]
    simp only [heightCheck, hVh, hVminH, hVmaxH]
    cases hh : r.height with
    | val v =>
      simp only [hh] at hVhh
      exact expectEq_of_eq hVhh
    | auto =>
      simp only [hh] at hVhh
      apply expectEq_of_eq
      rw [hVhh]
      congr 1
      simp only [hVl', if_true, hVl, hVlh]
      grind

mutual
  theorem inv_solid : (R : RBox) → solid R = true → ∀ y0 adjIn, Inv y0 adjIn R
    | .mk r [], h =>
      if hl0 : r.lines = 0 then inv_leaf r hl0 (by simpa [solid, solidList, hl0] using h)
      else inv_text r hl0
    | .mk r (c :: cs), h =>
      have h' : r.lines = 0 ∧ solid c = true ∧ solidList cs = true := by simpa [solid, solidList] using h
      inv_node r c cs h'.1 (inv_solid c h'.2.1) (invList_solid cs h'.2.2)
  theorem invList_solid : (cs : List RBox) → solidList cs = true → InvList cs
    | [], _ => invList_nil
    | c :: cs, h =>
      have h' : solid c = true ∧ solidList cs = true := by simpa [solidList] using h
      invList_cons c cs (inv_solid c h'.1) (invList_solid cs h'.2)
end



theorem vbox_eq (r : RStyle) (cs : List RBox) (y0 : Rat) (adjIn : List Rat) :
    vbox y0 adjIn (.mk r cs) =
      vFinish r y0 adjIn (cs.isEmpty && r.lines == 0)
        (if r.lines = 0 then vlist (vStart r y0 adjIn) cs else (vText r (vStart r y0 adjIn), [])).1
        (if r.lines = 0 then vlist (vStart r y0 adjIn) cs else (vText r (vStart r y0 adjIn), [])).2 := by
  rw [vbox]

/-- root element: its top border edge is its own margin-top below the page content top -/
theorem root_top (r : RStyle) (cs : List RBox) (hroot : r.isRoot = true) (hs : solid (.mk r cs) = true) :
    (vtree (.mk r cs) (vbox 0 [] (.mk r cs)).tree).v.top = (vtree (.mk r cs) (vbox 0 [] (.mk r cs)).tree).v.mt := by
  have h4 := (inv_solid (.mk r cs) hs 0 []).2.2.2.1
  rw [h4]
  rw [vbox_eq, vtree_finish]
  have hcwc : r.cwc = false := by simp [RStyle.cwc, hroot]
  simp only [topGroup, finV_topBarrier, hcwc, Bool.not_false, Bool.true_or, if_true, List.nil_append, collapseMargin_single, VTree.v]
  grind

end WR.C10
