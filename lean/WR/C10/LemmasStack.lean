/-
  C10 — the stacking theorem for trees without collapsing-through boxes: the model's vertical pass
  satisfies every statement of `stackViols` (CSS 2.1 §8.3.1, §10.6.3).
-/
import WR.C10.Lemmas
namespace WR.C10

theorem collapseSpec_nil : collapseSpec [] = 0 := by
  simp only [collapseSpec, maxPos, minNeg, List.foldl_nil]; grind

theorem collapseMargin_nil : collapseMargin [] = 0 := by
  rw [collapseMargin_eq_spec, collapseSpec_nil]

theorem collapseMargin_single (m : Rat) : collapseMargin [m] = m := by
  simp only [collapseMargin, List.foldl_cons, List.foldl_nil, collapseStep]
  split
  · grind
  · split <;> grind

theorem expectEq_refl (rule : String) (idx : Nat) (a : Rat) (what : String) : expectEq rule idx a a what = [] := by
  simp [expectEq]

theorem expectEq_of_eq {rule : String} {idx : Nat} {a b : Rat} {what : String} (h : a = b) :
    expectEq rule idx a b what = [] := by
  subst h; exact expectEq_refl _ _ _ _

theorem vtree_v_mb (R : RBox) (t : LTree) : (vtree R t).v.mb = t.box.mb := by
  cases R; cases t; simp [vtree, VTree.v, LTree.box]

theorem vtree_v_bottom (R : RBox) (t : LTree) : (vtree R t).v.bottom = t.box.borderBottom := by
  cases R; cases t
  simp only [vtree, VTree.v, LTree.box, VBox.bottom, LBox.borderBottom]
  grind


/-- what the induction carries for one box -/
def Inv (y0 : Rat) (adjIn : List Rat) (R : RBox) : Prop :=
  (vbox y0 adjIn R).through = false ∧
  thru (vtree R (vbox y0 adjIn R).tree) = none ∧
  (vbox y0 adjIn R).pOut = adjIn ++ topGroup (vtree R (vbox y0 adjIn R).tree) ∧
  (vtree R (vbox y0 adjIn R).tree).v.top = y0 + collapseMargin (adjIn ++ topGroup (vtree R (vbox y0 adjIn R).tree)) ∧
  (vbox y0 adjIn R).adj ++ [(vtree R (vbox y0 adjIn R).tree).v.mb] = botGroup (vtree R (vbox y0 adjIn R).tree) ∧
  stackViols (vtree R (vbox y0 adjIn R).tree) = []

/-- … and for the children after the first one -/
def InvList (cs : List RBox) : Prop :=
  ∀ (parent : VBox) (st : VLoop) (prevT : VTree),
    st.aliased = false → st.y = prevT.v.bottom → st.adj = botGroup prevT → thru prevT = none →
    (walkChildren parent { prev := some prevT, pending := [], nested := false, viols := [] }
        (vtreeList cs (vlist st cs).2)).viols = [] ∧
    (walkChildren parent { prev := some prevT, pending := [], nested := false, viols := [] }
        (vtreeList cs (vlist st cs).2)).pending = [] ∧
    (vlist st cs).1.p = st.p ∧
    stackViolsList (vtreeList cs (vlist st cs).2) = [] ∧
    ∃ lastT, (walkChildren parent { prev := some prevT, pending := [], nested := false, viols := [] }
        (vtreeList cs (vlist st cs).2)).prev = some lastT ∧
      (vlist st cs).1.y = lastT.v.bottom ∧ (vlist st cs).1.adj = botGroup lastT ∧
      botList (prevT :: vtreeList cs (vlist st cs).2) = botGroup lastT ∧
      thruList (prevT :: vtreeList cs (vlist st cs).2) = none

theorem invList_nil : InvList [] := by
  intro parent st prevT _ hy hadj hthru
  simp only [vlist, vtreeList, walkChildren, stackViolsList, true_and]
  refine ⟨prevT, rfl, hy, hadj, ?_, ?_⟩
  · simp [botList, thruList, hthru]
  · simp [thruList, hthru]

theorem invList_cons (c : RBox) (cs : List RBox) (hc : ∀ y0 adjIn, Inv y0 adjIn c) (hcs : InvList cs) :
    InvList (c :: cs) := by
  intro parent st prevT hal hy hadj hthru
  obtain ⟨h1, h2, _, h4, h5, h6⟩ := hc st.y st.adj
  -- name the pieces
  generalize hr : vbox st.y st.adj c = r at *
  have hT : vtree c r.tree = vtree c r.tree := rfl
  generalize hTc : vtree c r.tree = Tc at *
  have hst1 := hcs parent
    { y := r.tree.box.borderBottom, adj := r.adj ++ [r.tree.box.mb], aliased := false, p := st.p } Tc rfl
    (by rw [← hTc, vtree_v_bottom]) (by rw [← h5, ← hTc, vtree_v_mb]) h2
  have hstep : stepChild parent { prev := some prevT, pending := [], nested := false, viols := [] } Tc =
      { prev := some Tc, pending := [], nested := false, viols := [] } := by
    simp only [stepChild, h2]
    have : Tc.v.top = prevT.v.bottom + collapseSpec (botGroup prevT ++ [] ++ topGroup Tc) := by
      rw [h4, hy, hadj, collapseMargin_eq_spec, List.append_nil]
    rw [expectEq_of_eq this]
    rfl
  have hvl : vlist st (c :: cs) =
      ((vlist { y := r.tree.box.borderBottom, adj := r.adj ++ [r.tree.box.mb], aliased := false, p := st.p } cs).1,
       r.tree :: (vlist { y := r.tree.box.borderBottom, adj := r.adj ++ [r.tree.box.mb], aliased := false, p := st.p } cs).2) := by
    rw [vlist]
    simp only [hr, h1, hal]
    rfl
  rw [hvl]
  simp only [vtreeList, hTc, walkChildren, hstep, stackViolsList, h6, List.nil_append]
  obtain ⟨a1, a2, a3, a4, lastT, b1, b2, b3, b4, b5⟩ := hst1
  refine ⟨a1, a2, a3, a4, lastT, b1, b2, b3, ?_, ?_⟩
  · simp only [botList, b5]; exact b4
  · simp only [thruList, hthru]

end WR.C10
