/-
  C16 — model of html/document/stacking.go (NewStackingContextFromBox / NewStackingContext) and of the
  step order of drawStackingContext (draw.go:209-346), on an abstract laid-out box tree.

  A box carries what the dispatch looks at: whether it is positioned, its z-index (none = auto),
  whether it is floated, whether it creates a context for another reason (opacity < 1, a transform,
  overflow ≠ visible), whether it is block-level / an inline-block, whether it has line-box children
  (inline content painted at step 7), and its children.

  Output: the list of paint events (box id, layer).  Building the StackingContext and drawing it are fused:
  a child context is represented by its z-index and the events drawing it produces.
-/
namespace WR.C16

inductive Layer where
  | background | border | content | outline
  deriving DecidableEq, Repr

abbrev PEv := Nat × Layer

inductive Box where
  | mk (id : Nat) (positioned : Bool) (z : Option Int) (floated : Bool) (ctx : Bool)
       (blockLevel : Bool) (inlineBlock : Bool) (hasLines : Bool) (children : List Box)
  deriving Repr

namespace Box
def id : Box → Nat | mk i _ _ _ _ _ _ _ _ => i
def positioned : Box → Bool | mk _ p _ _ _ _ _ _ _ => p
def z : Box → Option Int | mk _ _ z _ _ _ _ _ _ => z
def floated : Box → Bool | mk _ _ _ f _ _ _ _ _ => f
def ctx : Box → Bool | mk _ _ _ _ c _ _ _ _ => c
def blockLevel : Box → Bool | mk _ _ _ _ _ b _ _ _ => b
def inlineBlock : Box → Bool | mk _ _ _ _ _ _ i _ _ => i
def hasLines : Box → Bool | mk _ _ _ _ _ _ _ l _ => l
def children : Box → List Box | mk _ _ _ _ _ _ _ _ c => c
/-- `absoluteAndZIndex || opacity < 1 || transform || overflow != visible` -/
def makesContext (b : Box) : Bool := (b.positioned && b.z.isSome) || b.ctx
/-- StackingContext.zIndex: auto counts as 0, and z-index applies to positioned boxes only
    (`applies := position != static || IsFlexItem || IsGridItem`; flex and grid items are outside this model) -/
def zIndex (b : Box) : Int := if b.positioned then b.z.getD 0 else 0
end Box

/-- a child context: (z-index, what drawing it paints) -/
abbrev CCtx := Int × List PEv

/-- sort.SliceStable by z-index: stable insertion sort -/
def insertZ (x : CCtx) : List CCtx → List CCtx
  | [] => [x]
  | y :: ys => if x.1 ≤ y.1 then x :: y :: ys else y :: insertZ x ys

def sortZ : List CCtx → List CCtx
  | [] => []
  | x :: xs => insertZ x (sortZ xs)

/-- what the dispatch accumulates for the context being built -/
structure Acc where
  childContexts : List CCtx := []      -- in discovery order (with the insert-before-descendants rule)
  blocks : List Nat := []              -- step 4: in-flow non-positioned block-level boxes
  floats : List (List PEv) := []       -- step 5
  blocksAndCells : List Nat := []      -- step 7: boxes whose line children are painted (ids with hasLines)
  deriving Repr

def insertAt {α : Type} (l : List α) (i : Nat) (x : α) : List α := l.take i ++ x :: l.drop i

/-- drawStackingContext for a context whose lists are known.
    `isBlock`: the context's box is a Block/InlineBlock/... (step 2 paints its background and border).
    `lines`: ids (in order: the box itself, then blocksAndCells) whose inline content is painted at step 7. -/
def drawCtx (id : Nat) (isBlock : Bool) (neg zero pos : List CCtx) (blocks : List Nat) (floats : List (List PEv))
    (lines : List Nat) : List PEv :=
  (if isBlock then [(id, .background), (id, .border)] else [])
  ++ (neg.flatMap (·.2))
  ++ (blocks.flatMap fun b => [(b, Layer.background), (b, Layer.border)])
  ++ floats.flatten
  ++ (lines.map fun b => (b, Layer.content))
  ++ (zero.flatMap (·.2))
  ++ (pos.flatMap (·.2))
  ++ [(id, .outline)]

/-- NewStackingContext: partition by sign, stable sort of the negative and positive lists, then draw -/
def finishCtx (b : Box) (acc : Acc) (own : List CCtx) : List PEv :=
  let neg := sortZ (own.filter (·.1 < 0))
  let zero := own.filter (·.1 == 0)
  let pos := sortZ (own.filter (·.1 > 0))
  drawCtx b.id (b.blockLevel || b.inlineBlock) neg zero pos acc.blocks acc.floats
    ((if b.hasLines then [b.id] else []) ++ acc.blocksAndCells)

mutual
  /-- NewStackingContextFromBox(box, page, childContexts) fused with drawStackingContext.
      `shared = none`: a real context (its sub-contexts are its own);
      `shared = some cc`: a "fake" context (positioned z-auto box, float, inline-block): the sub-contexts found
      inside go to the caller's list `cc`, which is returned extended. -/
  def ctxOfBox : Box → Option (List CCtx) → List PEv × List CCtx
    | .mk id p z f c bl ib hl children, shared =>
      let b := Box.mk id p z f c bl ib hl children
      let start : Acc := { childContexts := shared.getD [] }
      let acc := dispatchChildren children start
      match shared with
      | none => (finishCtx b acc acc.childContexts, [])
      | some _ => (finishCtx b acc [], acc.childContexts)

  /-- dispatchChildren over the children list (boxes kept in the normal tree are not returned: only the
      accumulated lists matter for painting) -/
  def dispatchChildren : List Box → Acc → Acc
    | [], acc => acc
    | ch :: rest, acc => dispatchChildren rest (dispatch ch acc)

  /-- the `dispatch` closure -/
  def dispatch : Box → Acc → Acc
    | .mk id p z f c bl ib hl children, acc =>
      let b := Box.mk id p z f c bl ib hl children
      if b.makesContext then
        -- a real context: appended to the child contexts
        let (evs, _) := ctxOfBox b none
        { acc with childContexts := acc.childContexts ++ [(b.zIndex, evs)] }
      else if p then
        -- positioned, z-index auto: fake context inserted at the index before its descendants' contexts
        let index := acc.childContexts.length
        let (evs, cc) := ctxOfBox b (some acc.childContexts)
        { acc with childContexts := insertAt cc index (0, evs) }
      else if f then
        let (evs, cc) := ctxOfBox b (some acc.childContexts)
        { acc with childContexts := cc, floats := acc.floats ++ [evs] }
      else if ib then
        -- kept in the tree, drawn with the inline content of its line: out of this model's scope
        let (_, cc) := ctxOfBox b (some acc.childContexts)
        { acc with childContexts := cc }
      else
        let bi := acc.blocks.length
        let ci := acc.blocksAndCells.length
        let acc' := dispatchChildren children acc
        let acc'' := if bl then { acc' with blocks := insertAt acc'.blocks bi id } else acc'
        if bl && hl then { acc'' with blocksAndCells := insertAt acc''.blocksAndCells ci id } else acc''
end

/-- drawPage → NewStackingContextFromPage: the root element's box is unconditionally a context -/
def paintOrder (root : Box) : List PEv := (ctxOfBox root none).1

end WR.C16
