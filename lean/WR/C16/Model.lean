/-
  C16 — model of html/document/stacking.go (NewStackingContextFromBox / NewStackingContext) and of the
  step order of drawStackingContext (draw.go:209-346), on an abstract laid-out box tree.

  A box carries what the dispatch looks at: whether it is positioned, its z-index (none = auto),
  whether it is floated, whether it has opacity < 1 / a transform / overflow ≠ visible (each creates a
  context and a group), whether it is block-level / an inline-block, whether it has line-box children
  (inline content painted at step 7), and its children.

  Output: the list of events (box id, layer): the paints (background, border, content, outline) and the
  group brackets (opacity group, transform scope, overflow clip) they are issued in.  Building the StackingContext and drawing it are fused:
  a child context is represented by its z-index and the events drawing it produces.
-/
namespace WR.C16

inductive Layer where
  | background | border | content | outline
  | groupOpen | groupClose      -- opacity < 1: NewGroup … DrawWithOpacity
  | xformOpen | xformClose      -- transform: Transform … end of the context's OnNewStack
  | clipOpen | clipClose        -- overflow ≠ visible: inner OnNewStack with the padding-box clip
  deriving DecidableEq, Repr

abbrev PEv := Nat × Layer

/-- what the dispatch and the drawing look at -/
structure BProps where
  positioned : Bool       -- position ≠ static
  z : Option Int          -- none = auto
  floated : Bool
  opacity : Bool          -- opacity < 1
  transform : Bool        -- transform ≠ none
  overflow : Bool         -- overflow ≠ visible
  blockLevel : Bool
  inlineBlock : Bool
  hasLines : Bool         -- it paints the inline drawing of its children as its own content: a block container
                          -- whose children are line boxes (step 7), or an inline box that forms a context (step 6)
  text : Bool             -- a text run (leaf): drawInlineLevel paints it as content
  tableCell : Bool        -- a table cell: not block-level, but its lines are painted at step 7 like a block's
  table : Bool            -- a table box (block-level): step 4 paints it with drawTable
  deriving DecidableEq, Repr

inductive Box where
  | mk (id : Nat) (pr : BProps) (children : List Box)
  deriving Repr

namespace Box
def id : Box → Nat | mk i _ _ => i
def pr : Box → BProps | mk _ p _ => p
def children : Box → List Box | mk _ _ c => c
end Box

/-- `absoluteAndZIndex || opacity < 1 || transform || overflow != visible` -/
def BProps.makesContext (p : BProps) : Bool := (p.positioned && p.z.isSome) || p.opacity || p.transform || p.overflow
/-- StackingContext.zIndex: auto counts as 0, and z-index applies to positioned boxes only
    (`applies := position != static || IsFlexItem || IsGridItem`; flex and grid items are outside this model) -/
def BProps.zIndex (p : BProps) : Int := if p.positioned then p.z.getD 0 else 0

/-- is the box an ordinary in-flow box of the enclosing (pseudo-)context (it stays in the context's tree)? -/
def BProps.inFlow (p : BProps) : Bool := !p.makesContext && !p.positioned && !p.floated && !p.inlineBlock

mutual
  /-- the cells drawTable walks: the table cells left in the table's tree (cells that form a context, are
      positioned or float were taken out by the dispatch), row groups and rows are walked through -/
  def cellsOf : Box → List Nat
    | .mk id pr children => if !pr.inFlow then [] else if pr.tableCell then [id] else cellsOfL children
  def cellsOfL : List Box → List Nat
    | [] => []
    | b :: rest => cellsOf b ++ cellsOfL rest
end

/-- step 4 for one in-flow block-level box: background then border; for a table (drawTable, E.2 step 4): the
    table's background, the cells' backgrounds in tree order, the table's border, the cells' borders
    (column / row-group / row backgrounds and collapsed borders are outside this model) -/
def blockPaint (id : Nat) (pr : BProps) (children : List Box) : List PEv :=
  if pr.table then
    (id, Layer.background) :: (cellsOfL children).map (fun c => (c, Layer.background))
      ++ (id, Layer.border) :: (cellsOfL children).map (fun c => (c, Layer.border))
  else [(id, Layer.background), (id, Layer.border)]

/-- a child context: (z-index, what drawing it paints) -/
abbrev CCtx := Int × List PEv

/-- sort.SliceStable by z-index: stable insertion sort -/
def insertZ (x : CCtx) : List CCtx → List CCtx
  | [] => [x]
  | y :: ys => if x.1 ≤ y.1 then x :: y :: ys else y :: insertZ x ys

def sortZ : List CCtx → List CCtx
  | [] => []
  | x :: xs => insertZ x (sortZ xs)

/-- what the dispatch accumulates for the context being built -/
structure Acc where
  childContexts : List CCtx := []      -- in discovery order (with the insert-before-descendants rule)
  blocks : List (List PEv) := []       -- step 4: per in-flow non-positioned block-level box, what is painted for it
  floats : List (List PEv) := []       -- step 5
  blocksAndCells : List (List PEv) := [] -- step 7: per in-flow block with line children, the inline drawing of its lines
  kept : List Nat := []                -- the boxes left in the context's normal tree, pre-order (drawOutlines walks them)
  deriving Repr

def insertAt {α : Type} (l : List α) (i : Nat) (x : α) : List α := l.take i ++ x :: l.drop i

/-- drawStackingContext for a context whose lists are known.
    `isBlock`: the context's box is a Block/InlineBlock/... (step 2 paints its background and border).
    `lines`: the inline drawings painted at steps 6-7 (the box's own, then those of blocksAndCells).
    `kept`: the in-flow descendants left in the box's tree (step 10 paints the box's outline, then theirs).
    Opacity: everything (outlines included) goes to a group that is composited last; transform: applied
    before step 2, until the end; overflow: steps 3-9 are clipped, the background/border (step 2) and the
    outlines (step 10) are not. -/
def drawCtx (id : Nat) (pr : BProps) (neg zero pos : List CCtx) (blocks : List (List PEv)) (floats : List (List PEv))
    (lines : List (List PEv)) (kept : List Nat) : List PEv :=
  (if pr.opacity then [(id, Layer.groupOpen)] else [])
  ++ (if pr.transform then [(id, Layer.xformOpen)] else [])
  ++ (if pr.blockLevel || pr.inlineBlock then [(id, .background), (id, .border)] else [])
  ++ (if pr.overflow then [(id, Layer.clipOpen)] else [])
  ++ (neg.flatMap (·.2))
  ++ blocks.flatten
  ++ floats.flatten
  ++ lines.flatten
  ++ (zero.flatMap (·.2))
  ++ (pos.flatMap (·.2))
  ++ (if pr.overflow then [(id, Layer.clipClose)] else [])
  ++ ((id :: kept).map fun b => (b, Layer.outline))
  ++ (if pr.transform then [(id, Layer.xformClose)] else [])
  ++ (if pr.opacity then [(id, Layer.groupClose)] else [])

/-- NewStackingContext: partition by sign, stable sort of the negative and positive lists, then draw.
    `inl`: the inline drawing of the box's (kept) children. -/
def finishCtx (id : Nat) (pr : BProps) (acc : Acc) (own : List CCtx) (inl : List PEv) : List PEv :=
  let neg := sortZ (own.filter (·.1 < 0))
  let zero := own.filter (·.1 == 0)
  let pos := sortZ (own.filter (·.1 > 0))
  drawCtx id pr neg zero pos acc.blocks acc.floats
    ((if pr.hasLines then [inl] else []) ++ acc.blocksAndCells) acc.kept

mutual
  /-- NewStackingContextFromBox(box, page, childContexts) fused with drawStackingContext.
      `shared = none`: a real context (its sub-contexts are its own);
      `shared = some cc`: a "fake" context (positioned z-auto box, float, inline-block): the sub-contexts found
      inside go to the caller's list `cc`, which is returned extended. -/
  def ctxOfBox : Box → Option (List CCtx) → List PEv × List CCtx
    | .mk id pr children, shared =>
      let start : Acc := { childContexts := shared.getD [] }
      let (acc, inl) := dispatchChildren children start
      match shared with
      | none => (finishCtx id pr acc acc.childContexts inl, [])
      | some _ => (finishCtx id pr acc [] inl, acc.childContexts)

  /-- dispatchChildren over the children list: the accumulated lists, and the inline drawing of the children
      that stay in the tree (what drawInlineLevel paints when it walks them, in tree order) -/
  def dispatchChildren : List Box → Acc → Acc × List PEv
    | [], acc => (acc, [])
    | ch :: rest, acc =>
      let (acc1, i1) := dispatch ch acc
      let (acc2, i2) := dispatchChildren rest acc1
      (acc2, i1 ++ i2)

  /-- the `dispatch` closure; the second component is what drawInlineLevel paints for the box that stays in
      the tree at this place (nothing if the box was removed from the tree) -/
  def dispatch : Box → Acc → Acc × List PEv
    | .mk id pr children, acc =>
      if pr.makesContext then
        -- a real context: appended to the child contexts
        let (evs, _) := ctxOfBox (.mk id pr children) none
        ({ acc with childContexts := acc.childContexts ++ [(pr.zIndex, evs)] }, [])
      else if pr.positioned then
        -- positioned, z-index auto: fake context inserted at the index before its descendants' contexts
        let index := acc.childContexts.length
        let (evs, cc) := ctxOfBox (.mk id pr children) (some acc.childContexts)
        ({ acc with childContexts := insertAt cc index (0, evs) }, [])
      else if pr.floated then
        let (evs, cc) := ctxOfBox (.mk id pr children) (some acc.childContexts)
        ({ acc with childContexts := cc, floats := acc.floats ++ [evs] }, [])
      else if pr.inlineBlock then
        -- the fake context stays in the tree of inline boxes: drawInlineLevel paints it atomically, in place
        let (evs, cc) := ctxOfBox (.mk id pr children) (some acc.childContexts)
        ({ acc with childContexts := cc }, evs)
      else
        let bi := acc.blocks.length
        let ci := acc.blocksAndCells.length
        -- the box stays in the tree: drawOutlines reaches it before its children
        let (acc', inl) := dispatchChildren children { acc with kept := acc.kept ++ [id] }
        let acc'' := if pr.blockLevel then { acc' with blocks := insertAt acc'.blocks bi (blockPaint id pr children) } else acc'
        -- blocksAndCells: block-level boxes and table cells, each at the rank it had before its children
        let acc3 := if (pr.blockLevel || pr.tableCell) && pr.hasLines then { acc'' with blocksAndCells := insertAt acc''.blocksAndCells ci inl } else acc''
        -- drawInlineLevel: a text run paints its text; a line / inline box paints its children; block-level
        -- boxes are not met inside lines
        (acc3, if pr.text then [(id, Layer.content)] else if pr.blockLevel then [] else inl)
end

/-- drawPage → NewStackingContextFromPage: the root element's box is unconditionally a context -/
def paintOrder (root : Box) : List PEv := (ctxOfBox root none).1

/-- drawPage: the page box's own background (`@page{background}`), then the canvas background (propagated from
    the root element or from <body>; layoutBackgrounds removed it from the root box), then the root element's
    stacking context.  `pageBg` / `canvasBg`: the event ids of the two backgrounds when present.
    (Page border, marks and margin boxes are outside this model.) -/
def pagePaint (pageBg canvasBg : Option Nat) (root : Box) : List PEv :=
  (match pageBg with | some p => [(p, Layer.background)] | none => [])
  ++ (match canvasBg with | some c => [(c, Layer.background)] | none => [])
  ++ paintOrder root

end WR.C16
