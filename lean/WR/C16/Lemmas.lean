/-
  C16 — helper lemmas about the stable sort used by NewStackingContext.
-/
import WR.C16.Spec
set_option linter.unusedSimpArgs false
namespace WR.C16

theorem insertZ_perm (x : CCtx) : ∀ l : List CCtx, (insertZ x l).Perm (x :: l) := by
  intro l
  induction l with
  | nil => simp [insertZ]
  | cons y ys ih =>
    by_cases h : x.1 ≤ y.1
    · simp [insertZ, h]
    · simp only [insertZ, h, if_false]
      exact (List.Perm.cons y ih).trans (List.Perm.swap x y ys)

theorem insertZ_sorted (x : CCtx) : ∀ l : List CCtx, l.Pairwise (fun a b => a.1 ≤ b.1) →
    (insertZ x l).Pairwise (fun a b => a.1 ≤ b.1) := by
  intro l
  induction l with
  | nil => intro _; simp [insertZ]
  | cons y ys ih =>
    intro hs
    have hy := List.pairwise_cons.mp hs
    by_cases h : x.1 ≤ y.1
    · simp only [insertZ, h, if_true]
      refine List.pairwise_cons.mpr ⟨?_, hs⟩
      intro a ha
      simp only [List.mem_cons] at ha
      rcases ha with rfl | ha
      · exact h
      · exact Int.le_trans h (hy.1 a ha)
    · simp only [insertZ, h, if_false]
      refine List.pairwise_cons.mpr ⟨?_, ih hy.2⟩
      intro a ha
      have := (insertZ_perm x ys).mem_iff.mp ha
      simp only [List.mem_cons] at this
      rcases this with rfl | ha'
      · omega
      · exact hy.1 a ha'

/-- stability: among the entries of one z-index, x (the earlier entry) stays in front -/
theorem insertZ_filter (x : CCtx) (z : Int) : ∀ l : List CCtx, l.Pairwise (fun a b => a.1 ≤ b.1) →
    (insertZ x l).filter (fun a => a.1 == z) = (x :: l).filter (fun a => a.1 == z) := by
  intro l
  induction l with
  | nil => intro _; simp [insertZ]
  | cons y ys ih =>
    intro hs
    have hy := List.pairwise_cons.mp hs
    by_cases h : x.1 ≤ y.1
    · simp [insertZ, h]
    · simp only [insertZ, h, if_false]
      rw [List.filter_cons, ih hy.2]
      -- x.1 > y.1: x and y cannot both have z-index z
      by_cases hyz : y.1 = z
      · have hxz : ¬ x.1 = z := by omega
        simp [List.filter_cons, hyz, hxz]
      · simp [List.filter_cons, hyz]

end WR.C16
