/-
  C16 — the single-pass dispatch of stacking.go computes the per-layer traversals of the Appendix E spec.
-/
import WR.C16.Spec
set_option linter.unusedSimpArgs false
set_option linter.unusedVariables false
namespace WR.C16

/-- what dispatching the boxes `cs` adds to the accumulated lists, in the spec's terms -/
def Acc.add (acc : Acc) (cs : List Box) : Acc :=
  { childContexts := acc.childContexts ++ participants cs
    blocks := acc.blocks ++ flowBlocks cs
    floats := acc.floats ++ floatsOf cs
    blocksAndCells := acc.blocksAndCells ++ flowLines cs }

theorem insertAt_append {α : Type} (a r : List α) (x : α) : insertAt (a ++ r) a.length x = a ++ x :: r := by
  simp [insertAt]

theorem Acc.add_nil (acc : Acc) : acc.add [] = acc := by
  simp [Acc.add, participants, flowBlocks, floatsOf, flowLines]

theorem participants_cons_nil (b : Box) (rest : List Box) :
    participants (b :: rest) = participants [b] ++ participants rest := by
  cases b; simp [participants]

theorem flowBlocks_cons_nil (b : Box) (rest : List Box) :
    flowBlocks (b :: rest) = flowBlocks [b] ++ flowBlocks rest := by
  cases b; simp [flowBlocks]

theorem floatsOf_cons_nil (b : Box) (rest : List Box) :
    floatsOf (b :: rest) = floatsOf [b] ++ floatsOf rest := by
  cases b; simp [floatsOf]

theorem flowLines_cons_nil (b : Box) (rest : List Box) :
    flowLines (b :: rest) = flowLines [b] ++ flowLines rest := by
  cases b; simp [flowLines]

theorem Acc.add_cons (acc : Acc) (b : Box) (rest : List Box) :
    acc.add (b :: rest) = (acc.add [b]).add rest := by
  simp only [Acc.add]
  rw [participants_cons_nil, flowBlocks_cons_nil, floatsOf_cons_nil, flowLines_cons_nil]
  simp [List.append_assoc]

/-- a real context, given that dispatching its children computes the spec's traversals -/
theorem ctx_none_of (id : Nat) (p : Bool) (z : Option Int) (f c bl ib hl : Bool) (children : List Box)
    (h : ∀ acc, dispatchChildren children acc = acc.add children) :
    ctxOfBox (.mk id p z f c bl ib hl children) none = (specReal (.mk id p z f c bl ib hl children), []) := by
  cases hl <;> simp [ctxOfBox, h, Acc.add, finishCtx, drawCtx, specReal, Box.id, Box.blockLevel, Box.inlineBlock, Box.hasLines,
    List.append_assoc]

/-- a fake context (positioned z-index:auto box, float, inline-block) -/
theorem ctx_some_of (id : Nat) (p : Bool) (z : Option Int) (f c bl ib hl : Bool) (children : List Box) (cc : List CCtx)
    (h : ∀ acc, dispatchChildren children acc = acc.add children) :
    ctxOfBox (.mk id p z f c bl ib hl children) (some cc)
      = (specPseudo (.mk id p z f c bl ib hl children), cc ++ participants children) := by
  cases hl <;> simp [ctxOfBox, h, Acc.add, finishCtx, drawCtx, specPseudo, sortZ, Box.id, Box.blockLevel, Box.inlineBlock, Box.hasLines,
    List.append_assoc]

mutual
  theorem dispatchChildren_eq : ∀ (cs : List Box) (acc : Acc), dispatchChildren cs acc = acc.add cs
    | [], acc => by simp [dispatchChildren, Acc.add_nil]
    | ch :: rest, acc => by
      rw [dispatchChildren, dispatch_eq ch acc, dispatchChildren_eq rest, ← Acc.add_cons]

  theorem dispatch_eq : ∀ (b : Box) (acc : Acc), dispatch b acc = acc.add [b]
    | .mk id p z f c bl ib hl children, acc => by
      have hch := dispatchChildren_eq children
      have hn := ctx_none_of id p z f c bl ib hl children hch
      have hs := fun cc => ctx_some_of id p z f c bl ib hl children cc hch
      by_cases hm : (Box.mk id p z f c bl ib hl children).makesContext = true
      · simp [dispatch, hm, hn, Acc.add, participants, flowBlocks, floatsOf, flowLines, Box.inFlow, Box.specZ, Box.zIndex,
          Box.positioned, Box.z]
      · have hm' : (Box.mk id p z f c bl ib hl children).makesContext = false := by simpa using hm
        cases p with
        | true =>
          simp [dispatch, hm', hs, insertAt_append, Acc.add, participants, flowBlocks, floatsOf, flowLines, Box.inFlow,
            Box.positioned]
        | false =>
          cases f with
          | true =>
            simp [dispatch, hm', hs, Acc.add, participants, flowBlocks, floatsOf, flowLines, Box.inFlow,
              Box.positioned, Box.floated]
          | false =>
            cases ib with
            | true =>
              simp [dispatch, hm', hs, Acc.add, participants, flowBlocks, floatsOf, flowLines, Box.inFlow,
                Box.positioned, Box.floated, Box.inlineBlock]
            | false =>
              cases bl <;> cases hl <;>
                simp [dispatch, hm', hch, insertAt_append, Acc.add, participants, flowBlocks, floatsOf, flowLines,
                  Box.inFlow, Box.positioned, Box.floated, Box.inlineBlock, List.append_assoc]
end

end WR.C16
