/-
  C16 — the single-pass dispatch of stacking.go computes the per-layer traversals of the Appendix E spec.
-/
import WR.C16.Spec
set_option linter.unusedSimpArgs false
set_option linter.unusedVariables false
namespace WR.C16

/-- what dispatching the boxes `cs` adds to the accumulated lists, in the spec's terms -/
def Acc.add (acc : Acc) (cs : List Box) : Acc :=
  { childContexts := acc.childContexts ++ participants cs
    blocks := acc.blocks ++ flowBlocks cs
    floats := acc.floats ++ floatsOf cs
    blocksAndCells := acc.blocksAndCells ++ flowLines cs
    kept := acc.kept ++ flowAll cs }

theorem insertAt_append {α : Type} (a r : List α) (x : α) : insertAt (a ++ r) a.length x = a ++ x :: r := by
  simp [insertAt]

theorem Acc.add_nil (acc : Acc) : acc.add [] = acc := by
  simp [Acc.add, participants, flowBlocks, floatsOf, flowLines, flowAll]

theorem participants_cons_nil (b : Box) (rest : List Box) :
    participants (b :: rest) = participants [b] ++ participants rest := by
  cases b; simp [participants]

theorem flowBlocks_cons_nil (b : Box) (rest : List Box) :
    flowBlocks (b :: rest) = flowBlocks [b] ++ flowBlocks rest := by
  cases b; simp [flowBlocks]

theorem floatsOf_cons_nil (b : Box) (rest : List Box) :
    floatsOf (b :: rest) = floatsOf [b] ++ floatsOf rest := by
  cases b; simp [floatsOf]

theorem flowLines_cons_nil (b : Box) (rest : List Box) :
    flowLines (b :: rest) = flowLines [b] ++ flowLines rest := by
  cases b; simp [flowLines]

theorem inlineOf_cons_nil (b : Box) (rest : List Box) :
    inlineOf (b :: rest) = inlineOf [b] ++ inlineOf rest := by
  cases b; simp [inlineOf]

theorem flowAll_cons_nil (b : Box) (rest : List Box) :
    flowAll (b :: rest) = flowAll [b] ++ flowAll rest := by
  cases b; simp [flowAll]

theorem Acc.add_cons (acc : Acc) (b : Box) (rest : List Box) :
    acc.add (b :: rest) = (acc.add [b]).add rest := by
  simp only [Acc.add]
  rw [participants_cons_nil, flowBlocks_cons_nil, floatsOf_cons_nil, flowLines_cons_nil, flowAll_cons_nil]
  simp [List.append_assoc]

/-- a real context, given that dispatching its children computes the spec's traversals -/
theorem ctx_none_of (id : Nat) (pr : BProps) (children : List Box)
    (h : ∀ acc, dispatchChildren children acc = (acc.add children, inlineOf children)) :
    ctxOfBox (.mk id pr children) none = (specReal (.mk id pr children), []) := by
  simp [ctxOfBox, h, Acc.add, finishCtx, drawCtx, specReal, layers, List.append_assoc]

/-- a fake context (positioned z-index:auto box, float, inline-block) -/
theorem ctx_some_of (id : Nat) (pr : BProps) (children : List Box) (cc : List CCtx)
    (h : ∀ acc, dispatchChildren children acc = (acc.add children, inlineOf children)) :
    ctxOfBox (.mk id pr children) (some cc)
      = (specPseudo (.mk id pr children), cc ++ participants children) := by
  simp [ctxOfBox, h, Acc.add, finishCtx, drawCtx, specPseudo, layers, sortZ, List.append_assoc]

mutual
  theorem dispatchChildren_eq : ∀ (cs : List Box) (acc : Acc), dispatchChildren cs acc = (acc.add cs, inlineOf cs)
    | [], acc => by simp [dispatchChildren, Acc.add_nil, inlineOf]
    | ch :: rest, acc => by
      rw [dispatchChildren, dispatch_eq ch acc]
      simp only
      rw [dispatchChildren_eq rest, ← Acc.add_cons, ← inlineOf_cons_nil]

  theorem dispatch_eq : ∀ (b : Box) (acc : Acc), dispatch b acc = (acc.add [b], inlineOf [b])
    | .mk id pr children, acc => by
      have hch := dispatchChildren_eq children
      have hn := ctx_none_of id pr children hch
      have hs := fun cc => ctx_some_of id pr children cc hch
      by_cases hm : pr.makesContext = true
      · simp [dispatch, hm, hn, Acc.add, participants, flowBlocks, floatsOf, flowLines, flowAll, inlineOf, BProps.inFlow,
          BProps.specZ, BProps.zIndex]
      · have hm' : pr.makesContext = false := by simpa using hm
        by_cases hp : pr.positioned = true
        · simp [dispatch, hm', hp, hs, insertAt_append, Acc.add, participants, flowBlocks, floatsOf, flowLines, flowAll,
            inlineOf, BProps.inFlow]
        · have hp' : pr.positioned = false := by simpa using hp
          by_cases hf : pr.floated = true
          · simp [dispatch, hm', hp', hf, hs, Acc.add, participants, flowBlocks, floatsOf, flowLines, flowAll, inlineOf,
              BProps.inFlow]
          · have hf' : pr.floated = false := by simpa using hf
            by_cases hi : pr.inlineBlock = true
            · simp [dispatch, hm', hp', hf', hi, hs, Acc.add, participants, flowBlocks, floatsOf, flowLines, flowAll,
                inlineOf, BProps.inFlow]
            · have hi' : pr.inlineBlock = false := by simpa using hi
              cases hb : pr.blockLevel <;> cases hl : pr.hasLines <;> cases ht : pr.text <;> cases hc : pr.tableCell <;>
                simp [dispatch, hm', hp', hf', hi', hb, hl, ht, hc, hch, insertAt_append, Acc.add, participants, flowBlocks,
                  floatsOf, flowLines, flowAll, inlineOf, BProps.inFlow, List.append_assoc]
end

end WR.C16
