/-
  C16 — "opacity, transforms and overflow clipping apply to the whole sub-tree of the box that declares
  them" and "for a single box background precedes border precedes content precedes outline", as a
  decidable judge on an event list (evaluated on the IMPLEMENTATION's events by the harness).

  Ids are unique per generated box; id 0 (root element, body, anonymous boxes) is ignored.
-/
import WR.C16.Spec
namespace WR.C16

mutual
  /-- the ids of a box and its descendants -/
  def idsOf : Box → List Nat
    | .mk id _ children => id :: idsOfL children
  def idsOfL : List Box → List Nat
    | [] => []
    | b :: rest => idsOf b ++ idsOfL rest
end

def posOf (evs : List PEv) (e : PEv) : Option Nat :=
  let i := evs.idxOf e
  if i < evs.length then some i else none

def Layer.isPaint : Layer → Bool
  | .background | .border | .content | .outline => true
  | _ => false

/-- every paint (background, border, content, outline) of a box in `ids` lies in [i, j];
    `noOl`: outlines are exempt (used only to classify a failure) -/
def allWithin (evs : List PEv) (ids : List Nat) (i j : Nat) (noOl : Bool := false) : Bool :=
  (List.zip evs (List.range evs.length)).all fun (e, k) =>
    !(e.2.isPaint && ids.contains e.1 && !(noOl && e.2 == .outline)) || (i ≤ k && k ≤ j)

/-- a bracket pair of box `id` exists, opens before it closes, and encloses every event of `ids` -/
def bracketOk (evs : List PEv) (id : Nat) (o c : Layer) (ids : List Nat) : Bool :=
  match posOf evs (id, o), posOf evs (id, c) with
  | some i, some j => i < j && allWithin evs ids i j
  | _, _ => false

def before (evs : List PEv) (a b : PEv) : Bool :=
  match posOf evs a, posOf evs b with
  | some i, some j => i < j
  | _, _ => true   -- an absent layer constrains nothing

/-- the clip of box `id`: its descendants' events and its own content inside, its own background, border
    and outline outside -/
def clipOk (lenient : Bool) (evs : List PEv) (id : Nat) (desc : List Nat) : Bool :=
  match posOf evs (id, .clipOpen), posOf evs (id, .clipClose) with
  | some i, some j =>
    i < j && allWithin evs desc i j lenient
    && (match posOf evs (id, .content) with | some k => i < k && k < j | none => true)
    && [Layer.background, Layer.border, Layer.outline].all (fun l =>
        match posOf evs (id, l) with | some k => k < i || j < k | none => true)
  | _, _ => false

mutual
  def encloseBox (lenient : Bool) (evs : List PEv) : Box → Bool
    | .mk id pr children =>
      (id == 0 ||
        ((!pr.opacity || bracketOk evs id .groupOpen .groupClose ((id :: idsOfL children).filter (· != 0)))
         && (!pr.transform || bracketOk evs id .xformOpen .xformClose ((id :: idsOfL children).filter (· != 0)))
         && (!pr.overflow || clipOk lenient evs id ((idsOfL children).filter (· != 0)))
         -- the transform scope lies inside the opacity group
         && (!(pr.opacity && pr.transform) ||
              (before evs (id, .groupOpen) (id, .xformOpen) && before evs (id, .xformClose) (id, .groupClose)))
         && before evs (id, .background) (id, .border)
         && before evs (id, .border) (id, .content)
         && before evs (id, .border) (id, .outline)
         && before evs (id, .content) (id, .outline)))
      && encloseList lenient evs children
  def encloseList (lenient : Bool) (evs : List PEv) : List Box → Bool
    | [] => true
    | b :: rest => encloseBox lenient evs b && encloseList lenient evs rest
end

/-- the judge: group_encloses_subtree + per-box layer order, for every box of the tree -/
def enclosureJudge (root : Box) (evs : List PEv) : Bool := encloseBox false evs root

/-- the same with the outlines of descendants exempt from the overflow clip (classification of a failure only) -/
def enclosureJudgeLenient (root : Box) (evs : List PEv) : Bool := encloseBox true evs root

end WR.C16
