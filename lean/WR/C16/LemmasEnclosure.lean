/-
  C16 — group_encloses_subtree, the part that holds: in the trace of a tree with pairwise distinct ids, what a
  box that forms a real stacking context paints is ONE contiguous segment, every event of the segment belongs
  to the box's sub-tree, and no event of the sub-tree lies outside the segment.
-/
import WR.C16.Enclosure
import WR.C16.Lemmas
import WR.C16.LemmasOrder
set_option linter.unusedSimpArgs false
set_option linter.unusedVariables false
namespace WR.C16

mutual
  /-- a box and its descendants -/
  def sub : Box → List Box
    | .mk id pr children => .mk id pr children :: subL children
  def subL : List Box → List Box
    | [] => []
    | b :: rest => sub b ++ subL rest
end

/-- all six traversals of a list of boxes only mention ids satisfying `P` -/
structure OutClean (P : Nat → Prop) (cs : List Box) : Prop where
  parts : ∀ p ∈ participants cs, ∀ e ∈ p.2, P e.1
  blocks : ∀ l ∈ flowBlocks cs, ∀ e ∈ l, P e.1
  floats : ∀ f ∈ floatsOf cs, ∀ e ∈ f, P e.1
  lines : ∀ l ∈ flowLines cs, ∀ e ∈ l, P e.1
  inflow : ∀ x ∈ flowAll cs, P x
  inl : ∀ e ∈ inlineOf cs, P e.1

theorem OutClean.mono {P Q : Nat → Prop} {cs : List Box} (h : OutClean P cs) (hpq : ∀ x, P x → Q x) : OutClean Q cs :=
  ⟨fun p hp e he => hpq _ (h.parts p hp e he), fun l hl e he => hpq _ (h.blocks l hl e he), fun f hf e he => hpq _ (h.floats f hf e he),
   fun l hl e he => hpq _ (h.lines l hl e he), fun x hx => hpq _ (h.inflow x hx), fun e he => hpq _ (h.inl e he)⟩

theorem mem_sortZ {x : CCtx} {l : List CCtx} : x ∈ sortZ l ↔ x ∈ l := by
  induction l with
  | nil => simp [sortZ]
  | cons a l ih =>
    simp only [sortZ]
    rw [(insertZ_perm a (sortZ l)).mem_iff]
    simp [ih]

/-- every event of `layers` comes from one of its inputs or is an event of the box itself -/
theorem layers_mem {id : Nat} {pr : BProps} {parts : List CCtx} {blocks : List (List PEv)} {floats lines : List (List PEv)}
    {inflow : List Nat} {e : PEv} (he : e ∈ layers id pr parts blocks floats lines inflow) :
    e.1 = id ∨ (∃ p ∈ parts, e ∈ p.2) ∨ (∃ bl ∈ blocks, e ∈ bl) ∨ (∃ f ∈ floats, e ∈ f) ∨ (∃ l ∈ lines, e ∈ l) ∨ e.1 ∈ inflow := by
  simp only [layers, List.mem_append, List.mem_flatMap, List.mem_flatten, List.mem_map, List.mem_cons] at he
  rcases he with ((((((((((((h | h) | h) | h) | h) | h) | h) | h) | h) | h) | h) | h) | h) | h
  · split at h <;> simp at h; exact Or.inl (by rw [h])
  · split at h <;> simp at h; exact Or.inl (by rw [h])
  · split at h <;> simp at h; rcases h with h | h <;> exact Or.inl (by rw [h])
  · split at h <;> simp at h; exact Or.inl (by rw [h])
  · obtain ⟨p, hp, hep⟩ := h
    exact Or.inr (Or.inl ⟨p, (List.mem_filter.mp (mem_sortZ.mp hp)).1, hep⟩)
  · obtain ⟨x, hx, hex⟩ := h
    exact Or.inr (Or.inr (Or.inl ⟨x, hx, hex⟩))
  · obtain ⟨f, hf, hef⟩ := h
    exact Or.inr (Or.inr (Or.inr (Or.inl ⟨f, hf, hef⟩)))
  · obtain ⟨l, hl, hel⟩ := h
    exact Or.inr (Or.inr (Or.inr (Or.inr (Or.inl ⟨l, hl, hel⟩))))
  · obtain ⟨p, hp, hep⟩ := h
    exact Or.inr (Or.inl ⟨p, (List.mem_filter.mp hp).1, hep⟩)
  · obtain ⟨p, hp, hep⟩ := h
    exact Or.inr (Or.inl ⟨p, (List.mem_filter.mp (mem_sortZ.mp hp)).1, hep⟩)
  · split at h <;> simp at h; exact Or.inl (by rw [h])
  · obtain ⟨a, ha, rfl⟩ := h
    rcases ha with rfl | ha
    · exact Or.inl rfl
    · exact Or.inr (Or.inr (Or.inr (Or.inr (Or.inr ha))))
  · split at h <;> simp at h; exact Or.inl (by rw [h])
  · split at h <;> simp at h; exact Or.inl (by rw [h])

/-- what a (pseudo-)context paints only mentions its box and what its inputs mention -/
theorem layers_clean' {P : Nat → Prop} {id : Nat} {pr : BProps} (hid : P id)
    (parts : List CCtx) (blocks : List (List PEv)) (floats lines : List (List PEv)) (inflow : List Nat)
    (hparts : ∀ p ∈ parts, ∀ e ∈ p.2, P e.1) (hblocks : ∀ l ∈ blocks, ∀ e ∈ l, P e.1) (hfloats : ∀ f ∈ floats, ∀ e ∈ f, P e.1)
    (hlines : ∀ l ∈ lines, ∀ e ∈ l, P e.1) (hinflow : ∀ x ∈ inflow, P x) :
    ∀ e ∈ layers id pr parts blocks floats lines inflow, P e.1 := by
  intro e he
  rcases layers_mem he with h1 | ⟨p, hp, hep⟩ | ⟨bl, hbl, hebl⟩ | ⟨f, hf, hef⟩ | ⟨l, hl, hel⟩ | h1
  · rw [h1]; exact hid
  · exact hparts p hp e hep
  · exact hblocks bl hbl e hebl
  · exact hfloats f hf e hef
  · exact hlines l hl e hel
  · exact hinflow _ h1

/-- the lines a (pseudo-)context paints: its own inline drawing, then those of its in-flow blocks -/
theorem ownLines_clean {P : Nat → Prop} {pr : BProps} {children : List Box}
    (hinl : ∀ e ∈ inlineOf children, P e.1) (hlines : ∀ l ∈ flowLines children, ∀ e ∈ l, P e.1) :
    ∀ l ∈ (if pr.hasLines then [inlineOf children] else []) ++ flowLines children, ∀ e ∈ l, P e.1 := by
  intro l hl e hel
  simp only [List.mem_append] at hl
  rcases hl with hl | hl
  · split at hl <;> simp at hl
    subst hl
    exact hinl e hel
  · exact hlines l hl e hel

theorem layers_clean {P : Nat → Prop} {id : Nat} {pr : BProps} {children : List Box} (hid : P id)
    (h : OutClean P children) (parts : List CCtx) (hparts : ∀ p ∈ parts, p ∈ participants children) :
    ∀ e ∈ layers id pr parts (flowBlocks children) (floatsOf children)
      ((if pr.hasLines then [inlineOf children] else []) ++ flowLines children) (flowAll children), P e.1 :=
  layers_clean' hid _ _ _ _ _ (fun p hp => h.parts p (hparts p hp)) h.blocks h.floats (ownLines_clean h.inl h.lines) h.inflow

theorem specReal_clean {P : Nat → Prop} {id : Nat} {pr : BProps} {children : List Box} (hid : P id)
    (h : OutClean P children) : ∀ e ∈ specReal (.mk id pr children), P e.1 := by
  simp only [specReal]
  exact layers_clean hid h _ (fun p hp => hp)

theorem specPseudo_clean {P : Nat → Prop} {id : Nat} {pr : BProps} {children : List Box} (hid : P id)
    (h : OutClean P children) : ∀ e ∈ specPseudo (.mk id pr children), P e.1 := by
  simp only [specPseudo]
  exact layers_clean hid h [] (by simp)

mutual
  /-- the cells a table paints are in-flow descendants -/
  theorem cells_sub_flowAll1 : ∀ (b : Box), ∀ x ∈ cellsOf b, x ∈ flowAll [b]
    | .mk id pr children, x, hx => by
      by_cases hf : pr.inFlow = true
      · simp only [cellsOf, hf, Bool.not_true, Bool.false_eq_true, if_false] at hx
        simp only [flowAll, hf, if_true, List.append_nil, List.mem_cons]
        by_cases hc : pr.tableCell = true
        · simp [hc] at hx; exact Or.inl hx
        · have hc' : pr.tableCell = false := by simpa using hc
          simp only [hc', Bool.false_eq_true, if_false] at hx
          exact Or.inr (cells_sub_flowAll children x hx)
      · have hf' : pr.inFlow = false := by simpa using hf
        simp [cellsOf, hf'] at hx
  theorem cells_sub_flowAll : ∀ (cs : List Box), ∀ x ∈ cellsOfL cs, x ∈ flowAll cs
    | [], x, hx => by simp [cellsOfL] at hx
    | b :: rest, x, hx => by
      simp only [cellsOfL, List.mem_append] at hx
      rw [flowAll_cons_nil, List.mem_append]
      rcases hx with hx | hx
      · exact Or.inl (cells_sub_flowAll1 b x hx)
      · exact Or.inr (cells_sub_flowAll rest x hx)
end

theorem blockPaint_clean {P : Nat → Prop} (id : Nat) (pr : BProps) (children : List Box) (hid : P id)
    (hin : ∀ x ∈ flowAll children, P x) : ∀ e ∈ blockPaint id pr children, P e.1 := by
  intro e he
  simp only [blockPaint] at he
  split at he
  · simp only [List.mem_cons, List.mem_append, List.mem_map] at he
    rcases he with he | he
    · rcases he with he | ⟨c, hc, he⟩
      · rw [he]; exact hid
      · rw [← he]; exact hin c (cells_sub_flowAll children c hc)
    · rcases he with he | ⟨c, hc, he⟩
      · rw [he]; exact hid
      · rw [← he]; exact hin c (cells_sub_flowAll children c hc)
  · simp at he
    rcases he with he | he <;> (rw [he]; exact hid)

/-- the traversals of a single box, from those of its children -/
theorem outClean_single {P : Nat → Prop} (id : Nat) (pr : BProps) (children : List Box) (hid : P id)
    (h : OutClean P children) : OutClean P [.mk id pr children] := by
  have hr : ∀ a b, (a, b) ∈ specReal (.mk id pr children) → P a := fun a b hab => specReal_clean (pr := pr) hid h (a, b) hab
  have hp : ∀ a b, (a, b) ∈ specPseudo (.mk id pr children) → P a := fun a b hab => specPseudo_clean (pr := pr) hid h (a, b) hab
  have hparts : ∀ (a : Int) (b : List PEv), (a, b) ∈ participants children → ∀ (x : Nat) (y : Layer), (x, y) ∈ b → P x :=
    fun a b hab x y hxy => h.parts (a, b) hab (x, y) hxy
  have hfloats : ∀ f ∈ floatsOf children, ∀ (x : Nat) (y : Layer), (x, y) ∈ f → P x := fun f hf x y hxy => h.floats f hf (x, y) hxy
  have hlines : ∀ l ∈ flowLines children, ∀ (x : Nat) (y : Layer), (x, y) ∈ l → P x := fun l hl x y hxy => h.lines l hl (x, y) hxy
  have hinl : ∀ (x : Nat) (y : Layer), (x, y) ∈ inlineOf children → P x := fun x y hxy => h.inl (x, y) hxy
  by_cases hm : pr.makesContext = true
  · refine ⟨?_, ?_, ?_, ?_, ?_, ?_⟩ <;>
      simp [participants, flowBlocks, floatsOf, flowLines, flowAll, inlineOf, BProps.inFlow, hm]
    exact hr
  · have hm' : pr.makesContext = false := by simpa using hm
    by_cases hpos : pr.positioned = true
    · refine ⟨?_, ?_, ?_, ?_, ?_, ?_⟩ <;>
        simp [participants, flowBlocks, floatsOf, flowLines, flowAll, inlineOf, BProps.inFlow, hm', hpos]
      exact ⟨hp, hparts⟩
    · have hpos' : pr.positioned = false := by simpa using hpos
      by_cases hf : pr.floated = true
      · refine ⟨?_, ?_, ?_, ?_, ?_, ?_⟩ <;>
          simp [participants, flowBlocks, floatsOf, flowLines, flowAll, inlineOf, BProps.inFlow, hm', hpos', hf]
        · exact hparts
        · exact hp
      · have hf' : pr.floated = false := by simpa using hf
        by_cases hi : pr.inlineBlock = true
        · refine ⟨?_, ?_, ?_, ?_, ?_, ?_⟩ <;>
            simp [participants, flowBlocks, floatsOf, flowLines, flowAll, inlineOf, BProps.inFlow, hm', hpos', hf', hi]
          · exact hparts
          · exact hp
        · have hi' : pr.inlineBlock = false := by simpa using hi
          refine ⟨?_, ?_, ?_, ?_, ?_, ?_⟩ <;>
            simp [participants, flowBlocks, floatsOf, flowLines, flowAll, inlineOf, BProps.inFlow, hm', hpos', hf', hi']
          · exact hparts
          · intro x hx
            rcases hx with ⟨_, rfl⟩ | hx
            · exact fun a l hal => blockPaint_clean id pr children hid h.inflow (a, l) hal
            · exact fun a l hal => h.blocks x hx (a, l) hal
          · exact hfloats
          · intro l hl
            rcases hl with ⟨_, rfl⟩ | hl
            · exact hinl
            · exact hlines l hl
          · exact ⟨hid, h.inflow⟩
          · intro a b hab
            split at hab
            · simp at hab; rw [hab.1]; exact hid
            · split at hab
              · simp at hab
              · exact hinl a b hab

theorem outClean_cons {P : Nat → Prop} (b : Box) (rest : List Box) (h1 : OutClean P [b]) (h2 : OutClean P rest) :
    OutClean P (b :: rest) := by
  refine ⟨?_, ?_, ?_, ?_, ?_, ?_⟩
  · rw [participants_cons_nil]; intro p hp
    rcases List.mem_append.mp hp with hp | hp
    · exact h1.parts p hp
    · exact h2.parts p hp
  · rw [flowBlocks_cons_nil]; intro x hx
    rcases List.mem_append.mp hx with hx | hx
    · exact h1.blocks x hx
    · exact h2.blocks x hx
  · rw [floatsOf_cons_nil]; intro f hf
    rcases List.mem_append.mp hf with hf | hf
    · exact h1.floats f hf
    · exact h2.floats f hf
  · rw [flowLines_cons_nil]; intro l hl
    rcases List.mem_append.mp hl with hl | hl
    · exact h1.lines l hl
    · exact h2.lines l hl
  · rw [flowAll_cons_nil]; intro x hx
    rcases List.mem_append.mp hx with hx | hx
    · exact h1.inflow x hx
    · exact h2.inflow x hx
  · rw [inlineOf_cons_nil]; intro e he
    rcases List.mem_append.mp he with he | he
    · exact h1.inl e he
    · exact h2.inl e he

theorem outClean_nil {P : Nat → Prop} : OutClean P [] := by
  refine ⟨?_, ?_, ?_, ?_, ?_, ?_⟩ <;> simp [participants, flowBlocks, floatsOf, flowLines, flowAll, inlineOf]

mutual
  /-- id-soundness: the traversals of a list of boxes only mention ids of those boxes and their descendants -/
  theorem out_idsL : ∀ cs : List Box, OutClean (· ∈ idsOfL cs) cs
    | [] => outClean_nil
    | b :: rest => by
      refine outClean_cons b rest ((out_ids1 b).mono ?_) ((out_idsL rest).mono ?_)
      · intro x hx; simp [idsOfL, hx]
      · intro x hx; simp [idsOfL, hx]
  theorem out_ids1 : ∀ b : Box, OutClean (· ∈ idsOf b) [b]
    | .mk id pr children => by
      refine outClean_single id pr children (by simp [idsOf]) ((out_idsL children).mono ?_)
      intro x hx; simp [idsOf, hx]
end

/-! ## one participant inside what its context paints -/

theorem sortZ_split (l1 l2 : List CCtx) (x : CCtx) :
    ∃ q1 q2, sortZ (l1 ++ x :: l2) = q1 ++ x :: q2 ∧ ∀ y ∈ q1 ++ q2, y ∈ l1 ++ l2 := by
  have hperm : (sortZ (l1 ++ x :: l2)).Perm (x :: (l1 ++ l2)) := by
    have h1 : (sortZ (l1 ++ x :: l2)).Perm (l1 ++ x :: l2) := by
      have := WR.C16.insertZ_perm
      -- sortZ is a permutation
      have hs : ∀ l : List CCtx, (sortZ l).Perm l := by
        intro l
        induction l with
        | nil => simp [sortZ]
        | cons a l ih => exact (insertZ_perm a _).trans (List.Perm.cons a ih)
      exact hs _
    exact h1.trans List.perm_middle
  have hx : x ∈ sortZ (l1 ++ x :: l2) := hperm.mem_iff.mpr (by simp)
  obtain ⟨q1, q2, hq⟩ := List.append_of_mem hx
  refine ⟨q1, q2, hq, ?_⟩
  rw [hq] at hperm
  have h2 : (x :: (q1 ++ q2)).Perm (x :: (l1 ++ l2)) := (List.perm_middle.symm).trans hperm
  have h3 : (q1 ++ q2).Perm (l1 ++ l2) := List.Perm.cons_inv h2
  intro y hy
  exact h3.mem_iff.mp hy

theorem filter_split (p : CCtx → Bool) (P1 P2 : List CCtx) (x : CCtx) :
    (P1 ++ x :: P2).filter p = P1.filter p ++ (if p x then [x] else []) ++ P2.filter p := by
  by_cases h : p x = true <;> simp [List.filter_append, List.filter_cons, h]

theorem flatMap_mem_of_sub {L S : List CCtx} (hsub : ∀ y ∈ L, y ∈ S) {e : PEv} (he : e ∈ L.flatMap (·.2)) :
    ∃ p ∈ S, e ∈ p.2 := by
  simp only [List.mem_flatMap] at he
  obtain ⟨p, hp, hep⟩ := he
  exact ⟨p, hsub p hp, hep⟩

/-- if the events of the box itself, of the other participants, and of the other layers all satisfy `Q`, then
    what the context paints is `A ++ (the events of that participant) ++ B` with `A` and `B` satisfying `Q` -/
theorem layers_seg {Q : Nat → Prop} (id : Nat) (pr : BProps) (P1 P2 : List CCtx) (part : CCtx) (blocks : List (List PEv))
    (floats lines : List (List PEv)) (inflow : List Nat)
    (hid : Q id) (hparts : ∀ p ∈ P1 ++ P2, ∀ e ∈ p.2, Q e.1) (hblocks : ∀ l ∈ blocks, ∀ e ∈ l, Q e.1)
    (hfloats : ∀ f ∈ floats, ∀ e ∈ f, Q e.1) (hlines : ∀ l ∈ lines, ∀ e ∈ l, Q e.1) (hinflow : ∀ x ∈ inflow, Q x) :
    ∃ A B, layers id pr (P1 ++ part :: P2) blocks floats lines inflow = A ++ part.2 ++ B
      ∧ (∀ e ∈ A, Q e.1) ∧ (∀ e ∈ B, Q e.1) := by
  -- the pieces of `layers`
  let H : List PEv := (if pr.opacity then [(id, Layer.groupOpen)] else [])
    ++ (if pr.transform then [(id, Layer.xformOpen)] else [])
    ++ (if pr.blockLevel || pr.inlineBlock then [(id, Layer.background), (id, Layer.border)] else [])
    ++ (if pr.overflow then [(id, Layer.clipOpen)] else [])
  let M : List PEv := blocks.flatten ++ floats.flatten ++ lines.flatten
  let T : List PEv := (if pr.overflow then [(id, Layer.clipClose)] else [])
    ++ ((id :: inflow).map fun b => (b, Layer.outline))
    ++ (if pr.transform then [(id, Layer.xformClose)] else [])
    ++ (if pr.opacity then [(id, Layer.groupClose)] else [])
  have hH : ∀ e ∈ H, Q e.1 := by
    intro e he
    simp only [H, List.mem_append] at he
    rcases he with ((he | he) | he) | he <;> split at he <;> simp at he
    · rw [he]; exact hid
    · rw [he]; exact hid
    · rcases he with he | he <;> (rw [he]; exact hid)
    · rw [he]; exact hid
  have hM : ∀ e ∈ M, Q e.1 := by
    intro e he
    simp only [M, List.mem_append, List.mem_flatten] at he
    rcases he with (⟨x, hx, hex⟩ | ⟨f, hf, hef⟩) | ⟨l, hl, hel⟩
    · exact hblocks x hx e hex
    · exact hfloats f hf e hef
    · exact hlines l hl e hel
  have hT : ∀ e ∈ T, Q e.1 := by
    intro e he
    simp only [T, List.mem_append, List.mem_map, List.mem_cons] at he
    rcases he with ((he | ⟨a, ha, rfl⟩) | he) | he
    · split at he <;> simp at he; rw [he]; exact hid
    · rcases ha with rfl | ha
      · exact hid
      · exact hinflow a ha
    · split at he <;> simp at he; rw [he]; exact hid
    · split at he <;> simp at he; rw [he]; exact hid
  have hother : ∀ (L : List CCtx), (∀ y ∈ L, y ∈ P1 ++ P2) → ∀ e ∈ L.flatMap (·.2), Q e.1 := by
    intro L hL e he
    obtain ⟨p, hp, hep⟩ := flatMap_mem_of_sub hL he
    exact hparts p hp e hep
  have hfilt : ∀ (p : CCtx → Bool), ∀ y ∈ P1.filter p ++ P2.filter p, y ∈ P1 ++ P2 := by
    intro p y hy
    simp only [List.mem_append, List.mem_filter] at hy ⊢
    rcases hy with hy | hy
    · exact Or.inl hy.1
    · exact Or.inr hy.1
  have hsortfilt : ∀ (p : CCtx → Bool), ∀ y ∈ sortZ (P1.filter p ++ P2.filter p), y ∈ P1 ++ P2 :=
    fun p y hy => hfilt p y (mem_sortZ.mp hy)
  have hlay : ∀ parts, layers id pr parts blocks floats lines inflow
      = H ++ ((sortZ (parts.filter (·.1 < 0))).flatMap (·.2) ++ (M ++ ((parts.filter (·.1 == 0)).flatMap (·.2)
        ++ ((sortZ (parts.filter (·.1 > 0))).flatMap (·.2) ++ T)))) := by
    intro parts
    simp [layers, H, M, T, List.append_assoc]
  rw [hlay]
  rcases Int.lt_trichotomy part.1 0 with hz | hz | hz
  · -- negative layer
    have e1 : (P1 ++ part :: P2).filter (·.1 < 0) = P1.filter (·.1 < 0) ++ part :: P2.filter (·.1 < 0) := by
      rw [filter_split]; simp [hz]
    have e2 : (P1 ++ part :: P2).filter (·.1 == 0) = P1.filter (·.1 == 0) ++ P2.filter (·.1 == 0) := by
      rw [filter_split]; have : ¬ part.1 = 0 := by omega
      simp [this]
    have e3 : (P1 ++ part :: P2).filter (·.1 > 0) = P1.filter (·.1 > 0) ++ P2.filter (·.1 > 0) := by
      rw [filter_split]; have : ¬ part.1 > 0 := by omega
      simp [this]
    obtain ⟨q1, q2, hq, hqs⟩ := sortZ_split (P1.filter (·.1 < 0)) (P2.filter (·.1 < 0)) part
    rw [e1, e2, e3, hq]
    refine ⟨H ++ q1.flatMap (·.2), q2.flatMap (·.2) ++ (M ++ ((P1.filter (·.1 == 0) ++ P2.filter (·.1 == 0)).flatMap (·.2)
      ++ ((sortZ (P1.filter (·.1 > 0) ++ P2.filter (·.1 > 0))).flatMap (·.2) ++ T))), by simp [List.append_assoc], ?_, ?_⟩
    · intro e he
      rcases List.mem_append.mp he with he | he
      · exact hH e he
      · exact hother q1 (fun y hy => hfilt _ y (hqs y (List.mem_append_left _ hy))) e he
    · intro e he
      simp only [List.mem_append] at he
      rcases he with he | he | he | he | he
      · exact hother q2 (fun y hy => hfilt _ y (hqs y (List.mem_append_right _ hy))) e he
      · exact hM e he
      · exact hother _ (hfilt _) e he
      · exact hother _ (hsortfilt _) e he
      · exact hT e he
  · -- layer 8
    have e1 : (P1 ++ part :: P2).filter (·.1 < 0) = P1.filter (·.1 < 0) ++ P2.filter (·.1 < 0) := by
      rw [filter_split]; have : ¬ part.1 < 0 := by omega
      simp [this]
    have e2 : (P1 ++ part :: P2).filter (·.1 == 0) = P1.filter (·.1 == 0) ++ part :: P2.filter (·.1 == 0) := by
      rw [filter_split]; simp [hz]
    have e3 : (P1 ++ part :: P2).filter (·.1 > 0) = P1.filter (·.1 > 0) ++ P2.filter (·.1 > 0) := by
      rw [filter_split]; have : ¬ part.1 > 0 := by omega
      simp [this]
    rw [e1, e2, e3]
    refine ⟨H ++ ((sortZ (P1.filter (·.1 < 0) ++ P2.filter (·.1 < 0))).flatMap (·.2) ++ (M ++ (P1.filter (·.1 == 0)).flatMap (·.2))),
      (P2.filter (·.1 == 0)).flatMap (·.2) ++ ((sortZ (P1.filter (·.1 > 0) ++ P2.filter (·.1 > 0))).flatMap (·.2) ++ T),
      by simp [List.append_assoc], ?_, ?_⟩
    · intro e he
      simp only [List.mem_append] at he
      rcases he with he | he | he | he
      · exact hH e he
      · exact hother _ (hsortfilt _) e he
      · exact hM e he
      · exact hother _ (fun y hy => hfilt _ y (List.mem_append_left _ hy)) e he
    · intro e he
      simp only [List.mem_append] at he
      rcases he with he | he | he
      · exact hother _ (fun y hy => hfilt _ y (List.mem_append_right _ hy)) e he
      · exact hother _ (hsortfilt _) e he
      · exact hT e he
  · -- positive layer
    have e1 : (P1 ++ part :: P2).filter (·.1 < 0) = P1.filter (·.1 < 0) ++ P2.filter (·.1 < 0) := by
      rw [filter_split]; have : ¬ part.1 < 0 := by omega
      simp [this]
    have e2 : (P1 ++ part :: P2).filter (·.1 == 0) = P1.filter (·.1 == 0) ++ P2.filter (·.1 == 0) := by
      rw [filter_split]; have : ¬ part.1 = 0 := by omega
      simp [this]
    have e3 : (P1 ++ part :: P2).filter (·.1 > 0) = P1.filter (·.1 > 0) ++ part :: P2.filter (·.1 > 0) := by
      rw [filter_split]; simp [hz]
    obtain ⟨q1, q2, hq, hqs⟩ := sortZ_split (P1.filter (·.1 > 0)) (P2.filter (·.1 > 0)) part
    rw [e1, e2, e3, hq]
    refine ⟨H ++ ((sortZ (P1.filter (·.1 < 0) ++ P2.filter (·.1 < 0))).flatMap (·.2) ++ (M ++ ((P1.filter (·.1 == 0)
      ++ P2.filter (·.1 == 0)).flatMap (·.2) ++ q1.flatMap (·.2)))), q2.flatMap (·.2) ++ T, by simp [List.append_assoc], ?_, ?_⟩
    · intro e he
      simp only [List.mem_append] at he
      rcases he with he | he | he | he | he
      · exact hH e he
      · exact hother _ (hsortfilt _) e he
      · exact hM e he
      · exact hother _ (hfilt _) e he
      · exact hother q1 (fun y hy => hfilt _ y (hqs y (List.mem_append_left _ hy))) e he
    · intro e he
      simp only [List.mem_append] at he
      rcases he with he | he
      · exact hother q2 (fun y hy => hfilt _ y (hqs y (List.mem_append_right _ hy))) e he
      · exact hT e he

/-! ## the segment of a real context inside the trace -/

mutual
  theorem sub_ids : ∀ (c b : Box), b ∈ sub c → ∀ x ∈ idsOf b, x ∈ idsOf c
    | .mk id pr children, b, hb, x, hx => by
      simp only [sub, List.mem_cons] at hb
      rcases hb with rfl | hb
      · exact hx
      · simp only [idsOf, List.mem_cons]
        exact Or.inr (subL_ids children b hb x hx)
  theorem subL_ids : ∀ (cs : List Box) (b : Box), b ∈ subL cs → ∀ x ∈ idsOf b, x ∈ idsOfL cs
    | [], b, hb, x, hx => by simp [subL] at hb
    | c :: rest, b, hb, x, hx => by
      simp only [subL, List.mem_append] at hb
      simp only [idsOfL, List.mem_append]
      rcases hb with hb | hb
      · exact Or.inl (sub_ids c b hb x hx)
      · exact Or.inr (subL_ids rest b hb x hx)
end

/-- what the traversals of `cs` look like from the point of view of a real context `b` below `cs`: the events of
    `b` form one contiguous segment inside one participant, and nothing else mentions an id of `b`'s sub-tree -/
structure Seg (b : Box) (cs : List Box) : Prop where
  seg : ∃ P1 part P2 pre post, participants cs = P1 ++ part :: P2 ∧ part.2 = pre ++ specReal b ++ post
    ∧ (∀ e ∈ pre, e.1 ∉ idsOf b) ∧ (∀ e ∈ post, e.1 ∉ idsOf b) ∧ (∀ p ∈ P1 ++ P2, ∀ e ∈ p.2, e.1 ∉ idsOf b)
  blocks : ∀ l ∈ flowBlocks cs, ∀ e ∈ l, e.1 ∉ idsOf b
  floats : ∀ f ∈ floatsOf cs, ∀ e ∈ f, e.1 ∉ idsOf b
  lines : ∀ l ∈ flowLines cs, ∀ e ∈ l, e.1 ∉ idsOf b
  inflow : ∀ x ∈ flowAll cs, x ∉ idsOf b
  inl : ∀ e ∈ inlineOf cs, e.1 ∉ idsOf b

/-- inside what a context paints, the events of a real context `b` below its children form one segment -/
theorem layers_of_seg (b : Box) (id : Nat) (pr : BProps) (children : List Box) (hid : id ∉ idsOf b)
    (h : Seg b children) (own : Bool) :
    ∃ pre post, layers id pr (if own then participants children else []) (flowBlocks children) (floatsOf children)
        ((if pr.hasLines then [inlineOf children] else []) ++ flowLines children) (flowAll children)
      = (if own then pre ++ specReal b ++ post else pre)
      ∧ (∀ e ∈ pre, e.1 ∉ idsOf b) ∧ (∀ e ∈ post, e.1 ∉ idsOf b) := by
  cases own with
  | false =>
    refine ⟨_, [], rfl, ?_, by simp⟩
    exact layers_clean' (P := fun x => x ∉ idsOf b) hid [] _ _ _ _ (by simp) h.blocks h.floats (ownLines_clean (P := fun x => x ∉ idsOf b) (pr := pr) h.inl h.lines) h.inflow
  | true =>
    obtain ⟨P1, part, P2, pre, post, hp, hpart, hpre, hpost, hrest⟩ := h.seg
    obtain ⟨A, B, hl, hA, hB⟩ := layers_seg (Q := fun x => x ∉ idsOf b) id pr P1 P2 part (flowBlocks children) (floatsOf children)
      ((if pr.hasLines then [inlineOf children] else []) ++ flowLines children) (flowAll children)
      hid hrest h.blocks h.floats (ownLines_clean (P := fun x => x ∉ idsOf b) (pr := pr) h.inl h.lines) h.inflow
    refine ⟨A ++ pre, post ++ B, ?_, ?_, ?_⟩
    · simp only [if_true]
      rw [hp, hl, hpart]
      simp [List.append_assoc]
    · intro e he
      rcases List.mem_append.mp he with he | he
      · exact hA e he
      · exact hpre e he
    · intro e he
      rcases List.mem_append.mp he with he | he
      · exact hpost e he
      · exact hB e he

theorem specReal_of_seg (b : Box) (id : Nat) (pr : BProps) (children : List Box) (hid : id ∉ idsOf b)
    (h : Seg b children) :
    ∃ pre post, specReal (.mk id pr children) = pre ++ specReal b ++ post
      ∧ (∀ e ∈ pre, e.1 ∉ idsOf b) ∧ (∀ e ∈ post, e.1 ∉ idsOf b) := by
  obtain ⟨pre, post, h1, h2, h3⟩ := layers_of_seg b id pr children hid h true
  exact ⟨pre, post, by simpa [specReal] using h1, h2, h3⟩

theorem specPseudo_of_seg (b : Box) (id : Nat) (pr : BProps) (children : List Box) (hid : id ∉ idsOf b)
    (h : Seg b children) : ∀ e ∈ specPseudo (.mk id pr children), e.1 ∉ idsOf b := by
  obtain ⟨pre, post, h1, h2, h3⟩ := layers_of_seg b id pr children hid h false
  simp only [specPseudo]
  simp only [Bool.false_eq_true, if_false] at h1
  rw [h1]
  exact h2

/-- nothing of `cs` mentions `b`'s ids when the ids of `cs` are disjoint from them -/
theorem outClean_disjoint (b : Box) (cs : List Box) (hd : ∀ x ∈ idsOfL cs, x ∉ idsOf b) :
    OutClean (fun x => x ∉ idsOf b) cs := (out_idsL cs).mono hd

theorem seg_single (b : Box) (id : Nat) (pr : BProps) (children : List Box)
    (hnd : (idsOf (.mk id pr children)).Nodup) (hb : b ∈ sub (.mk id pr children)) (hctx : b.pr.makesContext = true)
    (ih : b ∈ subL children → Seg b children) : Seg b [.mk id pr children] := by
  simp only [sub, List.mem_cons] at hb
  simp only [idsOf, List.nodup_cons] at hnd
  by_cases hm : pr.makesContext = true
  · -- a real context: its only trace in the traversals is the participant (z, specReal c)
    have hsegc : ∃ pre post, specReal (.mk id pr children) = pre ++ specReal b ++ post
        ∧ (∀ e ∈ pre, e.1 ∉ idsOf b) ∧ (∀ e ∈ post, e.1 ∉ idsOf b) := by
      rcases hb with rfl | hb
      · exact ⟨[], [], by simp, by simp, by simp⟩
      · have hid : id ∉ idsOf b := fun hx => hnd.1 (subL_ids children b hb id hx)
        exact specReal_of_seg b id pr children hid (ih hb)
    obtain ⟨pre, post, h1, h2, h3⟩ := hsegc
    refine ⟨⟨[], (pr.specZ, specReal (.mk id pr children)), [], pre, post, ?_, h1, h2, h3, by simp⟩, ?_, ?_, ?_, ?_, ?_⟩ <;>
      simp [participants, flowBlocks, floatsOf, flowLines, flowAll, inlineOf, BProps.inFlow, hm]
  · have hm' : pr.makesContext = false := by simpa using hm
    have hb' : b ∈ subL children := by
      rcases hb with rfl | hb
      · simp [Box.pr, hm'] at hctx
      · exact hb
    have hid : id ∉ idsOf b := fun hx => hnd.1 (subL_ids children b hb' id hx)
    have hc := ih hb'
    have hps := specPseudo_of_seg b id pr children hid hc
    have hps' : ∀ a l, (a, l) ∈ specPseudo (.mk id pr children) → a ∉ idsOf b := fun a l h => hps (a, l) h
    obtain ⟨P1, part, P2, pre, post, hp, hpart, hpre, hpost, hrest⟩ := hc.seg
    have hfl : ∀ f ∈ floatsOf children, ∀ a l, (a, l) ∈ f → a ∉ idsOf b := fun f hf a l h => hc.floats f hf (a, l) h
    have hli : ∀ f ∈ flowLines children, ∀ a l, (a, l) ∈ f → a ∉ idsOf b := fun f hf a l h => hc.lines f hf (a, l) h
    have hin : ∀ a l, (a, l) ∈ inlineOf children → a ∉ idsOf b := fun a l h => hc.inl (a, l) h
    by_cases hpos : pr.positioned = true
    · refine ⟨⟨(0, specPseudo (.mk id pr children)) :: P1, part, P2, pre, post, ?_, hpart, hpre, hpost, ?_⟩, ?_, ?_, ?_, ?_, ?_⟩
      · simp [participants, hm', hpos, hp]
      · intro p hp2 e he
        simp only [List.cons_append, List.mem_cons] at hp2
        rcases hp2 with rfl | hp2
        · exact hps e he
        · exact hrest p hp2 e he
      all_goals simp [flowBlocks, floatsOf, flowLines, flowAll, inlineOf, BProps.inFlow, hm', hpos]
    · have hpos' : pr.positioned = false := by simpa using hpos
      by_cases hf : pr.floated = true
      · refine ⟨⟨P1, part, P2, pre, post, ?_, hpart, hpre, hpost, hrest⟩, ?_, ?_, ?_, ?_, ?_⟩
        · simp [participants, hm', hpos', hp]
        all_goals simp [flowBlocks, floatsOf, flowLines, flowAll, inlineOf, BProps.inFlow, hm', hpos', hf]
        exact hps'
      · have hf' : pr.floated = false := by simpa using hf
        by_cases hi : pr.inlineBlock = true
        · refine ⟨⟨P1, part, P2, pre, post, ?_, hpart, hpre, hpost, hrest⟩, ?_, ?_, ?_, ?_, ?_⟩
          · simp [participants, hm', hpos', hp]
          all_goals simp [flowBlocks, floatsOf, flowLines, flowAll, inlineOf, BProps.inFlow, hm', hpos', hf', hi]
          exact hps'
        · have hi' : pr.inlineBlock = false := by simpa using hi
          refine ⟨⟨P1, part, P2, pre, post, ?_, hpart, hpre, hpost, hrest⟩, ?_, ?_, ?_, ?_, ?_⟩
          · simp [participants, hm', hpos', hp]
          all_goals simp [flowBlocks, floatsOf, flowLines, flowAll, inlineOf, BProps.inFlow, hm', hpos', hf', hi']
          · intro x hx
            rcases hx with ⟨_, rfl⟩ | hx
            · exact fun a l hal => blockPaint_clean (P := fun x => x ∉ idsOf b) id pr children hid hc.inflow (a, l) hal
            · exact fun a l hal => hc.blocks x hx (a, l) hal
          · exact hfl
          · intro l hl
            rcases hl with ⟨_, rfl⟩ | hl
            · exact hin
            · exact hli l hl
          · exact ⟨hid, hc.inflow⟩
          · intro a l hal
            split at hal
            · simp at hal; rw [hal.1]; exact hid
            · split at hal
              · simp at hal
              · exact hin a l hal

theorem seg_cons_left (b c : Box) (rest : List Box) (h1 : Seg b [c]) (h2 : OutClean (fun x => x ∉ idsOf b) rest) :
    Seg b (c :: rest) := by
  obtain ⟨P1, part, P2, pre, post, hp, hpart, hpre, hpost, hrest⟩ := h1.seg
  refine ⟨⟨P1, part, P2 ++ participants rest, pre, post, ?_, hpart, hpre, hpost, ?_⟩, ?_, ?_, ?_, ?_, ?_⟩
  · rw [participants_cons_nil, hp]; simp [List.append_assoc]
  · intro p hp2 e he
    simp only [List.mem_append] at hp2
    rcases hp2 with hp2 | hp2 | hp2
    · exact hrest p (List.mem_append_left _ hp2) e he
    · exact hrest p (List.mem_append_right _ hp2) e he
    · exact h2.parts p hp2 e he
  · rw [flowBlocks_cons_nil]; intro x hx
    rcases List.mem_append.mp hx with hx | hx
    · exact h1.blocks x hx
    · exact h2.blocks x hx
  · rw [floatsOf_cons_nil]; intro f hf
    rcases List.mem_append.mp hf with hf | hf
    · exact h1.floats f hf
    · exact h2.floats f hf
  · rw [flowLines_cons_nil]; intro l hl
    rcases List.mem_append.mp hl with hl | hl
    · exact h1.lines l hl
    · exact h2.lines l hl
  · rw [flowAll_cons_nil]; intro x hx
    rcases List.mem_append.mp hx with hx | hx
    · exact h1.inflow x hx
    · exact h2.inflow x hx
  · rw [inlineOf_cons_nil]; intro e he
    rcases List.mem_append.mp he with he | he
    · exact h1.inl e he
    · exact h2.inl e he

theorem seg_cons_right (b c : Box) (rest : List Box) (h1 : OutClean (fun x => x ∉ idsOf b) [c]) (h2 : Seg b rest) :
    Seg b (c :: rest) := by
  obtain ⟨P1, part, P2, pre, post, hp, hpart, hpre, hpost, hrest⟩ := h2.seg
  refine ⟨⟨participants [c] ++ P1, part, P2, pre, post, ?_, hpart, hpre, hpost, ?_⟩, ?_, ?_, ?_, ?_, ?_⟩
  · rw [participants_cons_nil, hp]; simp [List.append_assoc]
  · intro p hp2 e he
    simp only [List.mem_append] at hp2
    rcases hp2 with (hp2 | hp2) | hp2
    · exact h1.parts p hp2 e he
    · exact hrest p (List.mem_append_left _ hp2) e he
    · exact hrest p (List.mem_append_right _ hp2) e he
  · rw [flowBlocks_cons_nil]; intro x hx
    rcases List.mem_append.mp hx with hx | hx
    · exact h1.blocks x hx
    · exact h2.blocks x hx
  · rw [floatsOf_cons_nil]; intro f hf
    rcases List.mem_append.mp hf with hf | hf
    · exact h1.floats f hf
    · exact h2.floats f hf
  · rw [flowLines_cons_nil]; intro l hl
    rcases List.mem_append.mp hl with hl | hl
    · exact h1.lines l hl
    · exact h2.lines l hl
  · rw [flowAll_cons_nil]; intro x hx
    rcases List.mem_append.mp hx with hx | hx
    · exact h1.inflow x hx
    · exact h2.inflow x hx
  · rw [inlineOf_cons_nil]; intro e he
    rcases List.mem_append.mp he with he | he
    · exact h1.inl e he
    · exact h2.inl e he

mutual
  theorem seg1 : ∀ (c b : Box), (idsOf c).Nodup → b ∈ sub c → b.pr.makesContext = true → Seg b [c]
    | .mk id pr children, b, hnd, hb, hctx =>
      seg_single b id pr children hnd hb hctx
        (fun hb' => segL children b (by simp only [idsOf, List.nodup_cons] at hnd; exact hnd.2) hb' hctx)
  theorem segL : ∀ (cs : List Box) (b : Box), (idsOfL cs).Nodup → b ∈ subL cs → b.pr.makesContext = true → Seg b cs
    | [], b, _, hb, _ => by simp [subL] at hb
    | c :: rest, b, hnd, hb, hctx => by
      simp only [idsOfL, List.nodup_append] at hnd
      obtain ⟨hn1, hn2, hdis⟩ := hnd
      simp only [subL, List.mem_append] at hb
      rcases hb with hb | hb
      · refine seg_cons_left b c rest (seg1 c b hn1 hb hctx) (outClean_disjoint b rest ?_)
        intro x hx hxb
        exact hdis x (sub_ids c b hb x hxb) x hx rfl
      · refine seg_cons_right b c rest ((out_ids1 c).mono ?_) (segL rest b hn2 hb hctx)
        intro x hx hxb
        exact hdis x hx x (subL_ids rest b hb x hxb) rfl
end

/-- The trace of a tree with pairwise distinct ids, seen from a box `b` of the tree that forms a real stacking
    context (or is the root): `pre ++ (what b paints) ++ post`, where `pre` and `post` mention no id of `b`'s
    sub-tree and what `b` paints mentions only ids of `b`'s sub-tree. -/
theorem trace_segment (root b : Box) (hnd : (idsOf root).Nodup) (hb : b ∈ sub root)
    (hctx : b.pr.makesContext = true ∨ b = root) :
    ∃ pre post, specOrder root = pre ++ specReal b ++ post
      ∧ (∀ e ∈ pre, e.1 ∉ idsOf b) ∧ (∀ e ∈ post, e.1 ∉ idsOf b) ∧ (∀ e ∈ specReal b, e.1 ∈ idsOf b) := by
  have hin : ∀ e ∈ specReal b, e.1 ∈ idsOf b := by
    cases b with
    | mk id pr children =>
      exact specReal_clean (P := fun x => x ∈ idsOf (.mk id pr children)) (by simp [idsOf])
        ((out_idsL children).mono (fun x hx => by simp [idsOf, hx]))
  cases root with
  | mk id pr children =>
    simp only [sub, List.mem_cons] at hb
    rcases hb with rfl | hb
    · exact ⟨[], [], by simp [specOrder], by simp, by simp, hin⟩
    · have hctx' : b.pr.makesContext = true := by
        rcases hctx with h | h
        · exact h
        · -- b = root would put root's id among its children's ids
          exfalso
          subst h
          simp only [idsOf, List.nodup_cons] at hnd
          exact hnd.1 (subL_ids children _ hb id (by simp [idsOf]))
      simp only [idsOf, List.nodup_cons] at hnd
      have hid : id ∉ idsOf b := fun hx => hnd.1 (subL_ids children b hb id hx)
      obtain ⟨pre, post, h1, h2, h3⟩ := specReal_of_seg b id pr children hid (segL children b hnd.2 hb hctx')
      exact ⟨pre, post, by simpa [specOrder] using h1, h2, h3, hin⟩

end WR.C16
