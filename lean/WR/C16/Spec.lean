/-
  C16 — CSS 2.1 Appendix E (zindex.html) as a paint order on the abstract box tree, written layer by
  layer (independent traversals), not as the single-pass dispatch of stacking.go.

  For a box that forms a stacking context (E.2):
    1-2  its own background, then border;
    3    child stacking contexts with negative z-index, most negative first, ties in tree order;
    4    in-flow, non-positioned, block-level descendants: background, border — tree order;
    5    non-positioned floats, each painted as if it formed a context (but positioned descendants and
         real child contexts take part in the parent context);
    7    inline content of the box and of its in-flow non-positioned block descendants — tree order;
    8    positioned descendants with z-index auto (painted like floats in 5) and child contexts with
         z-index 0 (incl. opacity/transform/overflow contexts), all in tree order;
    9    child contexts with positive z-index, smallest first, ties in tree order;
    10   outline.
-/
import WR.C16.Model
namespace WR.C16

/-- is the box an ordinary in-flow block of the enclosing (pseudo-)context? -/
def Box.inFlow (b : Box) : Bool := !b.makesContext && !b.positioned && !b.floated && !b.inlineBlock

/-- CSS 2.1 9.9.1: z-index applies to positioned boxes only; a non-positioned box that forms a context
    (opacity, transform, overflow) is painted at layer 8 like z-index 0 -/
def Box.specZ (b : Box) : Int := if b.positioned then b.z.getD 0 else 0

mutual
  /-- a real stacking context -/
  def specReal : Box → List PEv
    | .mk id p z f c bl ib hl children =>
      let parts := participants children
      (if bl || ib then [(id, Layer.background), (id, Layer.border)] else [])
      ++ ((sortZ (parts.filter (·.1 < 0))).flatMap (·.2))
      ++ ((flowBlocks children).flatMap fun b => [(b, Layer.background), (b, Layer.border)])
      ++ (floatsOf children).flatten
      ++ (((if hl then [id] else []) ++ flowLines children).map fun b => (b, Layer.content))
      ++ ((parts.filter (·.1 == 0)).flatMap (·.2))
      ++ ((sortZ (parts.filter (·.1 > 0))).flatMap (·.2))
      ++ [(id, .outline)]

  /-- a float or a positioned box with z-index auto: "as if it created a new stacking context, but any
      positioned descendants and descendants which actually create a new stacking context are part of
      the parent stacking context" -/
  def specPseudo : Box → List PEv
    | .mk id p z f c bl ib hl children =>
      (if bl || ib then [(id, Layer.background), (id, Layer.border)] else [])
      ++ ((flowBlocks children).flatMap fun b => [(b, Layer.background), (b, Layer.border)])
      ++ (floatsOf children).flatten
      ++ (((if hl then [id] else []) ++ flowLines children).map fun b => (b, Layer.content))
      ++ [(id, .outline)]

  /-- steps 3/8/9: the descendants that take part in the z-ordering of the enclosing real context, in tree order -/
  def participants : List Box → List CCtx
    | [] => []
    | .mk id p z f c bl ib hl children :: rest =>
      let b := Box.mk id p z f c bl ib hl children
      (if b.makesContext then [(b.specZ, specReal b)]
       else if p then (0, specPseudo b) :: participants children
       else participants children)
      ++ participants rest

  /-- step 4 -/
  def flowBlocks : List Box → List Nat
    | [] => []
    | .mk id p z f c bl ib hl children :: rest =>
      let b := Box.mk id p z f c bl ib hl children
      (if b.inFlow then (if bl then [id] else []) ++ flowBlocks children else []) ++ flowBlocks rest

  /-- step 5 -/
  def floatsOf : List Box → List (List PEv)
    | [] => []
    | .mk id p z f c bl ib hl children :: rest =>
      let b := Box.mk id p z f c bl ib hl children
      (if b.inFlow then floatsOf children
       else if !b.makesContext && !p && f then [specPseudo b]
       else []) ++ floatsOf rest

  /-- step 7: in-flow blocks with line boxes -/
  def flowLines : List Box → List Nat
    | [] => []
    | .mk id p z f c bl ib hl children :: rest =>
      let b := Box.mk id p z f c bl ib hl children
      (if b.inFlow then (if bl && hl then [id] else []) ++ flowLines children else []) ++ flowLines rest
end

/-- the page: the root element's box always forms a stacking context -/
def specOrder (root : Box) : List PEv := specReal root

end WR.C16
