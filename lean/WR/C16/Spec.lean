/-
  C16 — CSS 2.1 Appendix E (zindex.html) as a paint order on the abstract box tree, written layer by
  layer (independent traversals), not as the single-pass dispatch of stacking.go.

  For a box that forms a stacking context (E.2):
    1-2  its own background, then border;
    3    child stacking contexts with negative z-index, most negative first, ties in tree order;
    4    in-flow, non-positioned, block-level descendants: background, border — tree order; for a table: table
         background, cell backgrounds in tree order, then the table's border and the cells' borders;
    5    non-positioned floats, each painted as if it formed a context (but positioned descendants and
         real child contexts take part in the parent context);
    7    inline content of the box and of its in-flow non-positioned block descendants and table cells — tree order; inside
         one block, for each line box, the inline-level boxes in tree order: text runs, the children of inline
         boxes, and inline-blocks painted atomically "as if they generated a new stacking context" (E.2
         7.2.1.4) — their floats, positioned and z-ordered descendants still belong to the enclosing context;
    8    positioned descendants with z-index auto (painted like floats in 5) and child contexts with
         z-index 0 (incl. opacity/transform/overflow contexts), all in tree order;
    9    child contexts with positive z-index, smallest first, ties in tree order;
    10   outlines of the box and of its in-flow descendants (E.2 step 10, the recommended place).

  Groups ("opacity, transforms and overflow clipping apply to the whole sub-tree of the box that declares
  them"; CSS Color 3: the element and its descendants are rendered into an offscreen image which is
  then blended; CSS 2.1 11.1.1: overflow clips the content, not the box's own border/background, and
  outlines are not clipped by the box's own overflow):
    group-open … group-close around everything the box paints (outlines included),
    xform-open … xform-close likewise, inside the opacity group,
    clip-open … clip-close around steps 3-9 only.
-/
import WR.C16.Model
namespace WR.C16

/-- CSS 2.1 9.9.1: z-index applies to positioned boxes only; a non-positioned box that forms a context
    (opacity, transform, overflow) is painted at layer 8 like z-index 0 -/
def BProps.specZ (p : BProps) : Int := if p.positioned then p.z.getD 0 else 0

/-- one (pseudo-)context, from its layers -/
def layers (id : Nat) (pr : BProps) (parts : List CCtx) (blocks : List (List PEv)) (floats : List (List PEv))
    (lines : List (List PEv)) (inflow : List Nat) : List PEv :=
  (if pr.opacity then [(id, Layer.groupOpen)] else [])
  ++ (if pr.transform then [(id, Layer.xformOpen)] else [])
  ++ (if pr.blockLevel || pr.inlineBlock then [(id, Layer.background), (id, Layer.border)] else [])
  ++ (if pr.overflow then [(id, Layer.clipOpen)] else [])
  ++ ((sortZ (parts.filter (·.1 < 0))).flatMap (·.2))
  ++ blocks.flatten
  ++ floats.flatten
  ++ lines.flatten
  ++ ((parts.filter (·.1 == 0)).flatMap (·.2))
  ++ ((sortZ (parts.filter (·.1 > 0))).flatMap (·.2))
  ++ (if pr.overflow then [(id, Layer.clipClose)] else [])
  ++ ((id :: inflow).map fun b => (b, Layer.outline))
  ++ (if pr.transform then [(id, Layer.xformClose)] else [])
  ++ (if pr.opacity then [(id, Layer.groupClose)] else [])

mutual
  /-- a real stacking context -/
  def specReal : Box → List PEv
    | .mk id pr children =>
      layers id pr (participants children) (flowBlocks children) (floatsOf children)
        ((if pr.hasLines then [inlineOf children] else []) ++ flowLines children) (flowAll children)

  /-- a float or a positioned box with z-index auto: "as if it created a new stacking context, but any
      positioned descendants and descendants which actually create a new stacking context are part of
      the parent stacking context" -/
  def specPseudo : Box → List PEv
    | .mk id pr children =>
      layers id pr [] (flowBlocks children) (floatsOf children)
        ((if pr.hasLines then [inlineOf children] else []) ++ flowLines children) (flowAll children)

  /-- steps 3/8/9: the descendants that take part in the z-ordering of the enclosing real context, in tree order -/
  def participants : List Box → List CCtx
    | [] => []
    | .mk id pr children :: rest =>
      (if pr.makesContext then [(pr.specZ, specReal (.mk id pr children))]
       else if pr.positioned then (0, specPseudo (.mk id pr children)) :: participants children
       else participants children)
      ++ participants rest

  /-- step 4 -/
  def flowBlocks : List Box → List (List PEv)
    | [] => []
    | .mk id pr children :: rest =>
      (if pr.inFlow then (if pr.blockLevel then [blockPaint id pr children] else []) ++ flowBlocks children else [])
      ++ flowBlocks rest

  /-- step 5 -/
  def floatsOf : List Box → List (List PEv)
    | [] => []
    | .mk id pr children :: rest =>
      (if pr.inFlow then floatsOf children
       else if !pr.makesContext && !pr.positioned && pr.floated then [specPseudo (.mk id pr children)]
       else []) ++ floatsOf rest

  /-- step 7: per in-flow block with line boxes, the inline drawing of its lines -/
  def flowLines : List Box → List (List PEv)
    | [] => []
    | .mk id pr children :: rest =>
      (if pr.inFlow then (if (pr.blockLevel || pr.tableCell) && pr.hasLines then [inlineOf children] else []) ++ flowLines children else [])
      ++ flowLines rest

  /-- the inline drawing of a list of boxes inside a line (E.2 step 7.2.1): text runs, the children of line and
      inline boxes, inline-blocks atomically; floats, positioned boxes and real contexts are painted elsewhere -/
  def inlineOf : List Box → List PEv
    | [] => []
    | .mk id pr children :: rest =>
      (if pr.inFlow then
         (if pr.text then [(id, Layer.content)] else if pr.blockLevel then [] else inlineOf children)
       else if !pr.makesContext && !pr.positioned && !pr.floated && pr.inlineBlock then specPseudo (.mk id pr children)
       else [])
      ++ inlineOf rest

  /-- step 10: the in-flow descendants, pre-order -/
  def flowAll : List Box → List Nat
    | [] => []
    | .mk id pr children :: rest =>
      (if pr.inFlow then id :: flowAll children else []) ++ flowAll rest
end

/-- the page: the root element's box always forms a stacking context -/
def specOrder (root : Box) : List PEv := specReal root

/-- the page (CSS Paged Media 3 / CSS 2.1 14.2): the page box's background is painted first, the canvas background
    (the root element's or the propagated <body> background) is painted over it, then the root stacking context -/
def specPage (pageBg canvasBg : Option Nat) (root : Box) : List PEv :=
  pageBg.toList.map (fun p => (p, Layer.background))
  ++ canvasBg.toList.map (fun c => (c, Layer.background))
  ++ specOrder root

end WR.C16
