def hello := "world"
