/-
  C05 — helper lemmas: each simple selector of the model against its clause of the definition.
-/
import WR.C05.LemmasTree
namespace WR.C05.Lemmas
open WR.C05 WR.C05.Spec

theorem tag_iff (name : Str) (l : Loc) : selMatch (.tag name) l = true ↔ Matches (.tag name) l := by
  simp [selMatch, Matches, IsElem]

theorem attr_iff (key val : Str) (op : AttrOp) (ic : Bool) (l : Loc)
    (hv : valOk op val = true) :
    attrMatch key val op ic l = true ↔ AttrHolds key val op ic l := by
  by_cases hne : op = .ne
  · subst hne
    simp only [attrMatch, AttrHolds, IsElem, Bool.and_eq_true, beq_iff_eq, Bool.not_eq_true',
      ← Bool.not_eq_true, valMatch]
    rw [attrsAny_iff l.attrs key (fun s => eqVal s val ic)]
    simp only [eqVal_iff]
  · have h1 : attrMatch key val op ic l = matchAttribute l.kind l.attrs key (valMatch val op ic) := by
      cases op <;> first | rfl | exact absurd rfl hne
    have h2 : AttrHolds key val op ic l ↔ IsElem l ∧ ∃ s, (key, s) ∈ l.attrs ∧ ValHolds op ic val s := by
      cases op <;> first | rfl | exact absurd rfl hne
    rw [h1, h2, matchAttribute_iff]
    apply and_congr Iff.rfl
    constructor
    · rintro ⟨s, hm, hs⟩; exact ⟨s, hm, (valMatch_iff val op ic s hne hv).1 hs⟩
    · rintro ⟨s, hm, hs⟩; exact ⟨s, hm, (valMatch_iff val op ic s hne hv).2 hs⟩

theorem cls_iff (name : Str) (l : Loc) :
    selMatch (.cls name) l = true ↔ Matches (.cls name) l := by
  have : selMatch (.cls name) l = attrMatch classKey name .incl false l := by
    have e : (valMatch name AttrOp.incl false) = fun s => matchInclude name s false := by funext s; rfl
    simp [selMatch, attrMatch, e]
  rw [this, Matches]
  exact attr_iff _ _ _ _ _ rfl

theorem id_iff (name : Str) (l : Loc) :
    selMatch (.id name) l = true ↔ Matches (.id name) l := by
  have : selMatch (.id name) l = attrMatch idKey name .eq false l := by
    have e : (valMatch name AttrOp.eq false) = fun s => s == name := by funext s; rfl
    simp [selMatch, attrMatch, e]
  rw [this, Matches]
  exact attr_iff _ _ _ _ _ rfl

theorem skips_self (ofType : Bool) (n : Node) (h : n.kind = .elem) : skips ofType n.data n = false := by
  simp [skips, h]

theorem sibList_reverse (f : Frame) (n : Node) :
    (sibList f n).reverse =
      f.right.reverse.map (fun c => (false, c)) ++ (true, n) :: f.left.map (fun c => (false, c)) := by
  simp [sibList, List.map_reverse]

theorem nth_iff (a b : Int) (last ofType : Bool) (l : Loc) :
    selMatch (.nth a b last ofType) l = true ↔ Matches (.nth a b last ofType) l := by
  simp only [selMatch, Matches, IsElem]
  by_cases hk : l.kind = .elem
  case neg =>
    have : (l.kind != Kind.elem) = true := by simp [hk]
    simp [simpleNthMatch, nthChildMatch, this, hk]
  case pos =>
    obtain ⟨n, path⟩ := l
    cases path with
    | nil =>
      have hnk : ((Loc.mk n []).kind != Kind.elem) = false := by simp [hk]
      simp [simpleNthMatch, nthChildMatch, hnk, HasParent, Loc.parent?]
    | cons f fs =>
      have hk' : n.kind = .elem := hk
      have hs := skips_self ofType n hk'
      have hnk : ((Loc.mk n (f :: fs)).kind != Kind.elem) = false := by simp [hk]
      have hpar : HasParent ⟨n, f :: fs⟩ := ⟨_, rfl⟩
      simp only [hk, hpar, true_and, index_eq, AnB]
      by_cases ha : a = 0
      · subst ha
        simp only [beq_self_eq_true, ↓reduceIte, simpleNthMatch, hnk, Bool.false_eq_true, Loc.data]
        cases last
        · simp only [Bool.false_eq_true, ↓reduceIte, sibList]
          rw [simpleLoop_marked b ofType n.data n _ hs, qual_reverse]
          simp only [beq_iff_eq, Int.zero_mul, Int.zero_add]
          constructor
          · intro h; exact ⟨0, by omega⟩
          · rintro ⟨_, h⟩; omega
        · simp only [↓reduceIte, sibList_reverse]
          rw [simpleLoop_marked b ofType n.data n _ hs, qual_reverse]
          simp only [beq_iff_eq, Int.zero_mul, Int.zero_add]
          constructor
          · intro h; exact ⟨0, by omega⟩
          · rintro ⟨_, h⟩; omega
      · have ha' : (a == 0) = false := by simp [ha]
        simp only [ha', Bool.false_eq_true, ↓reduceIte, nthChildMatch, hnk, Loc.data]
        rw [nthLoop_sibList last ofType n f hs]
        have h1 : ((qual ofType n.data f.left : Int) + 1 == -1) = false := by
          rw [beq_eq_false_iff_ne]; omega
        simp only [h1, Bool.false_eq_true, ↓reduceIte]
        rw [nthGo_iff _ _ ha]
        cases last
        · simp only [Bool.false_eq_true, ↓reduceIte]
          constructor
          · rintro ⟨k, hk⟩; exact ⟨k, by push_cast; omega⟩
          · rintro ⟨k, hk⟩; exact ⟨k, by push_cast at hk; omega⟩
        · simp only [↓reduceIte]
          constructor
          · rintro ⟨k, hk⟩; exact ⟨k, by push_cast; omega⟩
          · rintro ⟨k, hk⟩; exact ⟨k, by push_cast at hk; omega⟩

theorem qual_zero_iff (ofType : Bool) (l : Loc) (xs : List Loc) :
    qual ofType l.data (xs.map (·.node)) = 0 ↔ ∀ s ∈ xs, counts ofType l s = false := by
  rw [← filter_counts_length, List.length_eq_zero_iff, List.filter_eq_nil_iff]
  simp

theorem only_iff (ofType : Bool) (l : Loc) :
    selMatch (.only ofType) l = true ↔ Matches (.only ofType) l := by
  simp only [selMatch, Matches, IsElem, onlyMatch]
  by_cases hk : l.kind = .elem
  case neg =>
    have : (l.kind != Kind.elem) = true := by simp [hk]
    simp [this, hk]
  case pos =>
    obtain ⟨n, path⟩ := l
    cases path with
    | nil =>
      have hnk : ((Loc.mk n []).kind != Kind.elem) = false := by simp [hk]
      simp [hnk, HasParent, Loc.parent?]
    | cons f fs =>
      have hk' : n.kind = .elem := hk
      have hs := skips_self ofType n hk'
      have hnk : ((Loc.mk n (f :: fs)).kind != Kind.elem) = false := by simp [hk]
      have hpar : HasParent ⟨n, f :: fs⟩ := ⟨_, rfl⟩
      simp only [hk, hpar, true_and, Loc.data]
      rw [onlyLoop_eq ofType n.data _ 0 (by omega)]
      have hm : (sibList f n).map (·.2) = f.left.reverse ++ n :: f.right := by
        simp [sibList, Function.comp_def]
      have hq : qual ofType n.data (f.left.reverse ++ n :: f.right)
          = qual ofType n.data f.left + 1 + qual ofType n.data f.right := by
        simp only [qual, List.filter_append, List.filter_cons, hs, Bool.not_false, ↓reduceIte,
          List.length_append, List.length_cons, List.filter_reverse, List.length_reverse]
        omega
      rw [hm, hq]
      have h1 := qual_zero_iff ofType ⟨n, f :: fs⟩ (Loc.prevSibs ⟨n, f :: fs⟩)
      have h2 := qual_zero_iff ofType ⟨n, f :: fs⟩ (Loc.nextSibs ⟨n, f :: fs⟩)
      simp only [Loc.prevSibs, prevAux_nodes, Loc.nextSibs, nextAux_nodes, Loc.data] at h1 h2
      simp only [List.mem_append, Loc.prevSibs, Loc.nextSibs]
      constructor
      · intro h
        have : qual ofType n.data f.left = 0 ∧ qual ofType n.data f.right = 0 := by
          simp at h; omega
        intro s hs'
        rcases hs' with hs' | hs'
        · exact h1.1 this.1 s hs'
        · exact h2.1 this.2 s hs'
      · intro h
        have e1 := h1.2 (fun s hs' => h s (Or.inl hs'))
        have e2 := h2.2 (fun s hs' => h s (Or.inr hs'))
        simp [e1, e2]

theorem empty_iff (l : Loc) : selMatch .empty l = true ↔ Matches .empty l := by
  simp only [selMatch, Matches, IsElem, Bool.and_eq_true, beq_iff_eq, emptyLoop_iff]
  rw [← children_nodes, List.forall_mem_map]
  apply and_congr Iff.rfl
  apply forall_congr'; intro c
  apply forall_congr'; intro hc
  apply and_congr Iff.rfl
  apply forall_congr'; intro ht
  simp only [isDocBlank, List.all_eq_true, isDocWs_eq]
  exact Iff.rfl

theorem root_iff (l : Loc) (hl : LocalOk l) : selMatch .root l = true ↔ Matches .root l := by
  simp only [selMatch, Matches, IsElem, Bool.and_eq_true, beq_iff_eq]
  constructor
  · rintro ⟨⟨hk, hd⟩, hp⟩
    refine ⟨hk, ?_⟩
    rintro ⟨p, hpp, hpe⟩
    rw [hpp] at hp
    simp only [beq_iff_eq] at hp
    rw [hp] at hpe
    exact Kind.noConfusion hpe
  · rintro ⟨hk, hp⟩
    cases hpar : l.parent? with
    | none => exact ⟨⟨hk, hl.detached hk hpar⟩, by simp⟩
    | some p =>
      rcases hl.root hk p hpar with h | ⟨h1, h2⟩
      · exact absurd ⟨p, hpar, h⟩ hp
      · exact ⟨⟨hk, h2⟩, by simp [h1]⟩

/-- two ways to split one list around an element -/
theorem split_cases {α : Type} {as bs cs ds : List α} {s e : α} (h : as ++ s :: bs = cs ++ e :: ds) :
    (∃ m, cs = as ++ s :: m ∧ bs = m ++ e :: ds) ∨ (as = cs ∧ s = e ∧ bs = ds) ∨
    (∃ m, as = cs ++ e :: m ∧ ds = m ++ s :: bs) := by
  rcases List.append_eq_append_iff.1 h with ⟨a', h1, h2⟩ | ⟨c', h1, h2⟩
  · cases a' with
    | nil => simp at h1 h2; exact Or.inr (Or.inl ⟨h1.symm, h2.1, h2.2⟩)
    | cons x m => simp at h2; exact Or.inl ⟨m, by rw [h1, h2.1], h2.2⟩
  · cases c' with
    | nil => simp at h1 h2; exact Or.inr (Or.inl ⟨h1, h2.1.symm, h2.2.symm⟩)
    | cons x m => simp at h2; exact Or.inr (Or.inr ⟨m, by rw [h1, h2.1], h2.2⟩)

theorem parent_mem_ancestors {l p : Loc} (h : l.parent? = some p) : p ∈ l.ancestors := by
  obtain ⟨n, path⟩ := l
  cases path with
  | nil => simp [Loc.parent?] at h
  | cons f fs =>
    simp only [Loc.parent?, Option.some.injEq] at h
    subst h
    simp [Loc.ancestors, Loc.ancestorsAux]

mutual
  theorem matches_elem : ∀ (s : Sel) (l : Loc), Matches s l → IsElem l
    | .tag _, _, h => h.1
    | .cls _, _, h => h.1
    | .id _, _, h => h.1
    | .attr _ _ _ _, _, h => h.1
    | .nth _ _ _ _, _, h => h.1
    | .only _, _, h => h.1
    | .empty, _, h => h.1
    | .root, _, h => h.1
    | .never _, _, h => False.elim h
    | .rel _ _, _, h => h.1
    | .compound _ _, _, h => h.1
    | .combined _ _ d, l, h => matches_elem d l h.1
end

end WR.C05.Lemmas
