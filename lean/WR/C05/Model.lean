/-
  C05 — executable model of /repo/css/selector (selector.go, pseudo_classes.go, specificity.go).

  The DOM is `golang.org/x/net/html`'s node tree: every node has a type, `Data`, `Attr` and children.
  A node *in its tree* is a zipper `Loc` (the node + the frames of its ancestors), which gives the
  model what the Go code reads through `Parent`, `PrevSibling`, `NextSibling`, `FirstChild`,
  `LastChild`.  Strings are `List Char`.

  Every `selMatch` clause mirrors the `Match` method of the Go type named beside it, quirks
  included (`^= $= *=` never match a blank attribute value — kept by the repository's own tests).
  Not modelled (outside the grammar of the property): `#=`, `:contains*`, `:matches*`, `:input`,
  `:link`, `:lang`, `:enabled`, `:disabled`, `:checked`.
-/
namespace WR.C05

abbrev Str := List Char

/-! ## DOM -/

/-- `html.NodeType`: ElementNode, TextNode, CommentNode, DocumentNode, anything else (Doctype, …). -/
inductive Kind where
  | elem | text | comment | doc | other
  deriving DecidableEq, Repr

abbrev Attr := Str × Str

inductive Node where
  | mk (kind : Kind) (data : Str) (attrs : List Attr) (children : List Node)

namespace Node
def kind : Node → Kind | mk k _ _ _ => k
def data : Node → Str | mk _ d _ _ => d
def attrs : Node → List Attr | mk _ _ a _ => a
def children : Node → List Node | mk _ _ _ c => c
end Node

/-- What a node knows of its parent: the parent's own fields and the siblings on both sides.
    `left` is reversed: its head is the immediately preceding sibling. -/
structure Frame where
  kind : Kind
  data : Str
  attrs : List Attr
  left : List Node
  right : List Node

/-- A node in its tree. `path.head?` is the frame of the parent; `path = []` ⇔ `Parent == nil`. -/
structure Loc where
  node : Node
  path : List Frame

namespace Loc

def kind (l : Loc) : Kind := l.node.kind
def data (l : Loc) : Str := l.node.data
def attrs (l : Loc) : List Attr := l.node.attrs

/-- rebuild the parent node from a frame and the focused child -/
def plug (f : Frame) (n : Node) : Node := .mk f.kind f.data f.attrs (f.left.reverse ++ n :: f.right)

/-- `n.Parent` -/
def parent? : Loc → Option Loc
  | ⟨_, []⟩ => none
  | ⟨n, f :: fs⟩ => some ⟨plug f n, fs⟩

def ancestorsAux : Node → List Frame → List Loc
  | _, [] => []
  | n, f :: fs => ⟨plug f n, fs⟩ :: ancestorsAux (plug f n) fs

/-- `n.Parent, n.Parent.Parent, …` (nearest first) -/
def ancestors (l : Loc) : List Loc := ancestorsAux l.node l.path

def prevAux (f : Frame) (fs : List Frame) : List Node → Node → List Node → List Loc
  | [], _, _ => []
  | p :: ps, cur, right =>
    ⟨p, { f with left := ps, right := cur :: right } :: fs⟩ :: prevAux f fs ps p (cur :: right)

/-- `n.PrevSibling, n.PrevSibling.PrevSibling, …` (nearest first) -/
def prevSibs : Loc → List Loc
  | ⟨_, []⟩ => []
  | ⟨n, f :: fs⟩ => prevAux f fs f.left n f.right

def nextAux (f : Frame) (fs : List Frame) : List Node → Node → List Node → List Loc
  | _, _, [] => []
  | left, cur, q :: qs =>
    ⟨q, { f with left := cur :: left, right := qs } :: fs⟩ :: nextAux f fs (cur :: left) q qs

/-- `n.NextSibling, n.NextSibling.NextSibling, …` (nearest first) -/
def nextSibs : Loc → List Loc
  | ⟨_, []⟩ => []
  | ⟨n, f :: fs⟩ => nextAux f fs f.left n f.right

def childrenAux (k : Kind) (d : Str) (a : List Attr) (fs : List Frame) : List Node → List Node → List Loc
  | _, [] => []
  | left, c :: cs => ⟨c, ⟨k, d, a, left, cs⟩ :: fs⟩ :: childrenAux k d a fs (c :: left) cs

/-- `n.FirstChild, .NextSibling, …` in document order -/
def children (l : Loc) : List Loc :=
  childrenAux l.node.kind l.node.data l.node.attrs l.path [] l.node.children

end Loc

mutual
  /-- the nodes visited by `hasDescendantMatch` below one node: every child, and recursively the
      descendants of the children that are elements (pre-order) -/
  def descNode : Node → List Frame → List Loc
    | .mk k d a cs, fs => descList k d a fs [] cs
  def descList (k : Kind) (d : Str) (a : List Attr) (fs : List Frame) : List Node → List Node → List Loc
    | _, [] => []
    | left, c :: cs =>
      (⟨c, ⟨k, d, a, left, cs⟩ :: fs⟩ ::
        (if c.kind = .elem then descNode c (⟨k, d, a, left, cs⟩ :: fs) else []))
      ++ descList k d a fs (c :: left) cs
end

def Loc.descendants (l : Loc) : List Loc := descNode l.node l.path

mutual
  /-- every node below one node, in document order (used to enumerate a whole tree) -/
  def allNode : Node → List Frame → List Loc
    | .mk k d a cs, fs => allList k d a fs [] cs
  def allList (k : Kind) (d : Str) (a : List Attr) (fs : List Frame) : List Node → List Node → List Loc
    | _, [] => []
    | left, c :: cs =>
      (⟨c, ⟨k, d, a, left, cs⟩ :: fs⟩ :: allNode c (⟨k, d, a, left, cs⟩ :: fs))
      ++ allList k d a fs (c :: left) cs
end

/-- all nodes of the tree rooted at `root` (root first, document order) -/
def allLocs (root : Node) : List Loc := ⟨root, []⟩ :: allNode root []

/-! ## strings (Go `strings`, `unicode`) -/

/-- `spaceAsciiSet` of selector.go: `" \t\r\n\f"` -/
def isAsciiWs (c : Char) : Bool :=
  c == ' ' || c == '\t' || c == '\r' || c == '\n' || c == '\x0c'

/-- `unicode.IsSpace` (what `strings.TrimSpace` strips) -/
def isGoSpace (c : Char) : Bool :=
  let n := c.toNat
  n == 0x20 || (0x09 ≤ n && n ≤ 0x0d) || n == 0x85 || n == 0xa0 || n == 0x1680 ||
  (0x2000 ≤ n && n ≤ 0x200a) || n == 0x2028 || n == 0x2029 || n == 0x202f || n == 0x205f || n == 0x3000

/-- `strings.TrimSpace(s) == ""` -/
def isBlank (s : Str) : Bool := s.all isGoSpace

/-- `strings.Trim(s, " \t\r\n\f") == ""` -/
def isDocBlank (s : Str) : Bool := s.all isAsciiWs

def lowerChar (c : Char) : Char := c.toLower

/-- `asciiLower` of selector.go: the `i` flag is ASCII case-insensitive -/
def lower (s : Str) : Str := s.map lowerChar

/-- `matchInsensitiveValue` -/
def eqVal (s1 s2 : Str) (ic : Bool) : Bool :=
  if ic then lower s1 == lower s2 else s1 == s2

/-- `strings.Contains` -/
def containsSub : Str → Str → Bool
  | [], v => v.isEmpty
  | c :: s, v => v.isPrefixOf (c :: s) || containsSub s v

/-- `asciiSet.index` + slicing, as one step: the part before the first ASCII white space and,
    if there is one, the part after it -/
def cutWs : Str → Str × Option Str
  | [] => ([], none)
  | c :: s => if isAsciiWs c then ([], some s) else
      let r := cutWs s
      (c :: r.1, r.2)

/-- `matchInclude(val, s, ignoreCase)`; the fuel is the number of loop iterations left -/
def matchIncludeFuel (val : Str) (ic : Bool) : Nat → Str → Bool
  | 0, _ => false
  | fuel + 1, s =>
    if s.isEmpty then false else
    match cutWs s with
    | (w, none) => eqVal w val ic
    | (w, some rest) => if eqVal w val ic then true else matchIncludeFuel val ic fuel rest

def matchInclude (val s : Str) (ic : Bool) : Bool :=
  if val.isEmpty then false else matchIncludeFuel val ic (s.length + 1) s

/-- `matchAttribute`: only element nodes have attributes (a Doctype node also has `Attr`) -/
def matchAttribute (kind : Kind) (attrs : List Attr) (key : Str) (f : Str → Bool) : Bool :=
  kind == .elem && attrs.any (fun a => a.1 == key && f a.2)

/-! ## selector AST (the Go types of selector.go / pseudo_classes.go) -/

/-- `attrSelector.operation`: "", "=", "!=", "~=", "|=", "^=", "$=", "*=" -/
inductive AttrOp where
  | has | eq | ne | incl | dash | pre | suf | sub
  deriving DecidableEq, Repr

/-- `relativePseudoClassSelector.name` -/
inductive RelKind where
  | is | not | has | haschild
  deriving DecidableEq, Repr

/-- `combinedSelector.combinator`: ' ', '>', '+', '~' -/
inductive Comb where
  | desc | child | adj | sib
  deriving DecidableEq, Repr

inductive Sel where
  | tag (name : Str)                               -- tagSelector
  | cls (name : Str)                               -- classSelector
  | id (name : Str)                                -- idSelector
  | attr (key val : Str) (op : AttrOp) (ic : Bool) -- attrSelector
  | nth (a b : Int) (last ofType : Bool)           -- nthPseudoClassSelector
  | only (ofType : Bool)                           -- onlyChildPseudoClassSelector
  | empty                                          -- emptyElementPseudoClassSelector
  | root                                           -- rootPseudoClassSelector
  | never (v : Str)                                -- neverMatchSelector (:hover, :visited, …)
  | rel (k : RelKind) (args : List Sel)            -- relativePseudoClassSelector
  | compound (pe : Str) (sels : List Sel)          -- compoundSelector
  | combined (first : Sel) (c : Comb) (second : Sel) -- combinedSelector

/-! ## the counting loops of pseudo_classes.go

  The loops run over the children of the parent; `sibList` is that list, each child tagged with
  `c == n`. -/

def sibList (f : Frame) (n : Node) : List (Bool × Node) :=
  f.left.reverse.map (fun c => (false, c)) ++ (true, n) :: f.right.map (fun c => (false, c))

/-- the `continue` test of all four loops -/
def skips (ofType : Bool) (d : Str) (c : Node) : Bool :=
  c.kind != .elem || (ofType && c.data != d)

/-- loop of `nthChildMatch`; state `(i, count)`, result the state at loop exit -/
def nthLoop (last ofType : Bool) (d : Str) : List (Bool × Node) → Int → Int → Int × Int
  | [], i, count => (i, count)
  | (isN, c) :: rest, i, count =>
    if skips ofType d c then nthLoop last ofType d rest i count
    else
      if isN then
        if !last then (count + 1, count + 1) else nthLoop last ofType d rest (count + 1) (count + 1)
      else nthLoop last ofType d rest i (count + 1)

/-- the final test of `nthChildMatch`: Go's truncating `%` and `/` -/
def nthGo (a i : Int) : Bool := i.tmod a == 0 && i.tdiv a ≥ 0

/-- `nthChildMatch(a, b, last, ofType, n)` -/
def nthChildMatch (a b : Int) (last ofType : Bool) (l : Loc) : Bool :=
  if l.kind != .elem then false else
  match l.path with
  | [] => false
  | f :: _ =>
    let r := nthLoop last ofType l.data (sibList f l.node) (-1) 0
    if r.1 == -1 then false else
    let i := if last then r.2 - r.1 + 1 else r.1
    let i := i - b
    if a == 0 then i == 0 else nthGo a i

/-- loop of `simpleNthChildMatch` / `simpleNthLastChildMatch` (the latter on the reversed list) -/
def simpleLoop (b : Int) (ofType : Bool) (d : Str) : List (Bool × Node) → Int → Bool
  | [], _ => false
  | (isN, c) :: rest, count =>
    if skips ofType d c then simpleLoop b ofType d rest count
    else
      if isN then count + 1 == b
      else if count + 1 ≥ b then false
      else simpleLoop b ofType d rest (count + 1)

def simpleNthMatch (b : Int) (last ofType : Bool) (l : Loc) : Bool :=
  if l.kind != .elem then false else
  match l.path with
  | [] => false
  | f :: _ =>
    let sibs := sibList f l.node
    simpleLoop b ofType l.data (if last then sibs.reverse else sibs) 0

/-- loop of `onlyChildPseudoClassSelector.Match`; `none` = the early `return false` -/
def onlyLoop (ofType : Bool) (d : Str) : List (Bool × Node) → Nat → Option Nat
  | [], count => some count
  | (_, c) :: rest, count =>
    if skips ofType d c then onlyLoop ofType d rest count
    else if count + 1 > 1 then none
    else onlyLoop ofType d rest (count + 1)

def onlyMatch (ofType : Bool) (l : Loc) : Bool :=
  if l.kind != .elem then false else
  match l.path with
  | [] => false
  | f :: _ => onlyLoop ofType l.data (sibList f l.node) 0 == some 1

/-- loop of `emptyElementPseudoClassSelector.Match` over the children -/
def emptyLoop : List Node → Bool
  | [] => true
  | c :: cs =>
    match c.kind with
    | .elem => false
    | .text => if isDocBlank c.data then emptyLoop cs else false
    | _ => emptyLoop cs

/-! ## attribute selectors -/

/-- the test applied to one attribute value (the closures passed to `matchAttribute`) -/
def valMatch (val : Str) (op : AttrOp) (ic : Bool) (s : Str) : Bool :=
  match op with
  | .has => true
  | .eq => eqVal s val ic
  | .ne => eqVal s val ic
  | .incl => matchInclude val s ic
  | .dash =>
      if eqVal s val ic then true
      else if s.length ≤ val.length then false
      else s[val.length]? == some '-' && eqVal (s.take val.length) val ic
  | .pre =>
      if val.isEmpty || isBlank s then false
      else if ic then (lower val).isPrefixOf (lower s) else val.isPrefixOf s
  | .suf =>
      if val.isEmpty || isBlank s then false
      else if ic then (lower val).isSuffixOf (lower s) else val.isSuffixOf s
  | .sub =>
      if val.isEmpty || isBlank s then false
      else if ic then containsSub (lower s) (lower val) else containsSub s val

/-- `attrSelector.Match`; `!=` is `attributeNotEqualMatch` -/
def attrMatch (key val : Str) (op : AttrOp) (ic : Bool) (l : Loc) : Bool :=
  match op with
  | .ne => l.kind == .elem && !(l.attrs.any (fun a => a.1 == key && valMatch val .ne ic a.2))
  | op => matchAttribute l.kind l.attrs key (valMatch val op ic)

/-! ## Match -/

def htmlTag : Str := ['h', 't', 'm', 'l']
def classKey : Str := ['c', 'l', 'a', 's', 's']
def idKey : Str := ['i', 'd']

/-- the node `siblingMatch` (adjacent) tests: the nearest previous sibling that is neither text nor comment -/
def adjacentOf (l : Loc) : Option Loc :=
  l.prevSibs.find? (fun s => s.kind != .text && s.kind != .comment)

mutual
  def selMatch : Sel → Loc → Bool
    | .tag name, l => l.kind == .elem && l.data == name
    | .cls name, l => matchAttribute l.kind l.attrs classKey (fun s => matchInclude name s false)
    | .id name, l => matchAttribute l.kind l.attrs idKey (fun s => s == name)
    | .attr key val op ic, l => attrMatch key val op ic l
    | .nth a b last ofType, l =>
      if a == 0 then simpleNthMatch b last ofType l else nthChildMatch a b last ofType l
    | .only ofType, l => onlyMatch ofType l
    | .empty, l => l.kind == .elem && emptyLoop l.node.children
    | .root, l =>
      l.kind == .elem && l.data == htmlTag &&
      (match l.parent? with | some p => p.kind == .doc | none => true)
    | .never _, _ => false
    | .rel k args, l =>
      l.kind == .elem &&
      (match k with
       | .is => matchAny args l
       | .not => !matchAny args l
       | .has => l.descendants.any (fun d => matchAny args d)
       | .haschild => l.children.any (fun d => matchAny args d))
    | .compound _ sels, l =>
      if sels.isEmpty then l.kind == .elem else matchAll sels l
    | .combined a c d, l =>
      match c with
      | .desc => selMatch d l && l.ancestors.any (fun p => selMatch a p)
      | .child => selMatch d l && (match l.parent? with | some p => selMatch a p | none => false)
      | .adj => selMatch d l && (match adjacentOf l with | some s => selMatch a s | none => false)
      | .sib => selMatch d l && l.prevSibs.any (fun s => selMatch a s)
  /-- `SelectorGroup.Match` -/
  def matchAny : List Sel → Loc → Bool
    | [], _ => false
    | s :: ss, l => selMatch s l || matchAny ss l
  /-- loop of `compoundSelector.Match` -/
  def matchAll : List Sel → Loc → Bool
    | [], _ => true
    | s :: ss, l => selMatch s l && matchAll ss l
end

/-! ## Specificity (specificity.go) -/

structure Specificity where
  a : Nat
  b : Nat
  c : Nat
  deriving DecidableEq, Repr

namespace Specificity
def zero : Specificity := ⟨0, 0, 0⟩

/-- `Specificity.Less` (the loop over the three components, unrolled) -/
def less (s o : Specificity) : Bool :=
  if s.a < o.a then true else if s.a > o.a then false
  else if s.b < o.b then true else if s.b > o.b then false
  else if s.c < o.c then true else if s.c > o.c then false
  else false

/-- `Specificity.Add` -/
def add (s o : Specificity) : Specificity := ⟨s.a + o.a, s.b + o.b, s.c + o.c⟩
end Specificity

mutual
  def specificity : Sel → Specificity
    | .tag _ => ⟨0, 0, 1⟩
    | .cls _ => ⟨0, 1, 0⟩
    | .id _ => ⟨1, 0, 0⟩
    | .attr _ _ _ _ => ⟨0, 1, 0⟩
    | .nth _ _ _ _ => ⟨0, 1, 0⟩
    | .only _ => ⟨0, 1, 0⟩
    | .empty => ⟨0, 1, 0⟩
    | .root => ⟨0, 1, 0⟩
    | .never _ => ⟨0, 1, 0⟩
    | .rel _ args => specMax args .zero
    | .compound pe sels =>
      let out := specSum sels .zero
      if pe.isEmpty then out else out.add ⟨0, 0, 1⟩
    | .combined a _ d => (specificity a).add (specificity d)
  /-- loop of `relativePseudoClassSelector.Specificity` -/
  def specMax : List Sel → Specificity → Specificity
    | [], max => max
    | s :: ss, max =>
      let n := specificity s
      specMax ss (if max.less n then n else max)
  /-- loop of `compoundSelector.Specificity` -/
  def specSum : List Sel → Specificity → Specificity
    | [], out => out
    | s :: ss, out => specSum ss (out.add (specificity s))
end

/-- `combinedSelector.PseudoElement` / `compoundSelector.PseudoElement` -/
def pseudoElement : Sel → Str
  | .compound pe _ => pe
  | .combined _ _ d => pseudoElement d
  | _ => []

end WR.C05
