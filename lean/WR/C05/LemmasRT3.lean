import WR.C05.LemmasRT2
namespace WR.C05.Lemmas
open WR.C05 WR.C05.Parse WR.C05.Print

/-! ### white space -/

theorem skipWs_nil : skipWs [] = [] := rfl

theorem skipWs_stop (c : Char) (t : Str) (h1 : isAsciiWs c = false) (h2 : c ≠ '/') :
    skipWs (c :: t) = c :: t := by
  unfold skipWs
  rw [skipWsF.eq_def]
  simp only [List.length_cons]
  split
  · rename_i h; simp only [List.cons.injEq] at h; exact absurd h.1 h2
  · rename_i c' t' _ h
    simp only [List.cons.injEq] at h
    rw [← h.1, h1]; simp
  · rename_i h; simp at h

theorem skipWs_space (t : Str) : skipWs (' ' :: t) = skipWs t := by
  unfold skipWs
  rw [skipWsF.eq_def]
  simp only [List.length_cons]
  split
  · rename_i h; simp at h
  · rename_i c' t' _ h
    simp only [List.cons.injEq] at h
    rw [← h.1, ← h.2]
    have : isAsciiWs ' ' = true := by decide
    simp [this]
  · rename_i h; simp at h

/-! ### integers -/

def digitStep (v : Nat) (c : Char) : Nat := v * 10 + (c.toNat - 48)

theorem digit_facts : ∀ d, d < 10 →
    (isDigit (Char.ofNat (48 + d)) && decide ((Char.ofNat (48 + d)).toNat - 48 = d) &&
      !isAsciiWs (Char.ofNat (48 + d)) && Char.ofNat (48 + d) != '/' && Char.ofNat (48 + d) != '-' &&
      Char.ofNat (48 + d) != '+' && Char.ofNat (48 + d) != 'n' && Char.ofNat (48 + d) != 'N') = true := by
  decide

theorem natDigitsF_spec : ∀ (fuel n : Nat) (acc : Str), n < fuel →
    ∃ ds, natDigitsF fuel n acc = ds ++ acc ∧ ds ≠ [] ∧ ds.all isDigit = true ∧
      ∀ v0, ds.foldl digitStep v0 = v0 * 10 ^ ds.length + n := by
  intro fuel
  induction fuel with
  | zero => intro n acc h; omega
  | succ fuel ih =>
    intro n acc hn
    unfold natDigitsF
    simp only
    have hd := digit_facts (n % 10) (Nat.mod_lt _ (by omega))
    simp only [Bool.and_eq_true, decide_eq_true_eq] at hd
    split
    · rename_i h0
      refine ⟨[Char.ofNat (48 + n % 10)], rfl, by simp, by simp [hd.1.1.1.1.1.1.1], ?_⟩
      intro v0
      simp only [List.foldl_cons, List.foldl_nil, digitStep, hd.1.1.1.1.1.1.2, List.length_singleton, Nat.pow_one]
      have := Nat.div_add_mod n 10
      omega
    · rename_i h0
      obtain ⟨ds, h1, h2, h3, h4⟩ := ih (n / 10) (Char.ofNat (48 + n % 10) :: acc) (by omega)
      refine ⟨ds ++ [Char.ofNat (48 + n % 10)], by rw [h1]; simp, by simp, by simp [h3, hd.1.1.1.1.1.1.1], ?_⟩
      intro v0
      simp only [List.foldl_append, List.foldl_cons, List.foldl_nil, digitStep, h4, hd.1.1.1.1.1.1.2,
        List.length_append, List.length_singleton, Nat.pow_succ]
      have := Nat.div_add_mod n 10
      rw [Nat.add_mul, Nat.mul_assoc]
      omega

theorem natDigits_spec (n : Nat) :
    natDigits n ≠ [] ∧ (natDigits n).all isDigit = true ∧ (natDigits n).foldl digitStep 0 = n := by
  obtain ⟨ds, h1, h2, h3, h4⟩ := natDigitsF_spec (n + 1) n [] (by omega)
  unfold natDigits
  rw [h1]
  simp only [List.append_nil]
  exact ⟨h2, h3, by rw [h4]; simp⟩

theorem takeWhile_prefix (p : Char → Bool) : ∀ (ds tail : Str), ds.all p = true →
    (∀ c t, tail = c :: t → p c = false) →
    (ds ++ tail).takeWhile p = ds ∧ (ds ++ tail).dropWhile p = tail := by
  intro ds
  induction ds with
  | nil =>
    intro tail _ ht
    cases tail with
    | nil => simp
    | cons c t => simp [ht c t rfl]
  | cons d ds ih =>
    intro tail hall ht
    simp only [List.all_cons, Bool.and_eq_true] at hall
    have := ih tail hall.2 ht
    simp [hall.1, this.1, this.2]

/-- `parseInteger` reads back a printed natural number -/
theorem parseInteger_natDigits (n : Nat) (tail : Str) (hn : n ≤ 9223372036854775807)
    (ht : ∀ c t, tail = c :: t → isDigit c = false) :
    parseInteger (natDigits n ++ tail) = .ok (n, tail) := by
  obtain ⟨h1, h2, h3⟩ := natDigits_spec n
  obtain ⟨t1, t2⟩ := takeWhile_prefix isDigit (natDigits n) tail h2 ht
  unfold parseInteger
  simp only [t1, t2]
  have : (natDigits n).isEmpty = false := by cases h : natDigits n <;> simp_all
  have h3' : (natDigits n).foldl (fun v c => v * 10 + (c.toNat - 48)) 0 = n := h3
  simp only [this, Bool.false_eq_true, ↓reduceIte, h3']
  rw [if_neg (by omega)]

/-! ### an+b -/

theorem digit_props_ascii : ∀ n, n < 128 → isDigit (Char.ofNat n) = true →
    (!isAsciiWs (Char.ofNat n) && Char.ofNat n != '/' && Char.ofNat n != '-' && Char.ofNat n != '+' &&
      Char.ofNat n != 'n' && Char.ofNat n != 'N') = true := by
  decide

theorem digit_props (c : Char) (h : isDigit c = true) :
    isAsciiWs c = false ∧ c ≠ '/' ∧ c ≠ '-' ∧ c ≠ '+' ∧ c ≠ 'n' ∧ c ≠ 'N' := by
  have := digit_props_ascii c.toNat (digit_ascii c h) (by rw [Char.ofNat_toNat]; exact h)
  rw [Char.ofNat_toNat] at this
  simp only [Bool.and_eq_true, Bool.not_eq_true', bne_iff_ne, ne_eq] at this
  obtain ⟨⟨⟨⟨⟨h1, h2⟩, h3⟩, h4⟩, h5⟩, h6⟩ := this
  exact ⟨h1, h2, h3, h4, h5, h6⟩

theorem natDigits_cons (n : Nat) : ∃ d ds, natDigits n = d :: ds ∧ isDigit d = true := by
  obtain ⟨h1, h2, _⟩ := natDigits_spec n
  cases h : natDigits n with
  | nil => exact absurd h h1
  | cons d ds =>
    rw [h] at h2
    simp only [List.all_cons, Bool.and_eq_true] at h2
    exact ⟨d, ds, rfl, h2.1⟩

/-- the `+b` / `-b` part as `nthPseudoClassSelector.String` writes it -/
def printB (b : Int) : Str := if b < 0 then intDigits b else '+' :: intDigits b

theorem nthReadN_print (a b : Int) (hb : intOk b = true) (tail : Str) :
    nthReadN a (printB b ++ (')' :: tail)) = .ok ((a, b), ')' :: tail) := by
  simp only [intOk, decide_eq_true_eq] at hb
  obtain ⟨d, ds, hd, hdig⟩ := natDigits_cons b.natAbs
  obtain ⟨p1, p2, _⟩ := digit_props d hdig
  have hpi := parseInteger_natDigits b.natAbs (')' :: tail) hb (by intro c t h; simp only [List.cons.injEq] at h; rw [← h.1]; decide)
  unfold nthReadN printB intDigits
  by_cases hneg : b < 0
  · simp only [hneg, ↓reduceIte, List.cons_append]
    rw [skipWs_stop '-' _ (by decide) (by decide)]
    simp only
    rw [hd, List.cons_append, skipWs_stop d _ p1 p2, ← List.cons_append, ← hd, hpi]
    simp only [Except.ok.injEq, Prod.mk.injEq, and_true, true_and]
    omega
  · simp only [hneg, ↓reduceIte, List.cons_append]
    rw [skipWs_stop '+' _ (by decide) (by decide)]
    simp only
    rw [hd, List.cons_append, skipWs_stop d _ p1 p2, ← List.cons_append, ← hd, hpi]
    simp only [Except.ok.injEq, Prod.mk.injEq, and_true, true_and]
    omega

theorem nthSignedA_print (neg : Bool) (m : Nat) (b : Int) (hm : m ≤ 9223372036854775807)
    (hb : intOk b = true) (tail : Str) :
    nthSignedA neg (natDigits m ++ ('n' :: (printB b ++ (')' :: tail)))) =
      .ok (((if neg then -(m : Int) else m), b), ')' :: tail) := by
  obtain ⟨d, ds, hd, hdig⟩ := natDigits_cons m
  have hpi := parseInteger_natDigits m ('n' :: (printB b ++ (')' :: tail))) hm
    (by intro c t h; simp only [List.cons.injEq] at h; rw [← h.1]; decide)
  unfold nthSignedA
  rw [hd] at hpi ⊢
  simp only [List.cons_append] at hpi ⊢
  simp only [hdig, ↓reduceIte, hpi]
  exact nthReadN_print _ b hb tail

/-- `parseNth` reads back the `an+b` text the printer writes -/
theorem parseNth_print (a b : Int) (ha : intOk a = true) (hb : intOk b = true) (tail : Str) :
    parseNth (intDigits a ++ ('n' :: (printB b ++ (')' :: tail)))) = .ok ((a, b), ')' :: tail) := by
  have ha' : a.natAbs ≤ 9223372036854775807 := by simpa [intOk] using ha
  unfold parseNth intDigits
  by_cases hneg : a < 0
  · simp only [hneg, ↓reduceIte, List.cons_append, beq_self_eq_true]
    rw [nthSignedA_print true a.natAbs b ha' hb tail]
    simp only [↓reduceIte, Except.ok.injEq, Prod.mk.injEq, and_true]
    omega
  · obtain ⟨d, ds, hd, hdig⟩ := natDigits_cons a.natAbs
    obtain ⟨_, _, p3, p4, _, _⟩ := digit_props d hdig
    have := nthSignedA_print false a.natAbs b ha' hb tail
    simp only [hneg, ↓reduceIte]
    rw [hd] at this ⊢
    simp only [List.cons_append] at this ⊢
    have e1 : (d == '-') = false := by simp [p3]
    have e2 : (d == '+') = false := by simp [p4]
    simp only [e1, Bool.false_eq_true, ↓reduceIte, e2, hdig, this, Except.ok.injEq, Prod.mk.injEq, and_true]
    omega

end WR.C05.Lemmas
