import WR.C05.LemmasRT9
namespace WR.C05.Lemmas
open WR.C05 WR.C05.Parse WR.C05.Print

/-! ### selectors and selector lists -/

theorem printSel_head (s : Sel) (hw : wf 3 s = true) : ∃ h t, printSel s = h :: t ∧ SelHead h := by
  obtain ⟨h, t, hh, hsh⟩ := compound_head (hd s) (wf3_hd s hw)
  exact ⟨h, t ++ restStr s, by rw [printSel_hd s, hh, List.cons_append], hsh⟩

/-- `parseSelector` reads back a printed complex selector (with or without a space before it) -/
theorem selector_thm (s : Sel) (hw : wf 3 s = true) (hc : ComplexStmt s) (sp : Bool) (f : Nat) (tail : Str)
    (ht : TailOf selFollow tail) (hb : 2 * (printSel s ++ tail).length + 6 ≤ f) :
    parseSelectorF f ((if sp then [' '] else []) ++ (printSel s ++ tail)) = .ok (s, tail) := by
  obtain ⟨h, t, hh, hsh⟩ := printSel_head s hw
  obtain ⟨p1, p2, _, _⟩ := selHead_props hsh
  have hskip : skipWs ((if sp then [' '] else []) ++ (printSel s ++ tail)) = printSel s ++ tail := by
    cases sp
    · simp only [Bool.false_eq_true, ↓reduceIte, List.nil_append]
      rw [hh, List.cons_append, skipWs_stop h _ p1 p2]
    · simp only [↓reduceIte, List.cons_append, List.nil_append]
      rw [skipWs_space, hh, List.cons_append, skipWs_stop h _ p1 p2]
  match f, hb with
  | g + 1, hb =>
    rw [parseSelectorF.eq_def]
    simp only [hskip]
    have hdec : printSel s ++ tail = printSel (hd s) ++ (restStr s ++ tail) := by
      rw [printSel_hd s]; simp
    have hlen := congrArg List.length hdec
    simp only [List.length_append] at hlen hb
    rw [hdec, hc.1 g (restStr s ++ tail) (restStr_tail s tail (sel_comp ht))
      (by simp only [List.length_append]; omega)]
    simp only
    obtain ⟨f', hf', heq⟩ := hc.2 g tail (sel_comp ht) (by simp only [List.length_append]; omega)
    rw [heq]
    match f', hf' with
    | f'' + 1, _ => exact selectorLoopF_end f'' tail s ht

def closeFollow (c : Char) : Bool := c == ')'

def GroupLoopStmt (ss : List Sel) : Prop :=
  ∀ (f : Nat) (tail : Str) (acc : List Sel), TailOf closeFollow tail →
    2 * (sepPrint ss ++ tail).length + 6 ≤ f →
    groupLoopF f (sepPrint ss ++ tail) acc = .ok (acc.reverse ++ ss, tail)

theorem group_nil : GroupLoopStmt [] := by
  intro f tail acc ht hb
  match f, hb with
  | g + 1, _ =>
    rw [groupLoopF.eq_def]
    cases tail with
    | nil => simp [sepPrint]
    | cons c t =>
      simp only [TailOf, closeFollow, beq_iff_eq] at ht
      subst ht
      simp [sepPrint]

theorem sepPrint_tail (ss : List Sel) (tail : Str) (ht : TailOf closeFollow tail) :
    TailOf selFollow (sepPrint ss ++ tail) := by
  cases ss with
  | nil =>
    cases tail with
    | nil => trivial
    | cons c t =>
      simp only [TailOf, closeFollow, beq_iff_eq] at ht
      subst ht
      simp [sepPrint, TailOf, selFollow]
  | cons s ss => simp [sepPrint, TailOf, selFollow]

theorem group_cons (s : Sel) (ss : List Sel) (hw : wf 3 s = true) (hc : ComplexStmt s)
    (hg : GroupLoopStmt ss) : GroupLoopStmt (s :: ss) := by
  intro f tail acc ht hb
  simp only [sepPrint, List.cons_append, List.length_cons, List.append_assoc] at hb ⊢
  match f, hb with
  | g + 1, hb =>
    rw [groupLoopF.eq_def]
    simp only
    have hsel := selector_thm s hw hc true g (sepPrint ss ++ tail) (sepPrint_tail ss tail ht)
      (by simp only [List.length_append] at hb ⊢; omega)
    simp only [↓reduceIte, List.cons_append, List.nil_append] at hsel
    rw [hsel]
    simp only
    rw [hg g tail (s :: acc) ht (by simp only [List.length_append] at hb ⊢; omega)]
    simp

/-- `parseSelectorGroup` reads back a printed selector list -/
theorem group_thm (s : Sel) (ss : List Sel) (hw : wf 3 s = true) (hc : ComplexStmt s)
    (hg : GroupLoopStmt ss) (f : Nat) (tail : Str) (ht : TailOf closeFollow tail)
    (hb : 2 * (printGroup (s :: ss) ++ tail).length + 7 ≤ f) :
    parseGroupF f (printGroup (s :: ss) ++ tail) = .ok (s :: ss, tail) := by
  rw [printGroup_cons, List.append_assoc] at hb ⊢
  match f, hb with
  | g + 1, hb =>
    rw [parseGroupF.eq_def]
    simp only
    have hsel := selector_thm s hw hc false g (sepPrint ss ++ tail) (sepPrint_tail ss tail ht)
      (by simp only [List.length_append] at hb ⊢; omega)
    simp only [Bool.false_eq_true, ↓reduceIte, List.nil_append] at hsel
    rw [hsel]
    simp only
    rw [hg g tail [s] ht (by simp only [List.length_append] at hb ⊢; omega)]
    simp

end WR.C05.Lemmas
