import WR.C05.LemmasRT5
namespace WR.C05.Lemmas
open WR.C05 WR.C05.Parse WR.C05.Print

/-! ### pseudo-classes -/

/-- `parsePseudoclassSelector` after it has read the (lower-case) name `nm` of a pseudo-class -/
def pseudoBody (f : Nat) (name r : Str) : Res Pseudo :=
  match relOf name with
  | some k =>
    match consumeParen r with
    | none => .error .malformed
    | some r1 =>
      match parseGroupF f r1 with
      | .error e => .error e
      | .ok (g, r2) =>
        match consumeClosing r2 with
        | none => .error .malformed
        | some r3 => .ok (.sel (.rel k g), r3)
  | none =>
    if unsupportedNames.contains name then .error .unsupported
    else
      match nthOf name with
      | some (last, ofType) =>
        match consumeParen r with
        | none => .error .malformed
        | some r1 =>
          match parseNth r1 with
          | .error e => .error e
          | .ok ((a, b), r2) =>
            match consumeClosing r2 with
            | none => .error .malformed
            | some r3 => .ok (.sel (.nth a b last ofType), r3)
      | none =>
        match plainOf name with
        | some sel => .ok (.sel sel, r)
        | none =>
          if neverNames.contains name then .ok (.sel (.never (':' :: name)), r)
          else if pseudoElements.contains name then .ok (.elem name, r)
          else .error .malformed

theorem parsePseudoF_name (f : Nat) (nm rest : Str) (hn : plainName nm = true) (hl : lower nm = nm)
    (hstop : StopsName rest) :
    parsePseudoF (f + 1) (':' :: (nm ++ rest)) = pseudoBody f nm rest := by
  cases nm with
  | nil => simp [plainName] at hn
  | cons c n' =>
    have hn' := hn
    simp only [plainName, Bool.and_eq_true] at hn'
    have hlp := letter_props_ascii c.toNat (letter_ascii c hn'.1) (by rw [Char.ofNat_toNat]; exact hn'.1)
    rw [Char.ofNat_toNat] at hlp
    simp only [Bool.and_eq_true, bne_iff_ne, ne_eq, Bool.not_eq_true'] at hlp
    have hcolon : (c == ':') = false := by simp [hlp.1.1.1.1.1.1.2]
    have hp := parseIdentifier_plain (c :: n') rest hn hstop
    rw [parsePseudoF.eq_def]
    simp only [List.cons_append] at hp ⊢
    simp only [hcolon, Bool.false_eq_true, ↓reduceIte, hp, hl, Bool.false_and]
    rfl

theorem pe_facts : ∀ nm ∈ pseudoElements,
    (plainName nm && lower nm == nm && (relOf nm).isNone && !unsupportedNames.contains nm &&
      (nthOf nm).isNone && (plainOf nm).isNone && !neverNames.contains nm) = true := by
  decide

/-- `::name`: a pseudo-element -/
theorem parsePseudoF_elem (f : Nat) (nm rest : Str) (hpe : pseudoElements.contains nm = true)
    (hstop : StopsName rest) :
    parsePseudoF (f + 1) (':' :: ':' :: (nm ++ rest)) = .ok (.elem nm, rest) := by
  have hf := pe_facts nm (by simpa using hpe)
  simp only [Bool.and_eq_true, beq_iff_eq, Option.isNone_iff_eq_none, Bool.not_eq_true'] at hf
  obtain ⟨⟨⟨⟨⟨⟨h1, h2⟩, h3⟩, h4⟩, h5⟩, h6⟩, h7⟩ := hf
  have hp := parseIdentifier_plain nm rest h1 hstop
  rw [parsePseudoF.eq_def]
  simp only [beq_self_eq_true, ↓reduceIte, hp, h2, hpe, Bool.not_true, Bool.and_false, Bool.false_eq_true,
    h3, h4, h5, h6, h7]

/-- a pseudo-class written `:name` -/
theorem step_pseudo_plain (s : Sel) (nm : Str) (hprint : printSel s = ':' :: nm)
    (hn : plainName nm = true) (hl : lower nm = nm)
    (hbody : ∀ f r, pseudoBody f nm r = .ok (.sel s, r))
    (f : Nat) (tail : Str) (acc : List Sel) (ht : TailOf simpleFollow tail) :
    seqLoopF (f + 1) (printSel s ++ tail) acc [] = seqLoopF f tail (s :: acc) [] := by
  cases f with
  | zero =>
    -- the loop has no fuel left on both sides after this step
    rw [hprint, List.cons_append, seqLoopF_pseudo]
    simp [parsePseudoF, seqLoopF]
  | succ f =>
    rw [hprint, List.cons_append, seqLoopF_pseudo, parsePseudoF_name f nm tail hn hl (tail_stopsName ht), hbody]

theorem never_facts : ∀ nm ∈ neverNames,
    (plainName nm && lower nm == nm && (relOf nm).isNone && !unsupportedNames.contains nm &&
      (nthOf nm).isNone && (plainOf nm).isNone) = true := by
  decide

theorem step_simple_plain (s : Sel) (hs : wf 0 s = true)
    (hshape : match s with
      | .only _ | .empty | .root | .never _ => True
      | .nth a b _ _ => a = 0 ∧ b = 1
      | _ => False)
    (f : Nat) (tail : Str) (acc : List Sel) (ht : TailOf simpleFollow tail) :
    seqLoopF (f + 1) (printSel s ++ tail) acc [] = seqLoopF f tail (s :: acc) [] := by
  cases s with
  | only t =>
    cases t
    · exact step_pseudo_plain _ (strOf "only-child") rfl (by decide) (by decide) (fun _ _ => rfl) f tail acc ht
    · exact step_pseudo_plain _ (strOf "only-of-type") rfl (by decide) (by decide) (fun _ _ => rfl) f tail acc ht
  | empty => exact step_pseudo_plain _ (strOf "empty") rfl (by decide) (by decide) (fun _ _ => rfl) f tail acc ht
  | root => exact step_pseudo_plain _ (strOf "root") rfl (by decide) (by decide) (fun _ _ => rfl) f tail acc ht
  | nth a b l t =>
    obtain ⟨ha, hb⟩ := hshape
    subst ha; subst hb
    cases l <;> cases t
    · exact step_pseudo_plain _ (strOf "first-child") rfl (by decide) (by decide) (fun _ _ => rfl) f tail acc ht
    · exact step_pseudo_plain _ (strOf "first-of-type") rfl (by decide) (by decide) (fun _ _ => rfl) f tail acc ht
    · exact step_pseudo_plain _ (strOf "last-child") rfl (by decide) (by decide) (fun _ _ => rfl) f tail acc ht
    · exact step_pseudo_plain _ (strOf "last-of-type") rfl (by decide) (by decide) (fun _ _ => rfl) f tail acc ht
  | never v =>
    cases v with
    | nil => simp [wf] at hs
    | cons c n =>
      simp only [wf] at hs
      split at hs
      · rename_i n' heq
        simp only [List.cons.injEq] at heq
        obtain ⟨rfl, rfl⟩ := heq
        have hf := never_facts n (by simpa using hs)
        simp only [Bool.and_eq_true, beq_iff_eq, Option.isNone_iff_eq_none, Bool.not_eq_true'] at hf
        obtain ⟨⟨⟨⟨⟨h1, h2⟩, h3⟩, h4⟩, h5⟩, h6⟩ := hf
        refine step_pseudo_plain _ n rfl h1 h2 ?_ f tail acc ht
        intro f r
        simp only [pseudoBody, h3, h4, h5, h6, hs, Bool.false_eq_true, ↓reduceIte]
      · simp at hs
  | _ => exact absurd hshape (by simp)

/-! ### `:nth-*(an+b)` -/

theorem pseudoBody_nth (l t : Bool) (f : Nat) (r : Str) :
    pseudoBody f (nthName l t) r =
      match consumeParen r with
      | none => .error .malformed
      | some r1 =>
        match parseNth r1 with
        | .error e => .error e
        | .ok ((a, b), r2) =>
          match consumeClosing r2 with
          | none => .error .malformed
          | some r3 => .ok (.sel (.nth a b l t), r3) := by
  cases l <;> cases t <;> rfl

theorem nthName_facts (l t : Bool) : plainName (nthName l t) = true ∧ lower (nthName l t) = nthName l t := by
  cases l <;> cases t <;> exact ⟨by decide, by decide⟩

theorem intDigits_head (a : Int) : ∃ h t, intDigits a = h :: t ∧ isAsciiWs h = false ∧ h ≠ '/' := by
  unfold intDigits
  split
  · exact ⟨'-', _, rfl, by decide, by decide⟩
  · obtain ⟨d, ds, hd, hdig⟩ := natDigits_cons a.natAbs
    obtain ⟨p1, p2, _⟩ := digit_props d hdig
    exact ⟨d, ds, hd, p1, p2⟩

theorem consumeClosing_paren (tail : Str) : consumeClosing (')' :: tail) = some tail := by
  unfold consumeClosing
  rw [skipWs_stop ')' tail (by decide) (by decide)]
  rfl

theorem stopsName_paren (X : Str) : StopsName ('(' :: X) := ⟨by decide, by decide⟩

theorem printNth_general (a b : Int) (l t : Bool) (h : (a == 0 && b == 1) = false) (tail : Str) :
    printSel (.nth a b l t) ++ tail =
      ':' :: (nthName l t ++ ('(' :: (intDigits a ++ ('n' :: (printB b ++ (')' :: tail)))))) := by
  simp only [printSel, printNth, h, Bool.false_eq_true, ↓reduceIte, printB]
  simp [List.append_assoc]

theorem step_nth (a b : Int) (l t : Bool) (hs : wf 0 (.nth a b l t) = true) (f : Nat) (tail : Str)
    (acc : List Sel) (ht : TailOf simpleFollow tail) :
    seqLoopF (f + 1) (printSel (.nth a b l t) ++ tail) acc [] = seqLoopF f tail (.nth a b l t :: acc) [] := by
  by_cases h01 : (a == 0 && b == 1) = true
  · simp only [Bool.and_eq_true, beq_iff_eq] at h01
    exact step_simple_plain _ hs h01 f tail acc ht
  · have h01' : (a == 0 && b == 1) = false := by simpa using h01
    simp only [wf, Bool.and_eq_true] at hs
    rw [printNth_general a b l t h01' tail]
    cases f with
    | zero => rw [seqLoopF_pseudo]; simp [parsePseudoF, seqLoopF]
    | succ f =>
      obtain ⟨hn, hl⟩ := nthName_facts l t
      obtain ⟨h, r, hd, hws, hsl⟩ := intDigits_head a
      rw [seqLoopF_pseudo, parsePseudoF_name f (nthName l t) _ hn hl (stopsName_paren _), pseudoBody_nth]
      simp only [consumeParen]
      rw [hd, List.cons_append, skipWs_stop h _ hws hsl, ← List.cons_append, ← hd,
        parseNth_print a b hs.1 hs.2 tail]
      simp only [consumeClosing_paren]

end WR.C05.Lemmas
