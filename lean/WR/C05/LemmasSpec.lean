/-
  C05 — helper lemmas: specificity.
-/
import WR.C05.Domain
namespace WR.C05.Lemmas
open WR.C05 WR.C05.Spec

theorem less_iff (s o : Specificity) :
    s.less o = true ↔ (s.a < o.a ∨ (s.a = o.a ∧ (s.b < o.b ∨ (s.b = o.b ∧ s.c < o.c)))) := by
  unfold Specificity.less
  repeat' split
  all_goals simp
  all_goals omega

theorem specLe_of_less {s o : Specificity} (h : s.less o = true) : SpecLe s o := by
  have := (less_iff s o).1 h
  unfold SpecLe; omega

theorem specLe_of_not_less {s o : Specificity} (h : s.less o = false) : SpecLe o s := by
  have : ¬ _ := fun h' => by rw [(less_iff s o).2 h'] at h; exact Bool.noConfusion h
  unfold SpecLe; omega

theorem specLe_refl (s : Specificity) : SpecLe s s := by unfold SpecLe; omega

theorem specLe_trans {x y z : Specificity} (h1 : SpecLe x y) (h2 : SpecLe y z) : SpecLe x z := by
  unfold SpecLe at *; omega

theorem specLe_zero {x : Specificity} (h : SpecLe x .zero) : x = .zero := by
  obtain ⟨a, b, c⟩ := x
  simp only [SpecLe, Specificity.zero] at h
  simp only [Specificity.zero, Specificity.mk.injEq]; omega

/-- the loop of `relativePseudoClassSelector.Specificity` on the list of the arguments' weights -/
def maxLoop : List Specificity → Specificity → Specificity
  | [], m => m
  | n :: ns, m => maxLoop ns (if m.less n then n else m)

theorem specMax_eq (ss : List Sel) (m : Specificity) :
    specMax ss m = maxLoop (ss.map specificity) m := by
  induction ss generalizing m with
  | nil => simp [specMax, maxLoop]
  | cons s ss ih => simp [specMax, maxLoop, ih]

theorem maxLoop_spec (xs : List Specificity) :
    ∀ m, (maxLoop xs m = m ∨ maxLoop xs m ∈ xs) ∧ SpecLe m (maxLoop xs m) ∧
      ∀ x ∈ xs, SpecLe x (maxLoop xs m) := by
  induction xs with
  | nil => intro m; simp [maxLoop, specLe_refl]
  | cons n ns ih =>
    intro m
    simp only [maxLoop]
    cases h : m.less n
    · simp only [Bool.false_eq_true, ↓reduceIte]
      obtain ⟨h1, h2, h3⟩ := ih m
      refine ⟨?_, h2, ?_⟩
      · rcases h1 with h1 | h1
        · exact Or.inl h1
        · exact Or.inr (List.mem_cons_of_mem _ h1)
      · intro x hx
        rcases List.mem_cons.1 hx with rfl | hx
        · exact specLe_trans (specLe_of_not_less h) h2
        · exact h3 x hx
    · simp only [↓reduceIte]
      obtain ⟨h1, h2, h3⟩ := ih n
      refine ⟨?_, specLe_trans (specLe_of_less h) h2, ?_⟩
      · rcases h1 with h1 | h1
        · exact Or.inr (by rw [h1]; simp)
        · exact Or.inr (List.mem_cons_of_mem _ h1)
      · intro x hx
        rcases List.mem_cons.1 hx with rfl | hx
        · exact h2
        · exact h3 x hx

theorem maxLoop_mostSpecific (xs : List Specificity) : IsMostSpecific xs (maxLoop xs .zero) := by
  obtain ⟨h1, _, h3⟩ := maxLoop_spec xs .zero
  refine ⟨?_, h3⟩
  rcases h1 with h1 | h1
  · cases xs with
    | nil => exact Or.inr ⟨rfl, h1⟩
    | cons x xs =>
      left
      have := h3 x (by simp)
      rw [h1] at this
      rw [h1, ← specLe_zero this]; simp
  · exact Or.inl h1

theorem add_assoc' (x y z : Specificity) : (x.add y).add z = x.add (y.add z) := by
  simp only [Specificity.add, Specificity.mk.injEq]; omega

theorem zero_add' (x : Specificity) : Specificity.zero.add x = x := by
  simp [Specificity.add, Specificity.zero]

theorem add_zero' (x : Specificity) : x.add .zero = x := by
  simp [Specificity.add, Specificity.zero]

theorem specSum_eq (ss : List Sel) (out : Specificity) :
    specSum ss out = out.add ((ss.map specificity).foldr Specificity.add .zero) := by
  induction ss generalizing out with
  | nil => simp [specSum, add_zero']
  | cons s ss ih => simp [specSum, ih, add_assoc']

end WR.C05.Lemmas
