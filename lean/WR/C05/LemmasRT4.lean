import WR.C05.LemmasRT3
namespace WR.C05.Lemmas
open WR.C05 WR.C05.Parse WR.C05.Print

/-! ### what can follow a printed selector -/

/-- the characters that follow a printed simple selector: the start of another one, or what follows
    a compound selector -/
def simpleFollow (c : Char) : Bool :=
  c == '#' || c == '.' || c == '[' || c == ':' || c == ' ' || c == ',' || c == ')'

/-- the characters that follow a printed compound selector -/
def compFollow (c : Char) : Bool := c == ' ' || c == ',' || c == ')'

def TailOf (p : Char → Bool) : Str → Prop
  | [] => True
  | c :: _ => p c = true

theorem simpleFollow_facts : ∀ c ∈ "#.[: ,)".toList,
    (!nameChar c && c != '\\' && !isDigit c) = true := by decide

theorem tail_stopsName {tail : Str} (h : TailOf simpleFollow tail) : StopsName tail := by
  cases tail with
  | nil => trivial
  | cons c t =>
    have hm : c ∈ "#.[: ,)".toList := by
      simp only [TailOf, simpleFollow, Bool.or_eq_true, beq_iff_eq] at h
      rcases h with (((((h | h) | h) | h) | h) | h) | h <;> (subst h; decide)
    have := simpleFollow_facts c hm
    simp only [Bool.and_eq_true, Bool.not_eq_true', bne_iff_ne, ne_eq] at this
    exact ⟨this.1.1, this.1.2⟩

theorem comp_simple {tail : Str} (h : TailOf compFollow tail) : TailOf simpleFollow tail := by
  cases tail with
  | nil => trivial
  | cons c t =>
    simp only [TailOf, compFollow, simpleFollow, Bool.or_eq_true, beq_iff_eq] at h ⊢
    rcases h with (h | h) | h <;> simp [h]

/-! ### plain names (the keywords of the grammar) -/

/-- letters, digits and hyphens, starting with a letter: what the pseudo-class names are made of -/
def plainName (n : Str) : Bool :=
  match n with
  | [] => false
  | c :: _ => isLetter c && n.all (fun x => isLetter x || x == '-' || isDigit x)

theorem plain_char_name (x : Char) (h : (isLetter x || x == '-' || isDigit x) = true) : nameChar x = true := by
  unfold nameChar
  simp only [Bool.or_eq_true] at h ⊢
  rcases h with (h | h) | h
  · exact Or.inl (Or.inl (Or.inl (Or.inl h)))
  · exact Or.inl (Or.inr h)
  · exact Or.inr h

theorem parseNameF_plain : ∀ (n : Str), n.all (fun x => isLetter x || x == '-' || isDigit x) = true →
    ∀ (fuel : Nat) (tail acc : Str), StopsName tail → (n ++ tail).length < fuel →
      parseNameF fuel (n ++ tail) acc = finishName tail (n.reverse ++ acc) := by
  intro n
  induction n with
  | nil =>
    intro _ fuel tail acc hstop hlen
    cases fuel with
    | zero => omega
    | succ fuel => simpa using parseNameF_stop fuel tail acc hstop
  | cons c n ih =>
    intro hall fuel tail acc hstop hlen
    simp only [List.all_cons, Bool.and_eq_true] at hall
    cases fuel with
    | zero => omega
    | succ fuel =>
      simp only [List.cons_append, List.length_cons] at hlen ⊢
      rw [parseNameF_cons]
      simp only [plain_char_name c hall.1, ↓reduceIte]
      rw [ih hall.2 fuel tail (c :: acc) hstop (by omega)]
      simp

theorem letter_props_ascii : ∀ n, n < 128 → isLetter (Char.ofNat n) = true →
    (nameStart (Char.ofNat n) && Char.ofNat n != '-' && Char.ofNat n != ':' && !isAsciiWs (Char.ofNat n) &&
      Char.ofNat n != '/' && Char.ofNat n != '*' && Char.ofNat n != '#' && Char.ofNat n != '.' &&
      Char.ofNat n != '[') = true := by
  decide

theorem letter_ascii (c : Char) (h : isLetter c = true) : c.toNat < 128 := by
  simp only [isLetter, Bool.or_eq_true, Bool.and_eq_true, decide_eq_true_eq] at h
  have hz : ('z' : Char).val.toNat = 122 := by decide
  have hZ : ('Z' : Char).val.toNat = 90 := by decide
  rcases h with h | h
  · have := UInt32.le_iff_toNat_le.1 (Char.le_def.1 h.2)
    simp only [Char.toNat]; omega
  · have := UInt32.le_iff_toNat_le.1 (Char.le_def.1 h.2)
    simp only [Char.toNat]; omega

/-- `parseIdentifier` reads a keyword of the grammar -/
theorem parseIdentifier_plain (n tail : Str) (hn : plainName n = true) (hstop : StopsName tail) :
    parseIdentifier (n ++ tail) = .ok (n, tail) := by
  cases n with
  | nil => simp [plainName] at hn
  | cons c n' =>
    simp only [plainName, Bool.and_eq_true] at hn
    have hl := letter_props_ascii c.toNat (letter_ascii c hn.1) (by rw [Char.ofNat_toNat]; exact hn.1)
    rw [Char.ofNat_toNat] at hl
    simp only [Bool.and_eq_true, bne_iff_ne, ne_eq, Bool.not_eq_true'] at hl
    have hdash : (c == '-') = false := by simp [hl.1.1.1.1.1.1.1.2]
    have hp : parseName (c :: n' ++ tail) = .ok (c :: n', tail) := by
      unfold parseName
      rw [parseNameF_plain (c :: n') hn.2 _ tail [] hstop (by omega)]
      simp [finishName]
    unfold parseIdentifier
    simp only [List.cons_append, List.takeWhile_cons, List.dropWhile_cons, hdash, Bool.false_eq_true,
      ↓reduceIte, hl.1.1.1.1.1.1.1.1, Bool.true_or, Bool.not_true]
    simp only [List.cons_append] at hp
    rw [hp]; rfl

/-! ### one step of the loop of `parseSimpleSelectorSequence` -/

theorem seqLoopF_id (f : Nat) (t : Str) (acc : List Sel) :
    seqLoopF (f + 1) ('#' :: t) acc [] =
      match parseName t with
      | .error e => .error e
      | .ok (n, r) => seqLoopF f r (.id n :: acc) [] := by
  rw [seqLoopF.eq_def]; rfl

theorem seqLoopF_cls (f : Nat) (t : Str) (acc : List Sel) :
    seqLoopF (f + 1) ('.' :: t) acc [] =
      match parseIdentifier t with
      | .error e => .error e
      | .ok (n, r) => seqLoopF f r (.cls n :: acc) [] := by
  rw [seqLoopF.eq_def]; rfl

theorem seqLoopF_attr (f : Nat) (t : Str) (acc : List Sel) :
    seqLoopF (f + 1) ('[' :: t) acc [] =
      match parseAttr ('[' :: t) with
      | .error e => .error e
      | .ok (a, r) => seqLoopF f r (a :: acc) [] := by
  rw [seqLoopF.eq_def]; rfl

theorem seqLoopF_pseudo (f : Nat) (t : Str) (acc : List Sel) :
    seqLoopF (f + 1) (':' :: t) acc [] =
      match parsePseudoF f (':' :: t) with
      | .error e => .error e
      | .ok (.sel ns, r) => seqLoopF f r (ns :: acc) []
      | .ok (.elem name, r) => seqLoopF f r acc name := by
  rw [seqLoopF.eq_def]; rfl

theorem seqLoopF_finish (f : Nat) (tail : Str) (acc : List Sel) (pe : Str) (h : TailOf compFollow tail) :
    seqLoopF (f + 1) tail acc pe =
      match acc, pe with
      | [one], [] => .ok (one, tail)
      | _, _ => .ok (.compound pe acc.reverse, tail) := by
  rw [seqLoopF.eq_def]
  cases tail with
  | nil => rfl
  | cons c t =>
    simp only [TailOf, compFollow, Bool.or_eq_true, beq_iff_eq] at h
    rcases h with (h | h) | h <;> subst h <;> rfl

end WR.C05.Lemmas
