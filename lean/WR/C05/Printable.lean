/-
  C05 — the selector ASTs for which `String()` is proved to parse back to the same AST: exactly the
  shapes `ParseGroup` can produce, minus names containing U+0000 (printed as U+FFFD, as CSSOM asks).
-/
import WR.C05.Printer
namespace WR.C05
open WR.C05.Parse

/-- a name the printer can write as an identifier that parses back: non-empty, no U+0000 -/
def identOk (n : Str) : Bool := !n.isEmpty && n.all (fun c => c.toNat != 0)

/-- a name the parser lower-cases (tags, attribute names) -/
def lowerOk (n : Str) : Bool := identOk n && lower n == n

/-- an attribute value: no U+0000 -/
def valuePrintable (v : Str) : Bool := v.all (fun c => c.toNat != 0)

/-- an integer `strconv.Atoi` reads back -/
def intOk (i : Int) : Bool := i.natAbs ≤ 9223372036854775807

mutual
  /-- `wf lvl s`: `s` is a simple selector other than a type selector (`lvl = 0`), a simple selector
      (`1`), a compound selector as the parser builds it (`2`), a complex selector (`3`) -/
  def wf : Nat → Sel → Bool
    | lvl, .tag n => decide (1 ≤ lvl) && lowerOk n
    | _, .cls n => identOk n
    | _, .id n => identOk n
    | _, .attr key val op ic =>
      lowerOk key && (match op with | .has => val.isEmpty && !ic | _ => valuePrintable val)
    | _, .nth a b _ _ => intOk a && intOk b
    | _, .only _ => true
    | _, .empty => true
    | _, .root => true
    | _, .never v => (match v with | ':' :: n => neverNames.contains n | _ => false)
    | _, .rel _ args => !args.isEmpty && wfs 3 args
    | lvl, .compound pe sels =>
      decide (2 ≤ lvl) && (pe.isEmpty || pseudoElements.contains pe) &&
      !(pe.isEmpty && sels.length == 1) &&
      (match sels with
       | [] => true
       | h :: t => wf 1 h && wfs 0 t)
    | lvl, .combined a _ d => decide (3 ≤ lvl) && wf 3 a && wf 2 d
  def wfs : Nat → List Sel → Bool
    | _, [] => true
    | lvl, s :: ss => wf lvl s && wfs lvl ss
end

/-- a selector list `String()` round-trips: non-empty, every member a well-formed complex selector -/
def groupPrintable (g : List Sel) : Bool := !g.isEmpty && wfs 3 g

end WR.C05
