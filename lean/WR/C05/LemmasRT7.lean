import WR.C05.LemmasRT6
namespace WR.C05.Lemmas
open WR.C05 WR.C05.Parse WR.C05.Print

/-! ### the shape of printed selectors -/

/-- the leftmost compound selector of a complex selector -/
def hd : Sel → Sel
  | .combined a _ _ => hd a
  | s => s

/-- what `String()` writes after the leftmost compound selector -/
def restStr : Sel → Str
  | .combined a c d => restStr a ++ (' ' :: (combStr c ++ (' ' :: printSel d)))
  | _ => []

theorem printSel_hd : ∀ (s : Sel), printSel s = printSel (hd s) ++ restStr s
  | .combined a c d => by
    have := printSel_hd a
    simp only [printSel, hd, restStr, this, List.append_assoc, List.cons_append, List.nil_append]
  | .tag _ | .cls _ | .id _ | .attr _ _ _ _ | .nth _ _ _ _ | .only _ | .empty | .root | .never _
  | .rel _ _ | .compound _ _ => by simp [hd, restStr]

/-- `, s` for every further member of a selector list -/
def sepPrint : List Sel → Str
  | [] => []
  | s :: ss => ',' :: ' ' :: (printSel s ++ sepPrint ss)

theorem printGroup_cons (s : Sel) (ss : List Sel) : printGroup (s :: ss) = printSel s ++ sepPrint ss := by
  induction ss generalizing s with
  | nil => simp [printGroup, sepPrint]
  | cons s2 ss ih => simp [printGroup, sepPrint, ih s2]

/-- the first character of a printed selector -/
def SelHead (h : Char) : Prop := identHead h ∨ h = '*' ∨ (h == '#' || h == '.' || h == '[' || h == ':') = true

theorem selHead_props {h : Char} (hh : SelHead h) :
    isAsciiWs h = false ∧ h ≠ '/' ∧ (h == '+' || h == '>' || h == '~') = false ∧ (h == ',' || h == ')') = false := by
  rcases hh with hh | hh | hh
  · have := identHead_props hh; exact ⟨this.ws, this.slash, this.comb, this.close⟩
  · subst hh; exact ⟨by decide, by decide, by decide, by decide⟩
  · simp only [Bool.or_eq_true, beq_iff_eq] at hh
    rcases hh with ((hh | hh) | hh) | hh <;> subst hh <;> exact ⟨by decide, by decide, by decide, by decide⟩

theorem printTag_head (n : Str) (hok : lowerOk n = true) : ∃ h t, printTag n = h :: t ∧ identHead h := by
  simp only [lowerOk, Bool.and_eq_true] at hok
  unfold printTag
  split
  · rename_i hraw
    have : n ∈ rawAtoms := by simpa using hraw
    simp only [rawAtoms, List.map_cons, List.map_nil, List.mem_cons, List.not_mem_nil, or_false] at this
    rcases this with h | h | h <;> subst h <;> exact ⟨_, _, rfl, Or.inr (Or.inr (by decide))⟩
  · exact escape_head n hok.1

/-- a simple selector other than a type selector starts with `#`, `.`, `[` or `:` -/
theorem simple_head (s : Sel) (hs : wf 0 s = true) :
    ∃ h t, printSel s = h :: t ∧ (h == '#' || h == '.' || h == '[' || h == ':') = true := by
  cases s with
  | tag n => simp [wf] at hs
  | cls n => exact ⟨'.', _, rfl, by decide⟩
  | id n => exact ⟨'#', _, rfl, by decide⟩
  | attr k v o i => exact ⟨'[', _, by simp only [printSel, List.cons_append]; rfl, by decide⟩
  | nth a b l t =>
    refine ⟨':', ?_, ?_, by decide⟩
    · exact (printSel (.nth a b l t)).tail
    · simp only [printSel, printNth]
      split
      · cases l <;> cases t <;> rfl
      · rfl
  | only t => cases t <;> exact ⟨':', _, rfl, by decide⟩
  | empty => exact ⟨':', _, rfl, by decide⟩
  | root => exact ⟨':', _, rfl, by decide⟩
  | never v =>
    cases v with
    | nil => simp [wf] at hs
    | cons c n =>
      simp only [wf] at hs
      split at hs
      · rename_i n' heq
        simp only [List.cons.injEq] at heq
        exact ⟨':', n, by simp [printSel, heq.1], by decide⟩
      · simp at hs
  | rel k args => exact ⟨':', _, rfl, by decide⟩
  | compound pe sels => cases sels <;> simp [wf] at hs
  | combined a c d => simp only [wf] at hs; simp at hs

/-! ### statements proved by mutual recursion on the selector -/

def StepStmt (s : Sel) : Prop :=
  ∀ (f : Nat) (tail : Str) (acc : List Sel), TailOf simpleFollow tail →
    2 * (printSel s ++ tail).length + 2 ≤ f + 1 →
    seqLoopF (f + 1) (printSel s ++ tail) acc [] = seqLoopF f tail (s :: acc) []

def SimplesStmt (ss : List Sel) : Prop :=
  ∀ (f : Nat) (tail : Str) (acc : List Sel), TailOf simpleFollow tail →
    2 * (printConcat ss ++ tail).length + 2 ≤ f →
    ∃ f', 2 * tail.length + 2 ≤ f' ∧
      seqLoopF f (printConcat ss ++ tail) acc [] = seqLoopF f' tail (ss.reverse ++ acc) []

def CompoundStmt (s : Sel) : Prop :=
  ∀ (f : Nat) (tail : Str), TailOf compFollow tail → 2 * (printSel s ++ tail).length + 3 ≤ f →
    parseSeqF f (printSel s ++ tail) = .ok (s, tail)

theorem simples_nil : SimplesStmt [] := by
  intro f tail acc _ hb
  exact ⟨f, by simpa [printConcat] using hb, by simp [printConcat]⟩

theorem printSel_pos_of_head {s : Sel} {h : Char} {t : Str} (hh : printSel s = h :: t) :
    0 < (printSel s).length := by rw [hh]; simp

theorem simples_cons (s : Sel) (ss : List Sel) (hs : wf 0 s = true) (hss : wfs 0 ss = true)
    (h1 : StepStmt s) (h2 : SimplesStmt ss) : SimplesStmt (s :: ss) := by
  intro f tail acc ht hb
  obtain ⟨h, t, hh, _⟩ := simple_head s hs
  have hpos := printSel_pos_of_head hh
  have htail' : TailOf simpleFollow (printConcat ss ++ tail) := by
    cases ss with
    | nil => simpa [printConcat] using ht
    | cons s2 ss2 =>
      simp only [wfs, Bool.and_eq_true] at hss
      obtain ⟨h2', t2, hh2, hsim⟩ := simple_head s2 hss.1
      simp only [printConcat, hh2, List.cons_append, TailOf, simpleFollow]
      simp only [Bool.or_eq_true, beq_iff_eq] at hsim ⊢
      rcases hsim with ((h | h) | h) | h <;> simp [h]
  simp only [printConcat, List.append_assoc, List.length_append] at hb ⊢
  cases f with
  | zero => omega
  | succ f0 =>
    rw [h1 f0 (printConcat ss ++ tail) acc htail' (by simp only [List.length_append]; omega)]
    obtain ⟨f', hf', heq⟩ := h2 f0 tail (s :: acc) ht (by simp only [List.length_append]; omega)
    exact ⟨f', hf', by rw [heq]; simp⟩

/-! ### `parseSimpleSelectorSequence`: the first step -/

theorem parseSeqF_ident (f : Nat) (h : Char) (t : Str) (hp : HeadProps h) :
    parseSeqF (f + 1) (h :: t) =
      match parseIdentifier (h :: t) with
      | .error e => .error e
      | .ok (tag, r) => seqLoopF f r [.tag (lower tag)] [] := by
  rw [parseSeqF.eq_def]
  have e1 : (h == '*') = false := by simp [hp.star]
  have e2 := hp.simple
  simp only [e1, Bool.false_eq_true, ↓reduceIte, e2]
  rfl

theorem parseSeqF_simple (f : Nat) (h : Char) (t : Str)
    (hs : (h == '#' || h == '.' || h == '[' || h == ':') = true) :
    parseSeqF (f + 1) (h :: t) = seqLoopF f (h :: t) [] [] := by
  rw [parseSeqF.eq_def]
  have e1 : (h == '*') = false := by
    simp only [Bool.or_eq_true, beq_iff_eq] at hs
    rcases hs with ((hs | hs) | hs) | hs <;> subst hs <;> decide
  simp only [e1, Bool.false_eq_true, ↓reduceIte, hs]

theorem parseSeqF_star (f : Nat) (tail : Str) (ht : TailOf compFollow tail) :
    parseSeqF (f + 1) ('*' :: tail) = seqLoopF f tail [] [] := by
  rw [parseSeqF.eq_def]
  cases tail with
  | nil => rfl
  | cons c t =>
    simp only [TailOf, compFollow, Bool.or_eq_true, beq_iff_eq] at ht
    rcases ht with (h | h) | h <;> subst h <;> rfl

end WR.C05.Lemmas
