import WR.C05.LemmasRT4
namespace WR.C05.Lemmas
open WR.C05 WR.C05.Parse WR.C05.Print

/-! ### the first character of a printed identifier -/

def identHead (h : Char) : Prop := h = '\\' ∨ h = '-' ∨ nameStart h = true

theorem nameStart_props_ascii : ∀ n, n < 128 → nameStart (Char.ofNat n) = true →
    (!isAsciiWs (Char.ofNat n) && Char.ofNat n != '/' && Char.ofNat n != '*' && Char.ofNat n != '#' &&
      Char.ofNat n != '.' && Char.ofNat n != '[' && Char.ofNat n != ':' && Char.ofNat n != '+' &&
      Char.ofNat n != '>' && Char.ofNat n != '~' && Char.ofNat n != ',' && Char.ofNat n != ')') = true := by
  decide

/-- what the parser needs to know about the first character of an identifier -/
structure HeadProps (h : Char) : Prop where
  ws : isAsciiWs h = false
  slash : h ≠ '/'
  star : h ≠ '*'
  simple : (h == '#' || h == '.' || h == '[' || h == ':') = false
  comb : (h == '+' || h == '>' || h == '~') = false
  close : (h == ',' || h == ')') = false

theorem identHead_props {h : Char} (hh : identHead h) : HeadProps h := by
  rcases hh with hh | hh | hh
  · subst hh; exact ⟨by decide, by decide, by decide, by decide, by decide, by decide⟩
  · subst hh; exact ⟨by decide, by decide, by decide, by decide, by decide, by decide⟩
  · by_cases hl : h.toNat < 128
    · have := nameStart_props_ascii h.toNat hl (by rw [Char.ofNat_toNat]; exact hh)
      rw [Char.ofNat_toNat] at this
      simp only [Bool.and_eq_true, Bool.not_eq_true', bne_iff_ne, ne_eq] at this
      obtain ⟨⟨⟨⟨⟨⟨⟨⟨⟨⟨⟨a, b⟩, c⟩, d⟩, e⟩, f⟩, g⟩, i⟩, j⟩, k⟩, l⟩, m⟩ := this
      exact ⟨a, b, c, by simp [d, e, f, g], by simp [i, j, k], by simp [l, m]⟩
    · have big : ∀ (x : Char), x.toNat < 128 → h ≠ x := by intro x hx he; subst he; exact hl hx
      refine ⟨?_, big '/' (by decide), big '*' (by decide), ?_, ?_, ?_⟩
      · simp only [isAsciiWs, Bool.or_eq_false_iff, beq_eq_false_iff_ne, ne_eq]
        exact ⟨⟨⟨⟨big ' ' (by decide), big '\t' (by decide)⟩, big '\r' (by decide)⟩, big '\n' (by decide)⟩, big '\x0c' (by decide)⟩
      · simp only [Bool.or_eq_false_iff, beq_eq_false_iff_ne, ne_eq]
        exact ⟨⟨⟨big '#' (by decide), big '.' (by decide)⟩, big '[' (by decide)⟩, big ':' (by decide)⟩
      · simp only [Bool.or_eq_false_iff, beq_eq_false_iff_ne, ne_eq]
        exact ⟨⟨big '+' (by decide), big '>' (by decide)⟩, big '~' (by decide)⟩
      · simp only [Bool.or_eq_false_iff, beq_eq_false_iff_ne, ne_eq]
        exact ⟨big ',' (by decide), big ')' (by decide)⟩

theorem escape_head (n : Str) (hok : identOk n = true) : ∃ h t, escape n = h :: t ∧ identHead h := by
  simp only [identOk, Bool.and_eq_true, Bool.not_eq_true', List.isEmpty_eq_false_iff, List.all_eq_true,
    bne_iff_ne, ne_eq] at hok
  cases n with
  | nil => exact absurd rfl hok.1
  | cons c cs =>
    obtain ⟨h, t, hesc, hh⟩ := escapeChar_head true false cs.isEmpty c (hok.2 c (by simp)) rfl
    refine ⟨h, t ++ escapeTail (c == '-') cs, by simp [escape, hesc], ?_⟩
    rcases hh with hh | hh | hh
    · exact Or.inl hh
    · exact Or.inr (Or.inr hh.1)
    · exact Or.inr (Or.inl hh.2.2.2.1)

theorem skipWs_head {h : Char} (t : Str) (hp : HeadProps h) : skipWs (h :: t) = h :: t :=
  skipWs_stop h t hp.ws hp.slash

/-! ### id and class selectors -/

theorem step_id (n : Str) (hok : identOk n = true) (f : Nat) (tail : Str) (acc : List Sel)
    (ht : TailOf simpleFollow tail) :
    seqLoopF (f + 1) ('#' :: escape n ++ tail) acc [] = seqLoopF f tail (.id n :: acc) [] := by
  simp only [List.cons_append]
  rw [seqLoopF_id, parseName_escape n tail hok (tail_stopsName ht)]

theorem step_cls (n : Str) (hok : identOk n = true) (f : Nat) (tail : Str) (acc : List Sel)
    (ht : TailOf simpleFollow tail) :
    seqLoopF (f + 1) ('.' :: escape n ++ tail) acc [] = seqLoopF f tail (.cls n :: acc) [] := by
  simp only [List.cons_append]
  rw [seqLoopF_cls, parseIdentifier_escape n tail hok (tail_stopsName ht)]

/-! ### attribute selectors -/

theorem byteLen_ge (s : Str) : s.length ≤ byteLen s := by
  unfold byteLen
  suffices h : ∀ (s : Str) (n : Nat), n + s.length ≤ s.foldl (fun n c => n + c.utf8Size) n by
    simpa using h s 0
  intro s
  induction s with
  | nil => intro n; simp
  | cons c s ih =>
    intro n
    simp only [List.foldl_cons, List.length_cons]
    have := ih (n + c.utf8Size)
    have hc : 1 ≤ c.utf8Size := Char.utf8Size_pos c
    omega

/-- the text `attrSelector.String` writes after the attribute name -/
def printAttrRest (val : Str) (op : AttrOp) (ic : Bool) (tail : Str) : Str :=
  opStr op ++ (valPart op val ++ ((if ic then [' ', 'i'] else []) ++ (']' :: tail)))

theorem parseAttrEnd_print (key val op : Str) (o : AttrOp) (ic : Bool) (tail : Str) (ho : opOf op = some o) :
    parseAttrEnd key val op ((if ic then [' ', 'i'] else []) ++ (']' :: tail)) = .ok (.attr key val o ic, tail) := by
  unfold parseAttrEnd
  cases ic
  · simp only [Bool.false_eq_true, ↓reduceIte, List.nil_append]
    rw [skipWs_stop ']' tail (by decide) (by decide)]
    have e : ((']' : Char) == 'i' || (']' : Char) == 'I') = false := by decide
    simp only [e, Bool.false_eq_true, ↓reduceIte]
    rw [skipWs_stop ']' tail (by decide) (by decide)]
    simp only [ho]
  · simp only [↓reduceIte, List.cons_append, List.nil_append]
    rw [skipWs_space, skipWs_stop 'i' _ (by decide) (by decide)]
    have e : (('i' : Char) == 'i' || ('i' : Char) == 'I') = true := by decide
    simp only [e, ↓reduceIte]
    rw [skipWs_stop ']' tail (by decide) (by decide)]
    simp only [ho]

theorem parseAttrTail_cons (key : Str) (c0 : Char) (t0 : Str) (h : c0 ≠ ']') :
    parseAttrTail key (c0 :: t0) =
      if byteLen (c0 :: t0) ≤ 2 then .error .malformed
      else
        match attrOpOf (c0 :: t0) with
        | none => .error .malformed
        | some (op, s2) =>
          match skipWs s2 with
          | [] => .error .malformed
          | c :: s3 =>
            if op == strOf "#=" then .error .unsupported
            else
              match parseAttrValue (c :: s3) with
              | .error e => .error e
              | .ok (val, s4) => parseAttrEnd key val op s4 := by
  rw [parseAttrTail.eq_def]
  split
  · rename_i h'; simp at h'
  · rename_i h'; simp only [List.cons.injEq] at h'; exact absurd h'.1 h
  · rename_i c0' t0' _ h'
    simp only [List.cons.injEq] at h'
    obtain ⟨rfl, rfl⟩ := h'
    rfl

theorem opStr_facts (op : AttrOp) (hne : op ≠ .has) (X : Str) :
    attrOpOf (opStr op ++ X) = some (opStr op, X) ∧ (opStr op == strOf "#=") = false ∧
    opOf (opStr op) = some op ∧ ∃ c0 t0, opStr op = c0 :: t0 ∧ c0 ≠ ']' := by
  cases op
  case has => exact absurd rfl hne
  all_goals exact ⟨rfl, by decide, by decide, _, _, rfl, by decide⟩

theorem parseAttrTail_print (key val : Str) (op : AttrOp) (ic : Bool) (tail : Str)
    (hv : (match op with | .has => val.isEmpty && !ic | _ => valuePrintable val) = true) :
    parseAttrTail key (printAttrRest val op ic tail) = .ok (.attr key val op ic, tail) := by
  unfold printAttrRest
  by_cases hop : op = .has
  · subst hop
    simp only [Bool.and_eq_true, List.isEmpty_iff, Bool.not_eq_true'] at hv
    obtain ⟨hv1, hv2⟩ := hv
    subst hv1; subst hv2
    simp [opStr, valPart, parseAttrTail]
  · have hv' : valuePrintable val = true := by cases op <;> first | exact absurd rfl hop | exact hv
    have hX : valPart op val = '"' :: escapeString val ++ ['"'] := by
      cases op <;> first | exact absurd rfl hop | rfl
    rw [hX]
    generalize hF : (if ic = true then [' ', 'i'] else []) ++ (']' :: tail) = F
    have hXF : ('"' :: escapeString val ++ ['"']) ++ F = '"' :: (escapeString val ++ ('"' :: F)) := by simp
    rw [hXF]
    obtain ⟨h1, h2, h3, c0, t0, h4, h5⟩ := opStr_facts op hop ('"' :: (escapeString val ++ ('"' :: F)))
    have hlen : ¬ byteLen (opStr op ++ '"' :: (escapeString val ++ ('"' :: F))) ≤ 2 := by
      have := byteLen_ge (opStr op ++ '"' :: (escapeString val ++ ('"' :: F)))
      rw [h4] at this ⊢
      simp only [List.cons_append, List.length_cons, List.length_append] at this ⊢
      omega
    have hcons : opStr op ++ '"' :: (escapeString val ++ ('"' :: F)) = c0 :: (t0 ++ '"' :: (escapeString val ++ ('"' :: F))) := by
      rw [h4]; rfl
    rw [hcons, parseAttrTail_cons key c0 _ h5, ← hcons]
    simp only [hlen, ↓reduceIte, h1]
    rw [skipWs_stop '"' _ (by decide) (by decide)]
    simp only [h2, Bool.false_eq_true, ↓reduceIte, parseAttrValue, beq_self_eq_true, Bool.or_true]
    have hs := parseString_escapeString val F hv'
    simp only [List.cons_append] at hs
    rw [hs, ← hF]
    exact parseAttrEnd_print key val (opStr op) op ic tail h3

theorem opHead_facts : ∀ c ∈ "]=!~|^$*".toList,
    (!nameChar c && c != '\\' && !isAsciiWs c && c != '/') = true := by decide

theorem printAttrRest_head (val : Str) (op : AttrOp) (ic : Bool) (tail : Str)
    (hv : (match op with | .has => val.isEmpty && !ic | _ => valuePrintable val) = true) :
    ∃ c t, printAttrRest val op ic tail = c :: t ∧ c ∈ "]=!~|^$*".toList := by
  unfold printAttrRest
  cases op
  case has =>
    simp only [Bool.and_eq_true, List.isEmpty_iff, Bool.not_eq_true'] at hv
    obtain ⟨hv1, hv2⟩ := hv
    subst hv1; subst hv2
    exact ⟨']', tail, rfl, by decide⟩
  all_goals exact ⟨_, _, rfl, by decide⟩

/-- `parseAttributeSelector` reads back a printed attribute selector -/
theorem parseAttr_print (key val : Str) (op : AttrOp) (ic : Bool) (tail : Str) (hk : lowerOk key = true)
    (hv : (match op with | .has => val.isEmpty && !ic | _ => valuePrintable val) = true) :
    parseAttr ('[' :: (escape key ++ printAttrRest val op ic tail)) = .ok (.attr key val op ic, tail) := by
  simp only [lowerOk, Bool.and_eq_true, beq_iff_eq] at hk
  obtain ⟨h, t, hesc, hh⟩ := escape_head key hk.1
  obtain ⟨c, r, hrest, hc⟩ := printAttrRest_head val op ic tail hv
  have hf := opHead_facts c hc
  simp only [Bool.and_eq_true, Bool.not_eq_true', bne_iff_ne, ne_eq] at hf
  have hstop : StopsName (printAttrRest val op ic tail) := by rw [hrest]; exact ⟨hf.1.1.1, hf.1.1.2⟩
  unfold parseAttr
  simp only
  rw [hesc, List.cons_append, skipWs_head _ (identHead_props hh), ← List.cons_append, ← hesc,
    parseIdentifier_escape key _ hk.1 hstop]
  simp only [hk.2]
  rw [hrest, skipWs_stop c r hf.1.2 hf.2, ← hrest]
  exact parseAttrTail_print key val op ic tail hv

theorem step_attr (key val : Str) (op : AttrOp) (ic : Bool) (hk : lowerOk key = true)
    (hv : (match op with | .has => val.isEmpty && !ic | _ => valuePrintable val) = true)
    (f : Nat) (tail : Str) (acc : List Sel) :
    seqLoopF (f + 1) (printSel (.attr key val op ic) ++ tail) acc [] =
      seqLoopF f tail (.attr key val op ic :: acc) [] := by
  have : printSel (.attr key val op ic) ++ tail = '[' :: (escape key ++ printAttrRest val op ic tail) := by
    simp [printSel, printAttrRest]
  rw [this, seqLoopF_attr, parseAttr_print key val op ic tail hk hv]

end WR.C05.Lemmas
