/-
  C05 — helper lemmas: the nodes of one tree (`allLocs root`) are closed under the navigation the
  selectors perform, so `DomOk` holds of a whole document as soon as each node is `LocalOk`.
-/
import WR.C05.Domain
namespace WR.C05.Lemmas
open WR.C05 WR.C05.Spec

/-- children are among the nodes below -/
theorem childrenAux_sub_allList (k : Kind) (d : Str) (a : List Attr) (fs : List Frame) :
    ∀ (cs left : List Node) (c : Loc), c ∈ Loc.childrenAux k d a fs left cs → c ∈ allList k d a fs left cs := by
  intro cs
  induction cs with
  | nil => intro left c h; simp [Loc.childrenAux] at h
  | cons x xs ih =>
    intro left c h
    simp only [Loc.childrenAux, List.mem_cons] at h
    simp only [allList, List.cons_append, List.mem_cons, List.mem_append]
    rcases h with h | h
    · exact Or.inl h
    · exact Or.inr (Or.inr (ih _ c h))

theorem children_sub_allNode (l c : Loc) (h : c ∈ l.children) : c ∈ allNode l.node l.path := by
  obtain ⟨⟨k, d, a, cs⟩, fs⟩ := l
  exact childrenAux_sub_allList k d a fs cs [] c h

mutual
  /-- the nodes below a node below `n` are below `n` -/
  theorem allNode_trans : ∀ (n : Node) (fs : List Frame) (l x : Loc),
      l ∈ allNode n fs → x ∈ allNode l.node l.path → x ∈ allNode n fs
    | .mk k d a cs, fs, l, x, hl, hx => by
      simp only [allNode] at hl ⊢
      exact allList_trans cs k d a fs [] l x hl hx
  theorem allList_trans : ∀ (cs : List Node) (k : Kind) (d : Str) (a : List Attr) (fs : List Frame)
      (left : List Node) (l x : Loc),
      l ∈ allList k d a fs left cs → x ∈ allNode l.node l.path → x ∈ allList k d a fs left cs
    | [], _, _, _, _, _, _, _, hl, _ => by simp [allList] at hl
    | c :: cs, k, d, a, fs, left, l, x, hl, hx => by
      simp only [allList, List.cons_append, List.mem_cons, List.mem_append] at hl ⊢
      rcases hl with hl | hl | hl
      · subst hl; exact Or.inr (Or.inl hx)
      · exact Or.inr (Or.inl (allNode_trans c _ l x hl hx))
      · exact Or.inr (Or.inr (allList_trans cs k d a fs (c :: left) l x hl hx))
end

mutual
  /-- the nodes `:has()` visits are nodes below -/
  theorem descNode_sub : ∀ (n : Node) (fs : List Frame) (x : Loc), x ∈ descNode n fs → x ∈ allNode n fs
    | .mk k d a cs, fs, x, hx => by
      simp only [descNode] at hx
      simp only [allNode]
      exact descList_sub cs k d a fs [] x hx
  theorem descList_sub : ∀ (cs : List Node) (k : Kind) (d : Str) (a : List Attr) (fs : List Frame)
      (left : List Node) (x : Loc), x ∈ descList k d a fs left cs → x ∈ allList k d a fs left cs
    | [], _, _, _, _, _, _, hx => by simp [descList] at hx
    | c :: cs, k, d, a, fs, left, x, hx => by
      simp only [descList, List.cons_append, List.mem_cons, List.mem_append] at hx
      simp only [allList, List.cons_append, List.mem_cons, List.mem_append]
      rcases hx with hx | hx | hx
      · exact Or.inl hx
      · by_cases hk : c.kind = .elem
        · simp only [hk, ↓reduceIte] at hx
          exact Or.inr (Or.inl (descNode_sub c _ x hx))
        · simp [hk] at hx
      · exact Or.inr (Or.inr (descList_sub cs k d a fs (c :: left) x hx))
end

mutual
  /-- every node below `n` has a parent, which is `n` or below `n` -/
  theorem allNode_parent : ∀ (n : Node) (fs : List Frame) (l : Loc), l ∈ allNode n fs →
      ∃ p, l.parent? = some p ∧ (p = ⟨n, fs⟩ ∨ p ∈ allNode n fs)
    | .mk k d a cs, fs, l, hl => by
      simp only [allNode] at hl ⊢
      have := allList_parent cs k d a fs [] l hl
      simpa using this
  theorem allList_parent : ∀ (cs : List Node) (k : Kind) (d : Str) (a : List Attr) (fs : List Frame)
      (left : List Node) (l : Loc), l ∈ allList k d a fs left cs →
      ∃ p, l.parent? = some p ∧ (p = ⟨.mk k d a (left.reverse ++ cs), fs⟩ ∨ p ∈ allList k d a fs left cs)
    | [], _, _, _, _, _, _, hl => by simp [allList] at hl
    | c :: cs, k, d, a, fs, left, l, hl => by
      simp only [allList, List.cons_append, List.mem_cons, List.mem_append] at hl ⊢
      rcases hl with hl | hl | hl
      · subst hl
        exact ⟨_, rfl, Or.inl (by simp [Loc.plug])⟩
      · obtain ⟨p, hp, h⟩ := allNode_parent c _ l hl
        refine ⟨p, hp, Or.inr ?_⟩
        rcases h with h | h
        · exact Or.inl h
        · exact Or.inr (Or.inl h)
      · obtain ⟨p, hp, h⟩ := allList_parent cs k d a fs (c :: left) l hl
        refine ⟨p, hp, ?_⟩
        rcases h with h | h
        · left; rw [h]; simp
        · exact Or.inr (Or.inr (Or.inr h))
end

theorem mem_allLocs_of_allNode {root : Node} {l x : Loc} (hl : l ∈ allLocs root)
    (hx : x ∈ allNode l.node l.path) : x ∈ allLocs root := by
  simp only [allLocs, List.mem_cons] at hl ⊢
  rcases hl with rfl | hl
  · exact Or.inr hx
  · exact Or.inr (allNode_trans root [] l x hl hx)

theorem parent_mem_allLocs {root : Node} {n : Node} {f : Frame} {fs : List Frame}
    (hl : (⟨n, f :: fs⟩ : Loc) ∈ allLocs root) : (⟨Loc.plug f n, fs⟩ : Loc) ∈ allLocs root := by
  simp only [allLocs, List.mem_cons] at hl ⊢
  rcases hl with hl | hl
  · simp at hl
  · obtain ⟨p, hp, h⟩ := allNode_parent root [] _ hl
    simp only [Loc.parent?, Option.some.injEq] at hp
    subst hp
    exact h

theorem ancestors_mem_allLocs (root : Node) : ∀ (fs : List Frame) (n : Node),
    (⟨n, fs⟩ : Loc) ∈ allLocs root → ∀ p ∈ Loc.ancestorsAux n fs, p ∈ allLocs root := by
  intro fs
  induction fs with
  | nil => intro n _ p hp; simp [Loc.ancestorsAux] at hp
  | cons f fs ih =>
    intro n hl p hp
    have hpar := parent_mem_allLocs hl
    simp only [Loc.ancestorsAux, List.mem_cons] at hp
    rcases hp with rfl | hp
    · exact hpar
    · exact ih _ hpar p hp

/-- the child at a given position of a children list -/
theorem childrenAux_mem (k : Kind) (d : Str) (a : List Attr) (fs : List Frame) (c : Node) (ys : List Node) :
    ∀ (xs acc : List Node),
      (⟨c, ⟨k, d, a, xs.reverse ++ acc, ys⟩ :: fs⟩ : Loc) ∈ Loc.childrenAux k d a fs acc (xs ++ c :: ys) := by
  intro xs
  induction xs with
  | nil => intro acc; simp [Loc.childrenAux]
  | cons x xs ih =>
    intro acc
    simp only [List.cons_append, Loc.childrenAux, List.mem_cons]
    right
    have := ih (x :: acc)
    simpa using this

theorem prevAux_shape (f : Frame) (fs : List Frame) :
    ∀ (left : List Node) (cur : Node) (right : List Node) (s : Loc), s ∈ Loc.prevAux f fs left cur right →
      ∃ pre p post, left = pre ++ p :: post ∧
        s = ⟨p, ⟨f.kind, f.data, f.attrs, post, pre.reverse ++ cur :: right⟩ :: fs⟩ := by
  intro left
  induction left with
  | nil => intro cur right s h; simp [Loc.prevAux] at h
  | cons p ps ih =>
    intro cur right s h
    simp only [Loc.prevAux, List.mem_cons] at h
    rcases h with h | h
    · exact ⟨[], p, ps, rfl, by simpa using h⟩
    · obtain ⟨pre, q, post, h1, h2⟩ := ih p (cur :: right) s h
      exact ⟨p :: pre, q, post, by simp [h1], by simpa using h2⟩

theorem prevSibs_sub_children (n : Node) (f : Frame) (fs : List Frame) (s : Loc)
    (h : s ∈ Loc.prevSibs ⟨n, f :: fs⟩) : s ∈ Loc.children ⟨Loc.plug f n, fs⟩ := by
  obtain ⟨pre, p, post, h1, h2⟩ := prevAux_shape f fs f.left n f.right s h
  subst h2
  have := childrenAux_mem f.kind f.data f.attrs fs p (pre.reverse ++ n :: f.right) post.reverse []
  simp only [List.reverse_reverse, List.append_nil] at this
  simp only [Loc.children, Loc.plug, Node.kind, Node.data, Node.attrs, Node.children, h1]
  simpa using this

/-- the `other` clause of `LocalOk` holds when no previous sibling is a Doctype / Document node -/
theorem other_ok_of_none {l : Loc} (h : ∀ s ∈ l.prevSibs, s.kind ≠ .other ∧ s.kind ≠ .doc) :
    ∀ pre s post, l.prevSibs = pre ++ s :: post → (s.kind = .other ∨ s.kind = .doc) →
      ∀ e ∈ post, e.kind ≠ .elem := by
  intro pre s post hp hs
  have := h s (by rw [hp]; simp)
  rcases hs with hs | hs
  · exact absurd hs this.1
  · exact absurd hs this.2

/-- all nodes of one tree, each `LocalOk`, form a `DomOk` set -/
theorem domOk_allLocs (root : Node) (h : ∀ l ∈ allLocs root, LocalOk l) :
    DomOk (fun l => l ∈ allLocs root) where
  anc := fun l hl p hp => ancestors_mem_allLocs root l.path l.node hl p hp
  prev := by
    intro l hl s hs
    obtain ⟨n, path⟩ := l
    cases path with
    | nil => simp [Loc.prevSibs] at hs
    | cons f fs =>
      have hc := prevSibs_sub_children n f fs s hs
      exact mem_allLocs_of_allNode (parent_mem_allLocs hl) (children_sub_allNode _ s hc)
  kids := fun l hl c hc => mem_allLocs_of_allNode hl (children_sub_allNode l c hc)
  desc := fun l hl x hx => mem_allLocs_of_allNode hl (descNode_sub l.node l.path x hx)
  ok := h

end WR.C05.Lemmas
