import WR.C05.LemmasRT7
namespace WR.C05.Lemmas
open WR.C05 WR.C05.Parse WR.C05.Print

/-! ### compound selectors -/

theorem rawAtoms_plain : ∀ n ∈ rawAtoms, (plainName n && lower n == n) = true := by decide

theorem parseIdentifier_printTag (n tail : Str) (hok : lowerOk n = true) (hstop : StopsName tail) :
    parseIdentifier (printTag n ++ tail) = .ok (n, tail) := by
  unfold printTag
  split
  · rename_i hraw
    have := rawAtoms_plain n (by simpa using hraw)
    simp only [Bool.and_eq_true] at this
    exact parseIdentifier_plain n tail this.1 hstop
  · simp only [lowerOk, Bool.and_eq_true] at hok
    exact parseIdentifier_escape n tail hok.1 hstop

/-- a type selector alone -/
theorem compound_tag (n : Str) (hok : lowerOk n = true) : CompoundStmt (.tag n) := by
  intro f tail ht hb
  obtain ⟨h, t, hh, hid⟩ := printTag_head n hok
  have hlow : lower n = n := by
    simp only [lowerOk, Bool.and_eq_true, beq_iff_eq] at hok; exact hok.2
  have hp := parseIdentifier_printTag n tail hok (tail_stopsName (comp_simple ht))
  simp only [printSel] at hb ⊢
  rw [hh] at hb hp ⊢
  simp only [List.cons_append, List.length_cons] at hb hp ⊢
  match f, hb with
  | f0 + 2, _ =>
    rw [parseSeqF_ident (f0 + 1) h _ (identHead_props hid), hp]
    simp only [hlow]
    rw [seqLoopF_finish f0 tail _ [] ht]

/-- a simple selector other than a type selector, alone -/
theorem compound_of_step (s : Sel) (hs : wf 0 s = true) (hstep : StepStmt s) : CompoundStmt s := by
  intro f tail ht hb
  obtain ⟨h, t, hh, hsim⟩ := simple_head s hs
  have hpos := printSel_pos_of_head hh
  simp only [List.length_append] at hb
  match f, hb with
  | f0 + 3, hb =>
    have hstep' := hstep (f0 + 1) tail [] (comp_simple ht) (by simp only [List.length_append]; omega)
    rw [hh] at hstep' ⊢
    simp only [List.cons_append] at hstep' ⊢
    rw [parseSeqF_simple (f0 + 2) h _ hsim, hstep', seqLoopF_finish f0 tail _ [] ht]

/-- the value `parseSimpleSelectorSequence` returns for the simple selectors `acc` (reversed) and `pe` -/
def finishSel (acc : List Sel) (pe : Str) : Sel :=
  match acc, pe with
  | [one], [] => one
  | _, _ => .compound pe acc.reverse

/-- `::pe`, or nothing -/
def peStr (pe : Str) : Str := if pe.isEmpty then [] else ':' :: ':' :: pe

theorem seqLoopF_finish' (f : Nat) (tail : Str) (acc : List Sel) (pe : Str) (h : TailOf compFollow tail) :
    seqLoopF (f + 1) tail acc pe = .ok (finishSel acc pe, tail) := by
  rw [seqLoopF_finish f tail acc pe h]
  unfold finishSel
  cases acc with
  | nil => rfl
  | cons a as =>
    cases as with
    | nil => cases pe <;> rfl
    | cons _ _ => rfl

theorem seq_after_simples (ss : List Sel) (hss : SimplesStmt ss) (pe : Str)
    (hpe : pe.isEmpty = true ∨ pseudoElements.contains pe = true)
    (f : Nat) (tail : Str) (acc0 : List Sel) (ht : TailOf compFollow tail)
    (hb : 2 * (printConcat ss ++ (peStr pe ++ tail)).length + 2 ≤ f) :
    seqLoopF f (printConcat ss ++ (peStr pe ++ tail)) acc0 [] = .ok (finishSel (ss.reverse ++ acc0) pe, tail) := by
  have htail' : TailOf simpleFollow (peStr pe ++ tail) := by
    unfold peStr
    split
    · simpa using comp_simple ht
    · exact (by decide : simpleFollow ':' = true)
  obtain ⟨f', hf', heq⟩ := hss f (peStr pe ++ tail) acc0 htail' hb
  rw [heq]
  unfold peStr at hf' ⊢
  by_cases hempty : pe.isEmpty = true
  · simp only [hempty, ↓reduceIte, List.nil_append] at hf' ⊢
    have hpe0 : pe = [] := by simpa using hempty
    subst hpe0
    match f', hf' with
    | f0 + 1, _ => rw [seqLoopF_finish' f0 tail _ [] ht]
  · simp only [hempty, Bool.false_eq_true, ↓reduceIte, List.cons_append, List.length_cons] at hf' ⊢
    have hpe' : pseudoElements.contains pe = true := by
      rcases hpe with h | h
      · exact absurd h hempty
      · exact h
    match f', hf' with
    | f0 + 3, _ =>
      rw [seqLoopF_pseudo, parsePseudoF_elem (f0 + 1) pe tail hpe' (tail_stopsName (comp_simple ht))]
      simp only
      rw [seqLoopF_finish' (f0 + 1) tail _ pe ht]

theorem finishSel_compound (acc : List Sel) (pe : Str) (h : ¬ (pe = [] ∧ acc.length = 1)) :
    finishSel acc pe = .compound pe acc.reverse := by
  unfold finishSel
  cases acc with
  | nil => rfl
  | cons a as =>
    cases as with
    | nil =>
      cases pe with
      | nil => exact absurd ⟨rfl, rfl⟩ h
      | cons _ _ => rfl
    | cons _ _ => rfl

theorem wf1_cases (h : Sel) (hw : wf 1 h = true) : (∃ n, h = .tag n ∧ lowerOk n = true) ∨ wf 0 h = true := by
  cases h with
  | tag n => exact Or.inl ⟨n, rfl, by simpa [wf] using hw⟩
  | compound pe sels => cases sels <;> simp [wf] at hw
  | combined a c d => simp [wf] at hw
  | cls n => right; simpa [wf] using hw
  | id n => right; simpa [wf] using hw
  | attr k v o i => right; simpa [wf] using hw
  | nth a b l t => right; simpa [wf] using hw
  | only t => right; simp [wf]
  | empty => right; simp [wf]
  | root => right; simp [wf]
  | never v => right; simpa [wf] using hw
  | rel k args => right; simpa [wf] using hw

theorem concat_tail (ss : List Sel) (hss : wfs 0 ss = true) (rest : Str) (hr : TailOf simpleFollow rest) :
    TailOf simpleFollow (printConcat ss ++ rest) := by
  cases ss with
  | nil => simpa [printConcat] using hr
  | cons s2 ss2 =>
    simp only [wfs, Bool.and_eq_true] at hss
    obtain ⟨h2, t2, hh2, hsim⟩ := simple_head s2 hss.1
    simp only [printConcat, hh2, List.cons_append, TailOf, simpleFollow]
    simp only [Bool.or_eq_true, beq_iff_eq] at hsim ⊢
    rcases hsim with ((h | h) | h) | h <;> simp [h]

theorem peStr_tail (pe tail : Str) (ht : TailOf compFollow tail) : TailOf simpleFollow (peStr pe ++ tail) := by
  unfold peStr
  split
  · simpa using comp_simple ht
  · exact (by decide : simpleFollow ':' = true)

theorem printSel_compound (pe : Str) (sels : List Sel) (hne : ¬ (sels = [] ∧ pe = [])) :
    printSel (.compound pe sels) = printConcat sels ++ peStr pe := by
  simp only [printSel, peStr]
  split
  · rename_i h
    simp only [Bool.and_eq_true, List.isEmpty_iff] at h
    exact absurd h hne
  · rfl

/-- a compound selector as the parser builds it -/
theorem compound_compound (pe : Str) (sels : List Sel) (hwf : wf 2 (.compound pe sels) = true)
    (hhead : ∀ h t, sels = h :: t → wf 0 h = true → StepStmt h)
    (htl : ∀ h t, sels = h :: t → SimplesStmt t) : CompoundStmt (.compound pe sels) := by
  intro f tail ht hb
  cases sels with
  | nil =>
    simp only [wf, Bool.and_eq_true, Bool.or_eq_true, Bool.not_eq_true', decide_eq_true_eq] at hwf
    have hpe := hwf.1.1.2
    by_cases hempty : pe = []
    · subst hempty
      simp only [printSel, List.isEmpty_nil, Bool.and_self, ↓reduceIte, List.cons_append, List.nil_append,
        List.length_cons] at hb ⊢
      match f, hb with
      | f0 + 2, _ =>
        rw [parseSeqF_star (f0 + 1) tail ht, seqLoopF_finish' f0 tail [] [] ht]
        rfl
    · rw [printSel_compound pe [] (by simp [hempty])] at hb ⊢
      have hpe_ne : pe.isEmpty = false := by cases pe <;> simp_all
      have hps : peStr pe = ':' :: ':' :: pe := by simp [peStr, hpe_ne]
      simp only [printConcat, List.nil_append] at hb ⊢
      rw [hps] at hb ⊢
      simp only [List.cons_append, List.length_cons] at hb ⊢
      match f, hb with
      | f0 + 1, hb =>
        rw [parseSeqF_simple f0 ':' _ (by decide)]
        have := seq_after_simples [] simples_nil pe hpe f0 tail [] ht
          (by simp only [printConcat, List.nil_append, hps, List.cons_append, List.length_cons]; omega)
        simp only [printConcat, List.nil_append, hps, List.cons_append] at this
        rw [this]
        rw [finishSel_compound _ pe (by simp [hempty])]
        rfl
  | cons h t =>
    have hstep := hhead h t rfl
    have hsim := htl h t rfl
    simp only [wf, Bool.and_eq_true, Bool.or_eq_true, Bool.not_eq_true', decide_eq_true_eq,
      List.length_cons, Bool.and_eq_false_imp] at hwf
    obtain ⟨⟨⟨_, hpe⟩, hshape⟩, hw1, hwt⟩ := hwf
    have hfin : ∀ (acc : List Sel), acc.length = t.length + 1 → finishSel acc pe = .compound pe acc.reverse := by
      intro acc hl
      apply finishSel_compound
      rintro ⟨hp, hl1⟩
      have : pe.isEmpty = true := by simp [hp]
      have := hshape this
      simp only [beq_eq_false_iff_ne, ne_eq] at this
      omega
    rw [printSel_compound pe (h :: t) (by simp)] at hb ⊢
    simp only [printConcat, List.append_assoc] at hb ⊢
    have hrest_tail := concat_tail t hwt (peStr pe ++ tail) (peStr_tail pe tail ht)
    rcases wf1_cases h hw1 with ⟨n, rfl, hn⟩ | hw0
    · -- a type selector first
      obtain ⟨c, r, hh, hid⟩ := printTag_head n hn
      have hlow : lower n = n := by
        simp only [lowerOk, Bool.and_eq_true, beq_iff_eq] at hn; exact hn.2
      have hp := parseIdentifier_printTag n (printConcat t ++ (peStr pe ++ tail)) hn (tail_stopsName hrest_tail)
      simp only [printSel] at hb hp ⊢
      rw [hh] at hb hp ⊢
      simp only [List.cons_append, List.length_cons, List.length_append] at hb hp ⊢
      match f, hb with
      | f0 + 1, hb =>
        rw [parseSeqF_ident f0 c _ (identHead_props hid), hp]
        simp only [hlow]
        rw [seq_after_simples t hsim pe hpe f0 tail [.tag n] ht (by simp only [List.length_append]; omega)]
        rw [hfin _ (by simp)]
        simp
    · -- a simple selector first
      obtain ⟨c, r, hh, hsimple⟩ := simple_head h hw0
      have hall : SimplesStmt (h :: t) := simples_cons h t hw0 hwt (hstep hw0) hsim
      have := seq_after_simples (h :: t) hall pe hpe
      simp only [printConcat, List.append_assoc] at this
      rw [hh] at hb this ⊢
      simp only [List.cons_append, List.length_cons, List.length_append] at hb this ⊢
      match f, hb with
      | f0 + 1, hb =>
        rw [parseSeqF_simple f0 c _ hsimple, this f0 tail [] ht (by omega)]
        rw [hfin _ (by simp)]
        simp

end WR.C05.Lemmas
