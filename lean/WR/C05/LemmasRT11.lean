import WR.C05.LemmasRT10
namespace WR.C05.Lemmas
open WR.C05 WR.C05.Parse WR.C05.Print

/-! ### `:is( … )`, `:not( … )`, `:has( … )`, `:haschild( … )` -/

theorem pseudoBody_rel (k : RelKind) (f : Nat) (r : Str) :
    pseudoBody f (relStr k) r =
      match consumeParen r with
      | none => .error .malformed
      | some r1 =>
        match parseGroupF f r1 with
        | .error e => .error e
        | .ok (g, r2) =>
          match consumeClosing r2 with
          | none => .error .malformed
          | some r3 => .ok (.sel (.rel k g), r3) := by
  cases k <;> rfl

theorem relStr_facts (k : RelKind) :
    plainName (relStr k) = true ∧ lower (relStr k) = relStr k ∧ 2 ≤ (relStr k).length := by
  cases k <;> exact ⟨by decide, by decide, by decide⟩

theorem step_rel (k : RelKind) (s : Sel) (ss : List Sel) (hw : wf 3 s = true) (hc : ComplexStmt s)
    (hg : GroupLoopStmt ss) : StepStmt (.rel k (s :: ss)) := by
  intro f tail acc ht hb
  obtain ⟨hn, hl, hlen⟩ := relStr_facts k
  obtain ⟨h, t, hh, hsh⟩ := printSel_head s hw
  obtain ⟨p1, p2, _, _⟩ := selHead_props hsh
  have hprint : printSel (.rel k (s :: ss)) ++ tail =
      ':' :: (relStr k ++ ('(' :: (printGroup (s :: ss) ++ (')' :: tail)))) := by
    simp [printSel, List.append_assoc]
  rw [hprint] at hb ⊢
  simp only [List.length_cons, List.length_append] at hb
  match f, hb with
  | g + 1, hb =>
    rw [seqLoopF_pseudo, parsePseudoF_name g (relStr k) _ hn hl (stopsName_paren _), pseudoBody_rel]
    simp only [consumeParen]
    have hsk : skipWs (printGroup (s :: ss) ++ (')' :: tail)) = printGroup (s :: ss) ++ (')' :: tail) := by
      rw [printGroup_cons, hh]
      simp only [List.cons_append]
      rw [skipWs_stop h _ p1 p2]
    rw [hsk, group_thm s ss hw hc hg g (')' :: tail) (by simp [TailOf, closeFollow])
      (by simp only [List.length_append, List.length_cons]; omega)]
    simp only [consumeClosing_paren]

/-! ### all levels at once, by recursion on the selector -/

def Master (s : Sel) : Prop :=
  (wf 0 s = true → StepStmt s) ∧ (wf 2 s = true → CompoundStmt s) ∧ (wf 3 s = true → ComplexStmt s)

def MasterList (ss : List Sel) : Prop :=
  (wfs 0 ss = true → SimplesStmt ss) ∧ (wfs 3 ss = true → GroupLoopStmt ss)

/-- a simple selector other than a type selector: all three levels follow from its step -/
theorem master_simple (s : Sel) (hlvl : ∀ l, wf l s = wf 0 s) (h1 : hd s = s) (h2 : restStr s = [])
    (hstep : wf 0 s = true → StepStmt s) : Master s := by
  refine ⟨hstep, ?_, ?_⟩
  · intro hw
    rw [hlvl 2] at hw
    exact compound_of_step s hw (hstep hw)
  · intro hw
    rw [hlvl 3] at hw
    exact complex_base s h1 h2 (compound_of_step s hw (hstep hw))

mutual
  theorem master : ∀ (s : Sel), Master s
    | .tag n => by
      refine ⟨by intro h; simp [wf] at h, ?_, ?_⟩
      · intro hw; exact compound_tag n (by simpa [wf] using hw)
      · intro hw; exact complex_base _ rfl rfl (compound_tag n (by simpa [wf] using hw))
    | .cls n => master_simple _ (fun _ => by simp [wf]) rfl rfl
        (fun hw f tail acc ht _ => step_cls n (by simpa [wf] using hw) f tail acc ht)
    | .id n => master_simple _ (fun _ => by simp [wf]) rfl rfl
        (fun hw f tail acc ht _ => step_id n (by simpa [wf] using hw) f tail acc ht)
    | .attr key val op ic => master_simple _ (fun _ => by simp [wf]) rfl rfl
        (fun hw f tail acc _ _ => by
          simp only [wf, Bool.and_eq_true] at hw
          exact step_attr key val op ic hw.1 hw.2 f tail acc)
    | .nth a b l t => master_simple _ (fun _ => by simp [wf]) rfl rfl
        (fun hw f tail acc ht _ => step_nth a b l t hw f tail acc ht)
    | .only t => master_simple _ (fun _ => by simp [wf]) rfl rfl
        (fun hw f tail acc ht _ => step_simple_plain _ hw trivial f tail acc ht)
    | .empty => master_simple _ (fun _ => by simp [wf]) rfl rfl
        (fun hw f tail acc ht _ => step_simple_plain _ hw trivial f tail acc ht)
    | .root => master_simple _ (fun _ => by simp [wf]) rfl rfl
        (fun hw f tail acc ht _ => step_simple_plain _ hw trivial f tail acc ht)
    | .never v => master_simple _ (fun _ => by simp [wf]) rfl rfl
        (fun hw f tail acc ht _ => step_simple_plain _ hw trivial f tail acc ht)
    | .rel k [] => master_simple _ (fun _ => by simp [wf]) rfl rfl (fun hw => by simp [wf] at hw)
    | .rel k (a :: as) => master_simple _ (fun _ => by simp [wf]) rfl rfl
        (fun hw => by
          simp only [wf, wfs, List.isEmpty_cons, Bool.not_false, Bool.true_and, Bool.and_eq_true] at hw
          exact step_rel k a as hw.1 ((master a).2.2 hw.1) ((masterList as).2 hw.2))
    | .compound pe [] => by
      have hc : wf 2 (.compound pe []) = true → CompoundStmt (.compound pe []) := fun hw =>
        compound_compound pe [] hw (fun h t he => by simp at he) (fun h t he => by simp at he)
      refine ⟨by intro h; simp [wf] at h, hc, ?_⟩
      intro hw
      exact complex_base _ rfl rfl (hc (by simpa [wf] using hw))
    | .compound pe (h :: t) => by
      have hc : wf 2 (.compound pe (h :: t)) = true → CompoundStmt (.compound pe (h :: t)) := fun hw => by
        have hwt : wfs 0 t = true := by simp only [wf, Bool.and_eq_true] at hw; exact hw.2.2
        refine compound_compound pe (h :: t) hw ?_ ?_
        · intro h' t' he hw0
          simp only [List.cons.injEq] at he
          rw [← he.1]; rw [← he.1] at hw0
          exact (master h).1 hw0
        · intro h' t' he
          simp only [List.cons.injEq] at he
          rw [← he.2]
          exact (masterList t).1 hwt
      refine ⟨by intro h; simp [wf] at h, hc, ?_⟩
      intro hw
      exact complex_base _ rfl rfl (hc (by simpa [wf] using hw))
    | .combined a c d => by
      refine ⟨by intro h; simp [wf] at h, by intro h; simp [wf] at h, ?_⟩
      intro hw
      simp only [wf, Bool.and_eq_true] at hw
      exact complex_combined a d c ((master a).2.2 hw.1.2) ((master d).2.1 hw.2) (compound_head d hw.2)
  theorem masterList : ∀ (ss : List Sel), MasterList ss
    | [] => ⟨fun _ => simples_nil, fun _ => group_nil⟩
    | s :: ss => by
      refine ⟨?_, ?_⟩
      · intro hw
        simp only [wfs, Bool.and_eq_true] at hw
        exact simples_cons s ss hw.1 hw.2 ((master s).1 hw.1) ((masterList ss).1 hw.2)
      · intro hw
        simp only [wfs, Bool.and_eq_true] at hw
        exact group_cons s ss hw.1 ((master s).2.2 hw.1) ((masterList ss).2 hw.2)
end

end WR.C05.Lemmas
