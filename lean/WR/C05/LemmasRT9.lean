import WR.C05.LemmasRT8
namespace WR.C05.Lemmas
open WR.C05 WR.C05.Parse WR.C05.Print

/-! ### complex selectors -/

def ComplexStmt (s : Sel) : Prop :=
  (∀ (f : Nat) (tail : Str), TailOf compFollow tail → 2 * (printSel (hd s) ++ tail).length + 3 ≤ f →
    parseSeqF f (printSel (hd s) ++ tail) = .ok (hd s, tail)) ∧
  (∀ (f : Nat) (X : Str), TailOf compFollow X → 2 * (restStr s ++ X).length + 3 ≤ f →
    ∃ f', 2 * X.length + 3 ≤ f' ∧ selectorLoopF f (restStr s ++ X) (hd s) = selectorLoopF f' X s)

theorem complex_base (s : Sel) (h1 : hd s = s) (h2 : restStr s = []) (hc : CompoundStmt s) : ComplexStmt s := by
  refine ⟨?_, ?_⟩
  · rw [h1]; exact hc
  · intro f X _ hb
    rw [h1, h2] at *
    exact ⟨f, by simpa using hb, rfl⟩

/-- the characters that follow a printed complex selector -/
def selFollow (c : Char) : Bool := c == ',' || c == ')'

theorem sel_comp {tail : Str} (h : TailOf selFollow tail) : TailOf compFollow tail := by
  cases tail with
  | nil => trivial
  | cons c t =>
    simp only [TailOf, selFollow, compFollow, Bool.or_eq_true, beq_iff_eq] at h ⊢
    rcases h with h | h <;> simp [h]

/-- one turn of the loop of `parseSelector`: a combinator and a compound selector -/
theorem loop_step (a d : Sel) (c : Comb) (g : Nat) (X : Str) (hcd : CompoundStmt d)
    (hhead : ∃ h t, printSel d = h :: t ∧ SelHead h) (hX : TailOf compFollow X)
    (hb : 2 * (printSel d ++ X).length + 3 ≤ g) :
    selectorLoopF (g + 1) (' ' :: (combStr c ++ (' ' :: (printSel d ++ X)))) a =
      selectorLoopF g X (.combined a c d) := by
  obtain ⟨h, t, hh, hsh⟩ := hhead
  obtain ⟨p1, p2, p3, p4⟩ := selHead_props hsh
  have hparse := hcd g X hX hb
  rw [hh] at hparse
  simp only [List.cons_append] at hparse
  rw [selectorLoopF.eq_def]
  simp only
  cases c with
  | desc =>
    have hsk : skipWs (' ' :: ([' '] ++ ' ' :: (printSel d ++ X))) = h :: (t ++ X) := by
      simp only [List.cons_append, List.nil_append]
      rw [skipWs_space, skipWs_space, skipWs_space, hh, List.cons_append, skipWs_stop h _ p1 p2]
    simp only [combStr, hsk, p3, Bool.false_eq_true, ↓reduceIte, p4, hparse]
    have : ((h :: (t ++ X)).length != (' ' :: ([' '] ++ ' ' :: (printSel d ++ X))).length) = true := by
      rw [hh]; simp
    simp only [this, Bool.not_true, Bool.false_eq_true, ↓reduceIte]
  | child =>
    have hsk : skipWs (' ' :: (['>'] ++ ' ' :: (printSel d ++ X))) = '>' :: ' ' :: (printSel d ++ X) := by
      simp only [List.cons_append, List.nil_append]
      rw [skipWs_space, skipWs_stop '>' _ (by decide) (by decide)]
    have hsk2 : skipWs (' ' :: (printSel d ++ X)) = h :: (t ++ X) := by
      rw [skipWs_space, hh, List.cons_append, skipWs_stop h _ p1 p2]
    simp only [combStr, hsk]
    have e : (('>' : Char) == '+' || ('>' : Char) == '>' || ('>' : Char) == '~') = true := by decide
    simp only [e, ↓reduceIte, hsk2, hparse]
    rfl
  | adj =>
    have hsk : skipWs (' ' :: (['+'] ++ ' ' :: (printSel d ++ X))) = '+' :: ' ' :: (printSel d ++ X) := by
      simp only [List.cons_append, List.nil_append]
      rw [skipWs_space, skipWs_stop '+' _ (by decide) (by decide)]
    have hsk2 : skipWs (' ' :: (printSel d ++ X)) = h :: (t ++ X) := by
      rw [skipWs_space, hh, List.cons_append, skipWs_stop h _ p1 p2]
    simp only [combStr, hsk]
    have e : (('+' : Char) == '+' || ('+' : Char) == '>' || ('+' : Char) == '~') = true := by decide
    simp only [e, ↓reduceIte, hsk2, hparse]
    rfl
  | sib =>
    have hsk : skipWs (' ' :: (['~'] ++ ' ' :: (printSel d ++ X))) = '~' :: ' ' :: (printSel d ++ X) := by
      simp only [List.cons_append, List.nil_append]
      rw [skipWs_space, skipWs_stop '~' _ (by decide) (by decide)]
    have hsk2 : skipWs (' ' :: (printSel d ++ X)) = h :: (t ++ X) := by
      rw [skipWs_space, hh, List.cons_append, skipWs_stop h _ p1 p2]
    simp only [combStr, hsk]
    have e : (('~' : Char) == '+' || ('~' : Char) == '>' || ('~' : Char) == '~') = true := by decide
    simp only [e, ↓reduceIte, hsk2, hparse]
    rfl

theorem complex_combined (a d : Sel) (c : Comb) (ha : ComplexStmt a) (hcd : CompoundStmt d)
    (hhead : ∃ h t, printSel d = h :: t ∧ SelHead h) : ComplexStmt (.combined a c d) := by
  refine ⟨?_, ?_⟩
  · simpa [hd] using ha.1
  · intro f X hX hb
    simp only [hd, restStr, List.append_assoc] at hb ⊢
    obtain ⟨f', hf', heq⟩ := ha.2 f (' ' :: (combStr c ++ (' ' :: printSel d)) ++ X)
      (by simp [TailOf, compFollow]) (by simpa [List.append_assoc] using hb)
    have hlen : (' ' :: (combStr c ++ (' ' :: printSel d)) ++ X).length = (printSel d ++ X).length + 3 := by
      cases c <;> simp [combStr] <;> omega
    rw [hlen] at hf'
    match f', hf', heq with
    | g + 1, hf', heq =>
      refine ⟨g, by simp only [List.length_append] at hf' ⊢; omega, ?_⟩
      rw [heq]
      have := loop_step a d c g X hcd hhead hX (by omega)
      simpa [List.append_assoc] using this

theorem selectorLoopF_end (g : Nat) (tail : Str) (s : Sel) (ht : TailOf selFollow tail) :
    selectorLoopF (g + 1) tail s = .ok (s, tail) := by
  rw [selectorLoopF.eq_def]
  simp only
  cases tail with
  | nil => rfl
  | cons c t =>
    simp only [TailOf, selFollow, Bool.or_eq_true, beq_iff_eq] at ht
    rcases ht with h | h <;> subst h
    · rw [skipWs_stop ',' t (by decide) (by decide)]; rfl
    · rw [skipWs_stop ')' t (by decide) (by decide)]; rfl

theorem wf2_cases (d : Sel) (hw : wf 2 d = true) :
    (∃ n, d = .tag n ∧ lowerOk n = true) ∨ wf 0 d = true ∨ (∃ pe sels, d = .compound pe sels) := by
  cases d with
  | tag n => exact Or.inl ⟨n, rfl, by simpa [wf] using hw⟩
  | compound pe sels => exact Or.inr (Or.inr ⟨pe, sels, rfl⟩)
  | combined a c d => simp [wf] at hw
  | cls n => right; left; simpa [wf] using hw
  | id n => right; left; simpa [wf] using hw
  | attr k v o i => right; left; simpa [wf] using hw
  | nth a b l t => right; left; simpa [wf] using hw
  | only t => right; left; simp [wf]
  | empty => right; left; simp [wf]
  | root => right; left; simp [wf]
  | never v => right; left; simpa [wf] using hw
  | rel k args => right; left; simpa [wf] using hw

theorem simple_selHead (s : Sel) (hs : wf 0 s = true) : ∃ h t, printSel s = h :: t ∧ SelHead h := by
  obtain ⟨h, t, hh, hsim⟩ := simple_head s hs
  exact ⟨h, t, hh, Or.inr (Or.inr hsim)⟩

/-- the first character of a printed compound selector -/
theorem compound_head (d : Sel) (hw : wf 2 d = true) : ∃ h t, printSel d = h :: t ∧ SelHead h := by
  rcases wf2_cases d hw with ⟨n, rfl, hn⟩ | hw0 | ⟨pe, sels, rfl⟩
  · obtain ⟨h, t, hh, hid⟩ := printTag_head n hn
    exact ⟨h, t, by simpa [printSel] using hh, Or.inl hid⟩
  · exact simple_selHead d hw0
  · cases sels with
    | nil =>
      by_cases hpe : pe = []
      · subst hpe; exact ⟨'*', [], rfl, Or.inr (Or.inl rfl)⟩
      · have : pe.isEmpty = false := by cases pe <;> simp_all
        exact ⟨':', ':' :: pe, by simp [printSel, printConcat, this], Or.inr (Or.inr (by decide))⟩
    | cons h t =>
      simp only [wf, Bool.and_eq_true] at hw
      have hne : printSel (.compound pe (h :: t)) = printSel h ++ (printConcat t ++ peStr pe) := by
        rw [printSel_compound pe (h :: t) (by simp)]; simp [printConcat]
      rcases wf1_cases h hw.2.1 with ⟨n, rfl, hn⟩ | hw0
      · obtain ⟨c, r, hh, hid⟩ := printTag_head n hn
        exact ⟨c, r ++ (printConcat t ++ peStr pe), by rw [hne]; simp only [printSel, hh, List.cons_append], Or.inl hid⟩
      · obtain ⟨c, r, hh, hsim⟩ := simple_head h hw0
        exact ⟨c, _, by rw [hne, hh, List.cons_append], Or.inr (Or.inr hsim)⟩

theorem wf3_hd : ∀ (s : Sel), wf 3 s = true → wf 2 (hd s) = true
  | .combined a _ _, h => by
    simp only [wf, Bool.and_eq_true] at h
    simpa [hd] using wf3_hd a h.1.2
  | .tag n, h => by simpa [hd, wf] using h
  | .cls n, h => by simpa [hd, wf] using h
  | .id n, h => by simpa [hd, wf] using h
  | .attr _ _ _ _, h => by simpa [hd, wf] using h
  | .nth _ _ _ _, h => by simpa [hd, wf] using h
  | .only _, _ => by simp [hd, wf]
  | .empty, _ => by simp [hd, wf]
  | .root, _ => by simp [hd, wf]
  | .never _, h => by simpa [hd, wf] using h
  | .rel _ _, h => by simpa [hd, wf] using h
  | .compound pe sels, h => by cases sels <;> simpa [hd, wf] using h

/-- what is written after the leftmost compound selector is empty or starts with a space -/
theorem restStr_head : ∀ (s : Sel), restStr s = [] ∨ ∃ t, restStr s = ' ' :: t
  | .combined a c d => by
    right
    rcases restStr_head a with h | ⟨t, h⟩
    · exact ⟨combStr c ++ ' ' :: printSel d, by simp [restStr, h]⟩
    · exact ⟨t ++ ' ' :: (combStr c ++ ' ' :: printSel d), by simp [restStr, h]⟩
  | .tag _ | .cls _ | .id _ | .attr _ _ _ _ | .nth _ _ _ _ | .only _ | .empty | .root | .never _
  | .rel _ _ | .compound _ _ => Or.inl (by simp [restStr])

theorem restStr_tail (s : Sel) (tail : Str) (ht : TailOf compFollow tail) :
    TailOf compFollow (restStr s ++ tail) := by
  rcases restStr_head s with h | ⟨t, h⟩
  · simpa [h] using ht
  · simp [h, TailOf, compFollow]

end WR.C05.Lemmas
