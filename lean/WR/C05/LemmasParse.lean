/-
  C05 — helper lemmas about the parser model: every function consumes input (the remaining input is
  never longer), and the fuel-driven loops never run out of fuel.
-/
import WR.C05.Printer
namespace WR.C05.Lemmas
open WR.C05 WR.C05.Parse

theorem spanHex_len (n : Nat) (s : Str) : (spanHex n s).2.length ≤ s.length := by
  induction n generalizing s with
  | zero => simp [spanHex]
  | succ n ih =>
    cases s with
    | nil => simp [spanHex]
    | cons c s =>
      simp only [spanHex]
      split
      · simp only [List.length_cons]; have := ih s; omega
      · simp

theorem spanHex_len_lt (n : Nat) (c : Char) (s : Str) (h : isHex c = true) :
    (spanHex (n + 1) (c :: s)).2.length ≤ s.length := by
  simp only [spanHex, h, ↓reduceIte]
  exact spanHex_len n s

/-- `parseEscape` consumes at least two characters -/
theorem parseEscape_len {s r : Str} {v : Char} (h : parseEscape s = .ok (v, r)) :
    r.length + 2 ≤ s.length := by
  unfold parseEscape at h
  split at h
  · rename_i c rest
    split at h
    · exact absurd h (by simp)
    · split at h
      · rename_i hhex
        simp only [Except.ok.injEq, Prod.mk.injEq] at h
        have h1 := spanHex_len_lt 5 c rest hhex
        rw [← h.2]
        generalize (spanHex 6 (c :: rest)).2 = t at h1 ⊢
        simp only [List.length_cons]
        split <;> (try simp only [List.length_cons] at h1) <;> omega
      · simp only [Except.ok.injEq, Prod.mk.injEq] at h
        rw [← h.2]; simp
  · exact absurd h (by simp)

/-- `parseNameF` with enough fuel never reports `fuel`, and consumes input -/
theorem parseNameF_spec : ∀ (fuel : Nat) (s acc : Str), s.length < fuel →
    parseNameF fuel s acc ≠ .error .fuel ∧
    ∀ n r, parseNameF fuel s acc = .ok (n, r) →
      r.length ≤ s.length ∧ (acc = [] → r.length < s.length) := by
  intro fuel
  induction fuel with
  | zero => intro s acc h; omega
  | succ fuel ih =>
    intro s acc hlen
    unfold parseNameF
    cases s with
    | nil =>
      simp only
      split
      · simp_all
      · refine ⟨by simp, ?_⟩
        intro n r h
        simp only [Except.ok.injEq, Prod.mk.injEq] at h
        rw [← h.2]
        exact ⟨by simp, fun hacc => by simp_all⟩
    | cons c rest =>
      simp only [List.length_cons] at hlen
      simp only
      split
      · have := ih rest (c :: acc) (by omega)
        refine ⟨this.1, ?_⟩
        intro n r h
        have := (this.2 n r h).1
        simp only [List.length_cons]
        exact ⟨by omega, fun _ => by omega⟩
      · split
        · split
          · rename_i v r' hesc
            have hl := parseEscape_len hesc
            simp only [List.length_cons] at hl
            have := ih r' (v :: acc) (by omega)
            refine ⟨this.1, ?_⟩
            intro n r h
            have := (this.2 n r h).1
            simp only [List.length_cons]
            exact ⟨by omega, fun _ => by omega⟩
          · rename_i e hesc
            refine ⟨?_, by intro n r h; simp at h⟩
            intro h
            simp only [Except.error.injEq] at h
            subst h
            unfold parseEscape at hesc
            split at hesc
            · split at hesc
              · simp at hesc
              · split at hesc <;> simp at hesc
            · simp at hesc
        · split
          · simp
          · refine ⟨by simp, ?_⟩
            intro n r h
            simp only [Except.ok.injEq, Prod.mk.injEq] at h
            rw [← h.2]
            exact ⟨by simp, fun hacc => by simp_all⟩

theorem parseName_nofuel (s : Str) : parseName s ≠ .error .fuel :=
  (parseNameF_spec _ s [] (by omega)).1

theorem parseName_len {s n r : Str} (h : parseName s = .ok (n, r)) : r.length < s.length :=
  ((parseNameF_spec _ s [] (by omega)).2 n r h).2 rfl

theorem dropWhile_len (p : Char → Bool) (s : Str) : (s.dropWhile p).length ≤ s.length := by
  induction s with
  | nil => simp
  | cons c s ih => simp only [List.dropWhile_cons]; split <;> simp <;> omega

theorem parseIdentifier_nofuel (s : Str) : parseIdentifier s ≠ .error .fuel := by
  unfold parseIdentifier
  simp only
  split
  · simp
  · split
    · simp
    · split
      · simp
      · rename_i e he
        intro h
        simp only [Except.error.injEq] at h
        subst h
        exact parseName_nofuel _ he

theorem parseIdentifier_len {s n r : Str} (h : parseIdentifier s = .ok (n, r)) :
    r.length < s.length := by
  unfold parseIdentifier at h
  simp only at h
  split at h
  · simp at h
  · split at h
    · simp at h
    · split at h
      · rename_i n' r' hn
        simp only [Except.ok.injEq, Prod.mk.injEq] at h
        have := parseName_len hn
        have h2 := dropWhile_len (· == '-') s
        rw [← h.2]
        omega
      · simp at h

theorem parseEscape_nofuel (s : Str) : parseEscape s ≠ .error .fuel := by
  unfold parseEscape
  split
  · split
    · simp
    · split <;> simp
  · simp

theorem parseStringF_spec (q : Char) : ∀ (fuel : Nat) (s acc : Str), s.length < fuel →
    parseStringF q fuel s acc ≠ .error .fuel ∧
    ∀ v r, parseStringF q fuel s acc = .ok (v, r) → r.length < s.length := by
  intro fuel
  induction fuel with
  | zero => intro s acc h; omega
  | succ fuel ih =>
    intro s acc hlen
    unfold parseStringF
    split
    · exact ⟨by simp, by intro v r h; simp at h⟩
    · rename_i t
      simp only [List.length_cons] at hlen
      have := ih t acc (by omega)
      exact ⟨this.1, fun v r h => by have := this.2 v r h; simp only [List.length_cons]; omega⟩
    · rename_i t _
      simp only [List.length_cons] at hlen
      have := ih t acc (by omega)
      exact ⟨this.1, fun v r h => by have := this.2 v r h; simp only [List.length_cons]; omega⟩
    · rename_i t
      simp only [List.length_cons] at hlen
      have := ih t acc (by omega)
      exact ⟨this.1, fun v r h => by have := this.2 v r h; simp only [List.length_cons]; omega⟩
    · rename_i t
      simp only [List.length_cons] at hlen
      have := ih t acc (by omega)
      exact ⟨this.1, fun v r h => by have := this.2 v r h; simp only [List.length_cons]; omega⟩
    · rename_i t _ _ _ _
      split
      · rename_i v r' hesc
        have hl := parseEscape_len hesc
        simp only [List.length_cons] at hl hlen
        have := ih r' (v :: acc) (by omega)
        exact ⟨this.1, fun v r h => by have := this.2 v r h; simp only [List.length_cons]; omega⟩
      · rename_i e hesc
        refine ⟨?_, by intro v r h; simp at h⟩
        intro h
        simp only [Except.error.injEq] at h
        subst h
        exact parseEscape_nofuel _ hesc
    · rename_i c t _ _ _ _ _
      simp only [List.length_cons] at hlen
      split
      · refine ⟨by simp, ?_⟩
        intro v r h
        simp only [Except.ok.injEq, Prod.mk.injEq] at h
        rw [← h.2]; simp
      · split
        · exact ⟨by simp, by intro v r h; simp at h⟩
        · have := ih t (c :: acc) (by omega)
          exact ⟨this.1, fun v r h => by have := this.2 v r h; simp only [List.length_cons]; omega⟩

theorem parseString_nofuel (s : Str) : parseString s ≠ .error .fuel := by
  unfold parseString
  split
  · rename_i q c rest
    exact (parseStringF_spec q _ (c :: rest) [] (by simp)).1
  · simp

theorem parseString_len {s v r : Str} (h : parseString s = .ok (v, r)) : r.length < s.length := by
  unfold parseString at h
  split at h
  · rename_i q c rest
    have := (parseStringF_spec q _ (c :: rest) [] (by simp)).2 v r h
    simp only [List.length_cons] at this ⊢
    omega
  · simp at h

theorem afterCommentEnd_len (s : Str) : (afterCommentEnd s).length ≤ s.length := by
  fun_induction afterCommentEnd s <;> simp <;> omega

theorem skipWsF_len : ∀ (fuel : Nat) (s : Str), (skipWsF fuel s).length ≤ s.length := by
  intro fuel
  induction fuel with
  | zero => intro s; simp [skipWsF]
  | succ fuel ih =>
    intro s
    unfold skipWsF
    split
    · rename_i t
      split
      · have := ih (afterCommentEnd t)
        have := afterCommentEnd_len t
        simp only [List.length_cons]; omega
      · simp
    · rename_i c t _
      split
      · have := ih t; simp only [List.length_cons]; omega
      · simp
    · simp

theorem skipWs_len (s : Str) : (skipWs s).length ≤ s.length := skipWsF_len _ s

theorem parseInteger_nofuel (s : Str) : parseInteger s ≠ .error .fuel := by
  unfold parseInteger
  simp only
  split
  · simp
  · split <;> simp

theorem parseInteger_len {s r : Str} {v : Nat} (h : parseInteger s = .ok (v, r)) :
    r.length < s.length := by
  unfold parseInteger at h
  simp only at h
  split at h
  · simp at h
  · split at h
    · simp at h
    · simp only [Except.ok.injEq, Prod.mk.injEq] at h
      rw [← h.2]
      rename_i hne _
      cases s with
      | nil => simp at hne
      | cons c t =>
        simp only [List.takeWhile_cons, List.dropWhile_cons] at hne ⊢
        split
        · have := dropWhile_len isDigit t; simp only [List.length_cons]; omega
        · rename_i hc; simp [hc] at hne

theorem nthReadN_spec (a : Int) (s : Str) :
    nthReadN a s ≠ .error .fuel ∧ ∀ v r, nthReadN a s = .ok (v, r) → r.length ≤ s.length := by
  unfold nthReadN
  have hs := skipWs_len s
  split
  · exact ⟨by simp, by intro v r h; simp at h⟩
  · rename_i t heq
    rw [heq] at hs
    have ht := skipWs_len t
    simp only [List.length_cons] at hs
    split
    · rename_i b r hb
      refine ⟨by simp, ?_⟩
      intro v r' h
      simp only [Except.ok.injEq, Prod.mk.injEq] at h
      have := parseInteger_len hb
      rw [← h.2]; omega
    · rename_i e he
      refine ⟨?_, by intro v r h; simp at h⟩
      intro h; simp only [Except.error.injEq] at h; subst h
      exact parseInteger_nofuel _ he
  · rename_i t heq
    rw [heq] at hs
    have ht := skipWs_len t
    simp only [List.length_cons] at hs
    split
    · rename_i b r hb
      refine ⟨by simp, ?_⟩
      intro v r' h
      simp only [Except.ok.injEq, Prod.mk.injEq] at h
      have := parseInteger_len hb
      rw [← h.2]; omega
    · rename_i e he
      refine ⟨?_, by intro v r h; simp at h⟩
      intro h; simp only [Except.error.injEq] at h; subst h
      exact parseInteger_nofuel _ he
  · refine ⟨by simp, ?_⟩
    intro v r h
    simp only [Except.ok.injEq, Prod.mk.injEq] at h
    rw [← h.2]; exact hs

theorem nthSignedA_spec (neg : Bool) (s : Str) :
    nthSignedA neg s ≠ .error .fuel ∧ ∀ v r, nthSignedA neg s = .ok (v, r) → r.length < s.length := by
  unfold nthSignedA
  split
  · exact ⟨by simp, by intro v r h; simp at h⟩
  · rename_i c t
    split
    · split
      · rename_i e he
        refine ⟨?_, by intro v r h; simp at h⟩
        intro h; simp only [Except.error.injEq] at h; subst h
        exact parseInteger_nofuel _ he
      · rename_i n r hn
        have hl := parseInteger_len hn
        simp only
        split
        · exact ⟨by simp, by intro v r h; simp at h⟩
        · rename_i r'
          have := nthReadN_spec (if neg = true then -(n : Int) else n) r'
          refine ⟨this.1, ?_⟩
          intro v r'' h
          have := this.2 v r'' h
          simp only [List.length_cons] at hl ⊢; omega
        · rename_i r'
          have := nthReadN_spec (if neg = true then -(n : Int) else n) r'
          refine ⟨this.1, ?_⟩
          intro v r'' h
          have := this.2 v r'' h
          simp only [List.length_cons] at hl ⊢; omega
        · refine ⟨by simp, ?_⟩
          intro v r' h
          simp only [Except.ok.injEq, Prod.mk.injEq] at h
          rw [← h.2]; exact hl
    · split
      · have := nthReadN_spec (if neg = true then -1 else 1) t
        refine ⟨this.1, ?_⟩
        intro v r h
        have := this.2 v r h
        simp only [List.length_cons]; omega
      · exact ⟨by simp, by intro v r h; simp at h⟩

theorem parseNth_spec (s : Str) :
    parseNth s ≠ .error .fuel ∧ ∀ v r, parseNth s = .ok (v, r) → r.length < s.length := by
  unfold parseNth
  split
  · exact ⟨by simp, by intro v r h; simp at h⟩
  · rename_i c t
    split
    · have := nthSignedA_spec true t
      exact ⟨this.1, fun v r h => by have := this.2 v r h; simp only [List.length_cons]; omega⟩
    · split
      · have := nthSignedA_spec false t
        exact ⟨this.1, fun v r h => by have := this.2 v r h; simp only [List.length_cons]; omega⟩
      · split
        · exact nthSignedA_spec false (c :: t)
        · split
          · have := nthReadN_spec 1 t
            exact ⟨this.1, fun v r h => by have := this.2 v r h; simp only [List.length_cons]; omega⟩
          · split
            · split
              · rename_i e he
                refine ⟨?_, by intro v r h; simp at h⟩
                intro h; simp only [Except.error.injEq] at h; subst h
                exact parseName_nofuel _ he
              · rename_i id r hn
                have hl := parseName_len hn
                simp only
                split
                · refine ⟨by simp, ?_⟩
                  intro v r' h
                  simp only [Except.ok.injEq, Prod.mk.injEq] at h
                  rw [← h.2]; exact hl
                · split
                  · refine ⟨by simp, ?_⟩
                    intro v r' h
                    simp only [Except.ok.injEq, Prod.mk.injEq] at h
                    rw [← h.2]; exact hl
                  · exact ⟨by simp, by intro v r h; simp at h⟩
            · exact ⟨by simp, by intro v r h; simp at h⟩

theorem consumeParen_len {s r : Str} (h : consumeParen s = some r) : r.length < s.length := by
  unfold consumeParen at h
  split at h
  · rename_i t
    simp only [Option.some.injEq] at h
    rw [← h]
    have := skipWs_len t
    simp only [List.length_cons]; omega
  · simp at h

theorem consumeClosing_len {s r : Str} (h : consumeClosing s = some r) : r.length < s.length := by
  unfold consumeClosing at h
  have hs := skipWs_len s
  split at h
  · rename_i t heq
    simp only [Option.some.injEq] at h
    rw [heq] at hs
    rw [← h]
    simp only [List.length_cons] at hs; omega
  · simp at h

theorem attrOpOf_len {s op r : Str} (h : attrOpOf s = some (op, r)) : r.length < s.length := by
  unfold attrOpOf at h
  split at h
  · split at h
    · simp only [Option.some.injEq, Prod.mk.injEq] at h; rw [← h.2]; simp
    · split at h
      · simp at h
      · split at h
        · simp only [Option.some.injEq, Prod.mk.injEq] at h; rw [← h.2]; simp; omega
        · simp at h
  · simp at h

theorem parseAttrValue_spec (s : Str) :
    parseAttrValue s ≠ .error .fuel ∧ ∀ v r, parseAttrValue s = .ok (v, r) → r.length < s.length := by
  unfold parseAttrValue
  split
  · split
    · exact ⟨parseString_nofuel _, fun v r h => parseString_len h⟩
    · exact ⟨parseIdentifier_nofuel _, fun v r h => parseIdentifier_len h⟩
  · exact ⟨by simp, by intro v r h; simp at h⟩

theorem parseAttrEnd_spec (key val op s : Str) :
    parseAttrEnd key val op s ≠ .error .fuel ∧
    ∀ v r, parseAttrEnd key val op s = .ok (v, r) → r.length < s.length := by
  unfold parseAttrEnd
  have hs := skipWs_len s
  split
  · exact ⟨by simp, by intro v r h; simp at h⟩
  · rename_i f s5 heq
    rw [heq] at hs
    simp only
    split
    · rename_i t heq2
      split
      · refine ⟨by simp, ?_⟩
        intro v r h
        simp only [Except.ok.injEq, Prod.mk.injEq] at h
        rw [← h.2]
        have h2 := skipWs_len (if (f == 'i' || f == 'I') = true then s5 else f :: s5)
        rw [heq2] at h2
        simp only [List.length_cons] at hs h2
        split at h2 <;> (try simp only [List.length_cons] at h2) <;> omega
      · exact ⟨by simp, by intro v r h; simp at h⟩
    · exact ⟨by simp, by intro v r h; simp at h⟩

theorem parseAttrTail_spec (key s : Str) :
    parseAttrTail key s ≠ .error .fuel ∧
    ∀ v r, parseAttrTail key s = .ok (v, r) → r.length < s.length := by
  unfold parseAttrTail
  split
  · exact ⟨by simp, by intro v r h; simp at h⟩
  · refine ⟨by simp, ?_⟩
    intro v r h
    simp only [Except.ok.injEq, Prod.mk.injEq] at h
    rw [← h.2]; simp
  · rename_i c0 t0 _
    split
    · exact ⟨by simp, by intro v r h; simp at h⟩
    · split
      · exact ⟨by simp, by intro v r h; simp at h⟩
      · rename_i op s2 hop
        have h1 := attrOpOf_len hop
        have h2 := skipWs_len s2
        split
        · exact ⟨by simp, by intro v r h; simp at h⟩
        · rename_i c s3 heq
          rw [heq] at h2
          split
          · exact ⟨by simp, by intro v r h; simp at h⟩
          · split
            · rename_i e he
              refine ⟨?_, by intro v r h; simp at h⟩
              intro h; simp only [Except.error.injEq] at h; subst h
              exact (parseAttrValue_spec _).1 he
            · rename_i val s4 hv
              have h3 := (parseAttrValue_spec _).2 val s4 hv
              have := parseAttrEnd_spec key val op s4
              refine ⟨this.1, ?_⟩
              intro v r h
              have := this.2 v r h
              omega

theorem parseAttr_spec (s : Str) :
    parseAttr s ≠ .error .fuel ∧ ∀ v r, parseAttr s = .ok (v, r) → r.length < s.length := by
  unfold parseAttr
  split
  · rename_i s0
    split
    · rename_i e he
      refine ⟨?_, by intro v r h; simp at h⟩
      intro h; simp only [Except.error.injEq] at h; subst h
      exact parseIdentifier_nofuel _ he
    · rename_i key s1 hk
      have h1 := parseIdentifier_len hk
      have h2 := skipWs_len s0
      have h3 := skipWs_len s1
      have := parseAttrTail_spec (lower key) (skipWs s1)
      refine ⟨this.1, ?_⟩
      intro v r h
      have := this.2 v r h
      simp only [List.length_cons]; omega
  · exact ⟨by simp, by intro v r h; simp at h⟩

end WR.C05.Lemmas
