import WR.C05.Printable
import WR.C05.LemmasParseTotal
namespace WR.C05.Lemmas
open WR.C05 WR.C05.Parse WR.C05.Print

/-! ### characters -/

theorem hexDigits_facts : ∀ n, n < 128 → n ≠ 0 →
    ((hexDigits n).all isHex && decide ((hexDigits n).length ≤ 2) && !(hexDigits n).isEmpty &&
      decide (hexVal (hexDigits n) = n) &&
      (hexDigits n).head?.all (fun d => !(d == '\r' || d == '\n' || d == '\x0c'))) = true := by
  decide

theorem spanHex_exact : ∀ (ds : Str) (n : Nat) (r : Str), ds.all isHex = true → ds.length ≤ n →
    spanHex n (ds ++ ' ' :: r) = (ds, ' ' :: r) := by
  intro ds
  induction ds with
  | nil =>
    intro n r _ _
    cases n with
    | zero => simp [spanHex]
    | succ n => simp only [List.nil_append, spanHex]; rw [if_neg (by decide)]
  | cons d ds ih =>
    intro n r hall hlen
    simp only [List.all_cons, Bool.and_eq_true] at hall
    cases n with
    | zero => simp at hlen
    | succ n =>
      simp only [List.length_cons] at hlen
      simp only [List.cons_append, spanHex, hall.1, ↓reduceIte, ih n r hall.2 (by omega)]

theorem runeOf_toNat (c : Char) : runeOf c.toNat = c := by
  unfold runeOf
  have : c.toNat.isValidChar := c.valid
  simp [this, Char.ofNat_toNat]

/-- a hex escape followed by its space parses back to the character -/
theorem parseEscape_hex (c : Char) (h1 : c.toNat < 128) (h0 : c.toNat ≠ 0) (r : Str) :
    parseEscape ('\\' :: hexDigits c.toNat ++ ' ' :: r) = .ok (c, r) := by
  have hf := hexDigits_facts c.toNat h1 h0
  simp only [Bool.and_eq_true, decide_eq_true_eq, Bool.not_eq_true', List.isEmpty_eq_false_iff] at hf
  obtain ⟨⟨⟨⟨hall, hlen⟩, hne⟩, hval⟩, hhead⟩ := hf
  generalize hds : hexDigits c.toNat = ds at *
  cases ds with
  | nil => exact absurd rfl hne
  | cons d ds' =>
    simp only [List.all_cons, Bool.and_eq_true] at hall
    simp only [List.head?_cons, Option.all_some, Bool.not_eq_true'] at hhead
    have hsp := spanHex_exact (d :: ds') 6 r (by simp [hall.1, hall.2]) (by omega)
    simp only [List.cons_append] at hsp ⊢
    unfold parseEscape
    simp only [hhead, Bool.false_eq_true, ↓reduceIte, hall.1, hsp, hval, runeOf_toNat]

/-- the special characters: a backslash followed by one of them is the literal character -/
theorem special_facts : ∀ c ∈ ",!\"#$%&'()*+ -./:;<=>?@[\\]^`{|}~".toList,
    (!isHex c && !(c == '\r' || c == '\n' || c == '\x0c') && !nameChar c || c == '-') = true := by
  decide

theorem special_not_hex : ∀ c ∈ ",!\"#$%&'()*+ -./:;<=>?@[\\]^`{|}~".toList,
    (!isHex c && !(c == '\r' || c == '\n' || c == '\x0c')) = true := by
  decide

theorem parseEscape_literal (c : Char) (hh : isHex c = false)
    (hn : (c == '\r' || c == '\n' || c == '\x0c') = false) (r : Str) :
    parseEscape ('\\' :: c :: r) = .ok (c, r) := by
  unfold parseEscape
  simp [hh, hn]

theorem parseEscape_special (c : Char) (h : isSpecial c = true) (r : Str) :
    parseEscape ('\\' :: c :: r) = .ok (c, r) := by
  have := special_not_hex c (by simpa [isSpecial] using h)
  simp only [Bool.and_eq_true, Bool.not_eq_true'] at this
  exact parseEscape_literal c this.1 this.2 r

/-- printable ASCII that is not special is a name character -/
theorem plain_ascii : ∀ n, n < 128 → 0x20 ≤ n → n ≠ 0x7f →
    (isSpecial (Char.ofNat n) || nameChar (Char.ofNat n)) = true := by
  decide

theorem plain_nameChar (c : Char) (h1 : ¬ c.toNat < 0x20) (h2 : c.toNat ≠ 0x7f)
    (h3 : isSpecial c = false) : nameChar c = true := by
  by_cases h : c.toNat < 128
  · have := plain_ascii c.toNat h (by omega) h2
    rw [Char.ofNat_toNat, h3] at this
    simpa using this
  · unfold nameChar
    have : decide (c.toNat > 127) = true := by simp; omega
    simp [this]

theorem digit_ascii (c : Char) (h : isDigit c = true) : c.toNat < 128 := by
  simp only [isDigit, Bool.and_eq_true, decide_eq_true_eq] at h
  have := h.2
  rw [Char.le_def] at this
  simp only [Char.toNat, ge_iff_le] at *
  have h9 : ('9' : Char).val.toNat = 57 := by decide
  have := UInt32.le_iff_toNat_le.1 this
  omega

/-! ### names -/

/-- what the loop of `parseName` returns when it stops -/
def finishName (tail acc : Str) : Res Str :=
  if acc.isEmpty then .error .malformed else .ok (acc.reverse, tail)

/-- the remaining input does not continue a name -/
def StopsName : Str → Prop
  | [] => True
  | c :: _ => nameChar c = false ∧ c ≠ '\\'

theorem parseNameF_stop (fuel : Nat) (tail acc : Str) (h : StopsName tail) :
    parseNameF (fuel + 1) tail acc = finishName tail acc := by
  unfold parseNameF finishName
  cases tail with
  | nil => rfl
  | cons c t =>
    obtain ⟨h1, h2⟩ := h
    have : (c == '\\') = false := by simp [h2]
    simp only [h1, Bool.false_eq_true, ↓reduceIte, this]

theorem parseNameF_cons (fuel : Nat) (c : Char) (rest acc : Str) :
    parseNameF (fuel + 1) (c :: rest) acc =
      if nameChar c then parseNameF fuel rest (c :: acc)
      else if c == '\\' then
        match parseEscape (c :: rest) with
        | .ok (v, r) => parseNameF fuel r (v :: acc)
        | .error e => .error e
      else if acc.isEmpty then .error .malformed else .ok (acc.reverse, c :: rest) := by
  rw [parseNameF.eq_def]
  rfl

theorem escapeChar_pos (first ad alone : Bool) (c : Char) : 0 < (escapeChar first ad alone c).length := by
  unfold escapeChar
  repeat' split
  all_goals simp

/-- one escaped character is one step of the loop of `parseName` -/
theorem parseNameF_step (first ad alone : Bool) (c : Char) (h0 : c.toNat ≠ 0) (fuel : Nat) (s acc : Str) :
    parseNameF (fuel + 1) (escapeChar first ad alone c ++ s) acc = parseNameF fuel s (c :: acc) := by
  have esc : ∀ (body : Str), parseEscape ('\\' :: body ++ s) = .ok (c, s) →
      parseNameF (fuel + 1) ('\\' :: body ++ s) acc = parseNameF fuel s (c :: acc) := by
    intro body h
    have h1 : nameChar '\\' = false := by decide
    simp only [List.cons_append] at h ⊢
    rw [parseNameF_cons]
    simp only [h1, Bool.false_eq_true, ↓reduceIte, beq_self_eq_true, h]
  have raw : nameChar c = true → parseNameF (fuel + 1) (c :: s) acc = parseNameF fuel s (c :: acc) := by
    intro h; rw [parseNameF_cons]; simp only [h, ↓reduceIte]
  unfold escapeChar
  simp only [h0, ↓reduceIte]
  split
  · rename_i hc
    have hlt : c.toNat < 128 := by
      simp only [Bool.or_eq_true, decide_eq_true_eq, Bool.and_eq_true] at hc
      rcases hc with (hc | hc) | hc
      · omega
      · omega
      · exact digit_ascii c hc.1
    have := esc (hexDigits c.toNat ++ [' ']) (by simpa using parseEscape_hex c hlt h0 s)
    simpa using this
  · rename_i hc
    simp only [Bool.or_eq_true, decide_eq_true_eq, Bool.and_eq_true, not_or, not_and] at hc
    split
    · rename_i hd
      simp only [Bool.and_eq_true, beq_iff_eq] at hd
      have := esc ['-'] (by rw [hd.1]; exact parseEscape_literal '-' (by decide) (by decide) s)
      simpa [hd.1] using this
    · split
      · rename_i hd
        simp only [Bool.and_eq_true, beq_iff_eq] at hd
        rw [hd.1]
        exact (by rw [← hd.1]; exact raw (by rw [hd.1]; decide))
      · split
        · rename_i hs
          have := esc [c] (by simpa using parseEscape_special c hs s)
          simpa using this
        · rename_i hs
          exact raw (plain_nameChar c hc.1.1 hc.1.2 (by simpa using hs))

theorem parseNameF_escapeTail : ∀ (cs : Str), (∀ c ∈ cs, c.toNat ≠ 0) →
    ∀ (ad : Bool) (fuel : Nat) (tail acc : Str), StopsName tail →
      (escapeTail ad cs ++ tail).length < fuel →
      parseNameF fuel (escapeTail ad cs ++ tail) acc = finishName tail (cs.reverse ++ acc) := by
  intro cs
  induction cs with
  | nil =>
    intro _ ad fuel tail acc hstop hlen
    cases fuel with
    | zero => omega
    | succ fuel => simpa [escapeTail] using parseNameF_stop fuel tail acc hstop
  | cons c cs ih =>
    intro hnz ad fuel tail acc hstop hlen
    cases fuel with
    | zero => omega
    | succ fuel =>
      simp only [escapeTail, List.append_assoc]
      rw [parseNameF_step false ad false c (hnz c (by simp))]
      have hl := escapeChar_pos false ad false c
      rw [ih (fun x hx => hnz x (by simp [hx])) false fuel tail (c :: acc) hstop
        (by simp only [escapeTail, List.append_assoc, List.length_append] at hlen ⊢; omega)]
      simp

/-- `parseName` reads back an escaped name -/
theorem parseName_escape (name tail : Str) (hok : identOk name = true) (hstop : StopsName tail) :
    parseName (escape name ++ tail) = .ok (name, tail) := by
  simp only [identOk, Bool.and_eq_true, Bool.not_eq_true', List.isEmpty_eq_false_iff, List.all_eq_true,
    bne_iff_ne, ne_eq] at hok
  cases name with
  | nil => exact absurd rfl hok.1
  | cons c cs =>
    unfold parseName
    simp only [escape, List.append_assoc]
    rw [parseNameF_step true false cs.isEmpty c (hok.2 c (by simp))]
    have hl := escapeChar_pos true false cs.isEmpty c
    rw [parseNameF_escapeTail cs (fun x hx => hok.2 x (by simp [hx])) _ _ tail [c] hstop
      (by simp only [List.length_append] at hl ⊢; omega)]
    simp [finishName]

/-! ### identifiers -/

theorem plain_ascii_start : ∀ n, n < 128 → 0x20 ≤ n → n ≠ 0x7f →
    (isSpecial (Char.ofNat n) || isDigit (Char.ofNat n) || nameStart (Char.ofNat n)) = true := by
  decide

theorem plain_nameStart (c : Char) (h1 : ¬ c.toNat < 0x20) (h2 : c.toNat ≠ 0x7f)
    (h3 : isSpecial c = false) (h4 : isDigit c = false) : nameStart c = true := by
  by_cases h : c.toNat < 128
  · have := plain_ascii_start c.toNat h (by omega) h2
    rw [Char.ofNat_toNat, h3, h4] at this
    simpa using this
  · unfold nameStart
    have : decide (c.toNat > 127) = true := by simp; omega
    simp [this]

/-- the first character an escaped character is written with, when digits are escaped there -/
theorem escapeChar_head (first ad alone : Bool) (c : Char) (h0 : c.toNat ≠ 0) (hd : (first || ad) = true) :
    ∃ h t, escapeChar first ad alone c = h :: t ∧
      (h = '\\' ∨ (nameStart h = true ∧ h ≠ '-') ∨ (c = '-' ∧ first = true ∧ alone = false ∧ h = '-' ∧ t = [])) := by
  unfold escapeChar
  simp only [h0, ↓reduceIte]
  split
  · exact ⟨_, _, rfl, Or.inl rfl⟩
  · rename_i hc
    simp only [Bool.or_eq_true, decide_eq_true_eq, Bool.and_eq_true, not_or, not_and] at hc
    split
    · exact ⟨_, _, rfl, Or.inl rfl⟩
    · rename_i hal
      split
      · rename_i hf
        simp only [Bool.and_eq_true, beq_iff_eq] at hf hal
        refine ⟨_, _, rfl, Or.inr (Or.inr ⟨hf.1, hf.2, ?_, rfl, rfl⟩)⟩
        cases alone
        · rfl
        · exact absurd ⟨hf.1, rfl⟩ hal
      · split
        · exact ⟨_, _, rfl, Or.inl rfl⟩
        · rename_i hs
          refine ⟨c, [], rfl, Or.inr (Or.inl ⟨?_, ?_⟩)⟩
          · apply plain_nameStart c hc.1.1 hc.1.2 (by simpa using hs)
            cases hdg : isDigit c
            · rfl
            · have := hc.2 hdg
              simp only [Bool.or_eq_true] at hd
              rcases hd with hd | hd
              · exact absurd hd (by simpa using this.1)
              · exact absurd hd (by simpa using this.2)
          · intro hdash
            subst hdash
            exact absurd (by decide : isSpecial '-' = true) (by simpa using hs)

theorem stopsName_not_dash : ∀ {tail : Str}, StopsName tail →
    tail.takeWhile (· == '-') = [] ∧ tail.dropWhile (· == '-') = tail := by
  intro tail h
  cases tail with
  | nil => simp
  | cons c t =>
    have : c ≠ '-' := by intro hc; subst hc; exact absurd h.1 (by decide)
    simp [this]

/-- `parseIdentifier` reads back an escaped name -/
theorem parseIdentifier_escape (name tail : Str) (hok : identOk name = true) (hstop : StopsName tail) :
    parseIdentifier (escape name ++ tail) = .ok (name, tail) := by
  have hok' := hok
  simp only [identOk, Bool.and_eq_true, Bool.not_eq_true', List.isEmpty_eq_false_iff, List.all_eq_true,
    bne_iff_ne, ne_eq] at hok'
  cases name with
  | nil => exact absurd rfl hok'.1
  | cons c cs =>
    obtain ⟨h, t, hesc, hh⟩ := escapeChar_head true false cs.isEmpty c (hok'.2 c (by simp)) rfl
    rcases hh with hh | hh | ⟨hc, _, hal, hh, ht⟩
    · -- the text starts with a backslash: no leading hyphen
      have hp := parseName_escape (c :: cs) tail hok hstop
      unfold parseIdentifier
      simp only [escape, hesc, hh, List.cons_append] at hp ⊢
      have e1 : (('\\' : Char) == '-') = false := by decide
      simp only [List.takeWhile_cons, List.dropWhile_cons, e1, Bool.false_eq_true, ↓reduceIte]
      have e2 : (!(nameStart '\\' || ('\\' : Char) == '\\')) = false := by decide
      simp only [e2, Bool.false_eq_true, ↓reduceIte, hp, List.nil_append]
    · have hp := parseName_escape (c :: cs) tail hok hstop
      unfold parseIdentifier
      simp only [escape, hesc, List.cons_append] at hp ⊢
      have e1 : (h == '-') = false := by simp [hh.2]
      simp only [List.takeWhile_cons, List.dropWhile_cons, e1, Bool.false_eq_true, ↓reduceIte]
      simp only [hh.1, Bool.true_or, Bool.not_true, Bool.false_eq_true, ↓reduceIte, hp, List.nil_append]
    · -- a leading hyphen, written raw, followed by at least one more character
      subst hc
      cases cs with
      | nil => simp at hal
      | cons c2 cs2 =>
        obtain ⟨h2, t2, hesc2, hh2⟩ := escapeChar_head false true false c2 (hok'.2 c2 (by simp)) rfl
        have hh2' : h2 = '\\' ∨ (nameStart h2 = true ∧ h2 ≠ '-') := by
          rcases hh2 with h' | h' | ⟨_, hf, _⟩
          · exact Or.inl h'
          · exact Or.inr h'
          · exact absurd hf (by simp)
        have hne : h2 ≠ '-' := by
          rcases hh2' with h' | h'
          · rw [h']; decide
          · exact h'.2
        have hstart : (!(nameStart h2 || h2 == '\\')) = false := by
          rcases hh2' with h' | h'
          · rw [h']; decide
          · simp [h'.1]
        have hrest : parseName (escapeTail true (c2 :: cs2) ++ tail) = .ok (c2 :: cs2, tail) := by
          unfold parseName
          rw [parseNameF_escapeTail (c2 :: cs2) (fun x hx => hok'.2 x (by simp [hx])) true _ tail [] hstop (by omega)]
          simp [finishName]
        unfold parseIdentifier
        simp only [escapeTail, hesc2, List.cons_append] at hrest
        simp only [escape, hesc, hh, ht, List.cons_append, List.nil_append, beq_self_eq_true, escapeTail,
          hesc2]
        have e1 : (h2 == '-') = false := by simp [hne]
        simp only [List.takeWhile_cons, List.dropWhile_cons, beq_self_eq_true, ↓reduceIte, e1,
          Bool.false_eq_true, hstart, hrest]
        rfl

end WR.C05.Lemmas
