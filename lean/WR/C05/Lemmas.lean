/-
  C05 — helper lemmas: strings and attribute operators.
-/
import WR.C05.Domain
namespace WR.C05.Lemmas
open WR.C05 WR.C05.Spec

theorem isDocWs_eq (c : Char) : isDocWs c = isAsciiWs c := by
  simp only [isDocWs, isAsciiWs]
  cases (c == ' ') <;> cases (c == '\t') <;> cases (c == '\n') <;> cases (c == '\x0c') <;> cases (c == '\r') <;> rfl

theorem eqVal_iff (s1 s2 : Str) (ic : Bool) : eqVal s1 s2 ic = true ↔ CEq ic s1 s2 := by
  unfold eqVal CEq lower lowerChar
  cases ic <;> simp

theorem ceq_length {ic : Bool} {x y : Str} (h : CEq ic x y) : x.length = y.length := by
  unfold CEq at h
  cases ic
  · simp at h; rw [h]
  · simp at h
    have := congrArg List.length h
    simpa using this

theorem ceq_nil {ic : Bool} {x : Str} (h : CEq ic [] x) : x = [] := by
  have := ceq_length h
  exact List.eq_nil_of_length_eq_zero this.symm

/-! ### matchInclude -/

theorem cutWs_none {s : Str} (h : (cutWs s).2 = none) : (cutWs s).1 = s ∧ splitWs s = [s] := by
  induction s with
  | nil => simp [cutWs, splitWs]
  | cons c s ih =>
    simp only [cutWs] at h ⊢
    by_cases hc : isAsciiWs c = true
    · simp [hc] at h
    · simp only [hc] at h ⊢
      simp only [Bool.false_eq_true, ↓reduceIte] at h ⊢
      have := ih h
      simp only [splitWs, isDocWs_eq, hc, Bool.false_eq_true, ↓reduceIte, this.2, this.1, and_self]

theorem cutWs_some {s r : Str} (h : (cutWs s).2 = some r) :
    splitWs s = (cutWs s).1 :: splitWs r ∧ r.length < s.length := by
  induction s with
  | nil => simp [cutWs] at h
  | cons c s ih =>
    simp only [cutWs] at h ⊢
    by_cases hc : isAsciiWs c = true
    · simp only [hc, ↓reduceIte, Option.some.injEq] at h ⊢
      subst h
      simp [splitWs, isDocWs_eq, hc]
    · simp only [hc, Bool.false_eq_true, ↓reduceIte] at h ⊢
      have := ih h
      simp only [splitWs, isDocWs_eq, hc, Bool.false_eq_true, ↓reduceIte, this.1, List.length_cons]
      exact ⟨trivial, by omega⟩

theorem matchIncludeFuel_iff (val : Str) (ic : Bool) (hv : val ≠ []) :
    ∀ (fuel : Nat) (s : Str), s.length < fuel →
      (matchIncludeFuel val ic fuel s = true ↔ ∃ w ∈ splitWs s, CEq ic w val) := by
  intro fuel
  induction fuel with
  | zero => intro s h; omega
  | succ fuel ih =>
    intro s hlen
    unfold matchIncludeFuel
    by_cases hs : s = []
    · subst hs
      simp only [List.isEmpty_nil, ↓reduceIte, Bool.false_eq_true, splitWs, List.mem_singleton, exists_eq_left, false_iff]
      intro h; exact hv (ceq_nil h)
    · have : s.isEmpty = false := by cases s <;> simp_all
      simp only [this, Bool.false_eq_true, ↓reduceIte]
      cases hcut : (cutWs s).2 with
      | none =>
        have h1 := cutWs_none hcut
        have : cutWs s = (s, none) := Prod.ext h1.1 hcut
        rw [this]
        simp only [h1.2, List.mem_singleton, exists_eq_left, eqVal_iff]
      | some r =>
        have h1 := cutWs_some hcut
        have : cutWs s = ((cutWs s).1, some r) := Prod.ext rfl hcut
        rw [this]
        simp only [h1.1, List.mem_cons, exists_eq_or_imp]
        have ihr := ih r (by omega)
        by_cases hw : eqVal (cutWs s).1 val ic = true
        · simp only [hw, ↓reduceIte, true_iff]; exact Or.inl ((eqVal_iff _ _ _).1 hw)
        · simp only [hw, Bool.false_eq_true, ↓reduceIte, ihr]
          have : ¬ CEq ic (cutWs s).1 val := fun h => hw ((eqVal_iff _ _ _).2 h)
          simp [this]

theorem matchInclude_iff (val s : Str) (ic : Bool) :
    matchInclude val s ic = true ↔ val ≠ [] ∧ ∃ w ∈ splitWs s, CEq ic w val := by
  unfold matchInclude
  by_cases hv : val = []
  · subst hv; simp
  · have : val.isEmpty = false := by cases val <;> simp_all
    simp only [this, Bool.false_eq_true, ↓reduceIte, ne_eq, hv, not_false_eq_true, true_and]
    exact matchIncludeFuel_iff val ic hv _ s (by omega)

/-! ### prefix / suffix / substring / dash -/

theorem notSpace (c : Char) (h1 : 33 ≤ c.toNat) (h2 : c.toNat ≤ 126) : isGoSpace c = false := by
  unfold isGoSpace
  generalize c.toNat = n at *
  rw [Bool.eq_false_iff]
  simp only [ne_eq, Bool.or_eq_true, beq_iff_eq, Bool.and_eq_true, decide_eq_true_eq]
  omega

theorem goSpace_toLower (c : Char) : isGoSpace c.toLower = isGoSpace c := by
  unfold Char.toLower
  split
  · rename_i h
    have h1 : 65 ≤ c.val.toNat := by have := h.1; simpa [UInt32.le_iff_toNat_le] using this
    have h2 : c.val.toNat ≤ 90 := by have := h.2; simpa [UInt32.le_iff_toNat_le] using this
    have h3 : (c.val + ('a'.val - 'A'.val)).toNat = c.val.toNat + 32 := by
      rw [UInt32.toNat_add]
      have : ('a'.val - 'A'.val).toNat = 32 := by decide
      rw [this]; omega
    rw [notSpace c (by show 33 ≤ c.val.toNat; omega) (by show c.val.toNat ≤ 126; omega)]
    apply notSpace
    · show 33 ≤ (c.val + ('a'.val - 'A'.val)).toNat; omega
    · show (c.val + ('a'.val - 'A'.val)).toNat ≤ 126; omega
  · rfl

/-- the case folding applied to both sides when the `i` flag is set -/
def fold (ic : Bool) (s : Str) : Str := if ic then s.map Char.toLower else s

theorem ceq_iff_fold (ic : Bool) (x y : Str) : CEq ic x y ↔ fold ic x = fold ic y := by
  unfold CEq fold; cases ic <;> simp

theorem fold_append (ic : Bool) (x y : Str) : fold ic (x ++ y) = fold ic x ++ fold ic y := by
  unfold fold; cases ic <;> simp

theorem fold_split {ic : Bool} {s x y : Str} (h : fold ic s = x ++ y) :
    ∃ p r, s = p ++ r ∧ fold ic p = x ∧ fold ic r = y := by
  unfold fold at *
  cases ic
  · exact ⟨x, y, by simpa using h, by simp, by simp⟩
  · simp only [↓reduceIte] at h ⊢
    exact List.map_eq_append_iff.1 h

theorem isBlank_fold (ic : Bool) (s : Str) : isBlank (fold ic s) = isBlank s := by
  unfold fold isBlank
  cases ic
  · simp
  · simp only [↓reduceIte, List.all_map]
    congr 1
    funext c
    exact goSpace_toLower c

theorem isBlank_append (x y : Str) : isBlank (x ++ y) = (isBlank x && isBlank y) := by
  unfold isBlank; simp

theorem lower_eq_fold (s : Str) : lower s = fold true s := by
  unfold lower fold lowerChar; simp

theorem containsSub_iff (s v : Str) : containsSub s v = true ↔ v <:+: s := by
  induction s with
  | nil => simp [containsSub]
  | cons c s ih =>
    simp only [containsSub, Bool.or_eq_true, List.isPrefixOf_iff_prefix, ih, List.infix_cons_iff]

theorem valMatch_iff (val : Str) (op : AttrOp) (ic : Bool) (s : Str) (hne : op ≠ .ne)
    (hv : valOk op val = true) : valMatch val op ic s = true ↔ ValHolds op ic val s := by
  cases op with
  | has => simp [valMatch, ValHolds]
  | eq => simp [valMatch, ValHolds, eqVal_iff]
  | ne => exact absurd rfl hne
  | incl =>
    simp only [valMatch, ValHolds, matchInclude_iff val s ic]
  | dash =>
    simp only [valMatch, ValHolds]
    by_cases h1 : eqVal s val ic = true
    · simp only [h1, ↓reduceIte, true_iff]; exact Or.inl ((eqVal_iff _ _ _).1 h1)
    · have h1' : ¬ CEq ic s val := fun h => h1 ((eqVal_iff _ _ _).2 h)
      simp only [h1, Bool.false_eq_true, ↓reduceIte, h1', false_or]
      by_cases h2 : s.length ≤ val.length
      · simp only [h2, ↓reduceIte, Bool.false_eq_true, false_iff]
        rintro ⟨p, r, rfl, hp⟩
        have := ceq_length hp
        simp at h2; omega
      · simp only [h2, ↓reduceIte, Bool.and_eq_true, beq_iff_eq, eqVal_iff]
        constructor
        · rintro ⟨h3, h4⟩
          have hlt : val.length < s.length := by omega
          refine ⟨s.take val.length, s.drop (val.length + 1), ?_, h4⟩
          rw [List.getElem?_eq_getElem hlt] at h3
          have h5 : s[val.length] = '-' := by simpa using h3
          rw [← h5, ← List.drop_eq_getElem_cons hlt, List.take_append_drop]
        · rintro ⟨p, r, rfl, hp⟩
          have hl := ceq_length hp
          rw [← hl]
          simp only [List.take_left', and_true, hp]
          simp
  | pre =>
    by_cases hne' : val = []
    · subst hne'; simp [valMatch, ValHolds]
    have hv' : isBlank val = false := by
      have : val.isEmpty = false := by cases val <;> simp_all
      simpa [valOk, this] using hv
    have key : valMatch val .pre ic s = (if isBlank s then false else (fold ic val).isPrefixOf (fold ic s)) := by
      have : val.isEmpty = false := by cases val <;> simp_all
      simp only [valMatch, lower_eq_fold, this, Bool.false_or]; cases ic <;> simp [fold]
    rw [key]
    simp only [ValHolds, hne', ne_eq, not_false_eq_true, true_and, ceq_iff_fold]
    constructor
    · intro h
      by_cases hb : isBlank s = true
      · simp [hb] at h
      · simp only [hb, Bool.false_eq_true, ↓reduceIte, List.isPrefixOf_iff_prefix] at h
        obtain ⟨t, ht⟩ := h
        obtain ⟨p, r, hs, hp, _⟩ := fold_split ht.symm
        exact ⟨p, r, hs, hp⟩
    · rintro ⟨p, r, rfl, hp⟩
      have hb : isBlank (p ++ r) = false := by
        rw [isBlank_append, ← isBlank_fold ic p, hp, isBlank_fold, hv']; rfl
      simp only [hb, Bool.false_eq_true, ↓reduceIte, List.isPrefixOf_iff_prefix, fold_append, hp]
      exact List.prefix_append _ _
  | suf =>
    by_cases hne' : val = []
    · subst hne'; simp [valMatch, ValHolds]
    have hv' : isBlank val = false := by
      have : val.isEmpty = false := by cases val <;> simp_all
      simpa [valOk, this] using hv
    have key : valMatch val .suf ic s = (if isBlank s then false else (fold ic val).isSuffixOf (fold ic s)) := by
      have : val.isEmpty = false := by cases val <;> simp_all
      simp only [valMatch, lower_eq_fold, this, Bool.false_or]; cases ic <;> simp [fold]
    rw [key]
    simp only [ValHolds, hne', ne_eq, not_false_eq_true, true_and, ceq_iff_fold]
    constructor
    · intro h
      by_cases hb : isBlank s = true
      · simp [hb] at h
      · simp only [hb, Bool.false_eq_true, ↓reduceIte, List.isSuffixOf_iff_suffix] at h
        obtain ⟨t, ht⟩ := h
        obtain ⟨p, r, hs, _, hr⟩ := fold_split ht.symm
        exact ⟨p, r, hs, hr⟩
    · rintro ⟨p, r, rfl, hp⟩
      have hb : isBlank (p ++ r) = false := by
        rw [isBlank_append, ← isBlank_fold ic r, hp, isBlank_fold, hv']; simp
      simp only [hb, Bool.false_eq_true, ↓reduceIte, List.isSuffixOf_iff_suffix, fold_append, hp]
      exact List.suffix_append _ _
  | sub =>
    by_cases hne' : val = []
    · subst hne'; simp [valMatch, ValHolds]
    have hv' : isBlank val = false := by
      have : val.isEmpty = false := by cases val <;> simp_all
      simpa [valOk, this] using hv
    have key : valMatch val .sub ic s = (if isBlank s then false else containsSub (fold ic s) (fold ic val)) := by
      have : val.isEmpty = false := by cases val <;> simp_all
      simp only [valMatch, lower_eq_fold, this, Bool.false_or]; cases ic <;> simp [fold]
    rw [key]
    simp only [ValHolds, hne', ne_eq, not_false_eq_true, true_and, ceq_iff_fold]
    constructor
    · intro h
      by_cases hb : isBlank s = true
      · simp [hb] at h
      · simp only [hb, Bool.false_eq_true, ↓reduceIte, containsSub_iff] at h
        obtain ⟨a, b, hab⟩ := h
        obtain ⟨pm, r, hs, hpm, _⟩ := fold_split hab.symm
        obtain ⟨p, m, hs2, _, hm⟩ := fold_split hpm
        exact ⟨p, m, r, by rw [hs, hs2], hm⟩
    · rintro ⟨p, m, r, rfl, hp⟩
      have hb : isBlank (p ++ m ++ r) = false := by
        rw [isBlank_append, isBlank_append, ← isBlank_fold ic m, hp, isBlank_fold, hv']; simp
      simp only [hb, Bool.false_eq_true, ↓reduceIte, containsSub_iff, fold_append, hp]
      exact ⟨fold ic p, fold ic r, rfl⟩

theorem attrsAny_iff (attrs : List Attr) (key : Str) (f : Str → Bool) :
    attrs.any (fun a => a.1 == key && f a.2) = true ↔ ∃ s, (key, s) ∈ attrs ∧ f s = true := by
  simp only [List.any_eq_true, Bool.and_eq_true, beq_iff_eq]
  constructor
  · rintro ⟨⟨k, v⟩, hm, hk, hf⟩
    simp only at hk hf
    subst hk
    exact ⟨v, hm, hf⟩
  · rintro ⟨s, hm, hf⟩
    exact ⟨(key, s), hm, rfl, hf⟩

theorem matchAttribute_iff (kind : Kind) (attrs : List Attr) (key : Str) (f : Str → Bool) :
    matchAttribute kind attrs key f = true ↔ kind = .elem ∧ ∃ s, (key, s) ∈ attrs ∧ f s = true := by
  unfold matchAttribute
  simp only [Bool.and_eq_true, beq_iff_eq, attrsAny_iff]

end WR.C05.Lemmas
