/-
  C05 — executable model of /repo/css/selector/parser.go.

  The Go parser walks the BYTES of the source text; the model walks its code points.  For valid
  UTF-8 the two agree: every byte of a non-ASCII character is `> 127`, hence a name character, and
  is copied through unchanged by every loop (the places where the code counts bytes — the
  look-ahead of the attribute operator and of `*|*` — are modelled with `Char.utf8Size`).

  Every function returns the value and the REMAINING input (`p.s[p.i:]`).  Loops whose steps
  consume a variable amount of input run on explicit fuel; `WR.Props.C05.parse_total` shows that
  the fuel given by `parseGroupText` is never exhausted.

  Constructs outside the modelled grammar (`#=`, `:contains*`, `:matches*`, `:lang`, `:link`,
  `:input`, `:enabled`, `:disabled`, `:checked`) stop the model with `Err.unsupported`.
-/
import WR.C05.Model
namespace WR.C05.Parse
open WR.C05

inductive Err where
  | malformed       -- the Go parser returns an error
  | unsupported  -- construct outside the modelled grammar
  | fuel         -- never happens (parse_total)
  deriving DecidableEq, Repr

/-- value, remaining input -/
abbrev Res (α : Type) := Except Err (α × Str)

def isDigit (c : Char) : Bool := '0' ≤ c && c ≤ '9'

/-- `hexDigit` -/
def isHex (c : Char) : Bool :=
  ('0' ≤ c && c ≤ '9') || ('a' ≤ c && c ≤ 'f') || ('A' ≤ c && c ≤ 'F')

def isLetter (c : Char) : Bool := ('a' ≤ c && c ≤ 'z') || ('A' ≤ c && c ≤ 'Z')

/-- `nameStart` -/
def nameStart (c : Char) : Bool := isLetter c || c == '_' || c.toNat > 127

/-- `nameChar` -/
def nameChar (c : Char) : Bool :=
  isLetter c || c == '_' || c.toNat > 127 || c == '-' || isDigit c

def hexDigitVal (c : Char) : Nat :=
  if '0' ≤ c && c ≤ '9' then c.toNat - 48
  else if 'a' ≤ c && c ≤ 'f' then c.toNat - 87
  else c.toNat - 55

/-- `strconv.ParseUint(_, 16, 64)` on hex digits -/
def hexVal (hs : Str) : Nat := hs.foldl (fun v c => v * 16 + hexDigitVal c) 0

/-- at most `n` leading hex digits -/
def spanHex : Nat → Str → Str × Str
  | 0, s => ([], s)
  | _ + 1, [] => ([], [])
  | n + 1, c :: s => if isHex c then let r := spanHex n s; (c :: r.1, r.2) else ([], c :: s)

/-- `string(rune(v))`: invalid code points become U+FFFD -/
def runeOf (v : Nat) : Char := if v.isValidChar then Char.ofNat v else Char.ofNat 0xFFFD

/-- `parseEscape`; the input starts at the backslash -/
def parseEscape : Str → Res Char
  | '\\' :: c :: rest =>
    if c == '\r' || c == '\n' || c == '\x0c' then .error .malformed
    else if isHex c then
      let r := spanHex 6 (c :: rest)
      let rest' := match r.2 with
        | '\r' :: '\n' :: t => t
        | '\r' :: t => t
        | ' ' :: t => t
        | '\t' :: t => t
        | '\n' :: t => t
        | '\x0c' :: t => t
        | t => t
      .ok (runeOf (hexVal r.1), rest')
    else .ok (c, rest)
  | _ => .error .malformed

/-- loop of `parseName`, one character or escape per step; `acc` is `result` (reversed) -/
def parseNameF : Nat → Str → Str → Res Str
  | 0, _, _ => .error .fuel
  | fuel + 1, s, acc =>
    match s with
    | c :: rest =>
      if nameChar c then parseNameF fuel rest (c :: acc)
      else if c == '\\' then
        match parseEscape s with
        | .ok (v, r) => parseNameF fuel r (v :: acc)
        | .error e => .error e
      else if acc.isEmpty then .error .malformed else .ok (acc.reverse, s)
    | [] => if acc.isEmpty then .error .malformed else .ok (acc.reverse, [])

/-- `parseName` -/
def parseName (s : Str) : Res Str := parseNameF (s.length + 1) s []

/-- `parseIdentifier` -/
def parseIdentifier (s : Str) : Res Str :=
  let dashes := s.takeWhile (· == '-')
  let r := s.dropWhile (· == '-')
  match r with
  | [] => .error .malformed
  | c :: _ =>
    if !(nameStart c || c == '\\') then .error .malformed
    else match parseName r with
      | .ok (n, r') => .ok (dashes ++ n, r')
      | .error e => .error e

/-- loop of `parseString` after the opening quote -/
def parseStringF (q : Char) : Nat → Str → Str → Res Str
  | 0, _, _ => .error .fuel
  | fuel + 1, s, acc =>
    match s with
    | [] => .error .malformed                                   -- EOF in string
    | '\\' :: '\r' :: '\n' :: t => parseStringF q fuel t acc  -- escaped line endings are skipped
    | '\\' :: '\r' :: t => parseStringF q fuel t acc
    | '\\' :: '\n' :: t => parseStringF q fuel t acc
    | '\\' :: '\x0c' :: t => parseStringF q fuel t acc
    | '\\' :: t =>
      match parseEscape ('\\' :: t) with
      | .ok (v, r) => parseStringF q fuel r (v :: acc)
      | .error e => .error e
    | c :: t =>
      if c == q then .ok (acc.reverse, t)
      else if c == '\r' || c == '\n' || c == '\x0c' then .error .malformed
      else parseStringF q fuel t (c :: acc)

/-- `parseString`; the input starts at the quote -/
def parseString : Str → Res Str
  | q :: c :: rest => parseStringF q (rest.length + 2) (c :: rest) []
  | _ => .error .malformed

/-- is there a `*/` ahead -/
def hasCommentEnd : Str → Bool
  | '*' :: '/' :: _ => true
  | _ :: s => hasCommentEnd s
  | [] => false

/-- the input after the first `*/` -/
def afterCommentEnd : Str → Str
  | '*' :: '/' :: s => s
  | _ :: s => afterCommentEnd s
  | [] => []

/-- `skipWhitespace`: the input after white space and comments; fuel counts comments -/
def skipWsF : Nat → Str → Str
  | 0, s => s
  | fuel + 1, s =>
    match s with
    | '/' :: '*' :: t => if hasCommentEnd t then skipWsF fuel (afterCommentEnd t) else s
    | c :: t => if isAsciiWs c then skipWsF fuel t else s
    | [] => []

def skipWs (s : Str) : Str := skipWsF (s.length + 1) s

/-- `parseInteger`; `strconv.Atoi` fails above MaxInt64 -/
def parseInteger (s : Str) : Res Nat :=
  let ds := s.takeWhile isDigit
  if ds.isEmpty then .error .malformed
  else
    let v := ds.foldl (fun v c => v * 10 + (c.toNat - 48)) 0
    if v > 9223372036854775807 then .error .malformed else .ok (v, s.dropWhile isDigit)

/-- state `readN` of `parseNth` -/
def nthReadN (a : Int) (s : Str) : Res (Int × Int) :=
  match skipWs s with
  | [] => .error .malformed
  | '+' :: t =>
    match parseInteger (skipWs t) with
    | .ok (b, r) => .ok ((a, (b : Int)), r)
    | .error e => .error e
  | '-' :: t =>
    match parseInteger (skipWs t) with
    | .ok (b, r) => .ok ((a, -(b : Int)), r)
    | .error e => .error e
  | r => .ok ((a, 0), r)

/-- states `positiveA` / `negativeA` of `parseNth` -/
def nthSignedA (neg : Bool) (s : Str) : Res (Int × Int) :=
  match s with
  | [] => .error .malformed
  | c :: t =>
    if isDigit c then
      match parseInteger s with
      | .error e => .error e
      | .ok (n, r) =>
        let a : Int := if neg then -(n : Int) else n
        match r with               -- state readA
        | [] => .error .malformed
        | 'n' :: r' => nthReadN a r'
        | 'N' :: r' => nthReadN a r'
        | _ => .ok ((0, a), r)
    else if c == 'n' || c == 'N' then nthReadN (if neg then -1 else 1) t
    else .error .malformed

def oddStr : Str := ['o', 'd', 'd']
def evenStr : Str := ['e', 'v', 'e', 'n']

/-- `parseNth` -/
def parseNth (s : Str) : Res (Int × Int) :=
  match s with
  | [] => .error .malformed
  | c :: t =>
    if c == '-' then nthSignedA true t
    else if c == '+' then nthSignedA false t
    else if isDigit c then nthSignedA false s
    else if c == 'n' || c == 'N' then nthReadN 1 t
    else if c == 'o' || c == 'O' || c == 'e' || c == 'E' then
      match parseName s with
      | .error e => .error e
      | .ok (id, r) =>
        let id := lower id
        if id == oddStr then .ok ((2, 1), r)
        else if id == evenStr then .ok ((2, 0), r)
        else .error .malformed
    else .error .malformed

def strOf (s : String) : Str := s.toList

/-- the pseudo-element names the parser accepts -/
def pseudoElements : List Str :=
  ["after", "backdrop", "before", "cue", "first-letter", "first-line", "grammar-error", "marker",
   "placeholder", "selection", "spelling-error", "footnote-call", "footnote-marker"].map strOf

def neverNames : List Str := ["visited", "hover", "active", "focus", "target"].map strOf

def unsupportedNames : List Str :=
  ["contains", "containsown", "matches", "matchesown", "input", "link", "lang", "enabled",
   "disabled", "checked"].map strOf

def relOf (name : Str) : Option RelKind :=
  if name == strOf "is" then some .is
  else if name == strOf "not" then some .not
  else if name == strOf "has" then some .has
  else if name == strOf "haschild" then some .haschild
  else none

/-- `(last, ofType)` of the `nth-*` names -/
def nthOf (name : Str) : Option (Bool × Bool) :=
  if name == strOf "nth-child" then some (false, false)
  else if name == strOf "nth-last-child" then some (true, false)
  else if name == strOf "nth-of-type" then some (false, true)
  else if name == strOf "nth-last-of-type" then some (true, true)
  else none

/-- the pseudo-classes without argument -/
def plainOf (name : Str) : Option Sel :=
  if name == strOf "first-child" then some (.nth 0 1 false false)
  else if name == strOf "last-child" then some (.nth 0 1 true false)
  else if name == strOf "first-of-type" then some (.nth 0 1 false true)
  else if name == strOf "last-of-type" then some (.nth 0 1 true true)
  else if name == strOf "only-child" then some (.only false)
  else if name == strOf "only-of-type" then some (.only true)
  else if name == strOf "empty" then some .empty
  else if name == strOf "root" then some .root
  else none

def opOf (op : Str) : Option AttrOp :=
  if op == strOf "=" then some .eq
  else if op == strOf "!=" then some .ne
  else if op == strOf "~=" then some .incl
  else if op == strOf "|=" then some .dash
  else if op == strOf "^=" then some .pre
  else if op == strOf "$=" then some .suf
  else if op == strOf "*=" then some .sub
  else none

/-- number of bytes of the remaining input -/
def byteLen (s : Str) : Nat := s.foldl (fun n c => n + c.utf8Size) 0

/-- `op := p.s[p.i:p.i+2]` (two BYTES): `=` alone, or a one-byte character followed by `=` -/
def attrOpOf : Str → Option (Str × Str)
  | c0 :: t0 =>
    if c0 == '=' then some (['='], t0)
    else if c0.toNat > 127 then none
    else match t0 with
      | '=' :: t1 => some ([c0, '='], t1)
      | _ => none
  | [] => none

/-- the value of an attribute selector: a string or an identifier -/
def parseAttrValue : Str → Res Str
  | c :: s => if c == '\'' || c == '"' then parseString (c :: s) else parseIdentifier (c :: s)
  | [] => .error .malformed

/-- the end of `parseAttributeSelector`: the `i` flag, `]`, and the check of the operator -/
def parseAttrEnd (key val op : Str) (s : Str) : Res Sel :=
  match skipWs s with
  | [] => .error .malformed
  | f :: s5 =>
    let ic := f == 'i' || f == 'I'
    match skipWs (if ic then s5 else f :: s5) with
    | ']' :: t =>
      match opOf op with
      | some o => .ok (.attr key val o ic, t)
      | none => .error .malformed
    | _ => .error .malformed

/-- `parseAttributeSelector` after the attribute name and the white space -/
def parseAttrTail (key : Str) : Str → Res Sel
  | [] => .error .malformed
  | ']' :: t => .ok (.attr key [] .has false, t)
  | c0 :: t0 =>
    if byteLen (c0 :: t0) ≤ 2 then .error .malformed
    else
      match attrOpOf (c0 :: t0) with
      | none => .error .malformed
      | some (op, s2) =>
        match skipWs s2 with
        | [] => .error .malformed
        | c :: s3 =>
          if op == strOf "#=" then .error .unsupported
          else
            match parseAttrValue (c :: s3) with
            | .error e => .error e
            | .ok (val, s4) => parseAttrEnd key val op s4

/-- `parseAttributeSelector`; the input starts at `[` -/
def parseAttr : Str → Res Sel
  | '[' :: s0 =>
    match parseIdentifier (skipWs s0) with
    | .error e => .error e
    | .ok (key, s1) => parseAttrTail (lower key) (skipWs s1)
  | _ => .error .malformed

/-- `consumeParenthesis` -/
def consumeParen : Str → Option Str
  | '(' :: t => some (skipWs t)
  | _ => none

/-- `consumeClosingParenthesis` -/
def consumeClosing (s : Str) : Option Str :=
  match skipWs s with
  | ')' :: t => some t
  | _ => none

/-- result of `parsePseudoclassSelector`: a selector or a pseudo-element name -/
inductive Pseudo where
  | sel (s : Sel)
  | elem (name : Str)

mutual
  /-- `parseSelectorGroup` -/
  def parseGroupF : Nat → Str → Res (List Sel)
    | 0, _ => .error .fuel
    | fuel + 1, s =>
      match parseSelectorF fuel s with
      | .error e => .error e
      | .ok (first, r) => groupLoopF fuel r [first]
  /-- the loop of `parseSelectorGroup`; `acc` reversed -/
  def groupLoopF : Nat → Str → List Sel → Res (List Sel)
    | 0, _, _ => .error .fuel
    | fuel + 1, s, acc =>
      match s with
      | ',' :: t =>
        match parseSelectorF fuel t with
        | .error e => .error e
        | .ok (c, r) => groupLoopF fuel r (c :: acc)
      | _ => .ok (acc.reverse, s)
  /-- `parseSelector` -/
  def parseSelectorF : Nat → Str → Res Sel
    | 0, _ => .error .fuel
    | fuel + 1, s =>
      match parseSeqF fuel (skipWs s) with
      | .error e => .error e
      | .ok (first, r) => selectorLoopF fuel r first
  /-- the loop of `parseSelector` -/
  def selectorLoopF : Nat → Str → Sel → Res Sel
    | 0, _, _ => .error .fuel
    | fuel + 1, s, result =>
      let r := skipWs s
      let skipped := r.length != s.length
      match r with
      | [] => .ok (result, [])
      | c :: t =>
        if c == '+' || c == '>' || c == '~' then
          let comb : Comb := if c == '+' then .adj else if c == '>' then .child else .sib
          match parseSeqF fuel (skipWs t) with
          | .error e => .error e
          | .ok (d, r') => selectorLoopF fuel r' (.combined result comb d)
        else if c == ',' || c == ')' then .ok (result, r)
        else if !skipped then .ok (result, r)
        else
          match parseSeqF fuel r with
          | .error e => .error e
          | .ok (d, r') => selectorLoopF fuel r' (.combined result .desc d)
  /-- `parseSimpleSelectorSequence` -/
  def parseSeqF : Nat → Str → Res Sel
    | 0, _ => .error .fuel
    | fuel + 1, s =>
      match s with
      | [] => .error .malformed
      | c :: t =>
        if c == '*' then
          match t with
          | '|' :: '*' :: x :: t' => seqLoopF fuel (x :: t') [] []
          | _ => seqLoopF fuel t [] []
        else if c == '#' || c == '.' || c == '[' || c == ':' then seqLoopF fuel s [] []
        else
          match parseIdentifier s with
          | .error e => .error e
          | .ok (tag, r) => seqLoopF fuel r [.tag (lower tag)] []
  /-- the loop of `parseSimpleSelectorSequence`; `acc` reversed, `pe` the pseudo-element so far -/
  def seqLoopF : Nat → Str → List Sel → Str → Res Sel
    | 0, _, _, _ => .error .fuel
    | fuel + 1, s, acc, pe =>
      let finish : Res Sel :=
        match acc, pe with
        | [one], [] => .ok (one, s)
        | _, _ => .ok (.compound pe acc.reverse, s)
      let addSel (ns : Sel) (r : Str) : Res Sel :=
        if !pe.isEmpty then .error .malformed else seqLoopF fuel r (ns :: acc) pe
      match s with
      | '#' :: t =>
        match parseName t with
        | .error e => .error e
        | .ok (n, r) => addSel (.id n) r
      | '.' :: t =>
        match parseIdentifier t with
        | .error e => .error e
        | .ok (n, r) => addSel (.cls n) r
      | '[' :: _ =>
        match parseAttr s with
        | .error e => .error e
        | .ok (a, r) => addSel a r
      | ':' :: _ =>
        match parsePseudoF fuel s with
        | .error e => .error e
        | .ok (.sel ns, r) => addSel ns r
        | .ok (.elem name, r) =>
          if !pe.isEmpty then .error .malformed else seqLoopF fuel r acc name
      | _ => finish
  /-- `parsePseudoclassSelector`; the input starts at `:` -/
  def parsePseudoF : Nat → Str → Res Pseudo
    | 0, _ => .error .fuel
    | fuel + 1, s =>
      match s with
      | ':' :: c :: t =>
        let must := c == ':'
        match parseIdentifier (if must then t else c :: t) with
        | .error e => .error e
        | .ok (name, r) =>
          let name := lower name
          if must && !pseudoElements.contains name then .error .malformed
          else
            match relOf name with
            | some k =>
              match consumeParen r with
              | none => .error .malformed
              | some r1 =>
                match parseGroupF fuel r1 with
                | .error e => .error e
                | .ok (g, r2) =>
                  match consumeClosing r2 with
                  | none => .error .malformed
                  | some r3 => .ok (.sel (.rel k g), r3)
            | none =>
              if unsupportedNames.contains name then .error .unsupported
              else
                match nthOf name with
                | some (last, ofType) =>
                  match consumeParen r with
                  | none => .error .malformed
                  | some r1 =>
                    match parseNth r1 with
                    | .error e => .error e
                    | .ok ((a, b), r2) =>
                      match consumeClosing r2 with
                      | none => .error .malformed
                      | some r3 => .ok (.sel (.nth a b last ofType), r3)
                | none =>
                  match plainOf name with
                  | some sel => .ok (.sel sel, r)
                  | none =>
                    if neverNames.contains name then .ok (.sel (.never (':' :: name)), r)
                    else if pseudoElements.contains name then .ok (.elem name, r)
                    else .error .malformed
      | _ => .error .malformed
end

/-- the fuel `ParseGroup` gets: more than the parser can use on this input -/
def fuelFor (s : Str) : Nat := 4 * s.length + 8

/-- `selector.ParseGroup` -/
def parseGroupText (s : Str) : Except Err (List Sel) :=
  match parseGroupF (fuelFor s) s with
  | .error e => .error e
  | .ok (g, []) => .ok g
  | .ok (_, _ :: _) => .error .malformed  -- bytes left over

end WR.C05.Parse
