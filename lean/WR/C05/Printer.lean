/-
  C05 — executable model of /repo/css/selector/serialize.go (`String()` of every selector node).
-/
import WR.C05.Parser
namespace WR.C05.Print
open WR.C05 WR.C05.Parse

def hexDigitChar (d : Nat) : Char := if d < 10 then Char.ofNat (48 + d) else Char.ofNat (87 + d)

/-- `%x`: lower-case hexadecimal digits of `n`; the fuel is never exhausted (`n + 1` digits at most) -/
def hexDigitsF : Nat → Nat → Str → Str
  | 0, _, acc => acc
  | fuel + 1, n, acc =>
    let acc' := hexDigitChar (n % 16) :: acc
    if n / 16 = 0 then acc' else hexDigitsF fuel (n / 16) acc'

def hexDigits (n : Nat) : Str := hexDigitsF (n + 1) n []

/-- `%d` of a natural number -/
def natDigitsF : Nat → Nat → Str → Str
  | 0, _, acc => acc
  | fuel + 1, n, acc =>
    let acc' := Char.ofNat (48 + n % 10) :: acc
    if n / 10 = 0 then acc' else natDigitsF fuel (n / 10) acc'

def natDigits (n : Nat) : Str := natDigitsF (n + 1) n []

/-- `%d` / `strconv.Itoa` -/
def intDigits (i : Int) : Str :=
  if i < 0 then '-' :: natDigits i.natAbs else natDigits i.natAbs

/-- the characters of `specialCharReplacer` -/
def isSpecial (c : Char) : Bool :=
  (",!\"#$%&'()*+ -./:;<=>?@[\\]^`{|}~".toList).contains c

/-- one rune of `escape`; `first`: `i == 0`, `afterDash`: `i == 1 && s[0] == '-'`, `alone`: `len(s) == 1` -/
def escapeChar (first afterDash alone : Bool) (c : Char) : Str :=
  if c.toNat = 0 then [Char.ofNat 0xFFFD]
  else if c.toNat < 0x20 || c.toNat = 0x7F || (isDigit c && (first || afterDash)) then
    '\\' :: hexDigits c.toNat ++ [' ']
  else if c == '-' && alone then ['\\', '-']
  else if c == '-' && first then ['-']
  else if isSpecial c then ['\\', c] else [c]

/-- the characters after the first one -/
def escapeTail (afterDash : Bool) : Str → Str
  | [] => []
  | c :: s => escapeChar false afterDash false c ++ escapeTail false s

/-- `escape` (CSSOM "serialize an identifier") -/
def escape : Str → Str
  | [] => []
  | c :: s => escapeChar true false s.isEmpty c ++ escapeTail (c == '-') s

def escapeStringChar (c : Char) : Str :=
  if c.toNat = 0 then [Char.ofNat 0xFFFD]
  else if c.toNat < 0x20 || c.toNat = 0x7F then '\\' :: hexDigits c.toNat ++ [' ']
  else if c == '"' || c == '\\' then ['\\', c]
  else [c]

/-- `escapeString` -/
def escapeString (s : Str) : Str := s.flatMap escapeStringChar

/-- the atoms of golang.org/x/net/html/atom that are not of the form `[a-z][a-z0-9]*`: a tag found
    in the atom table is printed raw (`atom.String()`), every other one through `escape`; for all
    other atoms the two coincide -/
def rawAtoms : List Str := ["accept-charset", "annotation-xml", "http-equiv"].map strOf

def printTag (name : Str) : Str := if rawAtoms.contains name then name else escape name

def opStr : AttrOp → Str
  | .has => [] | .eq => ['='] | .ne => ['!', '='] | .incl => ['~', '='] | .dash => ['|', '=']
  | .pre => ['^', '='] | .suf => ['$', '='] | .sub => ['*', '=']

def relStr : RelKind → Str
  | .is => strOf "is" | .not => strOf "not" | .has => strOf "has" | .haschild => strOf "haschild"

def combStr : Comb → Str
  | .desc => [' '] | .child => ['>'] | .adj => ['+'] | .sib => ['~']

/-- the value part of `attrSelector.String`: nothing for `[key]`, else the quoted escaped value -/
def valPart (op : AttrOp) (val : Str) : Str :=
  match op with
  | .has => val
  | _ => '"' :: escapeString val ++ ['"']

def nthName (last ofType : Bool) : Str :=
  match last, ofType with
  | true, true => strOf "nth-last-of-type"
  | true, false => strOf "nth-last-child"
  | false, true => strOf "nth-of-type"
  | false, false => strOf "nth-child"

/-- `nthPseudoClassSelector.String` -/
def printNth (a b : Int) (last ofType : Bool) : Str :=
  if a == 0 && b == 1 then
    strOf (if last then ":last-" else ":first-") ++ strOf (if ofType then "of-type" else "child")
  else
    ':' :: nthName last ofType ++ ['('] ++ intDigits a ++ ['n'] ++
      (if b < 0 then intDigits b else '+' :: intDigits b) ++ [')']

mutual
  /-- `String()` -/
  def printSel : Sel → Str
    | .tag name => printTag name
    | .id name => '#' :: escape name
    | .cls name => '.' :: escape name
    | .attr key val op ic =>
      '[' :: escape key ++ opStr op ++ valPart op val ++ (if ic then [' ', 'i'] else []) ++ [']']
    | .nth a b last ofType => printNth a b last ofType
    | .only ofType => strOf (if ofType then ":only-of-type" else ":only-child")
    | .empty => strOf ":empty"
    | .root => strOf ":root"
    | .never v => v
    | .rel k args => ':' :: relStr k ++ ['('] ++ printGroup args ++ [')']
    | .compound pe sels =>
      if sels.isEmpty && pe.isEmpty then ['*']
      else printConcat sels ++ (if pe.isEmpty then [] else ':' :: ':' :: pe)
    | .combined a c d => printSel a ++ [' '] ++ combStr c ++ [' '] ++ printSel d
  /-- `strings.Join(chunks, "")` -/
  def printConcat : List Sel → Str
    | [] => []
    | s :: ss => printSel s ++ printConcat ss
  /-- `SelectorGroup.String`: `strings.Join(ck, ", ")` -/
  def printGroup : List Sel → Str
    | [] => []
    | [s] => printSel s
    | s :: ss => printSel s ++ [',', ' '] ++ printGroup ss
end

end WR.C05.Print
