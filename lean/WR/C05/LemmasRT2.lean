import WR.C05.LemmasRT1
namespace WR.C05.Lemmas
open WR.C05 WR.C05.Parse WR.C05.Print

/-! ### strings -/

theorem parseStringF_bs (q : Char) (fuel : Nat) (d : Char) (t acc : Str)
    (hd : (d == '\r' || d == '\n' || d == '\x0c') = false) :
    parseStringF q (fuel + 1) ('\\' :: d :: t) acc =
      match parseEscape ('\\' :: d :: t) with
      | .ok (v, r) => parseStringF q fuel r (v :: acc)
      | .error e => .error e := by
  simp only [Bool.or_eq_false_iff, beq_eq_false_iff_ne, ne_eq] at hd
  rw [parseStringF.eq_def]
  simp only
  split
  · rename_i h; simp at h
  · rename_i h; simp only [List.cons.injEq, true_and] at h; exact absurd h.1 hd.1.1
  · rename_i h; simp only [List.cons.injEq, true_and] at h; exact absurd h.1 hd.1.1
  · rename_i h; simp only [List.cons.injEq, true_and] at h; exact absurd h.1 hd.1.2
  · rename_i h; simp only [List.cons.injEq, true_and] at h; exact absurd h.1 hd.2
  · rename_i t' _ _ _ _ h
    simp only [List.cons.injEq, true_and] at h
    subst h
    rfl
  · rename_i c t' _ _ _ _ h5 h
    simp only [List.cons.injEq] at h
    exact absurd h.1.symm h5

theorem parseStringF_raw (q : Char) (fuel : Nat) (c : Char) (t acc : Str) (hc : c ≠ '\\') :
    parseStringF q (fuel + 1) (c :: t) acc =
      if c == q then .ok (acc.reverse, t)
      else if c == '\r' || c == '\n' || c == '\x0c' then .error .malformed
      else parseStringF q fuel t (c :: acc) := by
  rw [parseStringF.eq_def]
  simp only
  split
  · rename_i h; simp at h
  all_goals first
    | (rename_i h; simp only [List.cons.injEq] at h; exact absurd h.1 hc)
    | skip
  · rename_i c' t' _ _ _ _ _ h
    simp only [List.cons.injEq] at h
    rw [h.1, h.2]

theorem escapeStringChar_pos (c : Char) : 0 < (escapeStringChar c).length := by
  unfold escapeStringChar
  repeat' split
  all_goals simp

/-- one escaped character of a string is one step of the loop of `parseString` -/
theorem parseStringF_step (c : Char) (h0 : c.toNat ≠ 0) (fuel : Nat) (s acc : Str) :
    parseStringF '"' (fuel + 1) (escapeStringChar c ++ s) acc = parseStringF '"' fuel s (c :: acc) := by
  unfold escapeStringChar
  simp only [h0, ↓reduceIte]
  split
  · rename_i hc
    have hlt : c.toNat < 128 := by
      simp only [Bool.or_eq_true, decide_eq_true_eq] at hc; omega
    have hf := hexDigits_facts c.toNat hlt h0
    simp only [Bool.and_eq_true, decide_eq_true_eq, Bool.not_eq_true', List.isEmpty_eq_false_iff] at hf
    obtain ⟨⟨⟨⟨_, _⟩, hne⟩, _⟩, hhead⟩ := hf
    have hesc := parseEscape_hex c hlt h0 s
    generalize hexDigits c.toNat = ds at *
    cases ds with
    | nil => exact absurd rfl hne
    | cons d ds' =>
      simp only [List.head?_cons, Option.all_some, Bool.not_eq_true'] at hhead
      simp only [List.cons_append, List.append_assoc, List.nil_append] at hesc ⊢
      rw [parseStringF_bs '"' fuel d _ acc hhead, hesc]
  · rename_i hc
    simp only [Bool.or_eq_true, decide_eq_true_eq, not_or] at hc
    split
    · rename_i hq
      simp only [Bool.or_eq_true, beq_iff_eq] at hq
      have hh : isHex c = false := by rcases hq with h | h <;> rw [h] <;> decide
      have hn : (c == '\r' || c == '\n' || c == '\x0c') = false := by rcases hq with h | h <;> rw [h] <;> decide
      simp only [List.cons_append, List.nil_append]
      rw [parseStringF_bs '"' fuel c s acc hn, parseEscape_literal c hh hn s]
    · rename_i hq
      simp only [Bool.or_eq_true, beq_iff_eq, not_or] at hq
      simp only [List.cons_append, List.nil_append]
      rw [parseStringF_raw '"' fuel c s acc hq.2]
      have e1 : (c == '"') = false := by simp [hq.1]
      have e2 : (c == '\r' || c == '\n' || c == '\x0c') = false := by
        simp only [Bool.or_eq_false_iff, beq_eq_false_iff_ne, ne_eq]
        refine ⟨⟨?_, ?_⟩, ?_⟩ <;> intro h <;> subst h <;> exact hc.1 (by decide)
      simp only [e1, Bool.false_eq_true, ↓reduceIte, e2]

theorem parseStringF_escapeString : ∀ (v : Str), (∀ c ∈ v, c.toNat ≠ 0) →
    ∀ (fuel : Nat) (tail acc : Str), (escapeString v ++ '"' :: tail).length < fuel →
      parseStringF '"' fuel (escapeString v ++ '"' :: tail) acc = .ok (acc.reverse ++ v, tail) := by
  intro v
  induction v with
  | nil =>
    intro _ fuel tail acc hlen
    cases fuel with
    | zero => omega
    | succ fuel =>
      simp only [escapeString, List.flatMap_nil, List.nil_append]
      rw [parseStringF_raw '"' fuel '"' tail acc (by decide)]
      simp
  | cons c v ih =>
    intro hnz fuel tail acc hlen
    cases fuel with
    | zero => omega
    | succ fuel =>
      have hl := escapeStringChar_pos c
      simp only [escapeString, List.flatMap_cons, List.append_assoc] at hlen ⊢
      rw [parseStringF_step c (hnz c (by simp))]
      have := ih (fun x hx => hnz x (by simp [hx])) fuel tail (c :: acc)
        (by simp only [escapeString, List.length_append] at hlen ⊢; omega)
      simp only [escapeString] at this
      rw [this]
      simp

/-- `parseString` reads back an escaped string -/
theorem parseString_escapeString (v tail : Str) (hok : valuePrintable v = true) :
    parseString ('"' :: escapeString v ++ '"' :: tail) = .ok (v, tail) := by
  simp only [valuePrintable, List.all_eq_true, bne_iff_ne, ne_eq] at hok
  have key := parseStringF_escapeString v hok ((escapeString v ++ '"' :: tail).length + 1) tail [] (by omega)
  unfold parseString
  generalize hes : escapeString v ++ '"' :: tail = body at key
  cases body with
  | nil => simp at hes
  | cons c rest =>
    simp only [List.cons_append, hes]
    simp only [List.length_cons] at key
    simpa using key

end WR.C05.Lemmas
