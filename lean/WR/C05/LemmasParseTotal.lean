/-
  C05 — the mutually recursive parser functions never run out of fuel (fuel ≥ 2·|input| + constant)
  and always consume input.
-/
import WR.C05.LemmasParse
namespace WR.C05.Lemmas
open WR.C05 WR.C05.Parse

/-- the result is not the fuel error, and an ok result leaves at most `n` characters -/
def GoodLe {α : Type} (x : Res α) (n : Nat) : Prop :=
  x ≠ .error .fuel ∧ ∀ v r, x = .ok (v, r) → r.length ≤ n

/-- the result is not the fuel error, and an ok result leaves fewer than `n` characters -/
def GoodLt {α : Type} (x : Res α) (n : Nat) : Prop :=
  x ≠ .error .fuel ∧ ∀ v r, x = .ok (v, r) → r.length < n

theorem goodLt_err {α : Type} {e : Err} (h : e ≠ .fuel) (n : Nat) : GoodLt (.error e : Res α) n :=
  ⟨by simp [h], by intro v r h; simp at h⟩

theorem goodLe_err {α : Type} {e : Err} (h : e ≠ .fuel) (n : Nat) : GoodLe (.error e : Res α) n :=
  ⟨by simp [h], by intro v r h; simp at h⟩

theorem GoodLt.le {α : Type} {x : Res α} {n : Nat} (h : GoodLt x n) : GoodLe x n :=
  ⟨h.1, fun v r hx => Nat.le_of_lt (h.2 v r hx)⟩

theorem GoodLe.mono {α : Type} {x : Res α} {n m : Nat} (h : GoodLe x n) (hnm : n ≤ m) : GoodLe x m :=
  ⟨h.1, fun v r hx => Nat.le_trans (h.2 v r hx) hnm⟩

theorem GoodLt.mono {α : Type} {x : Res α} {n m : Nat} (h : GoodLt x n) (hnm : n ≤ m) : GoodLt x m :=
  ⟨h.1, fun v r hx => Nat.lt_of_lt_of_le (h.2 v r hx) hnm⟩

theorem GoodLe.lt {α : Type} {x : Res α} {n m : Nat} (h : GoodLe x n) (hnm : n < m) : GoodLt x m :=
  ⟨h.1, fun v r hx => Nat.lt_of_le_of_lt (h.2 v r hx) hnm⟩

/-- an error propagated from a callee that is itself good -/
theorem good_of_callee {α β : Type} {x : Res α} {e : Err} {n : Nat} (hx : GoodLt x n) (he : x = .error e)
    (m : Nat) : GoodLt (.error e : Res β) m := by
  apply goodLt_err
  intro h; subst h; exact hx.1 he

/-- the input starts a simple selector other than a type selector: the loop of
    `parseSimpleSelectorSequence` makes at least one step -/
def startsSimple : Str → Bool
  | c :: _ => c == '#' || c == '.' || c == '[' || c == ':'
  | [] => false

/-- the induction hypothesis: all seven functions are good at fuel `f` -/
structure AllGood (f : Nat) : Prop where
  G : ∀ s, 2 * s.length + 5 ≤ f → GoodLt (parseGroupF f s) s.length
  GL : ∀ s acc, 2 * s.length + 4 ≤ f → GoodLe (groupLoopF f s acc) s.length
  S : ∀ s, 2 * s.length + 4 ≤ f → GoodLt (parseSelectorF f s) s.length
  SL : ∀ s res, 2 * s.length + 3 ≤ f → GoodLe (selectorLoopF f s res) s.length
  Q : ∀ s, 2 * s.length + 3 ≤ f → GoodLt (parseSeqF f s) s.length
  QL : ∀ s acc pe, 2 * s.length + 2 ≤ f → GoodLe (seqLoopF f s acc pe) s.length ∧
    (startsSimple s = true → ∀ v r, seqLoopF f s acc pe = .ok (v, r) → r.length < s.length)
  P : ∀ s, 2 * s.length + 1 ≤ f → GoodLt (parsePseudoF f s) s.length

theorem stepG {f : Nat} (ih : AllGood f) (s : Str) (h : 2 * s.length + 5 ≤ f + 1) :
    GoodLt (parseGroupF (f + 1) s) s.length := by
  unfold parseGroupF
  have hS := ih.S s (by omega)
  split
  · rename_i e he; exact good_of_callee hS he _
  · rename_i first r hr
    have hl := hS.2 first r hr
    exact (ih.GL r [first] (by omega)).lt hl

theorem stepGL {f : Nat} (ih : AllGood f) (s : Str) (acc : List Sel) (h : 2 * s.length + 4 ≤ f + 1) :
    GoodLe (groupLoopF (f + 1) s acc) s.length := by
  unfold groupLoopF
  split
  · rename_i t
    simp only [List.length_cons] at h ⊢
    have hS := ih.S t (by omega)
    split
    · rename_i e he; exact (good_of_callee hS he _).le
    · rename_i c r hr
      have hl := hS.2 c r hr
      exact (ih.GL r (c :: acc) (by omega)).mono (by omega)
  · exact ⟨by simp, by intro v r h; simp only [Except.ok.injEq, Prod.mk.injEq] at h; rw [← h.2]; omega⟩

theorem stepS {f : Nat} (ih : AllGood f) (s : Str) (h : 2 * s.length + 4 ≤ f + 1) :
    GoodLt (parseSelectorF (f + 1) s) s.length := by
  unfold parseSelectorF
  have hw := skipWs_len s
  have hQ := ih.Q (skipWs s) (by omega)
  split
  · rename_i e he; exact good_of_callee hQ he _
  · rename_i first r hr
    have hl := hQ.2 first r hr
    exact (ih.SL r first (by omega)).lt (by omega)

theorem stepSL {f : Nat} (ih : AllGood f) (s : Str) (res : Sel) (h : 2 * s.length + 3 ≤ f + 1) :
    GoodLe (selectorLoopF (f + 1) s res) s.length := by
  unfold selectorLoopF
  have hw := skipWs_len s
  simp only
  generalize skipWs s = r0 at hw ⊢
  cases r0 with
  | nil => exact ⟨by simp, by intro v r h; simp only [Except.ok.injEq, Prod.mk.injEq] at h; rw [← h.2]; simp⟩
  | cons c t =>
    simp only [List.length_cons] at hw
    simp only
    split
    · have hw2 := skipWs_len t
      have hQ := ih.Q (skipWs t) (by omega)
      split
      · rename_i e he; exact (good_of_callee hQ he _).le
      · rename_i d r' hr
        have hl := hQ.2 d r' hr
        exact (ih.SL r' _ (by omega)).mono (by omega)
    · split
      · exact ⟨by simp, by intro v r h; simp only [Except.ok.injEq, Prod.mk.injEq] at h; rw [← h.2]; simp only [List.length_cons]; omega⟩
      · split
        · exact ⟨by simp, by intro v r h; simp only [Except.ok.injEq, Prod.mk.injEq] at h; rw [← h.2]; simp only [List.length_cons]; omega⟩
        · rename_i hsk
          have hlt : t.length + 1 < s.length := by
            simp at hsk
            omega
          have hQ := ih.Q (c :: t) (by simp only [List.length_cons]; omega)
          split
          · rename_i e he; exact (good_of_callee hQ he _).le
          · rename_i d r' hr
            have hl := hQ.2 d r' hr
            simp only [List.length_cons] at hl
            exact (ih.SL r' _ (by omega)).mono (by omega)

theorem stepQ {f : Nat} (ih : AllGood f) (s : Str) (h : 2 * s.length + 3 ≤ f + 1) :
    GoodLt (parseSeqF (f + 1) s) s.length := by
  unfold parseSeqF
  split
  · exact goodLt_err (by simp) _
  · rename_i c t
    simp only [List.length_cons] at h ⊢
    split
    · split
      · rename_i x t'
        simp only [List.length_cons] at h ⊢
        exact (ih.QL (x :: t') [] [] (by simp only [List.length_cons]; omega)).1.lt (by simp only [List.length_cons]; omega)
      · exact (ih.QL t [] [] (by omega)).1.lt (by omega)
    · split
      · rename_i hc
        have hQL := ih.QL (c :: t) [] [] (by simp only [List.length_cons]; omega)
        refine ⟨hQL.1.1, ?_⟩
        intro v r hr
        have := hQL.2 (by simpa [startsSimple] using hc) v r hr
        simpa using this
      · split
        · rename_i e he
          apply goodLt_err
          intro h'; subst h'; exact parseIdentifier_nofuel _ he
        · rename_i tag r hr
          have hl := parseIdentifier_len hr
          simp only [List.length_cons] at hl
          exact (ih.QL r _ [] (by omega)).1.lt (by omega)

/-- the two continuations of one step of the loop of `parseSimpleSelectorSequence` -/
theorem stepQL {f : Nat} (ih : AllGood f) (s : Str) (acc : List Sel) (pe : Str)
    (h : 2 * s.length + 2 ≤ f + 1) :
    GoodLe (seqLoopF (f + 1) s acc pe) s.length ∧
    (startsSimple s = true → ∀ v r, seqLoopF (f + 1) s acc pe = .ok (v, r) → r.length < s.length) := by
  -- every step that continues does so on a strictly shorter input
  have cont : ∀ (r : Str) (acc' : List Sel) (pe' : Str), r.length < s.length →
      GoodLt (seqLoopF f r acc' pe') s.length :=
    fun r acc' pe' hr => (ih.QL r acc' pe' (by omega)).1.lt hr
  have addSel : ∀ (ns : Sel) (r : Str), r.length < s.length →
      GoodLt (if (!pe.isEmpty) = true then (.error .malformed : Res Sel) else seqLoopF f r (ns :: acc) pe) s.length := by
    intro ns r hr
    split
    · exact goodLt_err (by simp) _
    · exact cont r _ _ hr
  have strict : GoodLt (seqLoopF (f + 1) s acc pe) s.length ∨
      (startsSimple s = false ∧ GoodLe (seqLoopF (f + 1) s acc pe) s.length) := by
    unfold seqLoopF
    simp only
    split
    · rename_i t
      left
      split
      · rename_i e he
        apply goodLt_err; intro h'; subst h'; exact parseName_nofuel _ he
      · rename_i n r hr
        have := parseName_len hr
        exact addSel _ r (by simp only [List.length_cons]; omega)
    · rename_i t
      left
      split
      · rename_i e he
        apply goodLt_err; intro h'; subst h'; exact parseIdentifier_nofuel _ he
      · rename_i n r hr
        have := parseIdentifier_len hr
        exact addSel _ r (by simp only [List.length_cons]; omega)
    · rename_i t
      left
      split
      · rename_i e he
        apply goodLt_err; intro h'; subst h'; exact (parseAttr_spec _).1 he
      · rename_i a r hr
        have := (parseAttr_spec _).2 a r hr
        exact addSel _ r this
    · rename_i t
      left
      have hP := ih.P (':' :: t) (by omega)
      split
      · rename_i e he; exact good_of_callee hP he _
      · rename_i ns r hr
        exact addSel _ r (hP.2 _ r hr)
      · rename_i name r hr
        have := hP.2 _ r hr
        split
        · exact goodLt_err (by simp) _
        · exact cont r _ _ this
    · right
      rename_i h1 h2 h3 h4
      refine ⟨?_, ?_⟩
      · cases s with
        | nil => rfl
        | cons c t =>
          simp only [startsSimple, Bool.or_eq_false_iff, beq_eq_false_iff_ne, ne_eq]
          refine ⟨⟨⟨?_, ?_⟩, ?_⟩, ?_⟩ <;> intro hc <;> subst hc
          · exact h1 t rfl
          · exact h2 t rfl
          · exact h3 t rfl
          · exact h4 t rfl
      · split <;> exact ⟨by simp, by intro v r h; simp only [Except.ok.injEq, Prod.mk.injEq] at h; rw [← h.2]; omega⟩
  rcases strict with hs | ⟨hns, hle⟩
  · exact ⟨hs.le, fun _ => hs.2⟩
  · exact ⟨hle, fun h' => by rw [hns] at h'; exact absurd h' (by simp)⟩

theorem stepP {f : Nat} (ih : AllGood f) (s : Str) (h : 2 * s.length + 1 ≤ f + 1) :
    GoodLt (parsePseudoF (f + 1) s) s.length := by
  unfold parsePseudoF
  split
  · rename_i c t
    simp only
    split
    · rename_i e he
      apply goodLt_err; intro h'; subst h'; exact parseIdentifier_nofuel _ he
    · rename_i name r hr
      have hl0 := parseIdentifier_len hr
      have hl : r.length + 2 ≤ (':' :: c :: t).length := by
        simp only [List.length_cons] at hl0 ⊢
        split at hl0 <;> (try simp only [List.length_cons] at hl0) <;> omega
      simp only [List.length_cons] at hl h ⊢
      split
      · exact goodLt_err (by simp) _
      · split
        · split
          · exact goodLt_err (by simp) _
          · rename_i r1 hr1
            have h1 := consumeParen_len hr1
            have hG := ih.G r1 (by omega)
            split
            · rename_i e he; exact good_of_callee hG he _
            · rename_i g r2 hr2
              have h2 := hG.2 g r2 hr2
              split
              · exact goodLt_err (by simp) _
              · rename_i r3 hr3
                have h3 := consumeClosing_len hr3
                exact ⟨by simp, by intro v r h; simp only [Except.ok.injEq, Prod.mk.injEq] at h; rw [← h.2]; omega⟩
        · split
          · exact goodLt_err (by simp) _
          · split
            · split
              · exact goodLt_err (by simp) _
              · rename_i r1 hr1
                have h1 := consumeParen_len hr1
                split
                · rename_i e he
                  apply goodLt_err; intro h'; subst h'; exact (parseNth_spec _).1 he
                · rename_i a b r2 hr2
                  have h2 := (parseNth_spec _).2 _ r2 hr2
                  split
                  · exact goodLt_err (by simp) _
                  · rename_i r3 hr3
                    have h3 := consumeClosing_len hr3
                    exact ⟨by simp, by intro v r h; simp only [Except.ok.injEq, Prod.mk.injEq] at h; rw [← h.2]; omega⟩
            · split
              · exact ⟨by simp, by intro v r h; simp only [Except.ok.injEq, Prod.mk.injEq] at h; rw [← h.2]; omega⟩
              · split
                · exact ⟨by simp, by intro v r h; simp only [Except.ok.injEq, Prod.mk.injEq] at h; rw [← h.2]; omega⟩
                · split
                  · exact ⟨by simp, by intro v r h; simp only [Except.ok.injEq, Prod.mk.injEq] at h; rw [← h.2]; omega⟩
                  · exact goodLt_err (by simp) _
  · exact goodLt_err (by simp) _

/-- all seven parser functions are good at every fuel -/
theorem allGood : ∀ f, AllGood f := by
  intro f
  induction f with
  | zero =>
    exact ⟨fun s h => by omega, fun s _ h => by omega, fun s h => by omega, fun s _ h => by omega,
      fun s h => by omega, fun s _ _ h => by omega, fun s h => by omega⟩
  | succ f ih =>
    exact ⟨stepG ih, stepGL ih, stepS ih, stepSL ih, stepQ ih, stepQL ih, stepP ih⟩

end WR.C05.Lemmas
