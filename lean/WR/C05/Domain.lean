/-
  C05 — the hypotheses under which the model (= the Go code) is proved equal to the Selectors
  definition.  Each clause is either a fact about trees produced by `html.Parse` or the exclusion
  of an input on which the code is known NOT to follow the definition (see Props/C05.lean for the
  negation witnesses).
-/
import WR.C05.Spec
namespace WR.C05
open WR.C05.Spec

/-- attribute selector values on which `attrSelector.Match` follows the definition:
    `~=` needs a non-empty value, `^= $= *=` a value that is not blank (in particular not empty)
    — the Go code tests the ATTRIBUTE for blankness instead of testing the VALUE for emptiness. -/
def valOk (op : AttrOp) (val : Str) : Bool :=
  match op with
  | .incl => !val.isEmpty
  | .pre | .suf | .sub => !isBlank val
  | _ => true

mutual
  /-- selectors inside the proved domain: class names are non-empty (the parser guarantees it),
      attribute values satisfy `valOk` -/
  def selOk : Sel → Bool
    | .cls name => !name.isEmpty
    | .attr _ val op _ => valOk op val
    | .rel _ args => selsOk args
    | .compound _ sels => selsOk sels
    | .combined a _ d => selOk a && selOk d
    | _ => true
  def selsOk : List Sel → Bool
    | [] => true
    | s :: ss => selOk s && selsOk ss
end

mutual
  /-- selectors on which `Specificity()` follows the definition: no `neverMatchSelector`
      (`:hover`, `:active`, `:focus`, `:visited`, `:target`), which the code weighs (0,0,0) although
      they are pseudo-classes -/
  def weighOk : Sel → Bool
    | .never _ => false
    | .rel _ args => weighsOk args
    | .compound _ sels => weighsOk sels
    | .combined a _ d => weighOk a && weighOk d
    | _ => true
  def weighsOk : List Sel → Bool
    | [] => true
    | s :: ss => weighOk s && weighsOk ss
end

/-- what the theorems need to know about one node of the tree (all true of `html.Parse` output
    restricted to HTML elements and ASCII white space):
    * only elements carry attributes (Doctype nodes with PUBLIC/SYSTEM identifiers are excluded);
    * every element has a parent (the Document node), and the `html` tag names exactly the
      elements whose parent is not an element;
    * text children use no Unicode space outside ASCII white space (`strings.TrimSpace` strips
      U+00A0, U+000B, U+0085, U+2000…; Selectors 4 / HTML "document white space" does not);
    * a node that is neither element, text nor comment (Doctype) has no element before it. -/
structure LocalOk (l : Loc) : Prop where
  attrs : l.kind ≠ .elem → l.attrs = []
  parent : l.kind = .elem → l.path ≠ []
  root : l.kind = .elem → (l.data = htmlTag ↔ ¬ ∃ p, l.parent? = some p ∧ p.kind = .elem)
  text : ∀ c ∈ l.children, c.kind = .text → ∀ ch ∈ c.data, isGoSpace ch = true → isDocWs ch = true
  other : ∀ pre s post, l.prevSibs = pre ++ s :: post → s.kind = .other → ∀ e ∈ post, e.kind ≠ .elem

/-- a set of nodes closed under the navigation the selectors perform, all of them `LocalOk`
    (e.g. all nodes of one document) -/
structure DomOk (S : Loc → Prop) : Prop where
  anc : ∀ l, S l → ∀ p ∈ l.ancestors, S p
  prev : ∀ l, S l → ∀ p ∈ l.prevSibs, S p
  kids : ∀ l, S l → ∀ p ∈ l.children, S p
  desc : ∀ l, S l → ∀ p ∈ l.descendants, S p
  ok : ∀ l, S l → LocalOk l

end WR.C05
