/-
  C05 — the hypotheses under which the model (= the Go code) is proved equal to the Selectors
  definition.  Each clause is either a fact about trees produced by `html.Parse` or the exclusion
  of the one input class on which the code deliberately departs from the definition.
-/
import WR.C05.Spec
namespace WR.C05
open WR.C05.Spec

/-- attribute selector values on which `attrSelector.Match` follows the definition.
    Documented deviation: `^= $= *=` never match a BLANK attribute value (the repository's baseline
    tests require `p[class$=" "]` to select nothing on `class=" "`), so a non-empty blank selector
    value — the only kind of value that could match a blank attribute — is outside the proved domain. -/
def valOk (op : AttrOp) (val : Str) : Bool :=
  match op with
  | .pre | .suf | .sub => val.isEmpty || !isBlank val
  | _ => true

mutual
  /-- selectors inside the proved domain: attribute values satisfy `valOk` -/
  def selOk : Sel → Bool
    | .attr _ val op _ => valOk op val
    | .rel _ args => selsOk args
    | .compound _ sels => selsOk sels
    | .combined a _ d => selOk a && selOk d
    | _ => true
  def selsOk : List Sel → Bool
    | [] => true
    | s :: ss => selOk s && selsOk ss
end

/-- what the theorems need to know about one node of the tree (all true of `html.Parse` output):
    * the parent of an element is an element, or it is the Document node and the element is `html`;
      an element without parent (webrender detaches the root from its Document) is `html`
      (the code's `:root` is "an `html` element whose parent is the Document or nothing");
    * a node that is neither element, text nor comment (Doctype, Document) has no element before it
      (`siblingMatch` skips only text and comment nodes when looking for the adjacent element). -/
structure LocalOk (l : Loc) : Prop where
  root : l.kind = .elem → ∀ p, l.parent? = some p →
    p.kind = .elem ∨ (p.kind = .doc ∧ l.data = htmlTag)
  detached : l.kind = .elem → l.parent? = none → l.data = htmlTag
  other : ∀ pre s post, l.prevSibs = pre ++ s :: post → (s.kind = .other ∨ s.kind = .doc) →
    ∀ e ∈ post, e.kind ≠ .elem

/-- a set of nodes closed under the navigation the selectors perform, all of them `LocalOk`
    (e.g. all nodes of one document) -/
structure DomOk (S : Loc → Prop) : Prop where
  anc : ∀ l, S l → ∀ p ∈ l.ancestors, S p
  prev : ∀ l, S l → ∀ p ∈ l.prevSibs, S p
  kids : ∀ l, S l → ∀ p ∈ l.children, S p
  desc : ∀ l, S l → ∀ p ∈ l.descendants, S p
  ok : ∀ l, S l → LocalOk l

end WR.C05
