/-
  C05 — helper lemmas: tree navigation, the counting loops of pseudo_classes.go, an+b.
-/
import WR.C05.Lemmas
namespace WR.C05.Lemmas
open WR.C05 WR.C05.Spec

/-! ### an+b with Go's truncating `%` and `/` -/

theorem nthGo_iff (a i : Int) (ha : a ≠ 0) : nthGo a i = true ↔ ∃ n : Nat, i = a * n := by
  unfold nthGo
  simp only [Bool.and_eq_true, beq_iff_eq, decide_eq_true_eq]
  constructor
  · rintro ⟨h1, h2⟩
    refine ⟨(i.tdiv a).toNat, ?_⟩
    have := Int.tmod_add_mul_tdiv i a
    rw [h1] at this
    have h3 : ((i.tdiv a).toNat : Int) = i.tdiv a := Int.toNat_of_nonneg h2
    rw [h3]; omega
  · rintro ⟨n, rfl⟩
    constructor
    · simp [Int.mul_tmod_right]
    · rw [Int.mul_tdiv_cancel_left _ ha]; omega

/-! ### navigation: the nodes of the sibling / child lists -/

theorem prevAux_nodes (f : Frame) (fs : List Frame) :
    ∀ (left : List Node) (cur : Node) (right : List Node),
      (Loc.prevAux f fs left cur right).map (·.node) = left := by
  intro left
  induction left with
  | nil => intros; rfl
  | cons p ps ih => intro cur right; simp [Loc.prevAux, ih]

theorem nextAux_nodes (f : Frame) (fs : List Frame) :
    ∀ (right : List Node) (left : List Node) (cur : Node),
      (Loc.nextAux f fs left cur right).map (·.node) = right := by
  intro right
  induction right with
  | nil => intros; rfl
  | cons q qs ih => intro left cur; simp [Loc.nextAux, ih]

theorem childrenAux_nodes (k : Kind) (d : Str) (a : List Attr) (fs : List Frame) :
    ∀ (cs left : List Node), (Loc.childrenAux k d a fs left cs).map (·.node) = cs := by
  intro cs
  induction cs with
  | nil => intros; rfl
  | cons c cs ih => intro left; simp [Loc.childrenAux, ih]

theorem children_nodes (l : Loc) : l.children.map (·.node) = l.node.children :=
  childrenAux_nodes _ _ _ _ _ _

/-- number of nodes of a list that the counting loops do not skip -/
def qual (ofType : Bool) (d : Str) (ns : List Node) : Nat :=
  (ns.filter (fun c => !skips ofType d c)).length

theorem counts_eq (ofType : Bool) (l s : Loc) : counts ofType l s = !skips ofType l.data s.node := by
  simp only [counts, skips, Loc.kind, Loc.data, bne]
  generalize (s.node.kind == Kind.elem) = x
  generalize (s.node.data == l.node.data) = y
  cases ofType <;> cases x <;> cases y <;> rfl

theorem filter_counts_length (ofType : Bool) (l : Loc) (xs : List Loc) :
    (xs.filter (counts ofType l)).length = qual ofType l.data (xs.map (·.node)) := by
  unfold qual
  induction xs with
  | nil => rfl
  | cons x xs ih =>
    simp only [List.filter_cons, List.map_cons, counts_eq]
    cases (!skips ofType l.data x.node) <;> simp [ih]

theorem qual_reverse (ofType : Bool) (d : Str) (ns : List Node) :
    qual ofType d ns.reverse = qual ofType d ns := by
  simp [qual, List.filter_reverse]

theorem qual_cons (ofType : Bool) (d : Str) (c : Node) (ns : List Node) :
    qual ofType d (c :: ns) = (if skips ofType d c then 0 else 1) + qual ofType d ns := by
  simp only [qual, List.filter_cons]
  cases skips ofType d c <;> simp <;> omega

theorem index_eq (last ofType : Bool) (n : Node) (f : Frame) (fs : List Frame) :
    index last ofType ⟨n, f :: fs⟩ = qual ofType n.data (if last then f.right else f.left) + 1 := by
  unfold index
  rw [filter_counts_length]
  cases last
  · simp [Loc.prevSibs, prevAux_nodes, Loc.data]
  · simp [Loc.nextSibs, nextAux_nodes, Loc.data]

/-! ### the loops -/

theorem nthLoop_unmarked (last ofType : Bool) (d : Str) (rest : List (Bool × Node)) :
    ∀ (xs : List Node) (i c : Int),
      nthLoop last ofType d (xs.map (fun c => (false, c)) ++ rest) i c
        = nthLoop last ofType d rest i (c + qual ofType d xs) := by
  intro xs
  induction xs with
  | nil => intro i c; simp [qual]
  | cons x xs ih =>
    intro i c
    simp only [List.map_cons, List.cons_append, nthLoop, qual_cons]
    cases h : skips ofType d x
    · simp only [Bool.false_eq_true, ↓reduceIte, ih]
      congr 1; simp; omega
    · simp only [↓reduceIte, ih]
      congr 1; simp

theorem nthLoop_sibList (last ofType : Bool) (n : Node) (f : Frame)
    (hn : skips ofType n.data n = false) :
    nthLoop last ofType n.data (sibList f n) (-1) 0 =
      ((qual ofType n.data f.left : Int) + 1,
       (qual ofType n.data f.left : Int) + 1 + (if last then (qual ofType n.data f.right : Int) else 0)) := by
  unfold sibList
  rw [nthLoop_unmarked, qual_reverse]
  simp only [nthLoop, hn, Bool.false_eq_true, ↓reduceIte]
  cases last
  · simp
  · simp only [Bool.not_true, Bool.false_eq_true, ↓reduceIte]
    have := nthLoop_unmarked true ofType n.data [] f.right
      (0 + (qual ofType n.data f.left : Int) + 1) (0 + (qual ofType n.data f.left : Int) + 1)
    simp only [List.append_nil] at this
    rw [this]
    simp [nthLoop]

theorem simpleLoop_marked (b : Int) (ofType : Bool) (d : Str) (n : Node) (rest : List (Bool × Node))
    (hn : skips ofType d n = false) :
    ∀ (xs : List Node) (c : Int),
      simpleLoop b ofType d (xs.map (fun c => (false, c)) ++ (true, n) :: rest) c
        = (c + qual ofType d xs + 1 == b) := by
  intro xs
  induction xs with
  | nil => intro c; simp [simpleLoop, hn, qual]
  | cons x xs ih =>
    intro c
    simp only [List.map_cons, List.cons_append, simpleLoop, qual_cons]
    cases h : skips ofType d x
    · simp only [Bool.false_eq_true, ↓reduceIte]
      by_cases hb : c + 1 ≥ b
      · simp only [hb, ↓reduceIte]
        symm; rw [beq_eq_false_iff_ne]; simp; omega
      · simp only [hb, ↓reduceIte, ih]
        congr 1; simp; omega
    · simp only [↓reduceIte, ih]
      congr 1; simp

theorem onlyLoop_eq (ofType : Bool) (d : Str) :
    ∀ (xs : List (Bool × Node)) (c : Nat), c ≤ 1 →
      onlyLoop ofType d xs c =
        (if c + qual ofType d (xs.map (·.2)) ≤ 1 then some (c + qual ofType d (xs.map (·.2))) else none) := by
  intro xs
  induction xs with
  | nil => intro c hc; simp [onlyLoop, qual, hc]
  | cons x xs ih =>
    intro c hc
    obtain ⟨m, x⟩ := x
    simp only [onlyLoop, List.map_cons, qual_cons]
    cases h : skips ofType d x
    · simp only [Bool.false_eq_true, ↓reduceIte]
      by_cases h1 : c + 1 > 1
      · simp only [h1, ↓reduceIte]
        rw [if_neg (by omega)]
      · simp only [h1, ↓reduceIte]
        rw [ih (c + 1) (by omega)]
        have : c + 1 + qual ofType d (xs.map (·.2)) = c + (1 + qual ofType d (xs.map (·.2))) := by omega
        rw [this]
    · simp only [↓reduceIte, Nat.zero_add]
      exact ih c hc

theorem emptyLoop_iff (cs : List Node) :
    emptyLoop cs = true ↔ ∀ c ∈ cs, c.kind ≠ .elem ∧ (c.kind = .text → isDocBlank c.data = true) := by
  induction cs with
  | nil => simp [emptyLoop]
  | cons c cs ih =>
    simp only [emptyLoop, List.mem_cons, forall_eq_or_imp]
    cases hk : c.kind <;> simp [ih]

end WR.C05.Lemmas
