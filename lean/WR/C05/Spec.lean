/-
  C05 — the Selectors definition (Selectors Level 3 / Level 4), written from the standard and the
  property text, not from the code.  Declarative: `Prop`s with quantifiers over the tree.

  The tree vocabulary (`Loc`, `parent?`, `ancestors`, `prevSibs`, `nextSibs`, `children`,
  `descendants`) and the selector abstract syntax `Sel` are shared with the model.
-/
import WR.C05.Model
namespace WR.C05.Spec
open WR.C05

def IsElem (l : Loc) : Prop := l.kind = .elem

/-- the node is a child of some node (an element or the Document) -/
def HasParent (l : Loc) : Prop := ∃ p, l.parent? = some p

/-- HTML "document white space" = ASCII white space: space, tab, LF, FF, CR -/
def isDocWs (c : Char) : Bool :=
  c == ' ' || c == '\t' || c == '\n' || c == '\x0c' || c == '\r'

/-! ### attribute values -/

/-- equality of two strings, ASCII case-insensitively when the `i` flag is set -/
def CEq (ic : Bool) (x y : Str) : Prop :=
  if ic then x.map Char.toLower = y.map Char.toLower else x = y

/-- "a whitespace-separated list of words": the pieces between white space characters -/
def splitWs : Str → List Str
  | [] => [[]]
  | c :: s =>
    if isDocWs c then [] :: splitWs s
    else match splitWs s with
      | [] => [[c]]
      | w :: ws => (c :: w) :: ws

/-- Selectors 3 §6.3.1–6.3.2, Selectors 4 §6.1–6.3: when does attribute value `s` satisfy
    `[att op val]`.  The substring and word operators with an empty value represent nothing. -/
def ValHolds (op : AttrOp) (ic : Bool) (val s : Str) : Prop :=
  match op with
  | .has => True
  | .eq => CEq ic s val
  | .ne => ¬ CEq ic s val
  | .incl => val ≠ [] ∧ ∃ w ∈ splitWs s, CEq ic w val
  | .dash => CEq ic s val ∨ ∃ p r, s = p ++ '-' :: r ∧ CEq ic p val
  | .pre => val ≠ [] ∧ ∃ p r, s = p ++ r ∧ CEq ic p val
  | .suf => val ≠ [] ∧ ∃ p r, s = p ++ r ∧ CEq ic r val
  | .sub => val ≠ [] ∧ ∃ p m r, s = p ++ m ++ r ∧ CEq ic m val

/-- `[att op val]` on an element; `!=` (non-standard) is `:not([att=val])` -/
def AttrHolds (key val : Str) (op : AttrOp) (ic : Bool) (l : Loc) : Prop :=
  IsElem l ∧
  (match op with
   | .ne => ¬ ∃ s, (key, s) ∈ l.attrs ∧ CEq ic s val
   | op => ∃ s, (key, s) ∈ l.attrs ∧ ValHolds op ic val s)

/-! ### structural pseudo-classes -/

/-- does sibling `s` count for the index of `l` (an element; of the same type for `*-of-type`) -/
def counts (ofType : Bool) (l s : Loc) : Bool :=
  s.kind == .elem && (!ofType || s.data == l.data)

/-- 1-based index of `l` among its counted siblings, from the start or (`last`) from the end -/
def index (last ofType : Bool) (l : Loc) : Nat :=
  ((if last then l.nextSibs else l.prevSibs).filter (counts ofType l)).length + 1

/-- `an+b`: the index is `a·n + b` for some non-negative integer `n` -/
def AnB (a b : Int) (i : Nat) : Prop := ∃ n : Nat, (i : Int) = a * n + b

/-- `e` is the nearest element among the previous siblings of `l` -/
def NearestPrevElem (l e : Loc) : Prop :=
  ∃ between rest, l.prevSibs = between ++ e :: rest ∧ IsElem e ∧ ∀ x ∈ between, ¬ IsElem x

/-! ### the matching relation -/

mutual
  /-- element `l` is represented by selector `s` -/
  def Matches : Sel → Loc → Prop
    | .tag name, l => IsElem l ∧ l.data = name
    | .cls name, l => AttrHolds classKey name .incl false l
    | .id name, l => AttrHolds idKey name .eq false l
    | .attr key val op ic, l => AttrHolds key val op ic l
    -- child-indexed pseudo-classes: Selectors 3 asks for a parent element, Selectors 4 for none;
    -- as in browsers the element must be a child of a node (the Document counts), so a root
    -- detached from its document (webrender's tree.NewHTML) is nobody's first child
    | .nth a b last ofType, l => IsElem l ∧ HasParent l ∧ AnB a b (index last ofType l)
    | .only ofType, l =>
      IsElem l ∧ HasParent l ∧ ∀ s ∈ l.prevSibs ++ l.nextSibs, counts ofType l s = false
    | .empty, l =>
      -- Selectors 4: no children except, optionally, document white space; comments do not count
      IsElem l ∧ ∀ c ∈ l.children, ¬ IsElem c ∧ (c.kind = .text → ∀ ch ∈ c.data, isDocWs ch = true)
    | .root, l => IsElem l ∧ ¬ ∃ p, l.parent? = some p ∧ IsElem p
    | .never _, _ => False  -- :hover, :active, :focus, :visited, :target in a static medium
    | .rel k args, l =>
      IsElem l ∧
      (match k with
       | .is => MatchesAny args l
       | .not => ¬ MatchesAny args l
       | .has => ∃ d ∈ l.descendants, MatchesAny args d
       | .haschild => ∃ d ∈ l.children, MatchesAny args d)
    | .compound _ sels, l => IsElem l ∧ MatchesAll sels l
    | .combined a c d, l =>
      Matches d l ∧
      (match c with
       | .desc => ∃ p ∈ l.ancestors, Matches a p
       | .child => ∃ p, l.parent? = some p ∧ Matches a p
       | .adj => ∃ e, NearestPrevElem l e ∧ Matches a e
       | .sib => ∃ e ∈ l.prevSibs, Matches a e)
  /-- a selector list represents the elements any of its selectors represents -/
  def MatchesAny : List Sel → Loc → Prop
    | [], _ => False
    | s :: ss, l => Matches s l ∨ MatchesAny ss l
  def MatchesAll : List Sel → Loc → Prop
    | [], _ => True
    | s :: ss, l => Matches s l ∧ MatchesAll ss l
end

/-! ### specificity -/

/-- lexicographic order on (a, b, c) -/
def SpecLe (x y : Specificity) : Prop :=
  x.a < y.a ∨ (x.a = y.a ∧ (x.b < y.b ∨ (x.b = y.b ∧ x.c ≤ y.c)))

/-- `m` is the most specific of `xs` (zero for the empty list) -/
def IsMostSpecific (xs : List Specificity) (m : Specificity) : Prop :=
  (m ∈ xs ∨ (xs = [] ∧ m = .zero)) ∧ ∀ x ∈ xs, SpecLe x m

mutual
  /-- Selectors 4 §17: (ids, classes + attributes + pseudo-classes, types + pseudo-elements);
      `:is()`, `:not()`, `:has()` weigh as their most specific argument; `*` weighs nothing. -/
  def HasSpecificity : Sel → Specificity → Prop
    | .tag _, w => w = ⟨0, 0, 1⟩
    | .id _, w => w = ⟨1, 0, 0⟩
    | .cls _, w | .attr _ _ _ _, w | .nth _ _ _ _, w | .only _, w
    | .empty, w | .root, w | .never _, w => w = ⟨0, 1, 0⟩
    | .rel _ args, w => ∃ ws, ListSpecificity args ws ∧ IsMostSpecific ws w
    | .compound pe sels, w =>
      ∃ ws, ListSpecificity sels ws ∧
        w = (ws.foldr Specificity.add .zero).add (if pe = [] then .zero else ⟨0, 0, 1⟩)
    | .combined a _ d, w => ∃ x y, HasSpecificity a x ∧ HasSpecificity d y ∧ w = x.add y
  def ListSpecificity : List Sel → List Specificity → Prop
    | [], ws => ws = []
    | s :: ss, ws => ∃ x xs, ws = x :: xs ∧ HasSpecificity s x ∧ ListSpecificity ss xs
end

end WR.C05.Spec
