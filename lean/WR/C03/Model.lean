/-
  C03 — hand-written model of the cascade code as it exists in /repo (quirks included):
    html/tree/style.go       weight, weight.isNone, weight.Less, declarationPrecedence,
                             newStyleFor (the two insertion loops), findStyleAttributes (specificities),
                             preprocessStylesheet (@import / @media / ignoreImports), GetAllComputedStyles
    html/tree/tree.go        matcher.match
    html/tree/media_query.go evaluateMediaQuery
    css/validation/validation.go  PreprocessDeclarationsPrelude (flattening of nested rules)
    css/selector/specificity.go   Specificity.Less
-/
import WR.C03.Doc
namespace WR.C03.Model
open WR.C03

/-- `selector.Specificity.Less`: strictly smaller, lexicographic, as the loop over the 3 entries -/
def specificityLess (s o : Spec3) : Bool :=
  if s.1 < o.1 then true else if s.1 > o.1 then false
  else if s.2.1 < o.2.1 then true else if s.2.1 > o.2.1 then false
  else if s.2.2 < o.2.2 then true else if s.2.2 > o.2.2 then false
  else false

/-- `type weight struct { precedence uint8; specificity selector.Specificity }` -/
structure Weight where
  precedence : Nat
  specificity : Spec3
  deriving Repr, DecidableEq

/-- `w == weight{}` -/
def Weight.isNone (w : Weight) : Bool := w.precedence == 0 && w.specificity == (0, 0, 0)

/-- `weight.Less`: true iff w <= other -/
def Weight.less (w o : Weight) : Bool :=
  w.precedence < o.precedence ||
    (w.precedence == o.precedence && (specificityLess w.specificity o.specificity || w.specificity == o.specificity))

/-- `declarationPrecedence(origin, importance)` (the table is also dumped from the real function
    into WR/Gen/C03Precedence.lean on every run and compared in Props) -/
def declarationPrecedence (origin : Origin) (importance : Bool) : Nat :=
  if origin == .ua then 1
  else if origin == .user && !importance then 2
  else if origin == .author && !importance then 3
  else if origin == .author then 4
  else 5

/-- `weigthedValue` restricted to the probe property: the declared value and its weight.
    The zero value stands for "no entry in the cascadedStyle map" (Go reads the zero weight). -/
structure WValue where
  weight : Weight
  val : Nat
  deriving Repr, DecidableEq

def WValue.zero : WValue := ⟨⟨0, (0, 0, 0)⟩, 0⟩

/-- `if oldWeight.isNone() || oldWeight.Less(we) { style[decl.Name] = ... }` -/
def insert (style : WValue) (d : WValue) : WValue :=
  if style.weight.isNone || style.weight.less d.weight then d else style

/-- all insertions into `cascadedStyles[probe][property]`, in the order they are executed -/
def cascade (ds : List WValue) : WValue := ds.foldl insert WValue.zero

/-- `tree.match{selector, declarations}` = validation.KeyedDeclarations -/
abbrev Match := List Sel × List Decl

/-- The selector list of a nested rule as PreprocessDeclarationsPrelude builds it: every `&` token
    becomes `:is(parent)`; if the prelude has no `&` at all, `:is(parent)` + whitespace is put in
    front of the *prelude* — i.e. of its first selector only. Every other selector without `&`
    reaches selector.ParseGroup as written (a top-level selector). -/
def nestSelectorsFrom (parent : List Sel) (hasNesting : Bool) : Bool → List Sel → List Sel
  | _, [] => []
  | first, s :: rest =>
    (if s.amp || (!hasNesting && first) then { s with spec := addSpec (maxSpec parent) s.spec }
     else { s with ok := s.bare }) :: nestSelectorsFrom parent hasNesting false rest

def nestSelectors (parent : List Sel) (sels : List Sel) : List Sel :=
  nestSelectorsFrom parent (sels.any (·.amp)) true sels

/-! PreprocessDeclarationsPrelude: for each content item — a nested rule appends its own (recursive)
    result to `out` at once, a declaration is appended to `ownDecls`; after the loop
    `out = append(out, KeyedDeclarations{selectors, ownDecls})`.  The pair is (out, ownDecls). -/
mutual
def flattenItem (sels : List Sel) : Body → List Match × List Decl
  | .decl d => ([], [d])
  | .nested ns nb =>
    let r := flattenBody (nestSelectors sels ns) nb
    (r.1 ++ [(nestSelectors sels ns, r.2)], [])
def flattenBody (sels : List Sel) : List Body → List Match × List Decl
  | [] => ([], [])
  | b :: rest =>
    let x := flattenItem sels b
    let r := flattenBody sels rest
    (x.1 ++ r.1, x.2 ++ r.2)
end

def preprocessDeclarationsPrelude (sels : List Sel) (body : List Body) : List Match :=
  let r := flattenBody sels body
  r.1 ++ [(sels, r.2)]

/-- `evaluateMediaQuery` -/
def evaluateMediaQuery : List Medium → Medium → Bool
  | [], _ => false
  | q :: qs, dev => if q == .all || q == dev then true else evaluateMediaQuery qs dev

/-! preprocessStylesheet: what is appended to `*matcher`, and the `ignoreImports` flag after the
    statement. An imported sheet is processed by a fresh `newCSS` call (flag false) appending to
    the same matcher; the content of a matching `@media` is processed with the flag set. -/
mutual
def preprocessItem (dev : Medium) (ignoreImports : Bool) : Item → List Match × Bool
  | .rule sels body => (preprocessDeclarationsPrelude sels body, true)
  | .imp m sub =>
    if ignoreImports then ([], ignoreImports)
    else if !evaluateMediaQuery m dev then ([], ignoreImports)
    else (preprocessItems dev false sub, ignoreImports)
  | .media m sub =>
    if !evaluateMediaQuery m dev then ([], true)
    else (preprocessItems dev true sub, true)
  | .page => ([], true)
  | .junk => ([], ignoreImports)
def preprocessItems (dev : Medium) (ignoreImports : Bool) : List Item → List Match
  | [] => []
  | it :: rest =>
    let r := preprocessItem dev ignoreImports it
    r.1 ++ preprocessItems dev r.2 rest
end

/-- `newCSS`: `preprocessStylesheet(mediaType, …, ignoreImports = false)` -/
def newCSS (dev : Medium) (items : List Item) : List Match := preprocessItems dev false items

/-- `type sheet struct { sheet CSS; origin string; specificity []int }` -/
structure Sheet where
  matcher : List Match
  origin : Origin
  specificity : Option Spec3
  deriving Repr

/-- `matcher.match(element)`: every matching selector of every entry, in order -/
def matcherMatch (m : List Match) : List (Spec3 × List Decl) :=
  m.flatMap fun e => (e.1.filter (·.ok)).map fun s => (s.spec, e.2)

/-- second loop of newStyleFor for one sheet: the weighted declarations in insertion order -/
def sheetInsertions (sh : Sheet) : List WValue :=
  (matcherMatch sh.matcher).flatMap fun r =>
    let specificity := match sh.specificity with
      | some s => s
      | none => r.1
    r.2.map fun d => ⟨⟨declarationPrecedence sh.origin d.imp, specificity⟩, d.val⟩

/-- first loop of newStyleFor over findStyleAttributes: the `style` attribute with specificity
    (1,0,0), then (if enabled) the presentational hints with (0,0,0); origin "author" -/
def attrInsertions (doc : Doc) : List WValue :=
  doc.styleAttr.map (fun d => ⟨⟨declarationPrecedence .author d.imp, (1, 0, 0)⟩, d.val⟩) ++
    (if doc.hints then doc.hintAttr.map (fun d => ⟨⟨declarationPrecedence .author d.imp, (0, 0, 0)⟩, d.val⟩) else [])

/-- findStylesheets: `<style>`/`<link>` whose media attribute matches, in document order -/
def findStylesheets (doc : Doc) : List (List Match) :=
  (doc.author.filter fun a => evaluateMediaQuery a.media doc.dev).map fun a => newCSS doc.dev a.items

/-- GetAllComputedStyles: UA, (hints sheet), author sheets, user sheets -/
def sheets (doc : Doc) : List Sheet :=
  [⟨newCSS doc.dev doc.ua, .ua, none⟩] ++
    (if doc.hints then [⟨newCSS doc.dev doc.ph, .author, some (0, 0, 0)⟩] else []) ++
    (findStylesheets doc).map (fun m => ⟨m, .author, none⟩) ++
    doc.user.map (fun u => ⟨newCSS doc.dev u, .user, none⟩)

def insertions (doc : Doc) : List WValue :=
  attrInsertions doc ++ (sheets doc).flatMap sheetInsertions

/-- the cascaded value of the probe property on the probe element (`none`: no entry) -/
def winner (doc : Doc) : Option Nat :=
  let w := cascade (insertions doc)
  if w.weight.isNone then none else some w.val

end WR.C03.Model
