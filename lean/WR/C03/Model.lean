/-
  C03 — hand-written model of the cascade code as it exists in /repo (quirks included):
    html/tree/style.go       weight, weight.isNone, weight.Less, declarationPrecedence,
                             newStyleFor (the two insertion loops), findStyleAttributes (specificities),
                             preprocessStylesheet (@import / @media / ignoreImports), GetAllComputedStyles
    html/tree/tree.go        matcher.match
    html/tree/media_query.go evaluateMediaQuery
    css/validation/validation.go  PreprocessDeclarationsPrelude (flattening of nested rules)
    css/selector/specificity.go   Specificity.Less
-/
import WR.C03.Doc
namespace WR.C03.Model
open WR.C03

/-- `selector.Specificity.Less`: strictly smaller, lexicographic, as the loop over the 3 entries -/
def specificityLess (s o : Spec3) : Bool :=
  if s.1 < o.1 then true else if s.1 > o.1 then false
  else if s.2.1 < o.2.1 then true else if s.2.1 > o.2.1 then false
  else if s.2.2 < o.2.2 then true else if s.2.2 > o.2.2 then false
  else false

/-- `type weight struct { precedence uint8; styleAttr bool; specificity selector.Specificity }` -/
structure Weight where
  precedence : Nat
  styleAttr : Bool
  specificity : Spec3
  deriving Repr, DecidableEq

/-- `w == weight{}` -/
def Weight.isNone (w : Weight) : Bool := w.precedence == 0 && !w.styleAttr && w.specificity == (0, 0, 0)

/-- `weight.Less`: true iff w <= other -/
def Weight.less (w o : Weight) : Bool :=
  if w.precedence != o.precedence then w.precedence < o.precedence
  else if w.styleAttr != o.styleAttr then o.styleAttr
  else specificityLess w.specificity o.specificity || w.specificity == o.specificity

/-- `declarationPrecedence(origin, importance)` (the table is also dumped from the real function
    into WR/Gen/C03Precedence.lean on every run and compared in Props) -/
def declarationPrecedence (origin : Origin) (importance : Bool) : Nat :=
  if origin == .ua then 1
  else if origin == .user && !importance then 2
  else if origin == .author && !importance then 3
  else if origin == .author then 4
  else 5

/-- `weigthedValue` restricted to the probe property: the declared value and its weight.
    The zero value stands for "no entry in the cascadedStyle map" (Go reads the zero weight). -/
structure WValue where
  weight : Weight
  val : Nat
  deriving Repr, DecidableEq

def WValue.zero : WValue := ⟨⟨0, false, (0, 0, 0)⟩, 0⟩

/-- `if oldWeight.isNone() || oldWeight.Less(we) { style[decl.Name] = ... }` -/
def insert (style : WValue) (d : WValue) : WValue :=
  if style.weight.isNone || style.weight.less d.weight then d else style

/-- all insertions into `cascadedStyles[probe][property]`, in the order they are executed -/
def cascade (ds : List WValue) : WValue := ds.foldl insert WValue.zero

/-- `tree.match{selector, declarations}` = validation.KeyedDeclarations -/
abbrev Match := List Sel × List Decl

/-- The selector list of a nested rule as PreprocessDeclarationsPrelude builds it, selector by
    selector (`pa.SplitOnComma`): every `&` token becomes `:is(parent)`; a selector without `&` gets
    `:is(parent)` + whitespace in front. Either way selector.ParseGroup sees `:is(parent)` once more
    than what is written. -/
def nestSelectors (parent : List Sel) (sels : List Sel) : List Sel :=
  sels.map fun s =>
    if s.amp then { s with spec := addSpec (maxSpec parent) s.spec }
    else { s with spec := addSpec (maxSpec parent) s.spec }

/-! PreprocessDeclarationsPrelude: the loop state is (out, ownDecls). A declaration is appended to
    `ownDecls`; a nested rule first flushes a non-empty `ownDecls` as `KeyedDeclarations{selectors,
    ownDecls}` (then `ownDecls = nil`) and appends its own (recursive) result; after the loop
    `out = append(out, KeyedDeclarations{selectors, ownDecls})` unconditionally.
    `flattenItem` gives what one item appends to `out` and the new `ownDecls`. -/
mutual
def flattenItem (sels : List Sel) (ownDecls : List Decl) : Body → List Match × List Decl
  | .decl d => ([], ownDecls ++ [d])
  | .nested ns nb =>
    ((if ownDecls.isEmpty then [] else [(sels, ownDecls)]) ++ flattenBody (nestSelectors sels ns) [] nb, [])
def flattenBody (sels : List Sel) (ownDecls : List Decl) : List Body → List Match
  | [] => [(sels, ownDecls)]
  | b :: rest =>
    let x := flattenItem sels ownDecls b
    x.1 ++ flattenBody sels x.2 rest
end

def preprocessDeclarationsPrelude (sels : List Sel) (body : List Body) : List Match :=
  flattenBody sels [] body

/-- `evaluateMediaQuery` -/
def evaluateMediaQuery : List Medium → Medium → Bool
  | [], _ => false
  | q :: qs, dev => if q == .all || q == dev then true else evaluateMediaQuery qs dev

/-! preprocessStylesheet: what is appended to `*matcher`, and the `ignoreImports` flag after the
    statement. An imported sheet is processed by a fresh `newCSS` call (flag false) appending to
    the same matcher; the content of a matching `@media` is processed with the flag set. -/
mutual
def preprocessItem (dev : Medium) (ignoreImports : Bool) : Item → List Match × Bool
  | .rule sels body => (preprocessDeclarationsPrelude sels body, true)
  | .imp m sub =>
    if ignoreImports then ([], ignoreImports)
    else if !evaluateMediaQuery m dev then ([], ignoreImports)
    else (preprocessItems dev false sub, ignoreImports)
  | .media m sub =>
    if !evaluateMediaQuery m dev then ([], true)
    else (preprocessItems dev true sub, true)
  | .page => ([], true)
  | .junk => ([], ignoreImports)
def preprocessItems (dev : Medium) (ignoreImports : Bool) : List Item → List Match
  | [] => []
  | it :: rest =>
    let r := preprocessItem dev ignoreImports it
    r.1 ++ preprocessItems dev r.2 rest
end

/-- `newCSS`: `preprocessStylesheet(mediaType, …, ignoreImports = false)` -/
def newCSS (dev : Medium) (items : List Item) : List Match := preprocessItems dev false items

/-- `type sheet struct { sheet CSS; origin string; specificity []int }` -/
structure Sheet where
  matcher : List Match
  origin : Origin
  specificity : Option Spec3
  deriving Repr

/-- `matcher.match(element)`: every matching selector of every entry, in order -/
def matcherMatch (m : List Match) : List (Spec3 × List Decl) :=
  m.flatMap fun e => (e.1.filter (·.ok)).map fun s => (s.spec, e.2)

/-- second loop of newStyleFor for one sheet: the weighted declarations in insertion order -/
def sheetInsertions (sh : Sheet) : List WValue :=
  (matcherMatch sh.matcher).flatMap fun r =>
    let specificity := match sh.specificity with
      | some s => s
      | none => r.1
    r.2.map fun d => ⟨⟨declarationPrecedence sh.origin d.imp, false, specificity⟩, d.val⟩

/-- first loop of newStyleFor over findStyleAttributes: the `style` attribute (`isStyleAttr`,
    specificity (1,0,0)), then (if enabled) the presentational hints with (0,0,0); origin "author" -/
def attrInsertions (doc : Doc) : List WValue :=
  doc.styleAttr.map (fun d => ⟨⟨declarationPrecedence .author d.imp, true, (1, 0, 0)⟩, d.val⟩) ++
    (if doc.hints then doc.hintAttr.map (fun d => ⟨⟨declarationPrecedence .author d.imp, false, (0, 0, 0)⟩, d.val⟩) else [])

/-- findStylesheets: `<style>`/`<link>` whose media attribute matches, in document order -/
def findStylesheets (doc : Doc) : List (List Match) :=
  (doc.author.filter fun a => evaluateMediaQuery a.media doc.dev).map fun a => newCSS doc.dev a.items

/-- GetAllComputedStyles: UA, (hints sheet), author sheets, user sheets -/
def sheets (doc : Doc) : List Sheet :=
  [⟨newCSS doc.dev doc.ua, .ua, none⟩] ++
    (if doc.hints then [⟨newCSS doc.dev doc.ph, .author, some (0, 0, 0)⟩] else []) ++
    (findStylesheets doc).map (fun m => ⟨m, .author, none⟩) ++
    doc.user.map (fun u => ⟨newCSS doc.dev u, .user, none⟩)

def insertions (doc : Doc) : List WValue :=
  attrInsertions doc ++ (sheets doc).flatMap sheetInsertions

/-- the cascaded value of the probe property on the probe element (`none`: no entry) -/
def winner (doc : Doc) : Option Nat :=
  let w := cascade (insertions doc)
  if w.weight.isNone then none else some w.val

end WR.C03.Model
