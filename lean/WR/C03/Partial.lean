/-
  C03 — the hypotheses under which the cascade of the *current* code is proved correct
  (`Props.C03.cascade_correct_partial`). Each excludes one confirmed defect of the code; when the
  defect is repaired the model changes and the hypothesis is dropped.
-/
import WR.C03.Spec
namespace WR.C03
open Spec

/-- (KF03-1) no style-attribute declaration competes with a rule declaration of the same
    origin/importance rank whose selector has an id (specificity (a,_,_) with a ≥ 1) -/
def StyleAttrSafe (occs : List Occ) : Prop :=
  ∀ x ∈ occs, ∀ y ∈ occs, x.kind = .styleAttr → y.kind = .rule →
    precedence x.origin x.imp = precedence y.origin y.imp → y.spec.1 = 0

def isDecl : Body → Bool
  | .decl _ => true
  | .nested _ _ => false

/-- (KF03-3) a nested selector list in which every selector gets its parent: all contain `&`, or
    the list is a single selector -/
def plainSels (ns : List Sel) : Bool := ns.all (·.amp) || ns.length ≤ 1

/-! (KF03-2) in every rule content, no declaration is written before a nested rule -/
mutual
def okItem : Body → Bool
  | .decl _ => true
  | .nested ns nb => plainSels ns && okBody nb
def okBody : List Body → Bool
  | [] => true
  | b :: rest => okItem b && okBody rest && (!isDecl b || rest.all isDecl)
end

mutual
def okSheetItem : Item → Bool
  | .rule _ body => okBody body
  | .media _ sub => okItems sub
  | .imp _ sub => okItems sub
  | .page => true
  | .junk => true
def okItems : List Item → Bool
  | [] => true
  | it :: rest => okSheetItem it && okItems rest
end

/-- every rule of every sheet of the document avoids KF03-2 and KF03-3 -/
def NestedSafe (doc : Doc) : Prop :=
  okItems doc.ua = true ∧ okItems doc.ph = true ∧ (∀ a ∈ doc.author, okItems a.items = true) ∧
    (∀ u ∈ doc.user, okItems u = true)

end WR.C03
