/-
  C03 — helper lemmas, part 1: the "keep the later of the maximal" scan, generically, and the
  order facts about the model's `weight.Less` and the spec's `le`.
-/
import WR.C03.Model
import WR.C03.Spec
namespace WR.C03

/-! ## generic scan -/
namespace Scan
variable {α : Type}

def step (le : α → α → Bool) (cur : Option α) (d : α) : Option α :=
  match cur with
  | none => some d
  | some o => if le o d then some d else some o

def scan (le : α → α → Bool) (ds : List α) : Option α := ds.foldl (step le) none

/-- `r` occurs in `ds`, everything before it is `le` it, everything after it is strictly below -/
def IsLastMax (le : α → α → Bool) (ds : List α) (r : α) : Prop :=
  ∃ pre post, ds = pre ++ r :: post ∧ (∀ d ∈ pre, le d r = true) ∧ (∀ d ∈ post, le r d = false)

structure TotalPreorder (le : α → α → Bool) : Prop where
  total : ∀ a b, le a b = true ∨ le b a = true
  trans : ∀ a b c, le a b = true → le b c = true → le a c = true

theorem fold_from {le : α → α → Bool} (hle : TotalPreorder le) (ds : List α) (o : α) :
    ∃ r, ds.foldl (step le) (some o) = some r ∧
      ((r = o ∧ ∀ d ∈ ds, le o d = false) ∨
       (∃ pre post, ds = pre ++ r :: post ∧ le o r = true ∧ (∀ d ∈ pre, le d r = true) ∧ (∀ d ∈ post, le r d = false))) := by
  induction ds generalizing o with
  | nil => exact ⟨o, rfl, Or.inl ⟨rfl, by simp⟩⟩
  | cons d ds ih =>
    simp only [List.foldl_cons, step]
    by_cases h : le o d = true
    · simp only [h, if_true]
      obtain ⟨r, hr, hcase⟩ := ih d
      refine ⟨r, hr, Or.inr ?_⟩
      rcases hcase with ⟨rfl, hall⟩ | ⟨pre, post, hds, hle', hpre, hpost⟩
      · exact ⟨[], ds, rfl, h, by simp, hall⟩
      · refine ⟨d :: pre, post, by simp [hds], hle.trans _ _ _ h hle', ?_, hpost⟩
        intro x hx
        rcases List.mem_cons.mp hx with rfl | hx
        · exact hle'
        · exact hpre x hx
    · have h' : le o d = false := by simpa using h
      simp only [h', Bool.false_eq_true, if_false]
      obtain ⟨r, hr, hcase⟩ := ih o
      refine ⟨r, hr, ?_⟩
      rcases hcase with ⟨rfl, hall⟩ | ⟨pre, post, hds, hle', hpre, hpost⟩
      · left; refine ⟨rfl, ?_⟩
        intro x hx
        rcases List.mem_cons.mp hx with rfl | hx
        · exact h'
        · exact hall x hx
      · right
        refine ⟨d :: pre, post, by simp [hds], hle', ?_, hpost⟩
        intro x hx
        rcases List.mem_cons.mp hx with rfl | hx
        · rcases hle.total o x with h1 | h1
          · rw [h1] at h'; cases h'
          · exact hle.trans _ _ _ h1 hle'
        · exact hpre x hx

theorem scan_isLastMax {le : α → α → Bool} (hle : TotalPreorder le) (d : α) (ds : List α) :
    ∃ r, scan le (d :: ds) = some r ∧ IsLastMax le (d :: ds) r := by
  unfold scan
  simp only [List.foldl_cons, step]
  obtain ⟨r, hr, hcase⟩ := fold_from hle ds d
  refine ⟨r, hr, ?_⟩
  rcases hcase with ⟨rfl, hall⟩ | ⟨pre, post, hds, hle', hpre, hpost⟩
  · exact ⟨[], ds, rfl, by simp, hall⟩
  · refine ⟨d :: pre, post, by simp [hds], ?_, hpost⟩
    intro x hx
    rcases List.mem_cons.mp hx with rfl | hx
    · exact hle'
    · exact hpre x hx

theorem scan_nil (le : α → α → Bool) : scan le [] = none := rfl

/-- the scan commutes with a map that preserves the comparison on the elements involved -/
theorem foldl_step_map {β : Type} (le1 : α → α → Bool) (le2 : β → β → Bool) (f : α → β) (S : List α)
    (h : ∀ x ∈ S, ∀ y ∈ S, le2 (f x) (f y) = le1 x y) (ds : List α) (hds : ∀ d ∈ ds, d ∈ S)
    (cur : Option α) (hcur : ∀ c, cur = some c → c ∈ S) :
    (ds.map f).foldl (step le2) (cur.map f) = (ds.foldl (step le1) cur).map f := by
  induction ds generalizing cur with
  | nil => rfl
  | cons d ds ih =>
    simp only [List.map_cons, List.foldl_cons]
    have hd : d ∈ S := hds d (by simp)
    have hrest : ∀ x ∈ ds, x ∈ S := fun x hx => hds x (by simp [hx])
    cases cur with
    | none =>
      simp only [Option.map_none, step]
      exact ih hrest (some d) (by intro c hc; cases hc; exact hd)
    | some o =>
      have ho : o ∈ S := hcur o rfl
      simp only [Option.map_some, step, h o ho d hd]
      by_cases hc : le1 o d = true
      · simp only [hc, if_true]
        exact ih hrest (some d) (by intro c hc; cases hc; exact hd)
      · have hc' : le1 o d = false := by simpa using hc
        simp only [hc', Bool.false_eq_true, if_false]
        exact ih hrest (some o) (by intro c hc; cases hc; exact ho)

theorem scan_map {β : Type} (le1 : α → α → Bool) (le2 : β → β → Bool) (f : α → β) (ds : List α)
    (h : ∀ x ∈ ds, ∀ y ∈ ds, le2 (f x) (f y) = le1 x y) :
    scan le2 (ds.map f) = (scan le1 ds).map f := by
  unfold scan
  exact foldl_step_map le1 le2 f ds h ds (fun _ hd => hd) none (by intro c hc; cases hc)

/-- the last maximal element is what "search from the end for an element everything is `le` to" finds -/
theorem find_last_of_isLastMax {le : α → α → Bool} (hle : TotalPreorder le) (ds : List α) (r : α)
    (h : IsLastMax le ds r) : ds.reverse.find? (fun w => ds.all fun o => le o w) = some r := by
  obtain ⟨pre, post, hds, hpre, hpost⟩ := h
  have hr : r ∈ ds := by simp [hds]
  have hrefl : le r r = true := by rcases hle.total r r with h | h <;> exact h
  have hall : (ds.all fun o => le o r) = true := by
    rw [List.all_eq_true]
    intro o ho
    rw [hds] at ho
    rcases List.mem_append.mp ho with ho | ho
    · exact hpre o ho
    · rcases List.mem_cons.mp ho with rfl | ho
      · exact hrefl
      · rcases hle.total o r with h1 | h1
        · exact h1
        · rw [hpost o ho] at h1; cases h1
  have hrev : ds.reverse = post.reverse ++ r :: pre.reverse := by simp [hds]
  rw [hrev, List.find?_append]
  have hnone : post.reverse.find? (fun w => ds.all fun o => le o w) = none := by
    rw [List.find?_eq_none]
    intro x hx
    have hx' : x ∈ post := by simpa using hx
    intro hcontra
    simp only [List.all_eq_true] at hcontra
    have := hcontra r hr
    rw [hpost x hx'] at this; cases this
  rw [hnone]
  simp [hall]

end Scan

/-! ## the model's weight order -/
open Model in
theorem specificityLess_eq (a b : Spec3) : specificityLess a b = specLt a b := by
  obtain ⟨a1, a2, a3⟩ := a; obtain ⟨b1, b2, b3⟩ := b
  simp only [specificityLess, specLt]
  by_cases h1 : a1 < b1 <;> by_cases h2 : a1 > b1 <;> by_cases h3 : a2 < b2 <;> by_cases h4 : a2 > b2 <;>
    by_cases h5 : a3 < b3 <;> by_cases h6 : a3 > b3 <;> simp [h1, h2, h3, h4, h5, h6] <;> omega

theorem specLt_iff (a b : Spec3) :
    specLt a b = true ↔ (a.1 < b.1 ∨ (a.1 = b.1 ∧ (a.2.1 < b.2.1 ∨ (a.2.1 = b.2.1 ∧ a.2.2 < b.2.2)))) := by
  simp [specLt]

theorem spec_eq_iff (a b : Spec3) : a = b ↔ (a.1 = b.1 ∧ a.2.1 = b.2.1 ∧ a.2.2 = b.2.2) := by
  obtain ⟨a1, a2, a3⟩ := a; obtain ⟨b1, b2, b3⟩ := b; simp

open Model in
theorem less_iff (w o : Weight) :
    w.less o = true ↔ (w.precedence < o.precedence ∨ (w.precedence = o.precedence ∧
      ((w.styleAttr = false ∧ o.styleAttr = true) ∨ (w.styleAttr = o.styleAttr ∧
        (specLt w.specificity o.specificity = true ∨ w.specificity = o.specificity))))) := by
  unfold Weight.less
  by_cases hp : w.precedence = o.precedence
  · cases hw : w.styleAttr <;> cases ho : o.styleAttr <;> simp [hp, specificityLess_eq]
  · simp [hp]

def wle (a b : Model.WValue) : Bool := a.weight.less b.weight

theorem wle_totalPreorder : Scan.TotalPreorder wle := by
  constructor
  · intro a b
    simp only [wle, less_iff, specLt_iff, spec_eq_iff]
    cases a.weight.styleAttr <;> cases b.weight.styleAttr <;> simp <;> omega
  · intro a b c
    simp only [wle, less_iff, specLt_iff, spec_eq_iff]
    cases a.weight.styleAttr <;> cases b.weight.styleAttr <;> cases c.weight.styleAttr <;> simp <;> omega

/-- the Go zero value of the map entry stands for "no entry" -/
def toOpt (w : Model.WValue) : Option Model.WValue := if w.weight.isNone then none else some w

theorem isNone_false_of_pos (w : Model.WValue) (h : 1 ≤ w.weight.precedence) : w.weight.isNone = false := by
  simp [Model.Weight.isNone]; omega

theorem foldl_insert_toOpt (ds : List Model.WValue) (hpos : ∀ d ∈ ds, 1 ≤ d.weight.precedence) (s : Model.WValue) :
    toOpt (ds.foldl Model.insert s) = ds.foldl (Scan.step wle) (toOpt s) := by
  induction ds generalizing s with
  | nil => rfl
  | cons d ds ih =>
    have hd := isNone_false_of_pos d (hpos d (by simp))
    simp only [List.foldl_cons]
    rw [ih (fun x hx => hpos x (by simp [hx]))]
    congr 1
    unfold Model.insert toOpt Scan.step
    cases hs : s.weight.isNone
    · simp only [Bool.false_or, Bool.false_eq_true, if_false, wle]
      by_cases hl : s.weight.less d.weight = true
      · simp [hl, hd]
      · simp [hl, hs]
    · simp [hd]

theorem cascade_eq_scan (ds : List Model.WValue) (hpos : ∀ d ∈ ds, 1 ≤ d.weight.precedence) :
    toOpt (Model.cascade ds) = Scan.scan wle ds := by
  unfold Model.cascade Scan.scan
  rw [foldl_insert_toOpt ds hpos]
  rfl

theorem declarationPrecedence_pos (o : Origin) (i : Bool) : 1 ≤ Model.declarationPrecedence o i := by
  cases o <;> cases i <;> decide

theorem declarationPrecedence_eq (o : Origin) (i : Bool) : Model.declarationPrecedence o i = Spec.precedence o i := by
  cases o <;> cases i <;> rfl

theorem sle_iff (a b : Spec.Occ) :
    Spec.le a b = true ↔ (Spec.precedence a.origin a.imp < Spec.precedence b.origin b.imp ∨
      (Spec.precedence a.origin a.imp = Spec.precedence b.origin b.imp ∧
        (a.rank < b.rank ∨ (a.rank = b.rank ∧ ¬ specLt b.effSpec a.effSpec = true)))) := by
  simp [Spec.le]

theorem sle_totalPreorder : Scan.TotalPreorder Spec.le := by
  constructor
  · intro a b
    simp only [sle_iff, specLt_iff]; omega
  · intro a b c
    simp only [sle_iff, specLt_iff]; omega

end WR.C03
