/-
  C03 — helper lemmas, part 2: the declarations the model inserts are the spec's occurrences,
  in the same order (under the hypotheses of Partial.lean).
-/
import WR.C03.Lemmas
import WR.C03.Partial
namespace WR.C03
open Spec

/-- (selector specificity, declaration) pairs a rule list yields for the probe: one per matching
    selector and declaration -/
def expand (rules : List (List Sel × List Decl)) : List (Spec3 × Decl) :=
  rules.flatMap fun e => (e.1.filter (·.ok)).flatMap fun s => e.2.map fun d => (s.spec, d)

theorem expand_append (a b : List (List Sel × List Decl)) : expand (a ++ b) = expand a ++ expand b := by
  simp [expand]

theorem expand_cons (e : List Sel × List Decl) (b : List (List Sel × List Decl)) :
    expand (e :: b) = expand [e] ++ expand b := by
  simp [expand]

theorem expand_nil : expand [] = [] := rfl

theorem expand_empty (sels : List Sel) : expand [(sels, [])] = [] := by
  simp [expand]

theorem nestSelectorsFrom_amp (parent : List Sel) (h : Bool) (first : Bool) (ns : List Sel)
    (hall : ns.all (·.amp) = true) : Model.nestSelectorsFrom parent h first ns = nestSels parent ns := by
  induction ns generalizing first with
  | nil => rfl
  | cons s rest ih =>
    simp only [List.all_cons, Bool.and_eq_true] at hall
    simp [Model.nestSelectorsFrom, nestSels, hall.1]
    have := ih false hall.2
    simpa [nestSels] using this

theorem nestSelectors_plain (parent ns : List Sel) (h : plainSels ns = true) :
    Model.nestSelectors parent ns = nestSels parent ns := by
  unfold plainSels at h
  simp only [Bool.or_eq_true, decide_eq_true_eq] at h
  rcases h with h | h
  · exact nestSelectorsFrom_amp parent _ true ns h
  · match ns, h with
    | [], _ => rfl
    | [s], _ =>
      cases hs : s.amp <;> simp [Model.nestSelectors, Model.nestSelectorsFrom, nestSels, hs]

theorem flatten_ok (sels : List Sel) (body : List Body) :
    ∀ run, okBody body = true → (run = [] ∨ body.all isDecl = true) →
      expand (Spec.flatBody sels run body) =
        expand ((Model.flattenBody sels body).1 ++ [(sels, run ++ (Model.flattenBody sels body).2)]) := by
  apply Model.flattenBody.induct
    (motive_1 := fun sels b => ∀ run, okItem b = true → (run = [] ∨ isDecl b = true) →
      expand (Spec.flatItem sels run b).1 = expand (Model.flattenItem sels b).1 ∧
      (Spec.flatItem sels run b).2 = run ++ (Model.flattenItem sels b).2)
    (motive_2 := fun sels body => ∀ run, okBody body = true → (run = [] ∨ body.all isDecl = true) →
      expand (Spec.flatBody sels run body) =
        expand ((Model.flattenBody sels body).1 ++ [(sels, run ++ (Model.flattenBody sels body).2)]))
  · intro sels d run _ _
    simp [Spec.flatItem, Model.flattenItem]
  · intro sels ns nb ih run hok hrun
    simp only [okItem, Bool.and_eq_true] at hok
    have hrun' : run = [] := by
      rcases hrun with h | h
      · exact h
      · simp [isDecl] at h
    subst hrun'
    have hsel := nestSelectors_plain sels ns hok.1
    have := ih [] (by simpa [hsel] using hok.2) (Or.inl rfl)
    simp only [Spec.flatItem, Model.flattenItem, hsel, List.nil_append, and_true]
    rw [expand_cons, expand_empty, List.nil_append]
    simpa [hsel] using this
  · intro sels run _ _
    simp [Spec.flatBody, Model.flattenBody]
  · intro sels b rest ihb ihrest run hok hrun
    simp only [okBody, Bool.and_eq_true, Bool.or_eq_true, Bool.not_eq_true'] at hok
    obtain ⟨⟨hokb, hokrest⟩, hshape⟩ := hok
    have hrunb : run = [] ∨ isDecl b = true := by
      rcases hrun with h | h
      · exact Or.inl h
      · simp only [List.all_cons, Bool.and_eq_true] at h; exact Or.inr h.1
    obtain ⟨h1, h2⟩ := ihb run hokb hrunb
    have hrunrest : (Spec.flatItem sels run b).2 = [] ∨ rest.all isDecl = true := by
      rcases hshape with h | h
      · left
        cases b with
        | decl d => simp [isDecl] at h
        | nested ns nb => simp [Spec.flatItem]
      · exact Or.inr h
    have h3 := ihrest (Spec.flatItem sels run b).2 hokrest hrunrest
    simp only [Spec.flatBody, Model.flattenBody]
    rw [expand_append, h3, h1, h2]
    simp [expand_append, List.append_assoc]

theorem evaluateMediaQuery_eq (m : List Medium) (dev : Medium) :
    Model.evaluateMediaQuery m dev = mediaOk m dev := by
  induction m with
  | nil => rfl
  | cons q qs ih =>
    simp only [Model.evaluateMediaQuery, mediaOk, List.any_cons]
    by_cases h : (q == Medium.all || q == dev) = true
    · simp [h]
    · have h' : (q == Medium.all || q == dev) = false := by simpa using h
      simp only [h', Bool.false_eq_true, if_false, Bool.false_or]
      simpa [mediaOk] using ih

theorem rule_ok (sels : List Sel) (body : List Body) (h : okBody body = true) :
    expand (Model.preprocessDeclarationsPrelude sels body) = expand (Spec.flatBody sels [] body) := by
  have := flatten_ok sels body [] h (Or.inl rfl)
  simpa [Model.preprocessDeclarationsPrelude] using this.symm

theorem items_ok (dev : Medium) (ign : Bool) (items : List Item) :
    okItems items = true →
      expand (Model.preprocessItems dev ign items) = expand (Spec.itemsRules dev (!ign) items) := by
  apply Model.preprocessItems.induct dev
    (motive_1 := fun ign it => okSheetItem it = true →
      expand (Model.preprocessItem dev ign it).1 = expand (Spec.itemRules dev (!ign) it) ∧
      (Model.preprocessItem dev ign it).2 = !((!ign) && keepsLeading it))
    (motive_2 := fun ign items => okItems items = true →
      expand (Model.preprocessItems dev ign items) = expand (Spec.itemsRules dev (!ign) items))
  · intro ign sels body hok
    simp only [okSheetItem] at hok
    simp [Model.preprocessItem, Spec.itemRules, keepsLeading, rule_ok sels body hok]
  · intro m sub _
    simp [Model.preprocessItem, Spec.itemRules, keepsLeading, expand_nil]
  · intro ign m sub hign hm _
    have hign' : ign = false := by simpa using hign
    subst hign'
    rw [evaluateMediaQuery_eq] at hm
    have hm' : mediaOk m dev = false := by simpa using hm
    simp [Model.preprocessItem, Spec.itemRules, keepsLeading, expand_nil, evaluateMediaQuery_eq, hm']
  · intro ign m sub hign hm ih hok
    have hign' : ign = false := by simpa using hign
    subst hign'
    rw [evaluateMediaQuery_eq] at hm
    have hm' : mediaOk m dev = true := by simpa using hm
    simp only [okSheetItem] at hok
    have := ih hok
    simp [Model.preprocessItem, Spec.itemRules, keepsLeading, evaluateMediaQuery_eq, hm']
    simpa using this
  · intro ign m sub hm _
    rw [evaluateMediaQuery_eq] at hm
    have hm' : mediaOk m dev = false := by simpa using hm
    simp [Model.preprocessItem, Spec.itemRules, keepsLeading, expand_nil, evaluateMediaQuery_eq, hm']
  · intro ign m sub hm ih hok
    rw [evaluateMediaQuery_eq] at hm
    have hm' : mediaOk m dev = true := by simpa using hm
    simp only [okSheetItem] at hok
    have := ih hok
    simp [Model.preprocessItem, Spec.itemRules, keepsLeading, evaluateMediaQuery_eq, hm']
    simpa using this
  · intro ign _
    simp [Model.preprocessItem, Spec.itemRules, keepsLeading, expand_nil]
  · intro ign _
    simp [Model.preprocessItem, Spec.itemRules, keepsLeading, expand_nil]
  · intro ign _
    simp [Model.preprocessItems, Spec.itemsRules]
  · intro ign it rest r ih1 ih2 hok
    simp only [okItems, Bool.and_eq_true] at hok
    obtain ⟨h1, h2⟩ := ih1 hok.1
    have h3 := ih2 hok.2
    simp only [Model.preprocessItems, Spec.itemsRules, expand_append, h1]
    rw [h2] at h3 ⊢
    simpa using h3

theorem newCSS_ok (dev : Medium) (items : List Item) (h : okItems items = true) :
    expand (Model.newCSS dev items) = expand (Spec.sheetRules dev items) := by
  simpa [Model.newCSS, Spec.sheetRules] using items_ok dev false items h

/-- the weight the code gives to an occurrence -/
def toW (o : Occ) : Model.WValue :=
  ⟨⟨Model.declarationPrecedence o.origin o.imp,
    match o.kind with
    | .rule => o.spec
    | .styleAttr => (1, 0, 0)
    | .hint => (0, 0, 0)⟩, o.val⟩

theorem toW_val (o : Occ) : (toW o).val = o.val := rfl

theorem sheetInsertions_eq (sh : Model.Sheet) :
    Model.sheetInsertions sh = (expand sh.matcher).map fun p =>
      ⟨⟨Model.declarationPrecedence sh.origin p.2.imp,
        match sh.specificity with
        | some s => s
        | none => p.1⟩, p.2.val⟩ := by
  obtain ⟨m, o, sp⟩ := sh
  cases sp <;>
    simp [Model.sheetInsertions, Model.matcherMatch, expand, List.map_flatMap, List.flatMap_map, List.flatMap_assoc,
      Function.comp_def]

theorem ruleOccs_eq (o : Origin) (k : Kind) (rules : List (List Sel × List Decl)) :
    ruleOccs o k rules = (expand rules).map fun p =>
      { origin := o, imp := p.2.imp, kind := k, spec := p.1, val := p.2.val } := by
  simp [ruleOccs, expand, List.map_flatMap, Function.comp_def]

theorem sheet_rule (m rules : List (List Sel × List Decl)) (o : Origin) (h : expand m = expand rules) :
    Model.sheetInsertions ⟨m, o, none⟩ = (ruleOccs o .rule rules).map toW := by
  rw [sheetInsertions_eq, ruleOccs_eq, h, List.map_map]
  rfl

theorem sheet_hint (m rules : List (List Sel × List Decl)) (o : Origin) (h : expand m = expand rules) :
    Model.sheetInsertions ⟨m, o, some (0, 0, 0)⟩ = (ruleOccs o .hint rules).map toW := by
  rw [sheetInsertions_eq, ruleOccs_eq, h, List.map_map]
  rfl

/-- **the model inserts exactly the spec's occurrences, in the spec's order** -/
theorem insertions_eq (doc : Doc) (h : NestedSafe doc) :
    Model.insertions doc = (Spec.occs doc).map toW := by
  obtain ⟨hua, hph, hau, hus⟩ := h
  have e1 := sheet_rule _ _ Origin.ua (newCSS_ok doc.dev doc.ua hua)
  have e2 := sheet_hint _ _ Origin.author (newCSS_ok doc.dev doc.ph hph)
  have e3 : ∀ l : List AuthorSheet, (∀ a ∈ l, okItems a.items = true) →
      (((l.filter fun a => Model.evaluateMediaQuery a.media doc.dev).map (fun a => Model.newCSS doc.dev a.items)).map
        (fun m => (⟨m, .author, none⟩ : Model.Sheet))).flatMap Model.sheetInsertions
      = ((l.filter fun a => mediaOk a.media doc.dev).flatMap
          (fun a => ruleOccs .author .rule (sheetRules doc.dev a.items))).map toW := by
    intro l hl
    induction l with
    | nil => rfl
    | cons a rest ih =>
      have ha := hl a (by simp)
      have hrest := ih (fun x hx => hl x (by simp [hx]))
      simp only [List.filter_cons, evaluateMediaQuery_eq] at hrest ⊢
      by_cases hm : mediaOk a.media doc.dev = true
      · simp only [hm, if_true, List.map_cons, List.flatMap_cons, List.map_append, hrest]
        rw [sheet_rule _ _ Origin.author (newCSS_ok doc.dev a.items ha)]
      · have hm' : mediaOk a.media doc.dev = false := by simpa using hm
        simp only [hm', Bool.false_eq_true, if_false, hrest]
  have e4 : ∀ l : List (List Item), (∀ u ∈ l, okItems u = true) →
      (l.map (fun u => (⟨Model.newCSS doc.dev u, .user, none⟩ : Model.Sheet))).flatMap Model.sheetInsertions
      = (l.flatMap (fun u => ruleOccs .user .rule (sheetRules doc.dev u))).map toW := by
    intro l hl
    induction l with
    | nil => rfl
    | cons u rest ih =>
      have hu := hl u (by simp)
      have hrest := ih (fun x hx => hl x (by simp [hx]))
      simp only [List.map_cons, List.flatMap_cons, List.map_append, hrest]
      rw [sheet_rule _ _ Origin.user (newCSS_ok doc.dev u hu)]
  have e3' := e3 doc.author hau
  have e4' := e4 doc.user hus
  unfold Model.insertions Model.sheets Model.attrInsertions Model.findStylesheets Spec.occs
  simp only [List.flatMap_append, List.map_append]
  rw [e3', e4']
  cases hh : doc.hints <;>
    simp [e1, e2, List.map_map, Function.comp_def, toW]

end WR.C03
