/-
  C03 — helper lemmas, part 2: the declarations the model inserts are the spec's occurrences,
  in the same order.
-/
import WR.C03.Lemmas
namespace WR.C03
open Spec

/-- (selector specificity, declaration) pairs a rule list yields for the probe: one per matching
    selector and declaration -/
def expand (rules : List (List Sel × List Decl)) : List (Spec3 × Decl) :=
  rules.flatMap fun e => (e.1.filter (·.ok)).flatMap fun s => e.2.map fun d => (s.spec, d)

theorem expand_append (a b : List (List Sel × List Decl)) : expand (a ++ b) = expand a ++ expand b := by
  simp [expand]

theorem expand_cons (e : List Sel × List Decl) (b : List (List Sel × List Decl)) :
    expand (e :: b) = expand [e] ++ expand b := by
  simp [expand]

theorem expand_nil : expand [] = [] := rfl

theorem expand_empty (sels : List Sel) : expand [(sels, [])] = [] := by
  simp [expand]

theorem nestSelectors_eq (parent ns : List Sel) : Model.nestSelectors parent ns = nestSels parent ns := by
  simp [Model.nestSelectors, nestSels]

/-- the code's flattening and the spec's differ only by empty `(selectors, [])` entries -/
theorem flatten_ok (sels : List Sel) (run : List Decl) (body : List Body) :
    expand (Model.flattenBody sels run body) = expand (Spec.flatBody sels run body) := by
  apply Model.flattenBody.induct
    (motive_1 := fun sels run b =>
      expand (Model.flattenItem sels run b).1 = expand (Spec.flatItem sels run b).1 ∧
      (Model.flattenItem sels run b).2 = (Spec.flatItem sels run b).2)
    (motive_2 := fun sels run body =>
      expand (Model.flattenBody sels run body) = expand (Spec.flatBody sels run body))
  · intro sels run d
    simp [Spec.flatItem, Model.flattenItem]
  · intro sels run ns nb ih
    rw [nestSelectors_eq] at ih
    simp only [Spec.flatItem, Model.flattenItem, nestSelectors_eq, and_true]
    rw [expand_append, ih, expand_cons (sels, run)]
    cases run with
    | nil => simp [expand_empty, expand_nil]
    | cons d ds => simp
  · intro sels run
    simp [Spec.flatBody, Model.flattenBody]
  · intro sels run b rest x ihb ihrest
    obtain ⟨h1, h2⟩ := ihb
    simp only [Spec.flatBody, Model.flattenBody]
    rw [expand_append, expand_append, h1]
    rw [h2] at ihrest
    rw [h2, ihrest]

theorem evaluateMediaQuery_eq (m : List Medium) (dev : Medium) :
    Model.evaluateMediaQuery m dev = mediaOk m dev := by
  induction m with
  | nil => rfl
  | cons q qs ih =>
    simp only [Model.evaluateMediaQuery, mediaOk, List.any_cons]
    by_cases h : (q == Medium.all || q == dev) = true
    · simp [h]
    · have h' : (q == Medium.all || q == dev) = false := by simpa using h
      simp only [h', Bool.false_eq_true, if_false, Bool.false_or]
      simpa [mediaOk] using ih

theorem rule_ok (sels : List Sel) (body : List Body) :
    expand (Model.preprocessDeclarationsPrelude sels body) = expand (Spec.flatBody sels [] body) :=
  flatten_ok sels [] body

theorem items_ok (dev : Medium) (ign : Bool) (items : List Item) :
    expand (Model.preprocessItems dev ign items) = expand (Spec.itemsRules dev (!ign) items) := by
  apply Model.preprocessItems.induct dev
    (motive_1 := fun ign it =>
      expand (Model.preprocessItem dev ign it).1 = expand (Spec.itemRules dev (!ign) it) ∧
      (Model.preprocessItem dev ign it).2 = !((!ign) && keepsLeading it))
    (motive_2 := fun ign items =>
      expand (Model.preprocessItems dev ign items) = expand (Spec.itemsRules dev (!ign) items))
  · intro ign sels body
    simp [Model.preprocessItem, Spec.itemRules, keepsLeading, rule_ok sels body]
  · intro m sub
    simp [Model.preprocessItem, Spec.itemRules, keepsLeading, expand_nil]
  · intro ign m sub hign hm
    have hign' : ign = false := by simpa using hign
    subst hign'
    rw [evaluateMediaQuery_eq] at hm
    have hm' : mediaOk m dev = false := by simpa using hm
    simp [Model.preprocessItem, Spec.itemRules, keepsLeading, expand_nil, evaluateMediaQuery_eq, hm']
  · intro ign m sub hign hm ih
    have hign' : ign = false := by simpa using hign
    subst hign'
    rw [evaluateMediaQuery_eq] at hm
    have hm' : mediaOk m dev = true := by simpa using hm
    simp [Model.preprocessItem, Spec.itemRules, keepsLeading, evaluateMediaQuery_eq, hm']
    simpa using ih
  · intro ign m sub hm
    rw [evaluateMediaQuery_eq] at hm
    have hm' : mediaOk m dev = false := by simpa using hm
    simp [Model.preprocessItem, Spec.itemRules, keepsLeading, expand_nil, evaluateMediaQuery_eq, hm']
  · intro ign m sub hm ih
    rw [evaluateMediaQuery_eq] at hm
    have hm' : mediaOk m dev = true := by simpa using hm
    simp [Model.preprocessItem, Spec.itemRules, keepsLeading, evaluateMediaQuery_eq, hm']
    simpa using ih
  · intro ign
    simp [Model.preprocessItem, Spec.itemRules, keepsLeading, expand_nil]
  · intro ign
    simp [Model.preprocessItem, Spec.itemRules, keepsLeading, expand_nil]
  · intro ign
    simp [Model.preprocessItems, Spec.itemsRules]
  · intro ign it rest r ih1 ih2
    obtain ⟨h1, h2⟩ := ih1
    simp only [Model.preprocessItems, Spec.itemsRules, expand_append, h1]
    rw [h2] at ih2 ⊢
    simpa using ih2

/-- leading `@import`s: each one contributes the rules of its sheet at its own place, whatever was
    imported before (the same sheet imported twice contributes twice) -/
theorem leading_imports (dev : Medium) (subs : List (List Medium × List Item)) (rest : List Item) :
    Model.preprocessItems dev false (subs.map (fun p => Item.imp p.1 p.2) ++ rest) =
      (subs.filter fun p => mediaOk p.1 dev).flatMap (fun p => Model.preprocessItems dev false p.2) ++
        Model.preprocessItems dev false rest := by
  induction subs with
  | nil => rfl
  | cons p ps ih =>
    simp only [List.map_cons, List.cons_append, Model.preprocessItems, Model.preprocessItem,
      Bool.false_eq_true, if_false, evaluateMediaQuery_eq, List.filter_cons]
    by_cases hm : mediaOk p.1 dev = true
    · simp [hm, ih]
    · have hm' : mediaOk p.1 dev = false := by simpa using hm
      simp [hm', ih]

theorem newCSS_ok (dev : Medium) (items : List Item) :
    expand (Model.newCSS dev items) = expand (Spec.sheetRules dev items) := by
  simpa [Model.newCSS, Spec.sheetRules] using items_ok dev false items

/-- the weight the code gives to an occurrence -/
def toW (o : Occ) : Model.WValue :=
  ⟨⟨Model.declarationPrecedence o.origin o.imp,
    (match o.kind with
    | .styleAttr => true
    | _ => false),
    match o.kind with
    | .rule => o.spec
    | .styleAttr => (1, 0, 0)
    | .hint => (0, 0, 0)⟩, o.val⟩

theorem toW_val (o : Occ) : (toW o).val = o.val := rfl

theorem sheetInsertions_eq (sh : Model.Sheet) :
    Model.sheetInsertions sh = (expand sh.matcher).map fun p =>
      ⟨⟨Model.declarationPrecedence sh.origin p.2.imp, false,
        match sh.specificity with
        | some s => s
        | none => p.1⟩, p.2.val⟩ := by
  obtain ⟨m, o, sp⟩ := sh
  cases sp <;>
    simp [Model.sheetInsertions, Model.matcherMatch, expand, List.map_flatMap, List.flatMap_map, List.flatMap_assoc,
      Function.comp_def]

theorem ruleOccs_eq (o : Origin) (k : Kind) (rules : List (List Sel × List Decl)) :
    ruleOccs o k rules = (expand rules).map fun p =>
      { origin := o, imp := p.2.imp, kind := k, spec := p.1, val := p.2.val } := by
  simp [ruleOccs, expand, List.map_flatMap, Function.comp_def]

theorem sheet_rule (m rules : List (List Sel × List Decl)) (o : Origin) (h : expand m = expand rules) :
    Model.sheetInsertions ⟨m, o, none⟩ = (ruleOccs o .rule rules).map toW := by
  rw [sheetInsertions_eq, ruleOccs_eq, h, List.map_map]
  rfl

theorem sheet_hint (m rules : List (List Sel × List Decl)) (o : Origin) (h : expand m = expand rules) :
    Model.sheetInsertions ⟨m, o, some (0, 0, 0)⟩ = (ruleOccs o .hint rules).map toW := by
  rw [sheetInsertions_eq, ruleOccs_eq, h, List.map_map]
  rfl

/-- **the model inserts exactly the spec's occurrences, in the spec's order** -/
theorem insertions_eq (doc : Doc) : Model.insertions doc = (Spec.occs doc).map toW := by
  have e1 := sheet_rule _ _ Origin.ua (newCSS_ok doc.dev doc.ua)
  have e2 := sheet_hint _ _ Origin.author (newCSS_ok doc.dev doc.ph)
  have e3 : ∀ l : List AuthorSheet,
      (((l.filter fun a => Model.evaluateMediaQuery a.media doc.dev).map (fun a => Model.newCSS doc.dev a.items)).map
        (fun m => (⟨m, .author, none⟩ : Model.Sheet))).flatMap Model.sheetInsertions
      = ((l.filter fun a => mediaOk a.media doc.dev).flatMap
          (fun a => ruleOccs .author .rule (sheetRules doc.dev a.items))).map toW := by
    intro l
    induction l with
    | nil => rfl
    | cons a rest ih =>
      simp only [List.filter_cons, evaluateMediaQuery_eq] at ih ⊢
      by_cases hm : mediaOk a.media doc.dev = true
      · simp only [hm, if_true, List.map_cons, List.flatMap_cons, List.map_append, ih]
        rw [sheet_rule _ _ Origin.author (newCSS_ok doc.dev a.items)]
      · have hm' : mediaOk a.media doc.dev = false := by simpa using hm
        simp only [hm', Bool.false_eq_true, if_false, ih]
  have e4 : ∀ l : List (List Item),
      (l.map (fun u => (⟨Model.newCSS doc.dev u, .user, none⟩ : Model.Sheet))).flatMap Model.sheetInsertions
      = (l.flatMap (fun u => ruleOccs .user .rule (sheetRules doc.dev u))).map toW := by
    intro l
    induction l with
    | nil => rfl
    | cons u rest ih =>
      simp only [List.map_cons, List.flatMap_cons, List.map_append, ih]
      rw [sheet_rule _ _ Origin.user (newCSS_ok doc.dev u)]
  have e3' := e3 doc.author
  have e4' := e4 doc.user
  unfold Model.insertions Model.sheets Model.attrInsertions Model.findStylesheets Spec.occs
  simp only [List.flatMap_append, List.map_append]
  rw [e3', e4']
  cases hh : doc.hints <;>
    simp [e1, e2, List.map_map, Function.comp_def, toW]

end WR.C03
