/-
  C03 — abstract syntax of "everything that can declare the probe property on the probe element".
  Shared by the model (Model.lean, mirrors the Go code) and the spec (Spec.lean, from CSS).
  One element (the probe) and one property (the probe property) are fixed; a declaration is
  identified by the value it declares (`val`, pairwise distinct in the correspondence runs).

  What is *given* (decided by the generator, by construction of the document):
    * for every selector its specificity and whether it matches the probe element (`Sel`);
      for a selector of a nested rule: the specificity of the selector as written (without the
      contribution of `&`) and whether the complete selector, `&` replaced by `:is(parent)`, matches;
    * the media types of `@media`, `@import`, `<style media>`/`<link media>` and of the device.
  Selector matching itself is property C05's business, not C03's.
-/
namespace WR.C03

/-- specificity (a, b, c) = (ids, classes/attributes/pseudo-classes, types) -/
abbrev Spec3 := Nat × Nat × Nat

structure Sel where
  spec : Spec3
  /-- the complete selector matches the probe element -/
  ok : Bool
  /-- (selector of a nested rule) it contains `&` (otherwise `:is(parent)` + descendant combinator
      is put in front of it); either way the complete selector is what `ok` and `nestSels` describe -/
  amp : Bool := false
  deriving Repr, DecidableEq

/-- one declaration of the probe property -/
structure Decl where
  imp : Bool
  val : Nat
  deriving Repr, DecidableEq

/-- content of a `{}` block of a style rule, in source order -/
inductive Body where
  | decl (d : Decl)
  | nested (sels : List Sel) (body : List Body)
  deriving Repr

inductive Medium where
  | all | print | screen | other
  deriving Repr, DecidableEq

/-- a statement of a style sheet, in source order -/
inductive Item where
  | rule (sels : List Sel) (body : List Body)
  | media (m : List Medium) (items : List Item)
  /-- `@import url(..) m;` with the imported sheet inlined -/
  | imp (m : List Medium) (items : List Item)
  /-- a valid at-rule other than @import/@media (the runs use `@page`) -/
  | page
  /-- an ignored statement: unknown at-rule, `@charset`, style rule with an invalid selector -/
  | junk
  deriving Repr

/-- a `<style>` or `<link rel=stylesheet>` element with its `media` attribute -/
structure AuthorSheet where
  media : List Medium
  items : List Item
  deriving Repr

structure Doc where
  /-- device media type (`print` or `screen`) -/
  dev : Medium
  /-- presentational hints enabled -/
  hints : Bool
  /-- declarations of the probe's `style` attribute, in order -/
  styleAttr : List Decl
  /-- declarations derived from the probe's presentational attributes (`bgcolor`), in order -/
  hintAttr : List Decl
  ua : List Item
  /-- the presentational-hints style sheet (html5_ph.css in production) -/
  ph : List Item
  author : List AuthorSheet
  user : List (List Item)
  deriving Repr

inductive Origin where
  | ua | user | author
  deriving Repr, DecidableEq

/-- strict lexicographic order on specificities -/
def specLt (a b : Spec3) : Bool :=
  a.1 < b.1 || (a.1 == b.1 && (a.2.1 < b.2.1 || (a.2.1 == b.2.1 && a.2.2 < b.2.2)))

/-- the largest specificity of a selector list ((0,0,0) if empty): specificity of `:is(list)` -/
def maxSpec : List Sel → Spec3
  | [] => (0, 0, 0)
  | s :: rest => let m := maxSpec rest; if specLt s.spec m then m else s.spec

def addSpec (a b : Spec3) : Spec3 := (a.1 + b.1, a.2.1 + b.2.1, a.2.2 + b.2.2)

/-- the selectors of a nested rule, `&` standing for `:is(parent)`: the specificity of `&` is that
    of the most specific parent selector (matching or not), CSS Nesting §3 / Selectors 4 §17 -/
def nestSels (parent : List Sel) (sels : List Sel) : List Sel :=
  sels.map fun s => { s with spec := addSpec (maxSpec parent) s.spec }

/-- a media query list (media *types* only) applies iff one of its types is `all` or the device's -/
def mediaOk (qs : List Medium) (dev : Medium) : Bool :=
  qs.any fun q => q == .all || q == dev

end WR.C03
