/-
  C03 — specification of the cascade, written from the property text and from
  CSS 2.1 §6.4.1 (cascading order), §6.4.3 (specificity; the style attribute; non-CSS presentational
  hints), §5.2.1 (grouping), CSS Cascade 4 §2 (@import), CSS Nesting 1 §2/§4 (nested rules, order of
  appearance) — independent of the repository's data structures.

  The declarations that *apply* to the probe element for the probe property are listed as
  occurrences, in order of appearance; the winner is the occurrence that is maximal for
  (origin and importance, style attribute over every selector, specificity) and, among
  those, the last one in order of appearance.
-/
import WR.C03.Doc
namespace WR.C03.Spec
open WR.C03

inductive Kind where
  | rule | styleAttr | hint
  deriving Repr, DecidableEq

/-- a declaration that applies to the probe element (its rule matches, its media match) -/
structure Occ where
  origin : Origin
  imp : Bool
  kind : Kind
  /-- specificity of the matching selector (meaningful for `kind = rule` only) -/
  spec : Spec3
  val : Nat
  deriving Repr, DecidableEq

/-- CSS 2.1 §6.4.1: user agent < user normal < author normal < author important < user important -/
def precedence : Origin → Bool → Nat
  | .ua, _ => 1
  | .user, false => 2
  | .author, false => 3
  | .author, true => 4
  | .user, true => 5

/-- a style attribute outranks every selector -/
def Occ.rank (o : Occ) : Nat := if o.kind = .styleAttr then 1 else 0

/-- presentational hints count as rules of specificity zero -/
def Occ.effSpec (o : Occ) : Spec3 :=
  match o.kind with
  | .rule => o.spec
  | .styleAttr => (0, 0, 0)
  | .hint => (0, 0, 0)

/-- `le a b`: b wins or ties against a on (origin/importance, style attribute, specificity) -/
def le (a b : Occ) : Bool :=
  let pa := precedence a.origin a.imp
  let pb := precedence b.origin b.imp
  pa < pb || (pa == pb && (a.rank < b.rank || (a.rank == b.rank && !specLt b.effSpec a.effSpec)))

/-- **The winner**: the last occurrence, in order of appearance, that every occurrence is `le` to. -/
def winner (occs : List Occ) : Option Occ :=
  occs.reverse.find? fun w => occs.all fun o => le o w

/-! ## which declarations apply, in which order

A style rule's content is a sequence of declarations and nested rules. Each maximal run of
declarations is a rule of its own with the parent's selector list, at the place where it is written
(CSS Nesting: "order of appearance"); nested rules come at their place, their `&` being `:is(parent)`. -/
mutual
def flatItem (sels : List Sel) (run : List Decl) : Body → List (List Sel × List Decl) × List Decl
  | .decl d => ([], run ++ [d])
  | .nested ns nb => ((sels, run) :: flatBody (nestSels sels ns) [] nb, [])
def flatBody (sels : List Sel) (run : List Decl) : List Body → List (List Sel × List Decl)
  | [] => [(sels, run)]
  | b :: rest =>
    let x := flatItem sels run b
    x.1 ++ flatBody sels x.2 rest
end

/-- statements that do not end the zone in which `@import` is valid -/
def keepsLeading : Item → Bool
  | .imp _ _ => true
  | .junk => true
  | _ => false

/-! The rules (selector list, declarations) of a style sheet in order of appearance: the content
    of an `@import` stands at the place of the `@import` rule, which is valid only before every other
    valid statement of its sheet (and never inside `@media`); `@media`/`@import` with a
    non-matching media list contribute nothing. -/
mutual
def itemRules (dev : Medium) (leading : Bool) : Item → List (List Sel × List Decl)
  | .rule sels body => flatBody sels [] body
  | .imp m sub => if leading && mediaOk m dev then itemsRules dev true sub else []
  | .media m sub => if mediaOk m dev then itemsRules dev false sub else []
  | .page => []
  | .junk => []
def itemsRules (dev : Medium) (leading : Bool) : List Item → List (List Sel × List Decl)
  | [] => []
  | it :: rest => itemRules dev leading it ++ itemsRules dev (leading && keepsLeading it) rest
end

def sheetRules (dev : Medium) (items : List Item) : List (List Sel × List Decl) := itemsRules dev true items

/-- `s₁, s₂ { d₁; d₂ }` is equivalent to `s₁ { d₁; d₂ } s₂ { d₁; d₂ }` (CSS 2.1 §5.2.1);
    rules whose selector does not match never apply. -/
def ruleOccs (origin : Origin) (kind : Kind) (rules : List (List Sel × List Decl)) : List Occ :=
  rules.flatMap fun r => (r.1.filter (·.ok)).flatMap fun s =>
    r.2.map fun d => { origin := origin, imp := d.imp, kind := kind, spec := s.spec, val := d.val }

/-- All applicable declarations. Order of appearance only decides between occurrences that tie on
    (origin/importance, style attribute, specificity) — `winner` takes the last of the maximal ones,
    see `Props.C03.spec_winner_is_last_max` — so only these relative orders carry meaning: hints
    before every author sheet, author sheets in document order, statements in source order; the
    place of the style attribute, of the UA sheet and of the user sheets in the list is immaterial. -/
def occs (doc : Doc) : List Occ :=
  doc.styleAttr.map (fun d => { origin := .author, imp := d.imp, kind := .styleAttr, spec := (0, 0, 0), val := d.val }) ++
  (if doc.hints then
    doc.hintAttr.map (fun d => { origin := .author, imp := d.imp, kind := .hint, spec := (0, 0, 0), val := d.val })
   else []) ++
  ruleOccs .ua .rule (sheetRules doc.dev doc.ua) ++
  (if doc.hints then ruleOccs .author .hint (sheetRules doc.dev doc.ph) else []) ++
  (doc.author.filter fun a => mediaOk a.media doc.dev).flatMap (fun a => ruleOccs .author .rule (sheetRules doc.dev a.items)) ++
  doc.user.flatMap (fun u => ruleOccs .user .rule (sheetRules doc.dev u))

/-- the value the cascade must yield for the probe property on the probe element -/
def docWinner (doc : Doc) : Option Nat := (winner (occs doc)).map (·.val)

end WR.C03.Spec
