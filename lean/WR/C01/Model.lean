/-
  C01 — small models of the loop-carrying / choice-making cores of the renderer whose totality is
  what "rendering terminates without crashing" rests on.  Each mirrors the Go code that exists.

  * `pickRoot`      html/tree/tree.go NewHTML (lines 60-68): which child of the document node becomes
                    the root element.
  * `pageLoop`      html/layout/pages.go makeAllPages / remakePage: the page loop, abstract in the
                    per-page layout function.
  * `keepValid`     the shape `for x in xs { r, err := f(x); if err != nil { continue }; out = append(out, r...) }`
                    of validation.PreprocessDeclarations and of the stylesheet rule loop.
-/
namespace WR.C01

/-! ## root discovery -/

/-- The node kinds `golang.org/x/net/html` puts under the document node. -/
inductive Kind where
  | doctype
  | comment
  | element (tag : String)
  | text
  deriving DecidableEq, Repr

/-- Outcome of `tree.NewHTML` as far as the root is concerned. -/
inductive Root where
  | error                 -- `invalid html input` is returned
  | nilDeref              -- `out.Root.Parent = nil` on a nil `NextSibling`: run-time panic
  | node (index : Nat) (k : Kind)
  deriving DecidableEq, Repr

/-- tree.go:60-68 (since commit d4860cc): skip the doctype and the comments before the root element;
    `invalid html input : no root element` if there is none. -/
def pickRoot : List Kind → Root :=
  go 0
where
  go (i : Nat) : List Kind → Root
    | [] => .error
    | .element t :: _ => .node i (.element t)
    | _ :: rest => go (i + 1) rest

/-- The code before d4860cc, kept for the record of the defect the proof attempt found:
    `out.Root = root.FirstChild; if out.Root.Type == DoctypeNode { out.Root = out.Root.NextSibling }`. -/
def pickRootBefore : List Kind → Root
  | [] => .error
  | .doctype :: [] => .nilDeref
  | .doctype :: k :: _ => .node 1 k
  | k :: _ => .node 0 k

/-- Shape of the document node's children as produced by `html.Parse` (recorded assumption):
    optional doctype, comments, exactly one element `html`, comments. -/
def parseShape (dt : Bool) (pre post : Nat) : List Kind :=
  (if dt then [Kind.doctype] else []) ++ List.replicate pre Kind.comment ++
    [Kind.element "html"] ++ List.replicate post Kind.comment

/-! ## page loop -/

/-- State carried from one page to the next (`tree.PageMaker` entry): where to resume, whether
    the coming page is a right page, and the side asked for by the pending page break
    (`some true` = right, `some false` = left, `none` = any). -/
structure PageState (Pos : Type) where
  resume : Pos
  right : Bool
  want : Option Bool

/-- remakePage: `blank := (side == "left" && RightPage) || (side == "right" && !RightPage)`. -/
def isBlank {Pos : Type} (s : PageState Pos) : Bool :=
  match s.want with
  | some w => w != s.right
  | none => false

/-- One page of real layout: where the next page resumes (`none` = document finished) and the
    side its break asks for. -/
abbrev LayoutPage (Pos : Type) := Pos → Bool → Option Pos × Option Bool

/-- makeAllPages with explicit fuel; returns the number of pages made, `none` if the fuel ran out.
    A blank page keeps `resume` and the pending break (pages.go:889-892) and flips the side. -/
def pageLoop {Pos : Type} (layoutPage : LayoutPage Pos) : Nat → PageState Pos → Nat → Option Nat
  | 0, _, _ => none
  | fuel + 1, s, made =>
    if isBlank s then
      pageLoop layoutPage fuel { s with right := !s.right } (made + 1)
    else
      match layoutPage s.resume s.right with
      | (none, _) => some (made + 1)
      | (some p, w) => pageLoop layoutPage fuel { resume := p, right := !s.right, want := w } (made + 1)

/-- Concrete instance used by the driver and the correspondence: a document is a list of blocks,
    each with the page side its `break-before` asks for (`some true` = right, `some false` = left),
    a "forced" flag (break-before: page/left/right) and a height; a page takes blocks while they fit
    (the first block of a page is always placed: the `pageIsEmpty` rule). `Pos` = blocks left. -/
structure Block where
  forced : Bool
  side : Option Bool
  height : Nat
  deriving Repr

/-- take blocks while they fit; `first` = nothing placed on this page yet -/
def fill (pageHeight : Nat) : List Block → Nat → Bool → List Block
  | [], _, _ => []
  | b :: rest, used, first =>
    if first then fill pageHeight rest (used + b.height) false
    else if b.forced then b :: rest
    else if used + b.height ≤ pageHeight then fill pageHeight rest (used + b.height) false
    else b :: rest

def blockLayout (pageHeight : Nat) : LayoutPage (List Block) := fun bs _ =>
  match fill pageHeight bs 0 true with
  | [] => (none, none)
  | b :: rest => (some (b :: rest), if b.forced then b.side else none)

/-! ## skipping invalid items -/

/-- `for _, x := range xs { rs, err := f(x); if err != nil { continue }; out = append(out, rs...) }` -/
def keepValid {α β ε : Type} (f : α → Except ε (List β)) : List α → List β
  | [] => []
  | x :: xs =>
    match f x with
    | .ok rs => rs ++ keepValid f xs
    | .error _ => keepValid f xs

end WR.C01
