import WR.C01.Model
namespace WR.C01

/-! helper lemmas for Props/C01 -/

theorem pickRoot_go_comments (i n : Nat) (rest : List Kind) (t : String) :
    pickRoot.go i (List.replicate n Kind.comment ++ Kind.element t :: rest) = .node (i + n) (.element t) := by
  induction n generalizing i with
  | zero => simp [pickRoot.go]
  | succ n ih =>
    simp only [List.replicate_succ, List.cons_append, pickRoot.go]
    rw [ih]; congr 1; omega

/-- non-blank state: the loop ends within `2·μ + 1` more pages -/
theorem pageLoop_terminates_aux {Pos : Type} (layoutPage : LayoutPage Pos) (μ : Pos → Nat)
    (progress : ∀ p r p' w, layoutPage p r = (some p', w) → μ p' < μ p) :
    ∀ (n : Nat) (s : PageState Pos) (made fuel : Nat), μ s.resume ≤ n →
      (isBlank s = false → 2 * n + 1 ≤ fuel → ∃ k, pageLoop layoutPage fuel s made = some k ∧ k ≤ made + 2 * n + 1) ∧
      (2 * n + 2 ≤ fuel → ∃ k, pageLoop layoutPage fuel s made = some k ∧ k ≤ made + 2 * n + 2) := by
  intro n
  induction n with
  | zero =>
    intro s made fuel hμ
    have nb : isBlank s = false → 1 ≤ fuel → ∃ k, pageLoop layoutPage fuel s made = some k ∧ k ≤ made + 1 := by
      intro hb hf
      obtain ⟨f, rfl⟩ : ∃ f, fuel = f + 1 := ⟨fuel - 1, by omega⟩
      cases hl : layoutPage s.resume s.right with
      | mk a w =>
        cases a with
        | none => exact ⟨made + 1, by simp [pageLoop, hb, hl], by omega⟩
        | some p' => have := progress _ _ _ _ hl; omega
    refine ⟨fun hb hf => by simpa using nb hb (by omega), fun hf => ?_⟩
    cases hb : isBlank s with
    | false => obtain ⟨k, hk, hle⟩ := nb hb (by omega); exact ⟨k, hk, by omega⟩
    | true =>
      obtain ⟨f, rfl⟩ : ∃ f, fuel = f + 1 := ⟨fuel - 1, by omega⟩
      have hb' : isBlank ({ s with right := !s.right } : PageState Pos) = false := by
        cases hw : s.want with
        | none => simp [isBlank, hw] at hb
        | some w => simp [isBlank, hw] at hb ⊢; cases w <;> cases hr : s.right <;> simp_all
      obtain ⟨k, hk, hle⟩ := (show ∃ k, pageLoop layoutPage f { s with right := !s.right } (made + 1) = some k ∧ k ≤ made + 1 + 1 from by
        have hf' : 1 ≤ f := by omega
        obtain ⟨g, rfl⟩ : ∃ g, f = g + 1 := ⟨f - 1, by omega⟩
        cases hl : layoutPage s.resume (!s.right) with
        | mk a w =>
          cases a with
          | none => exact ⟨made + 1 + 1, by simp [pageLoop, hb', hl], by omega⟩
          | some p' => have := progress _ _ _ _ hl; omega)
      exact ⟨k, by simp [pageLoop, hb, hk], by omega⟩
  | succ n ih =>
    intro s made fuel hμ
    have nb : ∀ (s : PageState Pos) made fuel, μ s.resume ≤ n + 1 → isBlank s = false → 2 * (n + 1) + 1 ≤ fuel →
        ∃ k, pageLoop layoutPage fuel s made = some k ∧ k ≤ made + 2 * (n + 1) + 1 := by
      intro s made fuel hμ hb hf
      obtain ⟨f, rfl⟩ : ∃ f, fuel = f + 1 := ⟨fuel - 1, by omega⟩
      cases hl : layoutPage s.resume s.right with
      | mk a w =>
        cases a with
        | none => exact ⟨made + 1, by simp [pageLoop, hb, hl], by omega⟩
        | some p' =>
          have hp := progress _ _ _ _ hl
          obtain ⟨k, hk, hle⟩ := (ih { resume := p', right := !s.right, want := w } (made + 1) f (by simp; omega)).2 (by omega)
          exact ⟨k, by simp [pageLoop, hb, hl, hk], by omega⟩
    refine ⟨fun hb hf => nb s made fuel hμ hb hf, fun hf => ?_⟩
    cases hb : isBlank s with
    | false => obtain ⟨k, hk, hle⟩ := nb s made fuel hμ hb (by omega); exact ⟨k, hk, by omega⟩
    | true =>
      obtain ⟨f, rfl⟩ : ∃ f, fuel = f + 1 := ⟨fuel - 1, by omega⟩
      have hb' : isBlank ({ s with right := !s.right } : PageState Pos) = false := by
        cases hw : s.want with
        | none => simp [isBlank, hw] at hb
        | some w => simp [isBlank, hw] at hb ⊢; cases w <;> cases hr : s.right <;> simp_all
      obtain ⟨k, hk, hle⟩ := nb { s with right := !s.right } (made + 1) f hμ hb' (by omega)
      exact ⟨k, by simp [pageLoop, hb, hk], by omega⟩

theorem fill_length (h : Nat) : ∀ (bs : List Block) (used : Nat) (first : Bool),
    (fill h bs used first).length ≤ bs.length ∧ (first = true → bs ≠ [] → (fill h bs used first).length < bs.length) := by
  intro bs
  induction bs with
  | nil => intro used first; simp [fill]
  | cons b rest ih =>
    intro used first
    cases first with
    | true =>
      simp only [fill, if_true]
      have := (ih (used + b.height) false).1
      exact ⟨by simp; omega, fun _ _ => by simp; omega⟩
    | false =>
      simp only [fill, Bool.false_eq_true, if_false]
      refine ⟨?_, fun h => by simp at h⟩
      split
      · simp
      · split
        · have := (ih (used + b.height) false).1; simp; omega
        · simp

theorem keepValid_append {α β ε : Type} (f : α → Except ε (List β)) (xs ys : List α) :
    keepValid f (xs ++ ys) = keepValid f xs ++ keepValid f ys := by
  induction xs with
  | nil => simp [keepValid]
  | cons x xs ih =>
    simp only [List.cons_append, keepValid]
    cases f x <;> simp [ih]

end WR.C01
