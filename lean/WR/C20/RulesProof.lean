/-
  C20 — rule level: an at-rule whose prelude is a sequence of atoms survives
  serialize → tokenize → consume-an-at-rule (block-less form).
-/
import WR.C20.Adjacent
import WR.C20.Rules
import WR.C06.ParserLemmas
namespace WR.C20
open WR.C06 List WR.Gen.C20Pairs
set_option linter.unusedSimpArgs false

theorem semi_step (total : Nat) (rest : Str) :
    step Quirks.spec total (';' :: rest) = .leaf [Tok.lit (total - (';' :: rest).length) [';']] rest := by
  rw [step_punct total ';' _ (by decide) (by decide) (by decide) (by decide)
    (by simp [startsIdent, isNameStart, isLetter]) (by decide) (by decide) (by decide)]
  simp [stepPunct, consumeDelim]

theorem seq_atoms (ts : List Tok) (txt : Str) (h : Seq badPairs ts txt) : ∀ t ∈ ts, ∃ txt', Atom t txt' := by
  induction h with
  | nil => intro t ht; cases ht
  | one t txt ha => intro t' ht; simp at ht; subst ht; exact ⟨txt, ha⟩
  | cons t txt t2 ts rest ha hs hw ih =>
    intro t' ht
    simp only [List.mem_cons] at ht
    rcases ht with rfl | ht
    · exact ⟨txt, ha⟩
    · exact ih t' (by simpa using ht)

theorem mem_strip (ts : List Tok) : ∀ t' ∈ strip ts, ∃ t ∈ ts, t' = stripTok t := by
  induction ts with
  | nil => intro t' h; simp [strip] at h
  | cons a as ih =>
    intro t' h
    cases a
    case comment p v =>
      simp only [strip] at h
      obtain ⟨t, ht, he⟩ := ih t' h
      exact ⟨t, by simp [ht], he⟩
    all_goals
      simp only [strip, List.mem_cons] at h
      rcases h with rfl | h
      · exact ⟨_, by simp, rfl⟩
      · obtain ⟨t, ht, he⟩ := ih t' h
        exact ⟨t, by simp [ht], he⟩

theorem atom_not_semi_curly (t : Tok) (txt : Str) (h : Atom t txt) :
    isSemi (stripTok t) = false ∧ isCurly (stripTok t) = false := by
  cases h <;> simp [stripTok, isSemi, isLit, isCurly]

/-- P2 `atrule_roundtrip_partial`: for EVERY block-less at-rule whose keyword and prelude form a
sequence of atoms (any keyword, any identifiers / numbers / urls / strings / hashes / white space in the
prelude, adjacent in any order), the rule serializer writes the sequence text followed by `;`, that
text tokenizes back to the keyword, the prelude and a `;`, and consuming an at-rule from those
tokens gives the same keyword, the same prelude and no block, leaving nothing -/
theorem atrule_rt (kw : Str) (pre : List Tok) (txt : Str)
    (h : Seq badPairs (Tok.atkw 0 kw :: pre) txt) :
    serCompound badPairs (.atrule 0 kw pre none) = some (txt ++ [';']) ∧
    strip (tokenizePre Quirks.spec (txt ++ [';'])) = Tok.atkw 0 kw :: (strip pre ++ [Tok.lit 0 [';']]) ∧
    consumeAtRule 0 kw (strip pre ++ [Tok.lit 0 [';']]) = (.atrule 0 kw (strip pre) none, []) := by
  refine ⟨?_, ?_, ?_⟩
  · have hser := (roundtrip_adjacent _ txt h).1
    simp only [serialize] at hser
    simp [serCompound, hser]
  · have ht := seq_tokenize_tail _ txt h [';'] (Or.inr ⟨[], rfl⟩) (txt ++ [';']).length
      ((txt ++ [';']).length + 1) (Nat.lt_succ_self _)
    unfold tokenizePre
    rw [ht]
    rw [consumeList_leaf _ _ [';'] _ [] (semi_step _ []) (by simp)]
    simp [consumeList_nil, strip, stripTok]
  · have hp : ∀ t ∈ strip pre, isSemi t = false ∧ isCurly t = false := by
      intro t' ht'
      obtain ⟨t, ht, he⟩ := mem_strip pre t' ht'
      obtain ⟨txt', ha⟩ := seq_atoms _ txt h t (by simp [ht])
      rw [he]; exact atom_not_semi_curly t txt' ha
    simp [consumeAtRule, atRuleBody_semi (strip pre) [] (Tok.lit 0 [';']) rfl hp]

end WR.C20
