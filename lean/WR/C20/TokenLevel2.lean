/-
  C20 — token-level round trips of at-keywords, hashes (value and id flag) and function names.
-/
import WR.C20.Partial
namespace WR.C20
open WR.C06 List
set_option linter.unusedSimpArgs false

/-- common prefix of `step` for a token that starts with a punctuation character -/
theorem step_punct (total : Nat) (c : Char) (cs : Str) (h1 : isWs c = false) (h2 : c ≠ 'u') (h3 : c ≠ 'U')
    (h4 : c ≠ '-') (h5 : startsIdent (c :: cs) = false) (h6 : c ≠ '+') (h7 : c ≠ '.') (h8 : isDigit c = false) :
    step Quirks.spec total (c :: cs) = stepPunct Quirks.spec (total - (c :: cs).length) c cs := by
  unfold step
  simp only []
  rw [if_neg (by simp [h1]), startsURange_head c cs h2 h3, take3_head c cs h4]
  simp only [Bool.false_eq_true, if_false]
  rw [if_neg (by simp [h5]), consumeNumber_head c cs h6 h4 h7 h8]

/-- P1 (at-keywords, token level) -/
theorem atkw_step (total : Nat) (s t r : Str) (hs : serializeIdentifier s = some t) (hr : stopsName r) :
    step Quirks.spec total ('@' :: t ++ r) = .leaf [Tok.atkw (total - ('@' :: t ++ r).length) s] r := by
  obtain ⟨h1, h2⟩ := ident_rt s t r hs hr
  simp only [List.cons_append]
  rw [step_punct total '@' (t ++ r) (by decide) (by decide) (by decide) (by decide)
    (by simp [startsIdent, isNameStart, isLetter]) (by decide) (by decide) (by decide)]
  unfold stepPunct
  rw [if_pos rfl, if_pos h1]
  simp only [h2 _ (Nat.le_refl _)]

theorem escName_digit (d : Char) (h : isDigit d = true) : escName d = [d] := by
  simp [escName, h]

theorem digit_not_nameStart (d : Char) (hd : isDigit d = true) :
    isNameStart d = false ∧ d ≠ '-' ∧ d ≠ '\\' := by
  have hr : 48 ≤ d.toNat ∧ d.toNat ≤ 57 := by simpa [isDigit, char_le_iff] using hd
  refine ⟨?_, ?_, ?_⟩
  · have h1 : isLetter d = false := by
      simp [isLetter, char_le_iff]; omega
    have h2 : d ≠ '_' := by intro h; subst h; simp at hr
    simp [isNameStart, h1, h2]; omega
  · intro h; subst h; simp at hr
  · intro h; subst h; simp at hr

theorem nonId_not_ident (v r : Str) (hv : NonIdValue v) (hr : stopsName r) :
    startsIdent (serializeName v ++ r) = false := by
  rcases hv with rfl | ⟨d, rest, rfl, hd⟩ | ⟨d, rest, rfl, hd⟩
  · have e0 : serializeName ['-'] = ['-'] := by decide
    have e : serializeName ['-'] ++ r = '-' :: r := by rw [e0]; rfl
    rw [e]
    cases r with
    | nil => decide
    | cons c r' =>
      obtain ⟨h1, h2⟩ := hr
      have hns : isNameStart c = false := by
        simp [isNameChar] at h1; exact h1.1.1
      have hd : c ≠ '-' := by
        intro h; subst h; simp [isNameChar] at h1
      have hv : (c = '\\' → validEscTail r' = false) := by
        intro hc; cases hv : validEscTail r' with
        | false => rfl
        | true => exact absurd ⟨hc, hv⟩ h2
      have : isNameStart '-' = false := by decide
      by_cases hc : c = '\\'
      · subst hc; simp [startsIdent, this, hns, hv rfl]
      · simp [startsIdent, this, hns, hd, hc]
  · obtain ⟨g1, g2, g3⟩ := digit_not_nameStart d hd
    have e : serializeName (d :: rest) ++ r = d :: (serializeName rest ++ r) := by
      simp [serializeName, escName_digit d hd]
    rw [e]; simp [startsIdent, g1, g2, g3]
  · obtain ⟨g1, g2, g3⟩ := digit_not_nameStart d hd
    have e0 : escName '-' = ['-'] := by decide
    have e : serializeName ('-' :: d :: rest) ++ r = '-' :: d :: (serializeName rest ++ r) := by
      simp [serializeName, escName_digit d hd, e0]
    have : isNameStart '-' = false := by decide
    rw [e]; simp [startsIdent, this, g1, g2, g3]

theorem startsIdent_hashable (d : Char) (ds : Str) (h : startsIdent (d :: ds) = true) :
    (isNameChar d || (d = '\\' && validEscTail ds)) = true := by
  simp only [startsIdent] at h
  split at h
  · rename_i hn; simp [isNameChar, hn]
  · split at h
    · rename_i hd; subst hd; simp [isNameChar]
    · split at h
      · rename_i hb; subst hb; simp [h]
      · cases h

theorem hash_punct (total : Nat) (cs : Str) :
    step Quirks.spec total ('#' :: cs) = stepPunct Quirks.spec (total - ('#' :: cs).length) '#' cs :=
  step_punct total '#' cs (by decide) (by decide) (by decide) (by decide)
    (by simp [startsIdent, isNameStart, isLetter]) (by decide) (by decide) (by decide)

/-- P1 (hashes, token level): the value AND the id flag survive.  For an id-type hash the value is
written as an identifier (first code point escaped when needed: `#\31 a`, `#-\32 x`, `#\-`); for an
unrestricted hash (lone `-`, leading digit, `-`digit — the only values it can have) as a name. -/
theorem hash_step (total : Nat) (v t r : Str) (isId : Bool)
    (ht : (if isId then serializeIdentifier v else some (serializeName v)) = some t)
    (hv : isId = false → NonIdValue v) (hr : stopsName r) :
    step Quirks.spec total ('#' :: t ++ r) = .leaf [Tok.hash (total - ('#' :: t ++ r).length) v isId] r := by
  simp only [List.cons_append]
  rw [hash_punct]
  cases isId with
  | true =>
    simp only [if_true] at ht
    obtain ⟨h1, h2⟩ := ident_rt v t r ht hr
    have h2' := h2 _ (Nat.le_refl _)
    generalize hx : t ++ r = inp at *
    cases inp with
    | nil => simp [startsIdent] at h1
    | cons d ds =>
      unfold stepPunct
      rw [if_neg (by decide), if_pos rfl]
      simp only [startsIdent_hashable d ds h1, if_true, h2', h1]
  | false =>
    simp only [Bool.false_eq_true, if_false, Option.some.injEq] at ht
    subst ht
    have hnv := hv rfl
    have h1 := nonId_not_ident v r hnv hr
    have h2' := name_rt v r hr _ (Nat.le_refl _)
    have hne : ∃ d ds, serializeName v ++ r = d :: ds ∧ isNameChar d = true := by
      rcases hnv with rfl | ⟨d, rest, rfl, hd⟩ | ⟨d, rest, rfl, hd⟩
      · exact ⟨'-', r, by simp [serializeName, escName, isLetter, isDigit], by decide⟩
      · exact ⟨d, serializeName rest ++ r, by simp [serializeName, escName_digit d hd], by simp [isNameChar, hd]⟩
      · exact ⟨'-', _, by simp [serializeName, escName, isLetter, isDigit]; rfl, by decide⟩
    obtain ⟨d, ds, hx, hd⟩ := hne
    rw [hx] at h1 h2' ⊢
    unfold stepPunct
    rw [if_neg (by decide), if_pos rfl]
    simp only [hd, Bool.true_or, if_true, h2', h1]

/-- P1 (function names, token level): identifier text + `(` opens a function with exactly that name
(unless the name is `url` and no quote follows, which is the url token) -/
theorem function_step (total : Nat) (s t rest : Str) (hs : serializeIdentifier s = some t)
    (hu : isUrlName s = false) :
    step Quirks.spec total (t ++ '(' :: rest) = .openF s rest := by
  have hr : stopsName ('(' :: rest) := ⟨by decide, by simp⟩
  have hsafe : SafeNext ('(' :: rest) := by
    intro c r' h; cases h; exact ⟨by decide, by decide⟩
  obtain ⟨h1, h2⟩ := ident_rt s t ('(' :: rest) hs hr
  have h2' := h2 _ (Nat.le_refl _)
  have hur := ident_no_urange s t ('(' :: rest) hs hsafe
  have hcdc := ident_no_cdc s t ('(' :: rest) hs hsafe
  generalize hx : t ++ '(' :: rest = inp at *
  cases inp with
  | nil => simp [startsIdent] at h1
  | cons h tl =>
    have hws := startsIdent_not_ws h tl h1
    unfold step
    simp only []
    rw [if_neg (by simp [hws]), hur, hcdc]
    simp only [Bool.false_eq_true, if_false]
    rw [if_pos h1]
    unfold consumeIdentLike
    simp only [h2', hu, Bool.false_and, Bool.false_eq_true, if_false]
end WR.C20
