/-
  C20 — model of `/repo/css/parser/serialize.go` over the token type of C06 (WR/C06/Tokenizer.lean).
  This model MIRRORS the code, quirks included (the round trip is judged on the implementation and
  on this model; WR.Props.C20 proves what holds and exhibits what does not):

    * identifier / name / string / url escaping           serializeIdentifier … serializeURL
    * dimension: a unit starting with `e`/`E` that is that letter alone or goes on with `-` or a digit
      gets its first letter written `\65 ` / `\45 ` (scientific-notation disambiguation)
    * separator `/**/` between two tokens whose serialization types are in the bad-pair table
      (the table is a parameter; the driver and the theorems use the one dumped from the code,
      WR.Gen.C20Pairs)
    * a `\` literal is followed by a newline unless white space starting with a newline follows
    * a function whose last-argument chain ends in an eof-in-string error gets no `)`
-/
import WR.C06.Tokenizer
namespace WR.C20
open WR.C06

def hexDigitU (n : Nat) : Char := if n < 10 then Char.ofNat (48 + n) else Char.ofNat (55 + n)

/-- `%X` -/
def hexUpper (n : Nat) : Str := (Nat.toDigits 16 n).map (fun c => if 'a' ≤ c ∧ c ≤ 'f' then Char.ofNat (c.toNat - 32) else c)

/-- one code point of a name -/
def escName (c : Char) : Str :=
  if isLetter c || c = '-' || c = '_' || isDigit c then [c]
  else if c = '\n' then ['\\', 'A', ' ']
  else if c = '\r' then ['\\', 'D', ' ']
  else if c = '\x0c' then ['\\', 'C', ' ']
  else if c.toNat > 0x7F then [c]
  else ['\\', c]

def serializeName (v : Str) : Str := v.flatMap escName

/-- first code point of an identifier (after an optional single `-`) -/
def escIdentStart (c : Char) : Str :=
  if isLetter c || c = '_' then [c]
  else if c = '\n' then ['\\', 'A', ' ']
  else if c = '\r' then ['\\', 'D', ' ']
  else if c = '\x0c' then ['\\', 'C', ' ']
  else if isDigit c then '\\' :: hexUpper c.toNat ++ [' ']
  else if c.toNat > 0x7F then [c]
  else ['\\', c]

/-- serializeIdentifier; `none` = the Go code indexes out of range (empty value) -/
def serializeIdentifier : Str → Option Str
  | [] => none
  | ['-'] => some ['\\', '-']
  | '-' :: '-' :: rest => some ('-' :: '-' :: serializeName rest)
  | '-' :: c :: rest => some ('-' :: escIdentStart c ++ serializeName rest)
  | c :: rest => some (escIdentStart c ++ serializeName rest)

def escString (c : Char) : Str :=
  if c = '"' then ['\\', '"']
  else if c = '\\' then ['\\', '\\']
  else if c = '\n' then ['\\', 'A', ' ']
  else if c = '\r' then ['\\', 'D', ' ']
  else if c = '\x0c' then ['\\', 'C', ' ']
  else [c]

def serializeString (v : Str) : Str := v.flatMap escString

def escUrl (c : Char) : Str :=
  if c = '\'' then ['\\', '\'']
  else if c = '"' then ['\\', '"']
  else if c = '\\' then ['\\', '\\']
  else if c = ' ' then ['\\', ' ']
  else if c = '\t' then ['\\', '9', ' ']
  else if c = '\n' then ['\\', 'A', ' ']
  else if c = '\r' then ['\\', 'D', ' ']
  else if c = '\x0c' then ['\\', 'C', ' ']
  else if c = '(' then ['\\', '(']
  else if c = ')' then ['\\', ')']
  else if c.toNat ≤ 0x1F ∨ c.toNat = 0x7F then '\\' :: hexUpper c.toNat ++ [' ']
  else [c]

def serializeUrl (v : Str) : Str := v.flatMap escUrl

/-- Kind.String(), with the literal's own text for literals -/
def serType : Tok → Str
  | .lit _ v => v
  | .error _ _ => "parse-error".toList
  | .comment _ _ => "comment".toList
  | .ws _ _ => "whitespace".toList
  | .ident _ _ => "ident".toList
  | .atkw _ _ => "at-keyword".toList
  | .hash _ _ _ => "hash".toList
  | .str _ _ _ => "string".toList
  | .url _ _ _ => "url".toList
  | .urange _ _ _ => "unicode-range".toList
  | .num _ _ _ => "number".toList
  | .pct _ _ _ => "percentage".toList
  | .dim _ _ _ _ => "dimension".toList
  | .block _ .paren _ => "() block".toList
  | .block _ .square _ => "[] block".toList
  | .block _ .curly _ => "{} block".toList
  | .func _ _ _ => "function".toList

/-- the code point after the leading `e`/`E` makes the unit read as scientific notation -/
def expLike : Str → Bool
  | [] => true
  | d :: _ => d = '-' || isDigit d

/-- the unit of a dimension -/
def serializeUnit : Str → Option Str
  | [] => none
  | c :: rest =>
    if (c = 'e' || c = 'E') && expLike rest then
      some ((if c = 'e' then ['\\', '6', '5', ' '] else ['\\', '4', '5', ' ']) ++ serializeName rest)
    else serializeIdentifier (c :: rest)

/-- does the last-argument chain of a function end in an eof-in-string error? -/
def endsInEofString : Nat → List Tok → Bool
  | 0, _ => false
  | f + 1, args =>
    match args.getLast? with
    | some (.error _ k) => k = 's'
    | some (.func _ _ a) => endsInEofString f a
    | _ => false

def Tok.depth : Tok → Nat
  | .block _ _ a => 1 + depthList a
  | .func _ _ a => 1 + depthList a
  | _ => 0
where depthList : List Tok → Nat
  | [] => 0
  | t :: ts => max (Tok.depth t) (depthList ts)

abbrev Pairs := List (Str × Str)

def isBadPair (tbl : Pairs) (a b : Str) : Bool := tbl.any (fun p => p.1 == a && p.2 == b)

/-- what is written between the previous token (type `prev`) and `t` -/
def separator (tbl : Pairs) (prev : Str) (t : Tok) : Str :=
  if isBadPair tbl prev (serType t) then ['/', '*', '*', '/']
  else if prev = ['\\'] then
    match t with
    | .ws _ ('\n' :: _) => []
    | _ => ['\n']
  else []

mutual
/-- node.serializeTo; `none` = the Go code panics (empty identifier, unserializable error kind) -/
def serTok (tbl : Pairs) : Tok → Option Str
  | .lit _ v => some v
  | .error _ k =>
    if k = 'b' then some "\"[bad string]\n".toList
    else if k = 'u' then some "url([bad url])".toList
    else if k = ')' ∨ k = ']' ∨ k = '}' then some [k]
    else if k = 's' ∨ k = 'e' then some []
    else none
  | .comment _ v => some (['/', '*'] ++ v ++ ['*', '/'])
  | .ws _ v => some v
  | .ident _ v => serializeIdentifier v
  | .atkw _ v => (serializeIdentifier v).map ('@' :: ·)
  | .hash _ v isId => if isId then (serializeIdentifier v).map ('#' :: ·) else some ('#' :: serializeName v)
  | .str _ v err => some ('"' :: serializeString v ++ (if err then [] else ['"']))
  | .url _ v err => some (['u', 'r', 'l', '('] ++ serializeUrl v ++ (if err then [] else [')']))
  | .urange _ s e => some (['U', '+'] ++ hexUpper s ++ (if e = s then [] else '-' :: hexUpper e))
  | .num _ r _ => some r
  | .pct _ r _ => some (r ++ ['%'])
  | .dim _ r _ u => (serializeUnit u).map (r ++ ·)
  | .block _ k a => (serList tbl [] a).map (fun s => k.opener :: s ++ [k.closer])
  | .func _ n a =>
    match serializeIdentifier n, serList tbl [] a with
    | some n', some s => some (n' ++ '(' :: s ++ (if endsInEofString (Tok.depth.depthList a + 1) a then [] else [')']))
    | _, _ => none
/-- serializeTo(nodes) with the previous serialization type -/
def serList (tbl : Pairs) (prev : Str) : List Tok → Option Str
  | [] => some []
  | t :: ts =>
    match serTok tbl t, serList tbl (serType t) ts with
    | some a, some b => some (separator tbl prev t ++ a ++ b)
    | _, _ => none
end

/-- parser.Serialize -/
def serialize (tbl : Pairs) (ts : List Tok) : Option Str := serList tbl [] ts

end WR.C20
