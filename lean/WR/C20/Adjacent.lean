/-
  C20 — `roundtrip_partial` for arbitrary adjacent leaf tokens: each adjacent pair either gets the
  separator `/**/` from the table of the running code or provably cannot fuse.
-/
import WR.C20.Numbers
namespace WR.C20
open WR.C06 List
set_option linter.unusedSimpArgs false

/-- text after which no atom can be absorbed: nothing, white space, or one of `"` `@` `#` `/` `;` -/
def SafeFollow (r : Str) : Prop :=
  r = [] ∨ ∃ c t, r = c :: t ∧ (isWs c = true ∨ c = '"' ∨ c = '@' ∨ c = '#' ∨ c = '/' ∨ c = ';')

theorem safe_facts (r : Str) (h : SafeFollow r) :
    stopsName r ∧ (∀ r', r ≠ '(' :: r') ∧ SafeNext r ∧ NumStop r ∧ startsIdent r = false ∧ (∀ t, r ≠ '%' :: t) := by
  rcases h with rfl | ⟨c, t, rfl, hc⟩
  · refine ⟨trivial, ?_, ?_, ⟨Or.inl rfl, ?_, by simp [takeExp]⟩, by simp [startsIdent], ?_⟩
    · intro r' h; cases h
    · intro c r' h; cases h
    · intro t h; cases h
    · intro t h; cases h
  · have key : isNameChar c = false ∧ c ≠ '\\' ∧ c ≠ '(' ∧ c ≠ '+' ∧ c ≠ '>' ∧ isDigit c = false ∧ c ≠ '.' ∧
        c ≠ 'e' ∧ c ≠ 'E' ∧ isNameStart c = false ∧ c ≠ '-' ∧ c ≠ '%' := by
      rcases hc with hc | rfl | rfl | rfl | rfl | rfl
      · simp [isWs] at hc
        rcases hc with (rfl | rfl) | rfl <;> decide
      all_goals decide
    obtain ⟨k1, k2, k3, k4, k5, k6, k7, k8, k9, k10, k11, k12⟩ := key
    refine ⟨⟨k1, fun h => k2 h.1⟩, ?_, ?_, ⟨Or.inr ⟨c, t, rfl, k6⟩, ?_, takeExp_not_e c t k8 k9⟩, ?_, ?_⟩
    · intro r' h; cases h; exact k3 rfl
    · intro c' r' h; cases h; exact ⟨k4, k5⟩
    · intro t' h; cases h; exact k7 rfl
    · simp [startsIdent, k10, k11, k2]
    · intro t' h; cases h; exact k12 rfl

/-- what may follow an atom: after white space anything but white space, after the others `SafeFollow` -/
def Fol (t : Tok) (r : Str) : Prop :=
  if isWsTok t = true then (r = [] ∨ ∃ c tl, r = c :: tl ∧ isWs c = false) else SafeFollow r

/-- atoms that end with an unambiguous delimiter: anything may follow -/
def freeTok : Tok → Bool
  | .str _ _ _ => true
  | .url _ _ _ => true
  | .pct _ _ _ => true
  | _ => false

theorem atom_step (total : Nat) (t : Tok) (txt r : Str) (h : Atom t txt) (hr : Fol t r ∨ freeTok t = true) :
    ∃ q, step Quirks.spec total (txt ++ r) = .leaf [Tok.setPos q t] r := by
  cases h with
  | ident p s t hs =>
    have hf : SafeFollow r := by
      rcases hr with h | h
      · simpa [Fol, isWsTok] using h
      · simp [freeTok] at h
    obtain ⟨h1, h2, h3, _⟩ := safe_facts r hf
    exact ⟨_, ident_step total s txt r hs h1 h2 (ident_no_urange s txt r hs h3) (ident_no_cdc s txt r hs h3)⟩
  | str p s =>
    refine ⟨total - ('"' :: serializeString s ++ '"' :: r).length, ?_⟩
    simpa [Tok.setPos] using string_step total s r
  | url p s h0 =>
    refine ⟨total - ('u' :: 'r' :: 'l' :: '(' :: (serializeUrl s ++ ')' :: r)).length, ?_⟩
    simpa [Tok.setPos] using url_step total s r h0
  | atkw p s t hs =>
    have hf : SafeFollow r := by
      rcases hr with h | h
      · simpa [Fol, isWsTok] using h
      · simp [freeTok] at h
    exact ⟨_, by simpa [Tok.setPos] using atkw_step total s t r hs (safe_facts r hf).1⟩
  | hashId p s t hs =>
    have hf : SafeFollow r := by
      rcases hr with h | h
      · simpa [Fol, isWsTok] using h
      · simp [freeTok] at h
    exact ⟨_, by simpa [Tok.setPos] using hash_step total s t r true (by simpa using hs) (by simp) (safe_facts r hf).1⟩
  | hashName p s hv =>
    have hf : SafeFollow r := by
      rcases hr with h | h
      · simpa [Fol, isWsTok] using h
      · simp [freeTok] at h
    exact ⟨_, by simpa [Tok.setPos] using hash_step total s (serializeName s) r false (by simp) (fun _ => hv) (safe_facts r hf).1⟩
  | num p rp f hn =>
    have hf : SafeFollow r := by
      rcases hr with h | h
      · simpa [Fol, isWsTok] using h
      · simp [freeTok] at h
    obtain ⟨_, _, _, g4, g5, g6⟩ := safe_facts r hf
    exact ⟨_, by simpa [Tok.setPos] using number_step total txt r f hn g4 g5 g6⟩
  | pct p rp f hn =>
    refine ⟨total - (rp ++ '%' :: r).length, ?_⟩
    simpa [Tok.setPos] using percentage_step total rp r f hn
  | dim p rp f u t hn hu =>
    have hf : SafeFollow r := by
      rcases hr with h | h
      · simpa [Fol, isWsTok] using h
      · simp [freeTok] at h
    refine ⟨total - (rp ++ (t ++ r)).length, ?_⟩
    simpa [Tok.setPos] using dimension_step total rp u t r f hn hu (safe_facts r hf).1
  | ws p w hw =>
    have hf : r = [] ∨ ∃ c tl, r = c :: tl ∧ isWs c = false := by
      rcases hr with h | h
      · simpa [Fol, isWsTok] using h
      · simp [freeTok] at h
    exact ⟨_, by simpa [Tok.setPos] using ws_step total txt r hw hf⟩

/-- atoms whose text starts with a code point after which nothing can be absorbed -/
def safeHeaded : Tok → Bool
  | .str _ _ _ => true
  | .atkw _ _ => true
  | .hash _ _ _ => true
  | .ws _ _ => true
  | _ => false

theorem number_text_head (r : Str) (f : Bool) (more : Str) (h : consumeNumber r = some (r, f, [])) :
    ∃ c tl, r ++ more = c :: tl ∧ isWs c = false := by
  obtain ⟨c, t, rfl, hshape⟩ := number_head r f [] h
  refine ⟨c, t ++ more, rfl, ?_⟩
  rcases hshape with hd | rfl | ⟨hs, _⟩
  · exact (digitOrDot_facts c (Or.inl hd)).1
  · decide
  · rcases hs with rfl | rfl <;> decide

theorem atom_head (t : Tok) (txt : Str) (h : Atom t txt) :
    ∃ c tl, txt = c :: tl ∧ (isWsTok t = false → isWs c = false) ∧
      (safeHeaded t = true → (isWs c = true ∨ c = '"' ∨ c = '@' ∨ c = '#' ∨ c = '/' ∨ c = ';')) := by
  cases h with
  | ident p s t hs =>
    obtain ⟨h1, _⟩ := ident_rt s txt [] hs trivial
    simp only [List.append_nil] at h1
    cases txt with
    | nil => simp [startsIdent] at h1
    | cons c tl => exact ⟨c, tl, rfl, fun _ => startsIdent_not_ws c tl h1, by simp [safeHeaded]⟩
  | str p s => exact ⟨'"', _, rfl, fun _ => by decide, fun _ => by simp⟩
  | url p s h0 => exact ⟨'u', _, rfl, fun _ => by decide, by simp [safeHeaded]⟩
  | atkw p s t hs => exact ⟨'@', _, rfl, fun _ => by decide, fun _ => by simp⟩
  | hashId p s t hs => exact ⟨'#', _, rfl, fun _ => by decide, fun _ => by simp⟩
  | hashName p s hv => exact ⟨'#', _, rfl, fun _ => by decide, fun _ => by simp⟩
  | num p r f hn =>
    obtain ⟨c, tl, he, hc⟩ := number_text_head txt f [] hn
    simp only [List.append_nil] at he
    exact ⟨c, tl, he, fun _ => hc, by simp [safeHeaded]⟩
  | pct p r f hn =>
    obtain ⟨c, tl, he, hc⟩ := number_text_head r f ['%'] hn
    exact ⟨c, tl, he, fun _ => hc, by simp [safeHeaded]⟩
  | dim p r f u t hn hu =>
    obtain ⟨c, tl, he, hc⟩ := number_text_head r f t hn
    exact ⟨c, tl, he, fun _ => hc, by simp [safeHeaded]⟩
  | ws p w hw =>
    obtain ⟨hne, hall⟩ := hw
    cases txt with
    | nil => exact absurd rfl hne
    | cons c tl => exact ⟨c, tl, rfl, by simp [isWsTok], fun _ => Or.inl (hall c (by simp))⟩

open WR.Gen.C20Pairs in
/-- every (name-like or numeric) × (identifier-, number- or url-headed) pair is in the table of the
running code -/
theorem risky_pairs :
    ∀ a ∈ (["ident".toList, "at-keyword".toList, "hash".toList, "dimension".toList, "number".toList] : List Str),
    ∀ b ∈ (["ident".toList, "url".toList, "number".toList, "percentage".toList, "dimension".toList] : List Str),
      isBadPair badPairs a b = true := by decide

macro "risky " a:str : tactic => `(tactic|
  (left; first
    | exact risky_pairs ($a).toList (by decide) "ident".toList (by decide)
    | exact risky_pairs ($a).toList (by decide) "url".toList (by decide)
    | exact risky_pairs ($a).toList (by decide) "number".toList (by decide)
    | exact risky_pairs ($a).toList (by decide) "percentage".toList (by decide)
    | exact risky_pairs ($a).toList (by decide) "dimension".toList (by decide)))

macro "safe2" : tactic => `(tactic| (right; right; right; exact ⟨rfl, rfl⟩))

open WR.Gen.C20Pairs in
/-- the heart of `roundtrip_partial`: for two adjacent atoms (not both white space), EITHER the table
of the running code puts a separator between them, OR the first one ends with an unambiguous
delimiter, OR the second one starts with a code point that cannot be absorbed -/
theorem pair_cases (t t2 : Tok) (txt txt2 : Str) (h : Atom t txt) (h2 : Atom t2 txt2)
    (hws : (isWsTok t && isWsTok t2) = false) :
    isBadPair badPairs (serType t) (serType t2) = true ∨ freeTok t = true ∨
      (isWsTok t = true ∧ isWsTok t2 = false) ∨ (isWsTok t = false ∧ safeHeaded t2 = true) := by
  cases h with
  | str p s => right; left; rfl
  | url p s h0 => right; left; rfl
  | pct p r f hn => right; left; rfl
  | ws p w hw =>
    right; right; left
    cases h2 <;> first | exact ⟨rfl, rfl⟩ | (simp [isWsTok] at hws)
  | ident p s t hs => cases h2 <;> first | safe2 | risky "ident"
  | atkw p s t hs => cases h2 <;> first | safe2 | risky "at-keyword"
  | hashId p s t hs => cases h2 <;> first | safe2 | risky "hash"
  | hashName p s hv => cases h2 <;> first | safe2 | risky "hash"
  | num p r f hn => cases h2 <;> first | safe2 | risky "number"
  | dim p r f u t hn hu => cases h2 <;> first | safe2 | risky "dimension"

theorem comment_step (total : Nat) (rest : Str) :
    step Quirks.spec total ('/' :: '*' :: '*' :: '/' :: rest)
      = .leaf [Tok.comment (total - ('/' :: '*' :: '*' :: '/' :: rest).length) []] rest := by
  rw [step_punct total '/' _ (by decide) (by decide) (by decide) (by decide)
    (by simp [startsIdent, isNameStart, isLetter]) (by decide) (by decide) (by decide)]
  simp [stepPunct, consumeComment]

/-- one leaf step of the component-value builder, with the same fuel on both sides -/
theorem consumeList_leaf (total f : Nat) (inp : Str) (ts : List Tok) (r : Str)
    (hs : step Quirks.spec total inp = .leaf ts r) (hf : inp.length < f) :
    consumeList Quirks.spec total f none inp
      = (ts ++ (consumeList Quirks.spec total f none r).1, (consumeList Quirks.spec total f none r).2) := by
  have hp := step_progress Quirks.spec total inp r (by simp [hs, Step.rest?])
  cases f with
  | zero => omega
  | succ f =>
    rw [consumeList, hs]
    simp only []
    rw [consumeList_fuel_succ Quirks.spec total f none r (by have := hp.2; omega)]

open WR.Gen.C20Pairs

theorem seq_head (t2 : Tok) (ts : List Tok) (rest : Str) (h : Seq badPairs (t2 :: ts) rest) :
    ∃ txt2 more, Atom t2 txt2 ∧ rest = txt2 ++ more := by
  cases h with
  | one t txt ha => exact ⟨rest, [], ha, by simp⟩
  | cons t txt t3 ts' rest' ha hs hw => exact ⟨txt, sepOf badPairs t2 t3 ++ rest', ha, by simp⟩

theorem fol_slash (t : Tok) (more : Str) : Fol t ('/' :: more) := by
  unfold Fol
  split
  · exact Or.inr ⟨'/', more, rfl, by decide⟩
  · exact Or.inr ⟨'/', more, rfl, by simp⟩

/-- what is written after an atom — separator included — can always be tokenized on its own -/
theorem fol_of_pair (t t2 : Tok) (txt txt2 more : Str) (h : Atom t txt) (h2 : Atom t2 txt2)
    (hws : (isWsTok t && isWsTok t2) = false) :
    Fol t (sepOf badPairs t t2 ++ (txt2 ++ more)) ∨ freeTok t = true := by
  obtain ⟨c, tl, he, hc1, hc2⟩ := atom_head t2 txt2 h2
  by_cases hb : isBadPair badPairs (serType t) (serType t2) = true
  · left; simp only [sepOf, hb, if_true, List.cons_append]; exact fol_slash t _
  · have hsep : sepOf badPairs t t2 = [] := by simp [sepOf, hb]
    rw [hsep, List.nil_append, he]
    rcases pair_cases t t2 txt txt2 h h2 hws with hp | hp | ⟨w1, w2⟩ | ⟨w1, w2⟩
    · exact absurd hp hb
    · exact Or.inr hp
    · left; simp only [Fol, w1, if_true, List.cons_append]
      exact Or.inr ⟨c, _, rfl, hc1 w2⟩
    · left; simp only [Fol, w1, Bool.false_eq_true, if_false, List.cons_append]
      exact Or.inr ⟨c, _, rfl, hc2 w2⟩

theorem atom_strip (t : Tok) (txt : Str) (h : Atom t txt) (q : Nat) (X : List Tok) :
    strip (Tok.setPos q t :: X) = stripTok t :: strip X ∧ strip (t :: X) = stripTok t :: strip X := by
  cases h <;> simp [Tok.setPos, strip, stripTok]

theorem atom_nonempty (t : Tok) (txt : Str) (h : Atom t txt) : txt ≠ [] := by
  obtain ⟨c, tl, he, _⟩ := atom_head t txt h
  rw [he]; simp

theorem consumeList_nil (total f : Nat) : consumeList Quirks.spec total (f + 1) none [] = ([], []) := by
  simp [consumeList, step]

/-- what may follow a whole sequence: nothing, or a `;` -/
def TailOk (tail : Str) : Prop := tail = [] ∨ ∃ tl, tail = ';' :: tl

theorem tail_fol (t : Tok) (tail : Str) (h : TailOk tail) : Fol t tail := by
  unfold Fol
  rcases h with rfl | ⟨tl, rfl⟩
  · split <;> exact Or.inl rfl
  · split
    · exact Or.inr ⟨';', tl, rfl, by decide⟩
    · exact Or.inr ⟨';', tl, rfl, by simp⟩

/-- tokenizing the text of a sequence of atoms, followed by nothing or by `;…`, gives the sequence
back (positions aside) and goes on with what follows -/
theorem seq_tokenize_tail (ts : List Tok) (txt : Str) (h : Seq badPairs ts txt) :
    ∀ tail, TailOk tail → ∀ total f, (txt ++ tail).length < f →
      strip (consumeList Quirks.spec total f none (txt ++ tail)).1
        = strip ts ++ strip (consumeList Quirks.spec total f none tail).1 := by
  induction h with
  | nil => intro tail _ total f hf; simp [strip]
  | one t txt ha =>
    intro tail ht total f hf
    obtain ⟨q, hq⟩ := atom_step total t txt tail ha (Or.inl (tail_fol t tail ht))
    rw [consumeList_leaf total f _ _ tail hq hf]
    simp only [List.cons_append, List.nil_append]
    rw [(atom_strip t txt ha q _).1, (atom_strip t txt ha 0 []).2]
    simp [strip]
  | cons t txt t2 ts rest ha hs hw ih =>
    intro tail ht total f hf
    obtain ⟨txt2, more, ha2, hrest⟩ := seq_head t2 ts rest hs
    have hfol := fol_of_pair t t2 txt txt2 (more ++ tail) ha ha2 hw
    have hre : txt2 ++ (more ++ tail) = rest ++ tail := by rw [hrest]; simp
    rw [hre] at hfol
    obtain ⟨q, hq⟩ := atom_step total t txt (sepOf badPairs t t2 ++ (rest ++ tail)) ha hfol
    simp only [List.append_assoc] at hf ⊢
    rw [consumeList_leaf total f _ _ _ hq hf]
    simp only [List.cons_append, List.nil_append]
    rw [(atom_strip t txt ha q _).1, (atom_strip t txt ha 0 _).2]
    have hlen : (sepOf badPairs t t2 ++ (rest ++ tail)).length < f := by
      have := atom_nonempty t txt ha
      cases txt with
      | nil => exact absurd rfl this
      | cons c tl => simp only [List.length_append, List.length_cons] at hf ⊢; omega
    by_cases hb : isBadPair badPairs (serType t) (serType t2) = true
    · have hsep : sepOf badPairs t t2 = ['/', '*', '*', '/'] := by simp [sepOf, hb]
      rw [hsep] at hlen ⊢
      simp only [List.cons_append, List.nil_append] at hlen ⊢
      rw [consumeList_leaf total f _ _ _ (comment_step total (rest ++ tail)) hlen]
      simp only [List.cons_append, List.nil_append]
      have := ih tail ht total f (by simp only [List.length_cons] at hlen; omega)
      simp [strip, this]
    · have hsep : sepOf badPairs t t2 = [] := by simp [sepOf, hb]
      rw [hsep] at hlen ⊢
      simp only [List.nil_append] at hlen ⊢
      rw [ih tail ht total f hlen]
      simp

/-- tokenizing the text of a sequence of atoms gives the sequence back (positions aside) -/
theorem seq_tokenize (ts : List Tok) (txt : Str) (h : Seq badPairs ts txt) :
    ∀ total f, txt.length < f → strip (consumeList Quirks.spec total f none txt).1 = strip ts := by
  intro total f hf
  have := seq_tokenize_tail ts txt h [] (Or.inl rfl) total f (by simpa using hf)
  cases f with
  | zero => omega
  | succ f => simpa [consumeList_nil, strip] using this

theorem atom_ser (t : Tok) (txt : Str) (h : Atom t txt) :
    serTok badPairs t = some txt ∧ serType t ≠ ['\\'] := by
  cases h with
  | ident p s t hs => exact ⟨hs, by show ("ident".toList : Str) ≠ _; decide⟩
  | str p s => exact ⟨by simp [serTok], by show ("string".toList : Str) ≠ _; decide⟩
  | url p s h0 => exact ⟨by simp [serTok], by show ("url".toList : Str) ≠ _; decide⟩
  | atkw p s t hs => exact ⟨by simp [serTok, hs], by show ("at-keyword".toList : Str) ≠ _; decide⟩
  | hashId p s t hs => exact ⟨by simp [serTok, hs], by show ("hash".toList : Str) ≠ _; decide⟩
  | hashName p s hv => exact ⟨by simp [serTok], by show ("hash".toList : Str) ≠ _; decide⟩
  | num p r f hn => exact ⟨by simp [serTok], by show ("number".toList : Str) ≠ _; decide⟩
  | pct p r f hn => exact ⟨by simp [serTok], by show ("percentage".toList : Str) ≠ _; decide⟩
  | dim p r f u t hn hu => exact ⟨by simp [serTok, hu], by show ("dimension".toList : Str) ≠ _; decide⟩
  | ws p w hw => exact ⟨by simp [serTok], by show ("whitespace".toList : Str) ≠ _; decide⟩

theorem separator_eq_sepOf (t t2 : Tok) (txt : Str) (h : Atom t txt) :
    separator badPairs (serType t) t2 = sepOf badPairs t t2 := by
  have := (atom_ser t txt h).2
  unfold separator sepOf
  split
  · rfl
  · simp [this]

/-- the serializer writes a sequence of atoms as the texts of the atoms with the separators of the
table between them -/
theorem seq_serialize (ts : List Tok) (txt : Str) (h : Seq badPairs ts txt) :
    ∀ prev, serList badPairs prev ts
      = some ((match ts with | [] => [] | t :: _ => separator badPairs prev t) ++ txt) := by
  induction h with
  | nil => intro prev; simp [serList]
  | one t txt ha =>
    intro prev
    simp [serList, (atom_ser t txt ha).1]
  | cons t txt t2 ts rest ha hs hw ih =>
    intro prev
    rw [serList, (atom_ser t txt ha).1, ih (serType t)]
    simp only [separator_eq_sepOf t t2 txt ha, List.append_assoc]

/-- P2 `roundtrip_partial` (adjacent tokens): for EVERY sequence of identifiers, strings, urls,
at-keywords, hashes, numbers, percentages, dimensions and white space in any order — two white-space
tokens in a row excepted — the serializer with the table of the running code writes a text that
tokenizes back to the same tokens, positions and the inserted `/**/` aside -/
theorem roundtrip_adjacent (ts : List Tok) (txt : Str) (h : Seq badPairs ts txt) :
    serialize badPairs ts = some txt ∧ strip (tokenizePre Quirks.spec txt) = strip ts := by
  constructor
  · rw [serialize, seq_serialize ts txt h []]
    cases ts with
    | nil => rfl
    | cons t ts' =>
      have : separator badPairs [] t = [] := by
        have h1 : isBadPair badPairs [] (serType t) = false := no_pair_ws _ _ (Or.inl rfl)
        simp [separator, h1]
      simp [this]
  · exact seq_tokenize ts txt h _ _ (Nat.lt_succ_self _)
end WR.C20
