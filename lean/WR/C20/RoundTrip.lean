/-
  C20 — per-token-class round trips for every string: hex escapes, identifiers, urls, units.
-/
import WR.C20.Lemmas
namespace WR.C20
open WR.C06 List
set_option linter.unusedSimpArgs false

def hexFold (acc : Nat) (ds : Str) : Nat := ds.foldl (fun a c => a * 16 + hexVal c) acc

theorem takeHex_digits (ds : Str) (k acc : Nat) (w : Char) (rest : Str)
    (hd : ∀ c ∈ ds, isHex c = true) (hk : ds.length ≤ k) (hw : isHex w = false) :
    takeHex k acc (ds ++ w :: rest) = (hexFold acc ds, ds.length, w :: rest) := by
  induction ds generalizing k acc with
  | nil => cases k <;> simp [takeHex, hexFold, hw]
  | cons d ds ih =>
    cases k with
    | zero => simp at hk
    | succ k =>
      have h1 := hd d (by simp)
      have := ih k (acc * 16 + hexVal d) (fun c hc => hd c (by simp [hc])) (by simp at hk; omega)
      simp [takeHex, h1, this, hexFold]

/-- a hex escape (1–6 digits) terminated by a space is read back as its code point, the space consumed -/
theorem hexEsc_general (d : Char) (ds rest : Str) (hd : ∀ c ∈ d :: ds, isHex c = true) (hl : (d :: ds).length ≤ 6) :
    consumeEscape ((d :: ds) ++ ' ' :: rest) = (escChar (hexFold 0 (d :: ds)), rest) := by
  have h1 := hd d (by simp)
  have ht := takeHex_digits (d :: ds) 6 0 ' ' rest hd hl (by decide)
  simp only [List.cons_append] at ht ⊢
  simp [consumeEscape, h1, ht, isWs]

def hexOk (n : Nat) : Bool :=
  (hexUpper n).all isHex && (hexUpper n).length ≤ 6 && !(hexUpper n).isEmpty && hexFold 0 (hexUpper n) == n

theorem hexOk_small : ∀ n, n < 128 → hexOk n = true := by decide

/-- `\` + upper-case hex of an ASCII code point other than NUL + space is read back as that code point -/
theorem hexEsc_char (c : Char) (rest : Str) (h0 : c.toNat ≠ 0) (h1 : c.toNat < 128) :
    consumeEscape (hexUpper c.toNat ++ ' ' :: rest) = (c, rest) := by
  have hok := hexOk_small c.toNat h1
  simp only [hexOk, Bool.and_eq_true, List.all_eq_true, decide_eq_true_eq, Bool.not_eq_true',
    beq_iff_eq] at hok
  obtain ⟨⟨⟨hall, hlen⟩, hne⟩, hfold⟩ := hok
  cases hds : hexUpper c.toNat with
  | nil => simp [hds] at hne
  | cons d ds =>
    rw [hds] at hall hlen hfold
    rw [hexEsc_general d ds rest hall hlen, hfold]
    have : escChar c.toNat = c := by
      unfold escChar
      rw [if_neg (by omega)]
      exact Char.ofNat_toNat c
    rw [this]

theorem hexUpper_head_hex (c : Char) (h1 : c.toNat < 128) :
    ∃ d ds, hexUpper c.toNat = d :: ds ∧ isHex d = true := by
  have hok := hexOk_small c.toNat h1
  simp only [hexOk, Bool.and_eq_true, List.all_eq_true, decide_eq_true_eq, Bool.not_eq_true',
    beq_iff_eq] at hok
  obtain ⟨⟨⟨hall, hlen⟩, hne⟩, hfold⟩ := hok
  cases hds : hexUpper c.toNat with
  | nil => simp [hds] at hne
  | cons d ds => exact ⟨d, ds, rfl, hall d (by simp [hds])⟩

theorem validEscTail_cons (c : Char) (rest : Str) (h : c ≠ '\n') : validEscTail (c :: rest) = true := by
  unfold validEscTail; split <;> simp_all

theorem cn_escape (f : Nat) (tail rest' : Str) (d : Char) (hv : validEscTail tail = true)
    (he : consumeEscape tail = (d, rest')) :
    consumeName (f + 1) ('\\' :: tail) = (d :: (consumeName f rest').1, (consumeName f rest').2) := by
  have hbs : isNameChar '\\' = false := by decide
  simp [consumeName, hbs, hv, he]

theorem digit_range (c : Char) (h : isDigit c = true) : c.toNat ≠ 0 ∧ c.toNat < 128 := by
  simp [isDigit, char_le_iff] at h
  omega

/-- the first code point of an identifier is written either as itself (a name-start code point) or as
an escape that reads back as it -/
theorem escIdentStart_shape (c : Char) :
    (escIdentStart c = [c] ∧ isNameStart c = true) ∨
    (∃ tail, escIdentStart c = '\\' :: tail ∧
      ∀ rest, validEscTail (tail ++ rest) = true ∧ consumeEscape (tail ++ rest) = (c, rest)) := by
  by_cases h1 : (isLetter c || c = '_') = true
  · left
    refine ⟨by simp only [escIdentStart, h1, if_true], ?_⟩
    simp [isNameStart] at *; grind
  by_cases h6 : c.toNat > 0x7F
  · left
    have n2 : c ≠ '\n' := by intro h; subst h; simp at h6
    have n3 : c ≠ '\r' := by intro h; subst h; simp at h6
    have n4 : c ≠ '\x0c' := by intro h; subst h; simp at h6
    have n5 : isDigit c = false := by
      cases hd : isDigit c with
      | false => rfl
      | true => have := digit_range c hd; omega
    refine ⟨by simp only [escIdentStart, h1, n2, n3, n4, n5, h6]; simp, ?_⟩
    simp [isNameStart, h6]
  right
  by_cases h2 : c = '\n'
  · subst h2; exact ⟨['A', ' '], by decide, fun rest => ⟨by simp [validEscTail], hexEsc_A rest⟩⟩
  by_cases h3 : c = '\r'
  · subst h3; exact ⟨['D', ' '], by decide, fun rest => ⟨by simp [validEscTail], hexEsc_D rest⟩⟩
  by_cases h4 : c = '\x0c'
  · subst h4; exact ⟨['C', ' '], by decide, fun rest => ⟨by simp [validEscTail], hexEsc_C rest⟩⟩
  by_cases h5 : isDigit c = true
  · have hr := digit_range c h5
    obtain ⟨d, ds, hds, hd⟩ := hexUpper_head_hex c hr.2
    refine ⟨hexUpper c.toNat ++ [' '], by simp only [escIdentStart, h1, h2, h3, h4, h5]; simp, fun rest => ?_⟩
    constructor
    · rw [hds]; exact validEscTail_cons d _ (by intro h; subst h; simp [isHex, isDigit] at hd)
    · simpa using hexEsc_char c rest hr.1 hr.2
  · refine ⟨[c], by simp only [escIdentStart, h1, h2, h3, h4, h5, h6]; simp, fun rest => ?_⟩
    simp only [Bool.or_eq_true, decide_eq_true_eq, not_or] at h1
    have hhex := not_hex_of c (by simpa using h1.1) (by simpa using h5)
    exact ⟨validEscTail_cons c rest h2, by simp [consumeEscape, hhex]⟩

theorem name_rt (s r : Str) (hr : stopsName r) (f : Nat) (hf : (serializeName s ++ r).length ≤ f) :
    consumeName f (serializeName s ++ r) = (s, r) := by
  induction s generalizing f with
  | nil => simpa [serializeName] using consumeName_stop f r hr
  | cons c cs ih =>
    have hs : serializeName (c :: cs) ++ r = escName c ++ (serializeName cs ++ r) := by
      simp [serializeName]
    rw [hs] at hf ⊢
    obtain ⟨f', hf', heq⟩ := consumeName_escName f c (serializeName cs ++ r) hf
    rw [heq, ih f' hf']

/-- first code point + name tail, after `pre` name code points already consumed -/
theorem identStart_rt (c : Char) (rest r : Str) (hr : stopsName r) (f : Nat)
    (hf : (escIdentStart c ++ serializeName rest ++ r).length ≤ f) :
    consumeName f (escIdentStart c ++ serializeName rest ++ r) = (c :: rest, r) := by
  rcases escIdentStart_shape c with ⟨he, hn⟩ | ⟨tail, he, hrest⟩
  · rw [he] at hf ⊢
    cases f with
    | zero => simp at hf
    | succ f =>
      have hnc : isNameChar c = true := by simp [isNameChar, hn]
      simp only [List.cons_append, List.nil_append, List.append_assoc]
      rw [cn_plain f c _ hnc, name_rt rest r hr f (by simp only [List.length_append, List.length_cons, List.length_nil] at hf ⊢; omega)]
  · rw [he] at hf ⊢
    cases f with
    | zero => simp at hf
    | succ f =>
      obtain ⟨hv, hc⟩ := hrest (serializeName rest ++ r)
      simp only [List.cons_append, List.append_assoc] at hf ⊢
      rw [cn_escape f _ _ c hv hc, name_rt rest r hr f (by simp only [List.length_append, List.length_cons, List.length_nil] at hf ⊢; omega)]

theorem startsIdent_identStart (c : Char) (rest : Str) :
    startsIdent (escIdentStart c ++ rest) = true ∧ startsIdent ('-' :: (escIdentStart c ++ rest)) = true := by
  rcases escIdentStart_shape c with ⟨he, hn⟩ | ⟨tail, he, hrest⟩
  · rw [he]; simp [startsIdent, hn]
  · rw [he]
    have hv := (hrest rest).1
    have h1 : isNameStart '\\' = false := by decide
    have h2 : isNameStart '-' = false := by decide
    simp [startsIdent, hv, h1, h2]

/-- P1 (identifiers): for EVERY non-empty string `s`, the text written for the identifier `s` starts
an identifier and is consumed as exactly `s`, leaving `r` (which cannot continue a name) -/
theorem ident_rt (s t r : Str) (hs : serializeIdentifier s = some t) (hr : stopsName r) :
    startsIdent (t ++ r) = true ∧ ∀ f, (t ++ r).length ≤ f → consumeName f (t ++ r) = (s, r) := by
  unfold serializeIdentifier at hs
  split at hs
  · cases hs
  · cases hs
    refine ⟨by simp [startsIdent, validEscTail, isNameStart, isLetter], fun f hf => ?_⟩
    cases f with
    | zero => simp at hf
    | succ f =>
      have : consumeEscape ('-' :: r) = ('-', r) := by simp [consumeEscape, isHex, isDigit]
      simp only [List.cons_append, List.nil_append]
      rw [cn_escape f _ _ '-' (validEscTail_cons '-' r (by decide)) this, consumeName_stop f r hr]
  · rename_i rest
    cases hs
    refine ⟨by simp [startsIdent, isNameStart, isLetter], fun f hf => ?_⟩
    have hd : isNameChar '-' = true := by decide
    match f, hf with
    | f + 2, hf =>
      simp only [List.cons_append]
      rw [cn_plain (f + 1) '-' _ hd, cn_plain f '-' _ hd, name_rt rest r hr f (by simp only [List.length_append, List.length_cons, List.length_nil] at hf ⊢; omega)]
    | 0, hf => simp at hf
    | 1, hf => simp at hf
  · rename_i c rest hne
    cases hs
    refine ⟨by simpa using (startsIdent_identStart c (serializeName rest ++ r)).2, fun f hf => ?_⟩
    have hd : isNameChar '-' = true := by decide
    cases f with
    | zero => simp at hf
    | succ f =>
      simp only [List.cons_append, List.append_assoc] at hf ⊢
      rw [cn_plain f '-' _ hd]
      have := identStart_rt c rest r hr f (by simp only [List.length_append, List.length_cons, List.length_nil] at hf ⊢; omega)
      simp only [List.append_assoc] at this
      rw [this]
  · rename_i c rest h1 h2 h3
    cases hs
    refine ⟨by simpa using (startsIdent_identStart c (serializeName rest ++ r)).1, fun f hf => ?_⟩
    have := identStart_rt c rest r hr f (by simpa using hf)
    simpa using this

/-! ## urls -/

/-- a code point that stands for itself inside an unquoted url -/
def urlPlain (c : Char) : Bool := c != ')' && !isWs c && c != '\\' && !isUrlBad c

theorem escUrl_shape (c : Char) (h0 : c ≠ '\x00') :
    (escUrl c = [c] ∧ urlPlain c = true) ∨
    (∃ tail, escUrl c = '\\' :: tail ∧
      ∀ rest, validEscTail (tail ++ rest) = true ∧ consumeEscape (tail ++ rest) = (c, rest)) := by
  have esc1 : ∀ d : Char, isHex d = false → d ≠ '\n' →
      ∀ rest, validEscTail ([d] ++ rest) = true ∧ consumeEscape ([d] ++ rest) = (d, rest) :=
    fun d hx hn rest => ⟨validEscTail_cons d rest hn, by simp [consumeEscape, hx]⟩
  by_cases h1 : c = '\''
  · subst h1; exact Or.inr ⟨['\''], by decide, esc1 _ (by decide) (by decide)⟩
  by_cases h2 : c = '"'
  · subst h2; exact Or.inr ⟨['"'], by decide, esc1 _ (by decide) (by decide)⟩
  by_cases h3 : c = '\\'
  · subst h3; exact Or.inr ⟨['\\'], by decide, esc1 _ (by decide) (by decide)⟩
  by_cases h4 : c = ' '
  · subst h4; exact Or.inr ⟨[' '], by decide, esc1 _ (by decide) (by decide)⟩
  by_cases h5 : c = '\t'
  · subst h5
    exact Or.inr ⟨['9', ' '], by decide, fun rest => ⟨by simp [validEscTail], by
      simp [consumeEscape, isHex, isDigit, takeHex, hexVal, isWs, escChar]⟩⟩
  by_cases h6 : c = '\n'
  · subst h6; exact Or.inr ⟨['A', ' '], by decide, fun rest => ⟨by simp [validEscTail], hexEsc_A rest⟩⟩
  by_cases h7 : c = '\r'
  · subst h7; exact Or.inr ⟨['D', ' '], by decide, fun rest => ⟨by simp [validEscTail], hexEsc_D rest⟩⟩
  by_cases h8 : c = '\x0c'
  · subst h8; exact Or.inr ⟨['C', ' '], by decide, fun rest => ⟨by simp [validEscTail], hexEsc_C rest⟩⟩
  by_cases h9 : c = '('
  · subst h9; exact Or.inr ⟨['('], by decide, esc1 _ (by decide) (by decide)⟩
  by_cases h10 : c = ')'
  · subst h10; exact Or.inr ⟨[')'], by decide, esc1 _ (by decide) (by decide)⟩
  by_cases h11 : c.toNat ≤ 0x1F ∨ c.toNat = 0x7F
  · right
    have hlt : c.toNat < 128 := by omega
    have hne : c.toNat ≠ 0 := by
      intro h; apply h0
      rw [← Char.ofNat_toNat c, h]
    obtain ⟨d, ds, hds, hd⟩ := hexUpper_head_hex c hlt
    refine ⟨hexUpper c.toNat ++ [' '], by simp only [escUrl, h1, h2, h3, h4, h5, h6, h7, h8, h9, h10, h11]; simp, fun rest => ?_⟩
    constructor
    · rw [hds]; exact validEscTail_cons d _ (by intro h; subst h; simp [isHex, isDigit] at hd)
    · simpa using hexEsc_char c rest hne hlt
  · left
    refine ⟨by simp only [escUrl, h1, h2, h3, h4, h5, h6, h7, h8, h9, h10, h11]; simp, ?_⟩
    simp only [not_or, Nat.not_le] at h11
    simp [urlPlain, isWs, isUrlBad, isNonPrintable, h1, h2, h3, h4, h5, h6, h9, h10]
    try omega

theorem cu_plain (q : Quirks) (f : Nat) (c : Char) (rest : Str) (h : urlPlain c = true) :
    consumeUrlBody q (f + 1) (c :: rest)
      = (c :: (consumeUrlBody q f rest).1, (consumeUrlBody q f rest).2) := by
  simp [urlPlain] at h
  simp [consumeUrlBody, h]

theorem cu_escape (q : Quirks) (f : Nat) (tail rest' : Str) (d : Char) (hv : validEscTail tail = true)
    (he : consumeEscape tail = (d, rest')) :
    consumeUrlBody q (f + 1) ('\\' :: tail)
      = (d :: (consumeUrlBody q f rest').1, (consumeUrlBody q f rest').2) := by
  simp [consumeUrlBody, isWs, hv, he]

theorem urlBody_rt (q : Quirks) (s r : Str) (h0 : ∀ c ∈ s, c ≠ '\x00') (f : Nat)
    (hf : (serializeUrl s ++ ')' :: r).length ≤ f) :
    consumeUrlBody q f (serializeUrl s ++ ')' :: r) = (s, .closed, r) := by
  induction s generalizing f with
  | nil =>
    cases f with
    | zero => simp at hf
    | succ f => simp [serializeUrl, consumeUrlBody]
  | cons c cs ih =>
    have hs : serializeUrl (c :: cs) ++ ')' :: r = escUrl c ++ (serializeUrl cs ++ ')' :: r) := by
      simp [serializeUrl]
    rw [hs] at hf ⊢
    have hc0 := h0 c (by simp)
    have ih' := fun f hf => ih (fun x hx => h0 x (by simp [hx])) f hf
    rcases escUrl_shape c hc0 with ⟨he, hp⟩ | ⟨tail, he, hrest⟩
    · rw [he] at hf ⊢
      cases f with
      | zero => simp at hf
      | succ f =>
        simp only [List.cons_append, List.nil_append]
        rw [cu_plain q f c _ hp, ih' f (by simp only [List.length_append, List.length_cons] at hf ⊢; omega)]
    · rw [he] at hf ⊢
      cases f with
      | zero => simp at hf
      | succ f =>
        obtain ⟨hv, hc⟩ := hrest (serializeUrl cs ++ ')' :: r)
        simp only [List.cons_append] at hf ⊢
        rw [cu_escape q f _ _ c hv hc, ih' f (by simp only [List.length_append, List.length_cons] at hf ⊢; omega)]

/-- the text written for a url never starts with white space or a quote -/
theorem url_head (s r : Str) (h0 : ∀ c ∈ s, c ≠ '\x00') :
    ∃ h t, serializeUrl s ++ ')' :: r = h :: t ∧ isWs h = false ∧ h ≠ '"' ∧ h ≠ '\'' := by
  cases s with
  | nil => exact ⟨')', r, by simp [serializeUrl], by decide, by decide, by decide⟩
  | cons c cs =>
    have hs : serializeUrl (c :: cs) ++ ')' :: r = escUrl c ++ (serializeUrl cs ++ ')' :: r) := by
      simp [serializeUrl]
    rw [hs]
    rcases escUrl_shape c (h0 c (by simp)) with ⟨he, hp⟩ | ⟨tail, he, _⟩
    · rw [he]
      simp [urlPlain, isUrlBad] at hp
      refine ⟨c, _, rfl, by simp [hp], ?_, ?_⟩ <;> grind
    · rw [he]; exact ⟨'\\', _, rfl, by decide, by decide, by decide⟩

/-- P1 (urls): for EVERY string `s` without NUL, `url(` + the text written for `s` + `)` is consumed as
the url token `s` -/
theorem url_rt (q : Quirks) (pos : Nat) (s r : Str) (h0 : ∀ c ∈ s, c ≠ '\x00') :
    consumeUrl q pos (serializeUrl s ++ ')' :: r) = ([Tok.url pos s false], r) := by
  obtain ⟨h, t, hht, hws, _, _⟩ := url_head s r h0
  have htw : WR.C06.takeWhile isWs (serializeUrl s ++ ')' :: r) = ([], serializeUrl s ++ ')' :: r) := by
    rw [hht]; simp [WR.C06.takeWhile, hws]
  unfold consumeUrl
  simp only [htw]
  rw [urlBody_rt q s r h0 _ (Nat.le_refl _)]

/-! ## units of dimensions -/

theorem escName_head (d : Char) (h1 : d ≠ '-') (h2 : isDigit d = false) :
    ∃ h t, escName d = h :: t ∧ h ≠ '+' ∧ h ≠ '-' ∧ isDigit h = false := by
  by_cases hp : (isLetter d || d = '-' || d = '_' || isDigit d) = true
  · refine ⟨d, [], by simp only [escName, hp, if_true], ?_, h1, h2⟩
    intro h; subst h; simp [isLetter, isDigit] at hp
  by_cases hn : d = '\n'
  · subst hn; exact ⟨'\\', ['A', ' '], by decide, by decide, by decide, by decide⟩
  by_cases hr : d = '\r'
  · subst hr; exact ⟨'\\', ['D', ' '], by decide, by decide, by decide, by decide⟩
  by_cases hf : d = '\x0c'
  · subst hf; exact ⟨'\\', ['C', ' '], by decide, by decide, by decide, by decide⟩
  by_cases hu : d.toNat > 0x7F
  · refine ⟨d, [], by simp only [escName, hp, hn, hr, hf, hu]; simp, ?_, h1, h2⟩
    intro h; subst h; simp at hu
  · exact ⟨'\\', [d], by simp only [escName, hp, hn, hr, hf, hu]; simp, by decide, by decide, by decide⟩

theorem takeExp_inert (c h : Char) (t : Str) (h1 : h ≠ '+') (h2 : h ≠ '-') (h3 : isDigit h = false) :
    takeExp (c :: h :: t) = ([], c :: h :: t) := by
  simp [takeExp, takeSign, h1, h2, WR.C06.takeWhile, h3]

theorem takeExp_not_e (c : Char) (t : Str) (h1 : c ≠ 'e') (h2 : c ≠ 'E') : takeExp (c :: t) = ([], c :: t) := by
  simp [takeExp, h1, h2]

/-- P1 (units): for EVERY non-empty unit `u`, the text written after the number starts an identifier,
is consumed as exactly `u`, and cannot be read as the exponent of the number before it -/
theorem unit_rt (u t r : Str) (hs : serializeUnit u = some t) (hr : stopsName r) :
    startsIdent (t ++ r) = true ∧ (∀ f, (t ++ r).length ≤ f → consumeName f (t ++ r) = (u, r)) ∧
    takeExp (t ++ r) = ([], t ++ r) := by
  cases u with
  | nil => simp [serializeUnit] at hs
  | cons c rest =>
    simp only [serializeUnit] at hs
    split at hs
    · -- escaped first letter
      rename_i hcond
      simp only [Bool.and_eq_true, Bool.or_eq_true, decide_eq_true_eq] at hcond
      have hesc : ∀ X, consumeEscape ((if c = 'e' then ['6', '5', ' '] else ['4', '5', ' ']) ++ X) = (c, X) := by
        intro X
        rcases hcond.1 with h | h <;> subst h <;>
          simp [consumeEscape, isHex, isDigit, takeHex, hexVal, isWs, escChar]
      have hv : ∀ X, validEscTail ((if c = 'e' then ['6', '5', ' '] else ['4', '5', ' ']) ++ X) = true := by
        intro X; split <;> simp [validEscTail]
      have ht : t = '\\' :: ((if c = 'e' then ['6', '5', ' '] else ['4', '5', ' ']) ++ serializeName rest) := by
        cases hs; split <;> simp
      subst ht
      refine ⟨?_, fun f hf => ?_, ?_⟩
      · have := hv (serializeName rest ++ r)
        simp only [List.cons_append, List.append_assoc]
        simp [startsIdent, isNameStart, isLetter, this]
      · cases f with
        | zero => simp at hf
        | succ f =>
          simp only [List.cons_append, List.append_assoc] at hf ⊢
          rw [cn_escape f _ _ c (hv _) (hesc _), name_rt rest r hr f (by
            revert hf; split <;> simp only [List.length_append, List.length_cons, List.length_nil] <;> omega)]
      · exact takeExp_not_e _ _ (by decide) (by decide)
    · rename_i hcond
      obtain ⟨h1, h2⟩ := ident_rt (c :: rest) t r hs hr
      refine ⟨h1, h2, ?_⟩
      -- the text starts with `\`, `-`, or the first letter itself
      by_cases hce : c = 'e' ∨ c = 'E'
      · -- then the next code point is neither `-` nor a digit, nor is the unit finished
        have hne : expLike rest = false := by
          rcases hce with h | h <;> subst h <;> simpa using hcond
        cases rest with
        | nil => simp [expLike] at hne
        | cons d rest' =>
          simp only [expLike, Bool.or_eq_false_iff, decide_eq_false_iff_not] at hne
          obtain ⟨h, tl, hesc, g1, g2, g3⟩ := escName_head d hne.1 hne.2
          have ht : t = c :: (escName d ++ serializeName rest') := by
            rcases hce with h | h <;> subst h <;>
              (simp only [serializeIdentifier] at hs; cases hs; simp [escIdentStart, isLetter, serializeName])
          subst ht
          rw [hesc]
          simp only [List.cons_append]
          exact takeExp_inert c h _ g1 g2 g3
      · simp only [not_or] at hce
        -- the first character written is `\`, `-` or `c` itself, never `e`/`E`
        have : ∃ h tl, t ++ r = h :: tl ∧ h ≠ 'e' ∧ h ≠ 'E' := by
          by_cases hd : c = '-'
          · subst hd
            cases rest with
            | nil => simp only [serializeIdentifier] at hs; cases hs; exact ⟨'\\', _, rfl, by decide, by decide⟩
            | cons b bs =>
              by_cases hb : b = '-'
              · subst hb; simp only [serializeIdentifier] at hs; cases hs
                exact ⟨'-', _, rfl, by decide, by decide⟩
              · have : serializeIdentifier ('-' :: b :: bs) = some ('-' :: escIdentStart b ++ serializeName bs) := by
                  unfold serializeIdentifier; split <;> simp_all <;> (exfalso; grind)
                rw [this] at hs; cases hs
                exact ⟨'-', _, rfl, by decide, by decide⟩
          · have : serializeIdentifier (c :: rest) = some (escIdentStart c ++ serializeName rest) := by
              unfold serializeIdentifier; split <;> simp_all
            rw [this] at hs; cases hs
            rcases escIdentStart_shape c with ⟨he, _⟩ | ⟨tail, he, _⟩
            · rw [he]; exact ⟨c, _, rfl, hce.1, hce.2⟩
            · rw [he]; exact ⟨'\\', _, rfl, by decide, by decide⟩
        obtain ⟨h, tl, hh, g1, g2⟩ := this
        rw [hh]; exact takeExp_not_e h tl g1 g2
end WR.C20
