/-
  C20 — token-level round trips: the text serialize.go writes for a string / identifier / url /
  unit is turned back into that very token by one step of the C06 tokenizer.
-/
import WR.C20.RoundTrip
import WR.C06.Progress
namespace WR.C20
open WR.C06 List
set_option linter.unusedSimpArgs false

theorem string_rt (s r : Str) (f : Nat) (hf : (serializeString s ++ '"' :: r).length ≤ f) :
    consumeString '"' f (serializeString s ++ '"' :: r) = (s, .closed, r) := by
  induction s generalizing f with
  | nil =>
    cases f with
    | zero => simp at hf
    | succ f => simp [serializeString, consumeString]
  | cons c cs ih =>
    have hs : serializeString (c :: cs) ++ '"' :: r = escString c ++ (serializeString cs ++ '"' :: r) := by
      simp [serializeString]
    rw [hs] at hf ⊢
    obtain ⟨f', hf', heq⟩ := consumeString_escString f c (serializeString cs ++ '"' :: r) hf
    rw [heq, ih f' hf']

theorem startsURange_head (h : Char) (tl : Str) (h1 : h ≠ 'u') (h2 : h ≠ 'U') : startsURange (h :: tl) = false := by
  unfold startsURange; split <;> simp_all

theorem take3_head (h : Char) (tl : Str) (h1 : h ≠ '-') : ((h :: tl).take 3 == ['-', '-', '>']) = false := by
  cases tl with
  | nil => simp [h1]
  | cons a tl => cases tl <;> simp [h1]

theorem consumeNumber_head (h : Char) (tl : Str) (h1 : h ≠ '+') (h2 : h ≠ '-') (h3 : h ≠ '.')
    (h4 : isDigit h = false) : consumeNumber (h :: tl) = none := by
  have hf : takeFrac (h :: tl) = ([], h :: tl) := by
    unfold takeFrac; split <;> simp_all
  simp [consumeNumber, takeSign, h1, h2, WR.C06.takeWhile, h4, hf]

/-- P1 (strings, token level): the text written for the string `s` is tokenized as that string token,
whatever follows -/
theorem string_step (total : Nat) (s r : Str) :
    step Quirks.spec total ('"' :: serializeString s ++ '"' :: r)
      = .leaf [Tok.str (total - ('"' :: serializeString s ++ '"' :: r).length) s false] r := by
  have hrt := string_rt s r _ (Nat.le_refl (serializeString s ++ '"' :: r).length)
  simp only [List.cons_append]
  unfold step
  simp only []
  rw [if_neg (by decide), startsURange_head _ _ (by decide) (by decide), take3_head _ _ (by decide)]
  simp only [Bool.false_eq_true, if_false]
  rw [if_neg (by simp [startsIdent, isNameStart, isLetter]),
    consumeNumber_head _ _ (by decide) (by decide) (by decide) (by decide)]
  simp only []
  unfold stepPunct
  rw [if_neg (by decide), if_neg (by decide), if_neg (by decide), if_neg (by decide), if_neg (by decide),
    if_neg (by decide), if_pos (by decide)]
  simp only [hrt]

theorem startsIdent_not_ws (h : Char) (tl : Str) (hs : startsIdent (h :: tl) = true) : isWs h = false := by
  by_cases hw : isWs h = true
  · exfalso
    simp [isWs] at hw
    rcases hw with (rfl | rfl) | rfl <;> simp [startsIdent, isNameStart, isLetter] at hs
  · simpa using hw

/-- P1 (identifiers, token level).  The two exclusions are exactly the unrepaired findings:
`u` `+` hex-digit/`?` reads as a unicode-range, `--` `>` reads as CDC. -/
theorem ident_step (total : Nat) (s t r : Str) (hs : serializeIdentifier s = some t) (hr : stopsName r)
    (hparen : ∀ r', r ≠ '(' :: r')
    (hur : startsURange (t ++ r) = false) (hcdc : ((t ++ r).take 3 == ['-', '-', '>']) = false) :
    step Quirks.spec total (t ++ r) = .leaf [Tok.ident (total - (t ++ r).length) s] r := by
  obtain ⟨h1, h2⟩ := ident_rt s t r hs hr
  have h2' := h2 _ (Nat.le_refl _)
  generalize hx : t ++ r = inp at *
  cases inp with
  | nil => simp [startsIdent] at h1
  | cons h tl =>
    have hws := startsIdent_not_ws h tl h1
    unfold step
    simp only []
    rw [if_neg (by simp [hws]), hur, hcdc]
    simp only [Bool.false_eq_true, if_false]
    rw [if_pos h1]
    unfold consumeIdentLike
    simp only [h2']

/-- P1 (dimensions): after any number, the text written for the unit `u` makes the token a dimension
with exactly that unit (and `unit_rt` shows it cannot extend the number as an exponent) -/
theorem dim_numeric (pos : Nat) (repr : Str) (isInt : Bool) (u t r : Str)
    (hs : serializeUnit u = some t) (hr : stopsName r) :
    consumeNumeric pos repr isInt (t ++ r) = .leaf [Tok.dim pos repr isInt u] r := by
  obtain ⟨h1, h2, _⟩ := unit_rt u t r hs hr
  unfold consumeNumeric
  rw [if_pos h1]
  simp only [h2 _ (Nat.le_refl _)]

/-- P1 (urls, token level): `url(` + the text written for `s` + `)` is tokenized as the url token `s` -/
theorem url_step (total : Nat) (s r : Str) (h0 : ∀ c ∈ s, c ≠ '\x00') :
    step Quirks.spec total ('u' :: 'r' :: 'l' :: '(' :: (serializeUrl s ++ ')' :: r))
      = .leaf [Tok.url (total - ('u' :: 'r' :: 'l' :: '(' :: (serializeUrl s ++ ')' :: r)).length) s false] r := by
  obtain ⟨h, t, hht, hws, hq1, hq2⟩ := url_head s r h0
  have hrt := url_rt Quirks.spec (total - ('u' :: 'r' :: 'l' :: '(' :: (serializeUrl s ++ ')' :: r)).length) s r h0
  have htw : WR.C06.takeWhile isWs (serializeUrl s ++ ')' :: r) = ([], serializeUrl s ++ ')' :: r) := by
    rw [hht]; simp [WR.C06.takeWhile, hws]
  have hsq : startsQuote (serializeUrl s ++ ')' :: r) = false := by
    rw [hht]; simp [startsQuote, hq1, hq2]
  unfold step
  simp only []
  rw [if_neg (by decide), if_neg (by simp [startsURange]), take3_head _ _ (by decide)]
  simp only [Bool.false_eq_true, if_false]
  rw [if_pos (by simp [startsIdent, isNameStart, isLetter])]
  unfold consumeIdentLike
  have hn : consumeName ('u' :: 'r' :: 'l' :: '(' :: (serializeUrl s ++ ')' :: r)).length
      ('u' :: 'r' :: 'l' :: '(' :: (serializeUrl s ++ ')' :: r)) = (['u', 'r', 'l'], '(' :: (serializeUrl s ++ ')' :: r)) := by
    simp [consumeName, isNameChar, isNameStart, isLetter, isDigit]
  simp only [hn]
  rw [if_pos (by simp [htw, hsq]; decide)]
  simp only [hrt]
end WR.C20
