/-
  C20 — model of the rule-level serializers of serialize.go: QualifiedRule, AtRule, Declaration.
-/
import WR.C20.Serialize
import WR.C06.Parser
namespace WR.C20
open WR.C06

/-- (t QualifiedRule / AtRule / Declaration).serializeTo; `none` for the other compounds or when
the Go code would panic -/
def serCompound (tbl : Pairs) : Compound → Option Str
  | .qrule _ pre content =>
    match serList tbl [] pre, serList tbl [] content with
    | some a, some b => some (a ++ '{' :: b ++ ['}'])
    | _, _ => none
  | .atrule _ kw pre content =>
    -- the keyword is serialized together with the prelude, as one token list (commit eac44a9), so
    -- the separator table applies between them
    match serList tbl [] (Tok.atkw 0 kw :: pre) with
    | some a =>
      match content with
      | none => some (a ++ [';'])
      | some c =>
        match serList tbl [] c with
        | some b => some (a ++ '{' :: b ++ ['}'])
        | none => none
    | none => none
  | .decl _ name value imp =>
    match serializeIdentifier name, serList tbl [] value with
    | some n, some v => some (n ++ ':' :: v ++ (if imp then "!important".toList else []))
    | _, _ => none
  | _ => none

def isRuleLike : Compound → Bool
  | .qrule .. => true
  | .atrule .. => true
  | .decl .. => true
  | _ => false

end WR.C20
